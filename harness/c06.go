package main

// C06 — Encoder enforces the grammar; a rejected call has no effect.
//
// Correspondence (Tie B):
//   * jsontext.stateMachine (through the verif hook VerifMachine) vs the Lean model, family `sm`:
//     every op sequence over {l s n { } [ ]} of the exhaustive length (raw words compared after every op),
//     sequences with DisableNamespace/InvalidateDisabledNamespaces, long random walks, needDelim/NeedIndent/
//     MayAppendDelim for every state x next kind, the 10000/10001 push boundary;
//   * jsontext.Encoder.WriteToken/WriteValue vs the Lean model, family `enc`: every script up to the exhaustive
//     length over a 20-symbol alphabet of tokens and raw values x 6 option sets, random scripts up to length 40,
//     sweeps over raw strings / raw numbers / nested raw values, the depth limit.
// Predicates evaluated on the implementation:
//   (i)   a rejected call changes nothing observable (offset, depth, every stack index, pointer, buffered and delivered
//         bytes, raw machine words) and the run equals the run from which the rejected calls were deleted;
//   (ii)  a call is rejected iff an independent Go reference of the grammar (PDA + validity of strings/raw values)
//         rejects it;
//   (iii) whenever the depth returns to 0 the delivered bytes are an independent rendering of the accepted tokens
//         under the options, one newline-terminated top-level value each.

import (
	"bytes"
	"errors"
	"fmt"
	"io"
	"math/rand/v2"
	"strconv"
	"strings"
	"sync"
	"time"
	"unicode/utf8"

	json "github.com/go-json-experiment/json"
	"github.com/go-json-experiment/json/internal"
	"github.com/go-json-experiment/json/internal/jsonwire"
	"github.com/go-json-experiment/json/jsontext"
)

func init() { register("C06", runC06) }

func runC06(c *Ctx) {
	phase := func(name string, f func(*Ctx)) {
		t0 := time.Now()
		f(c)
		c.Note("phase %s: %.1fs", name, time.Since(t0).Seconds())
	}
	phase("sm-exhaustive", c06SmExhaustive)
	phase("sm-namespace", c06SmNamespace)
	phase("sm-random", c06SmRandom)
	phase("sm-delim", c06SmDelim)
	phase("sm-depth", c06SmDepth)
	phase("namespace", c06NamespacePredicate)
	phase("enc-scripts", c06EncAll)
	phase("validators", func(c *Ctx) { c06Validators(c, c06Jobs) })
	phase("enc-depth", c06EncDepth)
}

// ---------------------------------------------------------------------------------------------
// parallel oracle batches

// c06Par splits jobs into chunks handled by workers, each with its own oracle (nil if unavailable).
func c06Par(c *Ctx, n int, chunk int, f func(or *Oracle, lo, hi int, w int)) {
	workers := 4 // the quick tier shares the machine with other checks
	if c.Thorough() {
		workers = 16
	}
	if n/chunk+1 < workers {
		workers = n/chunk + 1
	}
	var mu sync.Mutex
	next := 0
	var wg sync.WaitGroup
	var perr any
	for w := 0; w < workers; w++ {
		wg.Add(1)
		go func(w int) {
			defer wg.Done()
			defer func() {
				if r := recover(); r != nil {
					mu.Lock()
					if perr == nil {
						perr = r
					}
					mu.Unlock()
				}
			}()
			or := c.NewOracle()
			for {
				mu.Lock()
				lo := next
				next += chunk
				mu.Unlock()
				if lo >= n {
					return
				}
				hi := lo + chunk
				if hi > n {
					hi = n
				}
				f(or, lo, hi, w)
			}
		}(w)
	}
	wg.Wait()
	if perr != nil {
		panic(perr)
	}
}

// ---------------------------------------------------------------------------------------------
// state machine correspondence

const c06SmOps = "lsn{}[]"

func c06SmApply(m *jsontext.VerifMachine, op byte) int {
	var err error
	switch op {
	case 'l':
		err = m.AppendLiteral()
	case 's':
		err = m.AppendString()
	case 'n':
		err = m.AppendNumber()
	case '{':
		err = m.PushObject()
	case '}':
		err = m.PopObject()
	case '[':
		err = m.PushArray()
	case ']':
		err = m.PopArray()
	case 'D':
		m.DisableNamespace()
	case 'I':
		m.InvalidateDisabledNamespaces()
	default:
		fail("bad sm op %q", op)
	}
	return jsontext.VerifErrClass(err)
}

func c06Stack(ws []uint64) string {
	if len(ws) == 0 {
		return "-"
	}
	var sb strings.Builder
	for i, w := range ws {
		if i > 0 {
			sb.WriteByte(',')
		}
		fmt.Fprintf(&sb, "%x", w)
	}
	return sb.String()
}

// c06SmTrace runs ops on the real machine and renders the `sm trace` answer; it also checks the
// "rejected op leaves the words unchanged" predicate directly on the implementation.
func c06SmTrace(c *Ctx, ops string) string {
	var sb strings.Builder
	var m *jsontext.VerifMachine
	if p := guard(func() {
		m = jsontext.NewVerifMachine()
		for i := 0; i < len(ops); i++ {
			lastBefore, depthBefore := m.Last(), m.Depth()
			var stackBefore []uint64
			if len(ops) <= 12 {
				stackBefore = m.Stack()
			}
			code := c06SmApply(m, ops[i])
			if code != 0 {
				if m.Last() != lastBefore || m.Depth() != depthBefore || (stackBefore != nil && c06Stack(stackBefore) != c06Stack(m.Stack())) {
					c.Violate("sm-reject-mutates", "stateMachine."+string(ops[i]), []byte(ops[:i+1]), map[string]any{"ops": ops[:i+1], "code": code})
				}
			}
			if i > 0 {
				sb.WriteByte(' ')
			}
			fmt.Fprintf(&sb, "%d:%x:%d", code, m.Last(), m.Depth())
		}
		sb.WriteString(" | ")
		sb.WriteString(c06Stack(m.Stack()))
	}); p != nil {
		c.Panic("stateMachine", []byte(ops), p, map[string]any{"ops": ops})
		return "panic"
	}
	return sb.String()
}

func c06SmCompare(c *Ctx, or *Oracle, seqs []string) {
	if or == nil {
		for _, s := range seqs {
			c06SmTrace(c, s)
			c.Case("sm:"+s, len(s) >= 2)
		}
		return
	}
	lines := make([]string, len(seqs))
	for i, s := range seqs {
		lines[i] = "sm trace " + s
	}
	ans := or.Ask(lines)
	for i, s := range seqs {
		got := c06SmTrace(c, s)
		c.Case("sm:"+s, len(s) >= 2)
		if got != ans[i] {
			c.Violate("corr-sm", "stateMachine", []byte(s), map[string]any{"ops": s, "impl": trunc(got, 400), "model": trunc(ans[i], 400)})
		}
	}
}

func c06SmExhaustive(c *Ctx) {
	L := c.N(7, 9)
	n := 1
	for i := 0; i < L; i++ {
		n *= len(c06SmOps)
	}
	c.Note("sm: every sequence over %q of length %d (all shorter ones are prefixes; words compared after every op): %d traces", c06SmOps, L, n)
	c06Par(c, n, 4000, func(or *Oracle, lo, hi, w int) {
		seqs := make([]string, 0, hi-lo)
		buf := make([]byte, L)
		for k := lo; k < hi; k++ {
			x := k
			for i := L - 1; i >= 0; i-- {
				buf[i] = c06SmOps[x%len(c06SmOps)]
				x /= len(c06SmOps)
			}
			seqs = append(seqs, string(buf))
		}
		c06SmCompare(c, or, seqs)
	})
	c.HitN("sm/exhaustive-traces", int64(n))
}

func c06SmNamespace(c *Ctx) {
	const ops = "lsn{}[]DI"
	L := c.N(5, 7)
	n := 1
	for i := 0; i < L; i++ {
		n *= len(ops)
	}
	c06Par(c, n, 4000, func(or *Oracle, lo, hi, w int) {
		seqs := make([]string, 0, hi-lo)
		buf := make([]byte, L)
		for k := lo; k < hi; k++ {
			x := k
			for i := L - 1; i >= 0; i-- {
				buf[i] = ops[x%len(ops)]
				x /= len(ops)
			}
			seqs = append(seqs, string(buf))
		}
		c06SmCompare(c, or, seqs)
	})
	c.HitN("sm/namespace-traces", int64(n))
}

func c06SmRandom(c *Ctx) {
	n := c.N(3000, 60000)
	seqs := make([]string, n)
	r := c.SubRng(601)
	for i := range seqs {
		L := 10 + r.IntN(300)
		var sb []byte
		// a shadow stack makes most ops valid so that the walk gets deep
		var st []byte // '{' or '['
		cnt := []int{0}
		for j := 0; j < L; j++ {
			if r.IntN(8) == 0 {
				sb = append(sb, "lsn{}[]DI"[r.IntN(9)])
				// keep the shadow approximately right: recompute lazily by ignoring (errors are fine)
				continue
			}
			top := byte('[')
			if len(st) > 0 {
				top = st[len(st)-1]
			}
			k := cnt[len(cnt)-1]
			var op byte
			switch {
			case top == '{' && k%2 == 0:
				if r.IntN(4) == 0 {
					op = '}'
				} else {
					op = 's'
				}
			default:
				op = "lsn{{[[]"[r.IntN(8)]
				if op == ']' && (len(st) == 0 || top != '[') {
					op = 'n'
				}
			}
			sb = append(sb, op)
			switch op {
			case '{', '[':
				cnt[len(cnt)-1]++
				st = append(st, op)
				cnt = append(cnt, 0)
			case '}', ']':
				if len(st) > 0 {
					st = st[:len(st)-1]
					cnt = cnt[:len(cnt)-1]
				}
			default:
				cnt[len(cnt)-1]++
			}
		}
		seqs[i] = string(sb)
	}
	c06Par(c, n, 500, func(or *Oracle, lo, hi, w int) { c06SmCompare(c, or, seqs[lo:hi]) })
	c.HitN("sm/random-walks", int64(n))
}

var c06Kinds = []byte{'n', 'f', 't', '"', '0', '{', '}', '[', ']'}

func c06SmDelim(c *Ctx) {
	L := c.N(4, 6)
	var seqs []string
	var gen func(p string)
	gen = func(p string) {
		seqs = append(seqs, p)
		if len(p) == L {
			return
		}
		for i := 0; i < len(c06SmOps); i++ {
			gen(p + string(c06SmOps[i]))
		}
	}
	gen("")
	c06Par(c, len(seqs), 1000, func(or *Oracle, lo, hi, w int) {
		var lines, keys []string
		var got []string
		for _, s := range seqs[lo:hi] {
			m := jsontext.NewVerifMachine()
			for i := 0; i < len(s); i++ {
				c06SmApply(m, s[i])
			}
			for _, k := range c06Kinds {
				ops := s
				if ops == "" {
					ops = "-"
				}
				lines = append(lines, fmt.Sprintf("sm q %s %x", ops, k))
				keys = append(keys, s+"/"+string(k))
				var d byte
				var ind int
				var mad []byte
				if p := guard(func() {
					d = m.NeedDelim(jsontext.Kind(k))
					ind = m.NeedIndent(jsontext.Kind(k))
					mad = m.MayAppendDelim(nil, jsontext.Kind(k))
				}); p != nil {
					c.Panic("needDelim", []byte(s), p, nil)
				}
				got = append(got, fmt.Sprintf("%d %d %s", d, ind, hx(mad)))
				// predicate on the implementation: MayAppendDelim appends exactly needDelim
				if (d == 0) != (len(mad) == 0) || (d != 0 && mad[0] != d) {
					c.Violate("delim-inconsistent", "MayAppendDelim", []byte(s), map[string]any{"ops": s, "next": string(k)})
				}
			}
		}
		if or == nil {
			return
		}
		ans := or.Ask(lines)
		for i := range lines {
			c.Case("smq:"+keys[i], true)
			if ans[i] != got[i] {
				c.Violate("corr-sm-delim", "needDelim/NeedIndent", []byte(keys[i]), map[string]any{"state/next": keys[i], "impl": got[i], "model": ans[i]})
			}
		}
	})
	c.HitN("sm/delim-queries", int64(len(seqs)*len(c06Kinds)))
}

func c06SmDepth(c *Ctx) {
	var okN, code, depth int
	if p := guard(func() {
		m := jsontext.NewVerifMachine()
		for i := 0; i < 10001; i++ {
			code = jsontext.VerifErrClass(m.PushArray())
			if code == 0 {
				okN++
			}
		}
		depth = m.Depth()
	}); p != nil {
		c.Panic("pushArray", nil, p, nil)
	}
	got := fmt.Sprintf("%d %d %d", okN, code, depth)
	c.Case("sm:push10001", true)
	if got != "10000 3 10001" {
		c.Violate("depth-limit", "stateMachine.pushArray", nil, map[string]any{"got": got, "want": "10000 3 10001"})
	}
	if or := c.NewOracle(); or != nil {
		if a := or.Ask1("sm push 10001"); a != got {
			c.Violate("corr-sm-depth", "stateMachine.pushArray", nil, map[string]any{"impl": got, "model": a})
		}
	}
	c.Hit("sm/depth-10001")
}

// ---------------------------------------------------------------------------------------------
// encoder: calls, options, driving the implementation

type c06Call struct {
	tok   bool
	kind  byte           // for tokens: n f t " 0 { } [ ]
	data  []byte         // string contents / number text / raw value
	num   jsontext.Token // the number token whose rendered text is data
	reset bool           // Encoder.Reset(fresh writer, same options)
}

func (k c06Call) wire() string {
	if k.reset {
		return "R"
	}
	if !k.tok {
		return "V:" + hx(k.data)
	}
	switch k.kind {
	case '"':
		return "T:s:" + hx(k.data)
	case '0':
		return "T:0:" + hx(k.data)
	}
	return "T:" + string(k.kind)
}

func (k c06Call) String() string {
	if k.reset {
		return "Reset"
	}
	if !k.tok {
		return fmt.Sprintf("V(%q)", c06Short(k.data))
	}
	switch k.kind {
	case '"':
		return fmt.Sprintf("S(%q)", c06Short(k.data))
	case '0':
		return fmt.Sprintf("N(%s)", k.data)
	}
	return string(k.kind)
}

// token builds the jsontext.Token; number tokens are built so that their rendered text is k.data.
func (k c06Call) token() jsontext.Token {
	switch k.kind {
	case 'n':
		return jsontext.Null
	case 'f':
		return jsontext.False
	case 't':
		return jsontext.True
	case '"':
		return jsontext.String(string(k.data))
	case '0':
		return k.num
	case '{':
		return jsontext.BeginObject
	case '}':
		return jsontext.EndObject
	case '[':
		return jsontext.BeginArray
	case ']':
		return jsontext.EndArray
	}
	fail("bad token kind %q", k.kind)
	return jsontext.Token{}
}

// c06Short abbreviates long runs for reports (the exact bytes are in input_hex).
func c06Short(b []byte) string {
	if len(b) <= 80 {
		return string(b)
	}
	return fmt.Sprintf("%s…(%d bytes)…%s", b[:30], len(b), b[len(b)-30:])
}

func c06T(kind byte, data string) c06Call { return c06Call{tok: true, kind: kind, data: []byte(data)} }
func c06V(raw string) c06Call             { return c06Call{data: []byte(raw)} }

// c06Num makes a number token call whose data is the text the library renders for it.
func c06Num(t jsontext.Token) c06Call {
	return c06Call{tok: true, kind: '0', data: []byte(t.String()), num: t}
}

type c06Opts struct {
	name string
	opts []jsontext.Options
	// effective values, read back from the encoder
	allowDup, allowBadUTF8, multiline, spColon, spComma, html, js bool
	indent, prefix                                                string
}

func (o *c06Opts) wire() string {
	b := func(x bool) byte {
		if x {
			return '1'
		}
		return '0'
	}
	return string([]byte{b(o.allowDup), b(o.allowBadUTF8), b(o.multiline), b(o.spColon), b(o.spComma), b(o.html), b(o.js)}) +
		":" + hx([]byte(o.indent)) + ":" + hx([]byte(o.prefix))
}

func c06MkOpts(name string, opts ...jsontext.Options) *c06Opts {
	o := &c06Opts{name: name, opts: opts}
	if p := guard(func() {
		e := jsontext.NewEncoder(io.Discard, opts...)
		eo := e.Options()
		o.allowDup, _ = json.GetOption(eo, jsontext.AllowDuplicateNames)
		o.allowBadUTF8, _ = json.GetOption(eo, jsontext.AllowInvalidUTF8)
		o.multiline, _ = json.GetOption(eo, jsontext.Multiline)
		o.spColon, _ = json.GetOption(eo, jsontext.SpaceAfterColon)
		o.spComma, _ = json.GetOption(eo, jsontext.SpaceAfterComma)
		o.html, _ = json.GetOption(eo, jsontext.EscapeForHTML)
		o.js, _ = json.GetOption(eo, jsontext.EscapeForJS)
		o.indent, _ = json.GetOption(eo, jsontext.WithIndent)
		o.prefix, _ = json.GetOption(eo, jsontext.WithIndentPrefix)
	}); p != nil {
		fail("NewEncoder(%s) panicked: %v", name, p)
	}
	return o
}

func c06OptSets(thorough bool) []*c06Opts {
	s := []*c06Opts{
		c06MkOpts("default"),
		c06MkOpts("AllowDuplicateNames", jsontext.AllowDuplicateNames(true)),
		c06MkOpts("AllowInvalidUTF8", jsontext.AllowInvalidUTF8(true)),
		c06MkOpts("Multiline", jsontext.Multiline(true)),
		c06MkOpts("SpaceAfterColon+Comma", jsontext.SpaceAfterColon(true), jsontext.SpaceAfterComma(true)),
		c06MkOpts("EscapeForHTML", jsontext.EscapeForHTML(true)),
	}
	return s
}

func c06ExtraOptSets() []*c06Opts {
	return []*c06Opts{
		c06MkOpts("EscapeForJS", jsontext.EscapeForJS(true)),
		c06MkOpts("Indent2+Prefix", jsontext.WithIndent("  "), jsontext.WithIndentPrefix("\t")),
		c06MkOpts("Multiline+SpaceAfterComma", jsontext.Multiline(true), jsontext.SpaceAfterComma(true), jsontext.SpaceAfterColon(false)),
		c06MkOpts("AllowDup+AllowInvalidUTF8+HTML+JS", jsontext.AllowDuplicateNames(true), jsontext.AllowInvalidUTF8(true), jsontext.EscapeForHTML(true), jsontext.EscapeForJS(true)),
	}
}

// plain writer: the generic (non-bytes.Buffer) path of the encoder
type c06Writer struct{ b []byte }

func (w *c06Writer) Write(p []byte) (int, error) { w.b = append(w.b, p...); return len(p), nil }

func c06ErrClass(err error) string {
	if err == nil {
		return "ok"
	}
	var se *jsontext.SyntacticError
	if !errors.As(err, &se) {
		return "Eother"
	}
	switch e := se.Err.(type) {
	case *jsonwire.InvalidTextError:
		if e.Label == "character" {
			return "Echar"
		}
		return "Eesc"
	}
	switch se.Err {
	case jsontext.ErrDuplicateName:
		return "Edup"
	case jsontext.ErrNonStringName:
		return "Ename"
	case io.ErrUnexpectedEOF:
		return "Eeof"
	case jsonwire.ErrInvalidUTF8:
		return "Eutf8"
	}
	switch jsontext.VerifErrClass(se.Err) {
	case 2:
		return "Ens"
	case 3:
		return "Edepth"
	case 4:
		return "Edelim"
	case 5:
		return "Emissing"
	}
	return "Eother"
}

// c06Snap is everything observable about an encoder.
type c06Snap struct {
	off       int64
	depth     int
	index     string // every StackIndex(i), i = 0..depth
	ptr       string
	delivered int
	full      string // delivered ++ unflushed
	words     string // raw machine words
	lastKind  byte
	lastLen   int64
}

func (s c06Snap) same(t c06Snap) bool {
	return s.off == t.off && s.depth == t.depth && s.index == t.index && s.ptr == t.ptr && s.delivered == t.delivered &&
		s.full == t.full && s.words == t.words
}

func c06Observe(e *jsontext.Encoder, w *c06Writer, deep bool) c06Snap {
	var s c06Snap
	s.off = e.OutputOffset()
	s.depth = e.StackDepth()
	k, n := e.StackIndex(s.depth)
	s.lastKind, s.lastLen = byte(k), n
	s.delivered = len(w.b)
	es := jsontext.Internal.Export(&internal.AllowInternalUse).Encoder(e)
	s.full = string(w.b) + string(es.Buf)
	if deep {
		buf := make([]byte, 0, 64)
		for i := 0; i <= s.depth && i < 64; i++ {
			k, n := e.StackIndex(i)
			buf = strconv.AppendInt(append(strconv.AppendInt(buf, int64(k), 10), ':'), n, 10)
			buf = append(buf, ',')
		}
		s.index = string(buf)
		s.ptr = string(e.StackPointer())
		buf = buf[:0]
		for _, x := range es.Tokens.Stack {
			buf = append(strconv.AppendUint(buf, uint64(x), 16), ',')
		}
		buf = strconv.AppendUint(buf, uint64(es.Tokens.Last), 16)
		s.words = string(buf)
	}
	return s
}

type c06Step struct {
	res  string
	snap c06Snap
}

// c06Run drives a fresh encoder through the script.  It evaluates the "rejected call changes nothing"
// predicate on the way and returns the per-call results.
func c06Run(c *Ctx, o *c06Opts, script []c06Call, checkNoop bool) (steps []c06Step, out []byte, ok bool) {
	w := &c06Writer{}
	var e *jsontext.Encoder
	deep := len(script) <= 64
	if p := guard(func() { e = jsontext.NewEncoder(w, o.opts...) }); p != nil {
		c.Panic("NewEncoder", nil, p, map[string]any{"opts": o.name})
		return nil, nil, false
	}
	steps = make([]c06Step, 0, len(script))
	var before c06Snap
	var availBefore int
	if checkNoop {
		before = c06Observe(e, w, deep)
		availBefore = len(e.AvailableBuffer())
	}
	for i, call := range script {
		var err error
		if p := guard(func() {
			if call.reset {
				w = &c06Writer{}
				e.Reset(w, o.opts...)
			} else if call.tok {
				err = e.WriteToken(call.token())
			} else {
				err = e.WriteValue(jsontext.Value(call.data))
			}
		}); p != nil {
			c.Panic("Encoder."+c06CallOp(call), c06ScriptBytes(script[:i+1]), p, map[string]any{"opts": o.name, "script": c06ScriptStr(script[:i+1])})
			return steps, nil, false
		}
		res := c06ErrClass(err)
		after := c06Observe(e, w, deep && checkNoop)
		if checkNoop && res != "ok" {
			if !before.same(after) || availBefore != len(e.AvailableBuffer()) {
				c.Violate("reject-mutates", "Encoder."+c06CallOp(call), c06ScriptBytes(script[:i+1]), map[string]any{
					"opts": o.name, "script": c06ScriptStr(script[:i+1]), "error": res,
					"before": fmt.Sprintf("%+v", before), "after": fmt.Sprintf("%+v", after)})
			}
		}
		steps = append(steps, c06Step{res, after})
		before = after // nothing happens between two calls
	}
	es := jsontext.Internal.Export(&internal.AllowInternalUse).Encoder(e)
	out = append(append([]byte{}, w.b...), es.Buf...)
	return steps, out, true
}

func c06CallOp(k c06Call) string {
	if k.reset {
		return "Reset"
	}
	if k.tok {
		return "WriteToken"
	}
	return "WriteValue"
}

func c06ScriptStr(s []c06Call) string {
	var parts []string
	for _, k := range s {
		parts = append(parts, k.String())
	}
	return strings.Join(parts, " ")
}

func c06ScriptBytes(s []c06Call) []byte {
	var parts []string
	for _, k := range s {
		parts = append(parts, k.wire())
	}
	return []byte(strings.Join(parts, " "))
}

func (st c06Step) wire() string {
	b := append(make([]byte, 0, 32), st.res...)
	b = strconv.AppendInt(append(b, '/'), st.snap.off, 10)
	b = strconv.AppendInt(append(b, '/'), int64(st.snap.depth), 10)
	b = strconv.AppendInt(append(b, '/'), int64(st.snap.lastKind), 10)
	b = strconv.AppendInt(append(b, '/'), st.snap.lastLen, 10)
	return string(b)
}

// ---------------------------------------------------------------------------------------------
// independent reference: grammar (PDA + validity) and rendering

type c06Val struct {
	kind  byte   // n f t " 0 { [
	text  []byte // number literal or unescaped string
	names [][]byte
	elems []*c06Val
}

type c06Parser struct {
	b            []byte
	i            int
	allowBadUTF8 bool
	allowDup     bool
	maxDepth     int // remaining nesting budget
}

var errC06Syntax = errors.New("syntax")

func (p *c06Parser) ws() {
	for p.i < len(p.b) && (p.b[p.i] == ' ' || p.b[p.i] == '\t' || p.b[p.i] == '\n' || p.b[p.i] == '\r') {
		p.i++
	}
}

func c06Hex4(b []byte) (rune, bool) {
	if len(b) < 4 {
		return 0, false
	}
	var v rune
	for _, ch := range b[:4] {
		switch {
		case '0' <= ch && ch <= '9':
			v = v*16 + rune(ch-'0')
		case 'a' <= ch && ch <= 'f':
			v = v*16 + rune(ch-'a'+10)
		case 'A' <= ch && ch <= 'F':
			v = v*16 + rune(ch-'A'+10)
		default:
			return 0, false
		}
	}
	return v, true
}

// str parses a JSON string literal (RFC 8259 §7) and returns its unescaped value.
func (p *c06Parser) str() ([]byte, error) {
	if p.i >= len(p.b) || p.b[p.i] != '"' {
		return nil, errC06Syntax
	}
	p.i++
	var out []byte
	for {
		if p.i >= len(p.b) {
			return nil, errC06Syntax
		}
		ch := p.b[p.i]
		switch {
		case ch == '"':
			p.i++
			return out, nil
		case ch < 0x20:
			return nil, errC06Syntax
		case ch == '\\':
			if p.i+1 >= len(p.b) {
				return nil, errC06Syntax
			}
			esc := p.b[p.i+1]
			p.i += 2
			switch esc {
			case '"', '\\', '/':
				out = append(out, esc)
			case 'b':
				out = append(out, '\b')
			case 'f':
				out = append(out, '\f')
			case 'n':
				out = append(out, '\n')
			case 'r':
				out = append(out, '\r')
			case 't':
				out = append(out, '\t')
			case 'u':
				v, ok := c06Hex4(p.b[p.i:])
				if !ok {
					return nil, errC06Syntax
				}
				p.i += 4
				if 0xD800 <= v && v < 0xE000 {
					// a surrogate half must be followed by the other half (unless invalid UTF-8 is allowed)
					paired := false
					if v < 0xDC00 && p.i+6 <= len(p.b) && p.b[p.i] == '\\' && p.b[p.i+1] == 'u' {
						if v2, ok := c06Hex4(p.b[p.i+2:]); ok && 0xDC00 <= v2 && v2 < 0xE000 {
							v = 0x10000 + (v-0xD800)<<10 + (v2 - 0xDC00)
							p.i += 6
							paired = true
						}
					}
					if !paired {
						if !p.allowBadUTF8 {
							return nil, errC06Syntax
						}
						v = 0xFFFD
					}
				}
				out = utf8.AppendRune(out, v)
			default:
				return nil, errC06Syntax
			}
		case ch < 0x80:
			out = append(out, ch)
			p.i++
		default:
			r, n := utf8.DecodeRune(p.b[p.i:])
			if r == utf8.RuneError && n == 1 {
				if !p.allowBadUTF8 {
					return nil, errC06Syntax
				}
				out = append(out, "�"...)
				p.i++
			} else {
				out = append(out, p.b[p.i:p.i+n]...)
				p.i += n
			}
		}
	}
}

func (p *c06Parser) digits() bool {
	j := p.i
	for p.i < len(p.b) && '0' <= p.b[p.i] && p.b[p.i] <= '9' {
		p.i++
	}
	return p.i > j
}

func (p *c06Parser) num() ([]byte, error) {
	j := p.i
	if p.i < len(p.b) && p.b[p.i] == '-' {
		p.i++
	}
	if p.i < len(p.b) && p.b[p.i] == '0' {
		p.i++
	} else if !p.digits() {
		return nil, errC06Syntax
	}
	if p.i < len(p.b) && p.b[p.i] == '.' {
		p.i++
		if !p.digits() {
			return nil, errC06Syntax
		}
	}
	if p.i < len(p.b) && (p.b[p.i] == 'e' || p.b[p.i] == 'E') {
		p.i++
		if p.i < len(p.b) && (p.b[p.i] == '+' || p.b[p.i] == '-') {
			p.i++
		}
		if !p.digits() {
			return nil, errC06Syntax
		}
	}
	return p.b[j:p.i], nil
}

func (p *c06Parser) value(depth int) (*c06Val, error) {
	if p.i >= len(p.b) {
		return nil, errC06Syntax
	}
	lit := func(s string, k byte) (*c06Val, error) {
		if bytes.HasPrefix(p.b[p.i:], []byte(s)) {
			p.i += len(s)
			return &c06Val{kind: k}, nil
		}
		return nil, errC06Syntax
	}
	switch ch := p.b[p.i]; {
	case ch == 'n':
		return lit("null", 'n')
	case ch == 't':
		return lit("true", 't')
	case ch == 'f':
		return lit("false", 'f')
	case ch == '"':
		s, err := p.str()
		if err != nil {
			return nil, err
		}
		return &c06Val{kind: '"', text: s}, nil
	case ch == '-' || ('0' <= ch && ch <= '9'):
		n, err := p.num()
		if err != nil {
			return nil, err
		}
		return &c06Val{kind: '0', text: n}, nil
	case ch == '[':
		if depth >= p.maxDepth {
			return nil, errC06Syntax
		}
		p.i++
		v := &c06Val{kind: '['}
		p.ws()
		if p.i < len(p.b) && p.b[p.i] == ']' {
			p.i++
			return v, nil
		}
		for {
			p.ws()
			el, err := p.value(depth + 1)
			if err != nil {
				return nil, err
			}
			v.elems = append(v.elems, el)
			p.ws()
			if p.i >= len(p.b) {
				return nil, errC06Syntax
			}
			if p.b[p.i] == ',' {
				p.i++
				continue
			}
			if p.b[p.i] == ']' {
				p.i++
				return v, nil
			}
			return nil, errC06Syntax
		}
	case ch == '{':
		if depth >= p.maxDepth {
			return nil, errC06Syntax
		}
		p.i++
		v := &c06Val{kind: '{'}
		p.ws()
		if p.i < len(p.b) && p.b[p.i] == '}' {
			p.i++
			return v, nil
		}
		seen := map[string]bool{}
		for {
			p.ws()
			name, err := p.str()
			if err != nil {
				return nil, err
			}
			if !p.allowDup && seen[string(name)] {
				return nil, errC06Syntax
			}
			seen[string(name)] = true
			p.ws()
			if p.i >= len(p.b) || p.b[p.i] != ':' {
				return nil, errC06Syntax
			}
			p.i++
			p.ws()
			el, err := p.value(depth + 1)
			if err != nil {
				return nil, err
			}
			v.names = append(v.names, name)
			v.elems = append(v.elems, el)
			p.ws()
			if p.i >= len(p.b) {
				return nil, errC06Syntax
			}
			if p.b[p.i] == ',' {
				p.i++
				continue
			}
			if p.b[p.i] == '}' {
				p.i++
				return v, nil
			}
			return nil, errC06Syntax
		}
	}
	return nil, errC06Syntax
}

// c06ParseRaw: exactly one JSON value surrounded by optional whitespace, nested at most `budget` deep.
func c06ParseRaw(raw []byte, o *c06Opts, budget int) (*c06Val, bool) {
	p := &c06Parser{b: raw, allowBadUTF8: o.allowBadUTF8, allowDup: o.allowDup, maxDepth: budget}
	p.ws()
	v, err := p.value(0)
	if err != nil {
		return nil, false
	}
	p.ws()
	if p.i != len(p.b) {
		return nil, false
	}
	return v, true
}

type c06Frame struct {
	obj   bool
	n     int
	names map[string]bool
	val   *c06Val
}

// c06Ref is the reference encoder state: open containers + finished top-level values.
type c06Ref struct {
	o      *c06Opts
	frames []*c06Frame // open containers, outermost first
	top    []*c06Val
	topN   int
}

// c06FixUTF8 replaces every invalid byte by U+FFFD (one per byte, as utf8.DecodeRune steps).
func c06FixUTF8(s []byte) []byte {
	if utf8.Valid(s) {
		return s
	}
	var out []byte
	for len(s) > 0 {
		r, n := utf8.DecodeRune(s)
		if r == utf8.RuneError && n == 1 {
			out = append(out, "�"...)
		} else {
			out = append(out, s[:n]...)
		}
		s = s[n:]
	}
	return out
}

// accept decides whether the call keeps the token stream a viable prefix; on success it updates the state.
func (r *c06Ref) accept(call c06Call) bool {
	if call.reset {
		*r = c06Ref{o: r.o}
		return true
	}
	var cur *c06Frame
	if len(r.frames) > 0 {
		cur = r.frames[len(r.frames)-1]
	}
	needName := cur != nil && cur.obj && cur.n%2 == 0
	var v *c06Val
	kind := call.kind
	if call.tok {
		switch kind {
		case 'n', 'f', 't':
			v = &c06Val{kind: kind}
		case '0':
			v = &c06Val{kind: '0', text: call.data}
		case '"':
			if !utf8.Valid(call.data) && !r.o.allowBadUTF8 {
				return false
			}
			v = &c06Val{kind: '"', text: c06FixUTF8(call.data)}
		case '{', '[':
			if needName || len(r.frames) >= 10000 {
				return false
			}
			f := &c06Frame{obj: kind == '{', names: map[string]bool{}, val: &c06Val{kind: kind}}
			r.bump(cur, f.val, nil)
			r.frames = append(r.frames, f)
			return true
		case '}':
			if cur == nil || !cur.obj || cur.n%2 == 1 {
				return false
			}
			r.frames = r.frames[:len(r.frames)-1]
			return true
		case ']':
			if cur == nil || cur.obj {
				return false
			}
			r.frames = r.frames[:len(r.frames)-1]
			return true
		}
	} else {
		var ok bool
		v, ok = c06ParseRaw(call.data, r.o, 10000-len(r.frames))
		if !ok {
			return false
		}
	}
	if needName {
		if v.kind != '"' {
			return false
		}
		if !r.o.allowDup {
			if cur.names[string(v.text)] {
				return false
			}
			cur.names[string(v.text)] = true
		}
		cur.n++
		cur.val.names = append(cur.val.names, v.text)
		return true
	}
	r.bump(cur, v, nil)
	return true
}

func (r *c06Ref) bump(cur *c06Frame, v *c06Val, _ []byte) {
	if cur == nil {
		r.top = append(r.top, v)
		return
	}
	cur.n++
	cur.val.elems = append(cur.val.elems, v)
}

func c06Quote(dst []byte, s []byte, o *c06Opts) []byte {
	const hexd = "0123456789abcdef"
	dst = append(dst, '"')
	for len(s) > 0 {
		r, n := utf8.DecodeRune(s)
		switch {
		case r == '"' || r == '\\':
			dst = append(dst, '\\', byte(r))
		case r == '\b':
			dst = append(dst, `\b`...)
		case r == '\f':
			dst = append(dst, `\f`...)
		case r == '\n':
			dst = append(dst, `\n`...)
		case r == '\r':
			dst = append(dst, `\r`...)
		case r == '\t':
			dst = append(dst, `\t`...)
		case r < 0x20 || (o.html && (r == '<' || r == '>' || r == '&')) || (o.js && (r == 0x2028 || r == 0x2029)):
			dst = append(dst, '\\', 'u', hexd[r>>12&15], hexd[r>>8&15], hexd[r>>4&15], hexd[r&15])
		case r == utf8.RuneError && n == 1:
			dst = append(dst, "�"...)
		default:
			dst = append(dst, s[:n]...)
		}
		s = s[n:]
	}
	return append(dst, '"')
}

func c06Indent(dst []byte, o *c06Opts, level int) []byte {
	dst = append(dst, '\n')
	dst = append(dst, o.prefix...)
	for i := 0; i < level; i++ {
		dst = append(dst, o.indent...)
	}
	return dst
}

// c06Render renders one value; level = number of enclosing containers.
func c06Render(dst []byte, v *c06Val, o *c06Opts, level int) []byte {
	switch v.kind {
	case 'n':
		return append(dst, "null"...)
	case 't':
		return append(dst, "true"...)
	case 'f':
		return append(dst, "false"...)
	case '0':
		return append(dst, v.text...)
	case '"':
		return c06Quote(dst, v.text, o)
	}
	open, close := byte('['), byte(']')
	if v.kind == '{' {
		open, close = '{', '}'
	}
	dst = append(dst, open)
	for i, el := range v.elems {
		if i > 0 {
			dst = append(dst, ',')
			if o.spComma {
				dst = append(dst, ' ')
			}
		}
		if o.multiline {
			dst = c06Indent(dst, o, level+1)
		}
		if v.kind == '{' {
			dst = c06Quote(dst, v.names[i], o)
			dst = append(dst, ':')
			if o.spColon {
				dst = append(dst, ' ')
			}
		}
		dst = c06Render(dst, el, o, level+1)
	}
	if o.multiline && len(v.elems) > 0 {
		dst = c06Indent(dst, o, level)
	}
	return append(dst, close)
}

func (r *c06Ref) renderTop() []byte {
	var out []byte
	for _, v := range r.top {
		out = c06Render(out, v, r.o, 0)
		out = append(out, '\n')
	}
	return out
}

// ---------------------------------------------------------------------------------------------
// one script: correspondence + the three predicates

type c06Job struct {
	o      *c06Opts
	script []c06Call
	tag    string
}

func c06Check(c *Ctx, or *Oracle, jobs []c06Job) {
	var lines []string
	type runRes struct {
		steps []c06Step
		out   []byte
		ok    bool
	}
	res := make([]runRes, len(jobs))
	hits := map[string]int64{}
	defer func() {
		for k, v := range hits {
			c.HitN(k, v)
		}
	}()
	for ji, j := range jobs {
		steps, out, ok := c06Run(c, j.o, j.script, true)
		res[ji] = runRes{steps, out, ok}
		key := j.o.name + "|" + string(c06ScriptBytes(j.script))
		nrej := 0
		for _, s := range steps {
			if s.res != "ok" {
				nrej++
				hits["enc/err/"+s.res]++
			}
		}
		c.Case(key, len(j.script) >= 2)
		hits["enc/"+j.tag]++
		if nrej > 0 {
			hits["enc/scripts-with-rejects"]++
		}
		if !ok {
			continue
		}
		// (ii) + (iii): reference grammar and rendering
		ref := &c06Ref{o: j.o}
		var accepted []c06Call
		var acceptedIdx []int
		for i, call := range j.script {
			want := ref.accept(call)
			got := steps[i].res == "ok"
			if want != got {
				c.Violate("accept-mismatch", "Encoder."+c06CallOp(call), c06ScriptBytes(j.script[:i+1]), map[string]any{
					"opts": j.o.name, "script": c06ScriptStr(j.script[:i+1]), "impl": steps[i].res, "reference_accepts": want})
				break
			}
			if got {
				accepted = append(accepted, call)
				acceptedIdx = append(acceptedIdx, i)
				if steps[i].snap.depth != len(ref.frames) {
					c.Violate("depth-mismatch", "Encoder.StackDepth", c06ScriptBytes(j.script[:i+1]), map[string]any{
						"opts": j.o.name, "script": c06ScriptStr(j.script[:i+1]), "impl": steps[i].snap.depth, "reference": len(ref.frames)})
				}
				if len(ref.frames) == 0 {
					want := ref.renderTop()
					if steps[i].snap.full != string(want) || steps[i].snap.delivered != len(want) {
						c.Violate("render-mismatch", "Encoder."+c06CallOp(call), c06ScriptBytes(j.script[:i+1]), map[string]any{
							"opts": j.o.name, "script": c06ScriptStr(j.script[:i+1]), "impl": steps[i].snap.full, "reference": string(want),
							"delivered": steps[i].snap.delivered})
					}
					hits["enc/top-level-values-rendered"]++
				}
			}
		}
		// the bytes produced, re-scanned independently: a stream of well-formed values in valid UTF-8,
		// without duplicate member names unless they are allowed (complete only when the depth is back to 0)
		if n := len(steps); n > 0 && steps[n-1].snap.depth == 0 && len(out) < 1<<16 {
			if why := c06ScanStream(out, j.o); why != "" {
				c.Violate("output-invalid", "Encoder", c06ScriptBytes(j.script), map[string]any{
					"opts": j.o.name, "script": c06ScriptStr(j.script), "out": trunc(string(out), 300), "why": why})
			}
		}
		// (i) the run without the rejected calls
		if nrej > 0 && len(accepted) == len(j.script)-nrej {
			steps2, out2, ok2 := c06Run(c, j.o, accepted, false)
			if ok2 {
				bad := !bytes.Equal(out, out2)
				for k := range steps2 {
					a, b := steps[acceptedIdx[k]], steps2[k]
					if b.res != "ok" || a.snap.off != b.snap.off || a.snap.depth != b.snap.depth || a.snap.lastKind != b.snap.lastKind ||
						a.snap.lastLen != b.snap.lastLen || a.snap.full != b.snap.full || a.snap.delivered != b.snap.delivered {
						bad = true
					}
				}
				if bad {
					c.Violate("reject-affects-later", "Encoder", c06ScriptBytes(j.script), map[string]any{
						"opts": j.o.name, "script": c06ScriptStr(j.script), "accepted": c06ScriptStr(accepted), "out": string(out), "out_without_rejected": string(out2)})
				}
			}
		}
		if or != nil {
			var sb strings.Builder
			sb.WriteString("enc run ")
			sb.WriteString(j.o.wire())
			for _, call := range j.script {
				sb.WriteByte(' ')
				sb.WriteString(call.wire())
			}
			lines = append(lines, sb.String())
		}
		if ji%977 == 0 {
			c.Sample(map[string]any{"opts": j.o.name, "script": c06ScriptStr(j.script), "out": trunc(string(out), 120)})
		}
	}
	if or == nil {
		return
	}
	ans := or.Ask(lines)
	li := 0
	for ji, j := range jobs {
		if !res[ji].ok {
			continue
		}
		var sb strings.Builder
		for _, s := range res[ji].steps {
			sb.WriteString(s.wire())
			sb.WriteByte(' ')
		}
		sb.WriteString("out=")
		sb.WriteString(hx(res[ji].out))
		if got := sb.String(); got != ans[li] {
			c.Violate("corr-enc", "Encoder", c06ScriptBytes(j.script), map[string]any{
				"opts": j.o.name, "script": c06ScriptStr(j.script), "impl": trunc(got, 600), "model": trunc(ans[li], 600)})
		}
		li++
	}
}

// ---------------------------------------------------------------------------------------------
// generators

func c06Alphabet() []c06Call {
	return []c06Call{
		c06T('n', ""), c06T('t', ""), c06T('"', "a"), c06T('"', "b"), c06T('"', "\xff"),
		c06Num(jsontext.Int(0)), c06Num(jsontext.Float(-1.5)),
		c06T('{', ""), c06T('}', ""), c06T('[', ""), c06T(']', ""),
		c06V(`{"a":1}`), c06V(`[1,2]`), c06V(" 1 "), c06V(`{"a":1,"a":2}`), c06V(`[`), c06V(`1 2`),
		c06V(`"\ud800"`), c06V(`"a"`), c06V(`"\u0061"`),
	}
}

// fragments of string bodies: the first c06ValidFrags are well-formed in a JSON literal, the rest are not
var c06StrFrags = []string{
	`a`, `\"`, `\\`, `\/`, `\b`, `\n`, `A`, `\u000a`, `\u001f`, `\u001F`, `\u007f`, `\u0041`, `\ud83d\ude00`, `\uD83D\uDE00`,
	`\u2028`, "\u2028", "\u2029", `<`, `&`, `>`, `\u003c`, "\x7f", "\u00e9", "\U0001F600", "\ufffd", ` `, `/`, `\u00e9`,
	// ill-formed (unless AllowInvalidUTF8, for some)
	`\ud800`, `\udc00`, `\ud800A`, `\ud800\ud800`, `\udc00\ud800`, `\ud800\u0041`, "\xff", "\xc2", "\xe2\x82", "\xed\xa0\x80",
	"\xf4\x90\x80\x80", "\x1f", "\t", `\u12`, `\uD8`, `\ud800\u`, `\ud800\ud`, `\ud800\u00`, `\x`, `\`, `"`,
}

const c06ValidFrags = 28

func c06RandValue(r *rand.Rand, depth int) string {
	ws := func() string { return []string{"", "", "", " ", "\n", "\t ", "\r\n"}[r.IntN(7)] }
	switch k := r.IntN(10); {
	case k < 1:
		return "null"
	case k < 2:
		return []string{"true", "false"}[r.IntN(2)]
	case k < 4:
		return []string{"0", "-0", "1", "12", "-1.5", "1e5", "1E+2", "0.0", "123456789012345678901234567890", "1.0e-7"}[r.IntN(10)]
	case k < 6 || depth <= 0:
		if r.IntN(8) == 0 {
			return `"` + c06StrFrags[r.IntN(len(c06StrFrags))] + `"`
		}
		return `"` + c06StrFrags[r.IntN(c06ValidFrags)] + c06StrFrags[r.IntN(c06ValidFrags)] + `"`
	case k < 8:
		n := r.IntN(4)
		var sb strings.Builder
		sb.WriteString("[" + ws())
		for i := 0; i < n; i++ {
			if i > 0 {
				sb.WriteString(ws() + "," + ws())
			}
			sb.WriteString(c06RandValue(r, depth-1))
		}
		sb.WriteString(ws() + "]")
		return sb.String()
	default:
		n := r.IntN(4)
		var sb strings.Builder
		sb.WriteString("{" + ws())
		for i := 0; i < n; i++ {
			if i > 0 {
				sb.WriteString(ws() + "," + ws())
			}
			name := []string{`"a"`, `"b"`, `"c"`, `"a"`, `""`, `"é"`, `"a\/b"`}[r.IntN(7)]
			sb.WriteString(name + ws() + ":" + ws() + c06RandValue(r, depth-1))
		}
		sb.WriteString(ws() + "}")
		return sb.String()
	}
}

func c06Mutate(r *rand.Rand, s string) string {
	if len(s) == 0 {
		return s
	}
	b := []byte(s)
	switch r.IntN(4) {
	case 0: // truncate
		return string(b[:r.IntN(len(b))])
	case 1: // delete a byte
		i := r.IntN(len(b))
		return string(append(b[:i:i], b[i+1:]...))
	case 2: // replace a byte
		b[r.IntN(len(b))] = []byte(`{}[],:"\ 0e-x`)[r.IntN(13)]
		return string(b)
	default: // insert
		i := r.IntN(len(b) + 1)
		return string(b[:i]) + string([]byte(`{}[],:"\ 0e-x`)[r.IntN(13)]) + string(b[i:])
	}
}

func c06RandScript(r *rand.Rand, alpha []c06Call, L int) []c06Call {
	var s []c06Call
	// shadow state to steer towards valid calls most of the time
	type fr struct {
		obj bool
		n   int
	}
	var st []fr
	for len(s) < L {
		if r.IntN(5) == 0 {
			s = append(s, alpha[r.IntN(len(alpha))])
			// the shadow may now be off; resynchronise roughly by assuming it was rejected
			continue
		}
		needName := len(st) > 0 && st[len(st)-1].obj && st[len(st)-1].n%2 == 0
		var call c06Call
		switch {
		case needName && r.IntN(5) == 0:
			call = c06T('}', "")
			st = st[:len(st)-1]
		case needName:
			call = c06T('"', []string{"a", "b", "c", "d", "e", "f", "é", "a/b", ""}[r.IntN(9)])
			if r.IntN(6) == 0 {
				call = c06V(`"` + c06StrFrags[r.IntN(c06ValidFrags)] + `"`)
			}
			st[len(st)-1].n++
		default:
			switch k := r.IntN(12); {
			case k < 2:
				call = c06T("nft"[r.IntN(3)], "")
			case k < 4:
				call = c06T('"', c06StrFrags[r.IntN(len(c06StrFrags))])
			case k < 5:
				call = c06Num([]jsontext.Token{jsontext.Int(-7), jsontext.Uint(1 << 63), jsontext.Float(1e21), jsontext.Float(0.000001), jsontext.Int(0)}[r.IntN(5)])
			case k < 7:
				call = c06T("{["[r.IntN(2)], "")
				if len(st) > 0 {
					st[len(st)-1].n++
				}
				st = append(st, fr{obj: call.kind == '{'})
				s = append(s, call)
				continue
			case k < 8 && len(st) > 0 && !st[len(st)-1].obj:
				call = c06T(']', "")
				st = st[:len(st)-1]
				s = append(s, call)
				continue
			default:
				v := c06RandValue(r, 3)
				if r.IntN(5) == 0 {
					v = c06Mutate(r, v)
				}
				call = c06V(v)
			}
			if len(st) > 0 {
				st[len(st)-1].n++
			}
		}
		s = append(s, call)
	}
	return s
}

func c06EncAll(c *Ctx) {
	alpha := c06Alphabet()
	opts := c06OptSets(c.Thorough())
	extra := c06ExtraOptSets()
	var jobs []c06Job

	// exhaustive scripts of the maximal length (shorter scripts are prefixes, checked call by call)
	L := c.N(3, 4)
	LDefault := c.N(4, 5)
	var gen func(o *c06Opts, p []c06Call, L int)
	gen = func(o *c06Opts, p []c06Call, L int) {
		if len(p) == L {
			jobs = append(jobs, c06Job{o, append([]c06Call{}, p...), fmt.Sprintf("exhaustive-len%d", L)})
			return
		}
		for _, a := range alpha {
			gen(o, append(p, a), L)
		}
	}
	for i, o := range opts {
		if i == 0 {
			gen(o, nil, LDefault)
		} else {
			gen(o, nil, L)
		}
	}
	c.Note("enc: every script of length %d over the %d-symbol alphabet under the default options, of length %d under the 5 other option sets (shorter scripts are prefixes)", LDefault, len(alpha), L)

	r := c.SubRng(602)
	// random scripts of the next lengths over the alphabet, all option sets
	for i, n := 0, c.N(20000, 600000); i < n; i++ {
		o := opts[r.IntN(len(opts))]
		Ls := L + 1 + r.IntN(3)
		s := make([]c06Call, Ls)
		for k := range s {
			s[k] = alpha[r.IntN(len(alpha))]
		}
		jobs = append(jobs, c06Job{o, s, "random-alphabet"})
	}
	// steered random scripts up to length 40, all option sets including the extra ones
	all := append(append([]*c06Opts{}, opts...), extra...)
	for i, n := 0, c.N(6000, 200000); i < n; i++ {
		o := all[r.IntN(len(all))]
		jobs = append(jobs, c06Job{o, c06RandScript(r, alpha, 2+r.IntN(39)), "random-steered"})
	}
	// raw and token strings: every pair of fragments, complete and truncated
	for _, o := range []*c06Opts{opts[0], opts[2], opts[5], extra[0], extra[3]} {
		for _, a := range c06StrFrags {
			for _, b := range append([]string{""}, c06StrFrags...) {
				body := a + b
				jobs = append(jobs, c06Job{o, []c06Call{c06V(`"` + body + `"`), c06V(`"` + body), c06T('{', ""), c06V(`"` + body + `"`), c06V(`"` + body + `"`)}, "raw-string-sweep"})
				if body != "" {
					jobs = append(jobs, c06Job{o, []c06Call{c06T('"', body), c06T('{', ""), c06T('"', body), c06T('n', ""), c06T('"', body), c06V(`{"` + body + `":0}`)}, "token-string-sweep"})
				}
			}
		}
	}
	// raw numbers: every string over the number alphabet up to length 5
	{
		const na = "-019.eE+"
		var gen func(p string)
		var batch []c06Call
		gen = func(p string) {
			if p != "" {
				batch = append(batch, c06V(p))
				if len(batch) == 8 {
					jobs = append(jobs, c06Job{opts[0], batch, "raw-number-sweep"})
					batch = nil
				}
			}
			if len(p) == c.N(4, 6) {
				return
			}
			for i := 0; i < len(na); i++ {
				gen(p + string(na[i]))
			}
		}
		gen("")
		if batch != nil {
			jobs = append(jobs, c06Job{opts[0], batch, "raw-number-sweep"})
		}
	}
	// nested raw values with whitespace, valid and mutated, inside containers, all layouts
	for i, n := 0, c.N(6000, 150000); i < n; i++ {
		o := all[r.IntN(len(all))]
		v := c06RandValue(r, 4)
		m := c06Mutate(r, v)
		jobs = append(jobs, c06Job{o, []c06Call{c06V(v), c06V(m), c06T('[', ""), c06V(v), c06V(m), c06V(v), c06T('{', ""), c06T('"', "k"), c06V(m), c06V(v), c06T('}', ""), c06T(']', "")}, "raw-value-layout"})
	}
	jobs = append(jobs, c06NamespaceScripts(c, r, opts, extra)...)
	jobs = append(jobs, c06NameEquivScripts(c, r)...)
	c.Note("enc: %d scripts in total", len(jobs))
	c06Par(c, len(jobs), 1500, func(or *Oracle, lo, hi, w int) { c06Check(c, or, jobs[lo:hi]) })
	c06Jobs = jobs
}

var c06Jobs []c06Job

// c06Validators: every distinct (options, raw value) of the scripts, as ONE top-level value on a fresh encoder:
// the real WriteValue verdict, the verdict of the encoder model's validator (reformatValue) and the verdict of
// slice C01's decoder-side validator (Validate.isValid, proved sound for the grammar) must coincide
// (Props/C06 `reformat_valid_full` is the unproved Lean statement this validates).
func c06Validators(c *Ctx, jobs []c06Job) {
	type item struct {
		o *c06Opts
		v []byte
	}
	seen := map[string]bool{}
	var items []item
	for _, j := range jobs {
		for _, call := range j.script {
			if call.tok || call.reset || len(call.data) > 4096 {
				continue
			}
			key := j.o.wire()[:2] + string(call.data) // only AllowDuplicateNames / AllowInvalidUTF8 matter
			if !seen[key] {
				seen[key] = true
				items = append(items, item{j.o, call.data})
			}
		}
	}
	c.Note("validators: %d distinct (grammar options, raw value) pairs", len(items))
	c06Par(c, len(items), 4000, func(or *Oracle, lo, hi, w int) {
		var lines []string
		impl := make([]bool, 0, hi-lo)
		for _, it := range items[lo:hi] {
			var err error
			if p := guard(func() { err = jsontext.NewEncoder(io.Discard, it.o.opts...).WriteValue(jsontext.Value(it.v)) }); p != nil {
				c.Panic("Encoder.WriteValue", it.v, p, map[string]any{"opts": it.o.name})
			}
			impl = append(impl, err == nil)
			lines = append(lines, "enc valid "+it.o.wire()+" "+hx(it.v))
			// independent reference as well
			if _, ok := c06ParseRaw(it.v, it.o, 10000); ok != (err == nil) {
				c.Violate("accept-mismatch", "Encoder.WriteValue", it.v, map[string]any{"opts": it.o.name, "value": c06Short(it.v), "impl_accepts": err == nil, "reference_accepts": ok})
			}
			c.Case("valid:"+it.o.wire()[:2]+string(it.v), true)
		}
		c.HitN("enc/validator-cross-checks", int64(hi-lo))
		if or == nil {
			return
		}
		ans := or.Ask(lines)
		for i, a := range ans {
			it := items[lo+i]
			want := "0 0"
			if impl[i] {
				want = "1 1"
			}
			if a != want {
				kind := "corr-enc-valid"
				if len(a) == 3 && a[0] != a[2] {
					kind = "corr-validators-disagree" // the two Lean models disagree with each other
				}
				c.Violate(kind, "Encoder.WriteValue", it.v, map[string]any{"opts": it.o.name, "value": c06Short(it.v), "impl_accepts": impl[i], "models(reformatValue,Validate.isValid)": a})
			}
		}
	})
}

// c06EncDepth: the depth limit through the public API (10000 open containers).
func c06EncDepth(c *Ctx) {
	o := c06MkOpts("default")
	mk := func(open byte, n int, tail ...c06Call) []c06Call {
		s := make([]c06Call, 0, n+len(tail))
		for i := 0; i < n; i++ {
			if open == '{' && i > 0 {
				s = append(s, c06T('"', "k"))
			}
			s = append(s, c06T(open, ""))
		}
		return append(s, tail...)
	}
	deepRaw := func(n int) string { return strings.Repeat("[", n) + strings.Repeat("]", n) }
	deepObj := func(n int) string { return strings.Repeat(`{"k":`, n) + "0" + strings.Repeat("}", n) }
	scripts := [][]c06Call{
		mk('[', 10001, c06V("1"), c06V("[]"), c06V("{}"), c06T(']', ""), c06V("[]"), c06V("[[]]"), c06V(`{"a":[]}`), c06T(']', ""), c06V("[[]]"), c06V("[[[]]]")),
		{c06V(deepRaw(10000)), c06V(deepRaw(10001)), c06T('[', ""), c06V(deepRaw(9999)), c06V(deepRaw(10000))},
	}
	if c.Thorough() {
		// (the list-based model is quadratic in the output size: tens of seconds for these)
		scripts = append(scripts,
			mk('{', 10001, c06T('"', "k"), c06V("{}"), c06V("0")),
			[]c06Call{c06T('{', ""), c06T('"', "k"), c06V(deepObj(9999)), c06T('"', "j"), c06V(deepObj(10000))})
	}
	or := c.NewOracle()
	for _, s := range scripts {
		steps, out, ok := c06Run(c, o, s, false)
		if !ok {
			continue
		}
		c.Case("encdepth:"+fmt.Sprint(len(s)), true)
		c.Hit("enc/depth-limit-scripts")
		// predicate: exactly the calls that would exceed 10000 open containers are rejected with max-depth
		ref := &c06Ref{o: o}
		for i, call := range s {
			want := ref.accept(call)
			if want != (steps[i].res == "ok") {
				c.Violate("accept-mismatch", "Encoder."+c06CallOp(call), nil, map[string]any{"script": "depth sweep", "call_index": i, "impl": steps[i].res, "reference_accepts": want})
				break
			}
		}
		if or != nil {
			var sb strings.Builder
			sb.WriteString("enc run " + o.wire())
			for _, call := range s {
				sb.WriteString(" " + call.wire())
			}
			a := or.Ask1(sb.String())
			var gb strings.Builder
			for _, st := range steps {
				gb.WriteString(st.wire() + " ")
			}
			gb.WriteString("out=" + hx(out))
			if gb.String() != a {
				// find the first differing call
				ga, aa := strings.Fields(gb.String()), strings.Fields(a)
				k := 0
				for k < len(ga) && k < len(aa) && ga[k] == aa[k] {
					k++
				}
				d := map[string]any{"first_difference_at_call": k}
				if k < len(ga) {
					d["impl"] = trunc(ga[k], 200)
				}
				if k < len(aa) {
					d["model"] = trunc(aa[k], 200)
				}
				c.Violate("corr-enc-depth", "Encoder", nil, d)
			}
		}
	}
}

// ---------------------------------------------------------------------------------------------
// long names / many names: the duplicate-name bookkeeping must not depend on how many or how long the
// names are (the implementation switches from a linear scan to a map above 64 names or 1024 bytes of names),
// and never on what an EARLIER object at the same depth contained.

// c06Name is the i-th of a family of distinct names of (at least) the given length.
func c06Name(i, length int, flavour int) string {
	s := strconv.Itoa(i)
	switch flavour {
	case 1:
		s += "é" // not a "simple string": takes the AppendUnquote path
	case 2:
		s += "\"" // needs escaping
	}
	for len(s) < length {
		s += "x"
	}
	return s
}

// c06RawName is the JSON literal of a name; respell writes its last 'x' as an escape (same name, other spelling).
func c06RawName(n string, respell bool) []byte {
	q := c06Quote(nil, []byte(n), &c06Opts{})
	if respell && len(n) > 0 && n[len(n)-1] == 'x' {
		q = append(append(q[:len(q)-2:len(q)-2], `x`...), '"')
	}
	return q
}

func c06RawObject(names []string, respell bool) string {
	sb := []byte{'{'}
	for i, n := range names {
		if i > 0 {
			sb = append(sb, ',')
		}
		sb = append(append(sb, c06RawName(n, respell)...), ':', '0')
	}
	return string(append(sb, '}'))
}

func c06TokObject(names []string) []c06Call {
	s := []c06Call{c06T('{', "")}
	for _, n := range names {
		s = append(s, c06T('"', n), c06T('n', ""))
	}
	return append(s, c06T('}', ""))
}

// c06NamespaceScript: a first object with n names of the given length (written by tokens or as one raw value),
// an attempt to repeat each of a few names inside it (must be rejected unless duplicates are allowed), then
// objects that re-use its names in every position where the implementation recycles a namespace slot:
// the next top-level value, siblings in an array, a nested object, and after Encoder.Reset — by tokens and raw.
func c06NamespaceScript(n, length, flavour int, firstRaw bool, o *c06Opts, r *rand.Rand) []c06Call {
	names := make([]string, n)
	for i := range names {
		names[i] = c06Name(i, length, flavour)
	}
	pick := func() []string { // a few names of the first object: first, last, one in the middle, one fresh
		p := []string{names[0], names[n-1], names[r.IntN(n)], "fresh"}
		r.Shuffle(len(p), func(i, j int) { p[i], p[j] = p[j], p[i] })
		return p
	}
	var s []c06Call
	first := func() {
		if firstRaw {
			s = append(s, c06V(c06RawObject(names, false)))
			return
		}
		s = append(s, c06T('{', ""))
		for i, nm := range names {
			s = append(s, c06T('"', nm), c06T('n', ""))
			if i == n/2 || i == n-1 {
				s = append(s, c06T('"', names[r.IntN(i+1)]))                      // duplicate inside the same object
				s = append(s, c06V(string(c06RawName(names[r.IntN(i+1)], true)))) // duplicate as a raw, re-spelled name
			}
		}
		s = append(s, c06T('}', ""))
	}
	followups := func() {
		s = append(s, c06TokObject(pick())...)                             // next top-level value, tokens
		s = append(s, c06V(c06RawObject(names, false)))                    // raw, all names again
		s = append(s, c06V(c06RawObject(pick(), true)))                    // raw, escaped spelling
		s = append(s, c06V(c06RawObject(append(pick(), names[0]), false))) // raw with a real duplicate
		s = append(s, c06T('[', ""))                                       // siblings
		s = append(s, c06TokObject(names)...)
		s = append(s, c06TokObject(pick())...)
		s = append(s, c06V(c06RawObject(pick(), false)))
		s = append(s, c06T('{', ""), c06T('"', names[0])) // nested: {"n0": {names...}, "n1": {n0...}}
		s = append(s, c06TokObject(names)...)
		s = append(s, c06T('"', names[n-1]))
		s = append(s, c06TokObject(pick())...)
		s = append(s, c06T('"', names[0])) // duplicate of the outer object's own name
		s = append(s, c06T('}', ""), c06T(']', ""))
	}
	first()
	followups()
	s = append(s, c06T('{', ""), c06T('"', names[0])) // left open across the Reset
	s = append(s, c06Call{reset: true})
	s = append(s, c06TokObject(pick())...)
	first()
	s = append(s, c06Call{reset: true})
	followups()
	return s
}

func c06NamespaceScripts(c *Ctx, r *rand.Rand, opts, extra []*c06Opts) []c06Job {
	var jobs []c06Job
	type cfg struct{ n, length int }
	// bytes threshold only (<= 64 names, > 1024 bytes), count threshold only (> 64 names, < 1024 bytes), both, neither
	cfgs := []cfg{{2, 1100}, {3, 1100}, {1, 1100}, {3, 600}, {5, 300}, {4, 256}, {5, 256}, {64, 17}, {70, 6}, {140, 6}, {65, 5}, {66, 5}, {140, 16}, {3, 16}, {64, 8}}
	sets := []*c06Opts{opts[0], opts[3], opts[1], extra[3]}
	for _, cf := range cfgs {
		for _, firstRaw := range []bool{false, true} {
			for oi, o := range sets {
				if oi >= 2 && (cf.n > 70 || firstRaw) {
					continue
				}
				jobs = append(jobs, c06Job{o, c06NamespaceScript(cf.n, cf.length, 0, firstRaw, o, r), "namespace-thresholds"})
			}
		}
	}
	for i, n := 0, c.N(60, 3000); i < n; i++ {
		var cf cfg
		switch r.IntN(3) {
		case 0: // around the byte threshold
			cf.n = 1 + r.IntN(8)
			cf.length = 900/cf.n + r.IntN(400)
		case 1: // around the count threshold
			cf.n = 60 + r.IntN(12)
			cf.length = 4 + r.IntN(14)
		default:
			cf.n = 1 + r.IntN(150)
			cf.length = 4 + r.IntN(40)
		}
		o := sets[r.IntN(2)]
		jobs = append(jobs, c06Job{o, c06NamespaceScript(cf.n, cf.length, r.IntN(3), r.IntN(2) == 0, o, r), "namespace-random"})
	}
	return jobs
}

// c06NamespacePredicate drives one objectNamespace (hook VerifNamespace) with inserts of short and long names,
// removeLast and reset, and compares every answer with a Go map: insert reports true iff the name is new
// since the last reset, whatever happened before the reset and whichever lookup mode is active.
func c06NamespacePredicate(c *Ctx) {
	r := c.SubRng(603)
	for it, n := 0, c.N(400, 20000); it < n; it++ {
		var ns jsontext.VerifNamespace
		ref := []string{}
		has := func(s string) bool {
			for _, x := range ref {
				if x == s {
					return true
				}
			}
			return false
		}
		length := []int{3, 8, 17, 120, 300, 600, 1100}[r.IntN(7)]
		var trace []string
		sawMap := false
		for step, steps := 0, 20+r.IntN(200); step < steps; step++ {
			var op string
			bad := false
			if p := guard(func() {
				switch k := r.IntN(20); {
				case k == 0:
					ns.Reset()
					ref = ref[:0]
					op = "reset"
				case k == 1 && len(ref) > 0:
					ns.RemoveLast()
					ref = ref[:len(ref)-1]
					op = "removeLast"
				default:
					name := c06Name(r.IntN(90), length, r.IntN(3))
					if r.IntN(6) == 0 {
						name = c06Name(r.IntN(90), 3, 0)
					}
					want := !has(name)
					var got bool
					switch r.IntN(3) {
					case 0:
						got = ns.InsertUnquoted([]byte(name))
					case 1:
						got = ns.InsertQuoted(c06Quote(nil, []byte(name), &c06Opts{}), false)
					default:
						if strings.ContainsAny(name, "\"é") {
							got = ns.InsertQuoted(c06Quote(nil, []byte(name), &c06Opts{}), false)
						} else {
							got = ns.InsertQuoted([]byte(`"`+name+`"`), true)
						}
					}
					if want {
						ref = append(ref, name)
					}
					op = fmt.Sprintf("insert(%s)=%v", c06Short([]byte(name)), got)
					bad = got != want
				}
				if ns.Length() != len(ref) {
					bad = true
					op += fmt.Sprintf(" length=%d want %d", ns.Length(), len(ref))
				}
				sawMap = sawMap || ns.UsesMap()
			}); p != nil {
				c.Panic("objectNamespace", nil, p, map[string]any{"trace": trace, "op": op})
				break
			}
			trace = append(trace, op)
			if bad {
				if len(trace) > 12 {
					trace = trace[len(trace)-12:]
				}
				c.Violate("namespace-set", "objectNamespace.insert", []byte(strings.Join(trace, ";")), map[string]any{"last_ops": trace, "name_length": length, "map_mode_seen": sawMap})
				break
			}
		}
		c.Case(fmt.Sprintf("ns:%d", it), true)
		if sawMap {
			c.Hit("namespace/map-mode-sequences")
		} else {
			c.Hit("namespace/linear-mode-sequences")
		}
	}
}

// c06ScanStream re-scans encoder output with the independent parser: newline-terminated well-formed values,
// valid UTF-8, unique member names per object unless duplicates are allowed.  Returns "" if fine.
func c06ScanStream(out []byte, o *c06Opts) string {
	if !utf8.Valid(out) {
		return "output is not valid UTF-8"
	}
	p := &c06Parser{b: out, allowBadUTF8: false, allowDup: o.allowDup, maxDepth: 10001}
	for {
		p.ws()
		if p.i >= len(p.b) {
			return ""
		}
		start := p.i
		if _, err := p.value(0); err != nil {
			return fmt.Sprintf("value starting at offset %d is malformed or has duplicate names (scanner stopped at %d)", start, p.i)
		}
		if p.i >= len(p.b) || p.b[p.i] != '\n' {
			return fmt.Sprintf("top-level value ending at offset %d is not followed by a newline", p.i)
		}
	}
}

// ---------------------------------------------------------------------------------------------
// name equivalence: member names are compared AFTER unescaping and AFTER every invalid byte has become U+FFFD.

// spellings of names as raw JSON string literals, in equivalence groups
var c06NameSpellings = []string{
	`"a"`, `"a"`, // a
	`"/"`, `"\/"`, `"/"`, // /
	"\"\U0001F600\"", `"😀"`, `"😀"`, // U+1F600
	"\"\xff\"", "\"\xfe\"", "\"\xef\xbf\xbd\"", `"�"`, `"�"`, `"\ud800"`, "\"\xc2\"", // U+FFFD once substituted
	"\"k\xff\"", "\"k\xfe\"", "\"k\xef\xbf\xbd\"", `"k�"`, "\"k\xe2\x82\"", // k U+FFFD (the last: k U+FFFD U+FFFD)
	"\"\xff\xff\"", "\"\xe2\x82\"", `"��"`, // U+FFFD U+FFFD
	`"b"`, `"é"`, "\"é\"", `"é"`, `""`,
}

// names as string tokens (unescaped bytes)
var c06NameTokens = []string{"a", "/", "\U0001F600", "\xff", "\xfe", "\xef\xbf\xbd", "\xc2", "k\xff", "k\xfe", "k\xef\xbf\xbd",
	"k\xe2\x82", "\xff\xff", "\xe2\x82", "\xef\xbf\xbd\xef\xbf\xbd", "b", "é", ""}

func c06NameEquivScripts(c *Ctx, r *rand.Rand) []c06Job {
	sets := []*c06Opts{
		c06MkOpts("default"),
		c06MkOpts("AllowInvalidUTF8", jsontext.AllowInvalidUTF8(true)),
		c06MkOpts("AllowDuplicateNames", jsontext.AllowDuplicateNames(true)),
		c06MkOpts("AllowInvalidUTF8+AllowDuplicateNames", jsontext.AllowInvalidUTF8(true), jsontext.AllowDuplicateNames(true)),
	}
	var jobs []c06Job
	sp, tk := c06NameSpellings, c06NameTokens
	for _, o := range sets {
		// raw objects: every ordered pair of spellings in one object — top level, inside a token-written array,
		// as a member value of a token-written object, and nested inside a raw object
		for _, x := range sp {
			var s []c06Call
			for _, y := range sp {
				obj := "{" + x + ":1," + y + ":2}"
				s = append(s, c06V(obj))
				s = append(s, c06T('[', ""), c06V(obj), c06V(`[`+obj+`]`), c06T(']', ""))
				s = append(s, c06T('{', ""), c06T('"', "m"), c06V(obj), c06V(x), c06V(`{"n":`+obj+`,`+y+`:0}`), c06T('}', ""))
			}
			jobs = append(jobs, c06Job{o, s, "name-equivalence-raw"})
		}
		// token names, and token/raw mixtures inside ONE token-written object
		for _, x := range tk {
			var s []c06Call
			for _, y := range tk {
				s = append(s, c06T('{', ""), c06T('"', x), c06T('n', ""), c06T('"', y), c06T('n', ""), c06T('}', ""))
			}
			for _, y := range sp {
				// first name by token, second as a raw string value; and the other way round
				s = append(s, c06T('{', ""), c06T('"', x), c06T('n', ""), c06V(y), c06T('n', ""), c06T('}', ""))
				s = append(s, c06T('{', ""), c06V(y), c06T('n', ""), c06T('"', x), c06T('n', ""), c06T('}', ""))
			}
			jobs = append(jobs, c06Job{o, s, "name-equivalence-token"})
		}
		// triples and longer objects of random spellings, raw and by raw-string names
		for i, n := 0, c.N(150, 5000); i < n; i++ {
			k := 3 + r.IntN(4)
			obj := "{"
			var s []c06Call
			s = append(s, c06T('[', ""), c06T('{', ""))
			for j := 0; j < k; j++ {
				x := sp[r.IntN(len(sp))]
				if j > 0 {
					obj += ","
				}
				obj += x + ":" + []string{"0", "{" + sp[r.IntN(len(sp))] + ":1," + sp[r.IntN(len(sp))] + ":2}"}[r.IntN(2)]
				if r.IntN(2) == 0 {
					s = append(s, c06V(x), c06T('n', ""))
				} else {
					s = append(s, c06T('"', tk[r.IntN(len(tk))]), c06T('n', ""))
				}
			}
			obj += "}"
			s = append(s, c06T('}', ""), c06V(obj), c06T(']', ""), c06V(obj))
			jobs = append(jobs, c06Job{o, s, "name-equivalence-random"})
		}
	}
	return jobs
}
