package main

// C03 — Unmarshal into untyped targets yields the exact meaning of the text.
//
// Predicate (evaluated on the implementation): for generated VALID, duplicate-free JSON texts, every
// ROUTE {Unmarshal, UnmarshalRead(all at once / 1 byte at a time), UnmarshalDecode over a Decoder on a
// bytes.Reader / *bytes.Buffer} x TARGET {any, map[string]any, []any, named empty interface, struct field
// of type any, *any} x OPTION set that switches code paths but keeps the semantics must yield a value
// deeply equal (float64 compared by bits, nil-ness of slices/maps exact, `[]` -> []any{} and `{}` ->
// map[string]any{} non-nil as documented) to the reference tree.  The reference is the proven spec
// `Spec.Meaning.parseTree` (Lean oracle, op `tree parse`) converted with an exact math/big rounding of
// every number literal; it is cross-checked against the generator's own expected value, the spec's
// executable `f64Round`, and strconv.ParseFloat.  A literal that overflows must give an error.
//
// Correspondence (Tie B): on valid, mutated, duplicate-injected and depth-boundary texts the outcome
// (tree or error class) of the real code is compared with the Lean models of the two internal routes
// (ops `tree fast|gen|iface|map|slice`); makeString is compared with its model through the
// VerifStringCache hook (slot index via VerifHash64, hits by pointer identity).

import (
	"bytes"
	"encoding/binary"
	"encoding/hex"
	"errors"
	"fmt"
	"io"
	"math"
	"math/big"
	"math/rand/v2"
	"os"
	"regexp"
	"sort"
	"strconv"
	"strings"
	"sync"
	"testing/iotest"
	"unicode/utf8"
	"unsafe"

	json "github.com/go-json-experiment/json"
	jtext "github.com/go-json-experiment/json/jsontext"
)

func init() { register("C03", runC03) }

var c03NumRE = regexp.MustCompile(`^-?(0|[1-9][0-9]*)(\.[0-9]+)?([eE][-+]?[0-9]+)?$`)

// ---------------------------------------------------------------------------------------------
// exact float reference (math/big)

// c03BigRound: the binary64 bit pattern of the exact value of a JSON number literal rounded to nearest
// even; ovf when the magnitude is not representable.
func c03BigRound(lit string) (bits uint64, ovf bool) {
	var sign uint64
	abs := lit
	if strings.HasPrefix(abs, "-") {
		sign = 1 << 63
		abs = abs[1:]
	}
	mant, expStr := abs, ""
	if i := strings.IndexAny(abs, "eE"); i >= 0 {
		mant, expStr = abs[:i], abs[i+1:]
	}
	ip, fr := mant, ""
	if i := strings.IndexByte(mant, '.'); i >= 0 {
		ip, fr = mant[:i], mant[i+1:]
	}
	ds := strings.TrimLeft(ip+fr, "0")
	if ds == "" {
		return sign, false
	}
	exp := new(big.Int)
	if expStr != "" {
		if _, ok := exp.SetString(strings.TrimPrefix(expStr, "+"), 10); !ok {
			fail("c03BigRound: bad exponent in %q", lit)
		}
	}
	exp.Sub(exp, big.NewInt(int64(len(fr))))
	mag := new(big.Int).Add(exp, big.NewInt(int64(len(ds)))) // 10^(mag-1) <= value < 10^mag
	if mag.Cmp(big.NewInt(400)) > 0 {
		return 0, true
	}
	if mag.Cmp(big.NewInt(-400)) < 0 {
		return sign, false
	}
	m, ok := new(big.Int).SetString(ds, 10)
	if !ok {
		fail("c03BigRound: bad digits in %q", lit)
	}
	e := exp.Int64()
	r := new(big.Rat)
	if e >= 0 {
		r.SetInt(m.Mul(m, new(big.Int).Exp(big.NewInt(10), big.NewInt(e), nil)))
	} else {
		r.SetFrac(m, new(big.Int).Exp(big.NewInt(10), big.NewInt(-e), nil))
	}
	f, _ := r.Float64()
	if math.IsInf(f, 0) {
		return 0, true
	}
	return math.Float64bits(f) | sign, false
}

// ---------------------------------------------------------------------------------------------
// reference values, comparison, rendering

type c03Ovf struct{} // marker inside a reference tree: this number overflows float64

func c03HasOvf(v any) bool {
	switch v := v.(type) {
	case c03Ovf:
		return true
	case []any:
		for _, e := range v {
			if c03HasOvf(e) {
				return true
			}
		}
	case map[string]any:
		for _, e := range v {
			if c03HasOvf(e) {
				return true
			}
		}
	}
	return false
}

// c03Equal: deep equality of untyped Go values: same dynamic types, float64 by bits, nil-ness exact.
func c03Equal(a, b any) bool {
	switch a := a.(type) {
	case nil:
		return b == nil
	case bool:
		b, ok := b.(bool)
		return ok && a == b
	case string:
		b, ok := b.(string)
		return ok && a == b
	case float64:
		b, ok := b.(float64)
		return ok && math.Float64bits(a) == math.Float64bits(b)
	case []any:
		b, ok := b.([]any)
		if !ok || (a == nil) != (b == nil) || len(a) != len(b) {
			return false
		}
		for i := range a {
			if !c03Equal(a[i], b[i]) {
				return false
			}
		}
		return true
	case map[string]any:
		b, ok := b.(map[string]any)
		if !ok || (a == nil) != (b == nil) || len(a) != len(b) {
			return false
		}
		for k, av := range a {
			bv, ok := b[k]
			if !ok || !c03Equal(av, bv) {
				return false
			}
		}
		return true
	}
	return false
}

func c03Render(v any, sb *strings.Builder, limit int) {
	if sb.Len() > limit {
		return
	}
	switch v := v.(type) {
	case nil:
		sb.WriteString("nil")
	case bool:
		fmt.Fprintf(sb, "%v", v)
	case string:
		fmt.Fprintf(sb, "s:%x", v)
	case float64:
		fmt.Fprintf(sb, "f:%016x", math.Float64bits(v))
	case c03Ovf:
		sb.WriteString("OVF")
	case []any:
		if v == nil {
			sb.WriteString("nil[]")
			return
		}
		sb.WriteString("[")
		for i, e := range v {
			if i > 0 {
				sb.WriteString(",")
			}
			c03Render(e, sb, limit)
		}
		sb.WriteString("]")
	case map[string]any:
		if v == nil {
			sb.WriteString("nil{}")
			return
		}
		ks := make([]string, 0, len(v))
		for k := range v {
			ks = append(ks, k)
		}
		sort.Strings(ks)
		sb.WriteString("{")
		for i, k := range ks {
			if i > 0 {
				sb.WriteString(",")
			}
			fmt.Fprintf(sb, "%x:", k)
			c03Render(v[k], sb, limit)
		}
		sb.WriteString("}")
	default:
		fmt.Fprintf(sb, "?%T", v)
	}
}

func c03Str(v any) string {
	var sb strings.Builder
	c03Render(v, &sb, 600)
	return trunc(sb.String(), 600)
}

// c03FromOracle decodes the oracle's prefix encoding.  class "" = a tree.  Float bit patterns printed by the
// oracle (Spec.f64Round) are compared with math/big; a difference is reported through onFloat.
func c03FromOracle(ans string, onFloat func(lit string, spec string, ref string)) (v any, class string, dupNames bool) {
	if ans == "E" {
		return nil, "invalid", false
	}
	if strings.HasPrefix(ans, "E ") {
		return nil, ans[2:], false
	}
	if strings.HasPrefix(ans, "ERR") {
		fail("oracle: %s", ans)
	}
	w := strings.Fields(ans)
	pos := 0
	var dec func() any
	dec = func() any {
		if pos >= len(w) {
			fail("oracle tree truncated: %s", trunc(ans, 200))
		}
		t := w[pos]
		pos++
		switch t[0] {
		case 'n':
			return nil
		case 't':
			return true
		case 'f':
			return false
		case 'S':
			return string(unhx(t[1:]))
		case 'N':
			i := strings.IndexByte(t, ':')
			lit := string(unhx(t[1:i]))
			spec := t[i+1:]
			bits, ovf := c03BigRound(lit)
			ref := fmt.Sprintf("%016x", bits)
			if ovf {
				ref = "ovf"
			}
			if ref != spec {
				onFloat(lit, spec, ref)
			}
			if ovf {
				return c03Ovf{}
			}
			return math.Float64frombits(bits)
		case 'A':
			k, err := strconv.Atoi(t[1:])
			if err != nil {
				fail("oracle tree: %s", t)
			}
			a := make([]any, 0, k)
			for i := 0; i < k; i++ {
				a = append(a, dec())
			}
			return a
		case 'O':
			k, err := strconv.Atoi(t[1:])
			if err != nil {
				fail("oracle tree: %s", t)
			}
			m := make(map[string]any, k)
			for i := 0; i < k; i++ {
				if pos >= len(w) {
					fail("oracle tree truncated")
				}
				name := string(unhx(w[pos]))
				pos++
				if _, ok := m[name]; ok {
					dupNames = true
				}
				m[name] = dec()
			}
			return m
		}
		fail("oracle tree: bad word %q", t)
		return nil
	}
	v = dec()
	if pos != len(w) {
		fail("oracle tree: trailing words in %s", trunc(ans, 200))
	}
	return v, "", dupNames
}

// ---------------------------------------------------------------------------------------------
// makeString slot (intern.go) through the exported hash hook

func c03Slot(b []byte) int {
	n := len(b)
	if n < 2 || n > 256 {
		return -1
	}
	var h uint32
	switch {
	case n >= 8:
		lo := binary.LittleEndian.Uint64(b[:8])
		hi := binary.LittleEndian.Uint64(b[n-8:])
		h = json.VerifHash64(uint32(lo), uint32(lo>>32)) ^ json.VerifHash64(uint32(hi), uint32(hi>>32))
	case n >= 4:
		h = json.VerifHash64(binary.LittleEndian.Uint32(b[:4]), binary.LittleEndian.Uint32(b[n-4:]))
	default:
		h = json.VerifHash64(uint32(binary.LittleEndian.Uint16(b[:2])), uint32(binary.LittleEndian.Uint16(b[n-2:])))
	}
	return int(h % 256)
}

// c03Families: groups of distinct strings of equal length that share one cache slot.
func c03Families(rng *rand.Rand) [][]string {
	var fams [][]string
	randStr := func(n int) []byte {
		b := make([]byte, n)
		for i := range b {
			b[i] = byte('a' + rng.IntN(26))
		}
		return b
	}
	for _, n := range []int{2, 3, 4, 5, 6, 7, 8, 9, 12, 15, 16, 17, 24, 40, 100, 255, 256} {
		bySlot := map[int][]string{}
		for tries := 0; tries < 5000; tries++ {
			s := randStr(n)
			k := c03Slot(s)
			dup := false
			for _, t := range bySlot[k] {
				if t == string(s) {
					dup = true
				}
			}
			if dup {
				continue
			}
			bySlot[k] = append(bySlot[k], string(s))
			if len(bySlot[k]) == 3 {
				fams = append(fams, bySlot[k])
				break
			}
		}
		if n >= 17 { // same first 8 and last 8 bytes, different middle
			pre, suf := randStr(8), randStr(8)
			var fam []string
			for i := 0; i < 3; i++ {
				mid := randStr(n - 16)
				mid[0] = byte('a' + i)
				fam = append(fam, string(pre)+string(mid)+string(suf))
			}
			fams = append(fams, fam)
		}
	}
	return fams
}

// ---------------------------------------------------------------------------------------------
// generators

type c03Gen struct {
	rng   *rand.Rand
	c     *Ctx
	fams  [][]string
	pool  []string // decoded strings used earlier in the current text (reused to provoke cache hits)
	feats map[string]bool
	nodes int
	depth int
}

func (g *c03Gen) hit(f string) { g.feats[f] = true }

var c03Runes = []rune{0, 1, 0x08, 0x09, 0x0a, 0x0c, 0x0d, 0x1f, ' ', '"', '\\', '/', '<', '>', '&', 0x7f,
	0x80, 0xe9, 0x7ff, 0x800, 0x2028, 0x2029, 0xd7ff, 0xe000, 0xfffd, 0xfffe, 0xffff, 0x10000, 0x1f600, 0x10ffff}

func (g *c03Gen) rune() rune {
	r := g.rng
	switch r.IntN(10) {
	case 0, 1, 2:
		return c03Runes[r.IntN(len(c03Runes))]
	case 3:
		for {
			x := rune(r.IntN(0x110000))
			if x < 0xd800 || x > 0xdfff {
				return x
			}
		}
	case 4:
		return rune(0x80 + r.IntN(0x800-0x80))
	default:
		return rune(0x20 + r.IntN(0x5f))
	}
}

// decoded: the bytes a string must decode to (always valid UTF-8).
func (g *c03Gen) decoded() string {
	r := g.rng
	if len(g.pool) > 0 && r.IntN(5) == 0 {
		g.hit("str:repeat")
		return g.pool[r.IntN(len(g.pool))]
	}
	var s string
	switch k := r.IntN(20); {
	case k == 0:
		s = ""
		g.hit("str:empty")
	case k == 1:
		s = string(g.rune())
		g.hit("str:1rune")
	case k <= 4:
		f := g.fams[r.IntN(len(g.fams))]
		s = f[r.IntN(len(f))]
		g.hit("str:collide")
		g.hit(fmt.Sprintf("str:collide-len%d", c03LenClass(len(s))))
	case k == 5 && r.IntN(2) == 0:
		n := 257 + r.IntN(300)
		switch r.IntN(6) {
		case 0:
			n = 250 + r.IntN(14)
		case 1:
			n = 1000 + r.IntN(3000)
		}
		var sb strings.Builder
		for sb.Len() < n {
			if r.IntN(8) == 0 {
				sb.WriteRune(g.rune())
			} else {
				sb.WriteByte(byte('a' + r.IntN(26)))
			}
		}
		s = sb.String()
		g.hit("str:long")
	case k <= 8:
		n := 2 + r.IntN(14)
		var sb strings.Builder
		for i := 0; i < n; i++ {
			sb.WriteRune(g.rune())
		}
		s = sb.String()
		g.hit("str:adversarial")
	default:
		n := 1 + r.IntN(12)
		b := make([]byte, n)
		for i := range b {
			b[i] = "abcdefghijklmnopqrstuvwxyz0123456789_-. "[r.IntN(40)]
		}
		s = string(b)
		g.hit("str:plain")
	}
	if len(g.pool) < 64 {
		g.pool = append(g.pool, s)
	}
	return s
}

func c03LenClass(n int) int {
	switch {
	case n < 2:
		return 0
	case n < 4:
		return 2
	case n < 8:
		return 4
	case n <= 16:
		return 8
	case n <= 256:
		return 17
	}
	return 257
}

func (g *c03Gen) hex4(b []byte, v rune) []byte {
	const lo, up = "0123456789abcdef", "0123456789ABCDEF"
	for sh := 12; sh >= 0; sh -= 4 {
		d := (v >> uint(sh)) & 15
		if g.rng.IntN(2) == 0 {
			b = append(b, lo[d])
		} else {
			b = append(b, up[d])
		}
	}
	return b
}

// quote: a JSON string literal that denotes s, in a randomly chosen spelling.
func (g *c03Gen) quote(dst []byte, s string) []byte {
	r := g.rng
	p := 0 // probability (in 1/16) of an optional \u escape
	switch r.IntN(4) {
	case 0:
		p = 3
	case 1:
		if len(s) < 64 {
			p = 16
		}
	}
	dst = append(dst, '"')
	for _, c := range s {
		short := byte(0)
		switch c {
		case '"':
			short = '"'
		case '\\':
			short = '\\'
		case '/':
			short = '/'
		case 8:
			short = 'b'
		case 12:
			short = 'f'
		case 10:
			short = 'n'
		case 13:
			short = 'r'
		case 9:
			short = 't'
		}
		must := c < 0x20 || c == '"' || c == '\\'
		if must || r.IntN(16) < p {
			if short != 0 && r.IntN(3) != 0 {
				dst = append(dst, '\\', short)
				g.hit("esc:short-" + string(short))
			} else if c < 0x10000 {
				dst = append(dst, '\\', 'u')
				dst = g.hex4(dst, c)
				if c == 0 {
					g.hit("esc:u0000")
				} else {
					g.hit("esc:u-bmp")
				}
			} else {
				c2 := c - 0x10000
				dst = append(dst, '\\', 'u')
				dst = g.hex4(dst, 0xd800+(c2>>10))
				dst = append(dst, '\\', 'u')
				dst = g.hex4(dst, 0xdc00+(c2&0x3ff))
				g.hit("esc:u-pair")
			}
		} else {
			if c >= 0x80 {
				g.hit(fmt.Sprintf("raw:utf8-%d", utf8.RuneLen(c)))
			}
			dst = utf8.AppendRune(dst, c)
		}
	}
	return append(dst, '"')
}

var c03FixedNums = []string{"0", "-0", "0.0", "-0.0", "0e0", "-0e-0", "0E+5", "1", "-1", "10", "1e0", "1E+0", "1e-0",
	"1e308", "1e309", "-1e309", "1E400", "1e99999", "-1e99999999999999999999", "1e-400", "1e-99999", "0e99999", "0.0e-99999",
	"1.7976931348623157e308", "1.7976931348623158e308", "1.797693134862315807e308", "1.797693134862315808e308", "1.7976931348623159e308",
	"17976931348623157" + "0000000000000000000000000000000000000000000000000000000000000000000000000000000000000000000000000000000000000000000000000000000000000000000000000000000000000000000000000000000000000000000000000000000000000000000000000000000000000000000000000000000000000000000000000000000000000000000000",
	"179769313486231580793728971405303415079934132710037826936173778980444968292764750946649017977587207096330286416692887910946555547851940402630657488671505820681908902000708383676273854845817711531764475730270069855571366959622842914819860834936475292719074168444365510704342711559699508093042880177904174497791",
	"179769313486231580793728971405303415079934132710037826936173778980444968292764750946649017977587207096330286416692887910946555547851940402630657488671505820681908902000708383676273854845817711531764475730270069855571366959622842914819860834936475292719074168444365510704342711559699508093042880177904174497792",
	"5e-324", "4.9e-324", "4.9406564584124654e-324", "2.5e-324", "2.4e-324", "2.4703282292062327e-324", "2.4703282292062328e-324",
	"2.47032822920623272088284396434110686182529901307162382212792841250337753635104375932649918180817996189898282347722858865463328355177969898199387398005390939063150356595155702263922908583924491051844359318028499365361525003193704576782492193656236698636584807570015857692699037063119282795585513329278343384093519780155312465972635795746227664652728272200563740064854999770965994704540208281662262378573934507363390079677619305775067401763246736009689513405355374585166611342237666786041621596804619144672918403005300575308490487653917113865916462395249126236538818796362393732804238910186723484976682350898633885879256283027559956575244555072551893136908362547791869486679949683240497058210285131854513962138377228261454376934125320985913276672363281251e-324",
	"2.2250738585072014e-308", "2.2250738585072011e-308", "2.2250738585072009e-308", "2.225073858507201e-308", "4.4501477170144023e-308",
	"9007199254740992", "9007199254740993", "9007199254740994", "9007199254740995", "-9007199254740993",
	"9007199254740993.0000000000000000000000000000000000000000000000000000001", "9007199254740992.9999999999999999999999",
	"18446744073709551615", "18446744073709551616", "9223372036854775807", "9223372036854775808", "-9223372036854775808", "-9223372036854775809",
	"0.1", "0.2", "0.3", "0.30000000000000004", "123456789012345678901234567890", "1.0000000000000002", "1.00000000000000011102230246251565404236316680908203125",
	"1.00000000000000011102230246251565404236316680908203124", "1.00000000000000011102230246251565404236316680908203126",
	"0.000001", "1e-7", "1e21", "1e22", "1e23", "8.5e22", "6.02214076e+23", "1E-1", "1.5E+003", "100e-2", "0.00000000000000000000000000000000000000000000001e47"}

// exactDec: the exact decimal expansion of a positive rational with a power-of-two denominator.
func c03ExactDec(r *big.Rat) string {
	s := r.FloatString(1200)
	if strings.Contains(s, ".") {
		s = strings.TrimRight(s, "0")
		s = strings.TrimSuffix(s, ".")
	}
	return s
}

func (g *c03Gen) digits(n int, first bool) string {
	b := make([]byte, n)
	for i := range b {
		b[i] = byte('0' + g.rng.IntN(10))
	}
	if first && n > 0 && b[0] == '0' {
		b[0] = byte('1' + g.rng.IntN(9))
	}
	return string(b)
}

func (g *c03Gen) number() string {
	r := g.rng
	switch k := r.IntN(16); {
	case k <= 1:
		g.hit("num:fixed")
		return c03FixedNums[r.IntN(len(c03FixedNums))]
	case k <= 4: // integers of all lengths
		n := 1 + r.IntN(25)
		if r.IntN(8) == 0 {
			n = 26 + r.IntN(320)
		}
		s := g.digits(n, true)
		if n == 1 && r.IntN(2) == 0 {
			s = string(byte('0' + r.IntN(10)))
		}
		if r.IntN(3) == 0 {
			s = "-" + s
		}
		g.hit(fmt.Sprintf("num:int-len%d", min(n/5*5, 30)))
		return s
	case k <= 6: // fractions
		s := g.digits(1+r.IntN(6), true)
		if r.IntN(3) == 0 {
			s = "0"
		}
		s += "." + g.digits(1+r.IntN(20), false)
		if r.IntN(3) == 0 {
			s = "-" + s
		}
		g.hit("num:frac")
		return s
	case k <= 8: // exponents
		s := g.digits(1+r.IntN(3), true)
		if r.IntN(2) == 0 {
			s += "." + g.digits(1+r.IntN(18), false)
		}
		s += string("eE"[r.IntN(2)])
		s += []string{"", "+", "-"}[r.IntN(3)]
		if r.IntN(4) == 0 {
			s += "00"
		}
		e := r.IntN(30)
		switch r.IntN(6) {
		case 0:
			e = 290 + r.IntN(40)
		case 1:
			e = r.IntN(400)
		}
		s += strconv.Itoa(e)
		if r.IntN(3) == 0 {
			s = "-" + s
		}
		g.hit("num:exp")
		return s
	case k <= 11: // shortest representation of a random float, sometimes perturbed in the last digit
		f := math.Float64frombits(r.Uint64() &^ (1 << 63))
		for math.IsInf(f, 0) || math.IsNaN(f) {
			f = math.Float64frombits(r.Uint64() &^ (1 << 63))
		}
		if r.IntN(3) == 0 {
			f = math.Float64frombits(uint64(r.IntN(1<<20)) | uint64(r.IntN(3))<<52) // subnormal / smallest normals
		}
		s := strconv.FormatFloat(f, 'e', -1, 64)
		if r.IntN(2) == 0 {
			s = strconv.FormatFloat(f, 'e', 16+r.IntN(10), 64)
		}
		s = strings.Replace(s, "e+", "e", 1)
		g.hit("num:float-repr")
		return s
	case k <= 12: // halfway cases: the exact midpoint of two adjacent floats, and one unit in the last place around it
		var f float64
		switch r.IntN(4) {
		case 0:
			f = float64(uint64(1)<<52 + uint64(r.IntN(1<<20)))
		case 1:
			f = math.Float64frombits(uint64(r.IntN(1 << 12))) // subnormals
		case 2:
			f = math.Float64frombits(uint64(1023+r.IntN(40)-20)<<52 | r.Uint64()&(1<<52-1))
		default:
			f = math.Float64frombits(uint64(1023+r.IntN(500)-250)<<52 | r.Uint64()&(1<<52-1))
		}
		nx := math.Nextafter(f, math.Inf(1))
		mid := new(big.Rat).Add(new(big.Rat).SetFloat64(f), new(big.Rat).SetFloat64(nx))
		mid.Quo(mid, big.NewRat(2, 1))
		s := c03ExactDec(mid)
		switch r.IntN(3) {
		case 0:
			g.hit("num:half-exact")
		case 1:
			if !strings.Contains(s, ".") {
				s += "."
			}
			s += "0000001"
			g.hit("num:half-above")
		default:
			// decrement the last non-zero digit and append 9s: just below the midpoint
			b := []byte(s)
			i := len(b) - 1
			for i >= 0 && (b[i] == '0' || b[i] == '.') {
				i--
			}
			if i >= 0 && !(i == 0 && b[0] == '1' && len(b) > 1) {
				b[i]--
				if !strings.Contains(string(b), ".") {
					b = append(b, '.')
				}
				b = append(b, "9999999"...)
				s = string(b)
				if strings.HasPrefix(s, "0") && !strings.HasPrefix(s, "0.") {
					s = strings.TrimLeft(s, "0")
					if strings.HasPrefix(s, ".") {
						s = "0" + s
					}
				}
			}
			g.hit("num:half-below")
		}
		return s
	default: // long digit strings needing correct rounding
		s := g.digits(17+r.IntN(60), true)
		if r.IntN(2) == 0 {
			s = s[:1] + "." + s[1:]
		}
		if r.IntN(2) == 0 {
			s += "e" + []string{"", "-"}[r.IntN(2)] + strconv.Itoa(r.IntN(320))
		}
		g.hit("num:long")
		return s
	}
}

func (g *c03Gen) ws(dst []byte) []byte {
	if g.rng.IntN(3) != 0 {
		return dst
	}
	for n := 1 + g.rng.IntN(3); n > 0; n-- {
		dst = append(dst, " \t\n\r"[g.rng.IntN(4)])
	}
	g.hit("ws")
	return dst
}

// value appends a JSON value and returns its reference meaning (numbers via math/big).
func (g *c03Gen) value(dst []byte, depth int, budget *int) ([]byte, any) {
	r := g.rng
	*budget--
	if depth > g.depth {
		g.depth = depth
	}
	k := r.IntN(12)
	if *budget <= 0 || depth > 60 {
		k = r.IntN(7)
	}
	switch {
	case k == 0:
		return append(dst, "null"...), nil
	case k == 1:
		if r.IntN(2) == 0 {
			return append(dst, "true"...), true
		}
		return append(dst, "false"...), false
	case k <= 3:
		s := g.decoded()
		return g.quote(dst, s), s
	case k <= 6:
		lit := g.number()
		bits, ovf := c03BigRound(lit)
		dst = append(dst, lit...)
		if ovf {
			g.hit("num:overflow")
			return dst, c03Ovf{}
		}
		return dst, math.Float64frombits(bits)
	case k <= 9:
		n := r.IntN(5)
		switch r.IntN(40) {
		case 0, 1, 2:
			n = 0
		case 3:
			n = 65 + r.IntN(80)
			g.hit("obj:wide")
		}
		dst = append(dst, '{')
		dst = g.ws(dst)
		m := make(map[string]any, n)
		nameBytes := 0
		for i := 0; i < n; i++ {
			name := g.decoded()
			for tries := 0; ; tries++ {
				if _, dup := m[name]; !dup {
					break
				}
				name += string(rune('a' + r.IntN(26)))
			}
			nameBytes += len(name)
			if i > 0 {
				dst = append(dst, ',')
				dst = g.ws(dst)
			}
			dst = g.quote(dst, name)
			dst = g.ws(dst)
			dst = append(dst, ':')
			dst = g.ws(dst)
			var v any
			dst, v = g.value(dst, depth+1, budget)
			m[name] = v
			dst = g.ws(dst)
		}
		if n == 0 {
			g.hit("obj:empty")
		}
		if nameBytes > 1024 {
			g.hit("obj:names>1024B")
		}
		return append(dst, '}'), m
	default:
		n := r.IntN(5)
		switch r.IntN(40) {
		case 0, 1, 2:
			n = 0
		case 3:
			n = 30 + r.IntN(100)
			g.hit("arr:long")
		}
		dst = append(dst, '[')
		dst = g.ws(dst)
		a := make([]any, 0, n)
		for i := 0; i < n; i++ {
			if i > 0 {
				dst = append(dst, ',')
				dst = g.ws(dst)
			}
			var v any
			dst, v = g.value(dst, depth+1, budget)
			a = append(a, v)
			dst = g.ws(dst)
		}
		if n == 0 {
			g.hit("arr:empty")
		}
		return append(dst, ']'), a
	}
}

// nest wraps an inner value in d containers.
func (g *c03Gen) nest(d int) ([]byte, any) {
	r := g.rng
	var open, close []byte
	kinds := make([]bool, d) // true = object
	mode := r.IntN(3)
	for i := range kinds {
		kinds[i] = mode == 1 || (mode == 2 && r.IntN(2) == 0)
		if kinds[i] {
			open = append(open, `{"a":`...)
		} else {
			open = append(open, '[')
		}
	}
	for i := d - 1; i >= 0; i-- {
		if kinds[i] {
			close = append(close, '}')
		} else {
			close = append(close, ']')
		}
	}
	inner := [][2]string{{"", ""}, {"1", "1"}, {`"x"`, "x"}, {"null", "null"}}[r.IntN(4)]
	var v any
	switch inner[0] {
	case "":
		// innermost container is empty: drop one level's payload
		if d == 0 {
			return []byte("null"), nil
		}
		if kinds[d-1] {
			open = open[:len(open)-len(`"a":`)]
			v = map[string]any{}
		} else {
			v = []any{}
		}
		for i := d - 2; i >= 0; i-- {
			if kinds[i] {
				v = map[string]any{"a": v}
			} else {
				v = []any{v}
			}
		}
		return append(open, close...), v
	case "1":
		v = float64(1)
	case `"x"`:
		v = "x"
	default:
		v = nil
	}
	for i := d - 1; i >= 0; i-- {
		if kinds[i] {
			v = map[string]any{"a": v}
		} else {
			v = []any{v}
		}
	}
	return append(append(open, inner[0]...), close...), v
}

type c03Text struct {
	b     []byte
	ref   any
	feats map[string]bool
	depth int
	kind  string
}

func (g *c03Gen) text() c03Text {
	r := g.rng
	g.pool = g.pool[:0]
	g.feats = map[string]bool{}
	g.depth = 0
	var b []byte
	b = g.ws(b)
	var ref any
	kind := "tree"
	switch k := r.IntN(40); {
	case k == 0: // deep nesting
		ds := []int{1, 2, 3, 50, 100, 999, 1000, 1001, 2500, 9998, 9999, 10000}
		d := ds[r.IntN(len(ds))]
		if r.IntN(4) != 0 {
			d = 1 + r.IntN(300)
		}
		var nb []byte
		nb, ref = g.nest(d)
		b = append(b, nb...)
		g.depth = d
		g.hit(fmt.Sprintf("deep:%d", c03DepthClass(d)))
		kind = "deep"
	case k <= 3: // a single scalar
		budget := 0
		b, ref = g.value(b, 0, &budget)
		kind = "scalar"
	default:
		budget := 3 + r.IntN(12)
		switch r.IntN(300) {
		case 0:
			budget = 300 + r.IntN(300)
		case 1, 2, 3, 4, 5, 6, 7, 8, 9, 10, 11, 12, 13, 14, 15:
			budget = 40 + r.IntN(100)
		}
		b, ref = g.value(b, 0, &budget)
	}
	b = g.ws(b)
	return c03Text{b: b, ref: ref, feats: g.feats, depth: g.depth, kind: kind}
}

func c03DepthClass(d int) int {
	for _, t := range []int{10000, 9999, 9998, 2500, 1001, 1000, 999, 100, 50, 10} {
		if d >= t {
			return t
		}
	}
	return 1
}

// mutate returns a (probably invalid, or duplicate-carrying) variant of a valid text.
func (g *c03Gen) mutate(b []byte) ([]byte, string) {
	r := g.rng
	out := append([]byte(nil), b...)
	if len(out) == 0 {
		return []byte("]"), "mut:insert"
	}
	k := r.IntN(8)
	if r.IntN(150) == 0 {
		k = 8
	}
	switch k {
	case 0:
		i := r.IntN(len(out))
		return append(out[:i], out[i+1:]...), "mut:delete"
	case 1:
		i := r.IntN(len(out))
		out[i] = `{}[],:"\/u0159-+.eEntfa `[r.IntN(24)]
		return out, "mut:replace"
	case 2:
		i := r.IntN(len(out) + 1)
		c := "{}[],:\"\\0-.e \x00\x1f\x80\xc2\xed\xf4\xff"[r.IntN(20)]
		out = append(out[:i], append([]byte{c}, out[i:]...)...)
		return out, "mut:insert"
	case 3:
		return out[:r.IntN(len(out))], "mut:truncate"
	case 4: // duplicate a member: re-insert the first name of some object (respelled) before its closing brace
		idx := bytes.IndexByte(out, '{')
		if idx < 0 {
			return append(out, ' ', '1'), "mut:trailing"
		}
		var v any
		if json.Unmarshal(out, &v) != nil {
			return out[:len(out)/2], "mut:truncate"
		}
		// find an object with at least one member by scanning for `{` followed by a string
		for try := 0; try < 8; try++ {
			p := r.IntN(len(out))
			q := bytes.IndexByte(out[p:], '{')
			if q < 0 {
				continue
			}
			p += q
			d := jtext.NewDecoder(bytes.NewReader(out[p:]))
			if t, err := d.ReadToken(); err != nil || t.Kind() != '{' {
				continue
			}
			t, err := d.ReadToken()
			if err != nil || t.Kind() != '"' {
				continue
			}
			name := t.String()
			depth := 1
			for depth > 0 {
				end := d.InputOffset()
				t, err := d.ReadToken()
				if err != nil {
					break
				}
				switch t.Kind() {
				case '{', '[':
					depth++
				case '}', ']':
					depth--
					if depth == 0 {
						// insert `,"name":0` after the last member (end = offset before `}` incl. whitespace)
						ins := append([]byte{','}, g.quote(nil, name)...)
						ins = append(ins, ":0"...)
						at := p + int(end)
						res := append(append(append([]byte(nil), out[:at]...), ins...), out[at:]...)
						return res, "mut:dup-member"
					}
				}
			}
		}
		return append(out, ','), "mut:trailing"
	case 5: // lone surrogate / bad escape inside some string
		i := bytes.IndexByte(out, '"')
		if i < 0 {
			return append([]byte(`"\ud800"`), out...), "mut:surrogate"
		}
		ins := []string{`\ud800`, `\udc00`, `\ud800\u0041`, `\udbff\ud800`, `\x`, `\u12`, `\u12G4`, "\xff", "\xc0\x80", "\xed\xa0\x80", "\xf4\x90\x80\x80", "\xe2\x82", "\x00", "\n", `\U0041`}[r.IntN(15)]
		out = append(out[:i+1], append([]byte(ins), out[i+1:]...)...)
		return out, "mut:bad-string"
	case 6: // bad number
		for i, c := range out {
			if c >= '0' && c <= '9' {
				ins := []string{"0", ".", "e", "-", "+", "1.", "1e", "1e+", ".5", "x", "00", "0x1"}[r.IntN(12)]
				out = append(out[:i], append([]byte(ins), out[i:]...)...)
				return out, "mut:bad-number"
			}
		}
		return append(out, '0'), "mut:trailing"
	case 7:
		return append(out, []string{" 1", "x", ",", "]", "}", " null", "\x00", "/"}[r.IntN(8)]...), "mut:trailing"
	default: // beyond the nesting limit
		d := 10001 + r.IntN(3)
		if r.IntN(2) == 0 {
			return []byte(strings.Repeat("[", d) + strings.Repeat("]", d)), "mut:depth>10000"
		}
		return []byte(strings.Repeat(`{"a":`, d) + "1" + strings.Repeat("}", d)), "mut:depth>10000"
	}
}

// ---------------------------------------------------------------------------------------------
// running the implementation

type c03I interface{} // named interface type with an empty method set

type c03Struct struct {
	F any
}

type c03Unrelated struct{ X chan int }

var c03OptSets = []struct {
	name    string
	opts    []json.Options
	fast    bool // the specialised decoder stays enabled for values of static type `any`
	noDupCk bool
}{
	{"none", nil, true, false},
	{"AllowDuplicateNames", []json.Options{jtext.AllowDuplicateNames(true)}, false, true},
	{"Unmarshalers-unrelated", []json.Options{json.WithUnmarshalers(json.UnmarshalFunc(func(b []byte, p *c03Unrelated) error {
		return errors.New("must not be called")
	}))}, true, false},
	{"Unmarshalers-any-unsupported", []json.Options{json.WithUnmarshalers(json.UnmarshalFromFunc(func(d *jtext.Decoder, p any) error {
		return errors.ErrUnsupported
	}))}, false, false},
	{"Unmarshalers-*float64-unsupported", []json.Options{json.WithUnmarshalers(json.UnmarshalFromFunc(func(d *jtext.Decoder, p *float64) error {
		return errors.ErrUnsupported
	}))}, false, false},
	{"StringifyNumbers(false)", []json.Options{json.StringifyNumbers(false)}, true, false},
}

var c03Routes = []string{"Unmarshal", "UnmarshalRead", "UnmarshalRead-1byte", "UnmarshalDecode-Reader", "UnmarshalDecode-Buffer"}
var c03Targets = []string{"any", "map", "slice", "named-iface", "struct-field", "ptr-any"}

func c03Classify(err error) string {
	if err == nil {
		return ""
	}
	if errors.Is(err, jtext.ErrDuplicateName) {
		return "dup"
	}
	var se *jtext.SyntacticError
	if errors.As(err, &se) {
		return "syntax"
	}
	if err == io.EOF || err == io.ErrUnexpectedEOF || errors.Is(err, io.ErrUnexpectedEOF) {
		return "syntax"
	}
	var me *json.SemanticError
	if errors.As(err, &me) {
		if errors.Is(err, strconv.ErrRange) {
			return "range"
		}
		return "mismatch"
	}
	return "other:" + fmt.Sprintf("%T", err)
}

// c03Decode runs one route into one target.  The result is normalised to `any`.
func c03Decode(c *Ctx, route, target int, text []byte, opts []json.Options) (v any, class string, ok bool) {
	in := text
	if target == 4 {
		in = append(append([]byte(`{"F":`), text...), '}')
	}
	var (
		xa any
		xm map[string]any
		xs []any
		xi c03I
		xf c03Struct
		xp *any
	)
	var out any
	switch target {
	case 0:
		out = &xa
	case 1:
		out = &xm
	case 2:
		out = &xs
	case 3:
		out = &xi
	case 4:
		out = &xf
	case 5:
		out = &xp
	}
	var err error
	p := guard(func() {
		switch route {
		case 0:
			err = json.Unmarshal(in, out, opts...)
		case 1:
			err = json.UnmarshalRead(bytes.NewReader(in), out, opts...)
		case 2:
			err = json.UnmarshalRead(iotest.OneByteReader(bytes.NewReader(in)), out, opts...)
		case 3, 4:
			var d *jtext.Decoder
			if route == 3 {
				d = jtext.NewDecoder(bytes.NewReader(in))
			} else {
				d = jtext.NewDecoder(bytes.NewBuffer(append([]byte(nil), in...)))
			}
			err = json.UnmarshalDecode(d, out, opts...)
			if err == nil {
				// Unmarshal and UnmarshalRead require end of input after the value; do the same here
				if _, err2 := d.ReadToken(); err2 != io.EOF {
					if err2 == nil {
						err = &jtext.SyntacticError{Err: errors.New("trailing data")}
					} else {
						err = err2
					}
				}
			}
		}
	})
	if p != nil {
		c.Panic(c03Routes[route]+"/"+c03Targets[target], text, p, nil)
		return nil, "", false
	}
	if err != nil {
		return nil, c03Classify(err), true
	}
	switch target {
	case 0:
		v = xa
	case 1:
		if xm != nil { // a JSON null leaves the nil map / nil slice: the zero value, written nil
			v = xm
		}
	case 2:
		if xs != nil {
			v = xs
		}
	case 3:
		v = any(xi)
	case 4:
		v = xf.F
	case 5:
		if xp == nil {
			// a JSON null leaves the pointer nil
			v = nil
		} else {
			v = *xp
		}
	}
	return v, "", true
}

func c03Kind(ref any) byte {
	switch ref.(type) {
	case map[string]any:
		return '{'
	case []any:
		return '['
	}
	return 's'
}

// c03Predicate checks one valid duplicate-free text with reference meaning ref over the whole grid.
func c03Predicate(c *Ctx, rng *rand.Rand, t c03Text, full bool) {
	wantErr := c03HasOvf(t.ref)
	kind := c03Kind(t.ref)
	nontrivial := kind != 's' || len(t.b) > 8
	big := len(t.b) > 4096
	deep := t.depth >= 500 // deep recursion is expensive in the generic route: sample the grid
	for oi, os := range c03OptSets {
		for ti := range c03Targets {
			if ti == 1 && kind != '{' || ti == 2 && kind != '[' {
				continue
			}
			if ti == 4 && t.depth >= 10000 {
				continue
			}
			for ri := range c03Routes {
				if !full && (big || oi > 0) && ri != rng.IntN(len(c03Routes)) && !(oi == 0 && ri == 0) {
					continue // large texts and non-default option sets: one random route per (option set, target)
				}
				if deep && rng.IntN(12) != 0 && !(oi == 0 && ri == 0 && ti == 0) {
					continue
				}
				v, class, ok := c03Decode(c, ri, ti, t.b, os.opts)
				if !ok {
					continue
				}
				op := c03Routes[ri] + "/" + c03Targets[ti] + "/" + os.name
				c.Case(op+"|"+string(t.b), nontrivial)
				if wantErr {
					if class != "range" {
						c.Violate("overflow-not-reported", op, t.b, map[string]any{"class": class, "got": c03Str(v)})
					}
					continue
				}
				if class != "" {
					c.Violate("valid-text-rejected", op, t.b, map[string]any{"class": class})
					continue
				}
				if !c03Equal(v, t.ref) {
					c.Violate("meaning", op, t.b, map[string]any{"got": c03Str(v), "want": c03Str(t.ref)})
				}
			}
		}
	}
}

// ---------------------------------------------------------------------------------------------
// correspondence with the Lean models

type c03Corr struct {
	op     string // oracle op (without the hex)
	target int
	opt    int
}

var c03CorrOps = []c03Corr{
	{"tree fast", 0, 0},
	{"tree gen", 0, 3},
	{"tree gen", 0, 4},
	{"tree iface 0 1", 3, 0},
	{"tree iface 0 0", 3, 3},
	{"tree map 1", 1, 0},
	{"tree map 0", 1, 3},
	{"tree slice 1", 2, 0},
	{"tree slice 0", 2, 4},
	{"tree fast", 5, 0},
	{"tree fast", 0, 2},
	{"tree fast", 0, 5},
}

func c03Correspond(c *Ctx, or *Oracle, rng *rand.Rand, texts [][]byte, tags []string, perText int) {
	if or == nil {
		return
	}
	var lines []string
	var sel [][]c03Corr
	for _, b := range texts {
		h := hx(b)
		var ops []c03Corr
		if perText >= len(c03CorrOps) {
			ops = c03CorrOps
		} else {
			for _, j := range rng.Perm(len(c03CorrOps))[:perText] {
				ops = append(ops, c03CorrOps[j])
			}
		}
		sel = append(sel, ops)
		for _, co := range ops {
			lines = append(lines, co.op+" "+h)
		}
	}
	// two independent formalisations of "valid JSON text": Spec.Meaning.parseTree and C01's validator model
	var xl []string
	for _, b := range texts {
		h := hx(b)
		xl = append(xl, "tree parse "+h, "wire valid 0 1 "+h)
	}
	xa := or.Ask(xl)
	for i, b := range texts {
		p, v := xa[2*i], xa[2*i+1]
		if strings.HasPrefix(p, "ERR") || strings.HasPrefix(v, "ERR") {
			fail("oracle: %s / %s", p, v)
		}
		pok, vok := p != "E", v == "ok"
		c.Case("spec-vs-validator|"+string(b), true)
		c.Hit("xcheck:" + map[bool]string{true: "valid", false: "invalid"}[pok])
		if pok != vok && !(pok && strings.HasPrefix(v, "E depth")) { // the spec has no nesting limit
			c.Violate("corr-spec-vs-validator", "tree parse ~ wire valid 0 1", b, map[string]any{"tree parse": trunc(p, 200), "wire valid": v})
		}
	}
	c03LogLines(lines)
	ans := or.Ask(lines)
	k := 0
	for i, b := range texts {
		for _, co := range sel[i] {
			a := ans[k]
			k++
			want, wclass, _ := c03FromOracle(a, func(lit, spec, ref string) {
				c.Violate("corr-f64Round", "tree f64", []byte(lit), map[string]any{"spec": spec, "math/big": ref})
			})
			if wclass == "" && c03HasOvf(want) {
				fail("model returned a tree containing an overflowing literal: %s", trunc(a, 200))
			}
			ri := rng.IntN(len(c03Routes))
			got, gclass, ok := c03Decode(c, ri, co.target, b, c03OptSets[co.opt].opts)
			if !ok {
				continue
			}
			op := co.op + " ~ " + c03Routes[ri] + "/" + c03Targets[co.target] + "/" + c03OptSets[co.opt].name
			c.Case(op+"|"+string(b), true)
			c.Hit("corr:" + tags[i] + ":" + map[bool]string{true: "ok", false: "E-" + wclass}[wclass == ""])
			if gclass != wclass {
				c.Violate("corr-outcome", op, b, map[string]any{"impl": gclass, "model": wclass, "impl_value": c03Str(got)})
				continue
			}
			if wclass == "" && !c03Equal(got, want) {
				c.Violate("corr-tree", op, b, map[string]any{"impl": c03Str(got), "model": c03Str(want)})
			}
		}
	}
}

// c03Intern: makeString vs its model: slot index (hash) and cache hits (pointer identity).
func c03Intern(c *Ctx, or *Oracle, rng *rand.Rand, fams [][]string, rounds int) {
	if or == nil {
		return
	}
	for round := 0; round < rounds; round++ {
		n := 2 + rng.IntN(40)
		var seq [][]byte
		poolN := 1 + rng.IntN(6)
		var pool [][]byte
		for i := 0; i < poolN; i++ {
			switch rng.IntN(4) {
			case 0:
				l := rng.IntN(300)
				b := make([]byte, l)
				for j := range b {
					b[j] = byte(rng.IntN(256))
				}
				pool = append(pool, b)
			default:
				f := fams[rng.IntN(len(fams))]
				for _, s := range f {
					pool = append(pool, []byte(s))
				}
			}
		}
		for i := 0; i < n; i++ {
			seq = append(seq, pool[rng.IntN(len(pool))])
		}
		words := make([]string, len(seq))
		for i, b := range seq {
			words[i] = hx(b)
		}
		ans := strings.Fields(or.Ask1("tree intern " + strings.Join(words, " ")))
		if len(ans) != len(seq) {
			fail("tree intern: %d answers for %d strings", len(ans), len(seq))
		}
		var cache json.VerifStringCache
		var keep []string
		seen := map[*byte]bool{}
		for i, b := range seq {
			var s string
			if p := guard(func() { s = cache.MakeString(b) }); p != nil {
				c.Panic("makeString", b, p, nil)
				break
			}
			keep = append(keep, s)
			if s != string(b) {
				c.Violate("intern-changes-string", "makeString", b, map[string]any{"got": hex.EncodeToString([]byte(s))})
			}
			slot := "-"
			if k := c03Slot(b); k >= 0 {
				slot = strconv.Itoa(k)
			}
			hit := "0"
			if len(b) >= 2 {
				p := unsafe.StringData(s)
				if seen[p] {
					hit = "1"
				}
				seen[p] = true
			}
			got := slot + ":" + hit
			c.Case("intern|"+words[i]+"|"+strconv.Itoa(i), true)
			if got != ans[i] {
				c.Violate("corr-intern", "tree intern", b, map[string]any{"impl": got, "model": ans[i], "index": i, "seq": trunc(strings.Join(words, " "), 400)})
			}
		}
		c.Hit("intern:rounds")
		_ = keep
	}
}

// c03Floats: the trusted parameter strconv.ParseFloat against math/big and the executable spec f64Round.
func c03Floats(c *Ctx, or *Oracle, g *c03Gen, n int, extra ...string) {
	var lits []string
	lits = append(lits, c03FixedNums...)
	for _, e := range extra {
		if c03NumRE.MatchString(e) {
			lits = append(lits, e)
		}
	}
	for i := 0; i < n; i++ {
		lits = append(lits, g.number())
	}
	var ans []string
	if or != nil {
		lines := make([]string, len(lits))
		for i, l := range lits {
			lines[i] = "tree f64 " + hx([]byte(l))
		}
		ans = or.Ask(lines)
	}
	for i, l := range lits {
		bits, ovf := c03BigRound(l)
		ref := fmt.Sprintf("%016x", bits)
		if ovf {
			ref = "ovf"
		}
		f, err := strconv.ParseFloat(l, 64)
		got := fmt.Sprintf("%016x", math.Float64bits(f))
		if err != nil {
			got = "ovf"
		}
		c.Case("f64|"+l, true)
		if got != ref {
			c.Violate("float-rounding", "strconv.ParseFloat", []byte(l), map[string]any{"strconv": got, "math/big": ref})
		}
		if ans != nil && ans[i] != ref {
			c.Violate("corr-f64Round", "tree f64", []byte(l), map[string]any{"spec": ans[i], "math/big": ref})
		}
	}
}

// c03Unescape: Spec.unescape against the generator's intended meaning and the library's own unquoting.
func c03Unescape(c *Ctx, or *Oracle, g *c03Gen, n int) {
	if or == nil {
		return
	}
	var lines []string
	var want []string
	var lit [][]byte
	for i := 0; i < n; i++ {
		g.feats = map[string]bool{}
		s := g.decoded()
		q := g.quote(nil, s)
		lit = append(lit, q)
		want = append(want, "S"+hx([]byte(s)))
		lines = append(lines, "tree unesc "+hx(q))
	}
	ans := or.Ask(lines)
	for i := range ans {
		c.Case("unesc|"+string(lit[i]), true)
		if ans[i] != want[i] {
			fail("Spec.unescape disagrees with the generator on %q: %s vs %s", lit[i], ans[i], want[i])
		}
		var got []byte
		var err error
		if p := guard(func() { got, err = jtext.AppendUnquote(nil, lit[i]) }); p != nil {
			c.Panic("AppendUnquote", lit[i], p, nil)
			continue
		}
		if err != nil || "S"+hx(got) != want[i] {
			c.Violate("unquote-meaning", "jsontext.AppendUnquote", lit[i], map[string]any{"got": hx(got), "err": fmt.Sprint(err), "want": want[i]})
		}
	}
}

// ---------------------------------------------------------------------------------------------

var c03LogMu sync.Mutex

// c03LogLines: development aid (VERIF_C03_LOG=file): append the oracle requests to a file.
func c03LogLines(lines []string) {
	pth := os.Getenv("VERIF_C03_LOG")
	if pth == "" {
		return
	}
	c03LogMu.Lock()
	defer c03LogMu.Unlock()
	f, err := os.OpenFile(pth, os.O_APPEND|os.O_CREATE|os.O_WRONLY, 0o644)
	if err != nil {
		return
	}
	defer f.Close()
	f.WriteString(strings.Join(lines, "\n") + "\n")
}

func c03Worker(c *Ctx, w int, nTexts int, fams [][]string) {
	rng := c.SubRng(uint64(w))
	or := c.NewOracle()
	g := &c03Gen{rng: rng, c: c, fams: fams, feats: map[string]bool{}}
	const batch = 250
	for done := 0; done < nTexts; {
		n := min(batch, nTexts-done)
		done += n
		texts := make([]c03Text, n)
		lines := make([]string, n)
		for i := range texts {
			texts[i] = g.text()
			lines[i] = "tree parse " + hx(texts[i].b)
		}
		var ans []string
		if or != nil {
			c03LogLines(lines)
			ans = or.Ask(lines)
			vl := make([]string, n)
			for i := range texts {
				vl[i] = "wire valid 0 1 " + hx(texts[i].b)
			}
			for i, v := range or.Ask(vl) {
				c.Case("spec-vs-validator|"+string(texts[i].b), true)
				c.Hit("xcheck:valid")
				if (ans[i] != "E") != (v == "ok") {
					c.Violate("corr-spec-vs-validator", "tree parse ~ wire valid 0 1", texts[i].b, map[string]any{"tree parse": trunc(ans[i], 200), "wire valid": v})
				}
			}
		}
		var corrTexts [][]byte
		var corrTags []string
		for i, t := range texts {
			for f := range t.feats {
				c.Hit(f)
			}
			c.Hit(fmt.Sprintf("size:%d", c03SizeClass(len(t.b))))
			c.Hit("kind:" + t.kind)
			if ans != nil {
				// the proven spec is the reference; the generator's expectation must agree with it
				spec, class, dup := c03FromOracle(ans[i], func(lit, spec, ref string) {
					c.Violate("corr-f64Round", "tree f64", []byte(lit), map[string]any{"spec": spec, "math/big": ref})
				})
				if class != "" || dup {
					fail("generator produced a text the spec rejects (%s dup=%v): %q", class, dup, trunc(string(t.b), 300))
				}
				if !c03RefEqual(spec, t.ref) {
					fail("spec tree differs from the generator's meaning for %q:\n spec %s\n gen  %s", trunc(string(t.b), 300), c03Str(spec), c03Str(t.ref))
				}
				t.ref = spec
			}
			if c03HasOvf(t.ref) {
				c.Hit("expect:range-error")
			} else {
				c.Hit("expect:tree")
			}
			c03Predicate(c, rng, t, false)
			if i < 3 && done <= batch && w == 0 {
				c.Sample(map[string]any{"text": trunc(string(t.b), 200), "meaning": c03Str(t.ref)})
			}
			// correspondence inputs: the valid text itself (1 in 8), and mutants
			if rng.IntN(12) == 0 {
				corrTexts = append(corrTexts, t.b)
				corrTags = append(corrTags, "valid")
			}
			if rng.IntN(4) == 0 && len(t.b) < 60000 {
				m, tag := g.mutate(t.b)
				corrTexts = append(corrTexts, m)
				corrTags = append(corrTags, tag)
			}
		}
		c03Correspond(c, or, rng, corrTexts, corrTags, 4)
	}
	if w == 0 {
		c03Floats(c, or, g, c.N(20000, 400000))
		c03Unescape(c, or, g, c.N(5000, 100000))
		c03Intern(c, or, rng, fams, c.N(300, 5000))
	}
}

// c03RefEqual compares two reference trees (which may contain overflow markers).
func c03RefEqual(a, b any) bool {
	switch a := a.(type) {
	case c03Ovf:
		_, ok := b.(c03Ovf)
		return ok
	case []any:
		b, ok := b.([]any)
		if !ok || len(a) != len(b) {
			return false
		}
		for i := range a {
			if !c03RefEqual(a[i], b[i]) {
				return false
			}
		}
		return true
	case map[string]any:
		b, ok := b.(map[string]any)
		if !ok || len(a) != len(b) {
			return false
		}
		for k, av := range a {
			bv, ok := b[k]
			if !ok || !c03RefEqual(av, bv) {
				return false
			}
		}
		return true
	}
	return c03Equal(a, b)
}

func c03SizeClass(n int) int {
	for _, t := range []int{65536, 16384, 4096, 1024, 256, 64, 16} {
		if n >= t {
			return t
		}
	}
	return 0
}

// c03Boundary: fixed texts every run checks on the full grid.
func c03Boundary(c *Ctx, or *Oracle) {
	fixed := []string{`null`, `true`, `false`, `0`, `-0`, `""`, `[]`, `{}`, ` [ ] `, "\t{\n}\r", `[[]]`, `[{}]`, `{"":{}}`, `{"":[]}`,
		`"\u0000"`, `"\ud83d\ude00"`, `"\uD83D\uDE00"`, `"\"\\\/\b\f\n\r\t"`, `"\u0022\u005c\u002f"`, "\"\u00e9\u20ac\U0001f600\"", `"\uffff\ufffe\ufffd"`,
		`[1e308,1.7976931348623157e308,5e-324,2.5e-324,2.4703282292062327e-324]`, `1e309`, `[1,2,-1e309]`, `{"a":1e400}`, `[1.797693134862315807e308]`, `[1.797693134862315808e308]`,
		`{"a":1,"b":[true,false,null,"x",1.5,{"c":{}}]}`, `{"a":"a","b":"a","c":["a","a"]}`, `[-0,0,-0.0,0e5,-0e-5]`,
		`{"\u0061":1,"b":2}`, `{"a\u0000":1,"a":2}`, `{"\ud83d\ude00":1,"😀x":2}`}
	for _, d := range []int{9999, 10000} {
		fixed = append(fixed, strings.Repeat("[", d)+strings.Repeat("]", d), strings.Repeat(`{"a":`, d-1)+"{}"+strings.Repeat("}", d-1))
	}
	// a wide object: 200 names, more than 1024 bytes of names, colliding and repeated values
	var sb strings.Builder
	sb.WriteString("{")
	for i := 0; i < 200; i++ {
		if i > 0 {
			sb.WriteString(",")
		}
		fmt.Fprintf(&sb, `"name-%04d-%s":"value-%d"`, i, strings.Repeat("x", i%9), i%7)
	}
	sb.WriteString("}")
	fixed = append(fixed, sb.String())
	rng := rand.New(rand.NewPCG(c.Seed, 77))
	for _, s := range fixed {
		b := []byte(s)
		var ref any
		if or != nil {
			var class string
			ref, class, _ = c03FromOracle(or.Ask1("tree parse "+hx(b)), func(lit, spec, r string) {
				c.Violate("corr-f64Round", "tree f64", []byte(lit), map[string]any{"spec": spec, "math/big": r})
			})
			if class != "" {
				fail("spec rejects the fixed text %q", trunc(s, 100))
			}
		} else {
			continue
		}
		d := 0
		for _, ch := range b {
			if ch == '[' || ch == '{' {
				d++
			}
		}
		c.Hit("fixed")
		c03Predicate(c, rng, c03Text{b: b, ref: ref, depth: d}, len(b) < 5000)
	}
}

func runC03(c *Ctx) {
	fams := c03Families(rand.New(rand.NewPCG(c.Seed, 99)))
	if c.ReplayPath != "" {
		c03Replay(c, fams)
		return
	}
	or := c.NewOracle()
	if or == nil {
		c.Note("oracle unavailable: reference meaning taken from the generator only")
	}
	c03Boundary(c, or)
	workers := 4
	if c.Thorough() {
		workers = 16
	}
	total := c.N(6000, 1000000)
	if s := os.Getenv("VERIF_C03_N"); s != "" { // development aid: override the number of texts
		if n, err := strconv.Atoi(s); err == nil {
			total = n
		}
	}
	var wg sync.WaitGroup
	var mu sync.Mutex
	var failure any
	for w := 0; w < workers; w++ {
		wg.Add(1)
		go func(w int) {
			defer wg.Done()
			defer func() {
				if r := recover(); r != nil {
					mu.Lock()
					if failure == nil {
						failure = r
					}
					mu.Unlock()
				}
			}()
			c03Worker(c, w, total/workers, fams)
		}(w)
	}
	wg.Wait()
	if failure != nil {
		panic(failure)
	}
	// call sequences over long-lived inputs, alone in this goroutine (decoder pools are per P)
	c03Sequences(c, or, c.N(250, 6000))
}

// c03Replay re-runs one recorded input through the predicate (if the spec accepts it) and the correspondence.
func c03Replay(c *Ctx, fams [][]string) {
	raw, err := os.ReadFile(c.ReplayPath)
	if err != nil {
		fail("replay: %v", err)
	}
	i := bytes.Index(raw, []byte(`"input_hex": "`))
	if i < 0 {
		fail("replay: no input_hex")
	}
	rest := raw[i+len(`"input_hex": "`):]
	j := bytes.IndexByte(rest, '"')
	b, err := hex.DecodeString(string(rest[:j]))
	if err != nil {
		fail("replay: %v", err)
	}
	or := c.NewOracle()
	if or == nil {
		fail("replay needs the oracle")
	}
	if c03ReplaySeq(c, or, raw) {
		return
	}
	rng := rand.New(rand.NewPCG(c.Seed, 5))
	ref, class, dup := c03FromOracle(or.Ask1("tree parse "+hx(b)), func(lit, spec, r string) {
		c.Violate("corr-f64Round", "tree f64", []byte(lit), map[string]any{"spec": spec, "math/big": r})
	})
	if class == "" && !dup {
		c03Predicate(c, rng, c03Text{b: b, ref: ref, depth: bytes.Count(b, []byte("[")) + bytes.Count(b, []byte("{"))}, true)
	}
	c03Correspond(c, or, rng, [][]byte{b}, []string{"replay"}, len(c03CorrOps))
	g := &c03Gen{rng: rng, c: c, fams: fams, feats: map[string]bool{}}
	c03Floats(c, or, g, 0, string(b))
}
