package main

// Subprocess operations of C09: calls into /repo/v1 that may not terminate or may overflow the stack
// run in a child (`verifh -sub c09-… args`), with a timeout enforced by the parent.
//
//	c09-indent  <srchex> <prefixhex> <indenthex> <prehex>   → "ok <dsthex>" | "err <dsthex> <msghex>"
//	c09-cycle   <name>                                       → "ok <hex>" | "err" (v1.Marshal of a cyclic value)

import (
	"bytes"
	"context"
	"fmt"
	"os"
	"os/exec"
	"runtime/debug"
	"strings"
	"time"

	jsonv1 "github.com/go-json-experiment/json/v1"
)

// c09IndentTimeout bounds one child call of v1.Indent.  It is deliberately generous: a short limit turns
// scheduling delays on a loaded machine into false "hang" reports.
const c09IndentTimeout = 45 * time.Second

func init() {
	subOps["c09-indent"] = func(args []string) {
		if len(args) != 4 {
			fmt.Println("bad-args")
			os.Exit(2)
		}
		src, prefix, indent, pre := unhx(args[0]), string(unhx(args[1])), string(unhx(args[2])), unhx(args[3])
		var dst bytes.Buffer
		dst.Write(pre)
		var err error
		if p := guard(func() { err = jsonv1.Indent(&dst, src, prefix, indent) }); p != nil {
			fmt.Printf("panic %s\n", hx([]byte(fmt.Sprint(p))))
			return
		}
		if err != nil {
			fmt.Printf("err %s %s\n", hx(dst.Bytes()), hx([]byte(err.Error())))
			return
		}
		fmt.Printf("ok %s\n", hx(dst.Bytes()))
	}
	subOps["c09-cycle"] = func(args []string) {
		debug.SetMaxStack(64 << 20) // fail fast: the default 1 GB limit takes seconds to reach
		if len(args) != 1 {
			fmt.Println("bad-args")
			os.Exit(2)
		}
		v, ok := c09CyclicValues()[args[0]]
		if !ok {
			fmt.Println("bad-args")
			os.Exit(2)
		}
		var b []byte
		var err error
		if p := guard(func() { b, err = jsonv1.Marshal(v) }); p != nil {
			fmt.Printf("panic %s\n", hx([]byte(fmt.Sprint(p))))
			return
		}
		if err != nil {
			fmt.Println("err")
			return
		}
		fmt.Printf("ok %s\n", hx(b))
	}
}

// c09RunSub re-executes this binary with -sub and returns the first output line, or status "timeout"/"crash".
func c09RunSub(timeout time.Duration, name string, args ...string) (line string, status string) {
	exe, err := os.Executable()
	if err != nil {
		fail("os.Executable: %v", err)
	}
	ctx, cancel := context.WithTimeout(context.Background(), timeout)
	defer cancel()
	cmd := exec.CommandContext(ctx, exe, append([]string{"-sub", name}, args...)...)
	cmd.Env = append(os.Environ(), "GOMEMLIMIT=1GiB", "GOTRACEBACK=none")
	var out, errb bytes.Buffer
	cmd.Stdout = &out
	cmd.Stderr = &errb
	err = cmd.Run()
	if ctx.Err() == context.DeadlineExceeded {
		return "", "timeout"
	}
	if err != nil {
		e := errb.String()
		if len(e) > 300 {
			e = e[:300]
		}
		return strings.TrimSpace(e), "crash"
	}
	return strings.TrimSpace(out.String()), "ok"
}

// c09SubIndent runs v1.Indent in a child.  status: "ok" (out/errS valid), "timeout", "crash".
func c09SubIndent(src []byte, prefix, indent string, pre []byte) (out []byte, errS string, status string) {
	line, st := c09RunSub(c09IndentTimeout, "c09-indent", hx(src), hx([]byte(prefix)), hx([]byte(indent)), hx(pre))
	if st == "timeout" {
		// a loaded machine can starve the child: retry once before calling it a hang
		line, st = c09RunSub(c09IndentTimeout, "c09-indent", hx(src), hx([]byte(prefix)), hx([]byte(indent)), hx(pre))
	}
	if st != "ok" {
		return nil, line, st
	}
	f := strings.Fields(line)
	switch {
	case len(f) == 2 && f[0] == "ok":
		return unhx(f[1]), "", "ok"
	case len(f) == 3 && f[0] == "err":
		return unhx(f[1]), string(unhx(f[2])) + " ", "ok"
	case len(f) == 2 && f[0] == "panic":
		return nil, "panic: " + string(unhx(f[1])), "crash"
	}
	fail("c09-indent: unexpected child output %q", line)
	return
}

// c09CyclicValues are the pointer-only cycles of DESIGN.md §6 D2 (owned by slice c20; run here only in the child).
type c09P *c09P

func c09CyclicValues() map[string]any {
	var p c09P
	p = &p
	var x any
	x = &x
	type node struct{ Next *node }
	n := &node{}
	n.Next = n
	m := map[string]any{}
	m["self"] = m
	s := []any{nil}
	s[0] = s
	return map[string]any{"ptr": p, "iface": &x, "struct": n, "map": m, "slice": s}
}
