package main

// C19 — Options compose as last-wins maps and apply only where scoped.
//
// Correspondence (Tie B): jsonflags.Flags methods and jsonopts.Struct.Join/GetOption vs the
// Lean models (families `flags`, `opts`).  Predicates evaluated on the implementation:
// last-setter-wins against a reference Go map keyed by constructor name, nested = flat,
// scoped options restored after MarshalEncode/UnmarshalDecode (also after errors),
// DefaultOptionsV2 cancels every v1 option, documented-irrelevant options do not change results.

import (
	"bytes"
	"fmt"
	"math"
	"math/rand/v2"
	"reflect"
	"strings"
	"time"

	json "github.com/go-json-experiment/json"
	"github.com/go-json-experiment/json/internal/jsonflags"
	"github.com/go-json-experiment/json/internal/jsonopts"
	"github.com/go-json-experiment/json/jsontext"
	jsonv1 "github.com/go-json-experiment/json/v1"
)

func init() { register("C19", runC19) }

// optCtor is one public option constructor applied to one argument class.
type optCtor struct {
	name string // map key in the reference model (the option's identity)
	arg  string // printable argument
	mk   func() json.Options
	val  any // value GetOption must report when this is the last setter
	// implied: other options this constructor documents as setting
	implied map[string]any
}

type boolCtor struct {
	name string
	f    func(bool) json.Options
}

var boolCtors = []boolCtor{
	{"AllowDuplicateNames", jsontext.AllowDuplicateNames}, {"AllowInvalidUTF8", jsontext.AllowInvalidUTF8},
	{"EscapeForHTML", jsontext.EscapeForHTML}, {"EscapeForJS", jsontext.EscapeForJS},
	{"PreserveRawStrings", jsontext.PreserveRawStrings}, {"CanonicalizeRawInts", jsontext.CanonicalizeRawInts},
	{"CanonicalizeRawFloats", jsontext.CanonicalizeRawFloats}, {"ReorderRawObjects", jsontext.ReorderRawObjects},
	{"SpaceAfterColon", jsontext.SpaceAfterColon}, {"SpaceAfterComma", jsontext.SpaceAfterComma},
	{"Multiline", jsontext.Multiline},
	{"StringifyNumbers", json.StringifyNumbers}, {"Deterministic", json.Deterministic},
	{"FormatNilSliceAsNull", json.FormatNilSliceAsNull}, {"FormatNilMapAsNull", json.FormatNilMapAsNull},
	{"OmitZeroStructFields", json.OmitZeroStructFields}, {"MatchCaseInsensitiveNames", json.MatchCaseInsensitiveNames},
	{"RejectUnknownMembers", json.RejectUnknownMembers},
	{"CallMethodsWithLegacySemantics", jsonv1.CallMethodsWithLegacySemantics},
	{"FormatByteArrayAsArray", jsonv1.FormatByteArrayAsArray},
	{"FormatBytesWithLegacySemantics", jsonv1.FormatBytesWithLegacySemantics},
	{"FormatDurationAsNano", jsonv1.FormatDurationAsNano},
	{"MatchCaseSensitiveDelimiter", jsonv1.MatchCaseSensitiveDelimiter},
	{"MergeWithLegacySemantics", jsonv1.MergeWithLegacySemantics},
	{"OmitEmptyWithLegacySemantics", jsonv1.OmitEmptyWithLegacySemantics},
	{"ParseBytesWithLooseRFC4648", jsonv1.ParseBytesWithLooseRFC4648},
	{"ParseTimeWithLooseRFC3339", jsonv1.ParseTimeWithLooseRFC3339},
	{"ReportErrorsWithLegacySemantics", jsonv1.ReportErrorsWithLegacySemantics},
	{"StringifyWithLegacySemantics", jsonv1.StringifyWithLegacySemantics},
	{"UnmarshalArrayFromAnyLength", jsonv1.UnmarshalArrayFromAnyLength},
	{"ExperimentalSupportFormatTag", json.ExperimentalSupportFormatTag},
}

// the 21 flags that DefaultOptionsV1 sets to true and DefaultOptionsV2 to false (flags.go DefaultV1Flags)
var v1Defaulted = []string{"AllowDuplicateNames", "AllowInvalidUTF8", "EscapeForHTML", "EscapeForJS", "PreserveRawStrings",
	"Deterministic", "FormatNilMapAsNull", "FormatNilSliceAsNull", "MatchCaseInsensitiveNames",
	"CallMethodsWithLegacySemantics", "FormatByteArrayAsArray", "FormatBytesWithLegacySemantics", "FormatDurationAsNano",
	"MatchCaseSensitiveDelimiter", "MergeWithLegacySemantics", "OmitEmptyWithLegacySemantics", "ParseBytesWithLooseRFC4648",
	"ParseTimeWithLooseRFC3339", "ReportErrorsWithLegacySemantics", "StringifyWithLegacySemantics", "UnmarshalArrayFromAnyLength"}

var (
	c19Marshalers   = []*json.Marshalers{nil, json.MarshalFunc(func(int8) ([]byte, error) { return []byte("1"), nil }), json.MarshalFunc(func(int16) ([]byte, error) { return []byte("2"), nil })}
	c19Unmarshalers = []*json.Unmarshalers{nil, json.UnmarshalFunc(func([]byte, *int8) error { return nil }), json.UnmarshalFunc(func([]byte, *int16) error { return nil })}
)

func c19Ctors() []optCtor {
	var cs []optCtor
	for _, bc := range boolCtors {
		for _, v := range []bool{false, true} {
			bc, v := bc, v
			cs = append(cs, optCtor{name: bc.name, arg: fmt.Sprint(v), mk: func() json.Options { return bc.f(v) }, val: v})
		}
	}
	for _, s := range []string{"", " ", "\t", "  ", " \t ", "     "} {
		s := s
		cs = append(cs, optCtor{name: "WithIndent", arg: fmt.Sprintf("%q", s), mk: func() json.Options { return jsontext.WithIndent(s) }, val: s, implied: map[string]any{"Multiline": true}})
		cs = append(cs, optCtor{name: "WithIndentPrefix", arg: fmt.Sprintf("%q", s), mk: func() json.Options { return jsontext.WithIndentPrefix(s) }, val: s, implied: map[string]any{"Multiline": true}})
	}
	for _, n := range []int64{0, 1, -1, 1 << 40, -1 << 63, 1<<63 - 1} {
		n := n
		cs = append(cs, optCtor{name: "WithByteLimit", arg: fmt.Sprint(n), mk: func() json.Options { return jsonopts.ByteLimit(n) }, val: n})
	}
	for _, n := range []int{0, 1, -1, 10000, 1 << 40} {
		n := n
		cs = append(cs, optCtor{name: "WithDepthLimit", arg: fmt.Sprint(n), mk: func() json.Options { return jsonopts.DepthLimit(n) }, val: n})
	}
	for i := range c19Marshalers {
		i := i
		cs = append(cs, optCtor{name: "WithMarshalers", arg: fmt.Sprint(i), mk: func() json.Options { return json.WithMarshalers(c19Marshalers[i]) }, val: c19Marshalers[i]})
		cs = append(cs, optCtor{name: "WithUnmarshalers", arg: fmt.Sprint(i), mk: func() json.Options { return json.WithUnmarshalers(c19Unmarshalers[i]) }, val: c19Unmarshalers[i]})
	}
	cs = append(cs, optCtor{name: "nil", arg: "", mk: func() json.Options { return nil }})
	v2 := map[string]any{}
	v1 := map[string]any{}
	for _, n := range v1Defaulted {
		v2[n] = false
		v1[n] = true
	}
	cs = append(cs, optCtor{name: "DefaultOptionsV2", mk: json.DefaultOptionsV2, implied: v2})
	cs = append(cs, optCtor{name: "DefaultOptionsV1", mk: jsonv1.DefaultOptionsV1, implied: v1})
	return cs
}

// tokensOf renders a Go option value in the oracle's prefix notation by its dynamic type
// (this is "what the code says", not what the constructor is documented to do).
func c19Tokens(o json.Options) string {
	switch x := o.(type) {
	case nil:
		return "N"
	case jsonflags.Bools:
		if uint64(x)&uint64(jsonflags.NonBooleanFlags) != 0 {
			// hypothesis Opt.WF of the Lean theorems: a Bools option never names a non-boolean flag
			c19WFBroken = append(c19WFBroken, uint64(x))
		}
		return fmt.Sprintf("B %x", uint64(x))
	case interface{ ExperimentalSupportFormatTag() bool }:
		if x.ExperimentalSupportFormatTag() {
			return "T 1"
		}
		return "T 0"
	case jsonopts.Indent:
		return "I " + hx([]byte(x))
	case jsonopts.IndentPrefix:
		return "P " + hx([]byte(x))
	case jsonopts.ByteLimit:
		return fmt.Sprintf("L %d", int64(x))
	case jsonopts.DepthLimit:
		return fmt.Sprintf("D %d", int(x))
	case *jsonopts.Struct:
		return "X " + c19StructStr(x) // literal struct
	}
	// marshalers / unmarshalers options are unexported pointer types of package json
	rv := reflect.ValueOf(o)
	if rv.Kind() == reflect.Pointer {
		tn := rv.Type().Elem().Name()
		switch tn {
		case "marshalersOption":
			return fmt.Sprintf("M %d", c19PtrID(rv.Pointer()))
		case "unmarshalersOption":
			return fmt.Sprintf("U %d", c19PtrID(rv.Pointer()))
		}
	}
	fail("C19: option of unexpected dynamic type %T", o)
	return ""
}

var c19WFBroken []uint64

var c19Ptrs = map[uintptr]int{0: 0}

func c19PtrID(p uintptr) int {
	if id, ok := c19Ptrs[p]; ok {
		return id
	}
	id := len(c19Ptrs)
	c19Ptrs[p] = id
	return id
}

func c19AnyPtrID(v any) int {
	if v == nil {
		return 0
	}
	rv := reflect.ValueOf(v)
	if rv.Kind() != reflect.Pointer {
		return -1
	}
	return c19PtrID(rv.Pointer())
}

func c19StructStr(s *jsonopts.Struct) string {
	return fmt.Sprintf("%x %x %s %s %d %d %d %d %s", s.Flags.Presence, s.Flags.Values, hx([]byte(s.Indent)), hx([]byte(s.IndentPrefix)),
		s.ByteLimit, s.DepthLimit, c19AnyPtrID(s.Marshalers), c19AnyPtrID(s.Unmarshalers), hx([]byte(s.Format)))
}

type c19Getter struct {
	name string
	key  string // oracle key tokens
	get  func(o json.Options) (any, bool)
}

func c19Getters() []c19Getter {
	var gs []c19Getter
	for _, bc := range boolCtors {
		bc := bc
		key := ""
		switch x := bc.f(false).(type) {
		case jsonflags.Bools:
			key = fmt.Sprintf("F %x", uint64(x))
		default:
			key = "T"
		}
		gs = append(gs, c19Getter{bc.name, key, func(o json.Options) (any, bool) { return json.GetOption(o, bc.f) }})
	}
	gs = append(gs,
		c19Getter{"WithIndent", "I", func(o json.Options) (any, bool) { return json.GetOption(o, jsontext.WithIndent) }},
		c19Getter{"WithIndentPrefix", "P", func(o json.Options) (any, bool) { return json.GetOption(o, jsontext.WithIndentPrefix) }},
		c19Getter{"WithByteLimit", "L", func(o json.Options) (any, bool) {
			return json.GetOption(o, func(n int64) json.Options { return jsonopts.ByteLimit(n) })
		}},
		c19Getter{"WithDepthLimit", "D", func(o json.Options) (any, bool) {
			return json.GetOption(o, func(n int) json.Options { return jsonopts.DepthLimit(n) })
		}},
		c19Getter{"WithMarshalers", "M", func(o json.Options) (any, bool) { return json.GetOption(o, json.WithMarshalers) }},
		c19Getter{"WithUnmarshalers", "U", func(o json.Options) (any, bool) { return json.GetOption(o, json.WithUnmarshalers) }},
	)
	return gs
}

func c19ValStr(v any) string {
	switch x := v.(type) {
	case bool:
		if x {
			return "1"
		}
		return "0"
	case string:
		return hx([]byte(x))
	case int64:
		return fmt.Sprint(x)
	case int:
		return fmt.Sprint(x)
	case *json.Marshalers:
		if x == nil {
			return "0"
		}
		return fmt.Sprint(c19PtrID(reflect.ValueOf(x).Pointer()))
	case *json.Unmarshalers:
		if x == nil {
			return "0"
		}
		return fmt.Sprint(c19PtrID(reflect.ValueOf(x).Pointer()))
	}
	return fmt.Sprintf("?%T", v)
}

func b2s(b bool) string {
	if b {
		return "1"
	}
	return "0"
}

func runC19(c *Ctx) {
	or := c.NewOracle()
	c19FlagsCorr(c, or)
	c19OptsSeqs(c, or)
	for _, w := range c19WFBroken {
		c.Violate("corr-opts-wf", "Bools", nil, map[string]any{"word": fmt.Sprintf("%x", w),
			"broken": "hypothesis Opt.WF of struct_join_map: a Bools option names a non-boolean flag"})
	}
	c19Scoped(c)
	c19ScopeTree(c, or)
	c19V1V2(c)
	c19NonInterference(c)
	c19ExplicitDefault(c)
}

// ---- (a) Flags methods on arbitrary words vs the model

func c19Word(r *rand.Rand) uint64 {
	switch r.IntN(6) {
	case 0:
		return 0
	case 1:
		return ^uint64(0)
	case 2:
		return 1 << r.IntN(64)
	case 3:
		return (1 << r.IntN(64)) | 1
	case 4:
		return r.Uint64() & r.Uint64() & r.Uint64()
	default:
		return r.Uint64()
	}
}

func c19FlagsCorr(c *Ctx, or *Oracle) {
	n := c.N(20000, 2000000)
	type q struct {
		line, want string
	}
	var batch []q
	flush := func() {
		if or == nil || len(batch) == 0 {
			batch = batch[:0]
			return
		}
		lines := make([]string, len(batch))
		for i, b := range batch {
			lines[i] = b.line
		}
		got := or.Ask(lines)
		for i, b := range batch {
			if got[i] != b.want {
				c.Violate("corr-flags", strings.Fields(b.line)[1], nil, map[string]any{"line": b.line, "impl": b.want, "model": got[i],
					"broken": "correspondence flags." + strings.Fields(b.line)[1]})
			}
		}
		batch = batch[:0]
	}
	for i := 0; i < n; i++ {
		p, v, p2, v2, f := c19Word(c.Rng), c19Word(c.Rng), c19Word(c.Rng), c19Word(c.Rng), c19Word(c.Rng)
		if c.Rng.IntN(2) == 0 { // well-formed operands
			v &= p
			v2 &= p2
			p &^= 1
			p2 &^= 1
			v &^= 1
			v2 &^= 1
		}
		a := jsonflags.Flags{Presence: p, Values: v}
		a.Join(jsonflags.Flags{Presence: p2, Values: v2})
		batch = append(batch, q{fmt.Sprintf("flags join %x %x %x %x", p, v, p2, v2), fmt.Sprintf("%x %x", a.Presence, a.Values)})
		b := jsonflags.Flags{Presence: p, Values: v}
		b.Set(jsonflags.Bools(f))
		batch = append(batch, q{fmt.Sprintf("flags set %x %x %x", p, v, f), fmt.Sprintf("%x %x", b.Presence, b.Values)})
		d := jsonflags.Flags{Presence: p, Values: v}
		d.Clear(jsonflags.Bools(f))
		batch = append(batch, q{fmt.Sprintf("flags clear %x %x %x", p, v, f), fmt.Sprintf("%x %x", d.Presence, d.Values)})
		e := jsonflags.Flags{Presence: p, Values: v}
		batch = append(batch, q{fmt.Sprintf("flags get %x %x %x", p, v, f), b2s(e.Get(jsonflags.Bools(f)))})
		batch = append(batch, q{fmt.Sprintf("flags has %x %x %x", p, v, f), b2s(e.Has(jsonflags.Bools(f)))})
		// property-level predicate on the implementation: Set then Get/Has of a single flag
		bit := uint64(1) << (1 + c.Rng.IntN(63))
		val := uint64(c.Rng.IntN(2))
		g := jsonflags.Flags{Presence: p &^ 1, Values: v & p &^ 1}
		before := g
		g.Set(jsonflags.Bools(bit | val))
		if !g.Has(jsonflags.Bools(bit)) || g.Get(jsonflags.Bools(bit)) != (val == 1) ||
			(g.Presence&^bit) != (before.Presence&^bit) || (g.Values&^bit) != (before.Values&^bit) {
			c.Violate("set-get", "Flags.Set", nil, map[string]any{"presence": before.Presence, "values": before.Values, "flag": bit | val})
		}
		c.Case(fmt.Sprintf("f%x.%x.%x.%x.%x", p, v, p2, v2, f), true)
		if len(batch) >= 5000 {
			flush()
		}
		if i < 2 {
			c.Sample(map[string]any{"op": "flags", "lines": []string{batch[len(batch)-5].line, batch[len(batch)-4].line}})
		}
	}
	flush()
	c.HitN("flags-words", int64(n))
}

// ---- (b,c,d) option sequences: correspondence with the model + last-wins reference map

func c19OptsSeqs(c *Ctx, or *Oracle) {
	ctors := c19Ctors()
	getters := c19Getters()
	maxExh := 2
	nrand := c.N(3000, 300000)
	if c.Thorough() {
		maxExh = 3
	}
	var seqs [][]int
	var rec func(prefix []int, depth int)
	rec = func(prefix []int, depth int) {
		seqs = append(seqs, append([]int(nil), prefix...))
		if depth == maxExh {
			return
		}
		for i := range ctors {
			rec(append(prefix, i), depth+1)
		}
	}
	rec(nil, 0)
	nExh := len(seqs)
	for i := 0; i < nrand; i++ {
		l := 3 + c.Rng.IntN(10)
		s := make([]int, l)
		for j := range s {
			s[j] = c.Rng.IntN(len(ctors))
		}
		seqs = append(seqs, s)
	}
	c.HitN("opts-seq-exhaustive(len<=%d)", 0)
	c.HitN(fmt.Sprintf("opts-seq-exhaustive-len<=%d", maxExh), int64(nExh))
	c.HitN("opts-seq-random-len3..12", int64(nrand))

	type pending struct {
		lines []string
		wants []string
		desc  string
	}
	var batch []pending
	flush := func() {
		if or == nil {
			batch = batch[:0]
			return
		}
		var lines []string
		for _, p := range batch {
			lines = append(lines, p.lines...)
		}
		got := or.Ask(lines)
		k := 0
		for _, p := range batch {
			for i := range p.lines {
				if got[k] != p.wants[i] {
					c.Violate("corr-opts", strings.Fields(p.lines[i])[1], nil, map[string]any{"seq": p.desc, "line": p.lines[i], "impl": p.wants[i], "model": got[k],
						"broken": "correspondence opts." + strings.Fields(p.lines[i])[1]})
				}
				k++
			}
		}
		batch = batch[:0]
	}

	for si, s := range seqs {
		opts := make([]json.Options, len(s))
		ref := map[string]any{}
		var toks, desc []string
		for i, ci := range s {
			ct := ctors[ci]
			opts[i] = ct.mk()
			toks = append(toks, c19TokensTop(opts[i]))
			desc = append(desc, ct.name+"("+ct.arg+")")
			if ct.name != "nil" && ct.val != nil || ct.name == "WithMarshalers" || ct.name == "WithUnmarshalers" {
				ref[ct.name] = ct.val
			}
			for k, v := range ct.implied {
				ref[k] = v
			}
		}
		joined := json.JoinOptions(opts...)
		js := joined.(*jsonopts.Struct)
		p := pending{desc: strings.Join(desc, ",")}
		p.lines = append(p.lines, fmt.Sprintf("opts join %d %s", len(s), strings.Join(toks, " ")))
		p.wants = append(p.wants, c19StructStr(js))
		for _, g := range getters {
			v, ok := g.get(joined)
			// (c) reference map predicate
			want, has := ref[g.name]
			if ok != has || (has && !reflect.DeepEqual(v, want)) {
				c.Violate("last-wins", "GetOption("+g.name+")", nil, map[string]any{"seq": p.desc, "got": fmt.Sprint(v), "ok": ok, "want": fmt.Sprint(want), "want_ok": has})
			}
			if !has && !reflect.ValueOf(v).IsZero() {
				c.Violate("absent-nonzero", "GetOption("+g.name+")", nil, map[string]any{"seq": p.desc, "got": fmt.Sprint(v)})
			}
			// separately-passed options (not pre-joined) through GetOption on a non-Struct value is not possible;
			// the model line checks the same lookup
			if si%7 == 0 || len(s) <= 2 {
				p.lines = append(p.lines, fmt.Sprintf("opts get %s %d %s", g.key, len(s), strings.Join(toks, " ")))
				p.wants = append(p.wants, c19ValStr(v)+" "+b2s(ok))
			}
		}
		// (d) nested = flat: split at every point into JoinOptions(a..., JoinOptions(b...), c...)
		if len(s) >= 2 {
			i := c.Rng.IntN(len(s))
			j := i + c.Rng.IntN(len(s)-i+1)
			nested := append(append(append([]json.Options{}, opts[:i]...), json.JoinOptions(opts[i:j]...)), opts[j:]...)
			n2 := json.JoinOptions(nested...).(*jsonopts.Struct)
			if c19StructStr(n2) != c19StructStr(js) {
				c.Violate("nested-flat", "JoinOptions", nil, map[string]any{"seq": p.desc, "i": i, "j": j, "flat": c19StructStr(js), "nested": c19StructStr(n2)})
			}
			ntoks := append(append(append([]string{}, toks[:i]...), fmt.Sprintf("S %d %s", j-i, strings.Join(toks[i:j], " "))), toks[j:]...)
			p.lines = append(p.lines, fmt.Sprintf("opts join %d %s", len(nested), strings.Join(ntoks, " ")))
			p.wants = append(p.wants, c19StructStr(n2))
		}
		batch = append(batch, p)
		c.Case("seq:"+p.desc, len(s) >= 2)
		if si == 5 || si == nExh+1 {
			c.Sample(map[string]any{"op": "opts", "seq": p.desc, "line": p.lines[0], "impl": p.wants[0]})
		}
		if len(batch) >= 500 {
			flush()
		}
	}
	flush()
}

// c19TokensTop renders a top-level option; *Struct values (DefaultOptionsV1/V2, joined results) are
// identified by content so the model can use its own definition of the defaults.
func c19TokensTop(o json.Options) string {
	if s, ok := o.(*jsonopts.Struct); ok {
		if s == &jsonopts.DefaultOptionsV2 {
			return "V2"
		}
		if s == &jsonopts.DefaultOptionsV1 {
			return "V1"
		}
	}
	return c19Tokens(o)
}

// ---- (e) scoped options

type c19Bad struct{}

func (c19Bad) MarshalJSON() ([]byte, error) { return nil, fmt.Errorf("boom") }

// Types whose (un)marshaling fails in the middle of a struct, after a field tag
// (`string`, `format`) has temporarily changed the option struct that is passed down.
type c19Tagged struct {
	N int    `json:"n,string"`
	B c19Bad `json:"b,string"`
	Z int    `json:"z"`
}
type c19TaggedLast struct {
	A int    `json:"a"`
	B c19Bad `json:"b,string"`
}
type c19TaggedNested struct {
	X []c19Tagged          `json:"x"`
	M map[string]c19Tagged `json:"m"`
}
type c19FormatTagged struct {
	D []byte `json:"d,format:base64"`
	B c19Bad `json:"b,format:base64"`
}
type c19inner struct {
	N int `json:"n,string"`
	Q int `json:"q"`
}
type c19EmbedNil struct { // unmarshal cannot allocate the embedded pointer to an unexported struct type
	*c19inner
	M int `json:"m"`
}
type c19UnmTagged struct {
	N int     `json:"n,string"`
	F float64 `json:"f,string"`
	S string  `json:"s"`
}

func c19Scoped(c *Ctx) {
	ctors := c19Ctors()
	n := c.N(3000, 150000)
	vals := []any{1, "x", []int{1, 2}, map[string]int{"a": 1}, c19Bad{}, struct{ A c19Bad }{}, nil, make(chan int),
		c19Tagged{N: 1}, &c19Tagged{N: 2}, c19TaggedLast{A: 1}, c19TaggedNested{X: []c19Tagged{{N: 1}}}, c19TaggedNested{M: map[string]c19Tagged{"k": {N: 1}}},
		c19FormatTagged{D: []byte("x")}, []any{c19Tagged{N: 3}}, map[string]any{"t": c19TaggedLast{}}}
	type decCase struct {
		in  string
		tgt func() any
	}
	decs := []decCase{
		{`1`, func() any { return new(any) }}, {`"x"`, func() any { return new(any) }}, {`[1,2]`, func() any { return new(any) }},
		{`{"a":1}`, func() any { return new(struct{ A int }) }}, {`{"a":`, func() any { return new(any) }}, {`tru`, func() any { return new(any) }},
		{``, func() any { return new(any) }}, {`{"A":"x"}`, func() any { return new(struct{ A int }) }},
		{`{"n":"1","f":"x","s":"t"}`, func() any { return new(c19UnmTagged) }}, {`{"n":"1","f":"2.5","s":3}`, func() any { return new(c19UnmTagged) }},
		{`{"n":1}`, func() any { return new(c19UnmTagged) }}, {`{"m":1,"n":"1"}`, func() any { return new(c19EmbedNil) }},
		{`{"n":"1","q":2,"m":3}`, func() any { return new(c19EmbedNil) }}, {`[{"n":"1","f":"y"}]`, func() any { return new([]c19UnmTagged) }},
		{`{"k":{"n":"x"}}`, func() any { return new(map[string]c19UnmTagged) }}, {`{"n":"1","f":"2"}`, func() any { return new(c19UnmTagged) }},
	}
	for i := 0; i < n; i++ {
		// coder's own options
		var own, call []json.Options
		var desc []string
		for k := c.Rng.IntN(4); k > 0; k-- {
			ct := ctors[c.Rng.IntN(len(ctors))]
			own = append(own, ct.mk())
			desc = append(desc, "own:"+ct.name+"("+ct.arg+")")
		}
		// 0..3 call options: with none, the arshal call works directly on the coder's option struct
		for k := c.Rng.IntN(4); k > 0; k-- {
			ct := ctors[c.Rng.IntN(len(ctors))]
			call = append(call, ct.mk())
			desc = append(desc, "call:"+ct.name+"("+ct.arg+")")
		}
		c.Hit(fmt.Sprintf("scoped-call-options=%d", len(call)))
		v := vals[c.Rng.IntN(len(vals))]
		var buf bytes.Buffer
		enc := jsontext.NewEncoder(&buf, own...)
		before := c19StructStr(enc.Options().(*jsonopts.Struct))
		var err error
		if p := guard(func() { err = json.MarshalEncode(enc, v, call...) }); p != nil {
			c.Panic("MarshalEncode", nil, p, map[string]any{"seq": strings.Join(desc, ","), "value": fmt.Sprintf("%T", v)})
		}
		after := c19StructStr(enc.Options().(*jsonopts.Struct))
		if before != after {
			c.Violate("scoped-encode", "MarshalEncode", nil, map[string]any{"seq": strings.Join(desc, ","), "before": before, "after": after, "err": fmt.Sprint(err), "value": fmt.Sprintf("%T", v)})
		}
		if err != nil {
			c.Hit("scoped-encode-error")
		} else {
			c.Hit("scoped-encode-ok")
		}
		dc := decs[c.Rng.IntN(len(decs))]
		in := dc.in
		dec := jsontext.NewDecoder(strings.NewReader(in), own...)
		beforeD := c19StructStr(dec.Options().(*jsonopts.Struct))
		tgt := dc.tgt()
		if p := guard(func() { err = json.UnmarshalDecode(dec, tgt, call...) }); p != nil {
			c.Panic("UnmarshalDecode", []byte(in), p, map[string]any{"seq": strings.Join(desc, ",")})
		}
		afterD := c19StructStr(dec.Options().(*jsonopts.Struct))
		if beforeD != afterD {
			c.Violate("scoped-decode", "UnmarshalDecode", []byte(in), map[string]any{"seq": strings.Join(desc, ","), "before": beforeD, "after": afterD, "err": fmt.Sprint(err), "target": fmt.Sprintf("%T", tgt)})
		}
		if err != nil {
			c.Hit("scoped-decode-error")
		} else {
			c.Hit("scoped-decode-ok")
		}
		c.Case("scoped:"+strings.Join(desc, ",")+in+fmt.Sprintf("%T", v), true)
	}
}

// ---- (f,g) v1 = v2 + DefaultOptionsV1 ; DefaultOptionsV2 cancels v1 options

type c19T struct {
	A int                `json:"a,omitempty"`
	B string             `json:"b"`
	C []byte             `json:"c"`
	D map[string]int     `json:"d"`
	E []int              `json:"e"`
	F *int               `json:"f,omitempty"`
	G [2]byte            `json:"g"`
	H float64            `json:"h,string"`
	I map[int]string     `json:"i"`
	J any                `json:"j"`
	K struct{ X, Y int } `json:"k"`
}

func c19Val(r *rand.Rand) any {
	strs := []string{"", "a", "<&>", " ", "\xff", "héllo", "a\"b"}
	t := c19T{A: r.IntN(3), B: strs[r.IntN(len(strs))], H: float64(r.IntN(5)) / 2}
	if r.IntN(2) == 0 {
		t.C = []byte(strs[r.IntN(len(strs))])
	}
	if r.IntN(2) == 0 {
		t.D = map[string]int{strs[r.IntN(len(strs))]: 3} // single entry: order-free without Deterministic
	}
	if r.IntN(2) == 0 {
		t.E = make([]int, r.IntN(3))
	}
	if r.IntN(2) == 0 {
		x := r.IntN(5)
		t.F = &x
	}
	if r.IntN(2) == 0 {
		t.I = map[int]string{2: "b"}
	}
	switch r.IntN(8) {
	case 0:
		t.J = 1.5
	case 1:
		t.J = []any{"x", nil}
	case 2:
		t.J = map[string]any{"q": strs[r.IntN(len(strs))]}
	case 3:
		t.J = []any(nil) // nil containers held in an interface take the specialised `any` paths
	case 4:
		t.J = map[string]any(nil)
	case 5:
		t.J = []any{[]any(nil), map[string]any(nil), []int(nil), map[string]int(nil)}
	case 6:
		t.J = map[string]any{"s": []any{[]any(nil), map[string]any(nil)}} // single entry: order-free
	}
	switch r.IntN(6) {
	case 0:
		return t
	case 1:
		return &t
	case 2:
		return []c19T{t}
	case 3:
		return []any{t.J, []any(nil), map[string]any(nil)}
	case 4:
		return map[string]any{"j": t.J}
	default:
		return map[string]any{"t": t.B}
	}
}

func c19V1V2(c *Ctx) {
	n := c.N(3000, 200000)
	ctors := c19Ctors()
	var v1only []optCtor
	for _, ct := range ctors {
		for _, nme := range v1Defaulted {
			if ct.name == nme {
				v1only = append(v1only, ct)
			}
		}
	}
	for i := 0; i < n; i++ {
		v := c19Val(c.Rng)
		b1, e1 := jsonv1.Marshal(v)
		b2, e2 := json.Marshal(v, jsonv1.DefaultOptionsV1())
		if (e1 == nil) != (e2 == nil) || (e1 == nil && !bytes.Equal(b1, b2)) {
			c.Violate("v1-is-v2-defaultsV1", "v1.Marshal", nil, map[string]any{"value": fmt.Sprintf("%+v", v), "v1": string(b1), "v2": string(b2), "e1": fmt.Sprint(e1), "e2": fmt.Sprint(e2)})
		}
		if e1 == nil {
			// unmarshal side on the produced text
			p1, p2 := reflect.New(reflect.TypeOf(v)), reflect.New(reflect.TypeOf(v))
			u1 := jsonv1.Unmarshal(b1, p1.Interface())
			u2 := json.Unmarshal(b1, p2.Interface(), jsonv1.DefaultOptionsV1())
			if (u1 == nil) != (u2 == nil) || !reflect.DeepEqual(p1.Elem().Interface(), p2.Elem().Interface()) {
				c.Violate("v1-is-v2-defaultsV1", "v1.Unmarshal", b1, map[string]any{"u1": fmt.Sprint(u1), "u2": fmt.Sprint(u2)})
			}
		}
		// DefaultOptionsV2 appended after arbitrary v1 options cancels them all
		var opts []json.Options
		var desc []string
		for k := c.Rng.IntN(5); k > 0; k-- {
			ct := v1only[c.Rng.IntN(len(v1only))]
			opts = append(opts, ct.mk())
			desc = append(desc, ct.name+"("+ct.arg+")")
		}
		if c.Rng.IntN(3) == 0 {
			opts = append(opts, jsonv1.DefaultOptionsV1())
			desc = append(desc, "DefaultOptionsV1")
		}
		opts = append(opts, json.DefaultOptionsV2())
		b3, e3 := json.Marshal(v, opts...)
		b4, e4 := json.Marshal(v)
		if (e3 == nil) != (e4 == nil) || (e3 == nil && !bytes.Equal(b3, b4)) {
			c.Violate("v2-cancels-v1", "Marshal", nil, map[string]any{"opts": strings.Join(desc, ","), "value": fmt.Sprintf("%+v", v), "with": string(b3), "plain": string(b4), "e3": fmt.Sprint(e3), "e4": fmt.Sprint(e4)})
		}
		if e3 != nil {
			c.Hit("v1v2-marshal-error")
		} else {
			c.Hit("v1v2-marshal-ok")
		}
		c.Case("v1v2:"+strings.Join(desc, ",")+string(b4), len(desc) > 0)
		if i == 3 {
			c.Sample(map[string]any{"op": "v2-cancels-v1", "opts": desc, "out": trunc(string(b4), 120)})
		}
	}
}

// ---- (h) documented-irrelevant options do not change results

func c19NonInterference(c *Ctx) {
	n := c.N(3000, 200000)
	// unmarshal-only options (flags.go: "unmarshal only" / "unmarshal") must not affect Marshal
	unmarshalOnly := []func() json.Options{
		func() json.Options { return json.RejectUnknownMembers(true) },
		func() json.Options { return json.WithUnmarshalers(c19Unmarshalers[1]) },
		func() json.Options { return jsonv1.MergeWithLegacySemantics(true) },
		func() json.Options { return jsonv1.ParseBytesWithLooseRFC4648(true) },
		func() json.Options { return jsonv1.ParseTimeWithLooseRFC3339(true) },
		func() json.Options { return jsonv1.UnmarshalArrayFromAnyLength(true) },
	}
	// marshal-only / encode-only options must not affect Unmarshal
	marshalOnly := []func() json.Options{
		func() json.Options { return json.Deterministic(true) },
		func() json.Options { return json.FormatNilMapAsNull(true) },
		func() json.Options { return json.FormatNilSliceAsNull(true) },
		func() json.Options { return json.OmitZeroStructFields(true) },
		func() json.Options { return json.WithMarshalers(c19Marshalers[1]) },
		func() json.Options { return jsonv1.OmitEmptyWithLegacySemantics(true) },
		func() json.Options { return jsontext.PreserveRawStrings(true) },
		func() json.Options { return jsontext.CanonicalizeRawInts(true) },
		func() json.Options { return jsontext.CanonicalizeRawFloats(true) },
		func() json.Options { return jsontext.ReorderRawObjects(true) },
		func() json.Options { return jsontext.EscapeForHTML(true) },
		func() json.Options { return jsontext.EscapeForJS(true) },
		func() json.Options { return jsontext.Multiline(true) },
		func() json.Options { return jsontext.SpaceAfterColon(true) },
		func() json.Options { return jsontext.SpaceAfterComma(true) },
		func() json.Options { return jsontext.WithIndent("  ") },
		func() json.Options { return jsontext.WithIndentPrefix(" ") },
	}
	base := [][]json.Options{nil, {json.Deterministic(true)}, {jsonv1.DefaultOptionsV1()}, {json.StringifyNumbers(true)}, {json.MatchCaseInsensitiveNames(true)}}
	for i := 0; i < n; i++ {
		v := c19Val(c.Rng)
		bo := base[c.Rng.IntN(len(base))]
		bo = append(bo[:len(bo):len(bo)], json.Deterministic(true))
		b1, e1 := json.Marshal(v, bo...)
		k := c.Rng.IntN(len(unmarshalOnly))
		b2, e2 := json.Marshal(v, append(bo[:len(bo):len(bo)], unmarshalOnly[k]())...)
		if (e1 == nil) != (e2 == nil) || (e1 == nil && !bytes.Equal(b1, b2)) {
			c.Violate("noninterf-marshal", fmt.Sprintf("unmarshalOnly[%d]", k), nil, map[string]any{"value": fmt.Sprintf("%+v", v), "without": string(b1), "with": string(b2)})
		}
		if e1 != nil {
			c.Hit("noninterf-marshal-error")
			continue
		}
		c.Hit("noninterf-marshal-ok")
		// now Unmarshal of that text with and without a marshal-only option
		bo2 := base[c.Rng.IntN(len(base))]
		p1, p2 := reflect.New(reflect.TypeOf(v)), reflect.New(reflect.TypeOf(v))
		text := b1
		if c.Rng.IntN(4) == 0 && len(text) > 2 { // also erroneous input
			text = text[:c.Rng.IntN(len(text))]
		}
		u1 := json.Unmarshal(text, p1.Interface(), bo2...)
		k2 := c.Rng.IntN(len(marshalOnly))
		u2 := json.Unmarshal(text, p2.Interface(), append(bo2[:len(bo2):len(bo2)], marshalOnly[k2]())...)
		if (u1 == nil) != (u2 == nil) || !reflect.DeepEqual(p1.Elem().Interface(), p2.Elem().Interface()) {
			c.Violate("noninterf-unmarshal", fmt.Sprintf("marshalOnly[%d]", k2), text, map[string]any{"u1": fmt.Sprint(u1), "u2": fmt.Sprint(u2)})
		}
		c.Case(fmt.Sprintf("ni:%d:%d:%s", k, k2, text), true)
	}
}

// ---- (i) an option explicitly set to its default value behaves like the option being absent, and
// X(true) followed by X(false) like X(false): the behavioural side of "last setter wins".
// SpaceAfterColon/SpaceAfterComma are excluded: under Multiline an explicit false is documented to differ from absent.
// c19F: every kind of `format`-tagged field (needs ExperimentalSupportFormatTag), so that options read by the format
// specific code paths (time, duration, bytes, nil containers, non-finite floats) are exercised too.
type c19F struct {
	T1 time.Time      `json:"t1,format:unix"`
	T2 time.Time      `json:"t2,format:unixmilli"`
	T3 time.Time      `json:"t3,format:unixmicro"`
	T4 time.Time      `json:"t4,format:unixnano"`
	T5 time.Time      `json:"t5,format:RFC3339"`
	T6 time.Time      `json:"t6"`
	T7 time.Time      `json:"t7,string,format:unix"`
	T8 time.Time      `json:"t8,format:DateOnly"`
	D1 time.Duration  `json:"d1,format:sec"`
	D2 time.Duration  `json:"d2,format:milli"`
	D3 time.Duration  `json:"d3,format:nano"`
	D4 time.Duration  `json:"d4,format:units"`
	D5 time.Duration  `json:"d5,format:iso8601"`
	D6 time.Duration  `json:"d6,string,format:micro"`
	B1 []byte         `json:"b1,format:base64url"`
	B2 []byte         `json:"b2,format:hex"`
	B3 [2]byte        `json:"b3,format:array"`
	B4 []byte         `json:"b4,format:base32"`
	S1 []int          `json:"s1,format:emitnull"`
	S2 []int          `json:"s2,format:emitempty"`
	M1 map[string]int `json:"m1,format:emitnull"`
	M2 map[string]int `json:"m2,format:emitempty"`
	N  int            `json:"n,string"`
	F  float64        `json:"f,format:nonfinite"`
	P  *time.Time     `json:"p,format:unixmilli"`
}

func c19FVal(r *rand.Rand) any {
	tm := func() time.Time { return time.Unix(r.Int64N(4e9)-1e9, int64(r.IntN(2))*r.Int64N(1e9)).UTC() }
	du := func() time.Duration { return time.Duration(r.Int64N(1e15) - 5e14) }
	f := c19F{T1: tm(), T2: tm(), T3: tm(), T4: tm(), T5: tm(), T6: tm(), T7: tm(), T8: time.Date(1990+r.IntN(60), 3, 7, 0, 0, 0, 0, time.UTC),
		D1: du(), D2: du(), D3: du(), D4: du(), D5: du(), D6: du(), B1: []byte("\xfb\xff?"), B2: []byte("hi"), B3: [2]byte{1, 2}, N: r.IntN(100),
		F: []float64{0, 1.5, math.Inf(1), math.Inf(-1), math.NaN()}[r.IntN(4)]}
	if r.IntN(2) == 0 {
		f.S1, f.S2, f.M1, f.M2 = []int{}, []int{1}, map[string]int{}, map[string]int{"k": 1}
		f.B4 = []byte("abc")
		t := tm()
		f.P = &t
	}
	if r.IntN(3) == 0 {
		return []c19F{f}
	}
	return f
}

func c19ExplicitDefault(c *Ctx) {
	n := c.N(4000, 300000)
	var ctors []boolCtor
	for _, bc := range boolCtors {
		switch bc.name {
		case "SpaceAfterColon", "SpaceAfterComma", "ExperimentalSupportFormatTag", "Deterministic":
			continue
		}
		ctors = append(ctors, bc)
	}
	for i := 0; i < n; i++ {
		v := c19Val(c.Rng)
		bc := ctors[c.Rng.IntN(len(ctors))]
		base := []json.Options{json.Deterministic(true)}
		if i%2 == 1 { // format-tagged fields: time, duration, bytes, nil containers
			v = c19FVal(c.Rng)
			base = append(base, json.ExperimentalSupportFormatTag(true))
			c.Hit("explicit-default-format-tagged")
		}
		variants := [][]json.Options{
			append(base[:len(base):len(base)], bc.f(false)),
			append(base[:len(base):len(base)], bc.f(true), bc.f(false)),
			append(append([]json.Options{bc.f(true)}, base...), json.DefaultOptionsV2(), json.Deterministic(true)),
			append([]json.Options{bc.f(false)}, base...),
			append(base[:len(base):len(base)], json.JoinOptions(bc.f(true), bc.f(false))),
		}
		isV1 := false
		for _, n := range v1Defaulted {
			isV1 = isV1 || n == bc.name
		}
		if !isV1 { // DefaultOptionsV2 only cancels the v1 flags
			variants = append(variants[:2:2], variants[3:]...)
		}
		b0, e0 := json.Marshal(v, base...)
		for vi, opts := range variants {
			b1, e1 := json.Marshal(v, opts...)
			if (e0 == nil) != (e1 == nil) || (e0 == nil && !bytes.Equal(b0, b1)) {
				c.Violate("explicit-default-marshal", bc.name, nil, map[string]any{"variant": vi, "value": fmt.Sprintf("%#v", v), "absent": string(b0), "explicit": string(b1), "e0": fmt.Sprint(e0), "e1": fmt.Sprint(e1)})
			}
		}
		if e0 != nil {
			c.Hit("explicit-default-marshal-error")
		}
		if e0 == nil {
			c.Hit("explicit-default-marshal-ok")
			text := b0
			if c.Rng.IntN(5) == 0 && len(text) > 2 {
				text = text[:c.Rng.IntN(len(text))]
			}
			p0 := reflect.New(reflect.TypeOf(v))
			u0 := json.Unmarshal(text, p0.Interface(), base...)
			for vi, opts := range variants {
				p1 := reflect.New(reflect.TypeOf(v))
				u1 := json.Unmarshal(text, p1.Interface(), opts...)
				if (u0 == nil) != (u1 == nil) || !reflect.DeepEqual(p0.Elem().Interface(), p1.Elem().Interface()) {
					c.Violate("explicit-default-unmarshal", bc.name, text, map[string]any{"variant": vi, "u0": fmt.Sprint(u0), "u1": fmt.Sprint(u1)})
				}
			}
		}
		// round trip under ONE option set: what Marshal emits with an option (true or false) Unmarshal accepts with the
		// same option, and marshaling the result again gives the same text
		for _, bv := range []bool{false, true} {
			opts := append(base[:len(base):len(base)], bc.f(bv))
			if c.Rng.IntN(2) == 0 { // also as a pre-joined set
				opts = []json.Options{json.JoinOptions(opts...)}
			}
			m1, e1 := json.Marshal(v, opts...)
			if e1 != nil {
				continue
			}
			p1 := reflect.New(reflect.TypeOf(v))
			u1 := json.Unmarshal(m1, p1.Interface(), opts...)
			var m2 []byte
			var e2 error
			if u1 == nil {
				m2, e2 = json.Marshal(p1.Elem().Interface(), opts...)
			}
			if u1 != nil || e2 != nil || !bytes.Equal(m1, m2) {
				c.Violate("option-roundtrip", bc.name, m1, map[string]any{"value": fmt.Sprintf("%T", v), "option": fmt.Sprintf("%s(%v)", bc.name, bv), "unmarshal": fmt.Sprint(u1), "remarshal": fmt.Sprint(e2), "first": string(m1), "second": string(m2)})
			}
			c.Hit("option-roundtrip")
		}
		c.Case("xd:"+bc.name+":"+string(b0), true)
	}
}
