package main

// C09 part B — Marshal, MarshalIndent, Unmarshal: /repo/v1 vs classic encoding/json over generated Go types.
//
// Types are generated as MIRRORED PAIRS (a for v1, b for the classic package).  The two sides are the same
// reflect.Type except where a type of the package itself is involved: json.Number and json.RawMessage exist once
// per package (v1.RawMessage is jsontext.Value), so a struct with such a field has two parallel definitions.
// Values are generated in parallel for both sides from one random stream and compared with a structural dump
// that ignores exactly that difference of type identity.
//
// The generator is restricted to what both packages support (the property's quantifier):
// tags name/omitempty/omitzero/string/"-"; embedded structs and pointers; maps with string, integer and
// TextMarshaler keys; interfaces; RawMessage; Number; Marshaler/Unmarshaler/TextMarshaler/TextUnmarshaler on value
// and pointer receivers.  Not generated: v2-only features (tag options inline/unknown/case/format, MarshalerTo/
// UnmarshalerFrom methods, single-quoted tag names), map keys of float/bool kind (unsupported by the classic
// package), cyclic values (DESIGN.md §6 D2, run only in a child process), chan/func/complex kinds except as
// an occasional "unsupported type" probe.

import (
	"bytes"
	stdjson "encoding/json"
	"fmt"
	"math"
	"math/rand/v2"
	"os"
	"reflect"
	"sort"
	"strconv"
	"strings"
	"sync"
	"unicode"

	jsonv2 "github.com/go-json-experiment/json"
	"github.com/go-json-experiment/json/jsontext"
	jsonv1 "github.com/go-json-experiment/json/v1"
)

func init() { c09Parts = append(c09Parts, c09Part{"B (typed)", c09Typed}) }

var c09Debug = os.Getenv("C09_DEBUG") != ""

type c9T struct{ a, b reflect.Type }

func c9Same(t reflect.Type) c9T { return c9T{t, t} }

var (
	c9NumA = reflect.TypeFor[jsonv1.Number]()
	c9NumB = reflect.TypeFor[stdjson.Number]()
	c9RawA = reflect.TypeFor[jsonv1.RawMessage]()
	c9RawB = reflect.TypeFor[stdjson.RawMessage]()
	c9Num  = c9T{c9NumA, c9NumB}
	c9Raw  = c9T{c9RawA, c9RawB}
	c9Any  = c9Same(reflect.TypeFor[any]())
)

func c9tf[T any]() c9T { return c9Same(reflect.TypeFor[T]()) }

var c9Basic = []c9T{
	c9tf[bool](), c9tf[int](), c9tf[int8](), c9tf[int16](), c9tf[int32](), c9tf[int64](),
	c9tf[uint](), c9tf[uint8](), c9tf[uint16](), c9tf[uint32](), c9tf[uint64](), c9tf[uintptr](),
	c9tf[float32](), c9tf[float64](), c9tf[string](), c9tf[string](), c9tf[[]byte](), c9Any, c9Any, c9Num, c9Raw,
}

var c9Corpus = []c9T{
	c9tf[C9MV](), c9tf[C9MP](), c9tf[C9MInt](), c9tf[C9MSlice](), c9tf[C9MMap](), c9tf[C9TV](), c9tf[C9TP](),
	c9tf[C9TStr](), c9tf[C9TInt](), c9tf[C9TPInt](), c9tf[C9MT](), c9tf[C9Z](), c9tf[C9ZP](), c9tf[C9E1](), c9tf[C9E2](),
	c9tf[C9NamedStr](), c9tf[C9NamedInt](), c9tf[C9NamedBytes](), c9tf[[]C9Byte](), c9tf[[3]byte](), c9tf[C9EmbMV](), c9tf[C9EmbTVPtr](),
	c9tf[C9EmbPtr](), c9tf[C9EmbHidden](), c9tf[C9EmbHiddenPtr](), c9tf[C9EmbBoth](), c9tf[C9EmbInt](), c9tf[C9Tree](),
	c9tf[C9Iface](), c9tf[C9MarshalerI](), c9tf[C9TextI](), c9tf[C9Fold](),
	c9tf[C9PR](), c9tf[C9EmbPR](), c9tf[C9EmbPRv](), c9tf[C9EmbPR2](), c9tf[C9EmbPR3](), c9tf[C9EmbPR4](),
}

var c9Keys = []c9T{
	c9tf[string](), c9tf[string](), c9tf[C9NamedStr](), c9tf[int](), c9tf[int8](), c9tf[int64](), c9tf[uint](), c9tf[uint8](), c9tf[uint64](),
	c9tf[C9TInt](), c9tf[C9TV](), c9tf[C9TPInt](), c9tf[C9MInt](), c9Num,
	// NOT in the pool (each is reported by a fixed probe in c09Probes and would otherwise drown everything else):
	//   C9TStr  (string kind + MarshalText)  finding F3: the classic package uses the string itself as the key
	//   *C9TP   (pointer key)                finding F6: the classic package cannot unmarshal into pointer-keyed maps
}

var c9PtrKeys = []c9T{c9tf[*C9TP](), c9tf[*C9TV](), c9tf[*C9TPInt](), c9tf[*C9TInt]()}

var c9Embeds = []c9T{c9tf[C9E1](), c9tf[C9E2](), c9tf[*C9E1](), c9tf[*C9E2](), c9tf[C9NamedInt](), c9tf[C9Tree](), c9tf[C9PR](), c9tf[*C9PR](), c9tf[*C9PR]()}

var c9GoNames = []string{"A", "B", "C", "Ab", "AB", "Name", "X", "A_b", "E", "V", "Kids", "Kind", "Sks", "Σς"}
var c9TagNames = []string{"a", "b", "A", "x", "name", "NAME", "a-b", "a.b", "$", "X_y", "Ab", "é", "B", "v", "a2", "0", "kind", "sks", "σς", "ǆ", "straße", "k_k"}

type c9Gen struct{ r *rand.Rand }

func (g c9Gen) typ(depth int) c9T {
	k := g.r.IntN(12)
	if depth <= 0 && k >= 6 {
		k = g.r.IntN(6)
	}
	switch {
	case k < 4:
		return c9Basic[g.r.IntN(len(c9Basic))]
	case k < 6:
		return c9Corpus[g.r.IntN(len(c9Corpus))]
	case k == 6:
		e := g.typ(depth - 1)
		return c9T{reflect.PointerTo(e.a), reflect.PointerTo(e.b)}
	case k == 7:
		e := g.typ(depth - 1)
		return c9T{reflect.SliceOf(e.a), reflect.SliceOf(e.b)}
	case k == 8:
		e := g.typ(depth - 1)
		n := g.r.IntN(4)
		return c9T{reflect.ArrayOf(n, e.a), reflect.ArrayOf(n, e.b)}
	case k == 9:
		key := c9Keys[g.r.IntN(len(c9Keys))]
		if g.r.IntN(5) == 0 {
			// pointer key types whose pointer implements encoding.TextMarshaler (value and pointer receivers): both
			// packages MARSHAL them (a nil key is the empty name); encoding/json cannot UNMARSHAL into them (finding
			// F6, fixed probe), so types containing such a map take part in Marshal/MarshalIndent/Encode only.
			key = c9PtrKeys[g.r.IntN(len(c9PtrKeys))]
		}
		e := g.typ(depth - 1)
		return c9T{reflect.MapOf(key.a, e.a), reflect.MapOf(key.b, e.b)}
	default:
		return g.structType(depth)
	}
}

func (g c9Gen) tag() string {
	nm := ""
	if g.r.IntN(2) == 0 {
		nm = c9TagNames[g.r.IntN(len(c9TagNames))]
	}
	switch g.r.IntN(14) {
	case 0, 1, 2:
		return ""
	case 3, 4:
		if nm == "" {
			nm = "a"
		}
		return `json:"` + nm + `"`
	case 5, 6:
		return `json:"` + nm + `,omitempty"`
	case 7, 8:
		return `json:"` + nm + `,omitzero"`
	case 9:
		return `json:"` + nm + `,omitzero,omitempty"`
	case 10, 11:
		return `json:"` + nm + `,string"`
	case 12:
		return `json:"` + nm + `,omitempty,string"`
	default:
		return []string{`json:"-"`, `json:"-,"`, `json:"-,omitempty"`}[g.r.IntN(3)]
	}
}

func (g c9Gen) structType(depth int) c9T {
	for try := 0; ; try++ {
		n := g.r.IntN(5)
		perm := g.r.Perm(len(c9GoNames))
		var fa, fb []reflect.StructField
		used := map[string]bool{}
		for i := 0; i < n; i++ {
			if try < 3 && g.r.IntN(6) == 0 {
				e := c9Embeds[g.r.IntN(len(c9Embeds))]
				nm := e.a.Name()
				if e.a.Kind() == reflect.Pointer {
					nm = e.a.Elem().Name()
				}
				if used[nm] {
					continue
				}
				used[nm] = true
				tag := ""
				if g.r.IntN(4) == 0 {
					tag = g.tag()
				}
				fa = append(fa, reflect.StructField{Name: nm, Type: e.a, Anonymous: true, Tag: reflect.StructTag(tag)})
				fb = append(fb, reflect.StructField{Name: nm, Type: e.b, Anonymous: true, Tag: reflect.StructTag(tag)})
				continue
			}
			nm := c9GoNames[perm[i]]
			if used[nm] {
				continue
			}
			used[nm] = true
			ft := g.typ(depth - 1)
			tag := g.tag()
			if strings.Contains(tag, "string") && c9StringTagOnMethodType(ft.a) {
				// finding F5 (fixed probe in c09Probes): `,string` on a scalar-kind type that has marshal/unmarshal
				// methods — the classic package still insists on the extra quoting when unmarshaling, v1 ignores the tag
				tag = strings.Replace(strings.Replace(tag, ",string", "", 1), `json:""`, "", 1)
			}
			fa = append(fa, reflect.StructField{Name: nm, Type: ft.a, Tag: reflect.StructTag(tag)})
			fb = append(fb, reflect.StructField{Name: nm, Type: ft.b, Tag: reflect.StructTag(tag)})
		}
		var t c9T
		if p := guard(func() { t = c9T{reflect.StructOf(fa), reflect.StructOf(fb)} }); p == nil {
			return t
		}
		// reflect.StructOf refuses some embeddings; try again (without embedding after a few attempts)
	}
}

var c9MethodIfaces = []reflect.Type{
	reflect.TypeFor[interface{ MarshalJSON() ([]byte, error) }](), reflect.TypeFor[interface{ UnmarshalJSON([]byte) error }](),
	reflect.TypeFor[interface{ MarshalText() ([]byte, error) }](), reflect.TypeFor[interface{ UnmarshalText([]byte) error }](),
}

// c9StringTagOnMethodType: would the classic package honour `,string` on a field of this type (scalar kind after
// one unnamed pointer), and does the type carry any of the four methods (on T or *T)?
func c9StringTagOnMethodType(t reflect.Type) bool {
	if t.Name() == "" && t.Kind() == reflect.Pointer {
		t = t.Elem()
	}
	switch t.Kind() {
	case reflect.Bool, reflect.Int, reflect.Int8, reflect.Int16, reflect.Int32, reflect.Int64, reflect.Uint, reflect.Uint8, reflect.Uint16, reflect.Uint32, reflect.Uint64, reflect.Uintptr,
		reflect.Float32, reflect.Float64, reflect.String:
	default:
		return false
	}
	for _, i := range c9MethodIfaces {
		if t.Implements(i) || reflect.PointerTo(t).Implements(i) {
			return true
		}
	}
	return false
}

// ---------------------------------------------------------------------------------------------
// values

var c9StrPool = []string{"", "a", "abc", "Hello, World", "<script>", "a&b", ">", " ", "x y", "é", "日本", "😀", "\x00", "\x1f", "\x7f", "\"", "\\", "/", "\n\t",
	"\xff", "a\xc3", "\xed\xa0\x80", "\xe2\x80", "123", "-1", "1.5", "1e3", "true", "false", "null", "\"q\"", " ", "0", "NaN", "12345678901234567890",
	strings.Repeat("x", 70), strings.Repeat("é<", 40)}

var c9IntPool = []int64{0, 0, 1, -1, 7, 42, 127, 128, -128, -129, 255, 256, 32767, 32768, 65535, 65536, 1 << 31, 1<<31 - 1, -1 << 31, 1 << 32, 1<<53 + 1, math.MaxInt64, math.MinInt64}
var c9UintPool = []uint64{0, 0, 1, 7, 127, 128, 255, 256, 65535, 65536, 1<<32 - 1, 1 << 32, 1<<53 + 1, 1<<63 - 1, 1 << 63, math.MaxUint64}
var c9FloatPool = []float64{0, 0, 1, -1, 0.5, 1.5, -0.0, 1e20, 1e21, 1e-6, 1e-7, 123456789, 1.7976931348623157e308, 5e-324, 3.4028234663852886e38, 16777216, 16777217, 0.1, 0.30000000000000004, 1 << 53, 100, 1e100,
	math.NaN(), math.Inf(1), math.Inf(-1)}

// texts returned verbatim by the recording marshalers (arbitrary: valid, valid with whitespace/HTML, invalid, empty)
var c9MarshalerTexts = []string{`1`, `"s"`, `null`, `true`, `{}`, `[]`, `{"a":1}`, ` {"a" : [1, 2 ] } `, "[\n1,\n2\n]", `"<&>"`, "\" \"", `"<"`, `{"a":1,"a":2}`, `"` + "\xff" + `"`,
	``, ` `, `{`, `[1,]`, `nul`, `1 2`, `"ERR"`, `01`, `"\ud800"`, `"é"`, `1.0`, `1e2`, `-0`, `"a\/b"`}

var c9TextTexts = []string{"", "a", "key", "<k>", "a&b", " ", "é", "\xff", "ERR", "1", "-5", "#3", "a b", "\"", "\\", "\n", "null", "K"}

var c9NumberTexts = []string{"", "0", "1", "-1", "1.5", "1e5", "1E+5", "-0", "0.0", "123456789012345678901234567890", "1e400", "abc", "1e", "-", " 1", "1 ", "01", "+1", "0x1", "1_000", "NaN", "Infinity", ".5", "1.", "\"1\"", "١"}

var c9RawTexts = []string{`1`, `"s"`, `null`, `true`, `{}`, `[]`, `{"a":1}`, ` {"a" : [1, 2 ] } `, "[\n1,\n2\n]\n", `"<&>"`, "\" \"", `{"a":1,"a":2}`, `"` + "\xff" + `"`,
	``, ` `, `{`, `[1,]`, `nul`, `1 2`, `01`, `"\ud800"`, `1.0`}

func (g c9Gen) pickS(xs []string) string { return xs[g.r.IntN(len(xs))] }

func (g c9Gen) int64For(bits int) int64 {
	v := c9IntPool[g.r.IntN(len(c9IntPool))]
	if g.r.IntN(4) == 0 {
		v = g.r.Int64()>>uint(g.r.IntN(64)) - 3
	}
	if bits < 64 {
		v = v << (64 - bits) >> (64 - bits) // wrap into range
	}
	return v
}

func (g c9Gen) uint64For(bits int) uint64 {
	v := c9UintPool[g.r.IntN(len(c9UintPool))]
	if g.r.IntN(4) == 0 {
		v = g.r.Uint64() >> uint(g.r.IntN(64))
	}
	if bits < 64 {
		v &= 1<<bits - 1
	}
	return v
}

// val builds one value for each side.
func (g c9Gen) val(t c9T, depth int) (reflect.Value, reflect.Value) {
	a, b := reflect.New(t.a).Elem(), reflect.New(t.b).Elem()
	g.fill(a, b, depth)
	return a, b
}

var (
	c9TypMV, c9TypMP     = reflect.TypeFor[C9MV](), reflect.TypeFor[C9MP]()
	c9TypTV, c9TypTP     = reflect.TypeFor[C9TV](), reflect.TypeFor[C9TP]()
	c9TypHidden          = reflect.TypeFor[c9hidden]()
	c9TypIface           = reflect.TypeFor[C9Iface]()
	c9TypMarshalerI      = reflect.TypeFor[C9MarshalerI]()
	c9TypTextI           = reflect.TypeFor[C9TextI]()
	c9TypTree            = reflect.TypeFor[C9Tree]()
	c9TypEmbH, c9TypEmbP = reflect.TypeFor[C9EmbHidden](), reflect.TypeFor[C9EmbHiddenPtr]()
	c9TypEmbTVPtr        = reflect.TypeFor[C9EmbTVPtr]()
)

func (g c9Gen) fill(a, b reflect.Value, depth int) {
	ta := a.Type()
	switch ta {
	case c9NumA:
		s := g.pickS(c9NumberTexts)
		if g.r.IntN(2) == 0 {
			s = g.pickS(c09Numbers)
		}
		a.SetString(s)
		b.SetString(s)
		return
	case c9RawA:
		switch g.r.IntN(8) {
		case 0: // nil
		case 1:
			a.SetBytes([]byte{})
			b.SetBytes([]byte{})
		default:
			s := g.pickS(c9RawTexts)
			if g.r.IntN(2) == 0 {
				var sb strings.Builder
				c09Gen{g.r}.value(&sb, 2, 20)
				s = sb.String()
			}
			a.SetBytes([]byte(s))
			b.SetBytes([]byte(s))
		}
		return
	case c9TypMV, c9TypMP:
		s := g.pickS(c9MarshalerTexts)
		a.Field(0).SetString(s)
		b.Field(0).SetString(s)
		return
	case c9TypTV, c9TypTP:
		s := g.pickS(c9TextTexts)
		a.Field(0).SetString(s)
		b.Field(0).SetString(s)
		return
	case c9TypEmbH:
		v := C9EmbHidden{c9hidden{H: int(g.int64For(8)), h: g.r.IntN(3)}, g.r.IntN(3)}
		a.Set(reflect.ValueOf(v))
		b.Set(reflect.ValueOf(v))
		return
	case c9TypEmbP:
		var va, vb C9EmbHiddenPtr
		va.Z = g.r.IntN(3)
		vb.Z = va.Z
		if g.r.IntN(2) == 0 {
			h := c9hidden{H: g.r.IntN(5), h: g.r.IntN(3)}
			h2 := h
			va.c9hidden, vb.c9hidden = &h, &h2
		}
		a.Set(reflect.ValueOf(va))
		b.Set(reflect.ValueOf(vb))
		return
	case c9TypTree:
		if depth <= 0 {
			return
		}
	case c9TypEmbTVPtr:
		// the promoted value-receiver MarshalText would be called through a nil embedded pointer (a panic in the
		// Go-generated wrapper, in both packages): always give the embedded pointer a target
		s := g.pickS(c9TextTexts)
		x := g.r.IntN(3)
		a.Set(reflect.ValueOf(C9EmbTVPtr{&C9TV{s}, x}))
		b.Set(reflect.ValueOf(C9EmbTVPtr{&C9TV{s}, x}))
		return
	}
	switch ta.Kind() {
	case reflect.Bool:
		v := g.r.IntN(2) == 0
		a.SetBool(v)
		b.SetBool(v)
	case reflect.Int, reflect.Int8, reflect.Int16, reflect.Int32, reflect.Int64:
		v := g.int64For(ta.Bits())
		a.SetInt(v)
		b.SetInt(v)
	case reflect.Uint, reflect.Uint8, reflect.Uint16, reflect.Uint32, reflect.Uint64, reflect.Uintptr:
		v := g.uint64For(ta.Bits())
		a.SetUint(v)
		b.SetUint(v)
	case reflect.Float32, reflect.Float64:
		v := c9FloatPool[g.r.IntN(len(c9FloatPool))]
		switch g.r.IntN(6) {
		case 0:
			v = g.r.NormFloat64() * math.Pow(10, float64(g.r.IntN(40)-20))
		case 1:
			v = float64(g.r.IntN(2000) - 1000)
		case 2:
			v = math.Float64frombits(g.r.Uint64())
		}
		if ta.Kind() == reflect.Float32 {
			v = float64(float32(v))
		}
		a.SetFloat(v)
		b.SetFloat(v)
	case reflect.String:
		s := g.pickS(c9StrPool)
		a.SetString(s)
		b.SetString(s)
	case reflect.Interface:
		g.fillIface(a, b, depth)
	case reflect.Pointer:
		if g.r.IntN(4) == 0 {
			return
		}
		pa, pb := reflect.New(ta.Elem()), reflect.New(b.Type().Elem())
		g.fill(pa.Elem(), pb.Elem(), depth-1)
		a.Set(pa)
		b.Set(pb)
	case reflect.Slice:
		n := g.r.IntN(5) - 1 // -1: nil
		if n < 0 {
			return
		}
		if depth <= 0 && n > 1 {
			n = 1
		}
		sa, sb := reflect.MakeSlice(ta, n, n+g.r.IntN(2)), reflect.MakeSlice(b.Type(), n, n+1)
		for i := 0; i < n; i++ {
			g.fill(sa.Index(i), sb.Index(i), depth-1)
		}
		a.Set(sa)
		b.Set(sb)
	case reflect.Array:
		for i := 0; i < ta.Len(); i++ {
			g.fill(a.Index(i), b.Index(i), depth-1)
		}
	case reflect.Map:
		n := g.r.IntN(5) - 1
		if n < 0 {
			return
		}
		ma, mb := reflect.MakeMap(ta), reflect.MakeMap(b.Type())
		seenKeys := map[string]bool{}
		for i := 0; i < n; i++ {
			ka, kb := g.val(c9T{ta.Key(), b.Type().Key()}, 0)
			if ta.Key().Kind() == reflect.Pointer {
				// two distinct pointers with the same text (a nil pointer counts as the empty text) would be two members with the same name, whose relative
				// order neither package defines: keep the texts of pointer keys distinct
				kd := "" // the member name both packages write for the key: "" for a nil pointer, else MarshalText
				if !ka.IsNil() {
					if tm, ok := ka.Interface().(interface{ MarshalText() ([]byte, error) }); ok {
						if txt, err := tm.MarshalText(); err == nil {
							kd = string(txt)
						} else {
							kd = "\x00error"
						}
					}
				}
				if seenKeys[kd] {
					continue
				}
				seenKeys[kd] = true
			}
			va, vb := g.val(c9T{ta.Elem(), b.Type().Elem()}, depth-1)
			ma.SetMapIndex(ka, va)
			mb.SetMapIndex(kb, vb)
		}
		a.Set(ma)
		b.Set(mb)
	case reflect.Struct:
		for i := 0; i < ta.NumField(); i++ {
			if a.Field(i).CanSet() {
				g.fill(a.Field(i), b.Field(i), depth-1)
			}
		}
	}
}

var c9DynTypes = []c9T{
	c9tf[bool](), c9tf[float64](), c9tf[float64](), c9tf[string](), c9tf[string](), c9tf[[]any](), c9tf[map[string]any](), c9Num, c9Raw,
	c9tf[int](), c9tf[uint8](), c9tf[[]int](), c9tf[map[string]int](), c9tf[C9E1](), c9tf[*C9E1](), c9tf[C9MV](), c9tf[*C9MV](), c9tf[C9MP](), c9tf[*C9MP](),
	c9tf[C9EmbPR](), c9tf[*C9EmbPR](), c9tf[C9EmbPR2](), c9tf[C9PR](), c9tf[map[string]C9EmbPR](), c9tf[[1]C9EmbPR](), c9tf[map[*C9TP]int](),
	c9tf[C9TV](), c9tf[*C9TP](), c9tf[C9TP](), c9tf[*int](), c9tf[*any](), c9tf[*string](), c9tf[C9Tree](), c9tf[*[]any](), c9tf[*map[string]any](), c9tf[[]byte](), c9tf[C9MInt](),
}

func (g c9Gen) fillIface(a, b reflect.Value, depth int) {
	ta := a.Type()
	switch ta {
	case c9TypIface:
		switch g.r.IntN(4) {
		case 0:
		case 1:
			a.Set(reflect.ValueOf((*C9I1)(nil)))
			b.Set(reflect.ValueOf((*C9I1)(nil)))
		case 2:
			n := g.r.IntN(5)
			a.Set(reflect.ValueOf(&C9I1{n}))
			b.Set(reflect.ValueOf(&C9I1{n}))
		default:
			s := g.pickS(c9StrPool)
			if g.r.IntN(2) == 0 {
				a.Set(reflect.ValueOf(C9I2{s}))
				b.Set(reflect.ValueOf(C9I2{s}))
			} else {
				a.Set(reflect.ValueOf(&C9I2{s}))
				b.Set(reflect.ValueOf(&C9I2{s}))
			}
		}
		return
	case c9TypMarshalerI:
		s := g.pickS(c9MarshalerTexts)
		// NOT generated: a nil *C9MP inside the interface — finding F8 (v1.Marshal panics; fixed probe in c09Probes)
		switch 1 + g.r.IntN(4) {
		case 0:
		case 1:
			// nil interface
		case 2:
			a.Set(reflect.ValueOf(&C9MP{s}))
			b.Set(reflect.ValueOf(&C9MP{s}))
		case 3:
			a.Set(reflect.ValueOf(C9MV{s}))
			b.Set(reflect.ValueOf(C9MV{s}))
		default:
			a.Set(reflect.ValueOf(&C9MV{s}))
			b.Set(reflect.ValueOf(&C9MV{s}))
		}
		return
	case c9TypTextI:
		s := g.pickS(c9TextTexts)
		// NOT generated: a nil *C9TP inside the interface — finding F8 (v1.Marshal panics; fixed probe in c09Probes)
		switch 1 + g.r.IntN(4) {
		case 0:
		case 1:
			// nil interface
		case 2:
			a.Set(reflect.ValueOf(&C9TP{s}))
			b.Set(reflect.ValueOf(&C9TP{s}))
		case 3:
			a.Set(reflect.ValueOf(C9TV{s}))
			b.Set(reflect.ValueOf(C9TV{s}))
		default:
			a.Set(reflect.ValueOf(C9TInt(g.r.IntN(9))))
			b.Set(a.Elem())
		}
		return
	}
	if ta.NumMethod() != 0 {
		return
	}
	if g.r.IntN(6) == 0 {
		return // nil
	}
	dt := c9DynTypes[g.r.IntN(len(c9DynTypes))]
	if depth <= 0 {
		dt = c9DynTypes[g.r.IntN(5)]
	}
	va, vb := g.val(dt, depth-1)
	a.Set(va)
	b.Set(vb)
}

// ---------------------------------------------------------------------------------------------
// structural dump (type identity of Number/RawMessage normalised; everything else exact)

func c9TypeName(t reflect.Type) string {
	switch t {
	case c9NumA, c9NumB:
		return "Number"
	case c9RawA, c9RawB:
		return "RawMessage"
	}
	if t.Name() != "" {
		return t.String()
	}
	switch t.Kind() {
	case reflect.Pointer:
		return "*" + c9TypeName(t.Elem())
	case reflect.Slice:
		return "[]" + c9TypeName(t.Elem())
	case reflect.Array:
		return "[" + strconv.Itoa(t.Len()) + "]" + c9TypeName(t.Elem())
	case reflect.Map:
		return "map[" + c9TypeName(t.Key()) + "]" + c9TypeName(t.Elem())
	case reflect.Struct:
		var sb strings.Builder
		sb.WriteString("struct{")
		for i := 0; i < t.NumField(); i++ {
			f := t.Field(i)
			if i > 0 {
				sb.WriteString("; ")
			}
			if !f.Anonymous {
				sb.WriteString(f.Name + " ")
			}
			sb.WriteString(c9TypeName(f.Type))
			if f.Tag != "" {
				sb.WriteString(" " + strconv.Quote(string(f.Tag)))
			}
		}
		sb.WriteString("}")
		return sb.String()
	}
	return t.String()
}

func c9Dump(sb *strings.Builder, v reflect.Value) {
	if !v.IsValid() {
		sb.WriteString("<invalid>")
		return
	}
	t := v.Type()
	switch t {
	case c9NumA, c9NumB:
		sb.WriteString("N" + strconv.Quote(v.String()))
		return
	}
	switch v.Kind() {
	case reflect.Bool:
		sb.WriteString(strconv.FormatBool(v.Bool()))
	case reflect.Int, reflect.Int8, reflect.Int16, reflect.Int32, reflect.Int64:
		sb.WriteString(strconv.FormatInt(v.Int(), 10))
	case reflect.Uint, reflect.Uint8, reflect.Uint16, reflect.Uint32, reflect.Uint64, reflect.Uintptr:
		sb.WriteString(strconv.FormatUint(v.Uint(), 10) + "u")
	case reflect.Float32, reflect.Float64:
		sb.WriteString("f" + strconv.FormatUint(math.Float64bits(v.Float()), 16))
	case reflect.String:
		sb.WriteString(strconv.Quote(v.String()))
	case reflect.Interface:
		if v.IsNil() {
			sb.WriteString("nil-iface")
			return
		}
		sb.WriteString("(" + c9TypeName(v.Elem().Type()) + ")")
		c9Dump(sb, v.Elem())
	case reflect.Pointer:
		if v.IsNil() {
			sb.WriteString("nil-ptr")
			return
		}
		sb.WriteString("&")
		c9Dump(sb, v.Elem())
	case reflect.Slice:
		if v.IsNil() {
			sb.WriteString("nil-slice")
			return
		}
		if t.Elem().Kind() == reflect.Uint8 {
			sb.WriteString("bytes" + strconv.Quote(string(v.Bytes())))
			return
		}
		fallthrough
	case reflect.Array:
		sb.WriteString("[")
		for i := 0; i < v.Len(); i++ {
			if i > 0 {
				sb.WriteString(",")
			}
			c9Dump(sb, v.Index(i))
		}
		sb.WriteString("]")
	case reflect.Map:
		if v.IsNil() {
			sb.WriteString("nil-map")
			return
		}
		var ents []string
		it := v.MapRange()
		for it.Next() {
			var e strings.Builder
			c9Dump(&e, it.Key())
			e.WriteString("=>")
			c9Dump(&e, it.Value())
			ents = append(ents, e.String())
		}
		sort.Strings(ents)
		sb.WriteString("map{" + strings.Join(ents, ",") + "}")
	case reflect.Struct:
		sb.WriteString("{")
		for i := 0; i < v.NumField(); i++ {
			if i > 0 {
				sb.WriteString(",")
			}
			c9Dump(sb, v.Field(i))
		}
		sb.WriteString("}")
	default:
		sb.WriteString("<" + v.Kind().String() + ">")
	}
}

func c9D(v reflect.Value) string {
	var sb strings.Builder
	c9Dump(&sb, v)
	return sb.String()
}

// ---------------------------------------------------------------------------------------------
// token-level mutation of a JSON text (keeps it mostly valid)

// c9Spans returns the [start,end) spans of scalar tokens (strings, numbers, literals) of a JSON-ish text.
func c9Spans(b []byte) (spans [][2]int) {
	for i := 0; i < len(b); {
		c := b[i]
		switch {
		case c == '"':
			j := i + 1
			for j < len(b) && b[j] != '"' {
				if b[j] == '\\' {
					j++
				}
				j++
			}
			if j >= len(b) {
				return
			}
			spans = append(spans, [2]int{i, j + 1})
			i = j + 1
		case c == '-' || c >= '0' && c <= '9' || c >= 'a' && c <= 'z':
			j := i
			for j < len(b) && (b[j] == '-' || b[j] == '+' || b[j] == '.' || b[j] >= '0' && b[j] <= '9' || b[j] >= 'a' && b[j] <= 'z' || b[j] == 'E') {
				j++
			}
			spans = append(spans, [2]int{i, j})
			i = j
		default:
			i++
		}
	}
	return
}

var c9Replacements = []string{"null", "true", "false", "0", "1", "-1", "1.5", "1e2", "300", "-129", "1e400", "4294967296", "18446744073709551616", `""`, `"a"`, `"1"`, `"-1"`, `"1.5"`, `"true"`, `"null"`, `"abc"`, `"#3"`, `"T:x"`,
	`"AQID"`, `"!!"`, "[]", "{}", "[1]", `[1,"a",null]`, `{"a":1}`, `{"A":1,"a":2}`, `"\ud800"`, "\"\xff\"", `"<>"`, `[[]]`, `{"B":"x","b":"y"}`, " 1 ", "1.0", "-0", "1E+2"}

func (g c9Gen) mutateTokens(b []byte) []byte {
	n := 1 + g.r.IntN(2)
	for k := 0; k < n; k++ {
		spans := c9Spans(b)
		switch op := g.r.IntN(8); {
		case op < 4 && len(spans) > 0: // replace a scalar (or a member name)
			s := spans[g.r.IntN(len(spans))]
			rep := c9Replacements[g.r.IntN(len(c9Replacements))]
			b = append(append(append([]byte(nil), b[:s[0]]...), rep...), b[s[1]:]...)
		case op == 4 && len(spans) > 0: // flip the case of a string (member names match case-insensitively)
			s := spans[g.r.IntN(len(spans))]
			nb := append([]byte(nil), b...)
			for i := s[0]; i < s[1]; i++ {
				c := rune(nb[i])
				if c < 0x80 && unicode.IsLetter(c) && g.r.IntN(2) == 0 {
					if unicode.IsUpper(c) {
						nb[i] = byte(unicode.ToLower(c))
					} else {
						nb[i] = byte(unicode.ToUpper(c))
					}
				}
			}
			b = nb
		case op == 5: // insert a member after some '{'
			var pos []int
			for i, c := range b {
				if c == '{' {
					pos = append(pos, i)
				}
			}
			if len(pos) > 0 {
				p := pos[g.r.IntN(len(pos))] + 1
				name := []string{"unknown", "a", "A", "B", "b", "name", "Ab", "x", "v", "kids", "C9E1", "H", "Z", "a2", "X"}[g.r.IntN(15)]
				mem := `"` + name + `":` + c9Replacements[g.r.IntN(len(c9Replacements))]
				if p < len(b) && b[p] != '}' {
					mem += ","
				}
				b = append(append(append([]byte(nil), b[:p]...), mem...), b[p:]...)
			}
		case op == 6: // wrap
			if g.r.IntN(2) == 0 {
				b = append(append([]byte("["), b...), ']')
			} else {
				b = append(append([]byte(`{"a":`), b...), '}')
			}
		default: // whitespace
			b = append(append([]byte(" \n"), b...), " \t\n"...)
		}
	}
	return b
}

// ---------------------------------------------------------------------------------------------
// the checks

type c9Case struct {
	t      c9T
	va, vb reflect.Value
}

func c9Short(s string) string { return trunc(s, 400) }

// c9MarshalPair runs v1.Marshal(a) and classic Marshal(b).  ok=false when the case must be skipped
// (the classic package panicked: user-method panics are outside the comparison).
func c9MarshalBoth(c *Ctx, w *c09Watch, slot int, op string, in []byte, f1 func() ([]byte, error), f2 func() ([]byte, error)) (b1, b2 []byte, e1, e2 error, ok bool) {
	if p := guard(func() { b2, e2 = f2() }); p != nil {
		c.Hit("typed/classic-panic")
		c9Dbg("classic-panic", map[string]any{"op": op, "type": string(in), "panic": fmt.Sprint(p)})
		// the classic package panicked; v1 must not be held to a result here, but record what it does
		guard(func() { f1() })
		return nil, nil, nil, nil, false
	}
	if w.call(slot, op, in, func() { b1, e1 = f1() }) {
		return nil, nil, nil, nil, false
	}
	return b1, b2, e1, e2, true
}

func c9TopKind(t reflect.Type) string {
	if t.Name() != "" && strings.HasPrefix(t.Name(), "C9") {
		return "corpus"
	}
	return t.Kind().String()
}

func c09Typed(c *Ctx) {
	nw := c09NW(c)
	w := newC09Watch(c, nw)
	defer w.stop.Store(true)
	nTypes := c.N(6000, 400000)
	var wg sync.WaitGroup
	for wk := 0; wk < nw; wk++ {
		wg.Add(1)
		go func(wk int) {
			defer wg.Done()
			r := c.SubRng(uint64(200 + wk))
			g := c9Gen{r}
			bg := c09Gen{r}
			for i := wk; i < nTypes; i += nw {
				var t c9T
				if i%5 == 0 {
					t = c9Corpus[(i/5)%len(c9Corpus)]
					if r.IntN(2) == 0 {
						t = c9T{reflect.PointerTo(t.a), reflect.PointerTo(t.b)}
					}
				} else {
					t = g.typ(1 + r.IntN(3))
				}
				c.Hit("typed/type/" + c9TopKind(t.a))
				desc := c9TypeName(t.a)
				if i < 8 {
					c.Sample(map[string]any{"part": "typed", "type": trunc(desc, 200)})
				}
				for rep := 0; rep < 3; rep++ {
					va, vb := g.val(t, 3)
					if da, db := c9D(va), c9D(vb); da != db {
						fail("C09 generator: mirrored values differ: %s vs %s", da, db)
					}
					good := c9CheckMarshal(c, w, wk, g, t, desc, va, vb)
					// inputs for Unmarshal
					var inputs [][]byte
					if good != nil {
						inputs = append(inputs, good, g.mutateTokens(good))
						if r.IntN(2) == 0 {
							inputs = append(inputs, bg.mutate(good))
						}
					}
					switch r.IntN(4) {
					case 0:
						src, _ := bg.text()
						inputs = append(inputs, src)
					case 1:
						inputs = append(inputs, []byte(c9Replacements[r.IntN(len(c9Replacements))]))
					}
					for _, in := range inputs {
						// zero target and pre-populated target
						c9CheckUnmarshal(c, w, wk, t, desc, in, false, 0)
						c9CheckUnmarshal(c, w, wk, t, desc, in, true, r.Uint64())
					}
				}
			}
		}(wk)
	}
	wg.Wait()
	c09Cycles(c)
}

// c9CheckMarshal compares Marshal and MarshalIndent; returns the classic output when both succeeded.
func c9CheckMarshal(c *Ctx, w *c09Watch, slot int, g c9Gen, t c9T, desc string, va, vb reflect.Value) []byte {
	// pass the value itself or a pointer to it (addressability decides whether pointer-receiver methods are called)
	ia, ib := va.Interface(), vb.Interface()
	how := "value"
	if g.r.IntN(2) == 0 {
		pa, pb := reflect.New(t.a), reflect.New(t.b)
		pa.Elem().Set(va)
		pb.Elem().Set(vb)
		ia, ib = pa.Interface(), pb.Interface()
		how = "pointer"
	}
	dump := c9D(va)
	detail := func() map[string]any {
		return map[string]any{"type": c9Short(desc), "value": c9Short(dump), "passed_as": how}
	}
	b1, b2, e1, e2, ok := c9MarshalBoth(c, w, slot, "v1.Marshal", []byte(desc), func() ([]byte, error) { return jsonv1.Marshal(ia) }, func() ([]byte, error) { return stdjson.Marshal(ib) })
	if !ok {
		return nil
	}
	c.Case("marshal:"+desc+"|"+dump, true)
	if e2 == nil {
		c.Hit("typed/marshal/ok")
	} else {
		c.Hit("typed/marshal/error")
	}
	if (e1 == nil) != (e2 == nil) {
		d := detail()
		d["v1_err"], d["classic_err"], d["v1"], d["classic"] = fmt.Sprint(e1), fmt.Sprint(e2), c9Short(string(b1)), c9Short(string(b2))
		c9Dbg("marshal-success-mismatch", d)
		c.Violate("marshal-success-mismatch", "v1.Marshal", []byte(desc+"|"+dump), d)
		return nil
	}
	if e2 != nil {
		return nil
	}
	if !bytes.Equal(b1, b2) {
		d := detail()
		d["v1"], d["classic"] = c9Short(string(b1)), c9Short(string(b2))
		kind := "marshal-bytes-mismatch" + c9FFFD(b1, b2)
		c9Dbg(kind, d)
		c.Violate(kind, "v1.Marshal", []byte(desc+"|"+dump), d)
		return b2
	}
	// the value must not have been modified by marshaling
	if d2 := c9D(va); d2 != dump {
		c.Violate("marshal-mutates-value", "v1.Marshal", []byte(desc+"|"+dump), detail())
	}
	// The same v1 semantics WITHOUT Deterministic (jsonv2.Marshal with DefaultOptionsV1 and Deterministic(false)): map
	// members come out in iteration order through a different code path; the result must be the classic output up
	// to the order of members (both sides are canonicalised; a text that cannot be canonicalised is not compared).
	if strings.Contains(desc, "map[") && g.r.IntN(2) == 0 {
		var b3 []byte
		var e3 error
		if !w.call(slot, "v2.Marshal(DefaultOptionsV1,Deterministic(false))", []byte(desc), func() {
			b3, e3 = jsonv2.Marshal(ia, jsonv1.DefaultOptionsV1(), jsonv2.Deterministic(false))
		}) {
			c.Case("marshal-nondet:"+desc+"|"+dump, true)
			d := detail()
			d["v1_nondeterministic"], d["classic"], d["v1_err"] = c9Short(string(b3)), c9Short(string(b2)), fmt.Sprint(e3)
			if e3 != nil {
				c9Dbg("marshal-nondeterministic-success-mismatch", d)
				c.Violate("marshal-nondeterministic-success-mismatch", "v2.Marshal(DefaultOptionsV1,Deterministic(false))", []byte(desc+"|"+dump), d)
			} else {
				c3, c2 := jsontext.Value(bytes.Clone(b3)), jsontext.Value(bytes.Clone(b2))
				o := []jsontext.Options{jsontext.AllowDuplicateNames(true), jsontext.AllowInvalidUTF8(true)}
				if c3.Canonicalize(o...) == nil && c2.Canonicalize(o...) == nil {
					c.Hit("typed/marshal-nondeterministic/compared")
					if !bytes.Equal(c3, c2) {
						c9Dbg("marshal-nondeterministic-mismatch", d)
						c.Violate("marshal-nondeterministic-mismatch", "v2.Marshal(DefaultOptionsV1,Deterministic(false))", []byte(desc+"|"+dump), d)
					}
				} else {
					c.Hit("typed/marshal-nondeterministic/not-canonicalisable")
				}
			}
		}
	}
	// MarshalIndent
	if g.r.IntN(2) == 0 {
		prefix, indent := c09Affixes[g.r.IntN(len(c09Affixes))], c09Affixes[g.r.IntN(len(c09Affixes))]
		i1, i2, e1, e2, ok := c9MarshalBoth(c, w, slot, "v1.MarshalIndent", []byte(desc), func() ([]byte, error) { return jsonv1.MarshalIndent(ia, prefix, indent) }, func() ([]byte, error) { return stdjson.MarshalIndent(ib, prefix, indent) })
		if ok {
			c.Case("marshalindent:"+prefix+"|"+indent+"|"+desc+"|"+dump, true)
			if (e1 == nil) != (e2 == nil) || !bytes.Equal(i1, i2) {
				d := detail()
				d["prefix"], d["indent"] = prefix, indent
				d["v1_err"], d["classic_err"], d["v1"], d["classic"] = fmt.Sprint(e1), fmt.Sprint(e2), c9Short(string(i1)), c9Short(string(i2))
				kind := "marshalindent-mismatch" + c9FFFD(i1, i2)
				c9Dbg(kind, d)
				c.Violate(kind, "v1.MarshalIndent", []byte(desc+"|"+dump), d)
			}
		}
	}
	return b2
}

// c9AlignSpellings walks the two outputs in step and allows exactly two local respellings, reporting which occurred:
//
//	F1   classic `\ufffd` (six bytes; under the `string` tag the backslash is itself escaped: seven)  ↔  v1 EF BF BD
//	F11  classic raw U+2028/U+2029 (E2 80 A8|A9)                                                      ↔  v1 `\u2028`/`\u2029`
//
// Every other byte must be identical (a literal `\ufffd` that BOTH packages copied from a RawMessage stays put).
func c9AlignSpellings(v1out, classic []byte) (fffd, u2028, ok bool) {
	esc := []byte(c09BU + "fffd")
	esc2 := append([]byte{0x5c}, esc...)
	raw := []byte("\xef\xbf\xbd")
	i, j := 0, 0
	for i < len(classic) || j < len(v1out) {
		switch {
		case i < len(classic) && j < len(v1out) && classic[i] == v1out[j]:
			i, j = i+1, j+1
		case bytes.HasPrefix(classic[i:], esc2) && bytes.HasPrefix(v1out[j:], raw):
			fffd, i, j = true, i+7, j+3
		case bytes.HasPrefix(classic[i:], esc) && bytes.HasPrefix(v1out[j:], raw):
			fffd, i, j = true, i+6, j+3
		case bytes.HasPrefix(classic[i:], []byte("\u2028")) && bytes.HasPrefix(v1out[j:], []byte(c09BU+"2028")),
			bytes.HasPrefix(classic[i:], []byte("\u2029")) && bytes.HasPrefix(v1out[j:], []byte(c09BU+"2029")):
			u2028, i, j = true, i+3, j+6
		default:
			return false, false, false
		}
	}
	return fffd, u2028, true
}

// c9FFFD attributes a byte difference to finding F1 alone (invalid UTF-8 in a Go string: the classic package writes
// the six bytes \ufffd, v1 the three bytes EF BF BD); it returns a kind suffix.
func c9FFFD(v1out, classic []byte) string {
	if f, u, ok := c9AlignSpellings(v1out, classic); ok && f && !u {
		return "[invalid-utf8-fffd-spelling]"
	}
	return ""
}

// c9RespellFFFD spells every \\ufffd escape of the classic output (also the doubly encoded one) as raw U+FFFD.
func c9RespellFFFD(classic []byte) []byte {
	esc := []byte(c09BU + "fffd")
	return bytes.ReplaceAll(bytes.ReplaceAll(classic, append([]byte{0x5c}, esc...), []byte("\xef\xbf\xbd")), esc, []byte("\xef\xbf\xbd"))
}

func c9Dbg(kind string, d map[string]any) {
	if c09Debug {
		d["kind"] = kind
		b, _ := stdjson.Marshal(d)
		fmt.Fprintf(os.Stderr, "DBG %s\n", b)
	}
}

// c9UOutcome is the result of one v1.Unmarshal / classic Unmarshal pair.
type c9UOutcome struct {
	skipped        bool // classic or v1 panicked (v1 panic already reported)
	syntaxOK       bool
	e1, e2         error
	before         string
	after1, after2 string
}

// verdict returns the violation kind ("" if the property holds on this case).
func (o c9UOutcome) verdict() string {
	switch {
	case o.skipped:
		return ""
	case !o.syntaxOK:
		// syntactically invalid: both must fail, and v1 must leave the target untouched
		if o.e1 == nil || o.e2 == nil {
			return "unmarshal-invalid-input-accepted"
		}
		if o.after1 != o.before {
			return "unmarshal-syntax-error-mutates-target"
		}
		return ""
	case (o.e1 == nil) != (o.e2 == nil):
		return "unmarshal-success-mismatch"
	case o.e2 != nil:
		return "" // both report a semantic error: the value left in the target is outside the guarantee
	case o.after1 != o.after2:
		return "unmarshal-value-mismatch"
	}
	return ""
}

// c9RunUnmarshal: v1.Unmarshal(in, &a) vs classic Unmarshal(in, &b); the target is the zero value or the value
// regenerated from seed (regenerated for every run: Unmarshal writes through the pointers, maps and slices inside).
func c9RunUnmarshal(c *Ctx, w *c09Watch, slot int, t c9T, in []byte, populated bool, seed uint64) (o c9UOutcome) {
	ta, tb := reflect.New(t.a), reflect.New(t.b)
	if populated {
		va, vb := c9Gen{rand.New(rand.NewPCG(seed, 9))}.val(t, 3)
		ta.Elem().Set(va)
		tb.Elem().Set(vb)
	}
	o.before = c9D(ta.Elem())
	if p := guard(func() { o.e2 = stdjson.Unmarshal(in, tb.Interface()) }); p != nil {
		c.Hit("typed/classic-panic")
		c9Dbg("classic-panic", map[string]any{"op": "Unmarshal", "type": c9TypeName(t.a), "input": string(in), "panic": fmt.Sprint(p)})
		o.skipped = true
		return
	}
	if w.call(slot, "v1.Unmarshal", in, func() { o.e1 = jsonv1.Unmarshal(in, ta.Interface()) }) {
		o.skipped = true
		return
	}
	o.syntaxOK = stdjson.Valid(in)
	o.after1, o.after2 = c9D(ta.Elem()), c9D(tb.Elem())
	return
}

// Attribution of an Unmarshal disagreement to an already reported finding: the trigger is removed from the INPUT
// and both implementations are run again on the same type and target; only if the disagreement disappears is the
// case filed under the finding's kind.  (Nothing is skipped: an unattributed case keeps the generic kind.)
var c9Attributions = []struct {
	name string
	fix  func(t c9T, desc string, in []byte) []byte // nil: not applicable
}{
	// F2: `,string` on a string field: "null" / "\"null\"" are handled the wrong way round by v1
	{"stringtag-quoted-null", func(t c9T, d string, in []byte) []byte {
		if !strings.Contains(d, `string\"`) {
			return nil
		}
		return bytes.ReplaceAll(in, []byte("null"), []byte("nuII"))
	}},
	// F4: v1 accepts the member name "null" as the zero key of an integer-keyed map
	{"intkey-null-accepted", func(t c9T, d string, in []byte) []byte {
		if !strings.Contains(d, "map[") {
			return nil
		}
		return bytes.ReplaceAll(in, []byte(`"null"`), []byte(`"nuII"`))
	}},
	// F9/F10: `,string` fields and string contents that are not JSON numbers: v1 accepts "+1", ".5", "Inf", "NaN" for
	// int/float fields where the classic package demands a leading '-' or digit; the classic package stores any
	// text with such a first byte into a Number unvalidated ("1,5", "0x10", "1e") where v1 reports an error.
	{"stringtag-non-json-number", func(t c9T, d string, in []byte) []byte {
		if !strings.Contains(d, `string\"`) {
			return nil
		}
		out := append([]byte(nil), in...)
		spans := c9Spans(in)
		for k := len(spans) - 1; k >= 0; k-- {
			sp := spans[k]
			if in[sp[0]] != '"' || sp[1]-sp[0] < 3 {
				continue
			}
			body := in[sp[0]+1 : sp[1]-1]
			if !strings.ContainsRune("+-.0123456789IN", rune(body[0])) {
				continue
			}
			if (body[0] == '-' || body[0] >= '0' && body[0] <= '9') && stdjson.Valid(body) {
				continue
			}
			out = append(append(append([]byte(nil), out[:sp[0]]...), `"7"`...), out[sp[1]:]...)
		}
		return out
	}},
	// F7: a member name that matches two fields only case-insensitively: the classic package takes the first field
	// in depth-first (index) order, v1 the first in breadth-first order.  The fix renames exactly those names.
	{"fold-tie-order", func(t c9T, d string, in []byte) []byte {
		amb, exact := map[string]bool{}, map[string]bool{}
		c9FoldAmbiguous(t.a, amb, exact, map[reflect.Type]bool{})
		if len(amb) == 0 {
			return nil
		}
		out := append([]byte(nil), in...)
		spans := c9Spans(in)
		for k := len(spans) - 1; k >= 0; k-- {
			sp := spans[k]
			if in[sp[0]] != '"' {
				continue
			}
			e := sp[1]
			for e < len(in) && (in[e] == ' ' || in[e] == '\n' || in[e] == '\t' || in[e] == '\r') {
				e++
			}
			if e >= len(in) || in[e] != ':' {
				continue
			}
			var name string
			if stdjson.Unmarshal(in[sp[0]:sp[1]], &name) != nil { // the name as both packages read it (escapes undone)
				continue
			}
			if !exact[name] && amb[c9Fold(name)] {
				out = append(append(append([]byte(nil), out[:sp[0]]...), `"zz_renamed"`...), out[sp[1]:]...)
			}
		}
		return out
	}},
}

// c9FoldAmbiguous collects, over every struct type reachable from t, the lower-cased JSON names that are spelled in
// two or more ways among the (flattened) fields of one struct, and all exact spellings.
func c9FoldAmbiguous(t reflect.Type, amb, exact map[string]bool, seen map[reflect.Type]bool) {
	if seen[t] {
		return
	}
	seen[t] = true
	switch t.Kind() {
	case reflect.Pointer, reflect.Slice, reflect.Array:
		c9FoldAmbiguous(t.Elem(), amb, exact, seen)
	case reflect.Map:
		c9FoldAmbiguous(t.Elem(), amb, exact, seen)
	case reflect.Struct:
		byFold := map[string]map[string]bool{}
		var flat func(st reflect.Type, depth int)
		flat = func(st reflect.Type, depth int) {
			if depth > 6 {
				return
			}
			for i := 0; i < st.NumField(); i++ {
				f := st.Field(i)
				tag := f.Tag.Get("json")
				name, _, _ := strings.Cut(tag, ",")
				if tag == "-" {
					continue
				}
				ft := f.Type
				if ft.Kind() == reflect.Pointer {
					ft = ft.Elem()
				}
				if f.Anonymous && name == "" && ft.Kind() == reflect.Struct {
					flat(ft, depth+1)
					continue
				}
				if name == "" {
					name = f.Name
				}
				exact[name] = true
				l := c9Fold(name)
				if byFold[l] == nil {
					byFold[l] = map[string]bool{}
				}
				byFold[l][name] = true
			}
		}
		flat(t, 0)
		for l, sp := range byFold {
			if len(sp) > 1 {
				amb[l] = true
			}
		}
		for i := 0; i < t.NumField(); i++ {
			c9FoldAmbiguous(t.Field(i).Type, amb, exact, seen)
		}
	}
}

// c9HasPtrKeyMap: does the type (or a type an interface field may hold from c9DynTypes) contain a pointer-keyed map?
func c9HasPtrKeyMap(desc string) bool { return strings.Contains(desc, "map[*") }

func c9CheckUnmarshal(c *Ctx, w *c09Watch, slot int, t c9T, desc string, in []byte, populated bool, seed uint64) (clean bool) {
	if c9HasPtrKeyMap(desc) {
		c.Hit("typed/unmarshal/skipped-pointer-key-map")
		return false
	}
	o := c9RunUnmarshal(c, w, slot, t, in, populated, seed)
	if o.skipped {
		return false
	}
	pre := "zero"
	if populated {
		pre = "populated"
	}
	c.Case("unmarshal:"+pre+"|"+desc+"|"+string(in), true)
	switch {
	case !o.syntaxOK:
		c.Hit("typed/unmarshal/" + pre + "/syntax-error")
	case o.e2 != nil:
		c.Hit("typed/unmarshal/" + pre + "/semantic-error")
	default:
		c.Hit("typed/unmarshal/" + pre + "/ok")
	}
	kind := o.verdict()
	if kind == "" {
		return true
	}
	for _, at := range c9Attributions {
		in2 := at.fix(t, desc, in)
		if in2 == nil || bytes.Equal(in2, in) {
			continue
		}
		if o2 := c9RunUnmarshal(c, w, slot, t, in2, populated, seed); !o2.skipped && o2.verdict() == "" {
			kind += "[" + at.name + "]"
			break
		}
	}
	d := map[string]any{"type": c9Short(desc), "input": c9Short(string(in)), "target": pre, "before": c9Short(o.before),
		"v1_err": fmt.Sprint(o.e1), "classic_err": fmt.Sprint(o.e2), "v1_after": c9Short(o.after1), "classic_after": c9Short(o.after2)}
	c9Dbg(kind, d)
	c.Violate(kind, "v1.Unmarshal", []byte(desc+"|"+string(in)+"|"+o.before), d)
	return false
}

// c09Cycles: cyclic values (DESIGN.md §6 D2) — the classic package reports an error; v1 is run in a child.
func c09Cycles(c *Ctx) {
	names := []string{"ptr", "iface", "struct", "map", "slice"}
	for _, name := range names {
		v := c09CyclicValues()[name]
		var e2 error
		if p := guard(func() { _, e2 = stdjson.Marshal(v) }); p != nil {
			c.Note("classic Marshal panicked on cyclic %s: %v", name, p)
			continue
		}
		line, st := c09RunSub(20e9, "c09-cycle", name)
		c.Case("cycle:"+name, true)
		c.Hit("typed/cycle/" + name)
		d := map[string]any{"value": name, "classic_err": fmt.Sprint(e2), "v1_child": trunc(line, 200), "child_status": st}
		switch {
		case st == "timeout":
			c.Violate("marshal-cycle-hang", "v1.Marshal", []byte(name), d)
		case st == "crash":
			if strings.Contains(line, "stack") || strings.Contains(line, "goroutine stack exceeds") {
				c.Violate("marshal-cycle-stack-overflow", "v1.Marshal", []byte(name), d)
			} else {
				c.Violate("marshal-cycle-crash", "v1.Marshal", []byte(name), d)
			}
		case (line == "err") != (e2 != nil):
			c.Violate("marshal-success-mismatch", "v1.Marshal", []byte("cycle:"+name), d)
		}
	}
}

// ---------------------------------------------------------------------------------------------
// Fixed probes: minimal repros of the findings whose trigger is kept OUT of the random generator (because it sits
// in the type, where no input rewrite can remove it).  Each probe compares the two packages exactly like the random
// checks and reports under the finding's own kind, so it falls silent once /repo is repaired.

func init() { c09Parts = append(c09Parts, c09Part{"P (probes)", c09Probes}) }

func c09Probes(c *Ctx) {
	w := newC09Watch(c, 1)
	defer w.stop.Store(true)
	marshal := func(suffix, name string, v any) {
		var b1, b2 []byte
		var e1, e2 error
		if p := guard(func() { b2, e2 = stdjson.Marshal(v) }); p != nil {
			c.Note("probe %s: classic panicked: %v", name, p)
			return
		}
		c.Case("probe:"+name, true)
		c.Hit("probe/" + suffix)
		d := map[string]any{"probe": name}
		if p := guard(func() { b1, e1 = jsonv1.Marshal(v) }); p != nil {
			d["panic"], d["classic"], d["classic_err"] = fmt.Sprint(p), string(b2), fmt.Sprint(e2)
			c.Violate("panic["+suffix+"]", "v1.Marshal", []byte(name), d)
			return
		}
		if (e1 == nil) != (e2 == nil) || !bytes.Equal(b1, b2) {
			d["v1"], d["classic"], d["v1_err"], d["classic_err"] = string(b1), string(b2), fmt.Sprint(e1), fmt.Sprint(e2)
			c.Violate("marshal-bytes-mismatch["+suffix+"]", "v1.Marshal", []byte(name), d)
		}
	}
	unmarshal := func(suffix, name, in string, mk func() any) {
		ta, tb := mk(), mk()
		var e1, e2 error
		if p := guard(func() { e2 = stdjson.Unmarshal([]byte(in), tb) }); p != nil {
			c.Note("probe %s: classic panicked: %v", name, p)
			return
		}
		c.Case("probe:"+name, true)
		c.Hit("probe/" + suffix)
		if w.call(0, "v1.Unmarshal", []byte(name), func() { e1 = jsonv1.Unmarshal([]byte(in), ta) }) {
			return
		}
		a, b := c9D(reflect.ValueOf(ta).Elem()), c9D(reflect.ValueOf(tb).Elem())
		d := map[string]any{"probe": name, "input": in, "v1_err": fmt.Sprint(e1), "classic_err": fmt.Sprint(e2), "v1_after": a, "classic_after": b}
		switch {
		case (e1 == nil) != (e2 == nil):
			c.Violate("unmarshal-success-mismatch["+suffix+"]", "v1.Unmarshal", []byte(name), d)
		case e2 == nil && a != b:
			c.Violate("unmarshal-value-mismatch["+suffix+"]", "v1.Unmarshal", []byte(name), d)
		}
	}

	// F3: map key of string kind with MarshalText — the classic package uses the string itself (encode.go resolveKeyName)
	marshal("string-kind-key-with-marshaltext", "Marshal(map[C9TStr]int{k:1})", map[C9TStr]int{"k": 1})
	unmarshal("string-kind-key-with-marshaltext", "Unmarshal({\"k\":1}, *map[C9TStr]int)", `{"k":1}`, func() any { return new(map[C9TStr]int) })
	// F5: `,string` on a scalar-kind type with methods
	type f5 struct {
		F C9TInt `json:",string"`
	}
	marshal("stringtag-on-method-type", "Marshal(struct{F C9TInt `json:\",string\"`}{5})", f5{5})
	unmarshal("stringtag-on-method-type", "Unmarshal({\"F\":\"#5\"}, *struct{F C9TInt `json:\",string\"`})", `{"F":"#5"}`, func() any { return new(f5) })
	type f5b struct {
		F C9MInt `json:",string"`
	}
	marshal("stringtag-on-method-type", "Marshal(struct{F C9MInt `json:\",string\"`}{5})", f5b{5})
	unmarshal("stringtag-on-method-type", "Unmarshal({\"F\":{}}, *struct{F C9MInt `json:\",string\"`})", `{"F":{}}`, func() any { return new(f5b) })
	// F6: pointer-keyed map
	marshal("pointer-key-map", "Marshal(map[*C9TP]int{&{k}:1})", map[*C9TP]int{{"k"}: 1})
	unmarshal("pointer-key-map", "Unmarshal({}, *map[*C9TP]int)", `{}`, func() any { return new(map[*C9TP]int) })
	unmarshal("pointer-key-map", "Unmarshal({\"k\":1}, *map[*C9TP]int)", `{"k":1}`, func() any { return new(map[*C9TP]int) })
	// F8: nil pointer inside a user-defined interface type that has a marshal method
	marshal("nil-pointer-in-marshaler-interface", "Marshal(struct{M C9MarshalerI}{(*C9MP)(nil)})", struct{ M C9MarshalerI }{(*C9MP)(nil)})
	marshal("nil-pointer-in-marshaler-interface", "Marshal(struct{T C9TextI}{(*C9TP)(nil)})", struct{ T C9TextI }{(*C9TP)(nil)})
	marshal("nil-pointer-in-marshaler-interface", "Marshal([]C9MarshalerI{(*C9MP)(nil)})", []C9MarshalerI{(*C9MP)(nil)})
}

// ---------------------------------------------------------------------------------------------
// Member-name respelling family (Unmarshal / Decoder.Decode inputs).
//
// encoding/json matches a member name to a field exactly or, failing that, by Unicode SIMPLE case folding rune by
// rune (fold.go foldName: every rune replaced by the smallest member of its unicode.SimpleFold orbit); '_' and '-'
// are significant.  v1 must match exactly the same spellings (MatchCaseInsensitiveNames + MatchCaseSensitiveDelimiter
// = strings.EqualFold).  For every member name of a valid input the family produces: a random member of each rune's
// fold orbit (k/K/U+212A KELVIN SIGN, s/S/U+017F LONG S, σ/Σ/ς, ǆ/ǅ/Ǆ … — spellings whose UTF-8 LENGTH differs from
// the field name's), ASCII case flips, '_'/'-' insertion, near-misses (combining mark, full-fold-only pairs such as
// ß/ss, dotted/dotless i, fullwidth letters, a doubled or dropped letter) and the \uXXXX-escaped spelling of any of those.

// c9Fold is the classic folding: each rune replaced by the smallest rune of its simple-fold orbit.
func c9Fold(s string) string {
	var sb strings.Builder
	for _, r := range s {
		m := r
		for x := unicode.SimpleFold(r); x != r; x = unicode.SimpleFold(x) {
			if x < m {
				m = x
			}
		}
		sb.WriteRune(m)
	}
	return sb.String()
}

func c9Orbit(r rune) []rune {
	o := []rune{r}
	for x := unicode.SimpleFold(r); x != r; x = unicode.SimpleFold(x) {
		o = append(o, x)
	}
	return o
}

var c9NearMiss = map[rune][]string{'s': {"ß", "ss", "ｓ"}, 'S': {"ẞ", "SS"}, 'k': {"ｋ", "κ"}, 'K': {"Κ"}, 'i': {"ı", "İ", "í"}, 'I': {"İ", "ı"}, 'ß': {"ss", "ẞ"}, 'a': {"а", "ａ"}, 'ı': {"i", "I"}, 'İ': {"i", "I"}}

// respellName returns a respelling of a member name and the class of the change.
func (g c9Gen) respellName(name string) (string, string) {
	rs := []rune(name)
	switch k := g.r.IntN(10); {
	case k < 4: // a random member of every rune's simple-fold orbit (still a match)
		for i, r := range rs {
			o := c9Orbit(r)
			rs[i] = o[g.r.IntN(len(o))]
		}
		return string(rs), "fold-orbit"
	case k < 5: // exactly one rune moved to the LAST member of its orbit (the non-ASCII one for k and s)
		var idx []int
		for i, r := range rs {
			if len(c9Orbit(r)) > 2 {
				idx = append(idx, i)
			}
		}
		if len(idx) == 0 {
			for i := range rs {
				idx = append(idx, i)
			}
		}
		if len(idx) > 0 {
			i := idx[g.r.IntN(len(idx))]
			o := c9Orbit(rs[i])
			rs[i] = o[len(o)-1]
		}
		return string(rs), "fold-orbit-one"
	case k < 6: // ASCII flips
		for i, r := range rs {
			if r < 0x80 && unicode.IsLetter(r) && g.r.IntN(2) == 0 {
				if unicode.IsUpper(r) {
					rs[i] = unicode.ToLower(r)
				} else {
					rs[i] = unicode.ToUpper(r)
				}
			}
		}
		return string(rs), "ascii-flip"
	case k < 7: // delimiter inserted or removed (never a match in either package)
		if i := strings.IndexAny(name, "_-"); i >= 0 && g.r.IntN(2) == 0 {
			return name[:i] + name[i+1:], "delimiter-removed"
		}
		i := g.r.IntN(len(rs) + 1)
		d := []rune{'_', '-'}[g.r.IntN(2)]
		return string(rs[:i]) + string(d) + string(rs[i:]), "delimiter-inserted"
	case k < 9: // near-miss
		if len(rs) == 0 {
			return "\u0301", "near-miss"
		}
		i := g.r.IntN(len(rs))
		switch g.r.IntN(4) {
		case 0:
			return string(rs[:i+1]) + "\u0301" + string(rs[i+1:]), "near-miss" // combining acute
		case 1:
			if alts := c9NearMiss[rs[i]]; len(alts) > 0 {
				return string(rs[:i]) + alts[g.r.IntN(len(alts))] + string(rs[i+1:]), "near-miss"
			}
			return string(rs[:i+1]) + string(rs[i:]), "near-miss" // doubled
		case 2:
			return string(rs[:i]) + string(rs[i+1:]), "near-miss" // dropped
		default:
			return string(rs[:i+1]) + string(rs[i:]), "near-miss" // doubled
		}
	}
	return name, "unchanged"
}

// c9QuoteName spells a member name as a JSON string, escaping a random subset of the runes as \uXXXX.
func (g c9Gen) quoteName(name string, escapeP int) string {
	var sb strings.Builder
	sb.WriteByte('"')
	for _, r := range name {
		esc := g.r.IntN(100) < escapeP || r < 0x20 || r == '"' || r == 0x5c
		if !esc {
			sb.WriteRune(r)
			continue
		}
		f := "%04x"
		if g.r.IntN(2) == 0 {
			f = "%04X"
		}
		if r >= 0x10000 {
			r -= 0x10000
			sb.WriteString(c09BU + fmt.Sprintf(f, 0xd800+(r>>10)) + c09BU + fmt.Sprintf(f, 0xdc00+(r&0x3ff)))
		} else {
			sb.WriteString(c09BU + fmt.Sprintf(f, r))
		}
	}
	sb.WriteByte('"')
	return sb.String()
}

// respell rewrites member names of a JSON text (each with probability 1/2).
func (g c9Gen) respell(c *Ctx, in []byte) []byte {
	out := append([]byte(nil), in...)
	spans := c9Spans(in)
	for k := len(spans) - 1; k >= 0; k-- {
		sp := spans[k]
		if in[sp[0]] != '"' {
			continue
		}
		e := sp[1]
		for e < len(in) && (in[e] == ' ' || in[e] == '\n' || in[e] == '\t' || in[e] == '\r') {
			e++
		}
		if e >= len(in) || in[e] != ':' || g.r.IntN(2) == 0 {
			continue
		}
		var name string
		if stdjson.Unmarshal(in[sp[0]:sp[1]], &name) != nil {
			continue
		}
		nn, class := g.respellName(name)
		escP := []int{0, 0, 30, 100}[g.r.IntN(4)]
		if escP > 0 {
			class += "+escaped"
		}
		if len(nn) != len(name) && c9Fold(nn) == c9Fold(name) {
			class += "+utf8-length-differs"
		}
		c.Hit("respell/" + class)
		out = append(append(append([]byte(nil), out[:sp[0]]...), g.quoteName(nn, escP)...), out[sp[1]:]...)
	}
	return out
}

func init() { c09Parts = append(c09Parts, c09Part{"R (member-name respelling)", c09Respell}) }

func c09Respell(c *Ctx) {
	nw := c09NW(c)
	w := newC09Watch(c, nw)
	defer w.stop.Store(true)
	n := c.N(12000, 600000)
	var wg sync.WaitGroup
	for wk := 0; wk < nw; wk++ {
		wg.Add(1)
		go func(wk int) {
			defer wg.Done()
			r := c.SubRng(uint64(500 + wk))
			g := c9Gen{r}
			for i := wk; i < n; i += nw {
				var t c9T
				switch i % 3 {
				case 0:
					t = c9tf[C9Fold]()
				case 1:
					t = c9tf[map[string]C9Fold]()
					if r.IntN(2) == 0 {
						t = c9tf[[]*C9Fold]()
					}
				default:
					t = g.structType(2)
				}
				desc := c9TypeName(t.a)
				va, vb := g.val(t, 3)
				var good []byte
				var err error
				if p := guard(func() { good, err = stdjson.Marshal(vb.Interface()) }); p != nil || err != nil {
					continue
				}
				_ = va
				in := g.respell(c, good)
				seed := r.Uint64()
				for _, populated := range []bool{false, true} {
					clean := c9CheckUnmarshal(c, w, wk, t, desc, in, populated, seed)
					if !clean {
						continue
					}
					// the same input through Decoder.Decode, without and with DisallowUnknownFields
					for _, strict := range []bool{false, true} {
						c9CheckDecode(c, w, wk, t, desc, in, populated, seed, strict)
					}
				}
			}
		}(wk)
	}
	wg.Wait()
}

// c9CheckDecode: NewDecoder(in).Decode(&target), optionally after DisallowUnknownFields, v1 vs classic.
func c9CheckDecode(c *Ctx, w *c09Watch, slot int, t c9T, desc string, in []byte, populated bool, seed uint64, strict bool) {
	ta, tb := reflect.New(t.a), reflect.New(t.b)
	if populated {
		va, vb := c9Gen{rand.New(rand.NewPCG(seed, 9))}.val(t, 3)
		ta.Elem().Set(va)
		tb.Elem().Set(vb)
	}
	before := c9D(ta.Elem())
	d1, d2 := jsonv1.NewDecoder(bytes.NewReader(in)), stdjson.NewDecoder(bytes.NewReader(in))
	if strict {
		d1.DisallowUnknownFields()
		d2.DisallowUnknownFields()
	}
	var e1, e2 error
	if p := guard(func() { e2 = d2.Decode(tb.Interface()) }); p != nil {
		c.Hit("typed/classic-panic")
		return
	}
	if w.call(slot, "v1.Decoder.Decode", in, func() { e1 = d1.Decode(ta.Interface()) }) {
		return
	}
	mode := "Decode"
	if strict {
		mode = "DisallowUnknownFields+Decode"
	}
	c.Case("respell-decode:"+mode+"|"+desc+"|"+string(in)+"|"+before, true)
	c.Hit("respell/" + mode + "/" + c9ErrClass(e2))
	a, b := c9D(ta.Elem()), c9D(tb.Elem())
	d := map[string]any{"type": c9Short(desc), "input": c9Short(string(in)), "mode": mode, "before": c9Short(before),
		"v1_err": fmt.Sprint(e1), "classic_err": fmt.Sprint(e2), "v1_after": c9Short(a), "classic_after": c9Short(b)}
	switch {
	case (e1 == nil) != (e2 == nil):
		c9Dbg("decoder-decode-result-mismatch", d)
		c.Violate("decoder-decode-result-mismatch", "v1.Decoder", []byte(mode+"|"+desc+"|"+string(in)+"|"+before), d)
	case e2 == nil && a != b:
		c9Dbg("decoder-decode-value-mismatch", d)
		c.Violate("decoder-decode-value-mismatch", "v1.Decoder", []byte(mode+"|"+desc+"|"+string(in)+"|"+before), d)
	}
}
