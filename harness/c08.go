package main

// C08 — Ambiguous input is rejected by default: duplicate names and invalid UTF-8.
//
// Predicates on the implementation (the core of this slice):
//   (a) DECODE: a duplicate-free JSON text is generated together with a Go target type that covers it
//       (any, map[string]T, map[int|uint8|float64]T, structs with exact / case-insensitive fields, embedded
//       fallbacks of map and jsontext.Value type, raw jsontext.Value fields, skipped unknown members; nested ≤ 6;
//       objects that push the coder namespace into its map representation; structs with > 64/128/192 fields).
//       One duplicate is injected at a random object (byte-identical, respelled by escapes, case-varied,
//       numerically equal).  Default options: every entry point rejects it with ErrDuplicateName and accepts the
//       clean text.  AllowDuplicateNames: succeeds with the documented merge semantics (expected value computed
//       with DEFAULT options on duplicate-free texts: sequential unmarshal, tree merge, or verbatim raw patch),
//       and changes nothing on duplicate-free input (same value, same error).  Ill-formed UTF-8 injected into a
//       string or name: rejected by default; AllowInvalidUTF8 = one U+FFFD per ill-formed byte, nothing else.
//   (b) ENCODE: Go values whose marshaling could collide names (TextMarshaler keys, invalid-UTF-8 keys, fallback
//       members equal to declared fields exactly or folded, raw fallback objects, MarshalJSON / MarshalJSONTo
//       emitting duplicates, invalid UTF-8 in Go strings): default ⇒ error, and any successful output passes an
//       independent duplicate/UTF-8 checker; Allow* ⇒ success / U+FFFD.
//   (c) poisoned coders: after a failed MarshalEncode/UnmarshalDecode inside a namespace-disabled object the
//       coder reports errInvalidNamespace instead of continuing.
// Correspondence (Tie B): json.VerifUintSet and jsontext.VerifNamespace vs the Lean models (family `dup`).

import (
	"bytes"
	"errors"
	"fmt"
	"io"
	"math"
	"math/rand/v2"
	"os"
	"reflect"
	"runtime/pprof"
	"sort"
	"strconv"
	"strings"
	"sync"
	"sync/atomic"
	"time"
	"unicode"
	"unicode/utf8"

	json "github.com/go-json-experiment/json"
	"github.com/go-json-experiment/json/jsontext"
)

func init() { register("C08", runC08) }

var (
	c8AD      = jsontext.AllowDuplicateNames(true)
	c8AU      = jsontext.AllowInvalidUTF8(true)
	c8CI      = json.MatchCaseInsensitiveNames(true)
	c8rawType = reflect.TypeFor[jsontext.Value]()
	c8anyType = reflect.TypeFor[any]()
)

// ---------------------------------------------------------------------------------------------
// Independent UTF-8 well-formedness (Unicode table 3-7) and an independent strict JSON scanner.

func c8cont(c byte) bool { return c >= 0x80 && c <= 0xBF }

// c8wf is the length of the well-formed UTF-8 sequence at the start of b, or 0.
func c8wf(b []byte) int {
	if len(b) == 0 {
		return 0
	}
	c := b[0]
	in := func(i int, lo, hi byte) bool { return len(b) > i && b[i] >= lo && b[i] <= hi }
	switch {
	case c < 0x80:
		return 1
	case c >= 0xC2 && c <= 0xDF:
		if in(1, 0x80, 0xBF) {
			return 2
		}
	case c == 0xE0:
		if in(1, 0xA0, 0xBF) && in(2, 0x80, 0xBF) {
			return 3
		}
	case (c >= 0xE1 && c <= 0xEC) || c == 0xEE || c == 0xEF:
		if in(1, 0x80, 0xBF) && in(2, 0x80, 0xBF) {
			return 3
		}
	case c == 0xED:
		if in(1, 0x80, 0x9F) && in(2, 0x80, 0xBF) {
			return 3
		}
	case c == 0xF0:
		if in(1, 0x90, 0xBF) && in(2, 0x80, 0xBF) && in(3, 0x80, 0xBF) {
			return 4
		}
	case c >= 0xF1 && c <= 0xF3:
		if in(1, 0x80, 0xBF) && in(2, 0x80, 0xBF) && in(3, 0x80, 0xBF) {
			return 4
		}
	case c == 0xF4:
		if in(1, 0x80, 0x8F) && in(2, 0x80, 0xBF) && in(3, 0x80, 0xBF) {
			return 4
		}
	}
	return 0
}

// c8sanitize replaces every ill-formed byte by exactly one U+FFFD.
func c8sanitize(b []byte) []byte {
	out := make([]byte, 0, len(b))
	for i := 0; i < len(b); {
		if n := c8wf(b[i:]); n > 0 {
			out = append(out, b[i:i+n]...)
			i += n
		} else {
			out = append(out, 0xEF, 0xBF, 0xBD)
			i++
		}
	}
	return out
}

func c8validUTF8(b []byte) bool {
	for i := 0; i < len(b); {
		n := c8wf(b[i:])
		if n == 0 {
			return false
		}
		i += n
	}
	return true
}

// c8scanner is a small strict RFC 8259 parser that also reports duplicate names (after unescaping)
// and ill-formed UTF-8 / unpaired surrogates.  It shares no code with the library.
type c8scanner struct {
	b        []byte
	i        int
	dup, bad bool
}

func (s *c8scanner) ws() {
	for s.i < len(s.b) && (s.b[s.i] == ' ' || s.b[s.i] == '\t' || s.b[s.i] == '\n' || s.b[s.i] == '\r') {
		s.i++
	}
}

func c8hex4(b []byte) (rune, bool) {
	if len(b) < 4 {
		return 0, false
	}
	var r rune
	for _, c := range b[:4] {
		switch {
		case c >= '0' && c <= '9':
			r = r<<4 | rune(c-'0')
		case c >= 'a' && c <= 'f':
			r = r<<4 | rune(c-'a'+10)
		case c >= 'A' && c <= 'F':
			r = r<<4 | rune(c-'A'+10)
		default:
			return 0, false
		}
	}
	return r, true
}

func (s *c8scanner) str() (string, bool) {
	if s.i >= len(s.b) || s.b[s.i] != '"' {
		return "", false
	}
	s.i++
	var out []byte
	for s.i < len(s.b) {
		c := s.b[s.i]
		switch {
		case c == '"':
			s.i++
			return string(out), true
		case c < 0x20:
			return "", false
		case c == '\\':
			if s.i+1 >= len(s.b) {
				return "", false
			}
			e := s.b[s.i+1]
			s.i += 2
			switch e {
			case '"', '\\', '/':
				out = append(out, e)
			case 'b':
				out = append(out, 8)
			case 'f':
				out = append(out, 12)
			case 'n':
				out = append(out, 10)
			case 'r':
				out = append(out, 13)
			case 't':
				out = append(out, 9)
			case 'u':
				r, ok := c8hex4(s.b[s.i:])
				if !ok {
					return "", false
				}
				s.i += 4
				if r >= 0xD800 && r <= 0xDBFF {
					if s.i+6 <= len(s.b) && s.b[s.i] == '\\' && s.b[s.i+1] == 'u' {
						if r2, ok := c8hex4(s.b[s.i+2:]); ok && r2 >= 0xDC00 && r2 <= 0xDFFF {
							s.i += 6
							out = utf8.AppendRune(out, 0x10000+(r-0xD800)<<10+(r2-0xDC00))
							continue
						}
					}
					s.bad = true
					out = append(out, 0xEF, 0xBF, 0xBD)
				} else if r >= 0xDC00 && r <= 0xDFFF {
					s.bad = true
					out = append(out, 0xEF, 0xBF, 0xBD)
				} else {
					out = utf8.AppendRune(out, r)
				}
			default:
				return "", false
			}
		default:
			if n := c8wf(s.b[s.i:]); n > 0 {
				out = append(out, s.b[s.i:s.i+n]...)
				s.i += n
			} else {
				s.bad = true
				out = append(out, 0xEF, 0xBF, 0xBD)
				s.i++
			}
		}
	}
	return "", false
}

func (s *c8scanner) num() bool {
	st := s.i
	if s.i < len(s.b) && s.b[s.i] == '-' {
		s.i++
	}
	digits := func() int {
		n := 0
		for s.i < len(s.b) && s.b[s.i] >= '0' && s.b[s.i] <= '9' {
			s.i++
			n++
		}
		return n
	}
	if s.i < len(s.b) && s.b[s.i] == '0' {
		s.i++
	} else if digits() == 0 {
		return false
	}
	if s.i < len(s.b) && s.b[s.i] == '.' {
		s.i++
		if digits() == 0 {
			return false
		}
	}
	if s.i < len(s.b) && (s.b[s.i] == 'e' || s.b[s.i] == 'E') {
		s.i++
		if s.i < len(s.b) && (s.b[s.i] == '+' || s.b[s.i] == '-') {
			s.i++
		}
		if digits() == 0 {
			return false
		}
	}
	return s.i > st
}

func (s *c8scanner) value(depth int) bool {
	s.ws()
	if s.i >= len(s.b) || depth > 200 {
		return false
	}
	switch c := s.b[s.i]; {
	case c == '{':
		s.i++
		names := map[string]bool{}
		s.ws()
		if s.i < len(s.b) && s.b[s.i] == '}' {
			s.i++
			return true
		}
		for {
			s.ws()
			n, ok := s.str()
			if !ok {
				return false
			}
			if names[n] {
				s.dup = true
			}
			names[n] = true
			s.ws()
			if s.i >= len(s.b) || s.b[s.i] != ':' {
				return false
			}
			s.i++
			if !s.value(depth + 1) {
				return false
			}
			s.ws()
			if s.i < len(s.b) && s.b[s.i] == ',' {
				s.i++
				continue
			}
			if s.i < len(s.b) && s.b[s.i] == '}' {
				s.i++
				return true
			}
			return false
		}
	case c == '[':
		s.i++
		s.ws()
		if s.i < len(s.b) && s.b[s.i] == ']' {
			s.i++
			return true
		}
		for {
			if !s.value(depth + 1) {
				return false
			}
			s.ws()
			if s.i < len(s.b) && s.b[s.i] == ',' {
				s.i++
				continue
			}
			if s.i < len(s.b) && s.b[s.i] == ']' {
				s.i++
				return true
			}
			return false
		}
	case c == '"':
		_, ok := s.str()
		return ok
	case c == 't':
		if bytes.HasPrefix(s.b[s.i:], []byte("true")) {
			s.i += 4
			return true
		}
	case c == 'f':
		if bytes.HasPrefix(s.b[s.i:], []byte("false")) {
			s.i += 5
			return true
		}
	case c == 'n':
		if bytes.HasPrefix(s.b[s.i:], []byte("null")) {
			s.i += 4
			return true
		}
	default:
		return s.num()
	}
	return false
}

// c8scan: (syntactically valid single value, has duplicate names, has ill-formed UTF-8).
func c8scan(b []byte) (ok, dup, bad bool) {
	s := &c8scanner{b: b}
	ok = s.value(0)
	if ok {
		s.ws()
		ok = s.i == len(s.b)
	}
	return ok, s.dup, s.bad
}

// ---------------------------------------------------------------------------------------------
// Target shapes.

type c8kind uint8

const (
	c8Any c8kind = iota
	c8MapStr
	c8MapInt
	c8MapU8
	c8MapF64
	c8Struct
	c8Raw
	c8Slice
	c8Ptr
	c8Int
	c8Str
	c8Bool
	c8F64
)

var c8kindName = []string{"any", "map[string]", "map[int]", "map[uint8]", "map[float64]", "struct", "raw", "slice", "ptr", "int", "string", "bool", "float64"}

type c8field struct {
	name   string
	ci     bool // `case:ignore`
	strict bool // `case:strict`
	sh     *c8shape
	id     int
}

type c8shape struct {
	kind   c8kind
	typ    reflect.Type
	elem   *c8shape
	fields []*c8field
	fb     uint8 // 0 none, 1 map[string]any, 2 map[string]E, 3 jsontext.Value
	fbElem *c8shape
}

func (sh *c8shape) String() string {
	switch sh.kind {
	case c8MapStr, c8MapInt, c8MapU8, c8MapF64, c8Slice, c8Ptr:
		return c8kindName[sh.kind] + "(" + sh.elem.String() + ")"
	case c8Struct:
		return fmt.Sprintf("struct{%d fields fb=%d}", len(sh.fields), sh.fb)
	}
	return c8kindName[sh.kind]
}

var c8fieldAlphabet = []rune("abcdeABkKsS019_-xyzéΩ")

func c8fieldName(r *rand.Rand, long bool) string {
	n := 1 + r.IntN(4)
	if long {
		n = 3 + r.IntN(4)
	}
	var sb strings.Builder
	for i := 0; i < n; i++ {
		c := c8fieldAlphabet[r.IntN(len(c8fieldAlphabet))]
		if i == 0 && (c == '-' || c == '_' || (c >= '0' && c <= '9')) {
			c = 'q'
		}
		sb.WriteRune(c)
	}
	return sb.String()
}

func c8leaf(r *rand.Rand) *c8shape {
	switch r.IntN(6) {
	case 0:
		return &c8shape{kind: c8Int, typ: reflect.TypeFor[int]()}
	case 1:
		return &c8shape{kind: c8Str, typ: reflect.TypeFor[string]()}
	case 2:
		return &c8shape{kind: c8Bool, typ: reflect.TypeFor[bool]()}
	case 3:
		return &c8shape{kind: c8F64, typ: reflect.TypeFor[float64]()}
	case 4:
		return &c8shape{kind: c8Raw, typ: c8rawType}
	}
	return &c8shape{kind: c8Any, typ: c8anyType}
}

// c8genShape builds a random target shape; nfBig > 0 forces a struct with that many declared fields.
func c8genShape(r *rand.Rand, depth int, nfBig int) *c8shape {
	if nfBig == 0 && (depth >= 4 || r.IntN(10) < 2) {
		return c8leaf(r)
	}
	k := r.IntN(14)
	if nfBig > 0 {
		k = 0
	}
	switch {
	case k < 5: // struct
		sh := &c8shape{kind: c8Struct}
		nf := 1 + r.IntN(5)
		if nfBig > 0 {
			nf = nfBig
		}
		folds := map[string]bool{}
		var sfs []reflect.StructField
		for i := 0; i < nf; i++ {
			var name string
			for {
				name = c8fieldName(r, nf > 20)
				f := string(json.VerifFoldName([]byte(name)))
				if f != "" && !folds[f] {
					folds[f] = true
					break
				}
			}
			f := &c8field{name: name, id: i}
			tag := name
			switch r.IntN(6) {
			case 0, 1:
				f.ci = true
				tag += ",case:ignore"
			case 2:
				f.strict = true
				tag += ",case:strict"
			}
			if nf > 20 {
				f.sh = c8leaf(r)
			} else {
				f.sh = c8genShape(r, depth+1, 0)
			}
			sh.fields = append(sh.fields, f)
			sfs = append(sfs, reflect.StructField{Name: fmt.Sprintf("F%d", i), Type: f.sh.typ, Tag: reflect.StructTag(`json:"` + tag + `"`)})
		}
		sh.fb = uint8(r.IntN(4))
		switch sh.fb {
		case 1:
			sfs = append(sfs, reflect.StructField{Name: "X", Type: reflect.TypeFor[map[string]any](), Tag: `json:",embed"`})
		case 2:
			if nf > 20 {
				sh.fbElem = c8leaf(r)
			} else {
				sh.fbElem = c8genShape(r, depth+1, 0)
			}
			sfs = append(sfs, reflect.StructField{Name: "X", Type: reflect.MapOf(reflect.TypeFor[string](), sh.fbElem.typ), Tag: `json:",embed"`})
		case 3:
			sfs = append(sfs, reflect.StructField{Name: "X", Type: c8rawType, Tag: `json:",embed"`})
		}
		sh.typ = reflect.StructOf(sfs)
		return sh
	case k < 7:
		e := c8genShape(r, depth+1, 0)
		return &c8shape{kind: c8MapStr, elem: e, typ: reflect.MapOf(reflect.TypeFor[string](), e.typ)}
	case k < 8:
		e := c8genShape(r, depth+1, 0)
		return &c8shape{kind: c8MapInt, elem: e, typ: reflect.MapOf(reflect.TypeFor[int](), e.typ)}
	case k < 9:
		e := c8genShape(r, depth+1, 0)
		return &c8shape{kind: c8MapU8, elem: e, typ: reflect.MapOf(reflect.TypeFor[uint8](), e.typ)}
	case k < 10:
		e := c8genShape(r, depth+1, 0)
		return &c8shape{kind: c8MapF64, elem: e, typ: reflect.MapOf(reflect.TypeFor[float64](), e.typ)}
	case k < 12:
		e := c8genShape(r, depth+1, 0)
		return &c8shape{kind: c8Slice, elem: e, typ: reflect.SliceOf(e.typ)}
	case k < 13:
		e := c8genShape(r, depth+1, 0)
		if e.kind == c8Ptr || e.kind == c8Any {
			return e
		}
		return &c8shape{kind: c8Ptr, elem: e, typ: reflect.PointerTo(e.typ)}
	}
	return &c8shape{kind: c8Any, typ: c8anyType}
}

// ---------------------------------------------------------------------------------------------
// JSON trees with the spelling of every string kept, annotated with the target zone:
//   't' typed position (sh != nil), 'a' decoded into `any`, 'r' inside a raw jsontext.Value (verbatim),
//   's' inside a skipped unknown member.

type c8mem struct {
	q       []byte // quoted name as spelled
	bounds  []int  // offsets in q where bytes may be inserted without splitting a unit
	name    string // unescaped
	val     *c8jv
	fld     *c8field // struct site: declared field this name resolves to
	unknown bool     // struct site: resolves to no declared field
}

type c8jv struct {
	k      byte // 'n' 'b' '0' '"' '[' '{'
	lit    []byte
	bounds []int
	elems  []*c8jv
	mem    []*c8mem
	sh     *c8shape
	zone   byte
	parent *c8jv
	pmem   *c8mem
}

func (v *c8jv) render(b []byte) []byte {
	switch v.k {
	case '[':
		b = append(b, '[')
		for i, e := range v.elems {
			if i > 0 {
				b = append(b, ',')
			}
			b = e.render(b)
		}
		return append(b, ']')
	case '{':
		b = append(b, '{')
		for i, m := range v.mem {
			if i > 0 {
				b = append(b, ',')
			}
			b = append(b, m.q...)
			b = append(b, ':')
			b = m.val.render(b)
		}
		return append(b, '}')
	}
	return append(b, v.lit...)
}

func (v *c8jv) link(parent *c8jv, pmem *c8mem) {
	v.parent, v.pmem = parent, pmem
	for _, e := range v.elems {
		e.link(v, nil)
	}
	for _, m := range v.mem {
		m.val.link(v, m)
	}
}

func (v *c8jv) walk(f func(*c8jv)) {
	f(v)
	for _, e := range v.elems {
		e.walk(f)
	}
	for _, m := range v.mem {
		m.val.walk(f)
	}
}

var c8strAlphabet = []rune("abcABkKsS01_-/\"\\ \n\t\u0000\u001f\u007fé€Ω 😀𝄞")

func c8randString(r *rand.Rand, maxLen int) string {
	n := r.IntN(maxLen + 1)
	var sb strings.Builder
	for i := 0; i < n; i++ {
		sb.WriteRune(c8strAlphabet[r.IntN(len(c8strAlphabet))])
	}
	return sb.String()
}

// c8quote spells s as a JSON string.  respell=false gives the minimal spelling; respell=true picks an
// escape form per character at random (short escape, \uXXXX with random hex case, surrogate pair, raw).
func c8quote(r *rand.Rand, s string, respell bool) ([]byte, []int) {
	b := []byte{'"'}
	bounds := []int{1}
	hexu := func(x rune) {
		const lo, up = "0123456789abcdef", "0123456789ABCDEF"
		b = append(b, '\\', 'u')
		for sh := 12; sh >= 0; sh -= 4 {
			d := (x >> uint(sh)) & 15
			if respell && r.IntN(2) == 0 {
				b = append(b, up[d])
			} else {
				b = append(b, lo[d])
			}
		}
	}
	for _, c := range s {
		short := byte(0)
		switch c {
		case '"':
			short = '"'
		case '\\':
			short = '\\'
		case '\b':
			short = 'b'
		case '\f':
			short = 'f'
		case '\n':
			short = 'n'
		case '\r':
			short = 'r'
		case '\t':
			short = 't'
		case '/':
			if respell && r.IntN(2) == 0 {
				short = '/'
			}
		}
		mustEsc := c < 0x20 || c == '"' || c == '\\'
		switch {
		case respell && r.IntN(3) == 0 || (mustEsc && short == 0):
			if c >= 0x10000 {
				c2 := c - 0x10000
				hexu(0xD800 + (c2 >> 10))
				hexu(0xDC00 + (c2 & 0x3FF))
			} else {
				hexu(c)
			}
		case short != 0 && (mustEsc || c == '/'):
			b = append(b, '\\', short)
		default:
			b = utf8.AppendRune(b, c)
		}
		bounds = append(bounds, len(b))
	}
	b = append(b, '"')
	return b, bounds
}

type c8gen struct {
	r     *rand.Rand
	ciAll bool // MatchCaseInsensitiveNames(true) is part of the call options
	big   int  // remaining budget of oversized objects in this text
}

func (g *c8gen) strNode(zone byte, sh *c8shape) *c8jv {
	lit, bounds := c8quote(g.r, c8randString(g.r, 6), g.r.IntN(3) == 0)
	return &c8jv{k: '"', lit: lit, bounds: bounds, zone: zone, sh: sh}
}

var c8numLits = []string{"0", "-0", "1", "2", "17", "-3", "1.5", "1e3", "-2E-2", "123456789012", "0.25", "1E+2"}

// free generates an untyped value (zones 'a', 'r', 's'); kind 0 = any kind, otherwise that kind.
func (g *c8gen) free(zone byte, depth int, kind byte) *c8jv {
	r := g.r
	if kind == 0 {
		p := r.IntN(10)
		switch {
		case depth >= 6 && p >= 6:
			p = r.IntN(6)
		}
		kind = "nb00\"\"[{{{"[p]
	}
	v := &c8jv{k: kind, zone: zone}
	switch kind {
	case 'n':
		v.lit = []byte("null")
	case 'b':
		v.lit = []byte([]string{"true", "false"}[r.IntN(2)])
	case '0':
		v.lit = []byte(c8numLits[r.IntN(len(c8numLits))])
	case '"':
		return g.strNode(zone, nil)
	case '[':
		n := r.IntN(4)
		if depth >= 6 {
			n = 0
		}
		for i := 0; i < n; i++ {
			v.elems = append(v.elems, g.free(zone, depth+1, 0))
		}
	case '{':
		n := r.IntN(5)
		long := false
		if depth >= 6 {
			n = 0
		} else if g.big > 0 && r.IntN(30) == 0 {
			g.big--
			if r.IntN(2) == 0 {
				n = 60 + r.IntN(40) // straddles the 64-name switch
			} else {
				n, long = 9+r.IntN(5), true // ~100-byte names: straddles the 1024-byte switch
			}
		}
		seen := map[string]bool{}
		for i := 0; i < n; i++ {
			var name string
			for tries := 0; ; tries++ {
				name = c8randString(r, 3)
				if long {
					name += strings.Repeat("n", 85+r.IntN(30))
				} else if n > 20 || tries > 5 {
					name += strconv.Itoa(i)
				}
				if zone != 'a' {
					name = "#" + name // never resolves to a declared field
				}
				if !seen[name] {
					break
				}
			}
			seen[name] = true
			q, bounds := c8quote(r, name, r.IntN(4) == 0)
			var val *c8jv
			if n > 20 {
				val = g.free(zone, 6, "nb0\""[r.IntN(4)])
			} else {
				val = g.free(zone, depth+1, 0)
			}
			v.mem = append(v.mem, &c8mem{q: q, bounds: bounds, name: name, val: val})
		}
	}
	return v
}

var c8floatKeys = []float64{0, 1, 2, 0.5, -1, 1000, 1.5, -2.25, 1e-7, 123456789, 1e21, 10, 3}

func c8null(zone byte, sh *c8shape) *c8jv {
	return &c8jv{k: 'n', lit: []byte("null"), zone: zone, sh: sh}
}

// c8variant respells a name for a case-insensitive field: case flips along unicode.SimpleFold orbits,
// inserted or removed '_' and '-'.
func c8variant(r *rand.Rand, name string) string {
	var out []rune
	for _, c := range name {
		if (c == '_' || c == '-') && r.IntN(3) == 0 {
			continue
		}
		if r.IntN(2) == 0 {
			for n := 1 + r.IntN(2); n > 0; n-- {
				c = unicode.SimpleFold(c)
			}
		}
		out = append(out, c)
		if r.IntN(5) == 0 {
			out = append(out, []rune{'_', '-'}[r.IntN(2)])
		}
	}
	return string(out)
}

func (g *c8gen) fieldIsCI(f *c8field) bool { return f.ci || (g.ciAll && !f.strict) }

// unknownVal generates the value of a struct member that resolves to no declared field.
func (g *c8gen) unknownVal(sh *c8shape, depth int, small bool) *c8jv {
	d := depth + 1
	if small {
		d = 6
	}
	switch sh.fb {
	case 0:
		return g.free('s', d, 0)
	case 1:
		return g.free('a', d, 0)
	case 2:
		return g.typed(sh.fbElem, d)
	}
	return g.free('r', d, 0)
}

// typed generates a value that the shape accepts without error.
func (g *c8gen) typed(sh *c8shape, depth int) *c8jv {
	r := g.r
	switch sh.kind {
	case c8Any:
		v := g.free('a', depth, 0)
		v.sh = sh
		return v
	case c8Raw:
		v := g.free('r', depth, 0)
		v.sh = sh
		return v
	case c8Int:
		return &c8jv{k: '0', lit: []byte(strconv.Itoa(r.IntN(2000) - 1000)), zone: 't', sh: sh}
	case c8F64:
		return &c8jv{k: '0', lit: []byte(c8numLits[r.IntN(len(c8numLits))]), zone: 't', sh: sh}
	case c8Bool:
		return &c8jv{k: 'b', lit: []byte([]string{"true", "false"}[r.IntN(2)]), zone: 't', sh: sh}
	case c8Str:
		return g.strNode('t', sh)
	case c8Slice:
		if r.IntN(10) == 0 {
			return c8null('t', sh)
		}
		v := &c8jv{k: '[', zone: 't', sh: sh}
		n := r.IntN(4)
		if depth >= 6 {
			n = 0
		}
		for i := 0; i < n; i++ {
			v.elems = append(v.elems, g.typed(sh.elem, depth+1))
		}
		return v
	case c8Ptr:
		if r.IntN(5) == 0 {
			return c8null('t', sh)
		}
		v := g.typed(sh.elem, depth)
		return v
	case c8MapStr, c8MapInt, c8MapU8, c8MapF64:
		if r.IntN(20) == 0 {
			return c8null('t', sh)
		}
		v := &c8jv{k: '{', zone: 't', sh: sh}
		n := r.IntN(5)
		if depth >= 6 {
			n = 0
		}
		seen := map[string]bool{}
		for i := 0; i < n; i++ {
			var name string
			switch sh.kind {
			case c8MapStr:
				name = c8randString(r, 3)
			case c8MapInt:
				name = strconv.Itoa(r.IntN(24) - 3)
				if r.IntN(8) == 0 {
					name = strconv.FormatInt(r.Int64()-r.Int64(), 10)
				}
			case c8MapU8:
				name = strconv.Itoa(r.IntN(256))
			case c8MapF64:
				name = strconv.FormatFloat(c8floatKeys[r.IntN(len(c8floatKeys))], 'g', -1, 64)
			}
			if seen[name] {
				continue
			}
			seen[name] = true
			q, bounds := c8quote(r, name, sh.kind == c8MapStr && r.IntN(4) == 0)
			v.mem = append(v.mem, &c8mem{q: q, bounds: bounds, name: name, val: g.typed(sh.elem, depth+1)})
		}
		return v
	case c8Struct:
		if r.IntN(30) == 0 {
			return c8null('t', sh)
		}
		v := &c8jv{k: '{', zone: 't', sh: sh}
		if depth >= 6 {
			return v
		}
		nf := len(sh.fields)
		p := 0.6
		if nf > 20 {
			p = 8.0 / float64(nf)
		}
		for _, f := range sh.fields {
			if r.Float64() >= p {
				continue
			}
			name := f.name
			if g.fieldIsCI(f) && r.IntN(2) == 0 {
				name = c8variant(r, name)
			}
			q, bounds := c8quote(r, name, r.IntN(4) == 0)
			v.mem = append(v.mem, &c8mem{q: q, bounds: bounds, name: name, val: g.typed(f.sh, depth+1), fld: f})
		}
		nu := 0
		switch r.IntN(4) {
		case 0:
			nu = 1
		case 1:
			nu = 2
		}
		small := false
		if g.big > 0 && depth <= 3 && r.IntN(25) == 0 {
			g.big--
			nu, small = 62+r.IntN(30), true // unknown names alone push the struct's namespace into map mode
		}
		seen := map[string]bool{}
		for i := 0; i < nu; i++ {
			name := "#" + c8randString(r, 3)
			if small {
				name += strconv.Itoa(i)
			}
			if seen[name] {
				continue
			}
			seen[name] = true
			q, bounds := c8quote(r, name, r.IntN(4) == 0)
			v.mem = append(v.mem, &c8mem{q: q, bounds: bounds, name: name, val: g.unknownVal(sh, depth, small), unknown: true})
		}
		r.Shuffle(len(v.mem), func(i, j int) { v.mem[i], v.mem[j] = v.mem[j], v.mem[i] })
		return v
	}
	fail("C08: unknown shape kind %d", sh.kind)
	return nil
}

// ---------------------------------------------------------------------------------------------
// Canonical dump of a decoded Go value (map keys sorted, floats as bits, raw values after rawfix and a
// stable sort of their top-level members by unescaped name).

func c8sortRawTop(b []byte) []byte {
	s := &c8scanner{b: b}
	s.ws()
	if s.i >= len(b) || b[s.i] != '{' {
		return b
	}
	s.i++
	type mem struct {
		name string
		text []byte
	}
	var ms []mem
	s.ws()
	if s.i < len(b) && b[s.i] == '}' {
		return b
	}
	for {
		s.ws()
		st := s.i
		n, ok := s.str()
		if !ok {
			return b
		}
		s.ws()
		if s.i >= len(b) || b[s.i] != ':' {
			return b
		}
		s.i++
		if !s.value(1) {
			return b
		}
		ms = append(ms, mem{n, b[st:s.i]})
		s.ws()
		if s.i < len(b) && b[s.i] == ',' {
			s.i++
			continue
		}
		break
	}
	sort.SliceStable(ms, func(i, j int) bool { return ms[i].name < ms[j].name })
	out := []byte{'{'}
	for i, m := range ms {
		if i > 0 {
			out = append(out, ',')
		}
		out = append(out, m.text...)
	}
	return append(out, '}')
}

type c8dumper struct {
	b      []byte
	rawfix func([]byte) []byte
}

const c8hexdigits = "0123456789abcdef"

func (d *c8dumper) hex(b []byte) {
	for _, c := range b {
		d.b = append(d.b, c8hexdigits[c>>4], c8hexdigits[c&15])
	}
}

func (d *c8dumper) dump(v reflect.Value) {
	if !v.IsValid() {
		d.b = append(d.b, "nil"...)
		return
	}
	if v.Type() == c8rawType {
		b := v.Bytes()
		if v.IsNil() {
			d.b = append(d.b, "rawnil"...)
			return
		}
		if d.rawfix != nil {
			b = d.rawfix(b)
		}
		d.b = append(d.b, "raw("...)
		d.hex(c8sortRawTop(b))
		d.b = append(d.b, ')')
		return
	}
	switch v.Kind() {
	case reflect.Interface:
		if v.IsNil() {
			d.b = append(d.b, "nil"...)
			return
		}
		d.b = append(d.b, "i:"...)
		d.dump(v.Elem())
	case reflect.Pointer:
		if v.IsNil() {
			d.b = append(d.b, "nilptr"...)
			return
		}
		d.b = append(d.b, '&')
		d.dump(v.Elem())
	case reflect.Map:
		if v.IsNil() {
			d.b = append(d.b, "nilmap"...)
			return
		}
		type kv struct{ k, v string }
		kvs := make([]kv, 0, v.Len())
		sub := &c8dumper{rawfix: d.rawfix}
		for it := v.MapRange(); it.Next(); {
			sub.b = sub.b[:0]
			sub.dump(it.Key())
			k := string(sub.b)
			sub.b = sub.b[:0]
			sub.dump(it.Value())
			kvs = append(kvs, kv{k, string(sub.b)})
		}
		sort.Slice(kvs, func(i, j int) bool { return kvs[i].k < kvs[j].k })
		d.b = append(d.b, "map{"...)
		for _, e := range kvs {
			d.b = append(append(append(append(d.b, e.k...), "=>"...), e.v...), ';')
		}
		d.b = append(d.b, '}')
	case reflect.Slice:
		if v.IsNil() {
			d.b = append(d.b, "nilslice"...)
			return
		}
		d.b = append(d.b, '[')
		for i := 0; i < v.Len(); i++ {
			d.dump(v.Index(i))
			d.b = append(d.b, ',')
		}
		d.b = append(d.b, ']')
	case reflect.Struct:
		d.b = append(d.b, '{')
		for i := 0; i < v.NumField(); i++ {
			if f := v.Field(i); !f.IsZero() {
				d.b = append(strconv.AppendInt(d.b, int64(i), 10), ':')
				d.dump(f)
				d.b = append(d.b, ',')
			}
		}
		d.b = append(d.b, '}')
	case reflect.String:
		d.b = append(d.b, 's')
		d.hex([]byte(v.String()))
	case reflect.Bool:
		d.b = strconv.AppendBool(append(d.b, 'b'), v.Bool())
	case reflect.Int, reflect.Int8, reflect.Int16, reflect.Int32, reflect.Int64:
		d.b = strconv.AppendInt(append(d.b, 'd'), v.Int(), 10)
	case reflect.Uint, reflect.Uint8, reflect.Uint16, reflect.Uint32, reflect.Uint64:
		d.b = strconv.AppendUint(append(d.b, 'u'), v.Uint(), 10)
	case reflect.Float32, reflect.Float64:
		d.b = strconv.AppendUint(append(d.b, 'f'), math.Float64bits(v.Float()), 16)
	default:
		d.b = append(d.b, '?')
	}
}

func c8dump(v reflect.Value, rawfix func([]byte) []byte) string {
	d := &c8dumper{rawfix: rawfix}
	d.dump(v)
	return string(d.b)
}

// ---------------------------------------------------------------------------------------------
// Entry points.

type c8res struct {
	err error
	val reflect.Value // pointer to the target
	pan any
}

type c8chunkReader struct {
	b []byte
	n int
}

func (c *c8chunkReader) Read(p []byte) (int, error) {
	if len(c.b) == 0 {
		return 0, io.EOF
	}
	n := min(c.n, len(p), len(c.b))
	copy(p, c.b[:n])
	c.b = c.b[n:]
	return n, nil
}

const c8numEntries = 4
const c8numBigShapes = 18

var c8entryName = []string{"Unmarshal", "UnmarshalRead", "UnmarshalDecode(dec opts)", "UnmarshalDecode(call opts)"}

// c8unmarshalInto runs one entry point; target is a pointer value.
func c8unmarshalInto(entry int, target reflect.Value, text []byte, opts []json.Options) (res c8res) {
	res.val = target
	res.pan = guard(func() {
		switch entry {
		case 0:
			res.err = json.Unmarshal(text, target.Interface(), opts...)
		case 1:
			chunk := 1 + len(text)%7
			if len(text) > 600 {
				chunk = 64 + len(text)%100
			}
			res.err = json.UnmarshalRead(&c8chunkReader{b: text, n: chunk}, target.Interface(), opts...)
		case 2, 3:
			var dec *jsontext.Decoder
			if entry == 2 {
				dec = jsontext.NewDecoder(bytes.NewReader(text), opts...)
				res.err = json.UnmarshalDecode(dec, target.Interface())
			} else {
				dec = jsontext.NewDecoder(bytes.NewReader(text))
				res.err = json.UnmarshalDecode(dec, target.Interface(), opts...)
			}
			if res.err == nil {
				if _, err := dec.ReadToken(); err != io.EOF {
					res.err = fmt.Errorf("trailing data after value: %v", err)
				}
			}
		}
	})
	return res
}

func c8unmarshal(entry int, typ reflect.Type, text []byte, opts ...json.Options) c8res {
	return c8unmarshalInto(entry, reflect.New(typ), text, opts)
}

func c8errClassNoPtr(err error) string {
	s := c8errClass(err)
	if i := strings.IndexByte(s, '/'); i >= 0 {
		return s[:i]
	}
	return s
}

// c8errClass: class + offset + pointer, never the message text.
func c8errClass(err error) string {
	if err == nil {
		return "ok"
	}
	var syn *jsontext.SyntacticError
	if errors.As(err, &syn) {
		cls := "syn"
		if errors.Is(err, jsontext.ErrDuplicateName) {
			cls = "dup"
		}
		return fmt.Sprintf("%s@%d%s", cls, syn.ByteOffset, syn.JSONPointer)
	}
	var sem *json.SemanticError
	if errors.As(err, &sem) {
		return fmt.Sprintf("sem@%d%s", sem.ByteOffset, sem.JSONPointer)
	}
	if err == io.EOF || err == io.ErrUnexpectedEOF {
		return "eof"
	}
	return "other"
}

// ---------------------------------------------------------------------------------------------
// Duplicate injection.

type c8inj struct {
	site   *c8jv
	i1, i2 int    // indices of the colliding members after injection, i1 < i2
	how    string // same | escape | case | numeric
	oracle string // clean | rawpatch | seq | tree
	hasArr bool
	depth  int
}

// c8collide returns a name that collides with member m of the site (spelling, unescaped name, how).
func (g *c8gen) collide(site *c8jv, m *c8mem) (q []byte, bounds []int, name, how string) {
	r := g.r
	name, how = m.name, "same"
	numeric := false
	if site.zone == 't' && site.sh != nil {
		switch site.sh.kind {
		case c8MapInt:
			if m.name == "0" && r.IntN(2) == 0 {
				name, how, numeric = "-0", "numeric", true
			} else if m.name == "-0" {
				name, how, numeric = "0", "numeric", true
			}
		case c8MapF64:
			if r.IntN(4) > 0 {
				s := m.name
				switch {
				case s == "0" && r.IntN(2) == 0:
					name = "-0"
				case s == "-0":
					name = "0"
				case !strings.ContainsAny(s, ".eE"):
					name = s + []string{".0", "e0", "E+0", ".00e-0", "e-0"}[r.IntN(5)]
				case !strings.ContainsAny(s, "eE"):
					name = s + []string{"0", "e0", "00E+0"}[r.IntN(3)]
				default:
					name = strings.Replace(s, "e", "E", 1)
					if name == s {
						name = strings.Replace(s, "E", "e", 1)
					}
				}
				how, numeric = "numeric", true
			}
		case c8Struct:
			if m.fld != nil && g.fieldIsCI(m.fld) && r.IntN(3) > 0 {
				name = c8variant(r, m.fld.name)
				if name != m.name {
					how = "case"
				}
			}
		}
	}
	if !numeric && how == "same" && r.IntN(2) == 0 {
		q, bounds = c8quote(r, name, true)
		if !bytes.Equal(q, m.q) {
			how = "escape"
		}
		return q, bounds, name, how
	}
	if how == "same" {
		return m.q, m.bounds, name, how
	}
	q, bounds = c8quote(r, name, r.IntN(3) == 0)
	return q, bounds, name, how
}

// c8valueFor generates another value for the position of member m of the site.
func (g *c8gen) valueFor(site *c8jv, m *c8mem, depth int) *c8jv {
	if site.zone != 't' {
		kind := byte(0)
		if site.zone == 'a' && m.val.k != 'n' && g.r.IntN(5) > 0 {
			kind = m.val.k // `any` holding a bool/number/string/array/object only accepts the same kind again
		}
		return g.free(site.zone, depth+1, kind)
	}
	switch site.sh.kind {
	case c8MapStr, c8MapInt, c8MapU8, c8MapF64:
		return g.sameKindIfAny(site.sh.elem, m.val, depth)
	case c8Struct:
		if m.fld != nil {
			return g.sameKindIfAny(m.fld.sh, m.val, depth)
		}
		if site.sh.fb == 2 {
			return g.sameKindIfAny(site.sh.fbElem, m.val, depth)
		}
		v := g.unknownVal(site.sh, depth, false)
		if site.sh.fb == 1 && m.val.k != 'n' && g.r.IntN(5) > 0 {
			v = g.free('a', depth+1, m.val.k)
		}
		return v
	}
	fail("C08: valueFor on %v", site.sh)
	return nil
}

func (g *c8gen) sameKindIfAny(sh *c8shape, old *c8jv, depth int) *c8jv {
	for sh.kind == c8Ptr {
		if g.r.IntN(6) == 0 {
			return c8null('t', sh)
		}
		sh = sh.elem
	}
	if sh.kind == c8Any && old.k != 'n' && g.r.IntN(5) > 0 {
		v := g.free('a', depth+1, old.k)
		v.sh = sh
		return v
	}
	return g.typed(sh, depth+1)
}

func c8depth(v *c8jv) (d int, hasArr bool) {
	for p := v; p.parent != nil; p = p.parent {
		d++
		if p.parent.k == '[' {
			hasArr = true
		}
	}
	return
}

// c8sameGoKind: would the two JSON values be stored in the same Go type inside an `any`?
func c8anyCompatible(first, second *c8jv) bool {
	return first.k == 'n' || second.k == 'n' || first.k == second.k
}

// inject adds one colliding member to a random object of the tree (which must be linked).
// c8switchIndex: index of the member whose name makes the object cross the namespace's linear->map switch
// (more than 64 names or more than 1024 bytes of unquoted names), -1 if the object never crosses it.
func c8switchIndex(v *c8jv) int {
	total := 0
	for i, m := range v.mem {
		total += len(m.name)
		if i+1 > 64 || total > 1024 {
			return i
		}
	}
	return -1
}

func (g *c8gen) inject(root *c8jv) *c8inj {
	var sites []*c8jv
	root.walk(func(v *c8jv) {
		if v.k == '{' && len(v.mem) > 0 {
			sites = append(sites, v)
		}
	})
	if len(sites) == 0 {
		return nil
	}
	r := g.r
	site := sites[r.IntN(len(sites))]
	if r.IntN(3) == 0 { // bias towards the deepest sites
		best, bd := site, -1
		for k := 0; k < 3; k++ {
			s := sites[r.IntN(len(sites))]
			if d, _ := c8depth(s); d > bd {
				best, bd = s, d
			}
		}
		site = best
	}
	// boundary bias: the coder's namespace changes representation after 64 names or 1024 bytes of names; half of
	// the time prefer a site wide enough to cross that switch and repeat the name recorded right at the switch
	// (the last one of the linear phase / the first ones of the map phase), with the repeat placed after it.
	boundary := -1
	if r.IntN(2) == 0 {
		for _, s := range sites {
			if b := c8switchIndex(s); b >= 0 {
				site, boundary = s, b
				break
			}
		}
	}
	oi := r.IntN(len(site.mem))
	if boundary >= 0 {
		oi = min(len(site.mem)-1, max(0, boundary-1+r.IntN(3)))
	}
	om := site.mem[oi]
	inj := &c8inj{site: site}
	inj.depth, inj.hasArr = c8depth(site)

	// which oracle gives the expected value under AllowDuplicateNames
	switch {
	case site.zone == 's':
		inj.oracle = "clean"
	case site.zone == 'r':
		inj.oracle = "rawpatch"
	case site.zone == 't' && site.sh.kind == c8Struct && om.unknown && site.sh.fb == 0:
		inj.oracle = "clean"
	case site.zone == 't' && site.sh.kind == c8Struct && om.unknown && site.sh.fb == 3:
		inj.oracle = "rawpatch"
	case inj.hasArr:
		inj.oracle = "tree"
	default:
		inj.oracle = "seq"
	}

	q, bounds, name, how := g.collide(site, om)
	inj.how = how
	nv := g.valueFor(site, om, inj.depth)
	pos := r.IntN(len(site.mem) + 1)
	if boundary >= 0 {
		pos = len(site.mem) - r.IntN(min(3, len(site.mem)-oi))
	}
	if inj.oracle == "tree" {
		// the tree-merge expectation is only defined when the two values do not merge member-wise
		// and (inside `any`) when the second value is accepted by the Go type chosen for the first
		first, second := nv, om.val
		if pos > oi {
			first, second = om.val, nv
		}
		isAny := site.zone == 'a' || nv.zone == 'a' || om.val.zone == 'a'
		if (first.k == '{' && second.k == '{') || (isAny && !c8anyCompatible(first, second)) {
			nv = c8null(om.val.zone, om.val.sh)
		}
	}
	nm := &c8mem{q: q, bounds: bounds, name: name, val: nv, fld: om.fld, unknown: om.unknown}
	site.mem = append(site.mem, nil)
	copy(site.mem[pos+1:], site.mem[pos:])
	site.mem[pos] = nm
	nv.link(site, nm)
	if pos <= oi {
		inj.i1, inj.i2 = pos, oi+1
	} else {
		inj.i1, inj.i2 = oi, pos
	}
	return inj
}

// renderWithout renders the root with member idx of the site removed (and optionally member repl replaced
// by val: a Go map keeps the key of the later assignment, e.g. +0 after -0).
func c8renderWithout(root, site *c8jv, idx int, repl int, val *c8mem) []byte {
	saved := site.mem
	var mem []*c8mem
	for i, m := range saved {
		if i == idx {
			continue
		}
		if i == repl {
			m = val
		}
		mem = append(mem, m)
	}
	site.mem = mem
	out := root.render(nil)
	site.mem = saved
	return out
}

// c8pathOnly renders the chain of objects from the root down to the site with only member idx in the site.
func c8pathOnly(site *c8jv, idx int) []byte {
	m := site.mem[idx]
	cur := append(append(append([]byte{'{'}, m.q...), ':'), m.val.render(nil)...)
	cur = append(cur, '}')
	for p := site; p.parent != nil; p = p.parent {
		if p.pmem == nil {
			fail("C08: pathOnly through an array")
		}
		w := append(append([]byte{'{'}, p.pmem.q...), ':')
		w = append(w, cur...)
		cur = append(w, '}')
	}
	return cur
}

// c8fallbackText renders what an embedded jsontext.Value fallback holds after decoding the struct site.
func c8fallbackText(site *c8jv, skip int) []byte {
	b := []byte{'{'}
	first := true
	for i, m := range site.mem {
		if i == skip || !m.unknown {
			continue
		}
		if !first {
			b = append(b, ',')
		}
		first = false
		b = append(b, m.q...)
		b = append(b, ':')
		b = m.val.render(b)
	}
	return append(b, '}')
}

// ---------------------------------------------------------------------------------------------
// The decode-side predicate for one generated case.

type c8case struct {
	sh    *c8shape
	ciAll bool
	clean []byte
	root  *c8jv
}

func (cs *c8case) opts(extra ...json.Options) []json.Options {
	var o []json.Options
	if cs.ciAll {
		o = append(o, c8CI)
	}
	return append(o, extra...)
}

func c8detail(cs *c8case, kv ...any) map[string]any {
	d := map[string]any{"type": cs.sh.typ.String(), "shape": cs.sh.String(), "matchCaseInsensitiveNames": cs.ciAll}
	for i := 0; i+1 < len(kv); i += 2 {
		switch x := kv[i+1].(type) {
		case []byte:
			d[kv[i].(string)] = trunc(string(x), 2000)
		case error:
			if x == nil {
				d[kv[i].(string)] = nil
			} else {
				d[kv[i].(string)] = x.Error()
			}
		default:
			d[kv[i].(string)] = x
		}
	}
	return d
}

func c8decodeCase(c *Ctx, r *rand.Rand, shapes []*c8shape) {
	sh := shapes[r.IntN(len(shapes))]
	if r.IntN(8) == 0 {
		sh = shapes[r.IntN(c8numBigShapes)] // structs with 66..200 declared fields
	}
	g := &c8gen{r: r, ciAll: r.IntN(5) == 0, big: 1}
	var root *c8jv
	for tries := 0; tries < 6; tries++ {
		root = g.typed(sh, 0)
		hasSite := false
		root.walk(func(v *c8jv) { hasSite = hasSite || (v.k == '{' && len(v.mem) > 0) })
		if hasSite {
			break
		}
	}
	root.link(nil, nil)
	cs := &c8case{sh: sh, ciAll: g.ciAll, root: root}
	cs.clean = root.render(nil)
	if ok, dup, bad := c8scan(cs.clean); !ok || dup || bad {
		fail("C08 generator: clean text is not clean (ok=%v dup=%v bad=%v): %s", ok, dup, bad, cs.clean)
	}
	if len(cs.clean) > 1500 {
		c.Hit("clean-text>1500B")
	}

	// the clean text is accepted by every entry point, with and without AllowDuplicateNames, with the same value
	ref := c8unmarshal(0, sh.typ, cs.clean, cs.opts()...)
	if ref.pan != nil {
		c.Panic("Unmarshal", cs.clean, ref.pan, c8detail(cs))
		return
	}
	if ref.err != nil {
		c.Violate("reject-clean", "Unmarshal", cs.clean, c8detail(cs, "text", cs.clean, "err", ref.err))
		return
	}
	refDump := c8dump(ref.val.Elem(), nil)
	for e := 0; e < c8numEntries; e++ {
		for _, ad := range []bool{e%2 == 0 || r.IntN(2) == 0} {
			o := cs.opts()
			if ad {
				o = cs.opts(c8AD)
			}
			res := c8unmarshal(e, sh.typ, cs.clean, o...)
			if res.pan != nil {
				c.Panic(c8entryName[e], cs.clean, res.pan, c8detail(cs, "allowDuplicateNames", ad))
				continue
			}
			if res.err != nil {
				c.Violate("reject-clean", c8entryName[e], cs.clean, c8detail(cs, "text", cs.clean, "err", res.err, "allowDuplicateNames", ad))
				continue
			}
			if d := c8dump(res.val.Elem(), nil); d != refDump {
				c.Violate("option-changes-clean-result", c8entryName[e], cs.clean, c8detail(cs, "text", cs.clean, "allowDuplicateNames", ad, "got", trunc(d, 600), "want", trunc(refDump, 600)))
			}
		}
	}

	c8errorEquality(c, r, cs)
	c8utf8Case(c, r, cs, g)
	pre := g.prepopulation(cs.root)
	c8dupCase(c, r, cs, g, refDump, pre)
}

// c8errorEquality: on duplicate-free input that fails for another reason, AllowDuplicateNames changes nothing.
func c8errorEquality(c *Ctx, r *rand.Rand, cs *c8case) {
	var leaves []*c8jv
	cs.root.walk(func(v *c8jv) {
		if v.k != '{' && v.k != '[' {
			leaves = append(leaves, v)
		}
	})
	var text []byte
	if len(leaves) == 0 || r.IntN(4) == 0 {
		if len(cs.clean) < 2 {
			return
		}
		text = cs.clean[:1+r.IntN(len(cs.clean)-1)]
		c.Hit("errtext:truncated")
	} else {
		lf := leaves[r.IntN(len(leaves))]
		saved := lf.lit
		repl := []string{`tru`, `01`, `1.`, `"\x"`, `"s"`, `1`, `true`, `[]`, `{}`, `[1,]`, `nul`, `-`, `"a" 1`}
		lf.lit = []byte(repl[r.IntN(len(repl))])
		text = cs.root.render(nil)
		lf.lit = saved
		c.Hit("errtext:leaf-replaced")
	}
	e := r.IntN(c8numEntries)
	a := c8unmarshal(e, cs.sh.typ, text, cs.opts()...)
	b := c8unmarshal(e, cs.sh.typ, text, cs.opts(c8AD)...)
	if a.pan != nil || b.pan != nil {
		c.Panic(c8entryName[e], text, fmt.Sprint(a.pan, b.pan), c8detail(cs, "text", text))
		return
	}
	ca, cb := c8errClass(a.err), c8errClass(b.err)
	if ca != cb && c8errClassNoPtr(a.err) == c8errClassNoPtr(b.err) {
		// DESIGN.md §4: outside C05/C16 errors are compared by class (+offset); a JSONPointer that differs for the
		// same error at the same offset on a streaming decoder is the stale-name defect D3 owned by C05/C16.
		c.Hit("errtext:same-error-different-pointer(see C16/D3)")
		cb = ca
	}
	da, db := c8dump(a.val.Elem(), nil), c8dump(b.val.Elem(), nil)
	c.Hit("errtext-class:" + strings.SplitN(ca, "@", 2)[0])
	c.Case("E"+string(text), a.err != nil)
	if a.err != nil && ca == cb && da != db {
		// after a failed call the partial content of the target is unspecified: `any` values are built by a
		// different code path when AllowDuplicateNames is set (arshal_default.go:1905) and the two paths leave
		// different partial values behind.  Recorded, not judged.
		c.Hit("errtext:partial-value-after-error-differs")
		db = da
	}
	if ca != cb || da != db {
		c.Violate("option-changes-dupfree-result", c8entryName[e], text, c8detail(cs, "text", text, "default", ca, "allowDuplicateNames", cb,
			"defaultErr", a.err, "allowErr", b.err, "defaultVal", trunc(da, 400), "allowVal", trunc(db, 400)))
	}
}

func (cs *c8case) sampleKey(inj *c8inj) string {
	return fmt.Sprintf("%s|%s|%s|%s", cs.sh.typ.String(), inj.how, inj.oracle, cs.root.render(nil))
}

func c8siteClass(site *c8jv, m *c8mem) string {
	switch site.zone {
	case 'a':
		return "any"
	case 'r':
		return "raw"
	case 's':
		return "skipped"
	}
	if site.sh.kind == c8Struct {
		if m.fld != nil {
			return "struct-field"
		}
		return fmt.Sprintf("struct-unknown(fb=%d)", site.sh.fb)
	}
	return c8kindName[site.sh.kind]
}

// c8mustAccept unmarshals (default options, entry point Unmarshal) a text that the generator built to be valid for the
// type and duplicate-free.  The text is first checked with the harness's own scanner: a wrong text is a bug of the
// generator (machinery failure).  A rejection or a panic by the LIBRARY is a violation of the property itself
// ("the un-injected text is accepted") and is reported as such; the caller then abandons the case.
func c8mustAccept(c *Ctx, cs *c8case, what string, target reflect.Value, text []byte) bool {
	if ok, dup, bad := c8scan(text); !ok || dup || bad {
		fail("C08 generator: %s text is not clean (ok=%v dup=%v bad=%v): %s", what, ok, dup, bad, text)
	}
	res := c8unmarshalInto(0, target, text, cs.opts())
	if res.pan != nil {
		c.Panic("Unmarshal("+what+")", text, res.pan, c8detail(cs, "text", text))
		return false
	}
	if res.err != nil {
		c.Violate("reject-clean", "Unmarshal("+what+")", text, c8detail(cs, "text", text, "err", res.err))
		return false
	}
	return true
}

func c8dupCase(c *Ctx, r *rand.Rand, cs *c8case, g *c8gen, cleanDump string, pre *c8pre) {
	inj := g.inject(cs.root)
	if inj == nil {
		c.Hit("no-object-site")
		return
	}
	site := inj.site
	m1, m2 := site.mem[inj.i1], site.mem[inj.i2]
	text := cs.root.render(nil)
	ok, dup, bad := c8scan(text)
	if !ok || bad || dup != (m1.name == m2.name) {
		fail("C08 generator: injected text wrong (ok=%v dup=%v bad=%v names %q %q): %s", ok, dup, bad, m1.name, m2.name, text)
	}
	cls := c8siteClass(site, m1)
	c.Hit("site:" + cls)
	c.Hit("how:" + inj.how)
	c.Hit("oracle:" + inj.oracle)
	c.Hit(fmt.Sprintf("site-depth:%d", inj.depth))
	c.Hit("target:" + c8kindName[cs.sh.kind])
	if len(site.mem) > 65 {
		c.Hit("site-members>65")
	}
	if m1.fld != nil {
		switch {
		case m1.fld.id >= 192:
			c.Hit("field-id>=192")
		case m1.fld.id >= 128:
			c.Hit("field-id>=128")
		case m1.fld.id >= 64:
			c.Hit("field-id>=64")
		}
	}
	c.Case(cs.sampleKey(inj), true)
	if r.IntN(2000) == 0 {
		c.Sample(map[string]any{"type": trunc(cs.sh.typ.String(), 300), "text": trunc(string(text), 400), "site": cls, "how": inj.how, "oracle": inj.oracle})
	}

	// default options: rejected with ErrDuplicateName by every entry point
	for e := 0; e < c8numEntries; e++ {
		res := c8unmarshal(e, cs.sh.typ, text, cs.opts()...)
		if res.pan != nil {
			c.Panic(c8entryName[e], text, res.pan, c8detail(cs, "text", text, "site", cls, "how", inj.how))
			continue
		}
		if res.err == nil {
			c.Violate("accept-duplicate", c8entryName[e], text, c8detail(cs, "text", text, "site", cls, "how", inj.how,
				"names", []string{m1.name, m2.name}, "value", trunc(c8dump(res.val.Elem(), nil), 600)))
		} else if !errors.Is(res.err, jsontext.ErrDuplicateName) {
			c.Violate("duplicate-wrong-error-class", c8entryName[e], text, c8detail(cs, "text", text, "site", cls, "how", inj.how, "err", res.err))
		}
	}

	first := c8renderWithout(cs.root, site, inj.i2, -1, nil)
	c8prepopulated(c, r, cs, pre, inj, text, first)

	// expected value under AllowDuplicateNames, computed with DEFAULT options on duplicate-free texts
	var want string
	var wantErr bool
	var rawfix func([]byte) []byte
	nrepl := 0
	switch inj.oracle {
	case "clean":
		target := reflect.New(cs.sh.typ)
		if !c8mustAccept(c, cs, "text without the later member", target, first) {
			return
		}
		want = c8dump(target.Elem(), nil)
	case "rawpatch":
		var r1, r2 []byte
		if site.zone == 'r' {
			r2 = site.render(nil)
			saved := site.mem
			site.mem = append(append([]*c8mem{}, saved[:inj.i2]...), saved[inj.i2+1:]...)
			r1 = site.render(nil)
			site.mem = saved
		} else {
			r1, r2 = c8fallbackText(site, inj.i2), c8fallbackText(site, -1)
		}
		target := reflect.New(cs.sh.typ)
		if !c8mustAccept(c, cs, "text without the later member", target, first) {
			return
		}
		want = c8dump(target.Elem(), nil)
		rawfix = func(b []byte) []byte {
			if n := bytes.Count(b, r2); n > 0 {
				nrepl += n
				return bytes.Replace(b, r2, r1, -1)
			}
			return b
		}
	case "seq":
		second := c8pathOnly(site, inj.i2)
		if ok, dup, bad := c8scan(second); !ok || dup || bad {
			fail("C08 generator: path-only text wrong: %s", second)
		}
		target := reflect.New(cs.sh.typ)
		if !c8mustAccept(c, cs, "text without the later member", target, first) {
			return
		}
		res := c8unmarshalInto(0, target, second, cs.opts())
		if res.pan != nil {
			c.Panic("Unmarshal(merge)", second, res.pan, c8detail(cs, "first", first, "second", second))
			return
		}
		wantErr = res.err != nil
		want = c8dump(target.Elem(), nil)
	case "tree":
		merged := c8renderWithout(cs.root, site, inj.i2, inj.i1, m2)
		target := reflect.New(cs.sh.typ)
		if !c8mustAccept(c, cs, "text with the later member in place of the earlier", target, merged) {
			return
		}
		want = c8dump(target.Elem(), nil)
	}
	if wantErr {
		c.Hit("allow-dup:merge-error-expected")
	}
	for e := 0; e < c8numEntries; e++ {
		nrepl = 0
		res := c8unmarshal(e, cs.sh.typ, text, cs.opts(c8AD)...)
		if res.pan != nil {
			c.Panic(c8entryName[e]+"+AllowDuplicateNames", text, res.pan, c8detail(cs, "text", text))
			continue
		}
		if (res.err != nil) != wantErr {
			c.Violate("allow-duplicate-outcome", c8entryName[e], text, c8detail(cs, "text", text, "site", cls, "how", inj.how, "oracle", inj.oracle,
				"err", res.err, "expectedError", wantErr))
			continue
		}
		if wantErr {
			continue // both fail (a later member that the Go value chosen for the earlier one cannot hold)
		}
		got := c8dump(res.val.Elem(), rawfix)
		if got != want || (inj.oracle == "rawpatch" && nrepl != 1) {
			c.Violate("allow-duplicate-value", c8entryName[e], text, c8detail(cs, "text", text, "site", cls, "how", inj.how, "oracle", inj.oracle,
				"got", trunc(got, 800), "want", trunc(want, 800), "rawReplacements", nrepl, "first", first))
		}
	}
}

// ---------------------------------------------------------------------------------------------
// Pre-populated targets.  Every shape is also exercised with a destination that already holds data: maps of
// every key kind with existing entries (some sharing names with the input, some not), structs with non-zero
// fields, non-nil pointers, `any` holding map[string]any / []any, fallback maps and raw fallbacks that already
// hold members.  The destination is produced (1) by unmarshaling a duplicate-free variant of the clean text and
// (2) by direct construction with reflect from the same tree, without the library.

type c8pre struct {
	root    *c8jv
	text    []byte
	kept    map[*c8mem]bool // members of the clean tree that also exist in the pre-populating tree
	keptObj map[*c8jv]bool  // objects of the clean tree whose counterpart in the pre-populating tree is an object
}

func (g *c8gen) prepopulation(root *c8jv) *c8pre {
	p := &c8pre{kept: map[*c8mem]bool{}, keptObj: map[*c8jv]bool{}}
	p.root = g.prevariant(root, 0, p, true)
	p.root.link(nil, nil)
	p.text = p.root.render(nil)
	if ok, dup, bad := c8scan(p.text); !ok || dup || bad {
		fail("C08 generator: pre-populating text is not clean (ok=%v dup=%v bad=%v): %s", ok, dup, bad, p.text)
	}
	return p
}

// another value for the same position and, inside `any`, of the same JSON kind (so that the clean text still
// merges into it without a type error)
func (g *c8gen) regen(v *c8jv, depth int) *c8jv {
	if v.zone == 't' && v.sh != nil {
		return g.typed(v.sh, depth)
	}
	kind := v.k
	if kind == 'n' {
		kind = 0
	}
	nv := g.free(v.zone, depth, kind)
	nv.sh = v.sh
	return nv
}

func c8numEq(a, b string) bool {
	x, e1 := strconv.ParseFloat(a, 64)
	y, e2 := strconv.ParseFloat(b, 64)
	return e1 == nil && e2 == nil && x == y
}

// prevariant derives the pre-populating tree from the clean tree: members are kept (with varied values), dropped,
// and fresh ones are added.
func (g *c8gen) prevariant(v *c8jv, depth int, p *c8pre, isRoot bool) *c8jv {
	r := g.r
	if !isRoot && r.IntN(25) == 0 {
		return c8null(v.zone, v.sh)
	}
	if v.k != '{' || depth >= 6 {
		return g.regen(v, depth)
	}
	p.keptObj[v] = true
	nv := &c8jv{k: '{', zone: v.zone, sh: v.sh}
	for _, m := range v.mem {
		if r.IntN(10) < 8 {
			nm := *m
			nm.val = g.prevariant(m.val, depth+1, p, false)
			nv.mem = append(nv.mem, &nm)
			p.kept[m] = true
		}
	}
	for k, n := 0, r.IntN(3); k < n; k++ {
		var nm *c8mem
		mk := func(name string, val *c8jv) *c8mem {
			q, bounds := c8quote(r, name, r.IntN(4) == 0)
			return &c8mem{q: q, bounds: bounds, name: name, val: val}
		}
		switch {
		case v.zone != 't':
			name := c8randString(r, 3) + "~" + strconv.Itoa(k)
			if v.zone != 'a' {
				name = "#" + name
			}
			nm = mk(name, g.free(v.zone, depth+1, 0))
		case v.sh.kind == c8MapStr:
			nm = mk(c8randString(r, 3)+"~"+strconv.Itoa(k), g.typed(v.sh.elem, depth+1))
		case v.sh.kind == c8MapInt || v.sh.kind == c8MapU8 || v.sh.kind == c8MapF64:
			var name string
			switch v.sh.kind {
			case c8MapInt:
				name = strconv.Itoa(r.IntN(60) - 20)
			case c8MapU8:
				name = strconv.Itoa(r.IntN(256))
			default:
				name = strconv.FormatFloat(c8floatKeys[r.IntN(len(c8floatKeys))]+float64(r.IntN(3)), 'g', -1, 64)
			}
			clash := false
			for _, m := range v.mem {
				clash = clash || c8numEq(m.name, name)
			}
			for _, m := range nv.mem {
				clash = clash || c8numEq(m.name, name)
			}
			if clash {
				continue
			}
			nm = mk(name, g.typed(v.sh.elem, depth+1))
		case v.sh.kind == c8Struct:
			if r.IntN(2) == 0 && len(v.sh.fields) > 0 {
				f := v.sh.fields[r.IntN(len(v.sh.fields))]
				used := false
				for _, m := range v.mem {
					used = used || m.fld == f
				}
				for _, m := range nv.mem {
					used = used || m.fld == f
				}
				if used {
					continue
				}
				nm = mk(f.name, g.typed(f.sh, depth+1))
				nm.fld = f
			} else {
				nm = mk("#"+c8randString(r, 3)+"~"+strconv.Itoa(k), g.unknownVal(v.sh, depth, false))
				nm.unknown = true
			}
		}
		if nm != nil {
			nv.mem = append(nv.mem, nm)
		}
	}
	r.Shuffle(len(nv.mem), func(i, j int) { nv.mem[i], nv.mem[j] = nv.mem[j], nv.mem[i] })
	return nv
}

func c8unquoteLit(lit []byte) string {
	sc := &c8scanner{b: lit}
	str, _ := sc.str()
	return str
}

// c8toAny builds the Go value an `any` target holds for the tree, without the library.
func c8toAny(v *c8jv) any {
	switch v.k {
	case 'b':
		return string(v.lit) == "true"
	case '0':
		f, err := strconv.ParseFloat(string(v.lit), 64)
		if err != nil {
			fail("C08 generator: number literal %q", v.lit)
		}
		return f
	case '"':
		return c8unquoteLit(v.lit)
	case '[':
		a := make([]any, len(v.elems))
		for i, e := range v.elems {
			a[i] = c8toAny(e)
		}
		return a
	case '{':
		m := make(map[string]any, len(v.mem))
		for _, e := range v.mem {
			m[e.name] = c8toAny(e.val)
		}
		return m
	}
	return nil
}

// c8construct builds, with reflect only, the value of the shape's type that the tree denotes.
func c8construct(sh *c8shape, v *c8jv) reflect.Value {
	out := reflect.New(sh.typ).Elem()
	if v.k == 'n' {
		if sh.kind == c8Raw {
			out.SetBytes([]byte("null"))
		}
		return out
	}
	switch sh.kind {
	case c8Any:
		out.Set(reflect.ValueOf(c8toAny(v)))
	case c8Raw:
		out.SetBytes(v.render(nil))
	case c8Int:
		n, err := strconv.ParseInt(string(v.lit), 10, 64)
		if err != nil {
			fail("C08 generator: int literal %q", v.lit)
		}
		out.SetInt(n)
	case c8F64:
		f, err := strconv.ParseFloat(string(v.lit), 64)
		if err != nil {
			fail("C08 generator: float literal %q", v.lit)
		}
		out.SetFloat(f)
	case c8Bool:
		out.SetBool(string(v.lit) == "true")
	case c8Str:
		out.SetString(c8unquoteLit(v.lit))
	case c8Slice:
		sl := reflect.MakeSlice(sh.typ, len(v.elems), len(v.elems))
		for i, e := range v.elems {
			sl.Index(i).Set(c8construct(sh.elem, e))
		}
		out.Set(sl)
	case c8Ptr:
		p := reflect.New(sh.elem.typ)
		p.Elem().Set(c8construct(sh.elem, v))
		out.Set(p)
	case c8MapStr, c8MapInt, c8MapU8, c8MapF64:
		m := reflect.MakeMap(sh.typ)
		for _, e := range v.mem {
			k := reflect.New(sh.typ.Key()).Elem()
			switch sh.kind {
			case c8MapStr:
				k.SetString(e.name)
			case c8MapInt:
				n, _ := strconv.ParseInt(e.name, 10, 64)
				k.SetInt(n)
			case c8MapU8:
				n, _ := strconv.ParseUint(e.name, 10, 8)
				k.SetUint(n)
			case c8MapF64:
				f, _ := strconv.ParseFloat(e.name, 64)
				k.SetFloat(f)
			}
			m.SetMapIndex(k, c8construct(sh.elem, e.val))
		}
		out.Set(m)
	case c8Struct:
		x := len(sh.fields) // index of the fallback field X
		for _, e := range v.mem {
			switch {
			case e.fld != nil:
				out.Field(e.fld.id).Set(c8construct(e.fld.sh, e.val))
			case sh.fb == 1:
				if out.Field(x).IsNil() {
					out.Field(x).Set(reflect.MakeMap(out.Field(x).Type()))
				}
				out.Field(x).SetMapIndex(reflect.ValueOf(e.name), reflect.ValueOf(&[]any{c8toAny(e.val)}[0]).Elem())
			case sh.fb == 2:
				if out.Field(x).IsNil() {
					out.Field(x).Set(reflect.MakeMap(out.Field(x).Type()))
				}
				out.Field(x).SetMapIndex(reflect.ValueOf(e.name), c8construct(sh.fbElem, e.val))
			case sh.fb == 3:
				out.Field(x).SetBytes(c8fallbackText(v, -1))
			}
		}
	default:
		fail("C08: construct on shape kind %d", sh.kind)
	}
	return out
}

func c8prepopulated(c *Ctx, r *rand.Rand, cs *c8case, pre *c8pre, inj *c8inj, text, first []byte) {
	site := inj.site
	m1, m2 := site.mem[inj.i1], site.mem[inj.i2]
	// the two flavours of pre-population agree (else the reference below means nothing)
	lib := reflect.New(cs.sh.typ)
	if !c8mustAccept(c, cs, "pre-populating text", lib, pre.text) {
		return
	}
	libDump := c8dump(lib.Elem(), nil)
	var built reflect.Value
	if p := guard(func() { built = c8construct(cs.sh, pre.root) }); p != nil {
		fail("C08 generator: construct panicked on %s: %v", pre.text, p)
	}
	if d := c8dump(built, nil); d != libDump {
		c.Violate("prepopulate-construct-differs", "Unmarshal vs reflect construction", pre.text,
			c8detail(cs, "text", pre.text, "unmarshal", trunc(libDump, 800), "constructed", trunc(d, 800)))
		return
	}
	direct := r.IntN(2) == 0
	mk := func() reflect.Value {
		t := reflect.New(cs.sh.typ)
		if direct {
			t.Elem().Set(c8construct(cs.sh, pre.root))
		} else if res := c8unmarshalInto(0, t, pre.text, cs.opts()); res.err != nil || res.pan != nil {
			c.Violate("reject-clean", "Unmarshal(pre-populating text, repeated)", pre.text, c8detail(cs, "text", pre.text, "err", res.err))
		}
		return t
	}
	where := "site-absent-in-destination"
	if pre.keptObj[site] {
		where = "fresh-key"
		if pre.kept[m1] || pre.kept[m2] {
			where = "pre-existing-key"
		}
	}
	cls := c8siteClass(site, m1)
	c.Hit("prepop:" + where)
	c.Hit("prepop-site:" + cls + "/" + where)
	if direct {
		c.Hit("prepop-flavour:reflect-construction")
	} else {
		c.Hit("prepop-flavour:unmarshal")
	}
	c.Case("P"+string(pre.text)+"|"+string(text), true)
	entries := []int{0, 1 + r.IntN(c8numEntries-1)}

	// clean text into the pre-populated destination: accepted, same result whatever the entry point / flavour
	refT := mk()
	ref := c8unmarshalInto(0, refT, cs.clean, cs.opts())
	if ref.pan != nil {
		c.Panic("Unmarshal(pre-populated)", cs.clean, ref.pan, c8detail(cs, "pre", pre.text, "text", cs.clean))
		return
	}
	if ref.err != nil {
		c.Violate("reject-clean", "Unmarshal(pre-populated)", cs.clean, c8detail(cs, "pre", pre.text, "text", cs.clean, "err", ref.err, "direct", direct))
		return
	}
	refDump := c8dump(refT.Elem(), nil)
	{
		t := lib // populated by the library, above
		res := c8unmarshalInto(entries[1], t, cs.clean, cs.opts())
		if res.pan != nil {
			c.Panic(c8entryName[entries[1]]+"(pre-populated)", cs.clean, res.pan, c8detail(cs, "pre", pre.text))
		} else if d := c8dump(t.Elem(), nil); res.err != nil || d != refDump {
			c.Violate("prepopulated-clean-result", c8entryName[entries[1]], cs.clean, c8detail(cs, "pre", pre.text, "text", cs.clean, "err", res.err,
				"got", trunc(d, 800), "want", trunc(refDump, 800)))
		}
	}

	// injected text, default options: rejected although the destination already holds data
	for _, e := range entries {
		t := mk()
		res := c8unmarshalInto(e, t, text, cs.opts())
		if res.pan != nil {
			c.Panic(c8entryName[e]+"(pre-populated)", text, res.pan, c8detail(cs, "pre", pre.text, "text", text))
			continue
		}
		if res.err == nil {
			c.Violate("accept-duplicate", c8entryName[e]+"(pre-populated destination)", text, c8detail(cs, "pre", pre.text, "text", text, "site", cls, "how", inj.how,
				"collidesWith", where, "names", []string{m1.name, m2.name}, "direct", direct, "value", trunc(c8dump(t.Elem(), nil), 600)))
		} else if errors.Is(res.err, jsontext.ErrDuplicateName) {
			c.Hit("prepop-reject:duplicate-name")
		} else {
			c.Hit("prepop-reject:other-error-first") // e.g. an earlier member that the existing Go value cannot hold
		}
	}

	// AllowDuplicateNames into the pre-populated destination = sequential merge with default options
	if inj.oracle != "seq" && inj.oracle != "clean" {
		return
	}
	wantT := mk()
	res := c8unmarshalInto(0, wantT, first, cs.opts())
	wantErr := res.err != nil
	if !wantErr && inj.oracle == "seq" {
		res = c8unmarshalInto(0, wantT, c8pathOnly(site, inj.i2), cs.opts())
		wantErr = res.err != nil
	}
	if res.pan != nil {
		c.Panic("Unmarshal(merge, pre-populated)", text, res.pan, c8detail(cs, "pre", pre.text))
		return
	}
	gotT := mk()
	got := c8unmarshalInto(entries[1], gotT, text, cs.opts(c8AD))
	if got.pan != nil {
		c.Panic(c8entryName[entries[1]]+"+AllowDuplicateNames(pre-populated)", text, got.pan, c8detail(cs, "pre", pre.text))
		return
	}
	if (got.err != nil) != wantErr {
		c.Violate("allow-duplicate-outcome", c8entryName[entries[1]]+"(pre-populated destination)", text, c8detail(cs, "pre", pre.text, "text", text,
			"err", got.err, "expectedError", wantErr))
		return
	}
	if !wantErr {
		if g, w := c8dump(gotT.Elem(), nil), c8dump(wantT.Elem(), nil); g != w {
			c.Violate("allow-duplicate-value", c8entryName[entries[1]]+"(pre-populated destination)", text, c8detail(cs, "pre", pre.text, "text", text,
				"site", cls, "how", inj.how, "got", trunc(g, 800), "want", trunc(w, 800)))
		}
	}
}

// ---------------------------------------------------------------------------------------------
// Ill-formed UTF-8 injected into one string value or one name of the clean text.

var c8illFormed = [][]byte{{0x80}, {0xBF}, {0xC0, 0xAF}, {0xC1, 0xBF}, {0xC3}, {0xE2, 0x82}, {0xE0, 0x80, 0x80}, {0xED, 0xA0, 0x80},
	{0xF0, 0x80, 0x80, 0x80}, {0xF4, 0x90, 0x80, 0x80}, {0xF5}, {0xFF}, {0xFE}, {0xF0, 0x9F, 0x98}, {0xFF, 0xFE}, {0xE2}}

func c8utf8Case(c *Ctx, r *rand.Rand, cs *c8case, g *c8gen) {
	type slot struct {
		lit    *[]byte
		bounds []int
		where  string
	}
	var slots []slot
	cs.root.walk(func(v *c8jv) {
		if v.k == '"' && len(v.bounds) > 0 {
			w := "value:" + string(v.zone)
			slots = append(slots, slot{&v.lit, v.bounds, w})
		}
		if v.k == '{' {
			namesOK := v.zone != 't' || v.sh.kind == c8MapStr
			for _, m := range v.mem {
				if namesOK || (v.zone == 't' && v.sh.kind == c8Struct && m.unknown) {
					w := "name:" + string(v.zone)
					if v.zone == 't' {
						w = "name:" + c8siteClass(v, m)
					}
					slots = append(slots, slot{&m.q, m.bounds, w})
				}
			}
		}
	})
	if len(slots) == 0 {
		c.Hit("utf8:no-string")
		return
	}
	s := slots[r.IntN(len(slots))]
	saved := *s.lit
	at := s.bounds[r.IntN(len(s.bounds))]
	var ins, repl []byte
	surrogate := r.IntN(5) == 0
	if surrogate {
		ins = []byte([]string{`\ud800`, `\uDBFF`, `\udc00`, `\uDFFF`}[r.IntN(4)])
		repl = []byte("\uFFFD")
	} else {
		ins = c8illFormed[r.IntN(len(c8illFormed))]
		repl = bytes.Repeat([]byte("\uFFFD"), len(ins))
	}
	mk := func(x []byte) []byte {
		return append(append(append([]byte{}, saved[:at]...), x...), saved[at:]...)
	}
	badLit, fixLit := mk(ins), mk(repl)
	if !surrogate && !bytes.Equal(c8sanitize(badLit), fixLit) {
		fail("C08 generator: independent sanitizer disagrees on %x", badLit)
	}
	*s.lit = badLit
	bad := cs.root.render(nil)
	*s.lit = fixLit
	fixed := cs.root.render(nil)
	*s.lit = saved
	if ok, dup, isBad := c8scan(bad); !ok || dup || !isBad {
		fail("C08 generator: utf8-injected text wrong (ok=%v dup=%v bad=%v): %x", ok, dup, isBad, bad)
	}
	if ok, dup, isBad := c8scan(fixed); !ok || dup || isBad {
		fail("C08 generator: utf8-fixed text wrong: %x", fixed)
	}
	c.Hit("utf8-slot:" + s.where)
	if surrogate {
		c.Hit("utf8-kind:lone-surrogate-escape")
	} else {
		c.Hit(fmt.Sprintf("utf8-kind:%d-ill-formed-bytes", len(ins)))
	}
	c.Case("U"+string(bad), true)

	for e := 0; e < c8numEntries; e++ {
		res := c8unmarshal(e, cs.sh.typ, bad, cs.opts()...)
		if res.pan != nil {
			c.Panic(c8entryName[e], bad, res.pan, c8detail(cs, "text", bad))
			continue
		}
		if res.err == nil {
			c.Violate("accept-invalid-utf8", c8entryName[e], bad, c8detail(cs, "text", bad, "slot", s.where, "value", trunc(c8dump(res.val.Elem(), nil), 600)))
		}
	}
	ref := c8unmarshal(0, cs.sh.typ, fixed, cs.opts()...)
	if ref.err != nil || ref.pan != nil {
		c.Violate("reject-clean", "Unmarshal", fixed, c8detail(cs, "text", fixed, "err", ref.err, "panic", fmt.Sprint(ref.pan)))
		return
	}
	want := c8dump(ref.val.Elem(), nil)
	nrepl := 0
	rawfix := func(b []byte) []byte { // raw values keep the input bytes verbatim
		if n := bytes.Count(b, badLit); n > 0 {
			nrepl += n
			return bytes.Replace(b, badLit, fixLit, -1)
		}
		return b
	}
	inRaw := strings.HasSuffix(s.where, ":r") || s.where == "name:struct-unknown(fb=3)"
	other := 1 + r.IntN(c8numEntries-1)
	for e := 0; e < c8numEntries; e++ {
		if e != 0 && e != other {
			continue
		}
		nrepl = 0
		res := c8unmarshal(e, cs.sh.typ, bad, cs.opts(c8AU)...)
		if res.pan != nil {
			c.Panic(c8entryName[e]+"+AllowInvalidUTF8", bad, res.pan, c8detail(cs, "text", bad))
			continue
		}
		if res.err != nil {
			c.Violate("allow-invalid-utf8-error", c8entryName[e], bad, c8detail(cs, "text", bad, "slot", s.where, "err", res.err))
			continue
		}
		got := c8dump(res.val.Elem(), rawfix)
		wantRepl := 0
		if inRaw {
			wantRepl = 1
		}
		if got != want || nrepl != wantRepl {
			c.Violate("allow-invalid-utf8-value", c8entryName[e], bad, c8detail(cs, "text", bad, "slot", s.where, "got", trunc(got, 800), "want", trunc(want, 800),
				"rawReplacements", nrepl, "wantRawReplacements", wantRepl))
		}
		// and AllowInvalidUTF8 changes nothing on well-formed input
		if e == 0 {
			a := c8unmarshal(r.IntN(c8numEntries), cs.sh.typ, cs.clean, cs.opts(c8AU)...)
			b := c8unmarshal(0, cs.sh.typ, cs.clean, cs.opts()...)
			if a.pan != nil || a.err != nil || b.err != nil || c8dump(a.val.Elem(), nil) != c8dump(b.val.Elem(), nil) {
				c.Violate("option-changes-clean-result", "Unmarshal+AllowInvalidUTF8", cs.clean, c8detail(cs, "text", cs.clean, "err", a.err, "panic", fmt.Sprint(a.pan)))
			}
		}
	}
}

// ---------------------------------------------------------------------------------------------
// (b) ENCODE side: Go values whose marshaling could collide names.

type c8TK struct{ K, Salt int }

func (t c8TK) MarshalText() ([]byte, error) { return []byte(strconv.Itoa(t.K)), nil }

type c8EM struct {
	A      any            `json:"a,omitzero"`
	FooBar any            `json:"foo_bar,case:ignore,omitzero"`
	L      []any          `json:"l,omitzero"`
	X      map[string]any `json:",embed"`
}

type c8ER struct {
	A      any            `json:"a,omitzero"`
	FooBar any            `json:"foo_bar,case:ignore,omitzero"`
	X      jsontext.Value `json:",embed"`
}

type c8MJ struct{ Text string }

func (m c8MJ) MarshalJSON() ([]byte, error) { return []byte(m.Text), nil }

type c8MT struct {
	Names []string
	Vals  []any
}

func (m c8MT) MarshalJSONTo(enc *jsontext.Encoder) error {
	if err := enc.WriteToken(jsontext.BeginObject); err != nil {
		return err
	}
	for i, n := range m.Names {
		if err := enc.WriteToken(jsontext.String(n)); err != nil {
			return err
		}
		if err := json.MarshalEncode(enc, m.Vals[i]); err != nil {
			return err
		}
	}
	return enc.WriteToken(jsontext.EndObject)
}

type c8einfo struct {
	never bool // not representable under any option (NaN map keys: several keys that would all be "NaN")
	dup   bool // names collide under default options
	bad   bool // some Go string (value or map key) is not valid UTF-8
	dupAU bool // names collide once ill-formed bytes are replaced by U+FFFD
}

func (a *c8einfo) or(b c8einfo) {
	a.dup, a.bad, a.dupAU, a.never = a.dup || b.dup, a.bad || b.bad, a.dupAU || b.dupAU, a.never || b.never
}

var (
	c8encNames    = []string{"a", "A", "foo_bar", "FOO_BAR", "fooBar", "FOO-bar", "l", "zz", "#x", "é", "a/b"}
	c8encBadNames = []string{"\xff", "\xfe", "k\xc3", "k\x80", "k\xe2\x82"}
)

type c8egen struct{ r *rand.Rand }

func (g *c8egen) str() (string, string, bool) {
	s := c8randString(g.r, 5)
	if g.r.IntN(8) == 0 {
		bad := c8illFormed[g.r.IntN(len(c8illFormed))]
		at := g.r.IntN(len(s) + 1)
		for at < len(s) && !utf8.RuneStart(s[at]) {
			at++
		}
		s2 := s[:at] + string(bad) + s[at:]
		return s2, string(c8sanitize([]byte(s2))), true
	}
	return s, s, false
}

// resolveKey: which "slot" of a c8EM/c8ER object a member name occupies under default options.
func c8encSlot(name string) string {
	switch {
	case name == "a":
		return "field:a"
	case name == "l":
		return "field:l"
	case string(json.VerifFoldName([]byte(name))) == "FOOBAR":
		return "field:foo_bar"
	}
	return "name:" + name
}

// rawObject produces a JSON object text (valid UTF-8) whose names may collide, possibly at depth.
func (g *c8egen) rawObject(depth int) []byte {
	r := g.r
	b := []byte{'{'}
	n := r.IntN(4)
	for i := 0; i < n; i++ {
		if i > 0 {
			b = append(b, ',')
		}
		q, _ := c8quote(r, c8encNames[r.IntN(len(c8encNames))], r.IntN(3) == 0)
		b = append(b, q...)
		b = append(b, ':')
		switch k := r.IntN(6); {
		case k == 0 && depth < 3:
			b = append(b, g.rawObject(depth+1)...)
		case k == 1 && depth < 3:
			b = append(append(append(b, '['), g.rawObject(depth+1)...), ']')
		case k == 2:
			q, _ := c8quote(r, c8randString(r, 4), false)
			b = append(b, q...)
		default:
			b = append(b, c8numLits[r.IntN(len(c8numLits))]...)
		}
	}
	return append(b, '}')
}

func c8topNames(obj []byte) (names []string, innerDup bool) {
	s := &c8scanner{b: obj}
	s.i = 1
	for s.i < len(obj) && obj[s.i] != '}' {
		n, _ := s.str()
		names = append(names, n)
		s.i++ // ':'
		s.value(1)
		if s.i < len(obj) && obj[s.i] == ',' {
			s.i++
		}
	}
	return names, s.dup
}

// value generates a Go value, its sanitized twin, and what is known about it.
func (g *c8egen) value(depth int, nonNil bool) (v, san any, info c8einfo) {
	r := g.r
	k := r.IntN(14)
	if depth >= 4 {
		k = r.IntN(5)
	}
	if nonNil && k == 0 {
		k = 1
	}
	switch k {
	case 0:
		return nil, nil, info
	case 1:
		f := float64(r.IntN(100)) / 4
		return f, f, info
	case 2:
		b := r.IntN(2) == 0
		return b, b, info
	case 3, 4:
		s, ss, bad := g.str()
		info.bad = bad
		return s, ss, info
	case 5:
		n := r.IntN(4)
		a, as := make([]any, n), make([]any, n)
		for i := range a {
			var ci c8einfo
			a[i], as[i], ci = g.value(depth+1, false)
			info.or(ci)
		}
		return a, as, info
	case 6:
		m, ms := map[string]any{}, map[string]any{}
		for i, n := 0, r.IntN(4); i < n; i++ {
			name := c8encNames[r.IntN(len(c8encNames))]
			if r.IntN(5) == 0 {
				name = c8encBadNames[r.IntN(len(c8encBadNames))]
				info.bad = true
			}
			if _, ok := m[name]; ok {
				continue
			}
			sn := string(c8sanitize([]byte(name)))
			if _, ok := ms[sn]; ok {
				info.dupAU = true
			}
			cv, cs, ci := g.value(depth+1, false)
			info.or(ci)
			m[name], ms[sn] = cv, cs
		}
		return m, ms, info
	case 7:
		m, ms := map[c8TK]any{}, map[c8TK]any{}
		seen := map[int]bool{}
		for i, n := 0, r.IntN(4); i < n; i++ {
			key := c8TK{K: r.IntN(4), Salt: i}
			if seen[key.K] {
				info.dup, info.dupAU = true, true
			}
			seen[key.K] = true
			cv, cs, ci := g.value(depth+1, false)
			info.or(ci)
			m[key], ms[key] = cv, cs
		}
		return m, ms, info
	case 8:
		var e, es c8EM
		slots, slotsAU := map[string]int{}, map[string]int{}
		if r.IntN(2) == 0 {
			var ci c8einfo
			e.A, es.A, ci = g.value(depth+1, true)
			info.or(ci)
			slots["field:a"]++
			slotsAU["field:a"]++
		}
		if r.IntN(2) == 0 {
			var ci c8einfo
			e.FooBar, es.FooBar, ci = g.value(depth+1, true)
			info.or(ci)
			slots["field:foo_bar"]++
			slotsAU["field:foo_bar"]++
		}
		if r.IntN(3) == 0 {
			cv, cs, ci := g.value(depth+1, false)
			info.or(ci)
			e.L, es.L = []any{cv}, []any{cs}
			slots["field:l"]++
			slotsAU["field:l"]++
		}
		if r.IntN(4) > 0 {
			e.X, es.X = map[string]any{}, map[string]any{}
			for i, n := 0, r.IntN(4); i < n; i++ {
				name := c8encNames[r.IntN(len(c8encNames))]
				if r.IntN(6) == 0 {
					name = c8encBadNames[r.IntN(len(c8encBadNames))]
					info.bad = true
				}
				if _, ok := e.X[name]; ok {
					continue
				}
				sn := string(c8sanitize([]byte(name)))
				cv, cs, ci := g.value(depth+1, false)
				info.or(ci)
				e.X[name], es.X[sn] = cv, cs
				slots[c8encSlot(name)]++
				slotsAU[c8encSlot(sn)]++
			}
		}
		for _, n := range slots {
			if n > 1 {
				info.dup = true
			}
		}
		for _, n := range slotsAU {
			if n > 1 {
				info.dupAU = true
			}
		}
		if r.IntN(2) == 0 {
			return &e, &es, info
		}
		return e, es, info
	case 9:
		var e, es c8ER
		slots := map[string]int{}
		if r.IntN(2) == 0 {
			var ci c8einfo
			e.A, es.A, ci = g.value(depth+1, true)
			info.or(ci)
			slots["field:a"]++
		}
		if r.IntN(2) == 0 {
			var ci c8einfo
			e.FooBar, es.FooBar, ci = g.value(depth+1, true)
			info.or(ci)
			slots["field:foo_bar"]++
		}
		if r.IntN(4) > 0 {
			e.X = g.rawObject(0)
			es.X = e.X
			names, inner := c8topNames(e.X)
			if inner {
				// a duplicate below the top level of the fallback object (the scanner's top-level
				// verdict is recomputed through the slots)
				_, d, _ := c8scan(e.X)
				top := map[string]bool{}
				topDup := false
				for _, n := range names {
					topDup = topDup || top[n]
					top[n] = true
				}
				if d && !topDup {
					info.dup = true
				} else if d {
					// both kinds may be present; decide the nested part by scanning the member values only
					info.dup = true
				}
			}
			for _, n := range names {
				slots[c8encSlot(n)]++
			}
		}
		for _, n := range slots {
			if n > 1 {
				info.dup = true
			}
		}
		info.dupAU = info.dupAU || info.dup
		return e, es, info
	case 10:
		t := g.rawObject(0)
		_, d, _ := c8scan(t)
		info.dup, info.dupAU = d, d
		return c8MJ{string(t)}, c8MJ{string(t)}, info
	case 11:
		var m, ms c8MT
		seen := map[string]bool{}
		for i, n := 0, r.IntN(4); i < n; i++ {
			name := c8encNames[r.IntN(len(c8encNames))]
			if seen[name] {
				info.dup = true
			}
			seen[name] = true
			cv, cs, ci := g.value(depth+1, false)
			info.or(ci)
			m.Names, ms.Names = append(m.Names, name), append(ms.Names, name)
			m.Vals, ms.Vals = append(m.Vals, cv), append(ms.Vals, cs)
		}
		info.dupAU = info.dupAU || info.dup
		return m, ms, info
	case 12:
		t := g.rawObject(0)
		_, d, _ := c8scan(t)
		info.dup, info.dupAU = d, d
		return jsontext.Value(t), jsontext.Value(t), info
	}
	// float keys: distinct NaNs are distinct Go map keys that would all serialize as "NaN"
	m := map[float64]any{}
	for i, n := 0, r.IntN(4); i < n; i++ {
		key := float64(r.IntN(5)) / 2
		if r.IntN(2) == 0 {
			key = math.NaN()
			info.never = true
		}
		m[key] = float64(i)
	}
	return m, m, info
}

var c8marshalEntry = []string{"Marshal", "MarshalWrite", "MarshalEncode"}

func c8marshal(entry int, v any, opts ...json.Options) (out []byte, err error, pan any) {
	opts = append([]json.Options{json.Deterministic(true)}, opts...)
	pan = guard(func() {
		switch entry {
		case 0:
			out, err = json.Marshal(v, opts...)
		case 1:
			var buf bytes.Buffer
			err = json.MarshalWrite(&buf, v, opts...)
			out = buf.Bytes()
		case 2:
			var buf bytes.Buffer
			enc := jsontext.NewEncoder(&buf, opts...)
			err = json.MarshalEncode(enc, v)
			out = bytes.TrimSuffix(buf.Bytes(), []byte("\n"))
		}
	})
	return
}

func c8encodeCase(c *Ctx, r *rand.Rand) {
	g := &c8egen{r: r}
	v, san, info := g.value(0, true)
	info.dupAU = info.dupAU || info.dup
	desc := fmt.Sprintf("%#v", v)
	if rv := reflect.ValueOf(v); rv.Kind() == reflect.Pointer {
		desc = fmt.Sprintf("&%#v", rv.Elem().Interface())
	}
	key := []byte(desc)
	det := func(kv ...any) map[string]any {
		d := map[string]any{"goValue": trunc(desc, 1500), "knownDuplicate": info.dup, "knownInvalidUTF8": info.bad, "knownDuplicateAfterFFFD": info.dupAU}
		for i := 0; i+1 < len(kv); i += 2 {
			switch x := kv[i+1].(type) {
			case []byte:
				d[kv[i].(string)] = trunc(string(x), 1500)
			case error:
				if x != nil {
					d[kv[i].(string)] = x.Error()
				}
			default:
				d[kv[i].(string)] = x
			}
		}
		return d
	}
	c.Hit(fmt.Sprintf("enc:%T", v))
	c.Hit(fmt.Sprintf("enc-known:dup=%v,bad=%v,dupAU=%v,nanKeys=%v", info.dup, info.bad, info.dupAU, info.never))
	c.Case("M"+desc, info.dup || info.bad || info.never)
	if (info.dup || info.bad) && r.IntN(3000) == 0 {
		c.Sample(map[string]any{"marshal": trunc(desc, 400), "dup": info.dup, "invalidUTF8": info.bad})
	}

	type variant struct {
		name    string
		opts    []json.Options
		mustErr bool
	}
	variants := []variant{
		{"default", nil, info.dup || info.bad || info.never},
		{"AllowDuplicateNames", []json.Options{c8AD}, info.bad || info.never},
		{"AllowInvalidUTF8", []json.Options{c8AU}, info.dupAU || info.never},
		{"AllowDuplicateNames+AllowInvalidUTF8", []json.Options{c8AD, c8AU}, info.never},
	}
	var out0 []byte
	for vi, vr := range variants {
		var first []byte
		for e := range c8marshalEntry {
			op := c8marshalEntry[e] + "/" + vr.name
			out, err, pan := c8marshal(e, v, vr.opts...)
			if pan != nil {
				c.Panic(op, key, pan, det())
				continue
			}
			if (err != nil) != vr.mustErr {
				kind := "marshal-rejects-unambiguous"
				if vr.mustErr {
					kind = "marshal-accepts-ambiguous"
				}
				c.Violate(kind, op, key, det("out", out, "err", err))
				continue
			}
			if err != nil {
				continue
			}
			ok, dup, bad := c8scan(out)
			allowDup := vi == 1 || vi == 3
			if !ok || bad || (dup && !allowDup) {
				c.Violate("marshal-emits-ambiguous", op, key, det("out", out, "scanOK", ok, "scanDup", dup, "scanBadUTF8", bad))
				continue
			}
			if e == 0 {
				first = out
			} else if !bytes.Equal(out, first) && !(allowDup && info.dup) { // equal names have no defined order

				c.Violate("marshal-entry-points-differ", op, key, det("out", out, "Marshal", first))
			}
		}
		if first == nil {
			continue
		}
		switch vi {
		case 0:
			out0 = first
		case 1, 3:
			if out0 != nil && !bytes.Equal(first, out0) {
				c.Violate("option-changes-clean-output", vr.name, key, det("out", first, "default", out0))
			}
			if vi == 3 && !info.dup && !info.dupAU {
				want, err, _ := c8marshal(0, san)
				if err != nil || !bytes.Equal(want, first) {
					c.Violate("allow-invalid-utf8-output", vr.name, key, det("out", first, "wantFromSanitizedValue", want, "err", err))
				}
			}
		case 2:
			want, err, _ := c8marshal(0, san)
			if err != nil || !bytes.Equal(want, first) {
				c.Violate("allow-invalid-utf8-output", vr.name, key, det("out", first, "wantFromSanitizedValue", want, "err", err))
			}
		}
	}
}

// ---------------------------------------------------------------------------------------------
// (b') ENCODE: struct graphs with an embedded fallback.  Embedded structs (value and pointer) are declared before
// and after direct fields, so the depth-first order in which fields are emitted differs from their breadth-first
// ids; fields carry omitzero / omitempty and are set to zero and non-zero values; the fallback (map[string]any or
// jsontext.Value) names emitted fields (exactly / folded), omitted fields, and fresh names.
// Expectation (doc.go "embed", arshal_default.go:1249-1275): error iff two emitted members fall into the same slot,
// where a declared field that is emitted occupies its slot and a fallback name occupies the slot of the field it
// resolves to (exact name, or folded name of a case-insensitive field), otherwise its own.  A fallback member named
// like an OMITTED field is legal.

type c8sgField struct {
	name string
	ci   bool
	omit uint8 // 0 none, 1 omitzero, 2 omitempty
	kind uint8 // 0 int, 1 string, 2 any
	path []int
	gate [][]int // pointer-embedded structs on the way (all must be non-nil for the field to exist)
}

type c8sgraph struct {
	typ     reflect.Type
	fields  []*c8sgField
	ptrs    [][]int // index paths of pointer-embedded structs, parents first
	fbPath  []int
	fbGate  [][]int
	fbRaw   bool
	dfsDiff bool // some embedded struct is declared before a direct field
}

type c8sgBuilder struct {
	r     *rand.Rand
	folds map[string]bool
	g     *c8sgraph
	nName int
}

func (b *c8sgBuilder) build(depth int, path []int, gate [][]int, wantFB bool) reflect.Type {
	r := b.r
	var sfs []reflect.StructField
	n := 2 + r.IntN(4)
	fbAt := -1
	if wantFB {
		fbAt = r.IntN(n + 1)
	}
	sawEmbed := false
	for i := 0; i <= n; i++ {
		idx := len(sfs)
		p := append(append([]int{}, path...), idx)
		if i == fbAt {
			t := reflect.TypeFor[map[string]any]()
			if b.g.fbRaw {
				t = c8rawType
			}
			sfs = append(sfs, reflect.StructField{Name: fmt.Sprintf("X%d", depth), Type: t, Tag: `json:",embed"`})
			b.g.fbPath, b.g.fbGate = p, gate
			continue
		}
		if i == n {
			break
		}
		if depth < 2 && r.IntN(10) < 4 {
			sawEmbed = true
			ptr := r.IntN(3) == 0
			g2 := gate
			if ptr {
				g2 = append(append([][]int{}, gate...), p)
				b.g.ptrs = append(b.g.ptrs, p)
			}
			// an embedded fallback inside an embedded struct (only below value embedding, once)
			innerFB := false
			if wantFB && fbAt < 0 {
				innerFB = false
			}
			et := b.build(depth+1, p, g2, innerFB)
			if ptr {
				et = reflect.PointerTo(et)
			}
			sfs = append(sfs, reflect.StructField{Name: fmt.Sprintf("E%d_%d", depth, i), Type: et, Tag: `json:",embed"`})
			continue
		}
		if sawEmbed {
			b.g.dfsDiff = true
		}
		var name string
		for {
			name = c8fieldName(r, false)
			f := string(json.VerifFoldName([]byte(name)))
			if f != "" && !b.folds[f] {
				b.folds[f] = true
				break
			}
		}
		f := &c8sgField{name: name, path: p, gate: gate, omit: uint8(r.IntN(3)), kind: uint8(r.IntN(3)), ci: r.IntN(3) == 0}
		tag := name
		if f.ci {
			tag += ",case:ignore"
		}
		switch f.omit {
		case 1:
			tag += ",omitzero"
		case 2:
			tag += ",omitempty"
		}
		t := []reflect.Type{reflect.TypeFor[int](), reflect.TypeFor[string](), c8anyType}[f.kind]
		sfs = append(sfs, reflect.StructField{Name: fmt.Sprintf("F%d_%d", depth, i), Type: t, Tag: reflect.StructTag(`json:"` + tag + `"`)})
		b.g.fields = append(b.g.fields, f)
	}
	return reflect.StructOf(sfs)
}

func c8sgraphPool(c *Ctx, r *rand.Rand, n int) []*c8sgraph {
	var gs []*c8sgraph
	for len(gs) < n {
		b := &c8sgBuilder{r: r, folds: map[string]bool{}, g: &c8sgraph{fbRaw: r.IntN(2) == 0}}
		b.g.typ = b.build(0, nil, nil, true)
		if len(b.g.fields) == 0 || (!b.g.dfsDiff && r.IntN(4) > 0) {
			continue // prefer graphs whose emission order differs from the id order
		}
		gs = append(gs, b.g)
	}
	return gs
}

func c8sgEncodeCase(c *Ctx, r *rand.Rand, graphs []*c8sgraph) {
	g := graphs[r.IntN(len(graphs))]
	v := reflect.New(g.typ).Elem()
	nonNil := map[string]bool{}
	for _, p := range g.ptrs { // parents first
		parentOK := true
		for q := 1; q < len(p); q++ {
			if f := v.FieldByIndex(p[:q]); f.Kind() == reflect.Pointer && f.IsNil() {
				parentOK = false
			}
		}
		if parentOK && r.IntN(5) > 0 {
			f := v.FieldByIndex(p)
			f.Set(reflect.New(f.Type().Elem()))
			nonNil[fmt.Sprint(p)] = true
		}
	}
	exists := func(gate [][]int) bool {
		for _, p := range gate {
			if !nonNil[fmt.Sprint(p)] {
				return false
			}
		}
		return true
	}
	slots := map[string]int{}
	var emitted, omitted []*c8sgField
	for _, f := range g.fields {
		if !exists(f.gate) {
			omitted = append(omitted, f)
			continue
		}
		fv := v.FieldByIndex(f.path)
		zero := r.IntN(2) == 0
		emit := true
		switch f.kind {
		case 0:
			if !zero {
				fv.SetInt(int64(1 + r.IntN(9)))
			}
			emit = !(f.omit == 1 && zero) // `0` is not an empty JSON value
		case 1:
			if !zero {
				fv.SetString("s" + strconv.Itoa(r.IntN(9)))
			}
			emit = !(f.omit != 0 && zero)
		case 2:
			switch {
			case zero:
				emit = f.omit == 0 // nil interface: zero, and `null` is empty
			case r.IntN(3) == 0:
				fv.Set(reflect.ValueOf("")) // non-zero Go value whose JSON is empty
				emit = f.omit != 2
			default:
				fv.Set(reflect.ValueOf(float64(r.IntN(9))))
			}
		}
		if emit {
			emitted = append(emitted, f)
			slots["field:"+f.name]++
		} else {
			omitted = append(omitted, f)
		}
	}
	slotOf := func(name string) string {
		fold := string(json.VerifFoldName([]byte(name)))
		for _, f := range g.fields {
			if f.name == name {
				return "field:" + f.name
			}
		}
		for _, f := range g.fields {
			if f.ci && string(json.VerifFoldName([]byte(f.name))) == fold {
				return "field:" + f.name
			}
		}
		return "name:" + name
	}
	var names []string
	classes := map[string]bool{}
	if exists(g.fbGate) {
		for k, n := 0, r.IntN(4); k < n; k++ {
			var name, cls string
			switch p := r.IntN(10); {
			case p < 3 && len(emitted) > 0:
				f := emitted[r.IntN(len(emitted))]
				name, cls = f.name, "emitted-field-exact"
				if r.IntN(3) == 0 {
					name, cls = c8variant(r, f.name), "emitted-field-folded"
				}
			case p < 6 && len(omitted) > 0:
				f := omitted[r.IntN(len(omitted))]
				name, cls = f.name, "omitted-field-exact"
				if r.IntN(3) == 0 {
					name, cls = c8variant(r, f.name), "omitted-field-folded"
				}
			default:
				name, cls = "#"+c8randString(r, 2)+strconv.Itoa(k), "fresh"
			}
			if !g.fbRaw {
				dup := false
				for _, x := range names {
					dup = dup || x == name
				}
				if dup {
					continue // a Go map has each key once
				}
			}
			names = append(names, name)
			classes[cls] = true
			slots[slotOf(name)]++
		}
		fb := v.FieldByIndex(g.fbPath)
		if len(names) > 0 || r.IntN(2) == 0 {
			if g.fbRaw {
				b := []byte{'{'}
				for i, n := range names {
					if i > 0 {
						b = append(b, ',')
					}
					q, _ := c8quote(r, n, r.IntN(3) == 0)
					b = append(append(append(b, q...), ':'), strconv.Itoa(100+i)...)
				}
				fb.SetBytes(append(b, '}'))
			} else {
				m := map[string]any{}
				for i, n := range names {
					m[n] = float64(100 + i)
				}
				fb.Set(reflect.ValueOf(m))
			}
		}
	}
	mustErr := false
	for _, n := range slots {
		mustErr = mustErr || n > 1
	}
	in := v.Interface()
	if r.IntN(2) == 0 {
		in = v.Addr().Interface()
	}
	desc := fmt.Sprintf("%s %+v", trunc(g.typ.String(), 1200), v.Interface())
	key := []byte(desc)
	det := func(kv ...any) map[string]any {
		d := map[string]any{"type": trunc(g.typ.String(), 1500), "value": trunc(fmt.Sprintf("%+v", v.Interface()), 800), "fallbackNames": names,
			"expectError": mustErr, "emissionOrderDiffersFromIds": g.dfsDiff}
		for i := 0; i+1 < len(kv); i += 2 {
			d[kv[i].(string)] = fmt.Sprint(kv[i+1])
		}
		return d
	}
	for cls := range classes {
		c.Hit("sg-fallback-name:" + cls)
	}
	c.Hit(fmt.Sprintf("sg:expectError=%v,dfs!=bfs=%v,omitted>0=%v,raw=%v", mustErr, g.dfsDiff, len(omitted) > 0, g.fbRaw))
	c.Case("SG"+desc+fmt.Sprint(names), len(names) > 0)
	var out0 []byte
	for e := range c8marshalEntry {
		out, err, pan := c8marshal(e, in)
		op := c8marshalEntry[e] + "/default(struct graph)"
		if pan != nil {
			c.Panic(op, key, pan, det())
			continue
		}
		if err == nil {
			if ok, dup, bad := c8scan(out); !ok || dup || bad {
				c.Violate("marshal-emits-ambiguous", op, key, det("out", string(out), "scanOK", ok, "scanDup", dup))
				continue
			}
		}
		if (err != nil) != mustErr {
			kind := "marshal-rejects-unambiguous"
			if mustErr {
				kind = "marshal-accepts-ambiguous"
			}
			c.Violate(kind, op, key, det("out", string(out), "err", err))
			continue
		}
		if err == nil {
			if e == 0 {
				out0 = out
			} else if out0 != nil && !bytes.Equal(out, out0) {
				c.Violate("marshal-entry-points-differ", op, key, det("out", string(out), "Marshal", string(out0)))
			}
		}
	}
	// AllowDuplicateNames: always succeeds, and equals the default output when nothing collides
	out, err, pan := c8marshal(0, in, c8AD)
	if pan != nil {
		c.Panic("Marshal/AllowDuplicateNames(struct graph)", key, pan, det())
	} else if err != nil {
		c.Violate("marshal-rejects-unambiguous", "Marshal/AllowDuplicateNames(struct graph)", key, det("err", err))
	} else if out0 != nil && !bytes.Equal(out, out0) {
		c.Violate("option-changes-clean-output", "Marshal/AllowDuplicateNames(struct graph)", key, det("out", string(out), "default", string(out0)))
	}
}

// ---------------------------------------------------------------------------------------------
// (c) poisoned coders.

func c8invalidNamespace(err error) bool {
	var syn *jsontext.SyntacticError
	return errors.As(err, &syn) && jsontext.VerifErrClass(syn.Err) == 2
}

func c8poisonDecode(c *Ctx, r *rand.Rand, shapes []*c8shape) {
	sh := shapes[r.IntN(len(shapes))]
	g := &c8gen{r: r, ciAll: false, big: 0}
	root := g.typed(sh, 0)
	root.link(nil, nil)
	cs := &c8case{sh: sh, root: root}
	inj := g.inject(root)
	if inj == nil {
		return
	}
	text := append(append([]byte("["), root.render(nil)...), []byte(",0]")...)
	dec := jsontext.NewDecoder(bytes.NewReader(text))
	var err error
	target := reflect.New(sh.typ)
	if p := guard(func() {
		_, err = dec.ReadToken()
		if err == nil {
			err = json.UnmarshalDecode(dec, target.Interface())
		}
	}); p != nil {
		c.Panic("UnmarshalDecode", text, p, c8detail(cs))
		return
	}
	if err == nil {
		c.Violate("accept-duplicate", "UnmarshalDecode(in array)", text, c8detail(cs, "text", text))
		return
	}
	c.Case("PD"+string(text), true)
	syntactic := inj.site.mem[inj.i1].name == inj.site.mem[inj.i2].name
	if !syntactic {
		// names that differ as JSON strings ("1" / "1.0", "foo" / "FOO") are not duplicates for a Decoder
		c.Hit("poison-dec:semantic-duplicate-not-applicable")
		return
	}
	// continue with direct Decoder calls: the object holding the duplicate must never be completed silently
	for step := 0; ; step++ {
		if step > len(text)+10 { // every successful read consumes at least one byte of a finite text
			c.Violate("poisoned-decoder-no-progress", "Decoder after failed UnmarshalDecode", text, c8detail(cs, "text", text, "firstErr", err))
			return
		}
		var derr error
		var kind jsontext.Kind
		if p := guard(func() {
			if k := dec.PeekKind(); k != '}' && k != ']' && r.IntN(4) == 0 {
				var v jsontext.Value
				v, derr = dec.ReadValue()
				kind = v.Kind()
			} else {
				var t jsontext.Token
				t, derr = dec.ReadToken()
				kind = t.Kind()
			}
		}); p != nil {
			c.Panic("Decoder after failed UnmarshalDecode", text, p, c8detail(cs))
			return
		}
		if derr != nil {
			switch {
			case c8invalidNamespace(derr):
				c.Hit("poison-dec:invalid-namespace")
			case errors.Is(derr, jsontext.ErrDuplicateName):
				c.Hit("poison-dec:duplicate-reported-again")
			default:
				c.Hit("poison-dec:other-error")
				c.Violate("poisoned-decoder-other-error", "Decoder after failed UnmarshalDecode", text, c8detail(cs, "text", text, "err", derr))
			}
			return
		}
		_ = kind
		if dec.StackDepth() <= 1 {
			c.Violate("poisoned-decoder-continues", "Decoder after failed UnmarshalDecode", text,
				c8detail(cs, "text", text, "firstErr", err, "site", c8siteClass(inj.site, inj.site.mem[inj.i1])))
			return
		}
	}
}

func c8poisonEncode(c *Ctx, r *rand.Rand) {
	g := &c8egen{r: r}
	var v any
	var info c8einfo
	for tries := 0; ; tries++ {
		v, _, info = g.value(1, true)
		if info.dup && !info.bad && !info.never {
			break
		}
		if tries > 200 {
			return
		}
	}
	desc := []byte(fmt.Sprintf("%#v", v))
	var buf bytes.Buffer
	enc := jsontext.NewEncoder(&buf, json.Deterministic(true))
	var err error
	if p := guard(func() {
		err = enc.WriteToken(jsontext.BeginArray)
		if err == nil {
			err = json.MarshalEncode(enc, v)
		}
	}); p != nil {
		c.Panic("MarshalEncode", desc, p, nil)
		return
	}
	if err == nil {
		c.Violate("marshal-accepts-ambiguous", "MarshalEncode(in array)", desc, map[string]any{"goValue": trunc(string(desc), 1500), "out": buf.String()})
		return
	}
	c.Case("PE"+string(desc), true)
	// continue with direct Encoder calls using names that are likely to be present already
	names := []string{"a", "foo_bar", "l", "zz", "A", "1", "0", "2", "3", "#x"}
	sawInvalid := false
	for step := 0; step < 60 && enc.StackDepth() > 0; step++ {
		var tok jsontext.Token
		switch r.IntN(7) {
		case 0, 1, 2:
			tok = jsontext.String(names[r.IntN(len(names))])
		case 3:
			tok = jsontext.Null
		case 4, 5:
			tok = jsontext.EndObject
		default:
			tok = jsontext.EndArray
		}
		var werr error
		if p := guard(func() { werr = enc.WriteToken(tok) }); p != nil {
			c.Panic("Encoder after failed MarshalEncode", desc, p, nil)
			return
		}
		if c8invalidNamespace(werr) {
			sawInvalid = true
		}
	}
	if sawInvalid {
		c.Hit("poison-enc:invalid-namespace")
	}
	if enc.StackDepth() > 0 {
		c.Hit("poison-enc:not-completed")
		return
	}
	c.Hit("poison-enc:completed-by-direct-calls")
	out := buf.Bytes()
	if ok, dup, _ := c8scan(out); ok && dup {
		c.Violate("poisoned-encoder-emits-duplicate", "Encoder after failed MarshalEncode", desc,
			map[string]any{"goValue": trunc(string(desc), 1500), "out": trunc(string(out), 1500), "firstErr": err.Error()})
	}
}

// ---------------------------------------------------------------------------------------------
// Correspondence with the Lean models (family `dup`).

func c8corrUintSet(c *Ctx, or *Oracle, r *rand.Rand, n int) {
	var lines, wants []string
	flush := func() {
		if len(lines) == 0 {
			return
		}
		for i, a := range or.Ask(lines) {
			if a != wants[i] {
				c.Violate("corr-uintset", "dup uintset", []byte(lines[i]), map[string]any{"line": trunc(lines[i], 600), "model": trunc(a, 300), "impl": trunc(wants[i], 300)})
			}
		}
		lines, wants = nil, nil
	}
	for k := 0; k < n; k++ {
		var s json.VerifUintSet
		var sb, wb strings.Builder
		sb.WriteString("dup uintset")
		nops := 1 + r.IntN(40)
		max := []uint{8, 64, 65, 128, 129, 192, 200, 260, 1000}[r.IntN(9)]
		pivots := []uint{0, 1, 62, 63, 64, 65, 126, 127, 128, 129, 190, 191, 192, 193, 255, 256}
		if p := guard(func() {
			for i := 0; i < nops; i++ {
				var x uint
				if r.IntN(3) == 0 {
					x = pivots[r.IntN(len(pivots))]
				} else {
					x = uint(r.UintN(max + 1))
				}
				if r.IntN(4) == 0 {
					fmt.Fprintf(&sb, " h%d", x)
					wb.WriteString(b2s(s.Has(x)))
				} else {
					fmt.Fprintf(&sb, " %d", x)
					wb.WriteString(b2s(s.Insert(x)))
				}
			}
		}); p != nil {
			c.Panic("VerifUintSet", []byte(sb.String()), p, map[string]any{"line": trunc(sb.String(), 600)})
			continue
		}
		lines = append(lines, sb.String())
		wants = append(wants, wb.String())
		c.Case(sb.String(), true)
		if len(lines) >= 2000 {
			flush()
		}
	}
	flush()
	c.HitN("corr:uintset-sequences", int64(n))
}

func c8corrNamespace(c *Ctx, or *Oracle, r *rand.Rand, n int) {
	var lines, wants []string
	flush := func() {
		if len(lines) == 0 {
			return
		}
		for i, a := range or.Ask(lines) {
			if a != wants[i] {
				c.Violate("corr-namespace", "dup ns", []byte(lines[i]), map[string]any{"line": trunc(lines[i], 800), "model": trunc(a, 400), "impl": trunc(wants[i], 400)})
			}
		}
		lines, wants = nil, nil
	}
	for k := 0; k < n; k++ {
		var ns jsontext.VerifNamespace
		var sb, wb strings.Builder
		sb.WriteString("dup ns")
		// profiles: few short names; ~64 names (count threshold); ~10 names of ~100 bytes (byte threshold, FEW names);
		// mixed.  One sequence drives 1..4 objects through the SAME namespace with Reset in between, as
		// objectNamespaceStack.push does for sibling objects and the coders do between top-level values; the later
		// objects draw from the same name pool, so a map that survived Reset shows up as a wrong mode and as a
		// spurious "already present".
		profile := r.IntN(4)
		nameLen, pool := 2, 6
		rmOneIn := 8
		switch profile {
		case 1:
			nameLen, pool, rmOneIn = 2, 5000, 60
		case 2:
			nameLen, pool, rmOneIn = 90+r.IntN(30), 16+r.IntN(24), 20
		case 3:
			nameLen, pool = 1+r.IntN(20), 60+r.IntN(300)
		}
		objects := 1 + r.IntN(4)
		sawMap, sawMapThenReset := false, false
		if p := guard(func() {
			for o := 0; o < objects; o++ {
				if o > 0 {
					if ns.UsesMap() {
						sawMapThenReset = true
					}
					ns.Reset()
					sb.WriteString(" reset")
					wb.WriteString("-")
					if ns.UsesMap() {
						wb.WriteString("M")
					} else {
						wb.WriteString("L")
					}
				}
				nops := 1 + r.IntN(20)
				switch profile {
				case 1: // around the 64-name switch: the 66th insert attempt flips the mode
					nops = 63 + r.IntN(12)
				case 2: // around the 1024-byte switch
					nops = 11 + r.IntN(8)
				case 3:
					nops = 70 + r.IntN(60)
				}
				if o > 0 && r.IntN(2) == 0 {
					nops = 1 + r.IntN(6) // a small sibling after a large one
				}
				for i := 0; i < nops; i++ {
					if ns.Length() > 0 && r.IntN(rmOneIn) == 0 {
						ns.RemoveLast()
						sb.WriteString(" rm")
						wb.WriteString("-")
					} else {
						id := r.IntN(pool)
						name := []byte(strconv.Itoa(id))
						if r.IntN(30) == 0 {
							name = nil // the empty name
						} else {
							for len(name) < nameLen {
								name = append(name, byte('a'+id%26))
							}
						}
						sb.WriteString(" " + hx(name))
						wb.WriteString(b2s(ns.InsertUnquoted(name)))
					}
					if ns.UsesMap() {
						wb.WriteString("M")
						sawMap = true
					} else {
						wb.WriteString("L")
					}
				}
			}
			fmt.Fprintf(&wb, " %d", ns.Length())
			for i := 0; i < ns.Length(); i++ {
				wb.WriteString(" " + hx(ns.GetUnquoted(i)))
			}
		}); p != nil {
			c.Panic("VerifNamespace", []byte(sb.String()), p, map[string]any{"line": trunc(sb.String(), 800)})
			continue
		}
		if sawMap {
			c.Hit("corr:namespace-switched-to-map")
		} else {
			c.Hit("corr:namespace-stayed-linear")
		}
		if sawMapThenReset {
			c.Hit(fmt.Sprintf("corr:namespace-reset-after-map(profile %d)", profile))
		}
		lines = append(lines, sb.String())
		wants = append(wants, wb.String())
		c.Case(sb.String(), true)
		if len(lines) >= 1000 {
			flush()
		}
	}
	flush()
}

// ---------------------------------------------------------------------------------------------

func c8shapePool(c *Ctx, r *rand.Rand, n int) []*c8shape {
	var shapes []*c8shape
	add := func(sh *c8shape) {
		// keep only shapes the library accepts (e.g. tag syntax): `null` must unmarshal
		res := c8unmarshal(0, sh.typ, []byte("null"))
		if res.pan != nil {
			c.Panic("Unmarshal(null)", []byte(sh.typ.String()), res.pan, nil)
			return
		}
		if res.err != nil {
			c.Violate("reject-clean", "Unmarshal(null)", []byte(sh.typ.String()), map[string]any{"type": trunc(sh.typ.String(), 1500), "text": "null", "err": res.err.Error()})
		}
		// the generated tags use only letters, digits, '_' and '-' (never rejected on the unchanged tree):
		// a struct type that does not accept `{}` is the library's doing, not a reason to drop the shape
		if res2 := c8unmarshal(0, sh.typ, []byte("{}")); sh.kind == c8Struct && (res2.err != nil || res2.pan != nil) {
			c.Violate("reject-clean", "Unmarshal({})", []byte(sh.typ.String()), map[string]any{"type": trunc(sh.typ.String(), 1500), "text": "{}", "err": fmt.Sprint(res2.err), "panic": fmt.Sprint(res2.pan)})
		}
		shapes = append(shapes, sh)
		c.Hit("shape:" + c8kindName[sh.kind])
	}
	for _, nf := range []int{66, 70, 130, 140, 195, 200} {
		for k := 0; k < 3; k++ {
			add(c8genShape(r, 0, nf))
		}
	}
	if len(shapes) != c8numBigShapes {
		fail("C08 generator: %d many-field struct shapes, want %d", len(shapes), c8numBigShapes)
	}
	for len(shapes) < n {
		sh := c8genShape(r, 0, 0)
		if sh.kind >= c8Int {
			continue // scalar targets hold no object
		}
		add(sh)
	}
	return shapes
}

func runC08(c *Ctx) {
	if or := c.NewOracle(); or != nil {
		c8corrUintSet(c, or, c.Rng, c.N(4000, 200000))
		c8corrNamespace(c, or, c.Rng, c.N(1500, 60000))
	} else {
		c.Note("oracle not available: correspondence skipped")
	}
	shapes := c8shapePool(c, c.Rng, c.N(300, 3000))
	workers := 16
	nDec, nEnc, nPoison := c.N(20000, 2000000), c.N(20000, 1000000), c.N(4000, 200000)
	phase := func(name string, n int, f func(r *rand.Rand)) {
		start := time.Now()
		var wg sync.WaitGroup
		for w := 0; w < workers; w++ {
			wg.Add(1)
			go func(w int) {
				defer wg.Done()
				defer func() {
					if p := recover(); p != nil {
						c8workerFail.Store(&p)
					}
				}()
				r := rand.New(rand.NewPCG(c.Seed, uint64(len(name))<<32+uint64(w)+77))
				for i := w; i < n && c8workerFail.Load() == nil; i += workers {
					// a panic of the harness's own code while it digests what the library returned is reported
					// and the run continues; only fail() (a machineryFailure) stops it
					if p := guard(func() { f(r) }); p != nil {
						c.Panic("harness worker: "+name, nil, p, nil)
					}
				}
			}(w)
		}
		wg.Wait()
		if p := c8workerFail.Load(); p != nil {
			panic(*p)
		}
		c.Note("%s: %d cases in %.1fs", name, n, time.Since(start).Seconds())
	}
	phase("decode (duplicate + UTF-8 injection)", nDec, func(r *rand.Rand) { c8decodeCase(c, r, shapes) })
	phase("encode (colliding Go values)", nEnc, func(r *rand.Rand) { c8encodeCase(c, r) })
	graphs := c8sgraphPool(c, c.Rng, c.N(80, 800))
	phase("encode (struct graphs with embedded fallback)", nEnc, func(r *rand.Rand) { c8sgEncodeCase(c, r, graphs) })
	phase("poisoned coders", nPoison, func(r *rand.Rand) { c8poisonDecode(c, r, shapes); c8poisonEncode(c, r) })
	c8stopProf()
}

var c8workerFail atomic.Pointer[any]
var c8stopProf = func() {}

func init() { // optional CPU profile of the harness itself (development aid)
	if p := os.Getenv("C08_CPUPROFILE"); p != "" {
		if f, err := os.Create(p); err == nil && pprof.StartCPUProfile(f) == nil {
			c8stopProf = pprof.StopCPUProfile
		}
	}
}
