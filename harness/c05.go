package main

// C05 — Decoding is independent of how the input arrives or is consumed.
//
// Property predicates on the implementation (Go vs Go):
//   * reference transcript: a decoder over the complete []byte (rd == nil, what json.Unmarshal uses),
//     versus decoders fed by adversarial io.Readers (1-byte, empty reads, data+EOF, *bytes.Buffer,
//     *bytes.Reader, *strings.Reader, random chunk plans, every single cut position, transient faults);
//   * per call: kind of call, result, error class (+ByteOffset, +JSONPointer), and after every call
//     InputOffset, StackDepth, StackIndex at every level, StackPointer;
//   * every Value is byte-identical to input[off-len:off];
//   * after EVERY call: bytes handed out by the reader == input[:InputOffset] ++ UnreadBuffer;
//   * a transient fault is returned by the pending ReadToken/ReadValue/PeekKind without changing the
//     observable state and the retried call continues as if nothing happened;
//   * json.UnmarshalRead == json.Unmarshal, json.UnmarshalDecode over a stream == Unmarshal of each value.
// Correspondence (Tie B): jsonwire.ConsumeStringResumable / ConsumeNumberResumable vs the Lean models
// (family `dec`, ops strR / numR / chunkS / chunkN).

import (
	"bytes"
	stdjson "encoding/json"
	"errors"
	"fmt"
	"io"
	"math/rand/v2"
	"os"
	"reflect"
	"sort"
	"strconv"
	"strings"
	"sync"
	"sync/atomic"
	"time"

	json "github.com/go-json-experiment/json"
	"github.com/go-json-experiment/json/internal"
	"github.com/go-json-experiment/json/internal/jsonwire"
	"github.com/go-json-experiment/json/jsontext"
	jsonv1 "github.com/go-json-experiment/json/v1"
)

func init() { register("C05", runC05) }

var c05ErrTransient = errors.New("c05: transient read fault")

// ---------------------------------------------------------------------------------------------
// readers

// c05Plan describes how the input is delivered to the decoder.
type c05Plan struct {
	kind        string // "whole" (reference, rd == nil) | "buffer" | "bytesreader" | "stringsreader" | "chunks"
	name        string // printable
	fixed       int    // chunks: fixed chunk size (>0), e.g. 1
	chunks      []int  // chunks: successive chunk sizes; afterwards everything that fits
	emptyMode   int    // 0 none, 1 one (0,nil) read before every data read, 2 pseudo-random empty reads
	eofWithData bool   // the last data is returned together with io.EOF
	faultAt     int    // index of the Read call that returns (0, transient) once; -1 none
	seed        uint64 // for emptyMode 2
}

func (p c05Plan) String() string {
	s := p.name
	if p.emptyMode != 0 {
		s += fmt.Sprintf("+empty%d", p.emptyMode)
	}
	if p.eofWithData {
		s += "+dataEOF"
	}
	if p.faultAt >= 0 {
		s += fmt.Sprintf("+fault@%d", p.faultAt)
	}
	return s
}

type c05ChunkReader struct {
	data    []byte
	pos     int
	plan    *c05Plan
	ci      int // index into plan.chunks
	crem    int // remaining of the current chunk
	calls   int
	fired   bool
	toggle  bool
	rs      uint64
	eofSent bool
	sticky  bool
}

func (r *c05ChunkReader) Read(p []byte) (int, error) {
	idx := r.calls
	r.calls++
	if r.sticky && r.eofSent {
		return 0, io.EOF // a reader that stays at EOF once it reported it (the model's `eof` event)
	}
	if idx == r.plan.faultAt && !r.fired {
		r.fired = true
		return 0, c05ErrTransient
	}
	if len(p) == 0 {
		return 0, nil
	}
	switch r.plan.emptyMode {
	case 1:
		r.toggle = !r.toggle
		if r.toggle {
			return 0, nil
		}
	case 2:
		r.rs = r.rs*6364136223846793005 + 1442695040888963407
		if (r.rs>>33)%3 == 0 {
			return 0, nil
		}
	}
	if r.pos >= len(r.data) {
		r.eofSent = true
		return 0, io.EOF
	}
	if r.crem == 0 {
		switch {
		case r.plan.fixed > 0:
			r.crem = r.plan.fixed
		case r.ci < len(r.plan.chunks):
			r.crem = r.plan.chunks[r.ci]
			r.ci++
			if r.crem <= 0 {
				r.crem = 1
			}
		default:
			r.crem = len(r.data) - r.pos
		}
	}
	n := min(len(p), r.crem, len(r.data)-r.pos)
	copy(p, r.data[r.pos:r.pos+n])
	r.pos += n
	r.crem -= n
	if r.plan.eofWithData && r.pos == len(r.data) {
		r.eofSent = true
		return n, io.EOF
	}
	return n, nil
}

// c05Feed is a decoder input with instrumentation of how many bytes the reader has handed out.
type c05Feed struct {
	plan c05Plan
	in   []byte // pristine input (never given to the library)
	data []byte // private copy the reader serves from
	rd   io.Reader
	cr   *c05ChunkReader
	left func() int
}

func c05NewFeed(in []byte, plan c05Plan) *c05Feed {
	f := &c05Feed{plan: plan, in: in, data: append(make([]byte, 0, len(in)), in...)}
	switch plan.kind {
	case "buffer":
		bb := bytes.NewBuffer(f.data)
		f.rd, f.left = bb, bb.Len
	case "bytesreader":
		br := bytes.NewReader(f.data)
		f.rd, f.left = br, br.Len
	case "stringsreader":
		sr := strings.NewReader(string(f.data))
		f.rd, f.left = sr, sr.Len
	case "chunks":
		f.cr = &c05ChunkReader{data: f.data, plan: &f.plan, rs: plan.seed | 1}
		f.rd, f.left = f.cr, func() int { return len(f.data) - f.cr.pos }
	default:
		fail("c05: bad plan kind %q", plan.kind)
	}
	return f
}

func (f *c05Feed) handedOut() int { return len(f.in) - f.left() }
func (f *c05Feed) fired() bool    { return f.cr != nil && f.cr.fired }
func (f *c05Feed) reads() int {
	if f.cr != nil {
		return f.cr.calls
	}
	return 0
}

// ---------------------------------------------------------------------------------------------
// transcripts

type c05Rec struct {
	op     byte   // 'T' ReadToken, 'V' ReadValue, 'S' SkipValue, 'P' PeekKind
	res    string // token: kind byte + text | value bytes | peeked kind byte
	ecl    string // error class: nil | EOF | IO | SYN:<sub> | UEOF | other
	eoff   int64
	eptr   string
	off    int64
	depth  int
	idx    string
	ptr    string
	hasPtr bool
	wild   bool // placeholder for a call whose result was lost to a fault (compared with nothing)
}

func c05OpName(op byte) string {
	switch op {
	case 'T':
		return "ReadToken"
	case 'V':
		return "ReadValue"
	case 'S':
		return "SkipValue"
	case 'P':
		return "PeekKind"
	}
	return "?"
}

func (r c05Rec) String() string {
	e := r.ecl
	if strings.HasPrefix(e, "SYN") {
		e += fmt.Sprintf("@%d ptr=%q", r.eoff, r.eptr)
	}
	p := "-"
	if r.hasPtr {
		p = strconv.Quote(r.ptr)
	}
	return fmt.Sprintf("%s -> %q err=%s | off=%d depth=%d idx=%s sp=%s", c05OpName(r.op), trunc(r.res, 60), e, r.off, r.depth, r.idx, p)
}

// c05SynSub classifies the cause of a SyntacticError without looking at message text.
func c05SynSub(err error) string {
	switch {
	case err == io.ErrUnexpectedEOF:
		return "ueof"
	case err == jsontext.ErrDuplicateName:
		return "dup"
	case err == jsontext.ErrNonStringName:
		return "nonstring-name"
	case err == jsonwire.ErrInvalidUTF8:
		return "utf8"
	}
	if te, ok := err.(*jsonwire.InvalidTextError); ok {
		return "text:" + te.Label // "character" | "escape sequence" | "surrogate pair"
	}
	if err == nil {
		return "nil"
	}
	// the remaining unexported sentinels (missing value, max depth, invalid namespace, mismatched delimiter) are
	// package-level values: told apart by IDENTITY (their address), never by text
	if reflect.TypeOf(err).Kind() == reflect.Pointer {
		return fmt.Sprintf("%T@%p", err, err)
	}
	return fmt.Sprintf("%T", err)
}

func c05ErrClass(err error) (cl string, off int64, ptr string) {
	switch {
	case err == nil:
		return "nil", 0, ""
	case err == io.EOF:
		return "EOF", 0, ""
	case errors.Is(err, c05ErrTransient):
		return "IO", 0, ""
	case err == io.ErrUnexpectedEOF:
		return "UEOF", 0, ""
	}
	var se *jsontext.SyntacticError
	if errors.As(err, &se) {
		if _, ok := err.(*jsontext.SyntacticError); ok {
			return "SYN:" + c05SynSub(se.Err), se.ByteOffset, string(se.JSONPointer)
		}
	}
	return fmt.Sprintf("other:%T", err), 0, ""
}

type c05Runner struct {
	c        *Ctx
	in       []byte
	dec      *jsontext.Decoder
	fd       *c05Feed // nil for the reference over the whole slice
	ptrEvery bool     // observe StackPointer after every call (it forces the lazy name stack) or only when asked
	recs     []c05Rec
	bad      string // first invariant failure
	badOp    string
	panicked any
	errs     []c05ErrSnap // every error returned so far with its structured fields at return time
}

// c05ErrSnap remembers an error value together with the structured fields it had when it was returned.
type c05ErrSnap struct {
	err  error
	snap string
	by   string
}

// c05Recheck reports the first remembered error whose structured fields are no longer what they were.
func c05Recheck(errs []c05ErrSnap) (string, bool) {
	for _, s := range errs {
		if now := c05JErr(s.err, 0); now != s.snap {
			return fmt.Sprintf("error returned by %s was %s and later reads as %s", s.by, s.snap, now), true
		}
	}
	return "", false
}

func c05Opts(optSel int) []jsontext.Options {
	var o []jsontext.Options
	if optSel&1 != 0 {
		o = append(o, jsontext.AllowDuplicateNames(true))
	}
	if optSel&2 != 0 {
		o = append(o, jsontext.AllowInvalidUTF8(true))
	}
	if optSel&4 != 0 {
		// semantic errors become non-fatal (the first one is reported at the end), offsets follow the v1 convention
		o = append(o, jsonv1.ReportErrorsWithLegacySemantics(true))
	}
	return o
}

var c05Export = jsontext.Internal.Export(&internal.AllowInternalUse)

func c05NewRunner(c *Ctx, in []byte, plan c05Plan, optSel int, ptrEvery bool) *c05Runner {
	r := &c05Runner{c: c, in: in, ptrEvery: ptrEvery, recs: make([]c05Rec, 0, 8)}
	if p := guard(func() {
		if plan.kind == "whole" {
			// the decoder json.Unmarshal uses: the complete slice in one piece, no reader (never returned to the pool)
			r.dec = c05Export.GetBufferedDecoder(append(make([]byte, 0, len(in)), in...), c05Opts(optSel)...)
		} else {
			r.fd = c05NewFeed(in, plan)
			r.dec = jsontext.NewDecoder(r.fd.rd, c05Opts(optSel)...)
		}
	}); p != nil {
		r.panicked = p
	}
	return r
}

func (r *c05Runner) observe(rc *c05Rec, withPtr bool) (unread []byte) {
	d := r.dec
	rc.off = d.InputOffset()
	rc.depth = d.StackDepth()
	var sb []byte
	lim := rc.depth
	for i := 0; i <= lim; i++ {
		if lim > 96 && i == 8 {
			i = lim - 32 // deep documents: bottom 8 and top 32 levels
			sb = append(sb, '~')
		}
		k, n := d.StackIndex(i)
		if k == 0 {
			sb = append(sb, '.')
		} else {
			sb = append(sb, byte(k))
		}
		sb = strconv.AppendInt(sb, n, 10)
	}
	rc.idx = string(sb)
	if withPtr {
		rc.ptr, rc.hasPtr = string(d.StackPointer()), true
	}
	return d.UnreadBuffer()
}

// call performs one decoder call, records it and evaluates the per-call invariants.
func (r *c05Runner) call(op byte, withPtr bool) c05Rec {
	rc := c05Rec{op: op}
	if r.panicked != nil {
		rc.ecl = "panic"
		return rc
	}
	var unread []byte
	if p := guard(func() {
		var err error
		switch op {
		case 'T':
			var tok jsontext.Token
			tok, err = r.dec.ReadToken()
			if err == nil {
				rc.res = string(rune(tok.Kind())) + tok.String()
			}
		case 'V':
			var v jsontext.Value
			v, err = r.dec.ReadValue()
			if err == nil {
				rc.res = string(v)
			} else if v != nil {
				rc.res = "non-nil value with error: " + string(v)
			}
		case 'S':
			err = r.dec.SkipValue()
		case 'P':
			rc.res = string(rune(r.dec.PeekKind()))
		}
		rc.ecl, rc.eoff, rc.eptr = c05ErrClass(err)
		// errors must not change retroactively: re-read the structured fields of every earlier error
		if msg, changed := c05Recheck(r.errs); changed {
			r.setBad("error-mutated", msg+" (after "+c05OpName(op)+")")
		}
		if err != nil && err != io.EOF {
			r.errs = append(r.errs, c05ErrSnap{err, c05JErr(err, 0), c05OpName(op)})
		}
		// StackPointer costs O(depth): on very deep documents the stream runs sample it (the reference always has it)
		wp := withPtr || (r.ptrEvery && (len(r.recs)%61 == 0 || r.dec.StackDepth() <= 64))
		unread = r.observe(&rc, wp)
	}); p != nil {
		r.panicked = p
		rc.ecl = "panic"
		return rc
	}
	// Value byte identity
	if op == 'V' && rc.ecl == "nil" {
		lo := rc.off - int64(len(rc.res))
		if lo < 0 || rc.off > int64(len(r.in)) || string(r.in[lo:rc.off]) != rc.res {
			r.setBad("value-span", fmt.Sprintf("ReadValue returned %q but input[%d:%d] differs", trunc(rc.res, 80), lo, rc.off))
		}
	}
	// reader accounting: handedOut == InputOffset + len(Unread), and the bytes are the input's
	ho := len(r.in)
	if r.fd != nil {
		ho = r.fd.handedOut()
	}
	if rc.off < 0 || rc.off > int64(len(r.in)) || int64(ho) != rc.off+int64(len(unread)) || !bytes.Equal(unread, r.in[rc.off:ho]) {
		r.setBad("unread-invariant", fmt.Sprintf("after %s: handedOut=%d InputOffset=%d len(UnreadBuffer)=%d unread=%q", c05OpName(op), ho, rc.off, len(unread), trunc(string(unread), 60)))
	}
	r.recs = append(r.recs, rc)
	return rc
}

// finish evaluates the once-per-run invariants.
func (r *c05Runner) finish() {
	if msg, changed := c05Recheck(r.errs); changed {
		r.setBad("error-mutated", msg+" (at the end of the script)")
	}
	if r.fd != nil && !bytes.Equal(r.fd.data, r.in) {
		r.setBad("reader-data-mutated", "the decoder wrote into the memory owned by the reader")
	}
}

func (r *c05Runner) setBad(op, msg string) {
	if r.bad == "" {
		r.bad, r.badOp = msg, op
	}
}

// state is the observable decoder state used by the "fault changes nothing" predicate.
func (rc c05Rec) state() string {
	return fmt.Sprintf("off=%d depth=%d idx=%s ptr=%q/%v", rc.off, rc.depth, rc.idx, rc.ptr, rc.hasPtr)
}

// ---------------------------------------------------------------------------------------------
// running scripts

// c05RunRef runs script on the reference decoder.  If gen != nil the script is produced on the fly and
// stops after the first error (including io.EOF); the ops used are returned.
func c05RunRef(c *Ctx, in []byte, optSel int, script []byte, gen func(i int) byte, maxOps int) (*c05Runner, []byte) {
	r := c05NewRunner(c, in, c05Plan{kind: "whole", name: "whole", faultAt: -1}, optSel, true)
	defer r.finish()
	if gen == nil {
		for _, op := range script {
			r.call(op, true)
		}
		return r, script
	}
	var ops []byte
	for i := 0; i < maxOps; i++ {
		op := gen(i)
		ops = append(ops, op)
		rc := r.call(op, true)
		if rc.ecl != "nil" {
			break
		}
	}
	return r, ops
}

type c05FaultInfo struct {
	firedIn   int  // index of the script op during which the fault fired (-1: never)
	excluded  bool // fault landed inside SkipValue: not claimed atomic
	returned  bool // the faulted call returned the I/O error (or PeekKind cached it)
	stateDiff string
	note      string
}

// c05RunStream runs script on a stream decoder.  With a fault in the plan the faulted call is retried and
// only the retried call is kept in the transcript.
func c05RunStream(c *Ctx, in []byte, plan c05Plan, optSel int, script []byte, ptrEvery bool, probe int) (*c05Runner, c05FaultInfo) {
	r := c05NewRunner(c, in, plan, optSel, ptrEvery)
	fi := c05FaultInfo{firedIn: -1}
	var before c05Rec
	if plan.faultAt >= 0 && r.panicked == nil {
		if p := guard(func() { r.observe(&before, true) }); p != nil {
			r.panicked = p
		}
	}
	for i, op := range script {
		last := i == len(script)-1
		firedBefore := r.fd.fired()
		rc := r.call(op, last || plan.faultAt >= 0)
		if plan.faultAt < 0 || firedBefore || !r.fd.fired() {
			before = rc
			continue
		}
		// the fault fired during this call
		fi.firedIn = i
		if op == 'S' {
			fi.excluded = true
			return r, fi
		}
		faulted := rc.ecl == "IO"
		if op == 'P' {
			faulted = rc.res == "\x00" // the error (I/O or syntactic) is cached for the next read call
		}
		if !faulted {
			// the call completed with a definitive result although a read failed (e.g. an invalid delimiter is
			// reported in preference to the I/O error): it stays in the transcript and is compared as usual
			fi.note = "definitive-result-despite-fault"
			before = rc
			continue
		}
		fi.returned = true
		r.recs = r.recs[:len(r.recs)-1] // drop the faulted call from the transcript
		if rc.state() != before.state() {
			fi.stateDiff = fmt.Sprintf("before %s ; after faulted %s: %s", before.state(), c05OpName(op), rc.state())
		}
		if op == 'P' && probe == 3 && i+1 < len(script) && (script[i+1] == 'T' || script[i+1] == 'V') {
			// do not retry PeekKind: the next read call of the script must deliver the cached fault without changing
			// the state, and that same call, retried, must then behave as if nothing had happened
			pop := script[i+1]
			prc := r.call(pop, true)
			r.recs = r.recs[:len(r.recs)-1]
			if prc.ecl != "IO" {
				fi.excluded = true
				fi.note = "probe-not-io:" + prc.ecl
				return r, fi
			}
			if prc.state() != before.state() && fi.stateDiff == "" {
				fi.stateDiff = fmt.Sprintf("before %s ; after %s delivering the cached fault: %s", before.state(), c05OpName(pop), prc.state())
			}
			r.recs = append(r.recs, c05Rec{op: 'P', wild: true})
			continue
		}
		if op == 'P' && probe != 0 && probe != 3 {
			// the cached error is delivered by the next read call, which must not change the state either
			pop := byte('T')
			if probe == 2 {
				pop = 'V'
			}
			prc := r.call(pop, true)
			r.recs = r.recs[:len(r.recs)-1]
			if prc.ecl == "IO" {
				if prc.state() != before.state() && fi.stateDiff == "" {
					fi.stateDiff = fmt.Sprintf("before %s ; after %s delivering the cached fault: %s", before.state(), c05OpName(pop), prc.state())
				}
			} else {
				// PeekKind had cached a definitive (syntactic) error or the probe consumed something: give up on this case
				fi.excluded = true
				fi.note = "probe-not-io:" + prc.ecl
				return r, fi
			}
		}
		rc2 := r.call(op, true) // retry
		before = rc2
	}
	return r, fi
}

// c05Diff returns the index and the name of the first differing field of two transcripts ("" if equal).
func c05Diff(ref, got []c05Rec) (int, string) {
	n := min(len(ref), len(got))
	for i := 0; i < n; i++ {
		a, b := ref[i], got[i]
		switch {
		case b.wild && a.op == b.op:
			continue
		case a.op != b.op:
			return i, "op"
		case a.res != b.res:
			return i, "result"
		case a.ecl != b.ecl:
			return i, "error-class"
		case a.eoff != b.eoff:
			return i, "error-offset"
		case a.eptr != b.eptr:
			switch {
			case c05SameShapePointer(a.eptr, b.eptr, c05PointerPrefixLen(a.depth, a.idx)):
				// only member names strictly inside the value being read differ
				return i, "error-pointer-name-inside-value-differs"
			case c05SameShapePointer(a.eptr, b.eptr, 0):
				return i, "error-pointer-name-differs"
			}
			return i, "error-pointer"
		case a.off != b.off:
			return i, "input-offset"
		case a.depth != b.depth:
			return i, "stack-depth"
		case a.idx != b.idx:
			return i, "stack-index"
		case a.hasPtr && b.hasPtr && a.ptr != b.ptr:
			return i, "stack-pointer"
		}
	}
	if len(ref) != len(got) {
		return n, "length"
	}
	return -1, ""
}

// c05SameShapePointer: same number of reference tokens, the first keep tokens identical, and no position where two
// different numbers stand - i.e. the pointers differ only in object member names behind the first keep tokens.
func c05SameShapePointer(a, b string, keep int) bool {
	ta, tb := strings.Split(a, "/"), strings.Split(b, "/")
	if len(ta) != len(tb) {
		return false
	}
	// the first keep reference tokens (ta[0] is the empty string before the first '/') must be identical
	for i := 1; i <= keep && i < len(ta); i++ {
		if ta[i] != tb[i] {
			return false
		}
	}
	isNum := func(s string) bool {
		if s == "" {
			return false
		}
		for _, ch := range s {
			if ch < '0' || ch > '9' {
				return false
			}
		}
		return true
	}
	for i := range ta {
		// an array index is never a member name: two different numbers are a different kind of error
		// (a member name that merely looks like a number, e.g. "1", may be replaced by stale bytes)
		if ta[i] != tb[i] && isNum(ta[i]) && isNum(tb[i]) {
			return false
		}
	}
	return true
}

// c05PointerPrefixLen is the number of reference tokens the decoder state contributes to the pointer of an error
// inside the NEXT value (AppendStackPointer(+1)): one per open container, except that an object waiting for a
// member name contributes nothing yet.  idx is the StackIndex string of the record (".n" then "{n" / "[n" per level).
func c05PointerPrefixLen(depth int, idx string) int {
	if depth == 0 {
		return 0
	}
	i := strings.LastIndexAny(idx, "{[")
	if i >= 0 && idx[i] == '{' {
		if n, err := strconv.Atoi(idx[i+1:]); err == nil && n%2 == 0 {
			return depth - 1
		}
	}
	return depth
}

type c05Env struct {
	allCuts  bool           // json-level cases: additionally every two-chunk split of the input
	extraOpt []json.Options // json-level cases: additional options (user unmarshalers)
	c        *Ctx
	mu       sync.Mutex
	minimise map[string]int
	cases    atomic.Int64
}

func c05Script(s []byte) string { return string(s) }

func c05Detail(in []byte, plan c05Plan, optSel int, script []byte, i int, ref, got []c05Rec) map[string]any {
	d := map[string]any{"input": trunc(string(in), 200), "input_len": len(in), "reader": plan.String(), "options": optSel,
		"script": trunc(c05Script(script), 200), "call_index": i}
	if plan.kind == "chunks" && plan.fixed == 0 {
		d["chunks"] = fmt.Sprint(plan.chunks)
	}
	// everything --replay needs to re-run exactly this case
	d["replay"] = map[string]any{"kind": plan.kind, "name": plan.name, "fixed": plan.fixed, "chunks": plan.chunks, "empty_mode": plan.emptyMode,
		"eof_with_data": plan.eofWithData, "fault_at": plan.faultAt, "seed": plan.seed, "script": string(script), "options": optSel}
	if i >= 0 && i < len(ref) {
		d["whole_slice"] = ref[i].String()
	}
	if i >= 0 && i < len(got) {
		d["stream"] = got[i].String()
	}
	return d
}

// check compares one stream run against the reference transcript and reports.
func (e *c05Env) check(in []byte, plan c05Plan, optSel int, script []byte, ref *c05Runner, ptrEvery bool, probe int) {
	c := e.c
	got, fi := c05RunStream(c, in, plan, optSel, script, ptrEvery, probe)
	got.finish()
	e.cases.Add(1)
	if got.panicked != nil {
		c.Panic("stream:"+plan.kind, in, got.panicked, c05Detail(in, plan, optSel, script, len(got.recs), ref.recs, got.recs))
		return
	}
	if got.bad != "" {
		d := c05Detail(in, plan, optSel, script, len(got.recs)-1, ref.recs, got.recs)
		d["what"] = got.bad
		c.Violate(got.badOp, "stream:"+got.badOp, in, d)
		return
	}
	if plan.faultAt >= 0 {
		switch {
		case fi.firedIn < 0:
			c.Hit("fault:not-reached")
		case fi.excluded:
			c.Hit("fault:excluded(" + c05OpName(script[fi.firedIn]) + ")")
			return
		case fi.returned:
			c.Hit("fault:returned-and-retried(" + c05OpName(script[fi.firedIn]) + ")")
		default:
			c.Hit("fault:" + fi.note)
		}
		if fi.stateDiff != "" {
			d := c05Detail(in, plan, optSel, script, fi.firedIn, ref.recs, got.recs)
			d["what"] = fi.stateDiff
			c.Violate("fault-changes-state", c05OpName(script[fi.firedIn])+":state-after-transient-error", in, d)
			return
		}
	}
	want := ref.recs
	if len(got.recs) < len(want) && len(got.recs) < len(script) {
		c.Hit("transcript-shorter-than-reference")
	}
	i, field := c05Diff(want, got.recs)
	if field == "" {
		return
	}
	op := c05OpName(script[min(i, len(script)-1)]) + ":" + field
	kind := "stream-mismatch"
	if plan.faultAt >= 0 && fi.firedIn >= 0 {
		// is it the fault or the chunking?  re-run without the fault
		p2 := plan
		p2.faultAt = -1
		g2, _ := c05RunStream(c, in, p2, optSel, script, ptrEvery, 0)
		if _, f2 := c05Diff(ref.recs, g2.recs); f2 == "" {
			kind = "fault-mismatch"
		}
	}
	d := c05Detail(in, plan, optSel, script, i, want, got.recs)
	d["replay"].(map[string]any)["ptr_every"] = ptrEvery
	d["replay"].(map[string]any)["probe"] = probe
	if min := e.minimiseCase(kind, op, in, plan, optSel, script, ptrEvery); min != nil {
		d["minimised"] = min
	}
	c.Violate(kind, op, in, d)
}

// minimiseCase shrinks (input, script) greedily while the same (kind-independent) op signature persists under the
// same kind of reader.  Done only for the first occurrences of a signature.
func (e *c05Env) minimiseCase(kind, op string, in []byte, plan c05Plan, optSel int, script []byte, ptrEvery bool) map[string]any {
	e.mu.Lock()
	e.minimise[kind+op]++
	n := e.minimise[kind+op]
	e.mu.Unlock()
	if n > 2 || len(in) > 600 || plan.faultAt >= 0 {
		return nil
	}
	// express the plan relative to the input so that it survives shrinking: keep std readers / fixed as they are,
	// turn a chunk list into its first cut only
	same := func(in2 []byte, script2 []byte, plan2 c05Plan) bool {
		if len(script2) == 0 {
			return false
		}
		ref, _ := c05RunRef(e.c, in2, optSel, script2, nil, 0)
		got, _ := c05RunStream(e.c, in2, plan2, optSel, script2, ptrEvery, 0)
		if ref.panicked != nil || got.panicked != nil {
			return false
		}
		i, f := c05Diff(ref.recs, got.recs)
		return f != "" && c05OpName(script2[min(i, len(script2)-1)])+":"+f == op
	}
	cur, cs, cp := append([]byte(nil), in...), append([]byte(nil), script...), plan
	if !same(cur, cs, cp) {
		return nil
	}
	for changed := true; changed; {
		changed = false
		for i := len(cs) - 1; i >= 0; i-- {
			t := append(append([]byte(nil), cs[:i]...), cs[i+1:]...)
			if same(cur, t, cp) {
				cs, changed = t, true
			}
		}
		for i := len(cur) - 1; i >= 0; i-- {
			t := append(append([]byte(nil), cur[:i]...), cur[i+1:]...)
			p2 := cp
			if len(p2.chunks) > 0 {
				// shift the cuts that lie behind the removed byte
				p2.chunks = append([]int(nil), cp.chunks...)
				pos := 0
				for j := range p2.chunks {
					if pos+p2.chunks[j] > i {
						if p2.chunks[j] > 1 {
							p2.chunks[j]--
						}
						break
					}
					pos += p2.chunks[j]
				}
			}
			if same(t, cs, p2) {
				cur, cp, changed = t, p2, true
			}
		}
	}
	ref, _ := c05RunRef(e.c, cur, optSel, cs, nil, 0)
	got, _ := c05RunStream(e.c, cur, cp, optSel, cs, ptrEvery, 0)
	i, _ := c05Diff(ref.recs, got.recs)
	m := map[string]any{"input": string(cur), "input_hex": hx(cur), "script": c05Script(cs), "reader": cp.String()}
	if len(cp.chunks) > 0 {
		m["chunks"] = fmt.Sprint(cp.chunks)
	}
	if i >= 0 && i < len(ref.recs) && i < len(got.recs) {
		m["whole_slice"], m["stream"] = ref.recs[i].String(), got.recs[i].String()
	}
	return m
}

// refOK reports problems of the reference run itself.
func (e *c05Env) refOK(in []byte, optSel int, script []byte, ref *c05Runner) bool {
	if ref.panicked != nil {
		e.c.Panic("whole-slice", in, ref.panicked, map[string]any{"script": c05Script(script), "input": trunc(string(in), 200)})
		return false
	}
	if ref.bad != "" {
		e.c.Violate(ref.badOp, "whole:"+ref.badOp, in, map[string]any{"what": ref.bad, "script": c05Script(script), "input": trunc(string(in), 200)})
		return false
	}
	return true
}

// ---------------------------------------------------------------------------------------------
// plans

func c05StdPlans() []c05Plan {
	return []c05Plan{
		{kind: "buffer", name: "bytes.Buffer", faultAt: -1},
		{kind: "bytesreader", name: "bytes.Reader", faultAt: -1},
		{kind: "stringsreader", name: "strings.Reader", faultAt: -1},
		{kind: "chunks", name: "1-byte", fixed: 1, faultAt: -1},
		{kind: "chunks", name: "1-byte", fixed: 1, emptyMode: 1, faultAt: -1},
		{kind: "chunks", name: "max", eofWithData: true, faultAt: -1},
		{kind: "chunks", name: "3-byte", fixed: 3, emptyMode: 2, eofWithData: true, seed: 7, faultAt: -1},
	}
}

func c05CutPlan(cut int) c05Plan {
	return c05Plan{kind: "chunks", name: "cut", chunks: []int{cut}, faultAt: -1}
}

func c05RandomPlan(r *rand.Rand, n int) c05Plan {
	p := c05Plan{kind: "chunks", name: "random", faultAt: -1, seed: r.Uint64()}
	switch r.IntN(4) {
	case 0: // small chunks
		for t := 0; t < n; {
			k := 1 + r.IntN(8)
			p.chunks = append(p.chunks, k)
			t += k
		}
	case 1: // geometric sizes
		for t := 0; t < n; {
			k := 1 << r.IntN(13)
			k = 1 + r.IntN(k)
			p.chunks = append(p.chunks, k)
			t += k
		}
	case 2: // a few cuts
		k := 1 + r.IntN(4)
		cuts := make([]int, k)
		for i := range cuts {
			cuts[i] = r.IntN(n + 1)
		}
		sort.Ints(cuts)
		prev := 0
		for _, ct := range cuts {
			if ct > prev {
				p.chunks = append(p.chunks, ct-prev)
				prev = ct
			}
		}
	default: // sizes around the buffer sizes
		for t := 0; t < n; {
			k := []int{63, 64, 65, 127, 128, 129, 1, 2, 48, 16}[r.IntN(10)]
			p.chunks = append(p.chunks, k)
			t += k
		}
	}
	p.emptyMode = []int{0, 0, 1, 2}[r.IntN(4)]
	p.eofWithData = r.IntN(3) == 0
	return p
}

// ---------------------------------------------------------------------------------------------
// inputs

var c05SmallDocs = []string{
	`null`, `true`, `false`, `0`, `-1.5e+3`, `"a"`, `"é\n"`, `"` + c05BU + `00e9" `, `"` + c05BU + `d83d` + c05BU + `de00"`, "\"\xc3\xa9\xe2\x82\xac\xf0\x9f\x98\x80\"",
	`[]`, `{}`, `[1,2]`, `[[],{}]`, `{"a":1}`, `{"a":[true,null]}`, `{"a":{"b":[1,"x"]},"c":2}`, ` [ null , true ] `,
	`1 2 3`, `"a" "b"`, `[1] {"k":"v"} null`, "{\"a\":1}\n{\"a\":2}\n", `{"a":1,"a":2}`, `{"a":1,"a":2}`, `[{"a":{"a":1},"b":[{}]}]`,
	`[1,]`, `[,1]`, `{"a"}`, `{"a":}`, `{"a":1,}`, `{"a":1]`, `[}`, `]`, `}`, `{1:2}`, `[1 2]`, `{"a" 1}`, `{"a":1 "b":2}`, `nul`, `nulx`, `tru`, `fals`, `-`, `0.`, `1e`, `1e+`, `01`, `1.e1`, `"ab`, `"\`, `"\u12`, `"\ud800`, `"\ud800\u`, `"\ud800\udc0`, `"\ud800\ud800"`, "\"\xf0\x9f\"", "\"\xff\"", "\"\x01\"", `"\x"`,
	`null [{"name":"abc`, `[{"name":"abc`, `{"k":[{"name":{"x":[1,`, `[0,{"a":[1,2,{"bb":tru`, ` {"a" : {"b" : "c" , "d" : [ ] } } `, `[{"a":1},{"a":2,"b":[3]}] 4`,
	`,`, `:`, `[:]`, `{,}`, `{"a",1}`, `[1:2]`, ` `, ``, "\n\t\r ", `#`, `[1,2,3,4,5,6,7,8,9,10]`, `{"a":{"a":{"a":{"a":{}}}}}`, `[[[[[[1]]]]]]`, `[[[[[[1]]]]]`, "{\"€\":\"\U0001F600\",\"é\":[]}", `{"€":"😀","é":[]}`,
}

type c05Gen struct{ r *rand.Rand }

var c05UniPieces = []string{"é", "€", "\U0001F600", " ", " ", "�", "\U0010ffff", "߿", "ࠀ", "￿", "\U00010000", "\u007f", "\u0080"}

// c05BU is backslash-u (kept apart so that no tool rewrites the escapes below)
const c05BU = "\\" + "u"

var c05EscPieces = []string{`\n`, `\"`, `\\`, `\/`, `\b`, `\f`, `\r`, `\t`, `\u0000`, `\u001F`, `\u001f`, c05BU + "00e9", c05BU + "20AC", c05BU + "d83d" + c05BU + "de00", c05BU + "D83D" + c05BU + "DE00", c05BU + "dbff" + c05BU + "dfff", c05BU + "0041", c05BU + "fffd", `\u000a`, `\u007f`}
var c05BadPieces = []string{`\x`, `\u12`, `\u12G4`, `\ud800`, `\ud800x`, `\ud800A`, `\udc00`, `\ud800\ud800`, "\xff", "\xc3", "\xe2\x82", "\xf0\x9f\x98", "\xc0\x80", "\xed\xa0\x80", "\x00", "\x1f", "\n", `\`, "\xf4\x90\x80\x80"}

func (g c05Gen) str(maxPieces int, bad bool) []byte {
	b := []byte{'"'}
	n := g.r.IntN(maxPieces + 1)
	for i := 0; i < n; i++ {
		switch k := g.r.IntN(20); {
		case k < 9:
			b = append(b, "abcxyz ABC019_-<>&/:,{}[]"[g.r.IntN(25)])
		case k < 12:
			b = append(b, c05UniPieces[g.r.IntN(len(c05UniPieces))]...)
		case k < 16:
			b = append(b, c05EscPieces[g.r.IntN(len(c05EscPieces))]...)
		case k < 17 && bad:
			b = append(b, c05BadPieces[g.r.IntN(len(c05BadPieces))]...)
		default:
			for j := g.r.IntN(12); j >= 0; j-- {
				b = append(b, byte('a'+g.r.IntN(26)))
			}
		}
	}
	return append(b, '"')
}

func (g c05Gen) num(bad bool) []byte {
	var b []byte
	if g.r.IntN(3) == 0 {
		b = append(b, '-')
	}
	digits := func(n int) {
		for i := 0; i < n; i++ {
			b = append(b, byte('0'+g.r.IntN(10)))
		}
	}
	if g.r.IntN(4) == 0 {
		b = append(b, '0')
	} else {
		b = append(b, byte('1'+g.r.IntN(9)))
		digits(g.r.IntN(6) * g.r.IntN(4))
	}
	if g.r.IntN(3) == 0 {
		b = append(b, '.')
		digits(1 + g.r.IntN(5))
	}
	if g.r.IntN(3) == 0 {
		b = append(b, "eE"[g.r.IntN(2)])
		if k := g.r.IntN(3); k < 2 {
			b = append(b, "+-"[k])
		}
		digits(1 + g.r.IntN(3))
	}
	if bad && g.r.IntN(6) == 0 {
		return [][]byte{[]byte("-"), []byte("01"), []byte("1."), []byte("1e"), []byte("1e+"), []byte(".5"), []byte("+1"), []byte("-.1"), []byte("1.5.2"), []byte("1e5e5"), []byte("0x10"), []byte("1E-")}[g.r.IntN(12)]
	}
	return b
}

func (g c05Gen) ws() []byte {
	switch g.r.IntN(8) {
	case 0:
		return []byte(" ")
	case 1:
		return []byte("\n\t")
	case 2:
		return bytes.Repeat([]byte(" "), g.r.IntN(6)*g.r.IntN(6))
	}
	return nil
}

func (g c05Gen) value(depth int, bad bool) []byte {
	k := g.r.IntN(12)
	if depth <= 0 && k >= 7 {
		k = g.r.IntN(7)
	}
	switch {
	case k < 1:
		return []byte("null")
	case k < 2:
		return []byte([]string{"true", "false"}[g.r.IntN(2)])
	case k < 4:
		return g.num(bad)
	case k < 7:
		return g.str(6, bad)
	case k < 9:
		b := []byte{'['}
		n := g.r.IntN(5)
		for i := 0; i < n; i++ {
			if i > 0 {
				b = append(b, ',')
			}
			b = append(b, g.ws()...)
			b = append(b, g.value(depth-1, bad)...)
			b = append(b, g.ws()...)
		}
		if n == 0 {
			b = append(b, g.ws()...)
		}
		return append(b, ']')
	default:
		b := []byte{'{'}
		n := g.r.IntN(5)
		var names [][]byte
		for i := 0; i < n; i++ {
			if i > 0 {
				b = append(b, ',')
			}
			b = append(b, g.ws()...)
			name := g.str(3, bad)
			if len(names) > 0 && g.r.IntN(12) == 0 {
				name = names[g.r.IntN(len(names))] // duplicate name
			}
			names = append(names, name)
			b = append(b, name...)
			b = append(b, g.ws()...)
			b = append(b, ':')
			b = append(b, g.ws()...)
			b = append(b, g.value(depth-1, bad)...)
			b = append(b, g.ws()...)
		}
		if n == 0 {
			b = append(b, g.ws()...)
		}
		return append(b, '}')
	}
}

func (g c05Gen) mutate(b []byte) []byte {
	if len(b) == 0 {
		return b
	}
	b = append([]byte(nil), b...)
	alpha := []byte("{}[],:\"\\/u0 19-+.eEntfa\n\x00\x7f\x80\xc2\xe0\xf0\xff")
	switch g.r.IntN(6) {
	case 0: // truncate
		return b[:g.r.IntN(len(b))]
	case 1: // delete
		i := g.r.IntN(len(b))
		return append(b[:i], b[i+1:]...)
	case 2: // replace
		b[g.r.IntN(len(b))] = alpha[g.r.IntN(len(alpha))]
		return b
	case 3: // insert
		i := g.r.IntN(len(b) + 1)
		return append(b[:i], append([]byte{alpha[g.r.IntN(len(alpha))]}, b[i:]...)...)
	case 4: // swap two bytes
		i, j := g.r.IntN(len(b)), g.r.IntN(len(b))
		b[i], b[j] = b[j], b[i]
		return b
	default: // truncate near the end
		k := 1 + g.r.IntN(min(8, len(b)))
		return b[:len(b)-k]
	}
}

// doc produces one test input: mostly valid values and streams, a share of mutated/invalid ones.
func (g c05Gen) doc() ([]byte, string) {
	bad := g.r.IntN(5) == 0
	var b []byte
	class := "value"
	nvals := 1
	if g.r.IntN(3) == 0 {
		nvals = 1 + g.r.IntN(5)
		class = "stream"
	}
	for i := 0; i < nvals; i++ {
		b = append(b, g.ws()...)
		b = append(b, g.value(1+g.r.IntN(4), bad)...)
		if i+1 < nvals {
			b = append(b, " \n"[g.r.IntN(2)])
		}
	}
	b = append(b, g.ws()...)
	if g.r.IntN(3) == 0 {
		for k := 1 + g.r.IntN(2); k > 0; k-- {
			b = g.mutate(b)
		}
		class += "+mutated"
	} else if bad {
		class += "+badpieces"
	}
	return b, class
}

// c05Sized builds inputs of (about) the given size in a given shape.
func c05Sized(shape string, size int) []byte {
	rep := func(s string, n int) []byte { return bytes.Repeat([]byte(s), max(n, 0)) }
	var b []byte
	switch shape {
	case "string":
		b = append(append([]byte{'"'}, rep("x", size-2)...), '"')
	case "string-esc":
		b = append(append([]byte{'"'}, rep(`ab\n`+c05BU+"00e9"+c05BU+"d83d"+c05BU+"de00", (size-2)/22)...), '"')
	case "string-utf8":
		b = append(append([]byte{'"'}, rep("é€\U0001F600", (size-2)/9)...), '"')
	case "number":
		b = append([]byte("1"), rep("7", size-1)...)
	case "number-frac":
		b = append(append([]byte("-0."), rep("3", size/2)...), append([]byte("e+"), rep("1", size-size/2-5)...)...)
	case "array":
		b = append(append([]byte("[1"), rep(",1", (size-3)/2)...), ']')
	case "array-str":
		b = append(append([]byte(`["ab"`), rep(`,"ab"`, (size-6)/5)...), ']')
	case "deep":
		b = append(rep("[", size/2), rep("]", size/2)...)
	case "deep-obj":
		b = append(append(rep(`{"a":`, size/6), '1'), rep("}", size/6)...)
	case "ws":
		b = append(append([]byte("["), rep(" ", size/2-1)...), append([]byte("1"), append(rep("\n", size-size/2-2), ']')...)...)
	case "name":
		b = append(append([]byte(`{"`), rep("n", size-7)...), []byte(`":1}`)...)
	case "members":
		b = []byte("{")
		for i := 0; len(b) < size-12; i++ {
			if i > 0 {
				b = append(b, ',')
			}
			b = append(b, fmt.Sprintf(`"k%d":%d`, i, i)...)
		}
		b = append(b, '}')
	case "objs":
		b = []byte("[")
		for i := 0; len(b) < size-24; i++ {
			if i > 0 {
				b = append(b, ',')
			}
			b = append(b, fmt.Sprintf(`{"id":%d,"v":["x",null]}`, i)...)
		}
		b = append(b, ']')
	}
	return b
}

var c05Shapes = []string{"string", "string-esc", "string-utf8", "number", "number-frac", "array", "array-str", "deep", "deep-obj", "ws", "name", "members", "objs"}

func c05Sizes(thorough bool) []int {
	var s []int
	for _, base := range []int{64, 128, 256, 512, 1024, 2048, 4096, 8192} {
		ds := []int{-1, 0, 1}
		if thorough {
			ds = []int{-3, -2, -1, 0, 1, 2, 3}
		}
		if base == 64 {
			ds = []int{-16, -4, -3, -2, -1, 0, 1, 2, 3, 4, 16}
		}
		for _, d := range ds {
			s = append(s, base+d)
		}
		if base >= 64 && base < 8192 {
			s = append(s, base*3/4, base*3/4+1, base*3/2)
		}
	}
	return s
}

// ---------------------------------------------------------------------------------------------
// phases

func c05Parallel(c *Ctx, n int, f func(i int)) {
	workers := 4
	if c.Thorough() {
		workers = 16
	}
	var wg sync.WaitGroup
	var next atomic.Int64
	var mf atomic.Value
	for w := 0; w < workers; w++ {
		wg.Add(1)
		go func() {
			defer wg.Done()
			defer func() {
				if r := recover(); r != nil {
					mf.Store(fmt.Sprint(r))
				}
			}()
			for {
				i := int(next.Add(1)) - 1
				if i >= n || c.numViolations() >= 20 {
					return
				}
				f(i)
			}
		}()
	}
	wg.Wait()
	if v := mf.Load(); v != nil {
		fail("c05 worker: %v", v)
	}
}

func c05Rng(c *Ctx, phase, i uint64) *rand.Rand {
	return rand.New(rand.NewPCG(c.Seed^(phase<<56), 0x5eed0000+i))
}

func c05AllScripts(l int) [][]byte {
	var out [][]byte
	ops := []byte("TVSP")
	cur := make([]byte, l)
	var rec func(i int)
	rec = func(i int) {
		if i == l {
			out = append(out, append([]byte(nil), cur...))
			return
		}
		for _, o := range ops {
			cur[i] = o
			rec(i + 1)
		}
	}
	rec(0)
	return out
}

func c05SmallInputs(thorough bool) [][]byte {
	seen := map[string]bool{}
	var out [][]byte
	add := func(s string) {
		if !seen[s] {
			seen[s] = true
			out = append(out, []byte(s))
		}
	}
	for _, d := range c05SmallDocs {
		add(d)
	}
	// every prefix of the structured documents (truncation at every byte)
	for _, d := range c05SmallDocs {
		if len(d) > 30 && !thorough {
			continue
		}
		for i := 1; i < len(d); i++ {
			add(d[:i])
		}
	}
	return out
}

// Phase A: exhaustive call interleavings on small documents x every reader x every cut position.
func (e *c05Env) phaseExhaustive() {
	c := e.c
	l := c.N(5, 7)
	scripts := c05AllScripts(l)
	// all scripts of length 5 (quick) / 7 (thorough) on the hand-written documents, length 3 / 4 on all their prefixes
	var docs [][]byte
	for _, d := range c05SmallDocs {
		docs = append(docs, []byte(d))
	}
	short := c05AllScripts(c.N(3, 4))
	all := c05SmallInputs(true)
	type job struct {
		in      []byte
		scripts [][]byte
	}
	var jobs []job
	for _, d := range docs {
		// split the scripts of one document in blocks to balance the workers
		for i := 0; i < len(scripts); i += 256 {
			jobs = append(jobs, job{d, scripts[i:min(i+256, len(scripts))]})
		}
	}
	for _, d := range all {
		jobs = append(jobs, job{d, short})
	}
	c05Parallel(c, len(jobs), func(ji int) {
		j := jobs[ji]
		in := j.in
		plans := c05StdPlans()
		if len(in) <= 40 {
			for cut := 1; cut < len(in); cut++ {
				plans = append(plans, c05CutPlan(cut))
			}
		} else {
			for cut := 1; cut < len(in); cut += 3 {
				plans = append(plans, c05CutPlan(cut))
			}
		}
		for si, s := range j.scripts {
			optSel := 0
			if si%8 == 7 {
				optSel = 1 + si/8%3
			}
			ref, _ := c05RunRef(c, in, optSel, s, nil, 0)
			if !e.refOK(in, optSel, s, ref) {
				continue
			}
			nerr := 0
			for _, rc := range ref.recs {
				if rc.ecl != "nil" {
					nerr++
				}
			}
			c.Case("A|"+string(in)+"|"+string(s), len(in) > 1)
			for pi, p := range plans {
				e.check(in, p, optSel, s, ref, (si+pi)%2 == 0, 0)
			}
			c.HitN("exhaustive:stream-runs", int64(len(plans)))
			if nerr == 0 {
				c.Hit("exhaustive:script-without-error")
			} else {
				c.Hit("exhaustive:script-with-error")
			}
		}
	})
	c.Note("phase A: %d documents x all %d scripts of length %d, %d inputs (documents and all their prefixes) x all %d scripts of length %d; readers: %d standard plans + every cut position",
		len(docs), len(scripts), l, len(all), len(short), len(short[0]), len(c05StdPlans()))
}

// Phase B: a transient fault at every Read index.
func (e *c05Env) phaseFaults() {
	c := e.c
	docs := c05SmallInputs(c.Thorough())
	scripts := c05AllScripts(c.N(3, 4))
	// plus fixed longer scripts
	scripts = append(scripts, []byte("TTTTTTTTTTTT"), []byte("PTPTPTPTPTPTPT"), []byte("VVVV"), []byte("TPVPTPVPT"), []byte("TTVTTVTTV"), []byte("PPTPPVPP"))
	c05Parallel(c, len(docs), func(di int) {
		in := docs[di]
		r := c05Rng(c, 2, uint64(di))
		base := []c05Plan{
			{kind: "chunks", name: "1-byte", fixed: 1, faultAt: -1},
			{kind: "chunks", name: "max", faultAt: -1},
			{kind: "chunks", name: "max", eofWithData: true, emptyMode: 1, faultAt: -1},
		}
		if len(in) > 2 {
			base = append(base, c05CutPlan(1+r.IntN(len(in)-1)), c05CutPlan(1+r.IntN(len(in)-1)))
		}
		for si, s := range scripts {
			if !c.Thorough() && len(in) > 12 && si%4 != di%4 {
				continue
			}
			ref, _ := c05RunRef(c, in, 0, s, nil, 0)
			if !e.refOK(in, 0, s, ref) {
				continue
			}
			for _, bp := range base {
				// learn the number of Read calls of the fault-free run
				g0, _ := c05RunStream(c, in, bp, 0, s, true, 0)
				nreads := g0.fd.reads()
				for k := 0; k < nreads; k++ {
					p := bp
					p.faultAt = k
					c.Case("B|"+string(in)+"|"+string(s)+"|"+p.String(), true)
					e.check(in, p, 0, s, ref, true, (k+si)%4)
				}
			}
		}
	})
}

// c05ScriptGen returns an on-the-fly script generator of the given style.
func c05ScriptGen(style int, r *rand.Rand) func(i int) byte {
	switch style {
	case 0:
		return func(int) byte { return 'T' }
	case 1:
		return func(int) byte { return 'V' }
	case 2:
		return func(int) byte { return 'S' }
	case 3:
		return func(i int) byte { return "PT"[i%2] }
	case 4:
		return func(i int) byte { return "TPV"[i%3] }
	case 5: // descend with tokens, occasionally take a whole value
		return func(int) byte {
			if r.IntN(6) == 0 {
				return "VS"[r.IntN(2)]
			}
			return "TTTP"[r.IntN(4)]
		}
	default:
		return func(int) byte { return "TVSP"[r.IntN(4)] }
	}
}

// Phase C: random documents, random scripts until error/EOF, standard + random plans, a few faults.
func (e *c05Env) phaseRandom() {
	c := e.c
	n := c.N(6000, 400000)
	c05Parallel(c, n, func(i int) {
		r := c05Rng(c, 3, uint64(i))
		g := c05Gen{r}
		in, class := g.doc()
		optSel := 0
		if r.IntN(4) == 0 {
			optSel = 1 + r.IntN(3)
		}
		style := r.IntN(8)
		ref, script := c05RunRef(c, in, optSel, nil, c05ScriptGen(style, r), 4000)
		if len(script) == 0 || !e.refOK(in, optSel, script, ref) {
			return
		}
		last := ref.recs[len(ref.recs)-1]
		c.Case("C|"+string(in)+"|"+string(script), len(in) >= 2)
		c.Hit("random:input:" + class)
		c.Hit("random:final:" + last.ecl)
		c.Hit(fmt.Sprintf("random:size<=%d", c05Bucket(len(in))))
		plans := c05StdPlans()
		for k := 0; k < 4; k++ {
			plans = append(plans, c05RandomPlan(r, len(in)))
		}
		if len(in) > 1 {
			plans = append(plans, c05CutPlan(1+r.IntN(len(in)-1)), c05CutPlan(1+r.IntN(len(in)-1)))
		}
		for pi, p := range plans {
			e.check(in, p, optSel, script, ref, (i+pi)%2 == 0, 0)
		}
		// faults
		for k := 0; k < 3; k++ {
			p := plans[3+r.IntN(len(plans)-3)]
			if p.kind != "chunks" {
				continue
			}
			g0, _ := c05RunStream(c, in, p, optSel, script, true, 0)
			if nr := g0.fd.reads(); nr > 0 {
				p.faultAt = r.IntN(nr)
				e.check(in, p, optSel, script, ref, true, r.IntN(4))
			}
		}
	})
}

func c05Bucket(n int) int {
	for _, b := range []int{16, 64, 128, 256, 512, 1024, 2048, 4096, 8192, 16384} {
		if n <= b {
			return b
		}
	}
	return 1 << 30
}

// Phase D: size sweep around the initial buffer size and every doubling.
func (e *c05Env) phaseSizes() {
	c := e.c
	type job struct {
		shape string
		size  int
		wrap  int
	}
	var jobs []job
	for _, sh := range c05Shapes {
		for _, sz := range c05Sizes(c.Thorough()) {
			for wrap := 0; wrap < 5; wrap++ {
				if !c.Thorough() && sz > 300 && wrap != 0 && (sz+wrap)%3 != 0 {
					continue
				}
				jobs = append(jobs, job{sh, sz, wrap})
			}
		}
	}
	c05Parallel(c, len(jobs), func(ji int) {
		j := jobs[ji]
		r := c05Rng(c, 4, uint64(ji))
		core := c05Sized(j.shape, j.size)
		var in []byte
		switch j.wrap {
		case 0:
			in = core
		case 1: // something consumed before (prevStart > 0), something after
			in = append(append([]byte(`null [0,`), core...), []byte(`,{"z":1}] true`)...)
		case 2: // as object member value, then an error behind it
			in = append(append([]byte(`{"first":1,"second":`), core...), []byte(`,"third":}`)...)
		case 3: // truncated
			in = append([]byte(`[{"name":`), core[:len(core)-1-r.IntN(min(4, len(core)-1))]...)
		case 4: // invalid byte near the end
			in = append([]byte(` [`), core...)
			in[len(in)-1-r.IntN(min(3, len(in)-1))] = "\x00}\\x"[r.IntN(4)]
		}
		for style := 0; style < 7; style++ {
			if !c.Thorough() && j.size > 1100 && style != ji%7 && style != (ji+3)%7 {
				continue
			}
			ref, script := c05RunRef(c, in, 0, nil, c05ScriptGen(style, r), 40000)
			if len(script) == 0 || !e.refOK(in, 0, script, ref) {
				continue
			}
			c.Case(fmt.Sprintf("D|%s|%d|%d|%d", j.shape, j.size, j.wrap, style), true)
			c.Hit("sizes:shape:" + j.shape)
			c.Hit(fmt.Sprintf("sizes:size<=%d", c05Bucket(len(in))))
			c.Hit("sizes:final:" + ref.recs[len(ref.recs)-1].ecl)
			plans := c05StdPlans()
			if len(in) > 1500 && !c.Thorough() {
				plans = plans[:3] // 1-byte readers on big inputs only in thorough (and for two styles below)
				if style == ji%7 {
					plans = c05StdPlans()
				}
			}
			plans = append(plans, c05RandomPlan(r, len(in)), c05RandomPlan(r, len(in)),
				c05Plan{kind: "chunks", name: "64-byte", fixed: 64, faultAt: -1},
				c05Plan{kind: "chunks", name: "63-byte", fixed: 63, faultAt: -1, eofWithData: true},
				c05CutPlan(1+r.IntN(len(in))), c05CutPlan(max(1, len(in)-1-r.IntN(8))), c05CutPlan(min(len(in), 56+r.IntN(16))))
			for pi, p := range plans {
				e.check(in, p, 0, script, ref, (ji+pi)%2 == 0, 0)
			}
			if style == ji%7 {
				p := plans[len(plans)-1-r.IntN(5)]
				g0, _ := c05RunStream(c, in, p, 0, script, true, 0)
				if nr := g0.fd.reads(); nr > 0 {
					for k := 0; k < 4; k++ {
						p.faultAt = r.IntN(nr)
						e.check(in, p, 0, script, ref, true, r.IntN(4))
					}
				}
			}
		}
	})
}

var c05StraddleTokens = []string{
	`"` + c05BU + `d83d` + c05BU + `de00"`, `"` + c05BU + `D83D` + c05BU + `DE00` + c05BU + `d83d` + c05BU + `de00"`, "\"\U0001F600\"", "\"é€\U0001F600\"", `"é\n\\"`, `"a\"b"`, `"\/"`,
	`-0.5e+10`, `-`, `0.`, `1e`, `1e+`, `1E-5`, `120`, `-0`, `0.0e0`, `1.25`, `null`, `true`, `false`,
	`"\ud800"`, `"\ud800A"`, `"\udc00"`, "\"\xf0\x9f\x98\"", "\"\xe2\x82\"", "\"\xc3(\"", `"\u12G4"`, `"\q"`, `nulL`, `tRue`, `falsy`, `1.x`, `1ex`, `-x`, `01`,
}

// Phase E: a token straddling a chunk boundary at every byte, at every position relative to the buffer boundaries.
func (e *c05Env) phaseStraddle() {
	c := e.c
	type job struct {
		tok   string
		ctx   int
		bound int
	}
	var jobs []job
	bounds := []int{0, 64}
	if c.Thorough() {
		bounds = []int{0, 64, 128, 256, 4096}
	}
	for _, t := range c05StraddleTokens {
		for ctx := 0; ctx < 5; ctx++ {
			for _, b := range bounds {
				jobs = append(jobs, job{t, ctx, b})
			}
		}
	}
	c05Parallel(c, len(jobs), func(ji int) {
		j := jobs[ji]
		tok := j.tok
		mk := func(pad int) ([]byte, int) {
			var pre, post string
			switch j.ctx {
			case 0:
				pre, post = "", ""
			case 1:
				pre, post = "[0,", ",1]"
			case 2:
				pre, post = `{"k":`, `,"l":[]}`
			case 3: // as an object name (strings only) else nested
				if tok[0] == '"' {
					pre, post = `[{`, `:1}]`
				} else {
					pre, post = `[[`, `]]`
				}
			case 4:
				pre, post = `null {"a":[`, `]} 1`
			}
			pre = pre + strings.Repeat(" ", pad)
			return []byte(pre + tok + post), len(pre)
		}
		// pads so that the token starts at bound-k for every k in 0..len(tok) (bound 0: no padding, cuts do the work)
		pads := []int{0}
		if j.bound > 0 {
			pads = pads[:0]
			base, start := mk(0)
			_ = base
			for k := 0; k <= len(tok); k++ {
				if p := j.bound - k - start; p >= 0 {
					pads = append(pads, p)
				}
			}
		}
		for _, pad := range pads {
			in, start := mk(pad)
			for style := 0; style < 5; style++ {
				ref, script := c05RunRef(c, in, (style+pad)%4, nil, c05ScriptGen(style, nil), 200)
				optSel := (style + pad) % 4
				if len(script) == 0 || !e.refOK(in, optSel, script, ref) {
					continue
				}
				c.Case(fmt.Sprintf("E|%s|%d|%d|%d|%d", tok, j.ctx, j.bound, pad, style), true)
				c.Hit("straddle:final:" + ref.recs[len(ref.recs)-1].ecl)
				plans := c05StdPlans()
				for cut := max(1, start-1); cut <= min(len(in), start+len(tok)+1); cut++ {
					plans = append(plans, c05CutPlan(cut))
					if cut+1 <= len(in) {
						plans = append(plans, c05Plan{kind: "chunks", name: "cut2", chunks: []int{cut, 1}, faultAt: -1})
					}
				}
				for pi, p := range plans {
					e.check(in, p, optSel, script, ref, (pi+style)%2 == 0, 0)
				}
			}
		}
	})
}

// ---------------------------------------------------------------------------------------------
// Phase F: json.UnmarshalRead == json.Unmarshal ; json.UnmarshalDecode over a stream == Unmarshal of each value

type c05T struct {
	A int               `json:"a"`
	B string            `json:"b"`
	C []any             `json:"c"`
	D map[string]any    `json:"d"`
	E *c05T             `json:"e"`
	F jsontext.Value    `json:"f"`
	G float64           `json:"g"`
	H []c05T            `json:"h"`
	I map[string]string `json:"i"`
	J bool              `json:"j"`
	K [2]int            `json:"k"`
	X map[string]any    `json:",unknown"`
}

// c05JErr classifies an error of package json relative to base (the absolute offset where the value starts).
func c05JErr(err error, base int64) string {
	switch {
	case err == nil:
		return "nil"
	case err == io.EOF:
		return "EOF"
	case err == io.ErrUnexpectedEOF:
		return "UEOF"
	case errors.Is(err, c05ErrTransient):
		return "IO"
	}
	if se, ok := err.(*json.SemanticError); ok {
		// the whole structured payload: offset, pointer, kind, Go type, the JSON value bytes, the wrapped sentinel
		return fmt.Sprintf("SEM@%d ptr=%q kind=%q type=%v val=%s inner=%s", se.ByteOffset-base, se.JSONPointer, se.JSONKind.String(), se.GoType, hx(se.JSONValue), c05Sentinel(se.Err, base))
	}
	if se, ok := err.(*jsontext.SyntacticError); ok {
		return fmt.Sprintf("SYN:%s@%d ptr=%q", c05SynSub(se.Err), se.ByteOffset-base, se.JSONPointer)
	}
	// the error types ReportErrorsWithLegacySemantics converts to (fields only; SyntaxError has no other field)
	if te, ok := err.(*jsonv1.UnmarshalTypeError); ok {
		return fmt.Sprintf("V1TYPE@%d ptr=%q kind=%q type=%v struct=%q inner=%s", te.Offset-base, te.Field, te.Value, te.Type, te.Struct, c05Sentinel(te.Err, base))
	}
	if se, ok := err.(*jsonv1.SyntaxError); ok {
		return fmt.Sprintf("V1SYN@%d", se.Offset-base)
	}
	return fmt.Sprintf("other:%T", err)
}

// c05Sentinel classifies the error wrapped by a SemanticError through errors.Is against the documented sentinels,
// falling back to the dynamic type (never the text).
func c05Sentinel(err error, base int64) string {
	if err == nil {
		return "nil"
	}
	var cl []string
	for _, s := range []struct {
		name string
		err  error
	}{{"range", strconv.ErrRange}, {"syntax", strconv.ErrSyntax}, {"unknown-name", json.ErrUnknownName}, {"ueof", io.ErrUnexpectedEOF},
		{"eof", io.EOF}, {"dup", jsontext.ErrDuplicateName}, {"nonstring-name", jsontext.ErrNonStringName}, {"unsupported", errors.ErrUnsupported},
		{"io", c05ErrTransient}, {"user", c05ErrUser}, {"nonnil-ref", internal.ErrNonNilReference}, {"cycle", internal.ErrCycle}} {
		if errors.Is(err, s.err) {
			cl = append(cl, s.name)
		}
	}
	switch e := err.(type) {
	case *json.SemanticError, *jsontext.SyntacticError:
		cl = append(cl, "{"+c05JErr(e, base)+"}")
	default:
		cl = append(cl, fmt.Sprintf("%T", err))
	}
	return strings.Join(cl, "+")
}

// c05JErrField names the first differing part of two c05JErr classes.
func c05JErrField(wcl, gcl string) string {
	ws, gs := strings.SplitN(wcl, " ptr=", 2), strings.SplitN(gcl, " ptr=", 2)
	if len(ws) != 2 || len(gs) != 2 || ws[0] != gs[0] {
		return "error"
	}
	wq, gq := strings.SplitN(ws[1], " kind=", 2), strings.SplitN(gs[1], " kind=", 2)
	if len(wq) == 2 && (len(gq) != 2 || wq[1] != gq[1]) {
		return "error"
	}
	wp, _ := strconv.Unquote(wq[0])
	gp, _ := strconv.Unquote(gq[0])
	if strings.HasPrefix(wcl, "SYN") && c05SameShapePointer(wp, gp, 0) {
		return "error-pointer-name-differs"
	}
	return "error-pointer"
}

// c05Typed is a target whose members fail semantically (range, syntax, array length) without ending the decode
// under ReportErrorsWithLegacySemantics.
type c05Typed struct {
	A int8             `json:"a"`
	B uint8            `json:"b"`
	C [2]int           `json:"c"`
	D []int16          `json:"d"`
	E map[string]int8  `json:"e"`
	F float32          `json:"f"`
	S string           `json:"s"`
	N *c05Typed        `json:"n"`
	M map[string][]int `json:"m"`
}

var c05BaseTargets = []func() any{func() any { return new(any) }, func() any { return new(c05T) }, func() any { return new([]any) },
	func() any { return new(map[string]any) }, func() any { return new(jsontext.Value) }}

var c05TypedTargets = []func() any{func() any { return new([]int8) }, func() any { return new(map[string]int8) }, func() any { return new([3]int) },
	func() any { return new(c05Typed) }, func() any { return new([]string) }, func() any { return new([]float32) }, func() any { return new(int8) },
	func() any { return new([]c05Typed) }, func() any { return new([]uint16) }, func() any { return new(c05From) }}

// c05TypedDoc builds documents that produce semantic errors mid-stream for the typed targets: integers beyond
// int8/uint8/int16, strings where numbers are expected and vice versa, arrays of the wrong length, floats beyond
// float32 - interleaved with valid members, blanks and enough padding to cross buffer refills.
func (g c05Gen) typedElem() []byte {
	switch g.r.IntN(14) {
	case 0:
		return []byte("300")
	case 1:
		return []byte("-129")
	case 2:
		return []byte(`"x"`)
	case 3:
		return []byte("1e100")
	case 4:
		return []byte("65536")
	case 5:
		return []byte("1.5")
	case 6:
		return []byte("null")
	case 7:
		return []byte("[1,2,3]")
	case 8:
		return []byte(`{"a":1000,"b":-1}`)
	case 9:
		return g.str(3, false)
	case 10:
		return []byte("99999999999999999999")
	default:
		return []byte(strconv.Itoa(g.r.IntN(120)))
	}
}

func (g c05Gen) typedDoc() []byte {
	pad := func(b []byte) []byte {
		if g.r.IntN(3) == 0 {
			b = append(b, bytes.Repeat([]byte(" "), g.r.IntN(40))...)
		}
		return append(b, g.ws()...)
	}
	var b []byte
	switch g.r.IntN(5) {
	case 0, 1: // array of elements
		b = append(b, '[')
		for i, n := 0, g.r.IntN(40); i < n; i++ {
			if i > 0 {
				b = append(b, ',')
			}
			b = pad(append(pad(b), g.typedElem()...))
		}
		b = append(b, ']')
	case 2: // object with arbitrary names
		b = append(b, '{')
		for i, n := 0, g.r.IntN(20); i < n; i++ {
			if i > 0 {
				b = append(b, ',')
			}
			b = pad(append(append(pad(b), fmt.Sprintf(`"k%d":`, i)...), g.typedElem()...))
		}
		b = append(b, '}')
	case 3: // the struct
		b = append(b, '{')
		names := []string{"a", "b", "c", "d", "e", "f", "s", "n", "m", "zz"}
		for i, n := 0, 1+g.r.IntN(12); i < n; i++ {
			if i > 0 {
				b = append(b, ',')
			}
			name := names[g.r.IntN(len(names))]
			b = append(pad(b), fmt.Sprintf(`"%s":`, name)...)
			switch name {
			case "c", "d":
				b = append(b, '[')
				for k, m := 0, g.r.IntN(5); k < m; k++ {
					if k > 0 {
						b = append(b, ',')
					}
					b = append(b, g.typedElem()...)
				}
				b = append(b, ']')
			case "e":
				b = append(append(append(b, `{"x":`...), g.typedElem()...), '}')
			case "n":
				b = append(append(append(b, `{"a":`...), g.typedElem()...), `,"b":7}`...)
			default:
				b = append(b, g.typedElem()...)
			}
			b = pad(b)
		}
		b = append(b, '}')
	default: // a stream of top-level scalars and small arrays
		for i, n := 0, 1+g.r.IntN(8); i < n; i++ {
			b = append(pad(append(b, g.typedElem()...)), ' ')
		}
	}
	if g.r.IntN(8) == 0 {
		b = g.mutate(b)
	}
	return b
}

func (e *c05Env) unmarshalCase(in []byte, r *rand.Rand, optSel int, targets []func() any) {
	c := e.c
	opts := []json.Options{}
	for _, o := range c05Opts(optSel) {
		opts = append(opts, o)
	}
	opts = append(opts, e.extraOpt...)
	plans := c05StdPlans()
	plans = append(plans, c05RandomPlan(r, len(in)), c05RandomPlan(r, len(in)))
	if len(in) > 1 {
		plans = append(plans, c05CutPlan(1+r.IntN(len(in)-1)))
	}
	if e.allCuts {
		for cut := 1; cut < len(in); cut++ {
			plans = append(plans, c05CutPlan(cut))
		}
	}
	var errs []c05ErrSnap // every error returned in this case; must still read the same at the end
	for _, m := range targets {
		want := m()
		var werr error
		if p := guard(func() { werr = json.Unmarshal(append([]byte(nil), in...), want, opts...) }); p != nil {
			c.Panic("Unmarshal", in, p, nil)
			continue
		}
		wcl := c05JErr(werr, 0)
		c.Hit("unmarshal:" + strings.SplitN(wcl, "@", 2)[0])
		if optSel&4 != 0 {
			c.Hit("unmarshal(legacy-errors):" + strings.SplitN(wcl, "@", 2)[0])
		}
		if werr != nil {
			errs = append(errs, c05ErrSnap{werr, wcl, "Unmarshal"})
		}
		for _, p := range plans {
			fd := c05NewFeed(in, p)
			got := m()
			var gerr error
			if pp := guard(func() { gerr = json.UnmarshalRead(fd.rd, got, opts...) }); pp != nil {
				c.Panic("UnmarshalRead", in, pp, map[string]any{"reader": p.String()})
				continue
			}
			e.cases.Add(1)
			gcl := c05JErr(gerr, 0)
			if gerr != nil {
				errs = append(errs, c05ErrSnap{gerr, gcl, "UnmarshalRead(" + p.String() + ")"})
			}
			field := ""
			switch {
			case gcl != wcl:
				field = c05JErrField(wcl, gcl)
			case !reflect.DeepEqual(want, got):
				field = "value"
			}
			if field == "error" && optSel&4 != 0 && strings.HasPrefix(wcl, "V1SYN@") && strings.HasPrefix(gcl, "V1SYN@") {
				// only SyntaxError.Offset differs under ReportErrorsWithLegacySemantics: is the error identical without that flag?
				var o2 []json.Options
				for _, o := range c05Opts(optSel &^ 4) {
					o2 = append(o2, o)
				}
				w2, g2 := new(any), new(any) // the syntactic layer does not depend on the target
				var we2, ge2 error
				guard(func() {
					we2 = json.Unmarshal(append([]byte(nil), in...), w2, o2...)
					ge2 = json.UnmarshalRead(c05NewFeed(in, p).rd, g2, o2...)
				})
				if a, b := c05JErr(we2, 0), c05JErr(ge2, 0); a == b && strings.HasPrefix(a, "SYN:text:") {
					field = "legacy-offset-depends-on-buffered-invalid-text"
				} else if e.legacyOffsetOnly(in, p, optSel, wcl, gcl) {
					// without the option the semantic layer may report something else first (legacy mode validates the
					// whole value syntactically before it unmarshals): compare at the syntactic layer itself
					field = "legacy-offset-depends-on-buffered-invalid-text"
				}
			}
			if field != "" {
				c.Violate("stream-mismatch", "UnmarshalRead:"+field, in, map[string]any{"input": trunc(string(in), 200), "reader": p.String(), "target": fmt.Sprintf("%T", want), "options": optSel,
					"Unmarshal": wcl, "UnmarshalRead": gcl, "Unmarshal_value": trunc(fmt.Sprintf("%+v", reflect.ValueOf(want).Elem()), 200), "UnmarshalRead_value": trunc(fmt.Sprintf("%+v", reflect.ValueOf(got).Elem()), 200)})
			}
		}
	}
	// the decoders of the calls above went back to their pools and were reused by the later calls
	if msg, changed := c05Recheck(errs); changed {
		c.Violate("error-mutated", "UnmarshalRead:error-changes-after-return", in, map[string]any{"input": trunc(string(in), 200), "what": msg, "options": optSel})
	}
	// jsontext.Value.IsValid on the slice <=> the stream holds exactly one value
	var valid bool
	if p := guard(func() { valid = jsontext.Value(append([]byte(nil), in...)).IsValid(c05Opts(optSel & 3)...) }); p != nil {
		c.Panic("Value.IsValid", in, p, nil)
		return
	}
	for _, p := range plans {
		got, _ := c05RunStream(c, in, p, optSel&3, []byte("VT"), false, 0)
		ok := got.panicked == nil && len(got.recs) == 2 && got.recs[0].ecl == "nil" && got.recs[1].ecl == "EOF"
		if ok != valid {
			c.Violate("stream-mismatch", "Value.IsValid-vs-stream", in, map[string]any{"input": trunc(string(in), 200), "reader": p.String(), "IsValid": valid, "stream_single_value": ok, "options": optSel})
		}
	}
}

// legacyOffsetOnly decides whether two V1SYN classes that differ only in SyntaxError.Offset are finding D17: under
// ReportErrorsWithLegacySemantics the input is first validated syntactically as ONE value followed by the end of the
// input (CheckNextValue(last)), and the reported Offset is ByteOffset + len(the invalid text as it happened to be
// buffered).  Condition: WITHOUT the option, the same syntactic pass (ReadValue, then the end of input) over the whole
// slice and over the same reader stops with the same class of invalid-text error at the same ByteOffset with the same
// pointer, and both legacy offsets lie inside the invalid text behind that ByteOffset (1..12 bytes).
func (e *c05Env) legacyOffsetOnly(in []byte, p c05Plan, optSel int, wcl, gcl string) bool {
	var wo, gofs int64
	if _, err := fmt.Sscanf(wcl, "V1SYN@%d", &wo); err != nil {
		return false
	}
	if _, err := fmt.Sscanf(gcl, "V1SYN@%d", &gofs); err != nil {
		return false
	}
	first := func(recs []c05Rec) (c05Rec, bool) {
		for _, rc := range recs {
			if rc.ecl != "nil" {
				return rc, rc.ecl != "EOF"
			}
		}
		return c05Rec{}, false
	}
	ref, _ := c05RunRef(e.c, in, optSel&3, []byte("VT"), nil, 0)
	got, _ := c05RunStream(e.c, in, p, optSel&3, []byte("VT"), false, 0)
	if ref.panicked != nil || got.panicked != nil {
		return false
	}
	a, oka := first(ref.recs)
	b, okb := first(got.recs)
	if !oka || !okb || a.ecl != b.ecl || !strings.HasPrefix(a.ecl, "SYN:text:") || a.eoff != b.eoff || a.eptr != b.eptr {
		return false
	}
	inside := func(x int64) bool { return x > a.eoff && x <= a.eoff+12 }
	return inside(wo) && inside(gofs)
}

func (e *c05Env) decodeStreamCase(in []byte, r *rand.Rand, optSel int, mk func() any) {
	c := e.c
	// split with the reference decoder
	ref, _ := c05RunRef(c, in, optSel&3, nil, func(int) byte { return 'V' }, 1000)
	if ref.panicked != nil {
		return
	}
	type span struct{ lo, hi int64 }
	var spans []span
	for _, rc := range ref.recs {
		if rc.ecl == "nil" {
			spans = append(spans, span{rc.off - int64(len(rc.res)), rc.off})
		}
	}
	if len(spans) == 0 {
		return
	}
	c.Hit(fmt.Sprintf("unmarshaldecode:values=%d", min(len(spans), 6)))
	opts := []json.Options{}
	for _, o := range c05Opts(optSel) {
		opts = append(opts, o)
	}
	opts = append(opts, e.extraOpt...)
	plans := c05StdPlans()
	plans = append(plans, c05RandomPlan(r, len(in)), c05RandomPlan(r, len(in)))
	if e.allCuts {
		for cut := 1; cut < len(in); cut++ {
			plans = append(plans, c05CutPlan(cut))
		}
	}
	for _, p := range plans {
		fd := c05NewFeed(in, p)
		var dec *jsontext.Decoder
		if pp := guard(func() { dec = jsontext.NewDecoder(fd.rd, c05Opts(optSel&3)...) }); pp != nil {
			c.Panic("NewDecoder", in, pp, nil)
			return
		}
		e.cases.Add(1)
		var errs []c05ErrSnap
		recheck := func(when string) bool {
			if msg, changed := c05Recheck(errs); changed {
				c.Violate("error-mutated", "UnmarshalDecode:error-changes-after-return", in, map[string]any{"input": trunc(string(in), 200), "reader": p.String(),
					"what": msg + " (" + when + ")", "options": optSel, "target": fmt.Sprintf("%T", mk())})
				return true
			}
			return false
		}
		for i, sp := range spans {
			want, got := mk(), mk()
			var werr, gerr error
			var off int64
			if pp := guard(func() {
				werr = json.Unmarshal(append([]byte(nil), in[sp.lo:sp.hi]...), want, opts...)
				gerr = json.UnmarshalDecode(dec, got, opts...)
				off = dec.InputOffset()
			}); pp != nil {
				c.Panic("UnmarshalDecode", in, pp, map[string]any{"reader": p.String(), "value_index": i})
				return
			}
			wcl, gcl := c05JErr(werr, 0), c05JErr(gerr, sp.lo)
			if recheck(fmt.Sprintf("after UnmarshalDecode of value %d", i)) {
				break
			}
			if gerr != nil {
				c.Hit("unmarshaldecode:error-mid-stream")
				errs = append(errs, c05ErrSnap{gerr, c05JErr(gerr, 0), fmt.Sprintf("UnmarshalDecode of value %d", i)})
			}
			// pointers of a stream are relative to the top-level value as well: compare as they are
			field := ""
			switch {
			case wcl != gcl:
				field = c05JErrField(wcl, gcl)
			case !reflect.DeepEqual(want, got):
				field = "value"
			case gerr == nil && off != sp.hi:
				field = "input-offset"
			}
			if field == "error" && optSel&4 != 0 && strings.HasPrefix(wcl, "V1SYN@") && strings.HasPrefix(gcl, "V1SYN@") {
				var o2 []json.Options
				for _, o := range c05Opts(optSel &^ 4) {
					o2 = append(o2, o)
				}
				// replay the stream up to this value without the flag
				var we2, ge2 error
				guard(func() {
					d2 := jsontext.NewDecoder(c05NewFeed(in, p).rd, c05Opts(optSel&3)...)
					for k := 0; k <= i; k++ {
						ge2 = json.UnmarshalDecode(d2, mk(), o2...)
					}
					we2 = json.Unmarshal(append([]byte(nil), in[sp.lo:sp.hi]...), mk(), o2...)
				})
				if a, b := c05JErr(we2, 0), c05JErr(ge2, sp.lo); a == b && strings.HasPrefix(a, "SYN:text:") {
					field = "legacy-offset-depends-on-buffered-invalid-text"
				}
			}
			if field != "" {
				c.Violate("stream-mismatch", "UnmarshalDecode:"+field, in, map[string]any{"input": trunc(string(in), 200), "reader": p.String(), "value_index": i, "value": trunc(string(in[sp.lo:sp.hi]), 100),
					"Unmarshal": wcl, "UnmarshalDecode": gcl, "InputOffset": off, "expected_offset": sp.hi, "target": fmt.Sprintf("%T", want), "options": optSel})
				break
			}
			if gerr != nil && off != sp.hi {
				// the decoder stopped inside the value: its position is unspecified, but a caller may still use it -
				// whatever it does must not change the error it already holds
				guard(func() {
					dec.PeekKind()
					dec.ReadToken()
					dec.SkipValue()
					dec.ReadValue()
				})
				recheck("after further calls on the decoder")
				break
			}
		}
		recheck("at the end of the stream")
	}
	// transient faults between and inside the values of the stream: UnmarshalDecode must return the I/O error (never
	// io.EOF or a value), and when the failed call consumed nothing, the retried call must give the fault-free result
	mks := []func() any{mk, func() any { return new(c05From) }, func() any { return new(any) }}
	for fi := 0; fi < 4; fi++ {
		p := c05RandomPlan(r, len(in))
		if fi == 0 {
			p = c05Plan{kind: "chunks", name: "1-byte", fixed: 1, faultAt: -1}
		}
		p.faultAt = r.IntN(len(in)/2 + 6)
		tmk := mks[fi%len(mks)]
		fd := c05NewFeed(in, p)
		var dec *jsontext.Decoder
		if pp := guard(func() { dec = jsontext.NewDecoder(fd.rd, c05Opts(optSel&3)...) }); pp != nil {
			return
		}
		e.cases.Add(1)
	stream:
		for i, sp := range spans {
			for try := 0; ; try++ {
				want, got := tmk(), tmk()
				var werr, gerr error
				var before, off int64
				var depth int
				var firedBefore bool
				if pp := guard(func() {
					werr = json.Unmarshal(append([]byte(nil), in[sp.lo:sp.hi]...), want, opts...)
					before = dec.InputOffset()
					firedBefore = fd.fired()
					gerr = json.UnmarshalDecode(dec, got, opts...)
					off, depth = dec.InputOffset(), dec.StackDepth()
				}); pp != nil {
					c.Panic("UnmarshalDecode", in, pp, map[string]any{"reader": p.String(), "value_index": i})
					return
				}
				wcl, gcl := c05JErr(werr, 0), c05JErr(gerr, sp.lo)
				firedNow := !firedBefore && fd.fired()
				if errors.Is(gerr, c05ErrTransient) {
					c.Hit("unmarshaldecode:fault-returned")
					if off == before && depth == 0 && try < 3 {
						continue // nothing consumed: the retry must behave as if the fault had not occurred
					}
					c.Hit("unmarshaldecode:fault-mid-value(excluded)")
					break stream
				}
				if firedNow && gerr != nil && !(off == before && depth == 0) && wcl != gcl {
					// The read fault struck inside the value and the call reports some OTHER error with the decoder
					// part-way through the value.  Like SkipValue, UnmarshalDecode is not atomic under faults, so this
					// is outside what the property promises; it is counted and sampled (see the report: on the
					// unchanged tree `for dec.PeekKind() != ']'` in arshal_any.go turns the cached I/O error of
					// PeekKind into "invalid character ']' at start of value").
					c.Hit("unmarshaldecode:fault-mid-value-other-error(excluded):" + strings.SplitN(gcl, "@", 2)[0])
					if c05MidValueFaultIsViolation {
						c.Violate("fault-mismatch", "UnmarshalDecode:other-error-instead-of-io-error-mid-value", in, map[string]any{"input": trunc(string(in), 200),
							"reader": p.String(), "value_index": i, "Unmarshal": wcl, "UnmarshalDecode": gcl, "InputOffset": off, "StackDepth": depth, "target": fmt.Sprintf("%T", want)})
					} else {
						c.Sample(map[string]any{"finding_candidate": "UnmarshalDecode under a transient fault inside a value returns a non-I/O error", "input": trunc(string(in), 120),
							"reader": p.String(), "UnmarshalDecode": gcl, "fault_free": wcl, "InputOffset": off, "StackDepth": depth, "target": fmt.Sprintf("%T", want)})
					}
					break stream
				}
				field := ""
				switch {
				case wcl != gcl:
					field = c05JErrField(wcl, gcl)
				case !reflect.DeepEqual(want, got):
					field = "value"
				case gerr == nil && off != sp.hi:
					field = "input-offset"
				}
				if field != "" {
					c.Violate("fault-mismatch", "UnmarshalDecode:"+field+"-under-fault", in, map[string]any{"input": trunc(string(in), 200), "reader": p.String(), "value_index": i,
						"value": trunc(string(in[sp.lo:sp.hi]), 100), "Unmarshal": wcl, "UnmarshalDecode": gcl, "InputOffset": off, "expected_offset": sp.hi,
						"target": fmt.Sprintf("%T", want), "options": optSel, "retries": try})
					break stream
				}
				if gerr != nil {
					break stream
				}
				break
			}
		}
	}
}

// c05MidValueFaultIsViolation: report a non-I/O error returned while a read fault struck INSIDE a value as a violation.
// Off: UnmarshalDecode (like SkipValue) is not atomic under faults and the property promises nothing there; the
// occurrences are counted in the distribution and sampled into the evidence.
const c05MidValueFaultIsViolation = false

// c05From decodes itself from the Decoder (UnmarshalerFrom): UnmarshalDecode probes for the end of the stream before
// it calls such a method.
type c05From struct{ Raw string }

func (x *c05From) UnmarshalJSONFrom(dec *jsontext.Decoder) error {
	v, err := dec.ReadValue()
	if err != nil {
		return err
	}
	x.Raw = string(v)
	return nil
}

// ---- errors located BEFORE a value: their ByteOffset is InputOffset + CountNextDelimWhitespace, so it must not depend
// on how much of the run of ':' ',' and blanks in front of the value happened to be buffered.

var c05ErrUser = errors.New("c05: user unmarshaler refuses")

type c05ChanS struct {
	A string   `json:"A"`
	C chan int `json:"C"`
	B int      `json:"B"`
	F func()   `json:"F"`
}
type c05FmtS struct {
	A int `json:"A"`
	C int `json:"C,format:bogus"`
	B int `json:"B"`
}
type c05inner struct{ X int }
type c05OuterS struct {
	*c05inner
	Y int
}
type c05Refuse struct{ Seen bool }

func (x *c05Refuse) UnmarshalJSONFrom(*jsontext.Decoder) error { return c05ErrUser }

type c05RefuseS struct {
	A int       `json:"A"`
	C c05Refuse `json:"C"`
	B int       `json:"B"`
}
type c05Mark struct{ V int }
type c05MarkS struct {
	A int     `json:"A"`
	C c05Mark `json:"C"`
	B int     `json:"B"`
}
type c05IntS struct {
	A string `json:"A"`
	C int8   `json:"C"`
	B bool   `json:"B"`
}

func (e *c05Env) phaseBeforeValue() {
	c := e.c
	colon := []string{":", " :   ", ":\n\t ", " :   \n\t  ", "  :" + strings.Repeat(" ", 22), ":" + strings.Repeat("\n", 70)}
	comma := []string{",", " ,   ", ",\n\t ", "  ,\r\n   \t", " ," + strings.Repeat(" ", 19), "," + strings.Repeat(" ", 66)}
	lead := []string{"", " ", "\n\t  ", "", "      ", ""}
	type tcase struct {
		name string
		mk   func() any
		doc  func(k int) string
		opt  []json.Options
	}
	obj := func(c1, c2 string) func(k int) string {
		return func(k int) string {
			return lead[k] + `{"A"` + colon[k] + c1 + comma[k] + `"C"` + colon[k] + c2 + comma[k] + `"B"` + colon[k] + `2}`
		}
	}
	arr := func(el string) func(k int) string {
		return func(k int) string { return lead[k] + "[" + lead[k] + el + comma[k] + el + comma[k] + el + "]" }
	}
	markFn := json.WithUnmarshalers(json.UnmarshalFromFunc(func(*jsontext.Decoder, *c05Mark) error { return c05ErrUser }))
	cases := []tcase{
		{"chan-field", func() any { return new(c05ChanS) }, obj(`"x"`, `1`), nil},
		{"chan-field-object", func() any { return new(c05ChanS) }, obj(`"x"`, `{"q":[1,2]}`), nil},
		{"func-field", func() any { return new(c05ChanS) }, func(k int) string { return `{"F"` + colon[k] + `null` + comma[k] + `"F"` + colon[k] + `1}` }, nil},
		{"format-tag", func() any { return new(c05FmtS) }, obj(`1`, `3`), nil},
		{"embedded-nil-unexported", func() any { return new(c05OuterS) }, func(k int) string { return lead[k] + `{"Y"` + colon[k] + `1` + comma[k] + `"X"` + colon[k] + `2}` }, nil},
		{"UnmarshalerFrom-refuses", func() any { return new(c05RefuseS) }, obj(`1`, `{"x":1}`), nil},
		{"UnmarshalerFrom-refuses-elements", func() any { return new([]c05Refuse) }, arr(`7`), nil},
		{"UnmarshalFromFunc-refuses", func() any { return new(c05MarkS) }, obj(`1`, `[1]`), []json.Options{markFn}},
		{"UnmarshalFromFunc-refuses-top", func() any { return new(c05Mark) }, func(k int) string { return lead[k] + lead[k] + `{"V":1}` }, []json.Options{markFn}},
		{"slice-of-chan", func() any { return new([]chan int) }, arr(`1`), nil},
		{"map-of-func", func() any { return new(map[string]func()) }, func(k int) string { return `{"k"` + colon[k] + `1` + comma[k] + `"l"` + colon[k] + `2}` }, nil},
		{"type-mismatch", func() any { return new(c05IntS) }, obj(`7`, `"str"`), nil},
		{"range", func() any { return new(c05IntS) }, obj(`"x"`, `300`), nil},
	}
	type job struct {
		t tcase
		k int
	}
	var jobs []job
	for _, t := range cases {
		for k := range colon {
			jobs = append(jobs, job{t, k})
		}
	}
	c05Parallel(c, len(jobs), func(ji int) {
		j := jobs[ji]
		r := c05Rng(c, 11, uint64(ji))
		in := []byte(j.t.doc(j.k))
		e2 := &c05Env{c: c, minimise: map[string]int{}, allCuts: true, extraOpt: j.t.opt}
		for _, optSel := range []int{0, 4} {
			c.Case(fmt.Sprintf("F3|%s|%d|%d", j.t.name, j.k, optSel), true)
			c.Hit("before-value:" + j.t.name)
			e2.unmarshalCase(in, r, optSel, []func() any{j.t.mk})
			e2.decodeStreamCase(in, r, optSel, j.t.mk)
			// the same document twice in a stream, with a delimiter-free blank run in between
			in2 := append(append(append([]byte(nil), in...), []byte(lead[(j.k+2)%len(lead)]+" ")...), in...)
			e2.decodeStreamCase(in2, r, optSel, j.t.mk)
		}
		e.cases.Add(e2.cases.Load())
	})
}

func (e *c05Env) phaseUnmarshal() {
	c := e.c
	n := c.N(2500, 150000)
	small := c05SmallInputs(true)
	c05Parallel(c, n+len(small), func(i int) {
		r := c05Rng(c, 6, uint64(i))
		g := c05Gen{r}
		var in []byte
		targets := append([]func() any(nil), c05BaseTargets...)
		optSel := 0
		if r.IntN(5) == 0 {
			optSel = 1 + r.IntN(3)
		}
		switch {
		case i < len(small):
			in = small[i]
		case i%3 == 0:
			// typed targets with semantic errors mid-stream, half of them with non-fatal (legacy) error reporting
			in = g.typedDoc()
			targets = append([]func() any{c05BaseTargets[0]}, c05TypedTargets...)
			optSel = r.IntN(2) * 4
			if r.IntN(6) == 0 {
				optSel |= 1 + r.IntN(3)
			}
			c.Hit("unmarshal:input:typed")
		default:
			in, _ = g.doc()
			if r.IntN(4) == 0 {
				// make it look like the struct so that typed decoding does something
				in = []byte(fmt.Sprintf(`{"a":%s,"b":%s,"c":[%s],"d":{"x":%s},"e":{"a":1,"h":[{"b":"q"}]},"f":%s,"g":%s,"zz":%s}`,
					g.num(false), g.str(4, false), g.value(2, false), g.value(2, false), g.value(2, false), g.num(false), g.value(1, false)))
				if r.IntN(3) == 0 {
					in = g.mutate(in)
				}
			}
			targets = append(targets, c05TypedTargets[r.IntN(len(c05TypedTargets))])
			if r.IntN(4) == 0 {
				optSel |= 4
			}
		}
		c.Case(fmt.Sprintf("F|%d|", optSel)+string(in), len(in) >= 2)
		e.unmarshalCase(in, r, optSel, targets)
		e.decodeStreamCase(in, r, optSel, targets[r.IntN(len(targets))])
		e.decodeStreamCase(in, r, optSel, targets[len(targets)-1])
	})
	// sized inputs through UnmarshalRead
	var jobs [][]byte
	for _, sh := range c05Shapes {
		for _, sz := range c05Sizes(c.Thorough()) {
			if !c.Thorough() && sz > 2100 {
				continue
			}
			jobs = append(jobs, c05Sized(sh, sz))
		}
	}
	c05Parallel(c, len(jobs), func(i int) {
		r := c05Rng(c, 7, uint64(i))
		in := jobs[i]
		c.Case(fmt.Sprintf("F2|%d", i), true)
		e.unmarshalCase(in, r, 0, c05BaseTargets)
		in2 := append(append([]byte(`{"a":1,"c":[`), in...), []byte(`],"b":"x","e":{"f":`)...)
		in2 = append(append(in2, in...), []byte(`},"g":1.5`)...)
		if i%2 == 0 {
			in2 = append(in2, '}')
		}
		e.unmarshalCase(in2, r, (i%2)*4, c05BaseTargets)
		// a long array whose elements fail for int8 one after the other, across every buffer size
		var big []byte
		big = append(big, '[')
		for k := 0; len(big) < len(in); k++ {
			if k > 0 {
				big = append(big, ',')
			}
			big = append(big, []string{"1", "300", "-7", `"x"`, "  12", "70000", "1e9"}[(k+i)%7]...)
		}
		big = append(big, ']')
		e.unmarshalCase(big, r, (i%2)*4, c05TypedTargets[:3])
	})
}

// ---------------------------------------------------------------------------------------------
// Phase H: correspondence of the Lean models (Model/Resume.lean) with the real resumable scanners

func c05WireErr(err error) string {
	switch {
	case err == nil:
		return "ok"
	case err == io.ErrUnexpectedEOF:
		return "eof"
	case err == jsonwire.ErrInvalidUTF8:
		return "utf8"
	}
	if te, ok := err.(*jsonwire.InvalidTextError); ok {
		if te.Label == "character" {
			return "char"
		}
		return "esc"
	}
	return fmt.Sprintf("other:%T", err)
}

func c05ClassToWire(ecl string) string {
	switch ecl {
	case "nil":
		return "ok"
	case "SYN:ueof":
		return "eof"
	case "SYN:utf8":
		return "utf8"
	case "SYN:text:character":
		return "char"
	case "SYN:text:escape sequence", "SYN:text:surrogate pair":
		return "esc"
	}
	return ecl
}

type c05CorrCase struct {
	line string
	want string
	in   []byte
	op   string
}

func (e *c05Env) phaseCorrespondence() {
	c := e.c
	or := c.NewOracle()
	if or == nil {
		c.Note("phase H skipped: no oracle")
		return
	}
	r := c05Rng(c, 8, 0)
	g := c05Gen{r}
	var cases []c05CorrCase
	strR := func(validate bool, resume int, fl uint, b []byte) (int, uint, string) {
		var n int
		var err error
		flags := jsonwire.ValueFlags(fl)
		if p := guard(func() { n, err = jsonwire.ConsumeStringResumable(&flags, b, resume, validate) }); p != nil {
			c.Panic("ConsumeStringResumable", b, p, map[string]any{"resume": resume, "flags": fl, "validate": validate})
			return 0, 0, "panic"
		}
		return n, uint(flags), c05WireErr(err)
	}
	numR := func(resume int, st uint, b []byte) (int, uint, string) {
		var n int
		var err error
		var st2 jsonwire.ConsumeNumberState
		if p := guard(func() { n, st2, err = jsonwire.ConsumeNumberResumable(b, resume, jsonwire.ConsumeNumberState(st)) }); p != nil {
			c.Panic("ConsumeNumberResumable", b, p, map[string]any{"resume": resume, "state": st})
			return 0, 0, "panic"
		}
		return n, uint(st2), c05WireErr(err)
	}
	b2i := func(b bool) int {
		if b {
			return 1
		}
		return 0
	}
	addStr := func(validate bool, resume int, fl uint, b []byte) (int, uint, string) {
		n, f2, er := strR(validate, resume, fl, b)
		cases = append(cases, c05CorrCase{fmt.Sprintf("dec strR %d %d %d %s", b2i(validate), resume, fl, hx(b)), fmt.Sprintf("%d %d %s", n, f2, er), b, "strR"})
		return n, f2, er
	}
	addNum := func(resume int, st uint, b []byte) (int, uint, string) {
		n, st2, er := numR(resume, st, b)
		cases = append(cases, c05CorrCase{fmt.Sprintf("dec numR %d %d %s", resume, st, hx(b)), fmt.Sprintf("%d %d %s", n, st2, er), b, "numR"})
		return n, st2, er
	}
	// tokens
	var strs, nums [][]byte
	for _, t := range c05StraddleTokens {
		if t[0] == '"' {
			strs = append(strs, []byte(t))
		} else {
			nums = append(nums, []byte(t))
		}
	}
	for _, p := range c05BadPieces {
		strs = append(strs, []byte(`"ab`+p+`c"`), []byte(`"`+p+`"`))
	}
	for _, p := range c05EscPieces {
		strs = append(strs, []byte(`"`+p+p+`"`), []byte(`"x`+p+`"`))
	}
	for _, hi := range []string{"d800", "D83D", "dbff", "DBFF", "dc00", "dfff", "d7ff", "e000"} {
		for _, lo := range []string{"dc00", "DE00", "dfff", "d800", "dbff", "e000", "0041", "DC0G", "dC00"} {
			strs = append(strs, []byte(`"`+c05BU+hi+c05BU+lo+`"`), []byte(`"`+c05BU+hi+`\`+`n"`), []byte(`"`+c05BU+hi+`\`+`U`+lo+`"`))
		}
	}
	nT := c.N(1500, 40000)
	for i := 0; i < nT; i++ {
		strs = append(strs, g.str(1+r.IntN(8), true))
		nums = append(nums, g.num(true))
	}
	alpha := []byte(`\\\uu"/bnrtx d8dcDC0019afAF` + "\x00\x1f\x7f\x80\xbf\xc2\xe0\xed\xef\xf0\xf4\xff\xa0\x90")
	nalpha := []byte("--++..eE00123456789 x,]")
	for i := 0; i < nT; i++ {
		k := 1 + r.IntN(14)
		sb := []byte{'"'}
		nb := []byte{}
		for j := 0; j < k; j++ {
			sb = append(sb, alpha[r.IntN(len(alpha))])
			nb = append(nb, nalpha[r.IntN(len(nalpha))])
		}
		if r.IntN(2) == 0 {
			sb = append(sb, '"')
		}
		strs = append(strs, sb)
		nums = append(nums, nb)
	}
	nResumeBad := 0
	for ti, t := range strs {
		validate := ti%3 != 0
		whole := -1
		for cut := 0; cut <= len(t); cut++ {
			n, f2, er := addStr(validate, 0, uint(ti%4), t[:cut])
			c.Hit("corr:strR:" + er)
			if er == "eof" {
				// resume on a longer prefix and on the whole token: model agreement AND (Go vs Go) resumed == from scratch
				ext := cut + 1 + r.IntN(len(t)-cut+1)
				if ext > len(t) {
					ext = len(t)
				}
				for _, q := range []int{ext, len(t)} {
					rn, rf, re := addStr(validate, n, f2, t[:q])
					sn, sf, se := strR(validate, 0, uint(ti%4), t[:q])
					if rn != sn || rf != sf || re != se {
						nResumeBad++
						c.Violate("resume-mismatch", "ConsumeStringResumable:resumed-vs-from-scratch", t, map[string]any{"token": string(t), "cut": cut, "extended_to": q,
							"resumed": fmt.Sprintf("%d %d %s", rn, rf, re), "from_scratch": fmt.Sprintf("%d %d %s", sn, sf, se)})
					}
				}
			} else if whole < 0 {
				whole = cut
			}
		}
		// arbitrary resume arguments (the model must agree on every input, not only on reachable ones)
		if ti%4 == 0 && len(t) > 0 {
			addStr(validate, r.IntN(len(t)+2), uint(r.IntN(4)), t)
		}
		c.Case("H|s|"+string(t), len(t) > 2)
	}
	for ti, t := range nums {
		for cut := 0; cut <= len(t); cut++ {
			n, st, er := addNum(0, 0, t[:cut])
			c.Hit("corr:numR:" + er)
			if er == "eof" || (er == "ok" && n == cut) {
				ext := cut + 1 + r.IntN(len(t)-cut+1)
				if ext > len(t) {
					ext = len(t)
				}
				for _, q := range []int{ext, len(t)} {
					rn, rst, re := addNum(n, st, t[:q])
					sn, sst, se := numR(0, 0, t[:q])
					resumable := se == "eof" || (se == "ok" && sn == q)
					if rn != sn || re != se || (resumable && rst != sst) {
						nResumeBad++
						c.Violate("resume-mismatch", "ConsumeNumberResumable:resumed-vs-from-scratch", t, map[string]any{"token": string(t), "cut": cut, "extended_to": q,
							"resumed": fmt.Sprintf("%d %d %s", rn, rst, re), "from_scratch": fmt.Sprintf("%d %d %s", sn, sst, se)})
					}
				}
			}
		}
		if ti%4 == 0 {
			addNum(r.IntN(len(t)+2), uint(r.IntN(8)), t)
		}
		c.Case("H|n|"+string(t), len(t) > 1)
	}
	// whitespace / literals
	for i := 0; i < 400; i++ {
		k := r.IntN(10)
		var b []byte
		for j := 0; j < k; j++ {
			b = append(b, " \t\r\n x\v"[r.IntN(7)])
		}
		cases = append(cases, c05CorrCase{"dec ws " + hx(b), fmt.Sprint(jsonwire.ConsumeWhitespace(b)), b, "ws"})
		lit := []string{"null", "true", "false"}[r.IntN(3)]
		lb := []byte(lit)
		if r.IntN(2) == 0 {
			lb[r.IntN(len(lb))] = "nulltruefalseX "[r.IntN(15)]
		}
		lb = append(lb, "x ,"[r.IntN(3)])
		lb = lb[:r.IntN(len(lb)+1)]
		n, err := jsonwire.ConsumeLiteral(lb, lit)
		cases = append(cases, c05CorrCase{"dec lit " + hx([]byte(lit)) + " " + hx(lb), fmt.Sprintf("%d %s", n, c05WireErr(err)), lb, "lit"})
	}
	// the refill loops of the decoder itself: a top-level token delivered in chunks
	nChunk := c.N(3000, 60000)
	for i := 0; i < nChunk; i++ {
		var t []byte
		isStr := i%2 == 0
		if isStr {
			t = strs[r.IntN(len(strs))]
		} else {
			t = nums[r.IntN(len(nums))]
			if len(t) == 0 || !(t[0] == '-' || ('0' <= t[0] && t[0] <= '9')) {
				continue
			}
		}
		if len(t) == 0 || len(t) > 60 {
			continue
		}
		validate := i%4 < 2
		plan := c05Plan{kind: "chunks", name: "corr", faultAt: -1}
		line := "dec chunkN"
		if isStr {
			line = fmt.Sprintf("dec chunkS %d", b2i(validate))
		}
		for pos := 0; pos < len(t); {
			k := 1 + r.IntN(len(t)-pos)
			if r.IntN(3) == 0 {
				k = 1 + r.IntN(min(3, len(t)-pos))
			}
			plan.chunks = append(plan.chunks, k)
			line += " " + hx(t[pos:pos+k])
			pos += k
		}
		optSel := 0
		if !validate {
			optSel = 2
		}
		run, _ := c05RunStream(c, t, plan, optSel, []byte("T"), false, 0)
		if run.panicked != nil || len(run.recs) != 1 {
			continue
		}
		rc := run.recs[0]
		var want string
		if rc.ecl == "nil" {
			want = fmt.Sprintf("%d ok", rc.off)
		} else {
			want = fmt.Sprintf("%d %s", rc.eoff, c05ClassToWire(rc.ecl))
		}
		op := "chunkN"
		if isStr {
			op = "chunkS"
		}
		cases = append(cases, c05CorrCase{line, want, t, op})
		c.Hit("corr:" + op + ":" + c05ClassToWire(rc.ecl))
	}
	lines := make([]string, len(cases))
	for i, cs := range cases {
		lines[i] = cs.line
	}
	ans := or.Ask(lines)
	bad := 0
	for i, cs := range cases {
		got := ans[i]
		if cs.op == "chunkS" {
			// the decoder does not expose the value flags: compare n and the class
			f := strings.Fields(got)
			if len(f) == 3 {
				got = f[0] + " " + f[2]
			}
		}
		if got != cs.want {
			bad++
			c.Violate("corr-resume", "dec "+cs.op, cs.in, map[string]any{"line": cs.line, "implementation": cs.want, "model": ans[i], "input": string(cs.in)})
		}
	}
	c.HitN("corr:lines", int64(len(cases)))
	c.Note("phase H: %d correspondence lines (strR/numR on every prefix of %d strings and %d numbers incl. resumed calls, ws, lit, chunk loops through the real decoder), %d disagreements; resumed-vs-from-scratch (Go vs Go) mismatches: %d",
		len(cases), len(strs), len(nums), bad, nResumeBad)
}

// ---------------------------------------------------------------------------------------------

// ---------------------------------------------------------------------------------------------
// Phase S: correspondence of the streaming decoder MODEL (Model/Stream.lean, family dec, op stream) with the real
// Decoder: a recording reader logs what every Read delivered (chunk / empty read / fault / EOF); the model is run
// on exactly that event list (plus what was not read yet) and must return the same result for every ReadToken call.

type c05RecReader struct {
	inner *c05ChunkReader
	log   []string
}

func (r *c05RecReader) Read(p []byte) (int, error) {
	n, err := r.inner.Read(p)
	switch {
	case n > 0:
		r.log = append(r.log, hx(p[:n]))
		if err == io.EOF {
			r.log = append(r.log, "E")
		}
	case err == io.EOF:
		r.log = append(r.log, "E")
	case err != nil:
		r.log = append(r.log, "F")
	default:
		r.log = append(r.log, "-")
	}
	return n, err
}

func (e *c05Env) phaseStreamModel() {
	c := e.c
	or := c.NewOracle()
	if or == nil {
		c.Note("phase S skipped: no oracle")
		return
	}
	// identities of two unexported sentinels, learnt from the implementation itself
	sentinel := map[string]string{}
	learn := func(in string, calls int, name string) {
		d := jsontext.NewDecoder(strings.NewReader(in))
		var err error
		for i := 0; i < calls && err == nil; i++ {
			_, err = d.ReadToken()
		}
		if cl, _, _ := c05ErrClass(err); strings.HasPrefix(cl, "SYN:*") {
			sentinel[cl] = name
		}
	}
	guard(func() {
		learn(`{"a":}`, 3, "missingvalue")
		learn(strings.Repeat("[", 10001), 10001, "maxdepth")
	})
	classOf := func(ecl string) string {
		switch ecl {
		case "EOF":
			return "ioeof"
		case "SYN:ueof":
			return "eof"
		case "SYN:utf8":
			return "utf8"
		case "SYN:text:character":
			return "char"
		case "SYN:text:escape sequence", "SYN:text:surrogate pair":
			return "esc"
		case "SYN:dup":
			return "dup"
		case "SYN:nonstring-name":
			return "nonstring"
		}
		if n, ok := sentinel[ecl]; ok {
			return n
		}
		return ecl
	}
	type sc struct {
		line   string
		want   []string
		in     []byte
		plan   string
		script string
	}
	var cases []sc
	r := c05Rng(c, 10, 0)
	g := c05Gen{r}
	inputs := c05SmallInputs(true)
	for i, n := 0, c.N(1500, 40000); i < n; i++ {
		d, _ := g.doc()
		if len(d) <= 400 {
			inputs = append(inputs, d)
		}
	}
	for _, sh := range []string{"string", "string-esc", "string-utf8", "number", "number-frac", "array", "array-str", "ws", "name", "members", "objs"} {
		for _, sz := range []int{60, 63, 64, 65, 70, 127, 129, 200} {
			inputs = append(inputs, c05Sized(sh, sz))
		}
	}
	const ncalls = 14
	for ii, in := range inputs {
		var plans []c05Plan
		plans = append(plans, c05Plan{kind: "chunks", name: "1-byte", fixed: 1, emptyMode: ii % 3, faultAt: -1},
			c05Plan{kind: "chunks", name: "max", eofWithData: ii%2 == 0, faultAt: -1}, c05RandomPlan(r, len(in)), c05RandomPlan(r, len(in)))
		for k := 0; k < 3; k++ {
			p := c05RandomPlan(r, len(in))
			p.faultAt = r.IntN(6 + len(in)/3)
			plans = append(plans, p)
		}
		for _, p := range plans {
			optSel := 0
			if r.IntN(4) == 0 {
				optSel = 1 + r.IntN(3)
			}
			data := append([]byte(nil), in...)
			pl := p
			rec := &c05RecReader{inner: &c05ChunkReader{data: data, plan: &pl, rs: p.seed | 1, sticky: true}}
			var want []string
			ok := true
			// the script: ReadToken only, or a random word over ReadToken / ReadValue / SkipValue
			script := strings.Repeat("T", ncalls)
			if r.IntN(3) != 0 {
				bs := make([]byte, ncalls)
				for i := range bs {
					bs[i] = "TTVSVPP"[r.IntN(7)]
				}
				script = string(bs)
			}
			if pp := guard(func() {
				dec := jsontext.NewDecoder(rec, c05Opts(optSel)...)
				for i := 0; i < ncalls; i++ {
					var err error
					var res string
					switch script[i] {
					case 'T':
						var tok jsontext.Token
						tok, err = dec.ReadToken()
						if err == nil {
							res = fmt.Sprintf("T%d:%d", tok.Kind(), dec.InputOffset())
						}
					case 'V':
						var v jsontext.Value
						v, err = dec.ReadValue()
						if err == nil {
							res = fmt.Sprintf("T%d:%d:%d", v.Kind(), dec.InputOffset()-int64(len(v)), dec.InputOffset())
						}
					case 'S':
						err = dec.SkipValue()
						if err == nil {
							res = fmt.Sprintf("S:%d", dec.InputOffset())
						}
					case 'P':
						res = fmt.Sprintf("K%d", dec.PeekKind()) // 0: an error (possibly the read fault) is cached
					}
					cl, off, _ := c05ErrClass(err)
					switch {
					case cl == "nil":
						want = append(want, res)
					case cl == "IO":
						want = append(want, "F")
					case cl == "EOF":
						want = append(want, "Xioeof")
					default:
						want = append(want, fmt.Sprintf("X%s:%d", classOf(cl), off))
					}
				}
			}); pp != nil {
				c.Panic("stream-model:"+script, in, pp, map[string]any{"reader": p.String()})
				ok = false
			}
			if !ok {
				continue
			}
			line := fmt.Sprintf("dec script %d %s %s", optSel, script, strings.Join(rec.log, " "))
			if rest := data[rec.inner.pos:]; len(rest) > 0 && (len(rec.log) == 0 || rec.log[len(rec.log)-1] != "E") {
				line += " " + hx(rest)
			}
			line += " E"
			cases = append(cases, sc{line, want, in, p.String() + " " + script, script})
			c.Case("S|"+string(in)+"|"+p.String(), len(in) >= 2)
		}
	}
	lines := make([]string, len(cases))
	for i, cs := range cases {
		lines[i] = cs.line
	}
	ans := or.Ask(lines)
	bad := 0
	for i, cs := range cases {
		got := strings.Split(ans[i], ";")
		// the model reports T<kind>:<start>:<stop> and X<class>:<offset>; the implementation does not expose the start,
		// and io.EOF carries no offset
		for j := range got {
			f := strings.Split(got[j], ":")
			switch {
			case len(f) == 3 && strings.HasPrefix(f[0], "T") && j < len(cs.script) && cs.script[j] == 'T':
				got[j] = f[0] + ":" + f[2]
			case f[0] == "Xioeof":
				got[j] = "Xioeof"
			}
		}
		if strings.Join(got, ";") != strings.Join(cs.want, ";") {
			bad++
			c.Violate("corr-stream", "dec stream", cs.in, map[string]any{"line": trunc(cs.line, 300), "implementation": strings.Join(cs.want, ";"), "model": ans[i], "input": trunc(string(cs.in), 200), "reader": cs.plan})
		}
		for j, w := range cs.want {
			call := "T"
			if j < len(cs.script) {
				call = cs.script[j : j+1]
			}
			c.Hit("corr:stream:" + call + "->" + w[:1])
		}
	}
	c.HitN("corr:stream-lines", int64(len(cases)))
	c.Note("phase S: %d runs of %d calls (ReadToken only, or random words over ReadToken/ReadValue/SkipValue/PeekKind) of the real Decoder over recorded reader events vs the streaming model, %d disagreements", len(cases), ncalls, bad)
}

// c05Replay re-runs the single case recorded in a replay file written by Violate.
func (e *c05Env) replay(path string) {
	c := e.c
	raw, err := os.ReadFile(path)
	if err != nil {
		fail("replay: %v", err)
	}
	var f struct {
		Violation struct {
			Kind   string         `json:"kind"`
			Op     string         `json:"op"`
			Input  string         `json:"input_hex"`
			Detail map[string]any `json:"detail"`
		} `json:"violation"`
	}
	if err := stdjson.Unmarshal(raw, &f); err != nil {
		fail("replay: %v", err)
	}
	in := unhx(f.Violation.Input)
	rp, _ := f.Violation.Detail["replay"].(map[string]any)
	num := func(k string) int {
		v, _ := rp[k].(float64)
		return int(v)
	}
	str := func(k string) string {
		v, _ := rp[k].(string)
		return v
	}
	c.Case("replay|"+f.Violation.Input, true)
	if rp == nil || strings.HasPrefix(f.Violation.Op, "Unmarshal") || strings.HasPrefix(f.Violation.Op, "Value.") {
		// json-level cases carry no plan: re-run the input through every plan
		r := c05Rng(c, 9, 0)
		all := append(append([]func() any(nil), c05BaseTargets...), c05TypedTargets...)
		for optSel := 0; optSel < 8; optSel++ {
			e.unmarshalCase(in, r, optSel, all)
			for _, mk := range all {
				e.decodeStreamCase(in, r, optSel, mk)
			}
		}
		return
	}
	plan := c05Plan{kind: str("kind"), name: str("name"), fixed: num("fixed"), emptyMode: num("empty_mode"), faultAt: num("fault_at")}
	plan.eofWithData, _ = rp["eof_with_data"].(bool)
	if sd, ok := rp["seed"].(float64); ok {
		plan.seed = uint64(sd)
	}
	if cs, ok := rp["chunks"].([]any); ok {
		for _, x := range cs {
			if v, ok := x.(float64); ok {
				plan.chunks = append(plan.chunks, int(v))
			}
		}
	}
	script := []byte(str("script"))
	ptrEvery, _ := rp["ptr_every"].(bool)
	ref, _ := c05RunRef(c, in, num("options"), script, nil, 0)
	if !e.refOK(in, num("options"), script, ref) {
		return
	}
	e.check(in, plan, num("options"), script, ref, ptrEvery, num("probe"))
	c.Note("replayed %s %s on %d input bytes with reader %s, script %q", f.Violation.Kind, f.Violation.Op, len(in), plan.String(), trunc(string(script), 60))
}

func runC05(c *Ctx) {
	e := &c05Env{c: c, minimise: map[string]int{}}
	if c.ReplayPath != "" {
		e.replay(c.ReplayPath)
		return
	}
	start := time.Now()
	phase := func(name string, f func()) {
		t0 := time.Now()
		before := e.cases.Load()
		f()
		c.Note("%s: %d stream runs in %.1fs (total %.1fs)", name, e.cases.Load()-before, time.Since(t0).Seconds(), time.Since(start).Seconds())
	}
	phase("phase H (model correspondence)", e.phaseCorrespondence)
	phase("phase S (streaming model vs Decoder)", e.phaseStreamModel)
	phase("phase A (exhaustive interleavings)", e.phaseExhaustive)
	phase("phase B (fault at every read index)", e.phaseFaults)
	phase("phase E (straddling tokens)", e.phaseStraddle)
	phase("phase C (random documents/scripts/plans)", e.phaseRandom)
	phase("phase D (size sweep 48..8195)", e.phaseSizes)
	phase("phase F (UnmarshalRead/UnmarshalDecode/IsValid)", e.phaseUnmarshal)
	phase("phase G (errors located before a value, every split of the delimiter runs)", e.phaseBeforeValue)
	c.HitN("stream-runs-total", e.cases.Load())
}
