package main

// C14 — Unmarshal merges JSON objects into existing values and replaces everything else.
//
// For a merge-capable Go type T and JSON texts j1..jk (k ≤ 4): unmarshaling them one after the
// other into the same variable, whenever every call succeeds, gives the same value as unmarshaling
// mergeall(j1..jk) into a zero value, where merge unions objects recursively and otherwise takes
// the right operand.  A JSON null zeroes its destination, a slice ends up holding exactly the new
// elements, an array is overwritten element-wise with the missing elements zeroed, map entries and
// struct fields that the input does not mention are kept.
//
// Checks (every call into the library goes through guard):
//
//	(1) corr-unm    the real chain of json.Unmarshal calls vs the Lean model (`arsh chain`, and the
//	                single step `arsh unm` on the printed prior value), step by step: value equality
//	                through ValueEqualsWire, or the same coarse error class (never message text);
//	    corr-merge  the Lean `merge`/`mergeAll` vs the independent Go MergeNodes;
//	    corr-zero   the model's zero value / wf of every generated type vs reflect.Zero;
//	(2) merge-law   the property itself on the implementation: Unmarshal(merge(ji,ji+1)) and
//	                Unmarshal(mergeall(j1..jk)) into a zero value succeed and equal the sequential
//	                result whenever the sequential calls all succeed;
//	(3) the four clauses directly on the implementation with non-zero priors:
//	    null-zeroes, slice-exact (including stale backing-array data after shrink + regrow),
//	    array-overwrite (both option words), unmentioned-kept (recursive frame check).
//
// Case kinds: "rand" (random type, texts fitted to it), "slice" and "array" (a slice/array type at
// the root, behind a pointer, in a struct field, in a map entry or inside an `any`, with three
// arrays long/short/longer); all of them run through (1) and (2).

import (
	"bytes"
	"errors"
	"fmt"
	"math/rand/v2"
	"os"
	"reflect"
	"strconv"
	"strings"
	"sync"

	json "github.com/go-json-experiment/json"
	"github.com/go-json-experiment/json/jsontext"
	jsonv1 "github.com/go-json-experiment/json/v1"
)

func init() { register("C14", runC14) }

const c14Workers = 16
const c14Batch = 250

// option word: bit 0 UnmarshalArrayFromAnyLength, bit 1 AllowDuplicateNames (as in `arsh unm <o>`),
// bit 2 FormatByteArrayAsArray (only on cases whose type is outside the model), bit 3 (internal)
// ExperimentalSupportFormatTag for types with format tags.
var c14OptsTab = func() (tab [16][]json.Options) {
	for o := range tab {
		if o&1 != 0 {
			tab[o] = append(tab[o], jsonv1.UnmarshalArrayFromAnyLength(true))
		}
		if o&2 != 0 {
			tab[o] = append(tab[o], jsontext.AllowDuplicateNames(true))
		}
		if o&4 != 0 {
			tab[o] = append(tab[o], jsonv1.FormatByteArrayAsArray(true))
		}
		if o&8 != 0 {
			tab[o] = append(tab[o], json.ExperimentalSupportFormatTag(true))
		}
	}
	return
}()

func c14Opts(o int) []json.Options { return c14OptsTab[o&15] }

// c14ErrClass classifies an Unmarshal error without looking at message text:
// dup | range | numsyntax | semantic (any other SemanticError) | syntax | other.
func c14ErrClass(err error) string {
	var se *jsontext.SyntacticError
	if errors.As(err, &se) {
		if se.Err == jsontext.ErrDuplicateName {
			return "dup"
		}
		return "syntax"
	}
	var me *json.SemanticError
	if errors.As(err, &me) {
		switch {
		case errors.Is(me.Err, strconv.ErrRange):
			return "range"
		case errors.Is(me.Err, strconv.ErrSyntax):
			return "numsyntax"
		}
		return "semantic"
	}
	return "other"
}

// c14FloatRange: a range error raised for a float64 destination (outside the model).
func c14FloatRange(err error) bool {
	var me *json.SemanticError
	return errors.As(err, &me) && errors.Is(me.Err, strconv.ErrRange) && me.GoType != nil &&
		(me.GoType.Kind() == reflect.Float64 || me.GoType.Kind() == reflect.Float32)
}

// c14ClassAgrees: model error token vs Go error class.
func c14ClassAgrees(model, goCls string) bool {
	switch model {
	case "Edup":
		return goCls == "dup"
	case "Erange":
		return goCls == "range"
	case "Enumsyntax":
		return goCls == "numsyntax"
	case "Ekind", "Earraylen":
		return goCls == "semantic"
	}
	return false // Eilltyped, Eunmodelled, ERR …: never expected
}

type c14Step struct {
	ok   bool
	wire string // ValueWire after the step (ok)
	cls  string // error class (!ok)
	errS string // message, for reports only
	frng bool   // float range error (outside the model)
}

type c14Merge struct {
	lo, hi  int // texts lo..hi merged
	goNode  *JNode
	seqOK   bool
	seqVal  reflect.Value
	seqWire string
	li      int
}

// c14Clause describes a slice/array clause case: the container sits at `ctx` inside the root type.
type c14Clause struct {
	kind  string // "slice" | "array"
	ctx   int    // 0 root, 1 behind a pointer, 2 struct field "s", 3 map entry "k", 4 inside `any`
	elemT *TypeDesc
	n     int        // array length
	elems [][][]byte // per step: the element texts
}

type c14Case struct {
	name   string // corpus name ("" for generated)
	t      *TypeDesc
	o      int
	texts  [][]byte
	nodes  []*JNode
	trees  []string
	clause *c14Clause
	dup    bool     // AllowDuplicateNames case with injected repeated names
	wide   bool     // type drawn from the wider universe (GenTypeEx: byte slices/arrays, format tags)
	fmtTag bool     // the type has format tags: every call gets ExperimentalSupportFormatTag(true)
	inMod  bool     // the type is in the Lean model's universe: correspondence lines are sent
	want   []string // corpus: expected per step ("" = unchecked)

	steps  []c14Step
	snaps  []reflect.Value // deep copy of the value after each successful step
	liZero int
	liCh   int
	unmAt  []int // steps asked as single `arsh unm`
	liUnm  []int
	merges []c14Merge
}

func (cs *c14Case) input() []byte {
	var sb strings.Builder
	sb.WriteString(cs.t.Wire())
	for _, t := range cs.texts {
		sb.WriteByte('|')
		sb.Write(t)
	}
	return []byte(sb.String())
}

func (cs *c14Case) detail(extra map[string]any) map[string]any {
	texts := make([]string, len(cs.texts))
	for i, t := range cs.texts {
		texts[i] = string(t)
	}
	d := map[string]any{"type": cs.t.Wire(), "gotype": cs.t.GoType().String(), "option_word": cs.o, "texts": texts}
	if cs.name != "" {
		d["corpus"] = cs.name
	}
	var real []string
	for _, s := range cs.steps {
		if s.ok {
			real = append(real, "ok "+s.wire)
		} else {
			real = append(real, "E"+s.cls+" ("+s.errS+")")
		}
	}
	d["impl_chain"] = real
	for k, v := range extra {
		d[k] = v
	}
	return d
}

type c14Worker struct {
	c     *Ctx
	or    *Oracle
	r     *rand.Rand
	hits  map[string]int64
	types map[string]bool // type wires already checked against `arsh zero`
	curT  *TypeDesc
	curN  int
}

func newC14Worker(c *Ctx, r *rand.Rand) *c14Worker {
	return &c14Worker{c: c, or: c.NewOracle(), r: r, hits: map[string]int64{}, types: map[string]bool{}}
}

func (w *c14Worker) hit(b string) { w.hits[b]++ }

func (w *c14Worker) flushHits() {
	for k, n := range w.hits {
		w.c.HitN(k, n)
	}
	w.hits = map[string]int64{}
}

// unmarshal calls the library under guard; pan reports a library panic (already reported).
func (w *c14Worker) unmarshal(cs *c14Case, text []byte, ptr reflect.Value, o int, what string) (err error, pan bool) {
	if cs.fmtTag {
		o |= 8
	}
	if p := guard(func() { err = json.Unmarshal(text, ptr.Interface(), c14Opts(o)...) }); p != nil {
		w.c.Panic("Unmarshal", cs.input(), p, cs.detail(map[string]any{"call": what, "text": string(text)}))
		return nil, true
	}
	return err, false
}

// c14Debug (env VERIF_C14_DEBUG=1) prints every reported disagreement on stderr, beyond the few
// that Ctx.Violate keeps; for harness/model debugging only.
var c14Debug = os.Getenv("VERIF_C14_DEBUG") != ""

func (w *c14Worker) violate(kind string, cs *c14Case, extra map[string]any) {
	if c14Debug {
		fmt.Fprintf(os.Stderr, "C14DEBUG %s o=%d input=%s extra=%v\n", kind, cs.o, cs.input(), extra)
	}
	w.c.Violate(kind, "Unmarshal", cs.input(), cs.detail(extra))
}

// ---------------------------------------------------------------------------------------------
// generation

func (w *c14Worker) nextType() *TypeDesc {
	if w.curT == nil || w.curN <= 0 {
		w.curT = GenType(w.r, 1+w.r.IntN(4))
		w.curN = 1 + w.r.IntN(10)
	}
	w.curN--
	return w.curT
}

func (w *c14Worker) genRand() *c14Case {
	cs := &c14Case{t: w.nextType()}
	if w.r.IntN(4) == 0 {
		cs.o = 1
	}
	if w.r.IntN(7) == 0 { // AllowDuplicateNames on ordinary (mostly duplicate-free) texts: must change nothing
		cs.o |= 2
	}
	k := 2
	switch x := w.r.IntN(100); {
	case x < 10:
		k = 1
	case x < 70:
		k = 2
	case x < 90:
		k = 3
	default:
		k = 4
	}
	for i := 0; i < k; i++ {
		cs.texts = append(cs.texts, GenJSONFor(w.r, cs.t, 3))
	}
	return cs
}

// genDup builds a case for AllowDuplicateNames (option bit 1): texts that repeat member names — two
// texts fitted to the type concatenated member-wise at the root (or inside a wrapper the type gives:
// pointer target, struct field, map entry), plus cloned/re-generated members injected at random depth.
func (w *c14Worker) genDup() *c14Case {
	cs := &c14Case{t: w.nextType(), o: 2, dup: true}
	if w.r.IntN(4) == 0 {
		cs.o = 3
	}
	k := 1 + w.r.IntN(2)
	for i := 0; i < k; i++ {
		a, _ := ParseJSONTree(GenJSONFor(w.r, cs.t, 3))
		b, _ := ParseJSONTree(GenJSONFor(w.r, cs.t, 3))
		n := c14ConcatDeep(w.r, a, b, 3)
		for x := w.r.IntN(3); x > 0; x-- {
			c14InjectDup(w.r, n, 4)
		}
		cs.texts = append(cs.texts, n.Render())
	}
	return cs
}

// c14ConcatDeep unites two trees the way a text with repeated names would carry both: objects are
// concatenated member-wise (names of b repeat names of a), with probability 1/3 recursing into the
// first pair of same-named object members instead; non-objects: b.
func c14ConcatDeep(r *rand.Rand, a, b *JNode, depth int) *JNode {
	if a == nil || b == nil || a.Kind != '{' || b.Kind != '{' {
		if b == nil {
			return a
		}
		return b
	}
	out := &JNode{Kind: '{'}
	out.Names = append(out.Names, a.Names...)
	out.Elems = append(out.Elems, a.Elems...)
	if depth > 0 && r.IntN(3) == 0 {
		for i, n := range out.Names {
			if m, cnt := b.Member(n); cnt > 0 && m.Kind == '{' && out.Elems[i].Kind == '{' {
				out.Elems[i] = c14ConcatDeep(r, out.Elems[i], m, depth-1)
				break
			}
		}
	}
	out.Names = append(out.Names, b.Names...)
	out.Elems = append(out.Elems, b.Elems...)
	return out
}

// c14InjectDup appends, to a random object of the tree, a member that repeats an existing name with
// a clone of that member's value (clone of an object/array: a random sub-list of its members).
func c14InjectDup(r *rand.Rand, n *JNode, depth int) {
	if n == nil || depth == 0 {
		return
	}
	if n.Kind == '{' && len(n.Names) > 0 && r.IntN(2) == 0 {
		i := r.IntN(len(n.Names))
		c := *n.Elems[i]
		if (c.Kind == '{' || c.Kind == '[') && len(c.Elems) > 0 {
			cut := r.IntN(len(c.Elems) + 1)
			c.Elems = append([]*JNode(nil), c.Elems[:cut]...)
			if c.Kind == '{' {
				c.Names = append([]string(nil), c.Names[:cut]...)
			}
		}
		n.Names = append(n.Names, n.Names[i])
		n.Elems = append(n.Elems, &c)
		return
	}
	if (n.Kind == '{' || n.Kind == '[') && len(n.Elems) > 0 {
		c14InjectDup(r, n.Elems[r.IntN(len(n.Elems))], depth-1)
	}
}

// dupPredicates evaluates, on the implementation only, the two AllowDuplicateNames statements of
// C14/C08 for text i of the case (prior = value before that step):
//   - permissive-eq: a text without repeated names gives the same result with and without the option;
//   - later-wins: an object text {ms…, k:x} gives the same result as the two calls {ms…} then {k:x}.
func (w *c14Worker) dupPredicates(cs *c14Case, i int, prior reflect.Value) bool {
	gt := cs.t.GoType()
	run := func(o int, what string, texts ...[]byte) (reflect.Value, error, bool) {
		v := reflect.New(gt)
		v.Elem().Set(DeepCopyValue(prior))
		for _, t := range texts {
			err, pan := w.unmarshal(cs, t, v, o, what)
			if pan {
				return v, nil, true
			}
			if err != nil {
				return v, err, false
			}
		}
		return v, nil, false
	}
	same := func(kind string, v1 reflect.Value, e1 error, v2 reflect.Value, e2 error, extra map[string]any) {
		bad := ""
		switch {
		case (e1 == nil) != (e2 == nil):
			bad = "one side reports an error"
		case e1 != nil && c14ErrClass(e1) != c14ErrClass(e2):
			bad = "different error classes"
		case e1 == nil && !DeepEqualValues(v1.Elem(), v2.Elem()):
			bad = "different values"
		}
		if bad != "" {
			extra["mismatch"], extra["step"] = bad, i+1
			extra["left"], extra["left_err"] = ValueWire(v1.Elem(), cs.t), fmt.Sprint(e1)
			extra["right"], extra["right_err"] = ValueWire(v2.Elem(), cs.t), fmt.Sprint(e2)
			w.violate(kind, cs, extra)
		}
	}
	n := cs.nodes[i]
	if n.DupFree() {
		v1, e1, pan := run(cs.o, "permissive-eq with option", cs.texts[i])
		if pan {
			return false
		}
		v2, e2, pan := run(cs.o&^2, "permissive-eq without option", cs.texts[i])
		if pan {
			return false
		}
		w.hit("permissive-eq-checked")
		same("permissive-eq", v1, e1, v2, e2, map[string]any{})
	}
	if n.Kind == '{' && len(n.Names) >= 1 {
		last := len(n.Names) - 1
		head := &JNode{Kind: '{', Names: n.Names[:last], Elems: n.Elems[:last]}
		tail := &JNode{Kind: '{', Names: n.Names[last:], Elems: n.Elems[last:]}
		v1, e1, pan := run(cs.o, "later-wins whole", cs.texts[i])
		if pan {
			return false
		}
		v2, e2, pan := run(cs.o, "later-wins split", head.Render(), tail.Render())
		if pan {
			return false
		}
		if _, cnt := head.Member(n.Names[last]); cnt > 0 {
			w.hit("later-wins-checked/repeated-name")
		} else {
			w.hit("later-wins-checked/new-name")
		}
		same("later-wins", v1, e1, v2, e2, map[string]any{"head": string(head.Render()), "tail": string(tail.Render())})
	}
	return true
}

// genWide draws the type from the wider universe of GenTypeEx (byte slices and byte arrays in their
// string and array representations, named byte element types, format tags), which the Lean model
// does not cover: such a case runs every predicate that is evaluated on the implementation alone
// (merge law with the Go merge, the four clauses, the byte-array reference check) and no
// correspondence.  The length-relaxing option is on in half of the cases, FormatByteArrayAsArray
// in a quarter; chains of 2..4 texts so that destinations are pre-populated.
func (w *c14Worker) genWide() *c14Case {
	var t *TypeDesc
	for tries := 0; ; tries++ {
		t = GenTypeEx(w.r, 1+w.r.IntN(3), true)
		if !t.InModel() || tries > 8 {
			break
		}
	}
	cs := &c14Case{t: t, wide: true, fmtTag: t.HasFormat()}
	if w.r.IntN(2) == 0 {
		cs.o |= 1
	}
	if w.r.IntN(4) == 0 {
		cs.o |= 4
	}
	k := 2 + w.r.IntN(3)
	if w.r.IntN(4) != 0 {
		k = 2 + w.r.IntN(2)
	}
	for i := 0; i < k; i++ {
		cs.texts = append(cs.texts, GenJSONForBytes(w.r, cs.t, 3, cs.o&4 != 0))
	}
	return cs
}

// bytesRef is the reference check of the array clause for byte arrays and byte slices in their
// STRING representation, wherever they sit in the value just unmarshaled from j (root, struct
// fields, map entries, pointers, elements): the destination holds exactly the decoded bytes —
// a [N]byte the first N of them followed by zeros, whatever it held before; a []byte exactly
// them.  The decoding is done independently with the standard library.
func (w *c14Worker) bytesRef(cs *c14Case, after reflect.Value, t *TypeDesc, j *JNode, path string) string {
	if j == nil || j.Kind == 'n' {
		return ""
	}
	switch t.Kind {
	case TKSlice, TKArray:
		if f, ok := t.BytesAsString(cs.o&4 != 0); ok {
			if j.Kind != '"' {
				return ""
			}
			b, err := DecodeBytesFormat(f, j.Lit)
			if err != nil {
				return path + ": the call succeeded on a string the reference decoder rejects: " + err.Error()
			}
			w.hit("bytes-ref-checked")
			if t.Kind == TKSlice {
				if after.IsNil() || !bytes.Equal(after.Bytes(), b) {
					return fmt.Sprintf("%s: []byte holds %x, decoded input is %x", path, after.Bytes(), b)
				}
				return ""
			}
			if len(b) != t.N {
				if cs.o&1 == 0 {
					return fmt.Sprintf("%s: %d decoded bytes accepted into [%d]byte without UnmarshalArrayFromAnyLength", path, len(b), t.N)
				}
				if len(b) < t.N {
					w.hit("bytes-ref-short")
				} else {
					w.hit("bytes-ref-long")
				}
			}
			want := make([]byte, t.N)
			copy(want, b)
			got := make([]byte, t.N)
			reflect.Copy(reflect.ValueOf(got), after)
			if !bytes.Equal(got, want) {
				return fmt.Sprintf("%s: [%d]byte holds %x, want decoded input + zero fill %x", path, t.N, got, want)
			}
			return ""
		}
		if j.Kind != '[' {
			return ""
		}
		for i, e := range j.Elems {
			if i >= after.Len() {
				break
			}
			if d := w.bytesRef(cs, after.Index(i), t.Elem, e, fmt.Sprintf("%s[%d]", path, i)); d != "" {
				return d
			}
		}
	case TKPtr:
		if !after.IsNil() {
			return w.bytesRef(cs, after.Elem(), t.Elem, j, path)
		}
	case TKStruct:
		if j.Kind != '{' {
			return ""
		}
		for i, f := range t.Fields {
			if m, cnt := j.Member(f.Name); cnt == 1 {
				if d := w.bytesRef(cs, after.Field(i), f.Type, m, path+"."+f.Name); d != "" {
					return d
				}
			}
		}
	case TKMap:
		if j.Kind != '{' || after.IsNil() {
			return ""
		}
		for i, name := range j.Names {
			if _, cnt := j.Member(name); cnt != 1 {
				continue
			}
			if e := after.MapIndex(reflect.ValueOf(name)); e.IsValid() {
				if d := w.bytesRef(cs, e, t.Elem, j.Elems[i], fmt.Sprintf("%s[%q]", path, name)); d != "" {
					return d
				}
			}
		}
	}
	return ""
}

func c14JoinArray(elems [][]byte) []byte {
	b := []byte{'['}
	for i, e := range elems {
		if i > 0 {
			b = append(b, ',')
		}
		b = append(b, e...)
	}
	return append(b, ']')
}

// genClause builds a slice or array clause case: three arrays (long, shorter, longer for slices;
// arbitrary lengths 0..n+2 for arrays) for a container placed at a random context.
func (w *c14Worker) genClause(kind string) *c14Case {
	cl := &c14Clause{kind: kind}
	// element types where stale data would be visible: structs, maps, pointers, any; also plain ones
	var elemT *TypeDesc
	for {
		elemT = GenType(w.r, 1+w.r.IntN(2))
		if elemT.Kind == TKUint && elemT.Bits == 8 {
			continue
		}
		if elemT.Size() <= 12 {
			break
		}
	}
	if w.r.IntN(3) == 0 { // the canonical shape: struct of two ints / pointer / map
		switch w.r.IntN(4) {
		case 0:
			elemT = tdStruct(fld("a", tdInt(32)), fld("b", tdInt(32)))
		case 1:
			elemT = tdPtr(tdStruct(fld("a", tdInt(8)), fld("b", tdString)))
		case 2:
			elemT = tdMap(tdInt(16))
		default:
			elemT = tdAny
		}
	}
	cl.ctx = w.r.IntN(5)
	if kind == "array" && cl.ctx == 4 {
		cl.ctx = 0
	}
	if cl.ctx == 4 {
		elemT = tdAny
	}
	cl.elemT = elemT
	cl.n = w.r.IntN(4)
	var cont *TypeDesc
	if kind == "slice" {
		cont = tdSlice(elemT)
	} else {
		cont = tdArray(cl.n, elemT)
	}
	cs := &c14Case{clause: cl}
	switch cl.ctx {
	case 0:
		cs.t = cont
	case 1:
		cs.t = tdPtr(cont)
	case 2:
		cs.t = tdStruct(fld("a", tdInt(8)), fld("s", cont))
	case 3:
		cs.t = tdMap(cont)
	case 4:
		cs.t = tdAny
	}
	var lens [3]int
	if kind == "slice" {
		lens[0] = 2 + w.r.IntN(4)
		lens[1] = w.r.IntN(lens[0])
		lens[2] = lens[1] + 1 + w.r.IntN(6-lens[1])
		if w.r.IntN(2) == 0 {
			cs.o = w.r.IntN(2)
		}
	} else {
		for i := range lens {
			if w.r.IntN(3) == 0 {
				lens[i] = cl.n
			} else {
				lens[i] = w.r.IntN(cl.n + 3)
			}
		}
		if w.r.IntN(5) < 3 {
			cs.o = 1
		}
	}
	for _, n := range lens {
		var elems [][]byte
		for i := 0; i < n; i++ {
			var e []byte
			for tries := 0; ; tries++ { // fewer failing elements than the plain generator, else the chains die early
				e = GenJSONFor(w.r, elemT, 2)
				if tries >= 2 || w.elemDecodes(e, elemT, cs.o) {
					break
				}
			}
			elems = append(elems, e)
		}
		cl.elems = append(cl.elems, elems)
		arr := c14JoinArray(elems)
		switch cl.ctx {
		case 2:
			if w.r.IntN(3) == 0 {
				arr = append(append([]byte(`{"a":`+strconv.Itoa(w.r.IntN(100))+`,"s":`), arr...), '}')
			} else {
				arr = append(append([]byte(`{"s":`), arr...), '}')
			}
		case 3:
			arr = append(append([]byte(`{"k":`), arr...), '}')
		}
		cs.texts = append(cs.texts, arr)
	}
	return cs
}

// elemDecodes: does the element text decode into a zero element (used only to steer generation)?
func (w *c14Worker) elemDecodes(text []byte, t *TypeDesc, o int) bool {
	var err error
	ptr := reflect.New(t.GoType())
	if p := guard(func() { err = json.Unmarshal(text, ptr.Interface(), c14Opts(o)...) }); p != nil {
		return true // let the real run report it
	}
	return err == nil
}

// container returns the slice/array of a clause case inside the root value (invalid Value if absent).
func (cl *c14Clause) container(root reflect.Value) reflect.Value {
	switch cl.ctx {
	case 0:
		return root
	case 1:
		if root.IsNil() {
			return reflect.Value{}
		}
		return root.Elem()
	case 2:
		return root.Field(1)
	case 3:
		if root.IsNil() {
			return reflect.Value{}
		}
		return root.MapIndex(reflect.ValueOf("k"))
	case 4:
		if root.IsNil() || root.Elem().Type() != rtSliceAny {
			return reflect.Value{}
		}
		return root.Elem()
	}
	return reflect.Value{}
}

// ---------------------------------------------------------------------------------------------
// phase A: run the implementation, evaluate the Go-only predicates, emit oracle lines

func (w *c14Worker) phaseA(cs *c14Case, lines *[]string) bool {
	add := func(l string) int {
		*lines = append(*lines, l)
		return len(*lines) - 1
	}
	cs.liZero, cs.liCh = -1, -1
	for _, txt := range cs.texts {
		n, err := ParseJSONTree(txt)
		if err != nil {
			fail("C14: generated text is not valid JSON: %q: %v", txt, err)
		}
		cs.nodes = append(cs.nodes, n)
		cs.trees = append(cs.trees, n.Wire())
	}
	gt := cs.t.GoType()
	tw := cs.t.Wire()
	cs.inMod = cs.t.InModel()
	useOr := w.or != nil && cs.inMod
	if useOr && !w.types[tw] {
		if len(w.types) > 50000 {
			w.types = map[string]bool{}
		}
		w.types[tw] = true
		cs.liZero = add("arsh zero " + tw)
		add("arsh wf " + tw)
	}

	// (1) the real chain
	v := reflect.New(gt)
	zero := reflect.Zero(gt)
	for i, txt := range cs.texts {
		err, pan := w.unmarshal(cs, txt, v, cs.o, fmt.Sprintf("chain step %d", i+1))
		if pan {
			return false
		}
		if err != nil {
			st := c14Step{cls: c14ErrClass(err), errS: err.Error(), frng: c14FloatRange(err)}
			cs.steps = append(cs.steps, st)
			w.hit("step-err/" + st.cls)
			if cs.clause != nil {
				w.clauseStep(cs, i, reflect.Value{}, err)
			}
			break
		}
		w.hit("step-ok")
		cs.steps = append(cs.steps, c14Step{ok: true, wire: ValueWire(v.Elem(), cs.t)})
		cs.snaps = append(cs.snaps, DeepCopyValue(v.Elem()))
		// (3d) unmentioned-kept, recursively, against the value before the call
		before := zero
		if i > 0 {
			before = cs.snaps[i-1]
		}
		if d := w.kept(before, v.Elem(), cs.t, cs.nodes[i], "$"); d != "" {
			w.violate("unmentioned-kept", cs, map[string]any{"step": i + 1, "mismatch": d,
				"before": ValueWire(before, cs.t), "after": ValueWire(v.Elem(), cs.t)})
		}
		if cs.wide {
			if d := w.bytesRef(cs, v.Elem(), cs.t, cs.nodes[i], "$"); d != "" {
				w.violate("bytes-overwrite", cs, map[string]any{"step": i + 1, "mismatch": d,
					"before": ValueWire(before, cs.t), "after": ValueWire(v.Elem(), cs.t)})
			}
		}
		if cs.clause != nil {
			w.clauseStep(cs, i, v.Elem(), nil)
		}
	}
	k := len(cs.texts)

	// (4) AllowDuplicateNames predicates on the implementation (option bit 1)
	if cs.o&2 != 0 {
		for i := range cs.texts {
			if i > len(cs.snaps) {
				break
			}
			prior := zero
			if i > 0 {
				prior = cs.snaps[i-1]
			}
			if !w.dupPredicates(cs, i, prior) {
				return false
			}
			if !cs.nodes[i].DupFree() {
				w.hit("dup-text")
			}
		}
	}

	// (2) merges: adjacent pairs and the whole chain
	for i := 0; i+1 < k; i++ {
		m := c14Merge{lo: i, hi: i + 1, goNode: MergeNodes(cs.nodes[i], cs.nodes[i+1]), li: -1}
		if i == 0 {
			if len(cs.steps) >= 2 && cs.steps[1].ok {
				m.seqOK, m.seqVal, m.seqWire = true, cs.snaps[1], cs.steps[1].wire
			}
		} else {
			v2 := reflect.New(gt)
			e1, pan := w.unmarshal(cs, cs.texts[i], v2, cs.o, "pair first")
			if pan {
				return false
			}
			if e1 == nil {
				e2, pan := w.unmarshal(cs, cs.texts[i+1], v2, cs.o, "pair second")
				if pan {
					return false
				}
				if e2 == nil {
					m.seqOK, m.seqVal, m.seqWire = true, v2.Elem(), ValueWire(v2.Elem(), cs.t)
				}
			}
		}
		if useOr {
			m.li = add("arsh merge " + cs.trees[i] + " " + cs.trees[i+1])
		}
		cs.merges = append(cs.merges, m)
	}
	if k >= 3 {
		acc := cs.nodes[0]
		for _, n := range cs.nodes[1:] {
			acc = MergeNodes(acc, n)
		}
		m := c14Merge{lo: 0, hi: k - 1, goNode: acc, li: -1}
		if len(cs.steps) == k && cs.steps[k-1].ok {
			m.seqOK, m.seqVal, m.seqWire = true, cs.snaps[k-1], cs.steps[k-1].wire
		}
		if useOr {
			m.li = add("arsh mergeall " + strconv.Itoa(k) + " " + strings.Join(cs.trees, " "))
		}
		cs.merges = append(cs.merges, m)
	}

	// (3a) null-zeroes on a non-zero prior
	if len(cs.snaps) > 0 && (cs.name != "" || w.r.IntN(2) == 0) {
		if !w.nullClause(cs, cs.snaps[len(cs.snaps)-1]) {
			return false
		}
	}

	// oracle lines for (1)
	if useOr {
		cs.liCh = add(fmt.Sprintf("arsh chain %d %s %d %s", cs.o&3, tw, k, strings.Join(cs.trees, " ")))
		zw := ValueWire(zero, cs.t)
		for i := range cs.steps {
			if cs.name == "" && w.r.IntN(3) != 0 {
				continue
			}
			prior := zw
			if i > 0 {
				prior = cs.steps[i-1].wire
			}
			if strings.Contains(prior, "?") {
				continue
			}
			cs.unmAt = append(cs.unmAt, i)
			cs.liUnm = append(cs.liUnm, add(fmt.Sprintf("arsh unm %d %s %s %s", cs.o&3, tw, cs.trees[i], prior)))
		}
	}
	return true
}

// kept is the frame check of clause (d): everything the JSON value j does not mention must be
// unchanged between `before` (a deep copy taken before the call) and `after`.  It descends exactly
// where Unmarshal merges: struct fields, existing map entries, non-nil pointers, `any` holding a map.
func (w *c14Worker) kept(before, after reflect.Value, t *TypeDesc, j *JNode, path string) string {
	switch t.Kind {
	case TKStruct:
		if j.Kind != '{' {
			return ""
		}
		if !before.IsZero() {
			w.hit("merged-objects")
		}
		for i, f := range t.Fields {
			m, cnt := j.Member(f.Name)
			switch cnt {
			case 0:
				if !DeepEqualValues(before.Field(i), after.Field(i)) {
					return fmt.Sprintf("%s.%s: field not mentioned by the input changed", path, f.Name)
				}
			case 1:
				if d := w.kept(before.Field(i), after.Field(i), f.Type, m, path+"."+f.Name); d != "" {
					return d
				}
			}
		}
	case TKMap:
		if j.Kind != '{' {
			return ""
		}
		if after.IsNil() {
			return path + ": nil map after unmarshaling an object"
		}
		if before.IsNil() || before.Len() == 0 {
			it := after.MapRange()
			for it.Next() {
				if _, cnt := j.Member(it.Key().String()); cnt == 0 {
					return fmt.Sprintf("%s[%q]: entry appeared that the input does not mention", path, it.Key().String())
				}
			}
			return ""
		}
		w.hit("merged-objects")
		it := before.MapRange()
		for it.Next() {
			key := it.Key().String()
			av := after.MapIndex(it.Key())
			if !av.IsValid() {
				return fmt.Sprintf("%s[%q]: entry disappeared", path, key)
			}
			m, cnt := j.Member(key)
			switch cnt {
			case 0:
				if !DeepEqualValues(it.Value(), av) {
					return fmt.Sprintf("%s[%q]: entry not mentioned by the input changed", path, key)
				}
			case 1:
				if d := w.kept(it.Value(), av, t.Elem, m, path+"["+strconv.Quote(key)+"]"); d != "" {
					return d
				}
			}
		}
		it = after.MapRange()
		for it.Next() {
			if before.MapIndex(it.Key()).IsValid() {
				continue
			}
			if _, cnt := j.Member(it.Key().String()); cnt == 0 {
				return fmt.Sprintf("%s[%q]: entry appeared that the input does not mention", path, it.Key().String())
			}
		}
	case TKPtr:
		if j.Kind == 'n' || before.IsNil() {
			return ""
		}
		if after.IsNil() {
			return path + ": pointer became nil after a non-null input"
		}
		return w.kept(before.Elem(), after.Elem(), t.Elem, j, path+"*")
	case TKAny:
		if j.Kind != '{' || before.IsNil() || before.Elem().Type() != rtMapAny {
			return ""
		}
		if after.IsNil() || after.Elem().Type() != rtMapAny {
			return path + ": interface holding a map no longer holds a map after an object input"
		}
		w.hit("any-nonnil-merge")
		return w.kept(before.Elem(), after.Elem(), tdMapAny, j, path+".(map)")
	}
	return ""
}

// nullClause: (3a) `null` into a copy of the prior yields the zero value; `{"f":null}` zeroes exactly
// that struct field / map entry.  Returns false after a library panic.
func (w *c14Worker) nullClause(cs *c14Case, prior reflect.Value) bool {
	gt := cs.t.GoType()
	p := reflect.New(gt)
	p.Elem().Set(DeepCopyValue(prior))
	ws := []string{"null", " null", "null\n", "\tnull "}[w.r.IntN(4)]
	err, pan := w.unmarshal(cs, []byte(ws), p, cs.o, "null clause")
	if pan {
		return false
	}
	w.hit("clause-null")
	if err != nil || !DeepEqualValues(p.Elem(), reflect.Zero(gt)) {
		w.violate("null-zeroes", cs, map[string]any{"prior": ValueWire(prior, cs.t), "after": ValueWire(p.Elem(), cs.t), "err": fmt.Sprint(err)})
	}
	// nested
	t, pv := cs.t, prior
	unwrap := func(v reflect.Value) reflect.Value { return v }
	switch {
	case t.Kind == TKPtr && (t.Elem.Kind == TKStruct || t.Elem.Kind == TKMap) && !prior.IsNil():
		t, pv = t.Elem, prior.Elem()
		unwrap = func(v reflect.Value) reflect.Value { return v.Elem() }
	case t.Kind == TKAny && !prior.IsNil() && prior.Elem().Type() == rtMapAny:
		t, pv = tdMapAny, prior.Elem()
		unwrap = func(v reflect.Value) reflect.Value {
			if v.IsNil() || v.Elem().Type() != rtMapAny {
				return reflect.Value{}
			}
			return v.Elem()
		}
	}
	switch t.Kind {
	case TKStruct:
		if len(t.Fields) == 0 {
			return true
		}
		fi := w.r.IntN(len(t.Fields))
		text := append(append([]byte("{"), JSONQuote(t.Fields[fi].Name)...), ":null}"...)
		p := reflect.New(gt)
		p.Elem().Set(DeepCopyValue(prior))
		err, pan := w.unmarshal(cs, text, p, cs.o, "nested null clause")
		if pan {
			return false
		}
		w.hit("clause-null-field")
		bad := ""
		if err != nil {
			bad = "error: " + err.Error()
		} else {
			after := unwrap(p.Elem())
			for i, f := range t.Fields {
				if i == fi && !DeepEqualValues(after.Field(i), reflect.Zero(f.Type.GoType())) {
					bad = "field " + f.Name + " not zeroed"
				}
				if i != fi && !DeepEqualValues(after.Field(i), pv.Field(i)) {
					bad = "field " + f.Name + " changed"
				}
			}
		}
		if bad != "" {
			w.violate("null-zeroes", cs, map[string]any{"text": string(text), "prior": ValueWire(prior, cs.t), "after": ValueWire(p.Elem(), cs.t), "mismatch": bad})
		}
	case TKMap:
		key := gtKeyPool[w.r.IntN(len(gtKeyPool))]
		if !pv.IsNil() && pv.Len() > 0 && w.r.IntN(3) != 0 {
			keys := pv.MapKeys()
			// deterministic pick: smallest key
			key = keys[0].String()
			for _, k := range keys {
				if k.String() < key {
					key = k.String()
				}
			}
		}
		text := append(append([]byte("{"), JSONQuote(key)...), ":null}"...)
		p := reflect.New(gt)
		p.Elem().Set(DeepCopyValue(prior))
		err, pan := w.unmarshal(cs, text, p, cs.o, "nested null clause")
		if pan {
			return false
		}
		w.hit("clause-null-entry")
		bad := ""
		if err != nil {
			bad = "error: " + err.Error()
		} else if after := unwrap(p.Elem()); !after.IsValid() || after.IsNil() {
			bad = "no map after the call"
		} else {
			kv := reflect.ValueOf(key)
			want := 1
			if !pv.IsNil() {
				want = pv.Len()
				if !pv.MapIndex(kv).IsValid() {
					want++
				}
			}
			e := after.MapIndex(kv)
			switch {
			case after.Len() != want:
				bad = fmt.Sprintf("map has %d entries, want %d", after.Len(), want)
			case !e.IsValid() || !DeepEqualValues(e, reflect.Zero(t.Elem.GoType())):
				bad = "entry not zeroed"
			case !pv.IsNil():
				it := pv.MapRange()
				for it.Next() {
					if it.Key().String() == key {
						continue
					}
					if a := after.MapIndex(it.Key()); !a.IsValid() || !DeepEqualValues(a, it.Value()) {
						bad = fmt.Sprintf("entry %q changed", it.Key().String())
					}
				}
			}
		}
		if bad != "" {
			w.violate("null-zeroes", cs, map[string]any{"text": string(text), "prior": ValueWire(prior, cs.t), "after": ValueWire(p.Elem(), cs.t), "mismatch": bad})
		}
	}
	return true
}

// clauseStep: (3b) slice-exact and (3c) array-overwrite after step i of a clause case.
// root is the value after the call (invalid if the call failed with err).
func (w *c14Worker) clauseStep(cs *c14Case, i int, root reflect.Value, err error) {
	cl := cs.clause
	elems := cl.elems[i]
	et := cl.elemT.GoType()
	kind := "slice-exact"
	if cl.kind == "array" {
		kind = "array-overwrite"
	}
	limit := len(elems)
	if cl.kind == "array" && cl.n < limit {
		limit = cl.n
	}
	// fresh decode of every element that has a destination
	fresh := make([]reflect.Value, limit)
	expectOK := true
	for e := 0; e < limit; e++ {
		fp := reflect.New(et)
		ferr, pan := w.unmarshal(cs, elems[e], fp, cs.o, "fresh element")
		if pan {
			return
		}
		if ferr != nil {
			expectOK = false
			break
		}
		fresh[e] = fp.Elem()
	}
	if cl.kind == "array" {
		for e := limit; e < len(elems) && expectOK; e++ { // surplus elements are only syntax-checked
			n, perr := ParseJSONTree(elems[e])
			if perr != nil {
				fail("C14: element text does not parse: %q", elems[e])
			}
			if !n.DupFree() {
				expectOK = false
			}
		}
		if len(elems) < cl.n {
			w.hit("array-short")
		} else if len(elems) > cl.n {
			w.hit("array-long")
		} else {
			w.hit("array-exact")
		}
		if expectOK && cs.o&1 == 0 && len(elems) != cl.n {
			expectOK = false
			if err != nil && c14ErrClass(err) != "semantic" {
				w.violate(kind, cs, map[string]any{"step": i + 1, "mismatch": "array length mismatch under default options is not reported as a plain SemanticError", "err": err.Error()})
			}
		}
	}
	if (err == nil) != expectOK {
		w.violate(kind, cs, map[string]any{"step": i + 1, "err": fmt.Sprint(err),
			"mismatch": fmt.Sprintf("call succeeded=%v but the elements decoded one by one (and the length rule) say %v", err == nil, expectOK)})
		return
	}
	if err != nil {
		w.hit("clause-" + cl.kind + "-err")
		return
	}
	w.hit("clause-" + cl.kind + "-ok")
	cont := cl.container(root)
	if !cont.IsValid() {
		w.violate(kind, cs, map[string]any{"step": i + 1, "mismatch": "container missing after a successful call", "after": ValueWire(root, cs.t)})
		return
	}
	bad := ""
	if cl.kind == "slice" {
		if cont.IsNil() {
			bad = "nil slice after a JSON array"
		} else if cont.Len() != len(elems) {
			bad = fmt.Sprintf("len %d after a JSON array of %d elements", cont.Len(), len(elems))
		}
		if i > 0 && len(elems) < len(cl.elems[i-1]) {
			w.hit("slice-shrink")
		}
		if i > 0 && len(elems) > len(cl.elems[i-1]) {
			w.hit("slice-regrow")
		}
		if bad == "" && cont.Cap() > cont.Len() { // hidden capacity may hold anything; record that stale data really exists
			full := cont.Slice(0, cont.Cap())
			for e := cont.Len(); e < full.Len(); e++ {
				if !full.Index(e).IsZero() {
					w.hit("slice-stale-data-beyond-len")
					break
				}
			}
		}
	} else if cont.Len() != cl.n {
		bad = "array length changed"
	}
	for e := 0; bad == "" && e < limit; e++ {
		if !DeepEqualValues(cont.Index(e), fresh[e]) {
			bad = fmt.Sprintf("element %d differs from decoding %q into a zero element (%s)", e, elems[e], ValueWire(fresh[e], cl.elemT))
		}
	}
	if cl.kind == "array" {
		z := reflect.Zero(et)
		for e := limit; bad == "" && e < cl.n; e++ {
			if !DeepEqualValues(cont.Index(e), z) {
				bad = fmt.Sprintf("element %d beyond the input is not zero", e)
			}
		}
	}
	if bad != "" {
		w.violate(kind, cs, map[string]any{"step": i + 1, "mismatch": bad, "after": ValueWire(root, cs.t)})
	}
}

// ---------------------------------------------------------------------------------------------
// phase B: compare with the oracle's answers, evaluate the merge law

// c14Interact: does merging b over a unite two objects somewhere / replace a container somewhere?
func c14Interact(a, b *JNode) (objMerge, replace bool) {
	if a.Kind == '{' && b.Kind == '{' {
		objMerge = true
		for i, name := range a.Names {
			if bv, cnt := b.Member(name); cnt > 0 {
				o, r := c14Interact(a.Elems[i], bv)
				objMerge = objMerge || o
				replace = replace || r
			}
		}
		return
	}
	if a.Kind == '[' || a.Kind == '{' {
		replace = true
	}
	return
}

// compareStep compares step i of the real chain with the model's answer; it returns whether they
// agree (a disagreement has been reported, except for the float-range skip).
func (w *c14Worker) compareStep(cs *c14Case, i int, model string, via string) (agree bool) {
	st := cs.steps[i]
	mOK := strings.HasPrefix(model, "ok ")
	switch {
	case mOK && st.ok:
		if eq, d := ValueEqualsWire(cs.snaps[i], cs.t, model[3:]); !eq {
			w.violate("corr-unm", cs, map[string]any{"via": via, "step": i + 1, "model": model, "impl": "ok " + st.wire, "mismatch": d,
				"broken": "correspondence arsh.unm (value)"})
			return false
		}
		return true
	case mOK && !st.ok:
		if st.frng {
			w.hit("skip-float-range")
			return false
		}
		w.violate("corr-unm", cs, map[string]any{"via": via, "step": i + 1, "model": model, "impl": "E" + st.cls + ": " + st.errS,
			"broken": "correspondence arsh.unm (model ok, implementation error)"})
		return false
	case !mOK && st.ok:
		w.violate("corr-unm", cs, map[string]any{"via": via, "step": i + 1, "model": model, "impl": "ok " + st.wire,
			"broken": "correspondence arsh.unm (model error, implementation ok)"})
		return false
	default:
		if !c14ClassAgrees(model, st.cls) {
			w.violate("corr-unm", cs, map[string]any{"via": via, "step": i + 1, "model": model, "impl": "E" + st.cls + ": " + st.errS,
				"broken": "correspondence arsh.unm (error class)"})
			return false
		}
		if via == "chain" {
			w.hit("errclass/" + model)
		}
		return true
	}
}

func (w *c14Worker) phaseB(cs *c14Case, ans []string) {
	k := len(cs.texts)
	if cs.liZero >= 0 {
		if eq, d := ValueEqualsWire(reflect.Zero(cs.t.GoType()), cs.t, ans[cs.liZero]); !eq || ans[cs.liZero+1] != "1" {
			w.c.Violate("corr-zero", "reflect.Zero", []byte(cs.t.Wire()), map[string]any{"type": cs.t.Wire(), "model_zero": ans[cs.liZero], "model_wf": ans[cs.liZero+1],
				"impl_zero": ValueWire(reflect.Zero(cs.t.GoType()), cs.t), "mismatch": d, "broken": "correspondence arsh.zero / arsh.wf"})
		}
	}
	if cs.liCh >= 0 {
		parts := strings.Split(ans[cs.liCh], " ; ")
		all := true
		for i := range cs.steps {
			if i >= len(parts) {
				w.violate("corr-unm", cs, map[string]any{"via": "chain", "model": ans[cs.liCh], "broken": "correspondence arsh.chain (model stopped earlier)"})
				all = false
				break
			}
			if !w.compareStep(cs, i, parts[i], "chain") {
				all = false
				break
			}
		}
		if all && len(parts) != len(cs.steps) {
			w.violate("corr-unm", cs, map[string]any{"via": "chain", "model": ans[cs.liCh], "broken": "correspondence arsh.chain (number of steps)"})
		}
		for x, i := range cs.unmAt {
			w.compareStep(cs, i, ans[cs.liUnm[x]], "unm")
			w.hit("single-step-unm")
		}
	}
	// corpus expectations (against the implementation)
	for i, want := range cs.want {
		if want == "" {
			continue
		}
		bad := ""
		switch {
		case i >= len(cs.steps):
			bad = "chain stopped before this step"
		case strings.HasPrefix(want, "ok "):
			if !cs.steps[i].ok {
				bad = "implementation reported an error"
			} else if eq, d := ValueEqualsWire(cs.snaps[i], cs.t, want[3:]); !eq {
				bad = d
			}
		default:
			if cs.steps[i].ok || !c14ClassAgrees(want, cs.steps[i].cls) {
				bad = "implementation did not report the expected error class"
			}
		}
		if bad != "" {
			w.violate("corpus", cs, map[string]any{"step": i + 1, "want": want, "mismatch": bad})
		}
	}
	// (2) merge law
	for _, m := range cs.merges {
		mtext := m.goNode.Render()
		if m.li >= 0 {
			if ans[m.li] != m.goNode.Wire() {
				w.violate("corr-merge", cs, map[string]any{"texts_merged": fmt.Sprintf("%d..%d", m.lo+1, m.hi+1), "model": ans[m.li], "go": m.goNode.Wire(),
					"broken": "correspondence arsh.merge vs MergeNodes"})
			}
			mtext = JSONOfTree(ans[m.li])
		}
		if !m.seqOK {
			w.hit("law-vacuous")
			continue
		}
		if cs.o&2 != 0 {
			// with AllowDuplicateNames texts that repeat names succeed; the merge law is stated (and proved)
			// for trees without repeated names only — duplicates are covered by the later-wins predicate
			clean := true
			for i := m.lo; i <= m.hi; i++ {
				clean = clean && cs.nodes[i].DupFree()
			}
			if !clean {
				w.hit("law-skipped-dup-texts")
				continue
			}
		}
		fresh := reflect.New(cs.t.GoType())
		err, pan := w.unmarshal(cs, mtext, fresh, cs.o, "merged text")
		if pan {
			continue
		}
		if m.hi-m.lo == 1 {
			w.hit("law-pair-checked")
		} else {
			w.hit("law-chain-checked")
		}
		if err != nil || !DeepEqualValues(fresh.Elem(), m.seqVal) {
			w.violate("merge-law", cs, map[string]any{"texts_merged": fmt.Sprintf("%d..%d", m.lo+1, m.hi+1), "merged_text": string(mtext),
				"sequential": m.seqWire, "merged_into_zero": ValueWire(fresh.Elem(), cs.t), "merged_err": fmt.Sprint(err)})
		}
	}
	// accounting
	okSteps := 0
	for _, s := range cs.steps {
		if s.ok {
			okSteps++
		}
	}
	objMerge, replace := false, false
	if okSteps >= 2 {
		acc := cs.nodes[0]
		for i := 1; i < okSteps; i++ {
			o, r := c14Interact(acc, cs.nodes[i])
			objMerge, replace = objMerge || o, replace || r
			acc = MergeNodes(acc, cs.nodes[i])
		}
	}
	nontrivial := okSteps >= 2 && (objMerge || replace)
	kind := "rand"
	if cs.clause != nil {
		kind = cs.clause.kind + "/ctx" + strconv.Itoa(cs.clause.ctx)
	}
	if cs.dup {
		kind = "dup"
	}
	if cs.wide {
		kind = "wide"
	}
	if cs.name != "" {
		kind = "corpus"
	}
	w.hit("case/" + kind)
	w.hit("root-kind/" + cs.t.Kind.String())
	w.hit("chain-len/" + strconv.Itoa(k))
	w.hit("ok-steps/" + strconv.Itoa(okSteps))
	w.hit("option-word/" + strconv.Itoa(cs.o))
	if objMerge {
		w.hit("texts-unite-objects")
	}
	if replace {
		w.hit("texts-replace-container")
	}
	if nontrivial {
		w.hit("nontrivial")
	}
	if cs.t.Kind == TKArray && cs.clause == nil {
		for _, n := range cs.nodes {
			if n.Kind == '[' && len(n.Elems) < cs.t.N {
				w.hit("array-short")
			} else if n.Kind == '[' && len(n.Elems) > cs.t.N {
				w.hit("array-long")
			}
		}
	}
	size := 0
	for _, t := range cs.texts {
		size += len(t)
	}
	switch {
	case size < 32:
		w.hit("text-bytes/<32")
	case size < 128:
		w.hit("text-bytes/32..127")
	case size < 512:
		w.hit("text-bytes/128..511")
	default:
		w.hit("text-bytes/>=512")
	}
	w.c.Case(string(cs.input())+"#"+strconv.Itoa(cs.o), nontrivial)
}

func (w *c14Worker) runBatch(cases []*c14Case) {
	var lines []string
	live := make([]bool, len(cases)) // false: aborted by a library panic (already reported); its lines are ignored
	for i, cs := range cases {
		live[i] = w.phaseA(cs, &lines)
	}
	var ans []string
	if w.or != nil && len(lines) > 0 {
		ans = w.or.Ask(lines)
		for i, a := range ans {
			if strings.HasPrefix(a, "ERR") {
				fail("C14: oracle rejected line %q: %s", trunc(lines[i], 400), a)
			}
		}
	}
	for i, cs := range cases {
		if live[i] {
			w.phaseB(cs, ans)
		}
	}
	w.flushHits()
}

func (w *c14Worker) run(n int, sample bool) {
	for done := 0; done < n; {
		b := c14Batch
		if n-done < b {
			b = n - done
		}
		cases := make([]*c14Case, 0, b)
		for i := 0; i < b; i++ {
			var cs *c14Case
			switch x := w.r.IntN(100); {
			case x < 52:
				cs = w.genRand()
			case x < 64:
				cs = w.genDup()
			case x < 76:
				cs = w.genWide()
			case x < 88:
				cs = w.genClause("slice")
			default:
				cs = w.genClause("array")
			}
			cases = append(cases, cs)
		}
		w.runBatch(cases)
		if sample && done == 0 {
			for i := 0; i < 6 && i < len(cases); i++ {
				w.c.Sample(cases[i].detail(nil))
			}
		}
		done += b
	}
}

// ---------------------------------------------------------------------------------------------
// deterministic corpus

func c14Corpus() []*c14Case {
	mk := func(name string, t *TypeDesc, o int, want []string, texts ...string) *c14Case {
		cs := &c14Case{name: name, t: t, o: o, want: want}
		for _, s := range texts {
			cs.texts = append(cs.texts, []byte(s))
		}
		return cs
	}
	ab32 := tdStruct(fld("a", tdInt(32)), fld("b", tdInt(32)))
	ab8 := tdStruct(fld("a", tdInt(8)), fld("b", tdInt(8)))
	every := tdStruct(fld("b", tdBool), fld("i", tdInt(16)), fld("u", tdUint(16)), fld("f", tdFloat), fld("s", tdString),
		fld("l", tdSlice(tdInt(8))), fld("r", tdArray(2, tdInt(8))), fld("m", tdMap(tdInt(8))), fld("p", tdPtr(tdInt(8))),
		fld("t", tdStruct(fld("x", tdInt(8)))), fld("a", tdAny))
	everyFull := `{"b":true,"i":-5,"u":7,"f":1.5,"s":"x","l":[1,2],"r":[3,4],"m":{"k":5},"p":6,"t":{"x":7},"a":{"q":[1]}}`
	everyFullWire := "ok T11 62 b1 69 i-5 75 u7 66 F312e35 73 s78 6c L2 i1 i2 72 R2 i3 i4 6d M1 6b i5 70 P i6 74 T1 78 i7 61 I M1 71 I L1 I F31"
	everyZero := "T11 62 b0 69 i0 75 u0 66 F30 73 s- 6c Ln 72 R2 i0 i0 6d Mn 70 Pn 74 T1 78 i0 61 In"
	return []*c14Case{
		mk("struct-merge", tdStruct(fld("a", tdInt(32)), fld("b", tdString), fld("c", tdSlice(tdInt(32)))), 0,
			[]string{"", "", "ok T3 61 i1 62 s79 63 L1 i3"},
			`{"a":1,"b":"x"}`, `{"b":"y","c":[1,2]}`, `{"c":[3]}`),
		mk("struct-unknown-and-case", tdStruct(fld("a", tdInt(32)), fld("b", tdString)), 0,
			[]string{"ok T2 61 i1 62 s-", "ok T2 61 i1 62 s-"},
			`{"a":1,"zz":{"q":[1,{"r":null}]}}`, `{"A":2,"B":"no","zz":3}`),
		mk("map-merge", tdMap(tdInt(32)), 0, []string{"", "ok M3 61 i1 62 i3 63 i4"}, `{"a":1,"b":2}`, `{"b":3,"c":4}`),
		mk("ptr-merge", tdPtr(ab8), 0, []string{"ok P T2 61 i1 62 i0", "ok P T2 61 i1 62 i2", "ok Pn", "ok P T2 61 i0 62 i3"},
			`{"a":1}`, `{"b":2}`, `null`, `{"b":3}`),
		mk("any-merge", tdAny, 0, []string{"", "", "ok I M1 61 I M2 62 In 63 I F32"},
			`{"a":{"b":1}}`, `{"a":{"c":2}}`, `{"a":{"b":null}}`),
		mk("any-scalar-then-other-kind", tdAny, 0, []string{"ok I F31", "ok I F32", "Ekind"}, `1`, `2`, `"x"`),
		mk("any-bool-then-array", tdAny, 0, []string{"ok I b1", "ok I b0", "Ekind"}, `true`, `false`, `[1]`),
		mk("any-string-then-object", tdAny, 0, []string{"ok I s78", "Ekind"}, `"x"`, `{}`),
		mk("any-slice-replaced", tdAny, 0, []string{"", "ok I L1 I M1 62 I F32"}, `[1,{"a":1}]`, `[{"b":2}]`),
		mk("any-slice-then-object", tdAny, 0, []string{"", "Ekind"}, `[1]`, `{"a":1}`),
		mk("any-in-map-merge", tdMap(tdAny), 0, []string{"", "ok M1 61 I M2 62 I F31 63 I s-"}, `{"a":{"b":1}}`, `{"a":{"c":""}}`),
		mk("slice-shrink-regrow-struct", tdSlice(ab32), 0,
			[]string{"ok L2 T2 61 i1 62 i2 T2 61 i3 62 i4", "ok L1 T2 61 i9 62 i0", "ok L2 T2 61 i0 62 i7 T2 61 i0 62 i8"},
			`[{"a":1,"b":2},{"a":3,"b":4}]`, `[{"a":9}]`, `[{"b":7},{"b":8}]`),
		mk("slice-empty-vs-null", tdSlice(tdInt(8)), 0, []string{"ok L2 i1 i2", "ok L0", "ok Ln", "ok L0"}, `[1,2]`, `[]`, `null`, `[]`),
		mk("array-long-default", tdArray(2, tdInt(8)), 0, []string{"Earraylen"}, `[1,2,3]`),
		mk("array-short-default", tdArray(2, tdInt(8)), 0, []string{"ok R2 i1 i2", "Earraylen"}, `[1,2]`, `[5]`),
		mk("array-long-short-anylen", tdArray(2, tdInt(8)), 1, []string{"ok R2 i1 i2", "ok R2 i5 i0", "ok R2 i0 i0"}, `[1,2,3]`, `[5]`, `[]`),
		mk("array-of-struct-anylen", tdArray(2, ab8), 1, []string{"", "ok R2 T2 61 i0 62 i9 T2 61 i0 62 i0"},
			`[{"a":1,"b":2},{"a":3,"b":4}]`, `[{"b":9}]`),
		mk("array-surplus-dup", tdArray(1, tdInt(8)), 1, []string{"Edup"}, `[1,{"a":1,"a":2}]`),
		mk("null-at-every-kind", every, 0, []string{everyFullWire, "", "", "ok " + everyZero}, everyFull,
			`{"b":null,"i":null,"u":null,"f":null,"s":null}`, `{"l":null,"r":null,"m":null}`, `{"p":null,"t":null,"a":null}`),
		mk("null-root-struct", every, 0, []string{everyFullWire, "ok " + everyZero, ""}, everyFull, `null`, `{"i":1}`),
		mk("dup-struct", tdStruct(fld("a", tdInt(8))), 0, []string{"Edup"}, `{"a":1,"a":2}`),
		mk("allowdup-struct-later-wins", tdStruct(fld("a", tdInt(8))), 2, []string{"ok T1 61 i2"}, `{"a":1,"a":2}`),
		mk("allowdup-map-merges", tdMap(tdMap(tdInt(8))), 2, []string{"ok M1 61 M2 78 i1 79 i2"}, `{"a":{"x":1},"a":{"y":2}}`),
		mk("allowdup-any-merges", tdAny, 2, []string{"ok I M1 61 I M2 78 I F31 79 I F32"}, `{"a":{"x":1},"a":{"y":2}}`),
		mk("allowdup-any-kind-clash", tdAny, 2, []string{"Ekind"}, `{"a":1,"a":"x"}`),
		mk("allowdup-any-slice-replaced", tdAny, 2, []string{"ok I M1 61 I L1 I F33"}, `{"a":[1,2],"a":[3]}`),
		mk("allowdup-null-then-value", tdAny, 2, []string{"ok I M1 62 In"}, `{"b":null,"b":1,"b":null}`),
		mk("allowdup-unknown-member-unchecked", tdStruct(fld("a", tdInt(8))), 2, []string{"ok T1 61 i0"}, `{"x":{"q":1,"q":2},"x":3}`),
		mk("allowdup-wrong-kind-is-kind", tdString, 2, []string{"Ekind"}, `{"q":1,"q":2}`),
		mk("allowdup-array-surplus-unchecked", tdArray(1, tdInt(8)), 3, []string{"ok R1 i1"}, `[1,{"q":1,"q":2}]`),
		mk("allowdup-ptr-struct", tdPtr(tdStruct(fld("a", tdInt(8)), fld("l", tdSlice(tdInt(8))))), 2, []string{"ok P T2 61 i1 6c L1 i3"}, `{"a":1,"l":[1,2],"l":[3]}`),
		mk("dup-map", tdMap(tdInt(8)), 0, []string{"Edup"}, `{"k":1,"k":2}`),
		mk("dup-any-nested", tdAny, 0, []string{"Edup"}, `{"x":{"y":1,"y":2}}`),
		mk("dup-in-unknown-member", tdStruct(fld("a", tdInt(8))), 0, []string{"Edup"}, `{"zz":{"y":1,"y":2}}`),
		// a wrong-kind container with a duplicate name inside: string/int/uint/float read the whole value first
		// (ReadValue: duplicate-name error), bool and the containers read one token (kind error)
		mk("dup-inside-wrong-kind-any-float", tdAny, 0, []string{"ok I F30", "Edup"}, `0`, `{"a":1,"a":2}`),
		mk("dup-inside-wrong-kind-string", tdString, 0, []string{"Edup"}, `[{"a":1,"a":2}]`),
		mk("dup-inside-wrong-kind-int", tdInt(8), 0, []string{"Edup"}, `{"a":1,"a":2}`),
		mk("dup-inside-wrong-kind-bool", tdBool, 0, []string{"Ekind"}, `{"a":1,"a":2}`),
		mk("dup-inside-wrong-kind-slice", tdSlice(tdInt(8)), 0, []string{"Ekind"}, `{"a":1,"a":2}`),
		mk("dup-inside-wrong-kind-map", tdMap(tdInt(8)), 0, []string{"Ekind"}, `[{"a":1,"a":2}]`),
		mk("dup-across-texts-is-merge", tdMap(tdInt(8)), 0, []string{"ok M1 6b i1", "ok M1 6b i2"}, `{"k":1}`, `{"k":2}`),
		mk("map-of-ptr-struct", tdMap(tdPtr(ab8)), 0, []string{"", "ok M1 6b P T2 61 i1 62 i2", "ok M1 6b Pn", ""},
			`{"k":{"a":1}}`, `{"k":{"b":2}}`, `{"k":null}`, `{"k":{"b":3},"j":{}}`),
		mk("map-of-slice", tdMap(tdSlice(tdInt(64))), 0, []string{"", "ok M1 6b L1 i4", "ok M2 6a L0 6b L1 i4"},
			`{"k":[1,2,3]}`, `{"k":[4]}`, `{"j":[]}`),
		mk("map-of-array", tdMap(tdArray(2, tdInt(8))), 1, []string{"", "ok M1 6b R2 i4 i0"}, `{"k":[1,2]}`, `{"k":[4]}`),
		mk("any-nested-3-deep", tdAny, 0, []string{"", "ok I M1 61 I M1 62 I M3 63 I F31 64 I L1 I F32 65 In"},
			`{"a":{"b":{"c":1,"d":[1]}}}`, `{"a":{"b":{"d":[2],"e":null}}}`),
		mk("int-boundaries", tdStruct(fld("a", tdInt(8)), fld("b", tdUint(8)), fld("c", tdInt(64)), fld("d", tdUint(64))), 0,
			[]string{"ok T4 61 i-128 62 u255 63 i-9223372036854775808 64 u18446744073709551615", "ok T4 61 i127 62 u255 63 i-9223372036854775808 64 u18446744073709551615", "Erange"},
			`{"a":-128,"b":255,"c":-9223372036854775808,"d":18446744073709551615}`, `{"a":127}`, `{"a":128}`),
		mk("int-range-64", tdInt(64), 0, []string{"ok i9223372036854775807", "Erange"}, `9223372036854775807`, `9223372036854775808`),
		mk("uint-range-64", tdUint(64), 0, []string{"Erange"}, `18446744073709551616`),
		mk("int-nonint-literal", tdInt(32), 0, []string{"ok i-0", "Enumsyntax"}, `-0`, `1.0`),
		mk("uint-minus-zero", tdUint(8), 0, []string{"Enumsyntax"}, `-0`),
		mk("int-huge-nonint", tdInt(8), 0, []string{"Enumsyntax"}, `18446744073709551616.5`),
		mk("kind-mismatch", tdStruct(fld("a", tdInt(8)), fld("b", tdString)), 0, []string{"ok T2 61 i1 62 s-", "Ekind"}, `{"a":1}`, `{"b":2,"a":5}`),
		mk("float-literals", tdSlice(tdFloat), 0, []string{"ok L5 F31 F2d30 F312e35 F31653330 F302e31"}, `[1,-0,1.5,1e30,0.1]`),
		mk("string-escapes", tdMap(tdString), 0, []string{"ok M2 - s- c3a9 sf09f9880"}, `{"":"","é":"😀"}`),
		mk("ptr-ptr", tdPtr(tdPtr(tdInt(8))), 0, []string{"ok P P i1", "ok Pn", "ok P P i2"}, `1`, `null`, `2`),
		mk("ptr-to-any", tdPtr(tdAny), 0, []string{"", "ok P I M2 61 I F31 62 I F32"}, `{"a":1}`, `{"b":2}`),
		mk("empty-struct-and-array", tdStruct(fld("x", tdArray(0, tdInt(8))), fld("y", tdStruct())), 0, nil, `{"x":[],"y":{}}`, `{"y":{"q":1}}`, `{"x":[1]}`),
	}
}

// ---------------------------------------------------------------------------------------------

func runC14(c *Ctx) {
	// deterministic corpus first
	w0 := newC14Worker(c, c.SubRng(1000))
	corpus := c14Corpus()
	w0.runBatch(corpus)
	c.Note("corpus: %d hand-written cases", len(corpus))

	n := c.N(20000, 2000000)
	var wg sync.WaitGroup
	var mu sync.Mutex
	var failure any
	// 16 logical workers (fixed case streams), of which at most 4 run at a time in the quick tier
	sem := make(chan struct{}, c.N(4, c14Workers))
	for i := 0; i < c14Workers; i++ {
		share := n / c14Workers
		if i < n%c14Workers {
			share++
		}
		wg.Add(1)
		go func(i, share int) {
			defer wg.Done()
			defer func() {
				if r := recover(); r != nil {
					mu.Lock()
					if failure == nil {
						failure = r
					}
					mu.Unlock()
				}
			}()
			sem <- struct{}{}
			defer func() { <-sem }()
			w := newC14Worker(c, c.SubRng(uint64(i)))
			w.run(share, i == 0)
		}(i, share)
	}
	wg.Wait()
	if failure != nil {
		panic(failure) // machineryFailure is turned into exit 2 by main
	}
	mode := "with the Lean oracle"
	if c.OraclePath == "" {
		mode = "Go-only predicates (no oracle)"
	}
	c.Note("C14: %d generated cases on %d workers, %s", n, c14Workers, mode)
}
