package main

// C09 — Package v1 behaves like the classic encoding/json.
//
// Three-way differential: /repo/v1 (jsonv1) vs the toolchain's encoding/json (stdjson, the classic
// implementation: GOEXPERIMENT=jsonv2 is not set) vs the Lean model of v1's own pure code (family `v1`).
//
//	part A (this file)        byte-level: Valid, Compact, Indent (blank and NON-blank prefix/indent), HTMLEscape
//	part B (c09_typed.go)     Marshal, MarshalIndent, Unmarshal over mirrored generated types and values
//	part C (c09_stream.go)    Decoder / Encoder call scripts
//
// Predicate (exactly the property): both succeed or both fail; on success identical bytes / deeply equal
// values; on syntactically invalid input v1.Unmarshal leaves the target untouched.  Error TEXT, error offsets and
// the target after a reported semantic error are never compared.
//
// Every library call goes through guard(); a watchdog reports any call that does not return; calls that are
// predicted to be able to hang or overflow the stack run in a child process (c09_sub.go).

import (
	"bytes"
	stdjson "encoding/json"
	"fmt"
	"math/rand/v2"
	"os"
	"strings"
	"sync"
	"sync/atomic"
	"time"

	jsonv1 "github.com/go-json-experiment/json/v1"
)

func init() { register("C09", runC09) }

// ---------------------------------------------------------------------------------------------
// watchdog: every in-process library call is bracketed by enter/leave; a call that does not return
// within the limit is reported as a violation (kind "hang") and the run stops (the goroutine cannot be killed).

type c09Slot struct {
	mu    sync.Mutex
	op    string
	input []byte
	since time.Time
	busy  bool
}

type c09Watch struct {
	c     *Ctx
	slots []*c09Slot
	stop  atomic.Bool
}

func newC09Watch(c *Ctx, n int) *c09Watch {
	w := &c09Watch{c: c}
	for i := 0; i < n; i++ {
		w.slots = append(w.slots, &c09Slot{})
	}
	go func() {
		for !w.stop.Load() {
			time.Sleep(500 * time.Millisecond)
			for _, s := range w.slots {
				s.mu.Lock()
				if s.busy && time.Since(s.since) > 120*time.Second {
					op, in := s.op, append([]byte(nil), s.input...)
					s.mu.Unlock()
					c.Violate("hang", op, in, map[string]any{"note": "call did not return within 120 s (in-process watchdog); run aborted"})
					os.Stdout.Sync()
					os.Exit(1)
				}
				s.mu.Unlock()
			}
		}
	}()
	return w
}

// call runs f under guard and the watchdog; a panic is reported as a violation of kind "panic".
func (w *c09Watch) call(slot int, op string, input []byte, f func()) (panicked bool) {
	s := w.slots[slot]
	s.mu.Lock()
	s.op, s.input, s.since, s.busy = op, input, time.Now(), true
	s.mu.Unlock()
	p := guard(f)
	s.mu.Lock()
	s.busy = false
	s.mu.Unlock()
	if p != nil {
		w.c.Panic(op, input, p, nil)
		return true
	}
	return false
}

// ---------------------------------------------------------------------------------------------
// byte-string generators

var c09Ws = []string{" ", "\n", "\t", "\r", "  ", "\n  ", " \n", "\r\n", "\n\n", "\n \t", "\n   ", " \n  \n "}

var c09Strings = []string{
	`""`, `"a"`, `"abc"`, `"<"`, `">"`, `"&"`, `"<script>&amp;</script>"`, `"a<b>c&d"`,
	"\" \"", "\" \"", "\"x y z\"", "\"\xe2\x80\"", "\"\xe2\x80\xa7\"", "\"\xe2\x80\xaa\"", "\"\xe2\x81\xa8\"", "\"\xe2\"",
	`" "`, `" "`, `"<"`, `"<"`, `"\n"`, `"\""`, `"\\"`, `"\/"`, `"\b\f\n\r\t"`, `"\u0000"`, `"\u001f"`,
	`"é"`, `"é"`, `"日本語"`, `"😀"`, `"😀"`, `"\ud800"`, `"\udc00"`, `"\ud800\ud800"`, `"\ud83dx"`, `"􏿿"`,
	"\"\x7f\"", "\"\x80\"", "\"\xff\"", "\"\xc0\xaf\"", "\"\xed\xa0\x80\"", "\"\xf4\x90\x80\x80\"", "\"\xc3\"", "\"a\xc3\"", "\"\xf0\x9f\x98\"",
	`"name"`, `"Name"`, `"NAME"`, `"a b"`, `"0"`, `"-1"`, `"1.5"`, `"true"`, `"null"`, `"null"`,
}

// c09BU is backslash-u, spelled with a hex escape so that no tool layer can turn an escape into a character.
const c09BU = "\x5cu"

var c09EscPool = []string{"\\n", "\\\"", "\\\\", "\\/", "\\t", c09BU + "0041", c09BU + "003c", c09BU + "2028", c09BU + "d83d" + c09BU + "de00", c09BU + "d800"}

func init() {
	for _, h := range []string{"2028", "2029", "003c", "003C", "003e", "0026", "00e9", "0041", "d83d" + c09BU + "de00", "D83D" + c09BU + "DE00", "dbff" + c09BU + "dfff", "fffd", "FFFF", "0022", "005c"} {
		c09Strings = append(c09Strings, "\""+c09BU+h+"\"")
	}
}

var c09BadStrings = []string{
	`"`, `"a`, `"\`, `"\x"`, `"\u12"`, `"\u12g4"`, `"\uD83D\u"`, "\"\n\"", "\"\x00\"", "\"\x1f\"", "\"\t\"", `'a'`, `"a""b"`, `"\U0001F600"`, `"\a"`, `"\'"`,
}

var c09Numbers = []string{
	"0", "-0", "1", "-1", "10", "123", "1.5", "-1.5", "0.0", "1e5", "1E5", "1e+5", "1e-5", "1.5e10", "0e0", "-0.0e-0",
	"9007199254740993", "18446744073709551615", "18446744073709551616", "-9223372036854775808", "-9223372036854775809",
	"1e308", "1e309", "-1e309", "1e-400", "4.9e-324", "0.1", "0.30000000000000004", "1e1000", "123456789012345678901234567890",
	"3.4028235e38", "3.4028236e38", "127", "128", "-128", "-129", "255", "256", "65535", "65536", "2147483647", "2147483648", "4294967295", "4294967296",
	"1.0", "1.00", "100e-2", "12e0",
}

var c09BadNumbers = []string{
	"01", "-", "+1", "1.", ".5", "1e", "1e+", "-01", "00", "1.e5", "0x10", "1_0", "NaN", "Infinity", "-Infinity", "1e5.5", "--1", "1-", "0.", "-.5", "1ee5", "١",
}

var c09Names = []string{`"a"`, `"b"`, `"A"`, `"name"`, `"Name"`, `"x"`, `""`, `"a<b"`, `"a"`, "\"\xff\"", `"k1"`, `"k2"`, `"0"`, `"1"`, `"-1"`, `"é"`}

type c09Gen struct{ r *rand.Rand }

func (g c09Gen) pick(xs []string) string { return xs[g.r.IntN(len(xs))] }

func (g c09Gen) ws(sb *strings.Builder, p int) {
	if g.r.IntN(100) < p {
		sb.WriteString(g.pick(c09Ws))
	}
}

func (g c09Gen) randString(sb *strings.Builder) {
	if g.r.IntN(3) > 0 {
		sb.WriteString(g.pick(c09Strings))
		return
	}
	sb.WriteByte('"')
	n := g.r.IntN(12)
	for i := 0; i < n; i++ {
		switch g.r.IntN(14) {
		case 0:
			sb.WriteString("<")
		case 1:
			sb.WriteString(">")
		case 2:
			sb.WriteString("&")
		case 3:
			sb.WriteString(" ")
		case 4:
			sb.WriteString(" ")
		case 5:
			sb.WriteByte(byte(0x80 + g.r.IntN(0x80)))
		case 6:
			sb.WriteString(c09EscPool[g.r.IntN(len(c09EscPool))])
		case 7:
			sb.WriteString([]string{"é", "日", "😀", "\xe2\x80", "\xe2"}[g.r.IntN(5)])
		default:
			sb.WriteByte(byte('a' + g.r.IntN(26)))
		}
	}
	sb.WriteByte('"')
}

// value writes a (mostly) valid JSON value; wsP is the percentage chance of whitespace at each gap.
func (g c09Gen) value(sb *strings.Builder, depth, wsP int) {
	k := g.r.IntN(10)
	if depth <= 0 && k >= 6 {
		k = g.r.IntN(6)
	}
	switch k {
	case 0:
		sb.WriteString("null")
	case 1:
		sb.WriteString([]string{"true", "false"}[g.r.IntN(2)])
	case 2, 3:
		sb.WriteString(g.pick(c09Numbers))
	case 4, 5:
		g.randString(sb)
	case 6, 7:
		sb.WriteByte('[')
		n := g.r.IntN(4)
		if g.r.IntN(10) == 0 {
			n = 0
		}
		g.ws(sb, wsP)
		for i := 0; i < n; i++ {
			if i > 0 {
				sb.WriteByte(',')
				g.ws(sb, wsP)
			}
			g.value(sb, depth-1, wsP)
			g.ws(sb, wsP)
		}
		sb.WriteByte(']')
	default:
		sb.WriteByte('{')
		n := g.r.IntN(4)
		if g.r.IntN(10) == 0 {
			n = 0
		}
		g.ws(sb, wsP)
		for i := 0; i < n; i++ {
			if i > 0 {
				sb.WriteByte(',')
				g.ws(sb, wsP)
			}
			if g.r.IntN(3) == 0 {
				g.randString(sb)
			} else {
				sb.WriteString(g.pick(c09Names)) // small pool ⇒ duplicate names are frequent
			}
			g.ws(sb, wsP)
			sb.WriteByte(':')
			g.ws(sb, wsP)
			g.value(sb, depth-1, wsP)
			g.ws(sb, wsP)
		}
		sb.WriteByte('}')
	}
}

var c09Alphabet = []byte("{}[],:\"\\/ub0129-+.eEntfalsr \n\t\r\x00\x1f\x7f\x80\xc2\xe2\xa8\xa9\xed\xef\xf0\xf4\xff<>&")

func (g c09Gen) mutate(b []byte) []byte {
	b = append([]byte(nil), b...)
	n := 1 + g.r.IntN(3)
	for i := 0; i < n; i++ {
		switch g.r.IntN(7) {
		case 0: // delete
			if len(b) > 0 {
				j := g.r.IntN(len(b))
				b = append(b[:j], b[j+1:]...)
			}
		case 1: // replace
			if len(b) > 0 {
				b[g.r.IntN(len(b))] = c09Alphabet[g.r.IntN(len(c09Alphabet))]
			}
		case 2: // insert
			j := g.r.IntN(len(b) + 1)
			b = append(b[:j], append([]byte{c09Alphabet[g.r.IntN(len(c09Alphabet))]}, b[j:]...)...)
		case 3: // truncate
			if len(b) > 0 {
				b = b[:g.r.IntN(len(b))]
			}
		case 4: // swap
			if len(b) > 1 {
				j, k := g.r.IntN(len(b)), g.r.IntN(len(b))
				b[j], b[k] = b[k], b[j]
			}
		case 5: // duplicate a slice
			if len(b) > 1 {
				j := g.r.IntN(len(b))
				k := j + g.r.IntN(len(b)-j)
				b = append(b[:k], append(append([]byte(nil), b[j:k]...), b[k:]...)...)
			}
		case 6: // insert a bad token
			j := g.r.IntN(len(b) + 1)
			var t string
			if g.r.IntN(2) == 0 {
				t = g.pick(c09BadStrings)
			} else {
				t = g.pick(c09BadNumbers)
			}
			b = append(b[:j], append([]byte(t), b[j:]...)...)
		}
	}
	return b
}

// text returns one byte string and its class label.
func (g c09Gen) text() ([]byte, string) {
	var sb strings.Builder
	switch k := g.r.IntN(20); {
	case k < 8: // valid, structured
		g.ws(&sb, 30)
		g.value(&sb, 1+g.r.IntN(5), []int{0, 10, 50}[g.r.IntN(3)])
		g.ws(&sb, 50)
		return []byte(sb.String()), "valid-structured"
	case k < 10: // valid scalar with leading/trailing ws
		g.ws(&sb, 50)
		g.value(&sb, 0, 0)
		g.ws(&sb, 70)
		return []byte(sb.String()), "valid-scalar"
	case k < 15: // mutated
		g.ws(&sb, 20)
		g.value(&sb, 1+g.r.IntN(4), []int{0, 10, 50}[g.r.IntN(3)])
		g.ws(&sb, 40)
		return g.mutate([]byte(sb.String())), "mutated"
	case k < 16: // two values / trailing garbage
		g.value(&sb, 2, 10)
		sb.WriteString(g.pick([]string{" ", "", "\n", ","}))
		g.value(&sb, 1, 0)
		return []byte(sb.String()), "two-values"
	case k < 17: // bad token alone or inside an array
		t := g.pick(c09BadStrings)
		if g.r.IntN(2) == 0 {
			t = g.pick(c09BadNumbers)
		}
		if g.r.IntN(2) == 0 {
			t = "[" + t + "]"
		}
		return []byte(t), "bad-token"
	case k < 18: // random over the critical alphabet
		n := g.r.IntN(10)
		b := make([]byte, n)
		for i := range b {
			b[i] = c09Alphabet[g.r.IntN(len(c09Alphabet))]
		}
		return b, "alphabet-random"
	case k < 19: // whitespace only / empty
		n := g.r.IntN(4)
		for i := 0; i < n; i++ {
			sb.WriteString(g.pick(c09Ws))
		}
		return []byte(sb.String()), "ws-only"
	default: // truncated valid
		g.value(&sb, 3, 10)
		s := sb.String()
		return []byte(s[:g.r.IntN(len(s)+1)]), "truncated"
	}
}

// deep returns nesting texts around the depth limit.
func c09Deep(n int, kind int) []byte {
	var b bytes.Buffer
	switch kind {
	case 0:
		b.WriteString(strings.Repeat("[", n))
		b.WriteString(strings.Repeat("]", n))
	case 1:
		b.WriteString(strings.Repeat(`{"a":`, n))
		b.WriteString("0")
		b.WriteString(strings.Repeat("}", n))
	case 2:
		for i := 0; i < n; i++ {
			if i%2 == 0 {
				b.WriteString("[")
			} else {
				b.WriteString(`{"k":`)
			}
		}
		b.WriteString("null")
		for i := n - 1; i >= 0; i-- {
			if i%2 == 0 {
				b.WriteString("]")
			} else {
				b.WriteString("}")
			}
		}
	case 3: // unclosed
		b.WriteString(strings.Repeat("[", n))
	}
	return b.Bytes()
}

var c09Affixes = []string{"", " ", "\t", "  ", ">", "--", "ab", "\n"}

func c09Blank(s string) bool { return strings.Trim(s, " \t") == "" }

// ---------------------------------------------------------------------------------------------
// byte-level predicates

// c09TrailingWs returns the trailing JSON whitespace of src.
func c09TrailingWs(src []byte) []byte {
	return src[len(bytes.TrimRight(src, " \n\r\t")):]
}

// c09IndentMayHang predicts the inputs on which v1.Indent does not terminate (DESIGN.md §6 D4): the deferred
// placeholder replacement of /repo/v1/indent.go walks every "\n" of the output, including the trailing whitespace
// of src that was appended verbatim; with indent == "" the loop `for len(spaces) > 0 { spaces = spaces[copy(spaces,
// invalidIndent):] }` cannot advance once the prefix has been copied, i.e. when a newline of the trailing whitespace
// is followed by more spaces than len(prefix).  When src is INVALID, jsontext.AppendFormat returns append(dst, src...)
// (jsontext/value.go:50) and the deferred replacement walks that verbatim copy before it is discarded, so the same
// loop is reached from a "\n" + spaces ANYWHERE in src.  The predicate therefore looks at the whole of src (a
// superset for valid texts).  Such calls run in a child process with a timeout.  All other calls
// run in-process under the watchdog, so a wrong prediction shows up as a "hang" violation, never as a silent stall.
func c09IndentMayHang(src []byte, prefix, indent string) bool {
	if c09Blank(prefix) && c09Blank(indent) || indent != "" {
		return false
	}
	tw := src
	for i := 0; i < len(tw); i++ {
		if tw[i] == '\n' {
			n := 0
			for i+1+n < len(tw) && tw[i+1+n] == ' ' {
				n++
			}
			if n > len(prefix) {
				return true
			}
		}
	}
	return false
}

// c09HangBudget bounds the number of child processes that are allowed to run into the timeout (each costs 2 s);
// only timeouts consume it, so on a repaired tree every predicted case is executed.
var c09HangBudget atomic.Int64

type c09ByteCase struct {
	src    []byte
	class  string
	prefix string
	indent string
	pre    []byte // pre-filled dst content
}

type c09Stats struct{ validOK, validBad int }

// checkBytes runs Valid, Compact, Indent, HTMLEscape on one text, v1 vs classic.
func c09CheckBytes(c *Ctx, w *c09Watch, slot int, bc c09ByteCase) (valid bool) {
	src := bc.src
	// Valid
	var v1ok, stdok bool
	if w.call(slot, "v1.Valid", src, func() { v1ok = jsonv1.Valid(src) }) {
		return
	}
	stdok = stdjson.Valid(src)
	if v1ok != stdok {
		c.Violate("valid-mismatch", "v1.Valid", src, map[string]any{"v1": v1ok, "classic": stdok, "src": trunc(string(src), 200)})
	}
	c.Case("valid:"+string(src), len(src) > 0)
	if stdok {
		c.Hit("bytes/valid/accepted")
	} else {
		c.Hit("bytes/valid/rejected")
	}

	// Compact (append semantics: dst pre-filled)
	var d1, d2 bytes.Buffer
	d1.Write(bc.pre)
	d2.Write(bc.pre)
	var e1, e2 error
	if w.call(slot, "v1.Compact", src, func() { e1 = jsonv1.Compact(&d1, src) }) {
		return
	}
	e2 = stdjson.Compact(&d2, src)
	switch {
	case (e1 == nil) != (e2 == nil):
		c.Violate("compact-success-mismatch", "v1.Compact", src, map[string]any{"v1_err": fmt.Sprint(e1), "classic_err": fmt.Sprint(e2), "src": trunc(string(src), 200)})
	case !bytes.Equal(d1.Bytes(), d2.Bytes()):
		// on error the classic package truncates dst to its original length; v1 must too (identical bytes)
		c.Violate("compact-bytes-mismatch", "v1.Compact", src, map[string]any{"v1": trunc(d1.String(), 300), "classic": trunc(d2.String(), 300), "err": fmt.Sprint(e2), "pre": string(bc.pre)})
	}
	if (e2 == nil) != stdok {
		c.Note("classic Compact/Valid disagree on %q", trunc(string(src), 80))
	}
	c.Case("compact:"+string(src), len(src) > 0)

	// Indent
	c09CheckIndent(c, w, slot, bc)

	// HTMLEscape
	d1.Reset()
	d2.Reset()
	d1.Write(bc.pre)
	d2.Write(bc.pre)
	if w.call(slot, "v1.HTMLEscape", src, func() { jsonv1.HTMLEscape(&d1, src) }) {
		return
	}
	stdjson.HTMLEscape(&d2, src)
	if !bytes.Equal(d1.Bytes(), d2.Bytes()) {
		c.Violate("htmlescape-bytes-mismatch", "v1.HTMLEscape", src, map[string]any{"v1": trunc(d1.String(), 300), "classic": trunc(d2.String(), 300)})
	}
	c.Case("htmlescape:"+string(src), bytes.ContainsAny(src, "<>&\xe2"))
	return stdok
}

func c09CheckIndent(c *Ctx, w *c09Watch, slot int, bc c09ByteCase) {
	src, prefix, indent := bc.src, bc.prefix, bc.indent
	var d1, d2 bytes.Buffer
	d1.Write(bc.pre)
	d2.Write(bc.pre)
	var e1, e2 error
	e2 = stdjson.Indent(&d2, src, prefix, indent)
	op := "v1.Indent"
	detail := map[string]any{"prefix": prefix, "indent": indent, "src": trunc(string(src), 200)}
	blank := c09Blank(prefix) && c09Blank(indent)
	if blank {
		c.Hit("bytes/indent/blank-affixes")
	} else {
		c.Hit("bytes/indent/nonblank-affixes")
	}
	if c09IndentMayHang(src, prefix, indent) {
		if c09HangBudget.Load() <= 0 {
			c.Hit("bytes/indent/predicted-hang-skipped")
			return
		}
		c.Hit("bytes/indent/subprocess")
		out, errS, status := c09SubIndent(src, prefix, indent, bc.pre)
		switch status {
		case "timeout":
			// D4, non-terminating arm
			c09HangBudget.Add(-1)
			detail["classic"] = trunc(d2.String(), 300)
			detail["classic_err"] = fmt.Sprint(e2)
			detail["note"] = "v1.Indent did not return within the child timeout; the classic package returns"
			c.Violate("indent-hang", op, src, detail)
			return
		case "crash":
			detail["child"] = errS
			c.Violate("indent-crash", op, src, detail)
			return
		}
		d1.Reset()
		d1.Write(out)
		if errS != "" {
			e1 = fmt.Errorf("%s", errS)
		}
	} else {
		if w.call(slot, op, src, func() { e1 = jsonv1.Indent(&d1, src, prefix, indent) }) {
			return
		}
	}
	c.Case("indent:"+prefix+"|"+indent+"|"+string(src), len(src) > 0)
	if (e1 == nil) != (e2 == nil) {
		detail["v1_err"], detail["classic_err"] = fmt.Sprint(e1), fmt.Sprint(e2)
		c.Violate("indent-success-mismatch", op, src, detail)
		return
	}
	if e2 != nil {
		// Both failed.  The classic package leaves dst as it was before the call ("dst.Truncate(origLen)").
		if !bytes.Equal(d1.Bytes(), d2.Bytes()) {
			detail["v1"], detail["classic"] = trunc(d1.String(), 300), trunc(d2.String(), 300)
			c.Violate("indent-bytes-on-error-mismatch", op, src, detail)
		}
		return
	}
	if bytes.Equal(d1.Bytes(), d2.Bytes()) {
		return
	}
	detail["v1"], detail["classic"] = trunc(d1.String(), 400), trunc(d2.String(), 400)
	// Classify: is the ONLY difference inside the re-appended trailing whitespace of src (D4)?
	tw := c09TrailingWs(src)
	a, b := d1.Bytes(), d2.Bytes()
	if !blank && len(tw) > 0 && len(a) == len(b) && len(a) >= len(tw) &&
		bytes.Equal(a[:len(a)-len(tw)], b[:len(b)-len(tw)]) && bytes.Equal(b[len(b)-len(tw):], tw) {
		detail["note"] = "output equal up to the trailing whitespace of src, which the classic package copies verbatim and v1 rewrites with prefix/indent"
		c.Violate("indent-trailing-ws-rewritten", op, src, detail)
		return
	}
	c.Violate("indent-bytes-mismatch", op, src, detail)
}

// ---------------------------------------------------------------------------------------------

// c09NW is the number of worker goroutines (4 in the quick tier, 16 in the thorough tier).
func c09NW(c *Ctx) int { return c.N(4, 16) }

func runC09(c *Ctx) {
	only := os.Getenv("C09_PARTS") // development aid: e.g. C09_PARTS=B runs one part; unset ⇒ everything
	t0 := time.Now()
	if only == "" || strings.Contains(only, "A") {
		c09Bytes(c)
		c.Note("part A (bytes) %.1fs", time.Since(t0).Seconds())
	}
	for _, part := range c09Parts {
		if only != "" && !strings.Contains(only, part.name[:1]) {
			continue
		}
		t1 := time.Now()
		part.f(c)
		c.Note("part %s %.1fs", part.name, time.Since(t1).Seconds())
	}
}

type c09Part struct {
	name string
	f    func(*Ctx)
}

// further parts register themselves here (c09_typed.go, c09_stream.go, c09_model.go)
var c09Parts []c09Part

func c09Bytes(c *Ctx) {
	c09Workers := c09NW(c)
	w := newC09Watch(c, c09Workers+1)
	defer w.stop.Store(true)
	c09HangBudget.Store(int64(c.N(3, 40)))

	// 1. fixed boundary cases first: D4 minimal repros and their neighbours, depth limit, affix grid.
	fixed := []c09ByteCase{}
	for _, src := range []string{"[1]\n  ", "[1]\n ", "[1]\n", "[1] ", "1\n ", "1\n  ", "{}\n ", "[]\n   \n ", "[1]\n\t ", "[1]\r\n ", "[1] \n", "[\n 1\n]", "[\n  1\n]\n", "{\"a\":[1,2]}\n    ", "[1]\n  x", "\n [1]", " \n [1]\n "} {
		for _, p := range c09Affixes {
			for _, in := range c09Affixes {
				fixed = append(fixed, c09ByteCase{src: []byte(src), class: "fixed-trailing-ws", prefix: p, indent: in})
			}
		}
	}
	for _, n := range []int{1, 2, 999, 1000, 1001, 9999, 10000, 10001, 10002} {
		for kind := 0; kind < 4; kind++ {
			in := []string{"", " ", "\t"}[kind%3]
			if n > 1001 {
				in = "" // the indented output is quadratic in the depth (100 MB at 10^4): keep the limit sweep linear
			}
			fixed = append(fixed, c09ByteCase{src: c09Deep(n, kind), class: "deep", prefix: "", indent: in})
		}
	}
	for _, s := range append(append(append([]string{}, c09Strings...), c09BadStrings...), append(c09Numbers, c09BadNumbers...)...) {
		fixed = append(fixed, c09ByteCase{src: []byte(s), class: "token", prefix: ">", indent: "--"})
		fixed = append(fixed, c09ByteCase{src: []byte("[" + s + ", " + s + "]\n"), class: "token", prefix: "", indent: "\t", pre: []byte("PRE")})
		fixed = append(fixed, c09ByteCase{src: []byte("{" + s + ":" + s + "}"), class: "token", prefix: " ", indent: "ab"})
	}
	for _, bc := range fixed {
		c.Hit("bytes/class/" + bc.class)
		c09CheckBytes(c, w, c09Workers, bc)
	}

	// 2. bounded-exhaustive enumeration over the critical alphabet
	maxLen := c.N(3, 4)
	alpha := []byte("{}[],:\"\\u01-.eEntf \n\x1f\x80\xe2<")
	if c.Thorough() {
		alpha = c09Alphabet
	}
	var enum [][]byte
	var rec func(cur []byte)
	rec = func(cur []byte) {
		enum = append(enum, append([]byte(nil), cur...))
		if len(cur) == maxLen {
			return
		}
		for _, b := range alpha {
			rec(append(cur, b))
		}
	}
	rec(nil)
	c.HitN("bytes/class/enumerated", int64(len(enum)))

	// 3. random
	nRandom := c.N(40000, 1500000)
	var wg sync.WaitGroup
	for wk := 0; wk < c09Workers; wk++ {
		wg.Add(1)
		go func(wk int) {
			defer wg.Done()
			r := c.SubRng(uint64(100 + wk))
			g := c09Gen{r}
			for i := wk; i < len(enum); i += c09Workers {
				bc := c09ByteCase{src: enum[i], class: "enumerated", prefix: c09Affixes[r.IntN(len(c09Affixes))], indent: c09Affixes[r.IntN(len(c09Affixes))]}
				c09CheckBytes(c, w, wk, bc)
			}
			for i := wk; i < nRandom; i += c09Workers {
				src, class := g.text()
				bc := c09ByteCase{src: src, class: class}
				// two thirds blank affixes (the common case), one third anything from the grid
				if r.IntN(3) == 0 {
					bc.prefix, bc.indent = c09Affixes[r.IntN(len(c09Affixes))], c09Affixes[r.IntN(len(c09Affixes))]
				} else {
					bl := []string{"", " ", "\t", "  "}
					bc.prefix, bc.indent = bl[r.IntN(4)], bl[r.IntN(4)]
				}
				if r.IntN(4) == 0 {
					bc.pre = []byte("[0,")
				}
				c.Hit("bytes/class/" + class)
				sz := len(src)
				switch {
				case sz == 0:
					c.Hit("bytes/size/0")
				case sz < 16:
					c.Hit("bytes/size/1-15")
				case sz < 64:
					c.Hit("bytes/size/16-63")
				case sz < 256:
					c.Hit("bytes/size/64-255")
				default:
					c.Hit("bytes/size/256+")
				}
				if c09CheckBytes(c, w, wk, bc) && i < 3 {
					c.Sample(map[string]any{"part": "bytes", "src": trunc(string(src), 120), "prefix": bc.prefix, "indent": bc.indent})
				}
			}
		}(wk)
	}
	wg.Wait()
}
