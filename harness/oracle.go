package main

import (
	"bufio"
	"io"
	"os/exec"
	"strings"
)

// Oracle is a co-process running the compiled Lean models behind the line protocol.
type Oracle struct {
	cmd *exec.Cmd
	in  *bufio.Writer
	inC io.WriteCloser
	out *bufio.Reader
}

// NewOracle starts one oracle process (callers that fan out use one per worker).
func (c *Ctx) NewOracle() *Oracle {
	if c.OraclePath == "" {
		return nil
	}
	cmd := exec.Command(c.OraclePath)
	in, err := cmd.StdinPipe()
	if err != nil {
		fail("oracle: %v", err)
	}
	out, err := cmd.StdoutPipe()
	if err != nil {
		fail("oracle: %v", err)
	}
	if err := cmd.Start(); err != nil {
		fail("oracle: %v", err)
	}
	o := &Oracle{cmd: cmd, in: bufio.NewWriterSize(in, 1<<20), inC: in, out: bufio.NewReaderSize(out, 1<<20)}
	c.mu.Lock()
	c.oracles = append(c.oracles, o)
	c.mu.Unlock()
	return o
}

func (c *Ctx) closeOracles() {
	for _, o := range c.oracles {
		o.inC.Close()
		o.cmd.Wait()
	}
	c.oracles = nil
}

// Ask sends a batch of lines and returns one answer per line.
func (o *Oracle) Ask(lines []string) []string {
	errc := make(chan error, 1)
	go func() {
		for _, l := range lines {
			if strings.ContainsAny(l, "\n\r") {
				errc <- io.ErrUnexpectedEOF
				return
			}
			o.in.WriteString(l)
			o.in.WriteByte('\n')
		}
		o.in.WriteString("flush\n")
		errc <- o.in.Flush()
	}()
	res := make([]string, len(lines))
	for i := range lines {
		s, err := o.out.ReadString('\n')
		if err != nil {
			fail("oracle died after %d/%d answers (line %q): %v", i, len(lines), lines[i], err)
		}
		res[i] = strings.TrimRight(s, "\n")
	}
	if err := <-errc; err != nil {
		fail("oracle write: %v", err)
	}
	return res
}

func (o *Oracle) Ask1(line string) string { return o.Ask([]string{line})[0] }
