package main

// C09 part M — Tie B for the Lean models of v1's own pure code (lean/JsonV/Model/V1.lean), THREE-WAY:
//
//	v1 htmlescape  model  =  v1.HTMLEscape   =  encoding/json.HTMLEscape        (all byte strings)
//	v1 valid       model  =  v1.Valid        =  encoding/json.Valid             (all byte strings)
//	v1 unescape    unescape(HTMLEscape(src)) = unescape(src)   (the proved statement, evaluated on the implementation)
//	v1 trailingws / blank  =  the two predicates of appendIndent, against their Go spelling
//
// and the property predicates whose proofs are about the model, evaluated on the real output:
// no '<' '>' '&' and no E2 80 A8/A9 in v1.HTMLEscape's output; idempotence; the length formula.
//
// A disagreement model ↔ v1 is a broken tie (kind "corr-…"); a disagreement v1 ↔ classic is a property violation
// and is reported by part A on the same inputs.

import (
	"bytes"
	stdjson "encoding/json"
	"strings"

	jsonv1 "github.com/go-json-experiment/json/v1"
)

func init() { c09Parts = append(c09Parts, c09Part{"M (model correspondence)", c09Model}) }

func c09Model(c *Ctx) {
	or := c.NewOracle()
	if or == nil {
		c.Note("no oracle: model correspondence skipped")
		return
	}
	w := newC09Watch(c, 1)
	defer w.stop.Store(true)
	r := c.SubRng(400)
	g := c09Gen{r}
	var inputs [][]byte
	// boundary inputs
	for _, s := range append(append(append([]string{}, c09Strings...), c09BadStrings...), append(c09Numbers, c09BadNumbers...)...) {
		inputs = append(inputs, []byte(s), []byte("["+s+"]"), []byte(`{"k":`+s+`}`), []byte(" "+s+"\n"))
	}
	for _, s := range []string{"\xe2", "\xe2\x80", "\xe2\x80\xa8", "\xe2\x80\xa9", "\xe2\x80\xa7", "\xe2\x80\xaa", "\xe2\xe2\x80\xa8", "\xe2\x80\xe2\x80\xa9", "<\xe2\x80\xa8>", "\xe2\x80<\xa8", "\xe2<\x80\xa8",
		"&&", "<>", c09BU + "003c", c09BU + "2028", "\x5c<", "\x5c\xe2\x80\xa8", c09BU + "003" + "<", "\xa8", "\x80\xa8", ""} {
		inputs = append(inputs, []byte(s))
	}
	for _, n := range []int{1, 2, 999, 1000, 1001, 9999, 10000, 10001, 10002} {
		for kind := 0; kind < 4; kind++ {
			inputs = append(inputs, c09Deep(n, kind))
		}
	}
	// exhaustive over a small alphabet (all byte strings of length ≤ 4 over the bytes that matter to htmlEscape)
	alpha := []byte{'<', '>', '&', 0xE2, 0x80, 0xA8, 0xA9, 'a', '\\'}
	var rec func(cur []byte)
	rec = func(cur []byte) {
		inputs = append(inputs, append([]byte(nil), cur...))
		if len(cur) == c.N(4, 5) {
			return
		}
		for _, b := range alpha {
			rec(append(cur, b))
		}
	}
	rec(nil)
	for i := 0; i < c.N(20000, 400000); i++ {
		src, _ := g.text()
		inputs = append(inputs, src)
	}
	c.HitN("model/inputs", int64(len(inputs)))

	const batch = 4000
	for lo := 0; lo < len(inputs); lo += batch {
		hi := min(lo+batch, len(inputs))
		var lines []string
		type impl struct {
			esc          []byte
			valid, stdOK bool
		}
		impls := make([]impl, hi-lo)
		for i := lo; i < hi; i++ {
			src := inputs[i]
			var d bytes.Buffer
			var ok bool
			if w.call(0, "v1.HTMLEscape", src, func() { jsonv1.HTMLEscape(&d, src); ok = jsonv1.Valid(src) }) {
				continue
			}
			impls[i-lo] = impl{append([]byte(nil), d.Bytes()...), ok, stdjson.Valid(src)}
			lines = append(lines, "v1 htmlescape "+hx(src), "v1 valid "+hx(src), "v1 unescape "+hx(d.Bytes()), "v1 unescape "+hx(src),
				"v1 htmlescape "+hx(d.Bytes()), "v1 trailingws "+hx(src), "v1 blank "+hx(src))
		}
		ans := or.Ask(lines)
		k := 0
		for i := lo; i < hi; i++ {
			src, im := inputs[i], impls[i-lo]
			if k+7 > len(ans) {
				break // a panicking call was reported and skipped above
			}
			mEsc, mValid, mUnOut, mUnSrc, mEsc2, mTw, mBlank := ans[k], ans[k+1], ans[k+2], ans[k+3], ans[k+4], ans[k+5], ans[k+6]
			k += 7
			c.Case("model:"+string(src), len(src) > 0)
			if mEsc != hx(im.esc) {
				c.Violate("corr-htmlescape", "v1 htmlescape", src, map[string]any{"model": mEsc, "v1": hx(im.esc)})
			}
			if (mValid == "1") != im.valid {
				c.Violate("corr-valid", "v1 valid", src, map[string]any{"model": mValid, "v1": im.valid, "classic": im.stdOK, "src": trunc(string(src), 200)})
			}
			if im.valid {
				c.Hit("model/valid/accepted")
			} else {
				c.Hit("model/valid/rejected")
			}
			// predicates of the proved theorems, on the implementation's output
			out := im.esc
			if bytes.ContainsAny(out, "<>&") || bytes.Contains(out, []byte("\xe2\x80\xa8")) || bytes.Contains(out, []byte("\xe2\x80\xa9")) {
				c.Violate("htmlescape-output-unsafe", "v1.HTMLEscape", src, map[string]any{"out": hx(out)})
			}
			if mUnOut != mUnSrc { // unescape(HTMLEscape(src)) = unescape(src): the meaning is preserved
				c.Violate("htmlescape-changes-meaning", "v1.HTMLEscape", src, map[string]any{"unescape_out": mUnOut, "unescape_src": mUnSrc})
			}
			if mEsc2 != hx(out) { // idempotence (model applied to the implementation's output)
				c.Violate("htmlescape-not-idempotent", "v1.HTMLEscape", src, map[string]any{"twice": mEsc2, "once": hx(out)})
			}
			n1 := bytes.Count(src, []byte("<")) + bytes.Count(src, []byte(">")) + bytes.Count(src, []byte("&"))
			n2 := bytes.Count(src, []byte("\xe2\x80\xa8")) + bytes.Count(src, []byte("\xe2\x80\xa9"))
			if len(out) != len(src)+5*n1+3*n2 {
				c.Violate("htmlescape-length", "v1.HTMLEscape", src, map[string]any{"len_out": len(out), "len_src": len(src), "n1": n1, "n2": n2})
			}
			if n1+n2 > 0 {
				c.Hit("model/htmlescape/escaping")
			} else {
				c.Hit("model/htmlescape/identity")
				if !bytes.Equal(out, src) {
					c.Violate("htmlescape-not-identity-on-safe", "v1.HTMLEscape", src, map[string]any{"out": hx(out)})
				}
			}
			if mTw != hx(c09TrailingWs(src)) {
				c.Violate("corr-trailingws", "v1 trailingws", src, map[string]any{"model": mTw, "go": hx(c09TrailingWs(src))})
			}
			if (mBlank == "1") != (strings.Trim(string(src), " \t") == "") {
				c.Violate("corr-blank", "v1 blank", src, map[string]any{"model": mBlank})
			}
		}
	}
	c09ModelFormat(c, or, w, inputs)
}

// c09Res is the canonical spelling of a Compact/Indent result: "ok <hex of the bytes appended to dst>" or "err".
func c09Res(out []byte, err error) string {
	if err != nil {
		return "err"
	}
	return "ok " + hx(out)
}

// c09V1Indent runs v1.Indent (in a child when the call is predicted to be able to hang, see c09IndentMayHang).
func c09V1Indent(w *c09Watch, src []byte, prefix, indent string) (res string, ok bool) {
	if c09IndentMayHang(src, prefix, indent) {
		out, errS, status := c09SubIndent(src, prefix, indent, nil)
		if status != "ok" {
			return status, true // "timeout" / "crash": differs from every model answer
		}
		if errS != "" {
			return "err", true
		}
		return "ok " + hx(out), true
	}
	var d bytes.Buffer
	var err error
	if w.call(0, "v1.Indent", src, func() { err = jsonv1.Indent(&d, src, prefix, indent) }) {
		return "", false
	}
	if err != nil {
		return "err", true // on error dst must be left as it was: checked byte for byte in part A
	}
	return "ok " + hx(d.Bytes()), true
}

// c09ModelFormat: THREE-WAY correspondence for the models of v1.Compact and v1.Indent (Model/V1.lean `compact`,
// `indent`: slice C12's Fmt.format + the trailing-whitespace rule + the placeholder replacement for non-blank
// prefix/indent) and for the second validity recogniser (`validPda`): model = v1 = encoding/json.
func c09ModelFormat(c *Ctx, or *Oracle, w *c09Watch, inputs [][]byte) {
	r := c.SubRng(401)
	type job struct {
		src            []byte
		prefix, indent string
		op             string // "compact" | "indent" | "validpda"
	}
	var jobs []job
	// the D4 grid: sources with trailing whitespace x the full 8x8 prefix/indent grid
	for _, src := range []string{"[1]\n  ", "[1]\n ", "[1]\n", "[1] ", "1\n ", "1\n  ", "{}\n ", "[]\n   \n ", "[1]\n\t ", "[1]\r\n ", "[1] \n", "[\n 1\n]", "[\n  1\n]\n",
		"{\"a\":[1,2]}\n    ", "[1]\n  x", "\n [1]", " \n [1]\n ", "{\"a\":{\"b\":[{},[],[[1]],\"x\\ny\"]},\"c\":null}\n\n ", "[\"\\n \",\" \"]\n "} {
		for _, p := range c09Affixes {
			for _, in := range c09Affixes {
				jobs = append(jobs, job{[]byte(src), p, in, "indent"})
			}
		}
	}
	for i, src := range inputs {
		if !c.Thorough() && i%2 == 1 && len(src) <= 4000 {
			continue // quick tier: every other generated input (the boundary tables, the grid and the nesting sweeps are all kept)
		}
		jobs = append(jobs, job{src, "", "", "validpda"})
		if len(src) > 4000 {
			// nesting sweeps: Compact only (the indented form is quadratic in the depth)
			jobs = append(jobs, job{src, "", "", "compact"})
			continue
		}
		if r.IntN(2) == 0 {
			jobs = append(jobs, job{src, "", "", "compact"})
		}
		if r.IntN(2) == 0 {
			bl := []string{"", " ", "\t", "  "}
			jobs = append(jobs, job{src, bl[r.IntN(4)], bl[r.IntN(4)], "indent"})
		} else if r.IntN(2) == 0 {
			jobs = append(jobs, job{src, c09Affixes[r.IntN(len(c09Affixes))], c09Affixes[r.IntN(len(c09Affixes))], "indent"})
		}
	}
	c.HitN("model/format-jobs", int64(len(jobs)))
	const batch = 4000
	for lo := 0; lo < len(jobs); lo += batch {
		hi := min(lo+batch, len(jobs))
		lines := make([]string, 0, hi-lo)
		for _, j := range jobs[lo:hi] {
			switch j.op {
			case "compact":
				lines = append(lines, "v1 compact "+hx(j.src))
			case "validpda":
				lines = append(lines, "v1 validpda "+hx(j.src))
			default:
				lines = append(lines, "v1 indent "+hx([]byte(j.prefix))+" "+hx([]byte(j.indent))+" "+hx(j.src))
			}
		}
		ans := or.Ask(lines)
		for k, j := range jobs[lo:hi] {
			m := ans[k]
			d := map[string]any{"src": trunc(string(j.src), 200), "prefix": j.prefix, "indent": j.indent, "model": trunc(m, 300)}
			switch j.op {
			case "validpda":
				var v bool
				if w.call(0, "v1.Valid", j.src, func() { v = jsonv1.Valid(j.src) }) {
					continue
				}
				c.Case("model-validpda:"+string(j.src), len(j.src) > 0)
				if (m == "1") != v {
					d["v1"], d["classic"] = v, stdjson.Valid(j.src)
					c.Violate("corr-validpda", "v1 validpda", j.src, d)
				}
			case "compact":
				var d1, d2 bytes.Buffer
				var e1 error
				if w.call(0, "v1.Compact", j.src, func() { e1 = jsonv1.Compact(&d1, j.src) }) {
					continue
				}
				e2 := stdjson.Compact(&d2, j.src)
				v, cl := c09Res(d1.Bytes(), e1), c09Res(d2.Bytes(), e2)
				c.Case("model-compact:"+string(j.src), len(j.src) > 0)
				c.Hit("model/compact/" + cl[:2])
				d["v1"], d["classic"] = trunc(v, 300), trunc(cl, 300)
				if m != v {
					c.Violate("corr-compact", "v1 compact", j.src, d)
				}
				if v != cl {
					c.Violate("compact-model-set-mismatch", "v1.Compact", j.src, d)
				}
			default:
				v, ok := c09V1Indent(w, j.src, j.prefix, j.indent)
				if !ok {
					continue
				}
				var d2 bytes.Buffer
				e2 := stdjson.Indent(&d2, j.src, j.prefix, j.indent)
				cl := c09Res(d2.Bytes(), e2)
				c.Case("model-indent:"+j.prefix+"|"+j.indent+"|"+string(j.src), len(j.src) > 0)
				if c09Blank(j.prefix) && c09Blank(j.indent) {
					c.Hit("model/indent/blank/" + cl[:2])
				} else {
					c.Hit("model/indent/nonblank/" + cl[:2])
				}
				d["v1"], d["classic"] = trunc(v, 300), trunc(cl, 300)
				if m != v {
					c.Violate("corr-indent", "v1 indent", j.src, d)
				}
				if v != cl {
					c.Violate("indent-model-grid-mismatch", "v1.Indent", j.src, d)
				}
			}
		}
	}
}
