package main

// Compiled corpus of source-level types for C09: what reflect.StructOf cannot build (methods on value and
// pointer receivers, promoted methods, unexported embedding).  Every type here uses only features that both
// /repo/v1 and the classic encoding/json support, and none of them names a type of either package, so the SAME
// Go type is handed to both implementations.  (json.Number / json.RawMessage exist once per package; those are
// mirrored by the reflect-built generator in c09_typed.go.)
//
// The method bodies are deterministic functions of the receiver and of the bytes they are given, and the
// unmarshal methods RECORD their input verbatim, so the differential also compares what each package passes
// to user methods.

import (
	"errors"
	"strconv"
	"strings"
)

var errC9 = errors.New("c9: method error")

// ---- MarshalJSON / UnmarshalJSON

// C9MV: MarshalJSON on the value receiver, UnmarshalJSON on the pointer receiver.  S is returned verbatim.
type C9MV struct{ S string }

func (m C9MV) MarshalJSON() ([]byte, error) {
	if strings.Contains(m.S, "ERR") {
		return nil, errC9
	}
	return []byte(m.S), nil
}

func (m *C9MV) UnmarshalJSON(b []byte) error {
	if strings.Contains(string(b), "ERR") {
		return errC9
	}
	m.S = "got:" + string(b)
	return nil
}

// C9MP: both methods on the pointer receiver; a nil receiver is handled.
type C9MP struct{ S string }

func (m *C9MP) MarshalJSON() ([]byte, error) {
	if m == nil {
		return []byte(`"nil-C9MP"`), nil
	}
	if strings.Contains(m.S, "ERR") {
		return nil, errC9
	}
	return []byte(m.S), nil
}

func (m *C9MP) UnmarshalJSON(b []byte) error {
	if strings.Contains(string(b), "ERR") {
		return errC9
	}
	m.S = "got:" + string(b)
	return nil
}

// C9MInt: a non-struct kind with MarshalJSON (value) / UnmarshalJSON (pointer).
type C9MInt int

func (m C9MInt) MarshalJSON() ([]byte, error) {
	return []byte(`{"C9MInt":` + strconv.Itoa(int(m)) + `}`), nil
}

func (m *C9MInt) UnmarshalJSON(b []byte) error {
	*m = C9MInt(len(b))
	return nil
}

// C9MSlice, C9MMap: reference kinds with a value-receiver MarshalJSON (called on nil values too).
type C9MSlice []int

func (m C9MSlice) MarshalJSON() ([]byte, error) {
	if m == nil {
		return []byte(`"nil-slice"`), nil
	}
	return []byte(`"slice-` + strconv.Itoa(len(m)) + `"`), nil
}

type C9MMap map[string]int

func (m C9MMap) MarshalJSON() ([]byte, error) {
	if m == nil {
		return []byte(`"nil-map"`), nil
	}
	return []byte(`"map-` + strconv.Itoa(len(m)) + `"`), nil
}

// ---- MarshalText / UnmarshalText

// C9TV: MarshalText on the value receiver, UnmarshalText on the pointer receiver.  Comparable (usable as map key).
type C9TV struct{ S string }

func (t C9TV) MarshalText() ([]byte, error) {
	if strings.Contains(t.S, "ERR") {
		return nil, errC9
	}
	return []byte(t.S), nil
}

func (t *C9TV) UnmarshalText(b []byte) error {
	if t == nil || strings.Contains(string(b), "ERR") { // nil: promoted through a nil embedded pointer (C9EmbTVPtr)
		return errC9
	}
	t.S = "text:" + string(b)
	return nil
}

// C9TP: both methods on the pointer receiver; nil receiver handled.
type C9TP struct{ S string }

func (t *C9TP) MarshalText() ([]byte, error) {
	if t == nil {
		return []byte("nil-C9TP"), nil
	}
	if strings.Contains(t.S, "ERR") {
		return nil, errC9
	}
	return []byte(t.S), nil
}

func (t *C9TP) UnmarshalText(b []byte) error {
	if strings.Contains(string(b), "ERR") {
		return errC9
	}
	t.S = "text:" + string(b)
	return nil
}

// C9TStr: string kind with text methods (as a map key the classic package uses the string itself).
type C9TStr string

func (t C9TStr) MarshalText() ([]byte, error) { return []byte("T:" + string(t)), nil }
func (t *C9TStr) UnmarshalText(b []byte) error {
	*t = C9TStr("U:" + string(b))
	return nil
}

// C9TInt: integer kind with text methods on the value / pointer receiver (map key: text wins over the integer).
type C9TInt int

func (t C9TInt) MarshalText() ([]byte, error) { return []byte("#" + strconv.Itoa(int(t))), nil }
func (t *C9TInt) UnmarshalText(b []byte) error {
	s := strings.TrimPrefix(string(b), "#")
	n, err := strconv.Atoi(s)
	if err != nil {
		return errC9
	}
	*t = C9TInt(n)
	return nil
}

// C9TPInt: integer kind, MarshalText on the POINTER receiver only (map keys are not addressable).
type C9TPInt int

func (t *C9TPInt) MarshalText() ([]byte, error) {
	if t == nil {
		return []byte("nil-C9TPInt"), nil
	}
	return []byte("p#" + strconv.Itoa(int(*t))), nil
}

// C9MT: both JSON and text methods (JSON wins).
type C9MT struct{ S string }

func (m C9MT) MarshalJSON() ([]byte, error) { return []byte(`"json:` + safeC9(m.S) + `"`), nil }
func (m C9MT) MarshalText() ([]byte, error) { return []byte("text:" + m.S), nil }
func (m *C9MT) UnmarshalJSON(b []byte) error {
	m.S = "J" + string(b)
	return nil
}
func (m *C9MT) UnmarshalText(b []byte) error {
	m.S = "T" + string(b)
	return nil
}

func safeC9(s string) string {
	var sb strings.Builder
	for i := 0; i < len(s); i++ {
		if c := s[i]; c >= 'a' && c <= 'z' || c >= '0' && c <= '9' || c == ' ' {
			sb.WriteByte(c)
		}
	}
	return sb.String()
}

// ---- IsZero (omitzero)

// C9Z: IsZero on the value receiver; reports true for A == 7 (not the zero value) and false for the zero value.
type C9Z struct{ A int }

func (z C9Z) IsZero() bool { return z.A == 7 }

// C9ZP: IsZero on the pointer receiver.
type C9ZP struct{ A int }

func (z *C9ZP) IsZero() bool { return z == nil || z.A == 7 }

// ---- plain structs used for embedding and as named element types

type C9E1 struct {
	A int
	B string
}

type C9E2 struct {
	A int `json:"a2"`
	C *int
	E string `json:"B"`
}

type C9NamedStr string
type C9NamedInt int
type C9NamedBytes []byte
type C9Byte byte

type c9hidden struct {
	H int
	h int
}

// promoted methods and unexported embedding (not expressible with reflect.StructOf)
type C9EmbMV struct {
	C9MV
	X int
}

type C9EmbTVPtr struct {
	*C9TV
	X int
}

type C9EmbPtr struct {
	*C9E1
	Y int
}

type C9EmbHidden struct {
	c9hidden
	Z int
}

type C9EmbHiddenPtr struct {
	*c9hidden
	Z int
}

type C9EmbBoth struct {
	C9E1
	C9E2
	B string `json:"b"`
}

type C9EmbInt struct {
	C9NamedInt
	C9NamedStr `json:"s"`
}

// recursive (acyclic values only)
type C9Tree struct {
	V    int      `json:"v,omitempty"`
	Kids []C9Tree `json:"kids,omitempty"`
	Next *C9Tree  `json:"next,omitempty"`
}

// non-empty interfaces
type C9Iface interface{ C9() }

type C9I1 struct{ A int }
type C9I2 struct{ B string }

func (*C9I1) C9() {}
func (C9I2) C9()  {}

type C9MarshalerI interface{ MarshalJSON() ([]byte, error) }
type C9TextI interface{ MarshalText() ([]byte, error) }

// C9Fold: field names whose case-insensitive spellings leave ASCII (Unicode simple-fold orbits k/K/U+212A,
// s/S/U+017F, σ/Σ/ς, ǆ/ǅ/Ǆ), change UTF-8 length when folded, or contain the delimiters that v1 folding keeps.
type C9Fold struct {
	Kind   int
	Sks    string `json:"sks"`
	Σς     int
	Dz     int `json:"ǆ"`
	Straße int `json:"straße"`
	KK     int `json:"k_k"`
	Dash   int `json:"a-b,omitempty"`
	Ii     int `json:"ıİ"`
	C9FoldInner
	P *C9FoldInner `json:"skip"`
}

type C9FoldInner struct {
	Task   int `json:"task"`
	Kelvin string
}

// Method sets × addressability: a plain struct whose FIELDS have marshal/unmarshal methods on the pointer receiver
// (C9MP, C9TP) and on the value receiver (C9MV, C9TV), embedded by value and by pointer, one and two levels deep.
// Whether a pointer-receiver method is called depends on whether the field is addressable: a field reached through
// an embedded POINTER always is (the dereference is addressable), a field of a struct passed by value is not.
type C9PR struct {
	MP C9MP
	TP C9TP
	MV C9MV
	TV C9TV
	N  int
}

type C9EmbPR struct { // promoted through an embedded pointer
	*C9PR
	X int
}

type C9EmbPRv struct { // promoted through an embedded value
	C9PR
	X int
}

type C9EmbPR2 struct { // two levels: pointer, then value
	*C9EmbPRv
	Y int
}

type C9EmbPR3 struct { // two levels: value, then pointer
	C9EmbPR
	Z int
}

type C9EmbPR4 struct { // two levels: pointer, then pointer; plus a direct field of the same kind
	*C9EmbPR
	Q C9MP
}
