package main

// C09 part C — Decoder and Encoder call scripts: /repo/v1 vs classic encoding/json, same results call by call.
//
// Decoder: a stream of several texts (valid, invalid, truncated, separated by whitespace or nothing) is read by the
// same random sequence of Decode / Token / More / InputOffset / Buffered / UseNumber / DisallowUnknownFields calls
// on both decoders.  Compared after each call: success or failure (and whether the failure is io.EOF, a sentinel
// callers test for — never the message), decoded values (structural dump), tokens, More, InputOffset, and
// Buffered()+rest-of-reader (the documented contract of Buffered; the amount buffered is an implementation detail).
// Calls made after the first failed call are reported under a separate kind (…-after-error).
//
// Encoder: Encode / SetIndent / SetEscapeHTML sequences into a buffer (optionally failing after n writes).

import (
	"bytes"
	stdjson "encoding/json"
	"errors"
	"fmt"
	"io"
	"math/rand/v2"
	"reflect"
	"strings"
	"sync"

	jsonv1 "github.com/go-json-experiment/json/v1"
)

func init() { c09Parts = append(c09Parts, c09Part{"C (streams)", c09Streams}) }

type c9DecTarget struct {
	name string
	t    c9T
}

type c9SA struct {
	A int    `json:"a"`
	B string `json:"b,omitempty"`
	C *c9SA  `json:"c,omitempty"`
}

var c9DecTargets = []c9DecTarget{
	{"any", c9Any}, {"any", c9Any}, {"map", c9tf[map[string]any]()}, {"slice", c9tf[[]any]()}, {"string", c9tf[string]()}, {"float64", c9tf[float64]()},
	{"int", c9tf[int]()}, {"struct", c9tf[c9SA]()}, {"number", c9Num}, {"raw", c9Raw}, {"ptr-any", c9tf[*any]()}, {"bool", c9tf[bool]()}, {"mapint", c9tf[map[string]int]()},
}

// chunkReader delivers its data in chunks of the given sizes (then all the rest), like a network stream.
type c9ChunkReader struct {
	data []byte
	n    int
}

func (r *c9ChunkReader) Read(p []byte) (int, error) {
	if len(r.data) == 0 {
		return 0, io.EOF
	}
	n := r.n
	if n <= 0 || n > len(r.data) {
		n = len(r.data)
	}
	if n > len(p) {
		n = len(p)
	}
	copy(p, r.data[:n])
	r.data = r.data[n:]
	return n, nil
}

func c9ErrClass(err error) string {
	switch {
	case err == nil:
		return "ok"
	case err == io.EOF:
		return "EOF"
	}
	return "error"
}

func c9TokDump(t any) string {
	switch t := t.(type) {
	case nil:
		return "null"
	case jsonv1.Delim:
		return "delim" + string(rune(t))
	case stdjson.Delim:
		return "delim" + string(rune(t))
	case jsonv1.Number:
		return "N" + string(t)
	case stdjson.Number:
		return "N" + string(t)
	}
	return c9D(reflect.ValueOf(t))
}

func (g c9Gen) stream() []byte {
	bg := c09Gen{g.r}
	var sb strings.Builder
	n := 1 + g.r.IntN(4)
	for i := 0; i < n; i++ {
		switch g.r.IntN(10) {
		case 0:
			src, _ := bg.text()
			sb.Write(src)
		case 1:
			sb.WriteString(`{"a":1,"b":"x","zz":[1,2]}`)
		case 2:
			sb.WriteString(`{"a":2,"c":{"a":3}}`)
		default:
			bg.value(&sb, g.r.IntN(4), []int{0, 10, 40}[g.r.IntN(3)])
		}
		sb.WriteString([]string{"", " ", "\n", "\n", " \n ", "\t", ",", ":"}[g.r.IntN(7)])
	}
	b := []byte(sb.String())
	if g.r.IntN(6) == 0 && len(b) > 0 {
		b = b[:g.r.IntN(len(b))]
	}
	return b
}

func c09Streams(c *Ctx) {
	nw := c09NW(c)
	w := newC09Watch(c, nw)
	defer w.stop.Store(true)
	nScripts := c.N(60000, 1500000)
	nEnc := c.N(8000, 300000)
	var wg sync.WaitGroup
	for wk := 0; wk < nw; wk++ {
		wg.Add(1)
		go func(wk int) {
			defer wg.Done()
			r := c.SubRng(uint64(300 + wk))
			g := c9Gen{r}
			for i := wk; i < nScripts; i += nw {
				c9DecoderScript(c, w, wk, g, i < 4)
			}
			for i := wk; i < nEnc; i += nw {
				c9EncoderScript(c, w, wk, g)
			}
		}(wk)
	}
	wg.Wait()
}

func c9DecoderScript(c *Ctx, w *c09Watch, slot int, g c9Gen, sample bool) {
	r := g.r
	stream := g.stream()
	chunk := []int{0, 0, 1, 2, 3, 7, 64}[r.IntN(7)]
	ra, rb := &c9ChunkReader{append([]byte(nil), stream...), chunk}, &c9ChunkReader{append([]byte(nil), stream...), chunk}
	var d1 *jsonv1.Decoder
	d2 := stdjson.NewDecoder(rb)
	if w.call(slot, "v1.NewDecoder", stream, func() { d1 = jsonv1.NewDecoder(ra) }) {
		return
	}
	var script []string
	afterErr := false
	nOps := 1 + r.IntN(12)
	mode := r.IntN(4) // 0: mostly Decode, 1: mostly Token/More, 2,3: mixed
	report := func(kind string, d map[string]any) {
		if afterErr {
			// one family (finding S6): what a decoder does AFTER a call has failed (other than a Decode that consumed a
			// complete value and reported a type mismatch) differs in many ways; the sub-kind stays in the detail
			d["subkind"] = kind
			kind = "decoder-after-error-mismatch"
		}
		d["stream"], d["script"], d["chunk"] = c9Short(string(stream)), strings.Join(script, " "), chunk
		c9Dbg(kind, d)
		c.Violate(kind, "v1.Decoder", []byte(string(stream)+"|"+strings.Join(script, " ")), d)
	}
	for k := 0; k < nOps; k++ {
		op := r.IntN(10)
		switch mode {
		case 0:
			if op < 6 {
				op = 0
			}
		case 1:
			if op < 5 {
				op = 1 + op%2
			}
		}
		switch op {
		case 0, 9: // Decode
			tg := c9DecTargets[r.IntN(len(c9DecTargets))]
			script = append(script, "Decode("+tg.name+")")
			ta, tb := reflect.New(tg.t.a), reflect.New(tg.t.b)
			if r.IntN(3) == 0 {
				va, vb := g.val(tg.t, 2)
				ta.Elem().Set(va)
				tb.Elem().Set(vb)
			}
			var e1, e2 error
			if p := guard(func() { e2 = d2.Decode(tb.Interface()) }); p != nil {
				c.Hit("stream/classic-panic")
				return
			}
			if w.call(slot, "v1.Decoder.Decode", stream, func() { e1 = d1.Decode(ta.Interface()) }) {
				return
			}
			c.Hit("stream/decode/" + c9ErrClass(e2))
			if (e1 == nil) != (e2 == nil) {
				kind := "decoder-decode-result-mismatch"
				if e2 != nil && !afterErr && c9AtObjectKey(e2) {
					// finding S1: Decode while the decoder is positioned at an object member NAME (after Token returned '{'
					// or a member value): the classic package refuses, v1 decodes the name as if it were a value.
					// (labelled through the classic error's text; the comparison itself never looks at texts)
					kind = "decoder-decode-at-object-key-accepted"
				}
				report(kind, map[string]any{"v1_err": fmt.Sprint(e1), "classic_err": fmt.Sprint(e2)})
				return
			}
			if e2 != nil && (e1 == io.EOF) != (e2 == io.EOF) {
				// both fail; only the identity io.EOF vs another error differs — error identity/text is outside the
				// guarantee, but callers do test for io.EOF, so it is counted and noted (not a violation)
				c.Hit("stream/both-fail-but-io.EOF-identity-differs/Decode")
				c9EOFNote(c, stream, script, e1, e2)
			}
			if e2 == nil {
				if a, b := c9D(ta.Elem()), c9D(tb.Elem()); a != b {
					report("decoder-decode-value-mismatch", map[string]any{"v1": c9Short(a), "classic": c9Short(b)})
					return
				}
			} else if _, semantic := e2.(*stdjson.UnmarshalTypeError); !semantic {
				afterErr = true
			}
		case 1, 2: // Token
			script = append(script, "Token")
			var t1, t2 any
			var e1, e2 error
			if p := guard(func() { t2, e2 = d2.Token() }); p != nil {
				c.Hit("stream/classic-panic")
				return
			}
			if w.call(slot, "v1.Decoder.Token", stream, func() { t1, e1 = d1.Token() }) {
				return
			}
			c.Hit("stream/token/" + c9ErrClass(e2))
			if (e1 == nil) != (e2 == nil) {
				report("decoder-token-result-mismatch", map[string]any{"v1_err": fmt.Sprint(e1), "classic_err": fmt.Sprint(e2), "v1": c9TokDump(t1), "classic": c9TokDump(t2)})
				return
			}
			if e2 != nil && (e1 == io.EOF) != (e2 == io.EOF) {
				c.Hit("stream/both-fail-but-io.EOF-identity-differs/Token")
				c9EOFNote(c, stream, script, e1, e2)
			}
			if e2 == nil {
				if a, b := c9TokDump(t1), c9TokDump(t2); a != b {
					report("decoder-token-value-mismatch", map[string]any{"v1": a, "classic": b})
					return
				}
			} else if e2 != io.EOF || e1 != io.EOF {
				afterErr = true
			}
		case 3, 4: // More
			script = append(script, "More")
			var m1, m2 bool
			if p := guard(func() { m2 = d2.More() }); p != nil {
				c.Hit("stream/classic-panic")
				return
			}
			if w.call(slot, "v1.Decoder.More", stream, func() { m1 = d1.More() }) {
				return
			}
			c.Hit(fmt.Sprintf("stream/more/%v", m2))
			if m1 != m2 {
				kind := "decoder-more-mismatch"
				if m1 && !m2 && !afterErr && !stdjson.Valid(stream) {
					// finding S2 candidates: More() on a stream that ends inside an array/object
					kind = "decoder-more-true-at-truncated-end"
				}
				if !m1 && m2 && !afterErr && !stdjson.Valid(stream) {
					// finding S7: More() at an object VALUE position of a malformed stream whose next significant bytes are
					// ':' and then a closing delimiter ({"a":] or {"a":}): the classic decoder peeks the ':' (true), v1's
					// PeekKind skips it and reports the closer (false).  The next Token fails in both.
					kind = "decoder-more-false-before-misplaced-closer"
				}
				report(kind, map[string]any{"v1": m1, "classic": m2})
				return
			}
		case 5, 6: // InputOffset
			script = append(script, "InputOffset")
			var o1, o2 int64
			o2 = d2.InputOffset()
			if w.call(slot, "v1.Decoder.InputOffset", stream, func() { o1 = d1.InputOffset() }) {
				return
			}
			if o1 != o2 {
				report("decoder-inputoffset-mismatch", map[string]any{"v1": o1, "classic": o2})
				return
			}
		case 7: // Buffered: Buffered()+rest of the reader is the unread remainder of the stream
			script = append(script, "Buffered")
			var b1, b2 []byte
			b2, _ = io.ReadAll(d2.Buffered())
			if w.call(slot, "v1.Decoder.Buffered", stream, func() { b1, _ = io.ReadAll(d1.Buffered()) }) {
				return
			}
			rest1, rest2 := append(b1, ra.data...), append(b2, rb.data...)
			if !bytes.Equal(rest1, rest2) {
				kind := "decoder-buffered-mismatch"
				if bytes.Equal(bytes.TrimLeft(rest1, " \t\r\n,:"), bytes.TrimLeft(rest2, " \t\r\n,:")) {
					// finding S3: equal up to leading whitespace / one separator that the classic decoder has already
					// consumed (its More and Token skip whitespace and ':' ',' eagerly) and v1 has not
					kind = "decoder-buffered-leading-ws-or-separator"
				}
				report(kind, map[string]any{"v1_rest": c9Short(string(rest1)), "classic_rest": c9Short(string(rest2))})
				return
			}
		case 8:
			if r.IntN(2) == 0 {
				script = append(script, "UseNumber")
				d2.UseNumber()
				if w.call(slot, "v1.Decoder.UseNumber", stream, func() { d1.UseNumber() }) {
					return
				}
			} else {
				script = append(script, "DisallowUnknownFields")
				d2.DisallowUnknownFields()
				if w.call(slot, "v1.Decoder.DisallowUnknownFields", stream, func() { d1.DisallowUnknownFields() }) {
					return
				}
			}
		}
		c.Case("dec:"+string(stream)+"|"+strings.Join(script, " "), true)
	}
	if sample {
		c.Sample(map[string]any{"part": "decoder", "stream": trunc(string(stream), 100), "script": strings.Join(script, " ")})
	}
}

// failWriter fails from the n-th Write on.
type c9FailWriter struct {
	buf  bytes.Buffer
	left int
}

var errC9Write = errors.New("c9: write failed")

func (f *c9FailWriter) Write(p []byte) (int, error) {
	if f.left == 0 {
		return 0, errC9Write
	}
	if f.left > 0 {
		f.left--
	}
	return f.buf.Write(p)
}

func c9EncoderScript(c *Ctx, w *c09Watch, slot int, g c9Gen) {
	r := g.r
	left := -1
	if r.IntN(6) == 0 {
		left = r.IntN(3)
	}
	w1, w2 := &c9FailWriter{left: left}, &c9FailWriter{left: left}
	e1, e2 := jsonv1.NewEncoder(w1), stdjson.NewEncoder(w2)
	var script []string
	nOps := 1 + r.IntN(8)
	for k := 0; k < nOps; k++ {
		switch op := r.IntN(8); {
		case op < 5:
			var t c9T
			if r.IntN(3) == 0 {
				t = c9Corpus[r.IntN(len(c9Corpus))]
			} else {
				t = g.typ(1 + r.IntN(2))
			}
			va, vb := g.val(t, 2)
			desc := c9TypeName(t.a)
			script = append(script, "Encode("+trunc(desc, 60)+")")
			var err1, err2 error
			if p := guard(func() { err2 = e2.Encode(vb.Interface()) }); p != nil {
				c.Hit("stream/classic-panic")
				return
			}
			if w.call(slot, "v1.Encoder.Encode", []byte(desc), func() { err1 = e1.Encode(va.Interface()) }) {
				return
			}
			c.Hit("stream/encode/" + c9ErrClass(err2))
			c.Case("enc:"+strings.Join(script, " ")+"|"+c9D(va), true)
			out1, out2 := w1.buf.Bytes(), w2.buf.Bytes()
			if (err1 == nil) != (err2 == nil) || !bytes.Equal(out1, out2) {
				// Attribution to the listed spelling findings, each alone and then COMBINED (one value can hold both an
				// invalid-UTF-8 Go string, F1, and a RawMessage with a raw U+2028, F11).  The outputs must become exactly
				// equal after respelling; a case that needs both is filed under both kinds.
				kinds := []string{"encoder-mismatch"}
				if err1 == nil && err2 == nil {
					switch f, u, ok := c9AlignSpellings(out1, out2); {
					case ok && f && !u:
						kinds = []string{"encoder-mismatch[invalid-utf8-fffd-spelling]"}
					case ok && u && !f:
						kinds = []string{"encoder-mismatch[raw-u2028-with-escapehtml-off]"}
					case ok && f && u:
						kinds = []string{"encoder-mismatch[invalid-utf8-fffd-spelling]", "encoder-mismatch[raw-u2028-with-escapehtml-off]"}
					}
				}
				d := map[string]any{"script": strings.Join(script, " "), "value": c9Short(c9D(va)), "type": c9Short(desc), "v1_err": fmt.Sprint(err1), "classic_err": fmt.Sprint(err2),
					"v1_out": c9Short(string(out1)), "classic_out": c9Short(string(out2)), "writer_fails_after": left}
				for _, kind := range kinds {
					c9Dbg(kind, d)
					c.Violate(kind, "v1.Encoder", []byte(strings.Join(script, " ")+"|"+c9D(va)), d)
				}
				return
			}
		case op < 7:
			p, in := c09Affixes[r.IntN(len(c09Affixes))], c09Affixes[r.IntN(len(c09Affixes))]
			script = append(script, fmt.Sprintf("SetIndent(%q,%q)", p, in))
			e1.SetIndent(p, in)
			e2.SetIndent(p, in)
		default:
			on := r.IntN(2) == 0
			script = append(script, fmt.Sprintf("SetEscapeHTML(%v)", on))
			e1.SetEscapeHTML(on)
			e2.SetEscapeHTML(on)
		}
	}
}

// c9AtObjectKey labels the classic decoder's refusal to Decode at an object-name position.
func c9AtObjectKey(err error) bool {
	se, ok := err.(*stdjson.SyntaxError)
	return ok && strings.Contains(se.Error(), "not at beginning of value")
}

var c9EOFNotes sync.Map

func c9EOFNote(c *Ctx, stream []byte, script []string, e1, e2 error) {
	if _, loaded := c9EOFNotes.LoadOrStore(len(script)%4, true); !loaded {
		c.Note("both fail, io.EOF identity differs: stream %q script %q: v1 %v, classic %v", trunc(string(stream), 60), strings.Join(script, " "), e1, e2)
	}
}

var _ = rand.Int
