package main

// C20 — operations that may kill the process (fatal stack overflow) or never return.
// They run in a child:  verifh -sub c20cycle <shape> <api>   /   verifh -sub c20indent  (cases on stdin)
// The parent (c20RunSub) enforces a timeout; the child lowers the maximum stack so that an
// unbounded recursion dies after 32 MiB instead of after 1 GiB.

import (
	"bufio"
	stdjson "encoding/json"
	"bytes"
	"errors"
	"fmt"
	"io"
	"os"
	"os/exec"
	"reflect"
	"runtime/debug"
	"strings"
	"time"

	json "github.com/go-json-experiment/json"
	"github.com/go-json-experiment/json/internal"
	"github.com/go-json-experiment/json/jsontext"
	jsonv1 "github.com/go-json-experiment/json/v1"
)

// Maximum stack in the child.  A legitimate marshal of 10000 nested levels needs < 20 MiB of stack, and a
// cycle must be reported after about startDetectingCyclesAfter (1000) levels, i.e. well below 8 MiB; an
// unbounded recursion is cut off at these sizes instead of at the 1 GiB default (the fatal error is the
// same, it only arrives sooner).
const (
	c20StackCyclic = 8 << 20
	c20StackChain  = 64 << 20
)

func init() {
	subOps["c20cycle"] = c20SubCycle
	subOps["c20indent"] = c20SubIndent
}

// ---- parent side ----------------------------------------------------------------------

// c20CapBuf keeps the first max bytes written to it.
type c20CapBuf struct {
	b   bytes.Buffer
	max int
}

func (c *c20CapBuf) Write(p []byte) (int, error) {
	if room := c.max - c.b.Len(); room > 0 {
		if len(p) > room {
			c.b.Write(p[:room])
		} else {
			c.b.Write(p)
		}
	}
	return len(p), nil
}
func (c *c20CapBuf) String() string { return c.b.String() }

// c20Batch runs the child `sub` over cases (one per stdin line) and watches every single case: the child prints
// "S i" before and "D i …" after case i; if nothing arrives for perCase the child is killed.
// It returns the index of the case that did not return (-1 if all did) and how the child ended.
func c20Batch(sub string, lines []string, perCase time.Duration, onDone func(i int, fields []string)) (stuck int, status string, stderr string) {
	exe, err := os.Executable()
	if err != nil {
		fail("os.Executable: %v", err)
	}
	cmd := exec.Command(exe, "-sub", sub)
	cmd.Env = append(os.Environ(), "GOMEMLIMIT=1GiB", "GOMAXPROCS=2", "GOTRACEBACK=none")
	cmd.Stdin = strings.NewReader(strings.Join(lines, "\n") + "\n")
	var se c20CapBuf
	se.max = 16 << 10
	cmd.Stderr = &se
	out, err := cmd.StdoutPipe()
	if err != nil {
		fail("%s: %v", sub, err)
	}
	if err := cmd.Start(); err != nil {
		fail("%s: %v", sub, err)
	}
	lc := make(chan string, 1024)
	go func() {
		sc := bufio.NewScanner(out)
		sc.Buffer(make([]byte, 1<<16), 1<<20)
		for sc.Scan() {
			lc <- sc.Text()
		}
		close(lc)
	}()
	started, done := -1, -1
	timer := time.NewTimer(perCase + 5*time.Second) // process start-up
	defer timer.Stop()
	for {
		select {
		case l, ok := <-lc:
			if !ok {
				werr := cmd.Wait()
				if werr == nil && done == len(lines)-1 {
					return -1, "exit0", se.String()
				}
				if started > done {
					return started, fmt.Sprintf("died: %v", werr), se.String()
				}
				fail("%s: ended early (started %d done %d of %d): %v %s", sub, started, done, len(lines), werr, trunc(se.String(), 300))
			}
			f := strings.Fields(l)
			if len(f) >= 2 {
				var i int
				fmt.Sscanf(f[1], "%d", &i)
				if f[0] == "S" {
					started = i
				} else if f[0] == "D" {
					done = i
					onDone(i, f[2:])
				}
			}
			if !timer.Stop() {
				select {
				case <-timer.C:
				default:
				}
			}
			timer.Reset(perCase)
		case <-timer.C:
			cmd.Process.Kill()
			for range lc {
			}
			cmd.Wait()
			if started < 0 {
				fail("%s: no output within the start-up budget: %s", sub, trunc(se.String(), 300))
			}
			return started, "timeout", se.String()
		}
	}
}

// ---- error classes (never message text) ----------------------------------------------

func c20Class(err error) string {
	switch {
	case err == nil:
		return "ok"
	case err == io.EOF:
		return "eof"
	case errors.Is(err, internal.ErrCycle):
		return "cycle"
	}
	var se *jsontext.SyntacticError
	if errors.As(err, &se) {
		switch {
		case jsontext.VerifErrClass(se.Err) == 3:
			return "maxdepth"
		case se.Err == io.ErrUnexpectedEOF:
			return "unexpected-eof"
		}
		return "syntax"
	}
	var me *json.SemanticError
	if errors.As(err, &me) {
		return "semantic"
	}
	if errors.Is(err, io.ErrUnexpectedEOF) {
		return "unexpected-eof"
	}
	return "other"
}

// ---- child: cyclic and long-chain Go values -------------------------------------------

type c20N struct{ Next *c20N }
type c20P *c20P
type c20MV struct{ M map[string]*c20MV }
type c20AP [1]*c20AP
type C20Outer struct{ *C20Inner }
type C20Inner struct {
	V int
	O *C20Outer `json:"o"`
}
type C20E struct {
	*C20E
	X int
}
type c20S []c20S
type c20M map[string]c20M
type c20SI struct{ V any }
type c20SP []*c20SP
type c20PS struct{ P **c20PS } // cycle with two pointer hops per struct

// c20Shapes lists the Go values of part (b).  want: the classes a terminating, correct library may return.
var c20Shapes = []struct {
	name string
	mk   func() any
	want string // "cyc" = cycle|maxdepth error; "ok" = must succeed; "deep" = maxdepth error; "ok|deep"
}{
	{"slice-self", func() any { s := []any{nil}; s[0] = s; return s }, "cyc"},
	{"map-self", func() any { m := map[string]any{}; m["a"] = m; return m }, "cyc"},
	{"typed-slice-self", func() any { s := c20S{nil}; s[0] = s; return s }, "cyc"},
	{"typed-map-self", func() any { m := c20M{}; m["a"] = m; return m }, "cyc"},
	{"struct-ptr-cycle", func() any { n := &c20N{}; n.Next = n; return n }, "cyc"},
	{"struct-ptr-cycle-2", func() any { a, b := &c20N{}, &c20N{}; a.Next, b.Next = b, a; return a }, "cyc"},
	{"struct-ptrptr-cycle", func() any { s := &c20PS{}; p := s; s.P = &p; return s }, "cyc"},
	{"struct-iface-cycle", func() any { s := &c20SI{}; s.V = s; return s }, "cyc"},
	{"map-value-cycle", func() any { v := &c20MV{M: map[string]*c20MV{}}; v.M["a"] = v; return v }, "cyc"},
	{"array-of-ptr-cycle", func() any { a := new(c20AP); a[0] = a; return a }, "cyc"},
	{"slice-of-ptr-cycle", func() any { s := &c20SP{nil}; (*s)[0] = s; return s }, "cyc"},
	{"embedded-ptr-cycle", func() any { o := &C20Outer{&C20Inner{V: 1}}; o.O = o; return o }, "cyc"},
	{"embedded-self", func() any { e := &C20E{X: 1}; e.C20E = e; return e }, "ok"}, // the inner X is shadowed: never visited
	// pointer-only cycles: no slice/map/struct on the cycle
	{"ptr-to-ptr-cycle", func() any { var p c20P; p = &p; return p }, "cyc"},
	{"iface-self", func() any { var x any; x = &x; return x }, "cyc"},
	{"ptr-to-iface-self", func() any { var x any; p := &x; x = p; return p }, "cyc"},
	{"iface-ptr-cycle-2", func() any { var a, b any; a, b = &b, &a; return a }, "cyc"},
	// long acyclic chains
	{"chain-list-5000", func() any { return c20List(5000) }, "ok"},
	{"chain-list-10000", func() any { return c20List(10000) }, "ok"},
	{"chain-list-10001", func() any { return c20List(10001) }, "deep"},
	{"chain-list-20000", func() any { return c20List(20000) }, "deep"},
	{"chain-ptr-2000", func() any { return c20PtrChain(2000) }, "ok"},
	{"chain-iface-5000", func() any { return c20IfaceChain(5000) }, "ok"},
	{"chain-slice-5000", func() any { var v any = 1.0; for i := 0; i < 5000; i++ { v = []any{v} }; return v }, "ok"},
}

func c20List(n int) *c20N {
	var head *c20N
	for i := 0; i < n; i++ {
		head = &c20N{Next: head}
	}
	return head
}

// c20PtrChain returns a ***…*int with n levels.
func c20PtrChain(n int) any {
	v := reflect.ValueOf(new(int))
	for i := 1; i < n; i++ {
		p := reflect.New(v.Type())
		p.Elem().Set(v)
		v = p
	}
	return v.Interface()
}

// c20IfaceChain returns x0 where x_i = &x_{i+1} (an `any` holding a *any), n hops, ending in 1.0.
func c20IfaceChain(n int) any {
	var last any = 1.0
	for i := 0; i < n; i++ {
		next := last
		last = &next
	}
	return last
}

var c20CycleAPIs = []string{"Marshal", "MarshalWrite", "MarshalEncode", "v1.Marshal", "v1.Encoder"}

func c20CallMarshal(api string, v any) error {
	switch api {
	case "Marshal":
		_, err := json.Marshal(v)
		return err
	case "MarshalWrite":
		return json.MarshalWrite(io.Discard, v)
	case "MarshalEncode":
		return json.MarshalEncode(jsontext.NewEncoder(io.Discard), v)
	case "v1.Marshal":
		_, err := jsonv1.Marshal(v)
		return err
	case "v1.Encoder":
		return jsonv1.NewEncoder(io.Discard).Encode(v)
	}
	fmt.Fprintln(os.Stderr, "bad api", api)
	os.Exit(2)
	return nil
}

// Unmarshal into self-referential targets (extra shapes; the recursion does not consume input).
var c20UnmarshalShapes = []struct {
	name string
	run  func() error
}{
	{"Unmarshal/ptr-to-ptr-type", func() error { var p c20P; return json.Unmarshal([]byte("1"), &p) }},
	{"Unmarshal/ptr-to-ptr-type-null", func() error { var p c20P; return json.Unmarshal([]byte("null"), &p) }},
	{"Unmarshal/iface-self", func() error { var x any; x = &x; return json.Unmarshal([]byte("1"), &x) }},
	{"v1.Unmarshal/iface-self", func() error { var x any; x = &x; return jsonv1.Unmarshal([]byte("1"), &x) }},
	{"v1.Unmarshal/iface-ptr-cycle-2", func() error { var a, b any; a, b = &b, &a; return jsonv1.Unmarshal([]byte("1"), &a) }},
	{"v1.Unmarshal/ptr-to-ptr-cycle", func() error { var p c20P; p = &p; return jsonv1.Unmarshal([]byte("1"), &p) }},
	{"Unmarshal/struct-ptr-cycle", func() error { n := &c20N{}; n.Next = n; return json.Unmarshal([]byte(`{"Next":{"Next":{"Next":null}}}`), n) }},
	{"v1.Unmarshal/struct-ptr-cycle", func() error { n := &c20N{}; n.Next = n; return jsonv1.Unmarshal([]byte(`{"Next":{"Next":{"Next":{}}}}`), n) }},
}

// c20SubCycle: stdin has one job per line "<shape> <api>" (api "-" for the Unmarshal shapes);
// stdout "S i" before and "D i <class>" after each job.  A fatal stack overflow ends the child; the parent
// sees which job was running and restarts with the rest.
func c20SubCycle(args []string) {
	in := bufio.NewReader(os.Stdin)
	out := bufio.NewWriter(os.Stdout)
	defer out.Flush()
	for i := 0; ; i++ {
		line, rerr := in.ReadString('\n')
		f := strings.Fields(line)
		if len(f) == 2 {
			fmt.Fprintf(out, "S %d\n", i)
			out.Flush()
			res := c20RunCycleJob(f[0], f[1])
			fmt.Fprintf(out, "D %d %s\n", i, res)
			out.Flush()
		}
		if rerr != nil {
			return
		}
	}
}

func c20RunCycleJob(shape, api string) string {
	if strings.HasPrefix(shape, "g:") {
		return c20RunGenJob(shape, api)
	}
	var err error
	var p any
	if api == "-" {
		for _, s := range c20UnmarshalShapes {
			if s.name == shape {
				debug.SetMaxStack(c20StackCyclic)
				p = guard(func() { err = s.run() })
				goto done
			}
		}
	} else {
		for _, s := range c20Shapes {
			if s.name == shape {
				v := s.mk()
				if s.want == "cyc" {
					debug.SetMaxStack(c20StackCyclic)
				} else {
					debug.SetMaxStack(c20StackChain)
				}
				p = guard(func() { err = c20CallMarshal(api, v) })
				goto done
			}
		}
	}
	fmt.Fprintln(os.Stderr, "unknown shape", shape)
	os.Exit(2)
done:
	if p != nil {
		return "panic " + strings.ReplaceAll(fmt.Sprint(p), "\n", " ")
	}
	return c20Class(err)
}

// ---- child: v1.Indent / v1.Compact / v1.HTMLEscape with arbitrary prefix and indent -----
// stdin: one case per line "<src-hex> <prefix-hex> <indent-hex>"; stdout: "S <i>" before and
// "D <i> <class> <out-len>" after each case, so the parent knows which case never returned.

func c20SubIndent(args []string) {
	debug.SetMaxStack(c20StackChain)
	in := bufio.NewReaderSize(os.Stdin, 1<<20)
	out := bufio.NewWriter(os.Stdout)
	defer out.Flush()
	for i := 0; ; i++ {
		line, err := in.ReadString('\n')
		line = strings.TrimSpace(line)
		if line != "" {
			f := strings.Fields(line)
			if len(f) != 3 {
				fmt.Fprintln(os.Stderr, "bad case line")
				os.Exit(2)
			}
			src, prefix, indent := unhx(f[0]), string(unhx(f[1])), string(unhx(f[2]))
			fmt.Fprintf(out, "S %d\n", i)
			out.Flush()
			var buf bytes.Buffer
			var ierr error
			if p := guard(func() { ierr = jsonv1.Indent(&buf, src, prefix, indent) }); p != nil {
				fmt.Fprintf(out, "D %d panic %s\n", i, strings.ReplaceAll(fmt.Sprint(p), "\n", " "))
			} else {
				cls := "ok"
				if ierr != nil {
					cls = "err"
				}
				// the toolchain's encoding/json on the same arguments: same verdict, same bytes
				var ref bytes.Buffer
				rerr := stdjson.Indent(&ref, src, prefix, indent)
				switch {
				case (rerr == nil) != (ierr == nil):
					cls = "diff-verdict"
				case ierr == nil && !bytes.Equal(ref.Bytes(), buf.Bytes()):
					cls = "diff-output"
				}
				fmt.Fprintf(out, "D %d %s %d\n", i, cls, buf.Len())
			}
			out.Flush()
		}
		if err != nil {
			return
		}
	}
}

// ---- generated cycle family -------------------------------------------------------------
//
// A cycle is a ring of L cells.  Every cell is an addressable variable of interface kind
//   A  any            B  C20Box (named empty interface)      I  c20I (interface{ M() })
// living in the field Next of a holder struct (C20HA / C20HB / C20HI, whose pointer types have M).
// Cell i-1 holds a link to cell i; the link flavour is
//   p  *K   pointer to the cell            q  **K  pointer to a pointer to the cell
//   n  named pointer type (type NPK *K)    s  *HK  pointer to the holder struct (the only deepening hop,
//                                                   and the only flavour a cell of kind I can hold)
// A spec is the string of (kind, flavour-of-the-link-INTO-this-cell) pairs, e.g. "Bp" is
// `var b C20Box; b = &b`, "ApBq" is `a = &&b; b = &a`.  Entry points into the ring:
//   ptr    the link into cell 0          iface  the value held by cell 0
//   field / slice / map / array          the link into cell 0 as struct field, slice element, map value, array element
//   embed  a struct embedding the holder pointer (only when the link into cell 0 has flavour s)

type C20Box interface{}
type c20I interface{ M() }
type C20HA struct{ Next any }
type C20HB struct{ Next C20Box }
type C20HI struct{ Next c20I }

func (*C20HA) M() {}
func (*C20HB) M() {}
func (*C20HI) M() {}

type c20NPA *any
type c20NPB *C20Box
type c20NPI *c20I
type C20EA struct{ *C20HA }
type C20EB struct{ *C20HB }
type C20EI struct{ *C20HI }

var c20GenEntries = []string{"ptr", "iface", "field", "slice", "map", "array", "embed"}

// c20GenSpecs enumerates every ring of length L (a cell of kind I can only hold flavour s).
func c20GenSpecs(L int) []string {
	var out []string
	var rec func(prefix string, kinds []byte)
	rec = func(prefix string, kinds []byte) {
		i := len(prefix) / 2
		if i == L {
			out = append(out, prefix)
			return
		}
		// the link into cell i is held by cell i-1 (cyclically)
		holder := kinds[(i+L-1)%L]
		flavours := "pqns"
		if holder == 'I' {
			flavours = "s"
		}
		for _, f := range []byte(flavours) {
			rec(prefix+string([]byte{kinds[i], f}), kinds)
		}
	}
	var kindsRec func(ks []byte)
	kindsRec = func(ks []byte) {
		if len(ks) == L {
			rec("", ks)
			return
		}
		for _, k := range []byte("ABI") {
			kindsRec(append(append([]byte{}, ks...), k))
		}
	}
	kindsRec(nil)
	return out
}

func c20GenPointerOnly(spec string) bool { return !strings.Contains(spec, "s") }

// c20GenBuild constructs the ring and returns the value for the entry point (ok=false: entry not applicable).
func c20GenBuild(spec, entry string) (v any, ok bool) {
	L := len(spec) / 2
	holders := make([]reflect.Value, L) // pointers to holder structs
	for i := 0; i < L; i++ {
		switch spec[2*i] {
		case 'A':
			holders[i] = reflect.ValueOf(&C20HA{})
		case 'B':
			holders[i] = reflect.ValueOf(&C20HB{})
		case 'I':
			holders[i] = reflect.ValueOf(&C20HI{})
		default:
			return nil, false
		}
	}
	link := func(i int) reflect.Value {
		cell := holders[i].Elem().Field(0).Addr() // *K
		switch spec[2*i+1] {
		case 'p':
			return cell
		case 'q':
			pp := reflect.New(cell.Type())
			pp.Elem().Set(cell)
			return pp
		case 'n':
			switch spec[2*i] {
			case 'A':
				return reflect.ValueOf(c20NPA(cell.Interface().(*any)))
			case 'B':
				return reflect.ValueOf(c20NPB(cell.Interface().(*C20Box)))
			default:
				return reflect.ValueOf(c20NPI(cell.Interface().(*c20I)))
			}
		default: // 's'
			return holders[i]
		}
	}
	for i := 0; i < L; i++ {
		prev := (i + L - 1) % L
		if spec[2*prev] == 'I' && spec[2*i+1] != 's' {
			return nil, false // a cell of kind I can only hold a pointer to a holder struct
		}
		holders[prev].Elem().Field(0).Set(link(i))
	}
	l0 := link(0)
	switch entry {
	case "ptr":
		return l0.Interface(), true
	case "iface":
		return holders[0].Elem().Field(0).Interface(), true
	case "field":
		st := reflect.New(reflect.StructOf([]reflect.StructField{{Name: "F", Type: l0.Type()}})).Elem()
		st.Field(0).Set(l0)
		return st.Interface(), true
	case "slice":
		s := reflect.MakeSlice(reflect.SliceOf(l0.Type()), 1, 1)
		s.Index(0).Set(l0)
		return s.Interface(), true
	case "map":
		m := reflect.MakeMap(reflect.MapOf(reflect.TypeFor[string](), l0.Type()))
		m.SetMapIndex(reflect.ValueOf("k"), l0)
		return m.Interface(), true
	case "array":
		a := reflect.New(reflect.ArrayOf(1, l0.Type())).Elem()
		a.Index(0).Set(l0)
		return a.Interface(), true
	case "embed":
		if spec[1] != 's' {
			return nil, false
		}
		switch h := holders[0].Interface().(type) {
		case *C20HA:
			return C20EA{h}, true
		case *C20HB:
			return C20EB{h}, true
		case *C20HI:
			return C20EI{h}, true
		}
	}
	return nil, false
}

// c20RunGenJob runs one generated job "g:<spec>@<entry>"; api is a marshal entry point, or
// "Unmarshal" / "v1.Unmarshal" (the ring is the target; the input `1` is never consumed by a pointer-only ring).
func c20RunGenJob(shape, api string) string {
	spec, entry, _ := strings.Cut(strings.TrimPrefix(shape, "g:"), "@")
	v, ok := c20GenBuild(spec, entry)
	if !ok {
		return "n/a"
	}
	if c20GenPointerOnly(spec) {
		debug.SetMaxStack(c20StackCyclic)
	} else {
		debug.SetMaxStack(c20StackChain)
	}
	var err error
	p := guard(func() {
		switch api {
		case "Unmarshal":
			err = json.Unmarshal([]byte("1"), v)
		case "v1.Unmarshal":
			err = jsonv1.Unmarshal([]byte("1"), v)
		default:
			err = c20CallMarshal(api, v)
		}
	})
	if p != nil {
		return "panic " + strings.ReplaceAll(fmt.Sprint(p), "\n", " ")
	}
	return c20Class(err)
}
