package main

// C16 — Reported positions are truthful: offsets, stack pointers, error locations.
//
// (1) Correspondence (Tie B, family `ptr`): jsontext.Pointer methods on generated pointer texts
//     (valid and invalid, arbitrary bytes) and state.appendStackPointer(where ∈ -1,0,+1) after
//     random token histories, against the Lean models; the declarative `pointerOf` too.
// (2) Predicates on the implementation, against an INDEPENDENT tracker (c16scan: a small JSON
//     tokenizer written here, no library code) run over the bytes consumed / produced so far:
//     (a) Decoder: valid texts × call scripts over {ReadToken, ReadValue, SkipValue, PeekKind};
//     (b) Encoder: token/value scripts incl. rejected calls, two kinds of writer;
//     (c) rejected inputs × {token path, value path, mixed path, Unmarshal into any}:
//         input[:ByteOffset] viable, offending token starts at or contains ByteOffset,
//         JSONPointer ∈ {ptr(C), ptr(C)/next} (duplicate name: exactly the duplicated member);
//     (d) SemanticError: (type, text) pairs with exactly one conversion error.

import (
	"bytes"
	"errors"
	"fmt"
	"io"
	"math/rand/v2"
	"reflect"
	"runtime/debug"
	"sort"
	"strconv"
	"strings"
	"sync"
	"unicode/utf8"

	json "github.com/go-json-experiment/json"
	"github.com/go-json-experiment/json/internal"
	"github.com/go-json-experiment/json/jsontext"
)

func init() { register("C16", runC16) }

// ---------------------------------------------------------------------------------------------
// Independent tracker
// ---------------------------------------------------------------------------------------------

type c16frame struct {
	kind    byte   // 0 = top level, '{', '['
	n       int64  // names + values begun so far
	name    []byte // last member name read (unquoted)
	hasName bool
	seen    map[string]bool
	// what the grammar expects next inside this frame
	// 'v' value (or close if n == 0 and not afterComma), 'k' name, ':' colon, ',' comma-or-close
	expect     byte
	afterComma bool
}

type c16tok struct {
	start, end int
	kind       byte // '{' '}' '[' ']' '"' '0' 'l' ',' ':'
	depth      int  // number of open containers when the token starts
	isName     bool
}

type c16scan struct {
	frames []c16frame
	toks   []c16tok
	// result
	lastEnd   int  // end of the last complete non-delimiter token (0 if none)
	tokStart  int  // start of an incomplete (still viable) token at the end of input, or -1
	breakAt   int  // index of the first byte that makes the text non-viable, or -1
	breakTok  int  // start of the token that contains breakAt
	dup       bool // the break is a duplicate member name
	dupName   []byte
	complete  bool // the text is a complete sequence of values (single: exactly one)
	delimLast bool // the last complete token was ':' or ','
	delimPos  int  // its position
	nameExpected bool // at the break, a member name was expected
}

func c16isWS(c byte) bool { return c == ' ' || c == '\t' || c == '\n' || c == '\r' }

// scanString scans a JSON string starting at b[0] == '"'.
// Returns (end, unquoted, status): status 0 complete, 1 incomplete but viable, 2 broken at index end.
func c16scanString(b []byte) (int, []byte, int) {
	var out []byte
	i := 1
	hex := func(c byte) int {
		switch {
		case '0' <= c && c <= '9':
			return int(c - '0')
		case 'a' <= c && c <= 'f':
			return int(c-'a') + 10
		case 'A' <= c && c <= 'F':
			return int(c-'A') + 10
		}
		return -1
	}
	// read4 reads 4 hex digits at i: (value, newI, status)
	read4 := func(i int) (int, int, int) {
		v := 0
		for k := 0; k < 4; k++ {
			if i >= len(b) {
				return 0, i, 1
			}
			h := hex(b[i])
			if h < 0 {
				return 0, i, 2
			}
			v = v*16 + h
			i++
		}
		return v, i, 0
	}
	for {
		if i >= len(b) {
			return i, nil, 1
		}
		c := b[i]
		switch {
		case c == '"':
			return i + 1, out, 0
		case c < 0x20:
			return i, nil, 2
		case c == '\\':
			if i+1 >= len(b) {
				return i + 1, nil, 1
			}
			e := b[i+1]
			switch e {
			case '"', '\\', '/':
				out = append(out, e)
				i += 2
			case 'b':
				out = append(out, '\b')
				i += 2
			case 'f':
				out = append(out, '\f')
				i += 2
			case 'n':
				out = append(out, '\n')
				i += 2
			case 'r':
				out = append(out, '\r')
				i += 2
			case 't':
				out = append(out, '\t')
				i += 2
			case 'u':
				v, j, st := read4(i + 2)
				if st != 0 {
					return j, nil, st
				}
				switch {
				case 0xDC00 <= v && v < 0xE000:
					return j - 1, nil, 2 // lone low surrogate: the last digit settles it
				case 0xD800 <= v && v < 0xDC00:
					// must be followed by \uDC00..\uDFFF
					if j >= len(b) {
						return j, nil, 1
					}
					if b[j] != '\\' {
						return j, nil, 2
					}
					if j+1 >= len(b) {
						return j + 1, nil, 1
					}
					if b[j+1] != 'u' {
						return j + 1, nil, 2
					}
					v2, j2, st2 := read4(j + 2)
					if st2 == 1 {
						// viable only if the digits so far can still form DC00..DFFF
						got := b[j+2 : j2]
						if len(got) >= 1 && got[0] != 'd' && got[0] != 'D' {
							return j + 2, nil, 2
						}
						if len(got) >= 2 && hex(got[1]) < 0xC {
							return j + 3, nil, 2
						}
						return j2, nil, 1
					}
					if st2 == 2 {
						got := b[j+2 : j2]
						if len(got) >= 1 && got[0] != 'd' && got[0] != 'D' {
							return j + 2, nil, 2
						}
						if len(got) >= 2 && hex(got[1]) < 0xC {
							return j + 3, nil, 2
						}
						return j2, nil, 2
					}
					if v2 < 0xDC00 || v2 >= 0xE000 {
						if b[j+2] != 'd' && b[j+2] != 'D' {
							return j + 2, nil, 2
						}
						return j + 3, nil, 2
					}
					r := rune(0x10000 + (v-0xD800)<<10 + (v2 - 0xDC00))
					out = utf8.AppendRune(out, r)
					i = j2
				default:
					out = utf8.AppendRune(out, rune(v))
					i = j
				}
			default:
				return i + 1, nil, 2
			}
		case c < 0x80:
			out = append(out, c)
			i++
		default:
			// UTF-8 (Unicode table 3-7), byte by byte so that the breaking byte is exact
			var size int
			lo, hi := byte(0x80), byte(0xBF)
			switch {
			case 0xC2 <= c && c <= 0xDF:
				size = 2
			case c == 0xE0:
				size, lo = 3, 0xA0
			case 0xE1 <= c && c <= 0xEC, 0xEE <= c && c <= 0xEF:
				size = 3
			case c == 0xED:
				size, hi = 3, 0x9F
			case c == 0xF0:
				size, lo = 4, 0x90
			case 0xF1 <= c && c <= 0xF3:
				size = 4
			case c == 0xF4:
				size, hi = 4, 0x8F
			default:
				return i, nil, 2
			}
			for k := 1; k < size; k++ {
				if i+k >= len(b) {
					return i + k, nil, 1
				}
				x := b[i+k]
				l, h := byte(0x80), byte(0xBF)
				if k == 1 {
					l, h = lo, hi
				}
				if x < l || x > h {
					return i + k, nil, 2
				}
			}
			out = append(out, b[i:i+size]...)
			i += size
		}
	}
}

// scanNumber: (end, status) status 0 complete (maximal munch), 1 prefix of a number only, 2 broken at end.
func c16scanNumber(b []byte) (int, int) {
	i := 0
	if i < len(b) && b[i] == '-' {
		i++
	}
	if i >= len(b) {
		return i, 1
	}
	switch {
	case b[i] == '0':
		i++
	case '1' <= b[i] && b[i] <= '9':
		for i < len(b) && '0' <= b[i] && b[i] <= '9' {
			i++
		}
	default:
		return i, 2
	}
	if i < len(b) && b[i] == '.' {
		i++
		if i >= len(b) {
			return i, 1
		}
		if b[i] < '0' || b[i] > '9' {
			return i, 2
		}
		for i < len(b) && '0' <= b[i] && b[i] <= '9' {
			i++
		}
	}
	if i < len(b) && (b[i] == 'e' || b[i] == 'E') {
		i++
		if i < len(b) && (b[i] == '+' || b[i] == '-') {
			i++
		}
		if i >= len(b) {
			return i, 1
		}
		if b[i] < '0' || b[i] > '9' {
			return i, 2
		}
		for i < len(b) && '0' <= b[i] && b[i] <= '9' {
			i++
		}
	}
	return i, 0
}

func c16scanLiteral(b []byte) (int, int) {
	var lit string
	switch b[0] {
	case 'n':
		lit = "null"
	case 't':
		lit = "true"
	default:
		lit = "false"
	}
	for i := 0; i < len(lit); i++ {
		if i >= len(b) {
			return i, 1
		}
		if b[i] != lit[i] {
			return i, 2
		}
	}
	return len(lit), 0
}

// c16run scans b.  single: exactly one top-level value is allowed (Unmarshal, ReadValue-less callers);
// otherwise a stream of top-level values.  recordToks keeps the token list.
func c16run(b []byte, single, recordToks bool) *c16scan {
	s := &c16scan{tokStart: -1, breakAt: -1}
	s.frames = []c16frame{{kind: 0, expect: 'v'}}
	pos := 0
	brk := func(at, tok int) *c16scan {
		s.breakAt, s.breakTok = at, tok
		return s
	}
	for {
		for pos < len(b) && c16isWS(b[pos]) {
			pos++
		}
		f := &s.frames[len(s.frames)-1]
		if pos >= len(b) {
			s.complete = len(s.frames) == 1 && (!single || f.n == 1) && (single || true)
			if single && f.n == 0 {
				s.complete = false
			}
			return s
		}
		c := b[pos]
		if f.kind == 0 && single && f.n == 1 {
			return brk(pos, pos) // trailing data after the top-level value
		}
		// delimiters and closers
		switch f.expect {
		case ':':
			if c != ':' {
				return brk(pos, pos)
			}
			if recordToks {
				s.toks = append(s.toks, c16tok{pos, pos + 1, ':', len(s.frames) - 1, false})
			}
			s.delimPos = pos
			pos++
			f.expect = 'v'
			s.delimLast = true
			continue
		case ',':
			switch {
			case c == ',':
				if recordToks {
					s.toks = append(s.toks, c16tok{pos, pos + 1, ',', len(s.frames) - 1, false})
				}
				s.delimPos = pos
				pos++
				f.afterComma = true
				s.delimLast = true
				if f.kind == '{' {
					f.expect = 'k'
				} else {
					f.expect = 'v'
				}
				continue
			case c == '}' && f.kind == '{', c == ']' && f.kind == '[':
				// close below
			default:
				return brk(pos, pos)
			}
		}
		// closing delimiters
		if c == '}' || c == ']' {
			ok := (c == '}' && f.kind == '{' || c == ']' && f.kind == '[') &&
				(f.expect == ',' || (f.n == 0 && !f.afterComma))
			if !ok {
				return brk(pos, pos)
			}
			if recordToks {
				s.toks = append(s.toks, c16tok{pos, pos + 1, c, len(s.frames) - 1, false})
			}
			s.frames = s.frames[:len(s.frames)-1]
			pos++
			s.lastEnd = pos
			s.delimLast = false
			p := &s.frames[len(s.frames)-1]
			if p.kind == 0 {
				p.expect = 'v'
			} else {
				p.expect = ','
			}
			continue
		}
		// a name or a value starts here
		start := pos
		isName := f.expect == 'k' || (f.kind == '{' && f.expect == 'v' && f.n%2 == 0)
		if f.kind == '{' && f.n == 0 && f.expect == 'v' {
			isName = true
		}
		var end, st int
		var kind byte
		var unq []byte
		switch {
		case c == '"':
			kind = '"'
			end, unq, st = c16scanString(b[pos:])
		case isName:
			s.nameExpected = true
			return brk(pos, pos) // a name must be a string
		case c == '{' || c == '[':
			kind, end, st = c, 1, 0
		case c == '-' || ('0' <= c && c <= '9'):
			kind = '0'
			end, st = c16scanNumber(b[pos:])
		case c == 'n' || c == 't' || c == 'f':
			kind = 'l'
			end, st = c16scanLiteral(b[pos:])
		default:
			return brk(pos, pos)
		}
		end += pos
		switch st {
		case 1:
			s.tokStart = start
			return s
		case 2:
			return brk(end, start)
		}
		if isName {
			if f.seen == nil {
				f.seen = map[string]bool{}
			}
			if f.seen[string(unq)] {
				s.dup, s.dupName = true, unq
				return brk(end-1, start)
			}
			f.seen[string(unq)] = true
			f.name, f.hasName = unq, true
			f.n++
			f.expect = ':'
			f.afterComma = false
			if recordToks {
				s.toks = append(s.toks, c16tok{start, end, kind, len(s.frames) - 1, true})
			}
			pos = end
			s.lastEnd = pos
			s.delimLast = false
			continue
		}
		if recordToks {
			s.toks = append(s.toks, c16tok{start, end, kind, len(s.frames) - 1, false})
		}
		f.n++
		f.afterComma = false
		if f.kind == 0 {
			f.expect = 'v'
		} else {
			f.expect = ','
		}
		pos = end
		s.lastEnd = pos
		s.delimLast = false
		if kind == '{' {
			s.frames = append(s.frames, c16frame{kind: '{', expect: 'v'})
		} else if kind == '[' {
			s.frames = append(s.frames, c16frame{kind: '[', expect: 'v'})
		}
	}
}

func c16escTok(b []byte) string {
	// RFC 6901 §3, byte by byte
	var sb strings.Builder
	for _, c := range b {
		switch c {
		case '~':
			sb.WriteString("~0")
		case '/':
			sb.WriteString("~1")
		default:
			sb.WriteByte(c)
		}
	}
	return sb.String()
}

// pointer to the most recently processed token (StackPointer semantics)
func (s *c16scan) stackPointer() string {
	var sb strings.Builder
	for i := 1; i < len(s.frames); i++ {
		f := &s.frames[i]
		if i == len(s.frames)-1 && f.n == 0 {
			break
		}
		sb.WriteByte('/')
		if f.kind == '{' {
			sb.WriteString(c16escTok(f.name))
		} else {
			sb.WriteString(strconv.FormatInt(f.n-1, 10))
		}
	}
	return sb.String()
}

// containerPointer is ptr(C) for the innermost open container C; next are the acceptable
// continuations ptr(C)/next.
func (s *c16scan) errorPointers() (ptrC string, acceptable []string) {
	var sb strings.Builder
	for i := 1; i < len(s.frames)-1; i++ {
		f := &s.frames[i]
		sb.WriteByte('/')
		if f.kind == '{' {
			sb.WriteString(c16escTok(f.name))
		} else {
			sb.WriteString(strconv.FormatInt(f.n-1, 10))
		}
	}
	ptrC = sb.String()
	acceptable = []string{ptrC}
	if len(s.frames) > 1 {
		f := &s.frames[len(s.frames)-1]
		if f.kind == '{' {
			if f.hasName {
				acceptable = append(acceptable, ptrC+"/"+c16escTok(f.name))
			}
		} else {
			if f.n > 0 {
				acceptable = append(acceptable, ptrC+"/"+strconv.FormatInt(f.n-1, 10))
			}
			acceptable = append(acceptable, ptrC+"/"+strconv.FormatInt(f.n, 10))
		}
	}
	return
}

// ---------------------------------------------------------------------------------------------
// Generators
// ---------------------------------------------------------------------------------------------

var c16names = []string{`a`, `b`, `a/b`, `m~n`, `~0`, `~1`, `~`, `/`, ``, `é`, `éx`, `\/`, `\\`, `\"q`, `x y`, `0`, `1`,
	`😀`, `😀`, `a/b`, `~1`, `k0`, `k1`, `k2`, `k3`, `//`, `~~`, `~01`, `long-name-0123456789`}

func c16genValue(r *rand.Rand, depth, maxDepth int, ws bool) string {
	sp := func() string {
		if !ws {
			return ""
		}
		return []string{"", "", " ", "\n", "\t ", "  "}[r.IntN(6)]
	}
	k := r.IntN(10)
	if depth >= maxDepth && k >= 6 {
		k = r.IntN(6)
	}
	switch k {
	case 0:
		return "null"
	case 1:
		return []string{"true", "false"}[r.IntN(2)]
	case 2:
		return []string{"0", "-0", "1", "12", "-3.5", "1e5", "2E-3", "0.0"}[r.IntN(8)]
	case 3, 4:
		return `"` + c16names[r.IntN(len(c16names))] + `"`
	case 5:
		return []string{"{}", "[]", "{ }", "[ ]"}[r.IntN(4)]
	case 6, 7:
		n := r.IntN(4)
		var sb strings.Builder
		sb.WriteString("[" + sp())
		for i := 0; i < n; i++ {
			if i > 0 {
				sb.WriteString(sp() + "," + sp())
			}
			sb.WriteString(c16genValue(r, depth+1, maxDepth, ws))
		}
		sb.WriteString(sp() + "]")
		return sb.String()
	default:
		n := r.IntN(4)
		var sb strings.Builder
		sb.WriteString("{" + sp())
		used := map[string]bool{}
		cnt := 0
		for i := 0; i < n; i++ {
			nm := c16names[r.IntN(len(c16names))]
			_, u, _ := c16scanString([]byte(`"` + nm + `"`))
			if used[string(u)] {
				continue
			}
			used[string(u)] = true
			if cnt > 0 {
				sb.WriteString(sp() + "," + sp())
			}
			cnt++
			sb.WriteString(`"` + nm + `"` + sp() + ":" + sp())
			sb.WriteString(c16genValue(r, depth+1, maxDepth, ws))
		}
		sb.WriteString(sp() + "}")
		return sb.String()
	}
}

// c16genDoc: one or more top-level values.
func c16genDoc(r *rand.Rand, maxDepth int, containerTop bool) string {
	n := 1
	if r.IntN(4) == 0 {
		n = 2 + r.IntN(2)
	}
	var sb strings.Builder
	for i := 0; i < n; i++ {
		v := c16genValue(r, 0, maxDepth, r.IntN(2) == 0)
		for containerTop && v[0] != '{' && v[0] != '[' {
			v = c16genValue(r, 0, maxDepth, r.IntN(2) == 0)
		}
		if i > 0 {
			sb.WriteString([]string{" ", "\n", "  "}[r.IntN(3)])
		}
		sb.WriteString(v)
	}
	if r.IntN(3) == 0 {
		sb.WriteString("\n")
	}
	return sb.String()
}

// ---------------------------------------------------------------------------------------------
// (1) correspondence
// ---------------------------------------------------------------------------------------------

func c16genPointer(r *rand.Rand) []byte {
	pieces := []string{"/", "/", "~0", "~1", "~", "~2", "a", "b", "0", "1", "12", "é", "\xff", "\xc3", "\xef\xbf\xbd", "\xef\xbf", "\xed\xa0\x80",
		"😀", "\xf0\x9f", "", "//", "~01", "~10", "/~", "~/", " ", "\x00", "abc", "~~", "\x80", "\xf4\x90\x80\x80",
		"/a~", "/~0~", "/a/b", "/x/y/z"}
	n := r.IntN(7)
	if r.IntN(20) == 0 {
		n = 20 + r.IntN(60)
	}
	var b []byte
	for i := 0; i < n; i++ {
		if r.IntN(8) == 0 {
			b = append(b, byte(r.IntN(256)))
		} else {
			b = append(b, pieces[r.IntN(len(pieces))]...)
		}
	}
	switch r.IntN(12) {
	case 0: // a well-formed pointer with a dangling escape at the very end
		b = append(append([]byte("/"), bytes.ReplaceAll(b, []byte("~"), []byte("~0"))...), '~')
	case 1: // a rendered pointer: always valid
		b = []byte(jsontext.Pointer("").AppendToken(string(b)).AppendToken("t/~"))
	}
	return b
}

func c16goTokens(p jsontext.Pointer) string {
	var ts []string
	for t := range p.Tokens() {
		ts = append(ts, hx([]byte(t)))
	}
	return strings.Join(append([]string{strconv.Itoa(len(ts))}, ts...), " ")
}

func c16b(v bool) string {
	if v {
		return "1"
	}
	return "0"
}

func c16Correspondence(c *Ctx) {
	or := c.NewOracle()
	if or == nil {
		c.Note("no oracle: ptr correspondence skipped")
		return
	}
	r := c.SubRng(100)
	n := c.N(6000, 200000)
	var lines []string
	var want []string
	var inputs [][]byte
	add := func(line, w string, in []byte) {
		lines = append(lines, line)
		want = append(want, w)
		inputs = append(inputs, in)
	}
	for i := 0; i < n; i++ {
		p := c16genPointer(r)
		q := c16genPointer(r)
		if r.IntN(2) == 0 {
			q = append(append([]byte{}, p...), q...)
		}
		tok := c16genPointer(r)
		pp := jsontext.Pointer(p)
		var g [6]string
		if pn := guard(func() {
			g[0] = c16b(pp.IsValid())
			g[1] = c16b(pp.Contains(jsontext.Pointer(q)))
			g[2] = hx([]byte(pp.Parent()))
			g[3] = hx([]byte(pp.LastToken()))
			g[4] = hx([]byte(pp.AppendToken(string(tok))))
			g[5] = c16goTokens(pp)
		}); pn != nil {
			c.Panic("Pointer-methods", p, pn, nil)
			continue
		}
		add("ptr valid "+hx(p), g[0], p)
		add("ptr contains "+hx(p)+" "+hx(q), g[1], append(append(append([]byte{}, p...), 0), q...))
		add("ptr parent "+hx(p), g[2], p)
		add("ptr last "+hx(p), g[3], p)
		add("ptr append "+hx(p)+" "+hx(tok), g[4], append(append(append([]byte{}, p...), 0), tok...))
		add("ptr tokens "+hx(p), g[5], p)
		if pp.IsValid() {
			c.Hit("corr/pointer-valid")
		} else {
			c.Hit("corr/pointer-invalid")
		}
		if !utf8.Valid(p) {
			c.Hit("corr/pointer-invalid-utf8")
		}
		c.Case("ptr:"+string(p)+"|"+string(q)+"|"+string(tok), len(p) > 0)

		// the property's own consistency predicates, on the implementation
		if pn := guard(func() {
			ap := pp.AppendToken(string(tok))
			if ap.Parent() != pp {
				c.Violate("pointer-inconsistent", "Parent(AppendToken)", p, map[string]any{"tok": hx(tok), "got": string(ap.Parent())})
			}
			if utf8.Valid(tok) && ap.LastToken() != string(tok) {
				c.Violate("pointer-inconsistent", "LastToken(AppendToken)", p, map[string]any{"tok": hx(tok), "got": ap.LastToken()})
			}
			// IsValid cross-checked against the other methods: for well-formed UTF-8 the pointer is valid iff it is
			// what AppendToken rebuilds from its own Tokens (Lean: isValid_render, isValid_appendToken)
			if utf8.Valid(p) {
				rebuilt := jsontext.Pointer("")
				for t := range pp.Tokens() {
					rebuilt = rebuilt.AppendToken(t)
				}
				if (rebuilt == pp) != pp.IsValid() {
					c.Violate("pointer-inconsistent", "IsValid-vs-Tokens/AppendToken", p, map[string]any{"IsValid": pp.IsValid(), "rebuilt": hx([]byte(rebuilt))})
				}
				if pp.IsValid() && pp != "" && pp.Parent().AppendToken(pp.LastToken()) != pp {
					c.Violate("pointer-inconsistent", "Parent+LastToken", p, map[string]any{"parent": string(pp.Parent()), "last": pp.LastToken()})
				}
			}
			if pp.IsValid() {
				if !ap.IsValid() {
					c.Violate("pointer-inconsistent", "IsValid(AppendToken)", p, map[string]any{"tok": hx(tok)})
				}
				if !pp.Contains(ap) || !pp.Contains(pp) || (ap.Contains(pp)) {
					c.Violate("pointer-inconsistent", "Contains(AppendToken)", p, map[string]any{"tok": hx(tok)})
				}
				// rebuild from tokens
				rebuilt := jsontext.Pointer("")
				for t := range pp.Tokens() {
					rebuilt = rebuilt.AppendToken(t)
				}
				if rebuilt != pp {
					c.Violate("pointer-inconsistent", "AppendToken(Tokens)", p, map[string]any{"rebuilt": hx([]byte(rebuilt))})
				}
			}
		}); pn != nil {
			c.Panic("Pointer-consistency", p, pn, nil)
		}
	}
	ans := or.Ask(lines)
	for i := range lines {
		if ans[i] != want[i] {
			c.Violate("corr-ptr", strings.Fields(lines[i])[1], inputs[i], map[string]any{"line": lines[i], "impl": want[i], "model": ans[i]})
		}
	}

	// appendStackPointer after random token histories (Encoder drives Tokens/Names)
	lines, want, inputs = nil, nil, nil
	var specLines, machLines, idxLines, idxWant []string
	nh := c.N(3000, 100000)
	export := jsontext.Internal.Export(&internal.AllowInternalUse)
	nameAlpha := []string{"a", "b", "a/b", "~", "m~n/", "", "é", "😀", "0", "~1", "k"}
	for i := 0; i < nh; i++ {
		var buf bytes.Buffer
		enc := jsontext.NewEncoder(&buf, jsontext.AllowDuplicateNames(true))
		var hist []string
		steps := r.IntN(14)
		var stack []byte
		cnt := []int{0}
		for j := 0; j < steps; j++ {
			var tk jsontext.Token
			var sym string
			inObj := len(stack) > 0 && stack[len(stack)-1] == '{'
			needName := inObj && cnt[len(cnt)-1]%2 == 0
			k := r.IntN(8)
			switch {
			case needName && k < 6:
				nm := nameAlpha[r.IntN(len(nameAlpha))]
				tk, sym = jsontext.String(nm), "s"+hx([]byte(nm))
			case needName:
				tk, sym = jsontext.EndObject, "}"
			case k == 0:
				tk, sym = jsontext.Null, "l"
			case k == 1:
				tk, sym = jsontext.Int(int64(r.IntN(100))), "l"
			case k == 2:
				nm := nameAlpha[r.IntN(len(nameAlpha))]
				tk, sym = jsontext.String(nm), "s"+hx([]byte(nm))
			case k == 3 || k == 4:
				tk, sym = jsontext.BeginObject, "{"
			case k == 5:
				tk, sym = jsontext.BeginArray, "["
			default:
				if len(stack) > 0 && stack[len(stack)-1] == '[' {
					tk, sym = jsontext.EndArray, "]"
				} else {
					tk, sym = jsontext.True, "l"
				}
			}
			var err error
			if pn := guard(func() { err = enc.WriteToken(tk) }); pn != nil {
				c.Panic("WriteToken", []byte(strings.Join(hist, " ")), pn, nil)
				break
			}
			if err != nil {
				fail("c16: history generator produced a rejected token %q after %v: %v", sym, hist, err)
			}
			hist = append(hist, sym)
			switch sym {
			case "{", "[":
				cnt[len(cnt)-1]++
				stack = append(stack, sym[0])
				cnt = append(cnt, 0)
			case "}", "]":
				stack = stack[:len(stack)-1]
				cnt = cnt[:len(cnt)-1]
			default:
				cnt[len(cnt)-1]++
			}
		}
		for _, w := range []int{-1, 0, 1} {
			var got []byte
			if pn := guard(func() { got = export.Encoder(enc).AppendStackPointer(nil, w) }); pn != nil {
				c.Panic("AppendStackPointer", []byte(strings.Join(hist, " ")), pn, nil)
				continue
			}
			h := strings.Join(hist, " ")
			lines = append(lines, strings.TrimSpace(fmt.Sprintf("ptr sp %d %s", w, h)))
			specLines = append(specLines, strings.TrimSpace(fmt.Sprintf("ptr spec %d %s", w, h)))
			machLines = append(machLines, strings.TrimSpace(fmt.Sprintf("ptr spm %d %s", w, h)))
			want = append(want, hx(got))
			inputs = append(inputs, []byte(fmt.Sprintf("%d %s", w, h)))
		}
		{
			var cells []string
			if pn := guard(func() {
				d := enc.StackDepth()
				cells = append(cells, strconv.Itoa(d))
				for i := 0; i <= d; i++ {
					k, n := enc.StackIndex(i)
					cells = append(cells, fmt.Sprintf("%d:%d", byte(k), n))
				}
			}); pn != nil {
				c.Panic("StackIndex", []byte(strings.Join(hist, " ")), pn, nil)
			} else {
				idxLines = append(idxLines, strings.TrimSpace("ptr sidx "+strings.Join(hist, " ")))
				idxWant = append(idxWant, strings.Join(cells, " "))
			}
		}
		c.Hit(fmt.Sprintf("corr/history-len-%d", len(hist)/4*4))
		c.Case("hist:"+strings.Join(hist, " "), len(hist) >= 2)
	}
	ans = or.Ask(lines)
	ans2 := or.Ask(specLines)
	ans3 := or.Ask(machLines)
	for i, a := range or.Ask(idxLines) {
		if a != idxWant[i] {
			c.Violate("corr-stackindex", "StackIndex", []byte(idxLines[i]), map[string]any{"line": idxLines[i], "impl": idxWant[i], "model": a})
		}
	}
	for i := range lines {
		if ans[i] != want[i] {
			c.Violate("corr-stackptr", "appendStackPointer", inputs[i], map[string]any{"line": lines[i], "impl": want[i], "model": ans[i]})
		}
		if ans3[i] != want[i] {
			c.Violate("corr-stackptr-machine", "appendStackPointer", inputs[i], map[string]any{"line": machLines[i], "impl": want[i], "model": ans3[i]})
		}
		if ans2[i] != want[i] {
			c.Violate("corr-stackptr-spec", "pointerOf", inputs[i], map[string]any{"line": specLines[i], "impl": want[i], "spec": ans2[i]})
		}
	}
}

// ---------------------------------------------------------------------------------------------
// (a) Decoder positions
// ---------------------------------------------------------------------------------------------

type c16coder interface {
	StackDepth() int
	StackIndex(int) (jsontext.Kind, int64)
	StackPointer() jsontext.Pointer
}

// comparePositions checks depth / index / pointer of a coder against the tracker run over `bytesSoFar`.
func c16comparePositions(c *Ctx, side, op string, cd c16coder, off int64, bytesSoFar []byte, input []byte, detail map[string]any) bool {
	s := c16run(bytesSoFar, false, false)
	mk := func(extra map[string]any) map[string]any {
		m := map[string]any{"bytes_so_far": string(bytesSoFar)}
		for k, v := range detail {
			m[k] = v
		}
		for k, v := range extra {
			m[k] = v
		}
		return m
	}
	if s.breakAt >= 0 || s.tokStart >= 0 {
		c.Violate("offset-not-at-token-boundary", side+"/"+op, input, mk(map[string]any{"offset": off, "break": s.breakAt, "tokStart": s.tokStart}))
		return false
	}
	if int(off) != len(bytesSoFar) {
		c.Violate("offset-mismatch", side+"/"+op, input, mk(map[string]any{"offset": off, "want": len(bytesSoFar)}))
		return false
	}
	ok := true
	var depth int
	var ptr jsontext.Pointer
	type ki struct {
		k jsontext.Kind
		n int64
	}
	var idx []ki
	if pn := guard(func() {
		depth = cd.StackDepth()
		ptr = cd.StackPointer()
		for i := 0; i <= depth; i++ {
			k, n := cd.StackIndex(i)
			idx = append(idx, ki{k, n})
		}
	}); pn != nil {
		c.Panic(side+"/"+op+"/Stack*", input, pn, mk(nil))
		return false
	}
	if depth != len(s.frames)-1 {
		c.Violate("depth-mismatch", side+"/"+op, input, mk(map[string]any{"StackDepth": depth, "want": len(s.frames) - 1}))
		return false
	}
	for i, f := range s.frames {
		if byte(idx[i].k) != f.kind || idx[i].n != f.n {
			c.Violate("index-mismatch", side+"/"+op, input, mk(map[string]any{"level": i, "kind": string(rune(idx[i].k)), "len": idx[i].n, "want_kind": string(rune(f.kind)), "want_len": f.n}))
			ok = false
		}
	}
	if want := s.stackPointer(); string(ptr) != want {
		c.Violate("pointer-mismatch", side+"/"+op, input, mk(map[string]any{"StackPointer": string(ptr), "want": want}))
		ok = false
	}
	return ok
}

// c16chunkReader hands out at most n bytes per Read.
type c16chunkReader struct {
	data []byte
	n    int
}

func (r *c16chunkReader) Read(p []byte) (int, error) {
	if len(r.data) == 0 {
		return 0, io.EOF
	}
	k := min(r.n, len(p), len(r.data))
	copy(p, r.data[:k])
	r.data = r.data[k:]
	return k, nil
}

var c16decOps = []string{"RT", "RV", "SV", "PK"}

// c16runDecScript runs one call script over doc and checks positions after every call.
// c16reader: 0 *bytes.Buffer, 1 *bytes.Reader (refills and buffer compaction happen), n>1 chunks of n-1 bytes.
func c16reader(kind int, doc []byte) io.Reader {
	switch kind {
	case 0:
		return bytes.NewBuffer(append([]byte(nil), doc...))
	case 1:
		return bytes.NewReader(doc)
	default:
		return &c16chunkReader{data: doc, n: kind - 1}
	}
}

// Histories a coder may have behind it when it is Reset onto new data.  Positions are about what THIS coder
// consumed/produced since its (re)initialisation, so after Reset everything must be as for a fresh coder.
var c16ageDocs = sync.OnceValue(func() [][]byte {
	r := rand.New(rand.NewPCG(16, 16))
	grow := func(min int) []byte {
		var sb strings.Builder
		sb.WriteString("[")
		for sb.Len() < min {
			if sb.Len() > 1 {
				sb.WriteString(",")
			}
			sb.WriteString(c16genValue(r, 1, 4, true))
		}
		sb.WriteString("]")
		return []byte(sb.String())
	}
	return [][]byte{nil, []byte(`[1]`), grow(100), grow(5000), grow(6000), append(grow(200)[:150], "]}}"...), grow(300), grow(100)}
})

const c16nAges = 8

// c16agedDecoder returns a Decoder for doc: fresh (age 0) or one that has a history on other input and was Reset.
//   1 short value read completely   2 >64 B read completely   3 >4 KiB read completely (chunked reader)
//   4 >4 KiB abandoned mid-value    5 history ending in a syntax error   6 >64 B from a *bytes.Buffer
//   7 >64 B read by ReadValue, then PeekKind at EOF (cached peek error)
func c16agedDecoder(age, reader int, doc []byte) *jsontext.Decoder {
	if age == 0 {
		return jsontext.NewDecoder(c16reader(reader, doc))
	}
	h := c16ageDocs()[age]
	hr := []int{0, 1, 1, 65, 1, 1, 0, 8}[age]
	dec := jsontext.NewDecoder(c16reader(hr, h))
	switch age {
	case 4:
		for i := 0; i < 7; i++ {
			dec.ReadToken()
		}
	case 7:
		dec.ReadValue()
		dec.PeekKind()
	default:
		for {
			if _, err := dec.ReadToken(); err != nil {
				break
			}
		}
	}
	dec.Reset(c16reader(reader, doc))
	return dec
}

func c16runDecScript(c *Ctx, doc []byte, script []int, toks []c16tok, valueEnd map[int]int, reader, probeEvery, age int) {
	var dec *jsontext.Decoder
	if pn := guard(func() { dec = c16agedDecoder(age, reader, doc) }); pn != nil {
		c.Panic("Decoder/Reset", doc, pn, map[string]any{"age": age})
		return
	}
	prev := int64(0)
	var trace []string
	for ci, opi := range script {
		op := c16decOps[opi]
		trace = append(trace, op)
		var err error
		var kind jsontext.Kind
		pn := guard(func() {
			switch op {
			case "RT":
				_, err = dec.ReadToken()
			case "RV":
				_, err = dec.ReadValue()
			case "SV":
				err = dec.SkipValue()
			case "PK":
				kind = dec.PeekKind()
			}
		})
		detail := map[string]any{"script": strings.Join(trace, " "), "doc": string(doc), "reader": reader, "reset_after_history": age}
		if pn != nil {
			c.Panic("Decoder/"+op, doc, pn, detail)
			return
		}
		var off int64
		if pn := guard(func() { off = dec.InputOffset() }); pn != nil {
			c.Panic("Decoder/InputOffset", doc, pn, detail)
			return
		}
		if off < 0 || int(off) > len(doc) {
			c.Violate("offset-out-of-range", "Decoder/"+op, doc, detail)
			return
		}
		// predicted offset from the token table of the whole document
		nextTok := -1
		for i, t := range toks {
			if t.kind != ',' && t.kind != ':' && t.start >= int(prev) {
				nextTok = i
				break
			}
		}
		want := prev
		switch {
		case op == "PK":
			wantKind := byte(0)
			if nextTok >= 0 {
				wantKind = toks[nextTok].kind
				switch wantKind {
				case 'l':
					wantKind = doc[toks[nextTok].start]
				}
			}
			if byte(kind) != wantKind {
				c.Violate("peek-kind-mismatch", "Decoder/PK", doc, detail)
			}
		case err != nil:
			// a rejected call on a valid text (value expected at a closer, or EOF): nothing consumed
			if nextTok >= 0 && !(toks[nextTok].kind == '}' || toks[nextTok].kind == ']') {
				detail["err"] = err.Error()
				c.Violate("valid-text-rejected", "Decoder/"+op, doc, detail)
				return
			}
			c.Hit("dec/rejected-call-" + op)
		case op == "RT":
			if nextTok >= 0 {
				want = int64(toks[nextTok].end)
			}
		default:
			if nextTok >= 0 {
				want = int64(valueEnd[nextTok])
			}
		}
		if off != want {
			detail["offset"], detail["want"] = off, want
			c.Violate("offset-mismatch", "Decoder/"+op, doc, detail)
			return
		}
		// probing StackPointer copies the pending names out of the read buffer, which would hide a stale
		// buffer reference: some runs probe only every k-th call or only after the last call
		if ci%probeEvery == probeEvery-1 || ci == len(script)-1 || err != nil {
			if !c16comparePositions(c, "Decoder", op, dec, off, doc[:off], doc, detail) {
				return
			}
		}
		if err != nil && err != io.EOF {
			// after a rejected call on valid text the decoder stays usable only for some errors; stop here
			return
		}
		prev = off
	}
}

func c16tokenTable(doc []byte) ([]c16tok, map[int]int) {
	s := c16run(doc, false, true)
	if s.breakAt >= 0 || s.tokStart >= 0 || !s.complete {
		fail("c16: generator produced an invalid document %q (break %d)", doc, s.breakAt)
	}
	valueEnd := map[int]int{}
	var open []int
	for i, t := range s.toks {
		switch t.kind {
		case '{', '[':
			open = append(open, i)
		case '}', ']':
			valueEnd[open[len(open)-1]] = t.end
			open = open[:len(open)-1]
		case ',', ':':
		default:
			valueEnd[i] = t.end
		}
	}
	return s.toks, valueEnd
}

func c16Decoder(c *Ctx) {
	r := c.SubRng(200)
	fixed := []string{
		`{"a":{"b":1},"c":[2,{"d/e":null}]}`,
		`[[],{},[1,[2,[3]]],"x"] {"~":"/"}`,
		` {"m~n": [ true , false ] , "": {"éx": "é"} } `,
		`1 "a" null [1] {"k":2}`,
		`{"a":{"b":{"c":{"d":[{"e":1}]}}}}`,
	}
	L := c.N(5, 6)
	ndocs := c.N(30, 120)
	var docs []string
	docs = append(docs, fixed...)
	for len(docs) < ndocs {
		d := c16genDoc(r, 3, r.IntN(3) > 0)
		if len(d) <= 48 {
			docs = append(docs, d)
		}
	}
	var wg sync.WaitGroup
	sem := make(chan struct{}, 4)
	for _, d := range docs {
		doc := []byte(d)
		toks, valueEnd := c16tokenTable(doc)
		c.Hit(fmt.Sprintf("dec/doc-tokens-%d", len(toks)/8*8))
		wg.Add(1)
		sem <- struct{}{}
		go func() {
			defer wg.Done()
			defer func() { <-sem }()
			// exhaustive scripts up to length L
			script := make([]int, 0, L)
			var rec func()
			rec = func() {
				if len(script) == L {
					c16runDecScript(c, doc, script, toks, valueEnd, (len(doc)+script[0])%2, 1+2*(script[1]%2), (len(doc)+script[2]+4*script[3])%c16nAges)
					c.Case("dec:"+d+fmt.Sprint(script), true)
					return
				}
				for o := 0; o < 4; o++ {
					script = append(script, o)
					rec()
					script = script[:len(script)-1]
				}
			}
			rec()
		}()
	}
	wg.Wait()
	// random longer scripts on larger documents
	nbig := c.N(6000, 200000)
	for i := 0; i < nbig; i++ {
		d := c16genDoc(r, 6, true)
		doc := []byte(d)
		toks, valueEnd := c16tokenTable(doc)
		n := 1 + r.IntN(len(toks)+2)
		script := make([]int, n)
		for j := range script {
			script[j] = []int{0, 0, 0, 0, 1, 2, 3}[r.IntN(7)]
		}
		rd := []int{0, 1, 2, 4, 8, 65}[r.IntN(6)]
		pe := []int{1, 2, 5, 1000}[r.IntN(4)]
		age := 0
		if r.IntN(2) == 0 {
			age = r.IntN(c16nAges)
		}
		c16runDecScript(c, doc, script, toks, valueEnd, rd, pe, age)
		c.Hit(fmt.Sprintf("dec/reset-after-history-%d", age))
		c.Hit(fmt.Sprintf("dec/probe-every-%d", pe))
		c.Hit(fmt.Sprintf("dec/reader-kind-%d", rd))
		c.Hit(fmt.Sprintf("dec/random-doc-bytes-%d", len(doc)/64*64))
		c.Case("decR:"+d+fmt.Sprint(script), true)
		if i < 2 {
			c.Sample(map[string]any{"part": "decoder-script", "doc": trunc(d, 120), "script_len": n})
		}
	}
}

// ---------------------------------------------------------------------------------------------
// (b) Encoder positions
// ---------------------------------------------------------------------------------------------

type c16plainWriter struct{ data []byte }

func (w *c16plainWriter) Write(p []byte) (int, error) { w.data = append(w.data, p...); return len(p), nil }

type c16encOp struct {
	name string
	tok  *jsontext.Token
	val  string
}

func c16encAlphabet() []c16encOp {
	t := func(name string, tk jsontext.Token) c16encOp { return c16encOp{name: name, tok: &tk} }
	return []c16encOp{
		t("null", jsontext.Null), t("1", jsontext.Int(1)), t(`"a"`, jsontext.String("a")), t(`"a/b~"`, jsontext.String("a/b~")),
		t(`"b"`, jsontext.String("b")),
		t("{", jsontext.BeginObject), t("}", jsontext.EndObject), t("[", jsontext.BeginArray), t("]", jsontext.EndArray),
		{name: `V{"k":[1,{"~":2}]}`, val: `{"k":[1,{"~":2}]}`}, {name: `V"s"`, val: `"s"`}, {name: `V[ ]`, val: `[ ]`},
		{name: `V{"a":1,"a":2}`, val: `{"a":1,"a":2}`}, {name: `V[1,`, val: `[1,`},
	}
}

// Writer states a caller can legally hand over:
//   0 empty *bytes.Buffer          1 plain io.Writer
//   2 *bytes.Buffer already holding foreign bytes (appending NDJSON records)
//   3 *bytes.Buffer drained by the caller between top-level values (Next / Reset / Truncate in turn)
//   4 pre-filled and partially drained between top-level values
const c16nWriterModes = 5

var c16writerModeNames = []string{"bytes.Buffer", "plain", "bytes.Buffer-prefilled", "bytes.Buffer-drained", "bytes.Buffer-prefilled-drained"}

// Encoder histories before Reset: 1 short value → bytes.Buffer, 2 ~200 B → plain, 3 >4 KiB → bytes.Buffer,
// 4 abandoned mid-value → plain, 5 ending in a rejected call → bytes.Buffer, 6 >4 KiB then mid-value → plain.
const c16nEncAges = 7

func c16agedEncoder(age int, w io.Writer, opts []jsontext.Options) *jsontext.Encoder {
	if age == 0 {
		return jsontext.NewEncoder(w, opts...)
	}
	var hw io.Writer
	if age%2 == 1 {
		hw = bytes.NewBufferString("old bytes\n")
	} else {
		hw = &c16plainWriter{}
	}
	enc := jsontext.NewEncoder(hw)
	switch age {
	case 1:
		enc.WriteToken(jsontext.Int(1))
	case 2:
		enc.WriteValue(jsontext.Value(`{"k":"` + strings.Repeat("v", 200) + `"}`))
	case 3:
		enc.WriteToken(jsontext.String(strings.Repeat("x", 6000)))
		enc.WriteToken(jsontext.Null)
	case 4:
		enc.WriteToken(jsontext.BeginArray)
		enc.WriteToken(jsontext.BeginObject)
		enc.WriteToken(jsontext.String("name"))
	case 5:
		enc.WriteToken(jsontext.BeginArray)
		enc.WriteToken(jsontext.EndObject)
	case 6:
		enc.WriteToken(jsontext.BeginArray)
		enc.WriteToken(jsontext.String(strings.Repeat("y", 9000)))
		enc.WriteToken(jsontext.BeginObject)
	}
	enc.Reset(w, opts...)
	return enc
}

func c16runEncScript(c *Ctx, script []c16encOp, wmode, age int, opts []jsontext.Options, optName string) {
	export := jsontext.Internal.Export(&internal.AllowInternalUse)
	var bb bytes.Buffer
	pw := &c16plainWriter{}
	plain := wmode == 1
	foreignLeft := 0 // foreign bytes still at the front of bb
	if wmode == 2 || wmode == 4 {
		foreign := strings.Repeat(`{"earlier":"record"}`+"\n", 1+len(script)%7)
		bb.WriteString(foreign)
		foreignLeft = len(foreign)
	}
	var collected []byte // bytes of THIS encoder that the caller already drained from bb
	var enc *jsontext.Encoder
	if pn := guard(func() {
		if plain {
			enc = c16agedEncoder(age, pw, opts)
		} else {
			enc = c16agedEncoder(age, &bb, opts)
		}
	}); pn != nil {
		c.Panic("Encoder/Reset", []byte(optName), pn, map[string]any{"age": age})
		return
	}
	var trace []string
	id := []byte(optName)
	for ci, op := range script {
		trace = append(trace, op.name)
		var err error
		pn := guard(func() {
			if op.tok != nil {
				err = enc.WriteToken(*op.tok)
			} else {
				err = enc.WriteValue(jsontext.Value(op.val))
			}
		})
		detail := map[string]any{"script": strings.Join(trace, " "), "writer": c16writerModeNames[wmode], "opts": optName, "reset_after_history": age}
		in := append(append([]byte{}, id...), []byte(" "+strings.Join(trace, " "))...)
		if pn != nil {
			c.Panic("Encoder/Write", in, pn, detail)
			return
		}
		var produced []byte
		var off int64
		if pn := guard(func() {
			off = enc.OutputOffset()
			if plain {
				produced = append(append([]byte{}, pw.data...), export.Encoder(enc).Buf...)
			} else {
				produced = append(append(append([]byte{}, collected...), bb.Bytes()[foreignLeft:]...), export.Encoder(enc).Buf...)
			}
		}); pn != nil {
			c.Panic("Encoder/OutputOffset", in, pn, detail)
			return
		}
		if err != nil {
			detail["rejected"] = err.Error()
			c.Hit("enc/rejected-call")
		}
		opn := "WriteToken"
		if op.tok == nil {
			opn = "WriteValue"
		}
		if !c16comparePositions(c, "Encoder", opn, enc, off, produced, in, detail) {
			return
		}
		// the caller drains the buffer between top-level values (everything is flushed then)
		if (wmode == 3 || wmode == 4) && enc.StackDepth() == 0 && len(export.Encoder(enc).Buf) == 0 && bb.Len() > 0 {
			k := bb.Len()
			if wmode == 4 {
				k = 1 + (ci*7+len(script))%bb.Len() // partial
			}
			var got []byte
			switch (ci + len(script)) % 3 {
			case 0:
				got = append(got, bb.Next(k)...)
			case 1:
				if k == bb.Len() {
					got = append(got, bb.Bytes()...)
					bb.Reset()
				} else {
					got = append(got, bb.Next(k)...)
				}
			default:
				if k == bb.Len() {
					got = append(got, bb.Bytes()...)
					bb.Truncate(0)
				} else {
					got = append(got, bb.Next(k)...)
				}
			}
			f := min(foreignLeft, len(got))
			foreignLeft -= f
			collected = append(collected, got[f:]...)
			c.Hit("enc/caller-drained-buffer")
		}
	}
}

func c16Encoder(c *Ctx) {
	alpha := c16encAlphabet()
	L := c.N(4, 5)
	optSets := []struct {
		name string
		opts []jsontext.Options
	}{
		{"default", nil},
		{"multiline", []jsontext.Options{jsontext.Multiline(true)}},
		{"spaces", []jsontext.Options{jsontext.SpaceAfterColon(true), jsontext.SpaceAfterComma(true)}},
	}
	var wg sync.WaitGroup
	sem := make(chan struct{}, 4)
	for first := range alpha {
		wg.Add(1)
		sem <- struct{}{}
		go func() {
			defer wg.Done()
			defer func() { <-sem }()
			script := []c16encOp{alpha[first]}
			var rec func()
			rec = func() {
				if len(script) == L {
					// rotate writers/options deterministically over scripts
					h := 0
					for _, o := range script {
						h = h*31 + len(o.name) + int(o.name[0])
					}
					os := optSets[h%len(optSets)]
					c16runEncScript(c, script, h%c16nWriterModes, (h/5)%c16nEncAges, os.opts, os.name)
					c.Case("enc:"+fmt.Sprint(h, len(script))+script[0].name+script[1].name+script[2].name+script[len(script)-1].name, true)
					return
				}
				for _, o := range alpha {
					script = append(script, o)
					rec()
					script = script[:len(script)-1]
				}
			}
			rec()
		}()
	}
	wg.Wait()
	// random long scripts biased towards accepted calls, large enough to cross the flush thresholds
	r := c.SubRng(300)
	n := c.N(400, 20000)
	for i := 0; i < n; i++ {
		ln := 5 + r.IntN(60)
		var script []c16encOp
		var stack []byte
		cnt := []int{0}
		for j := 0; j < ln; j++ {
			inObj := len(stack) > 0 && stack[len(stack)-1] == '{'
			needName := inObj && cnt[len(cnt)-1]%2 == 0
			var op c16encOp
			if r.IntN(12) == 0 {
				op = alpha[r.IntN(len(alpha))] // possibly rejected
				script = append(script, op)
				continue
			}
			switch {
			case needName && r.IntN(4) > 0:
				nm := c16names[r.IntN(len(c16names))] + strconv.Itoa(cnt[len(cnt)-1])
				if strings.Contains(nm, `\`) {
					nm = "n" + strconv.Itoa(cnt[len(cnt)-1])
				}
				if r.IntN(10) == 0 {
					nm += strings.Repeat("x", 100+r.IntN(5000))
				}
				tk := jsontext.String(nm)
				op = c16encOp{name: `"` + trunc(nm, 20) + `"`, tok: &tk}
				cnt[len(cnt)-1]++
			case needName:
				tk := jsontext.EndObject
				op = c16encOp{name: "}", tok: &tk}
				stack = stack[:len(stack)-1]
				cnt = cnt[:len(cnt)-1]
			default:
				k := r.IntN(7)
				switch {
				case k <= 1:
					tk := jsontext.Int(int64(r.IntN(1000)))
					op = c16encOp{name: "n", tok: &tk}
					cnt[len(cnt)-1]++
				case k == 2:
					tk := jsontext.String(strings.Repeat("s", r.IntN(300)))
					op = c16encOp{name: "str", tok: &tk}
					cnt[len(cnt)-1]++
				case k == 3:
					tk := jsontext.BeginObject
					op = c16encOp{name: "{", tok: &tk}
					cnt[len(cnt)-1]++
					stack = append(stack, '{')
					cnt = append(cnt, 0)
				case k == 4:
					tk := jsontext.BeginArray
					op = c16encOp{name: "[", tok: &tk}
					cnt[len(cnt)-1]++
					stack = append(stack, '[')
					cnt = append(cnt, 0)
				case k == 5 && len(stack) > 0 && stack[len(stack)-1] == '[':
					tk := jsontext.EndArray
					op = c16encOp{name: "]", tok: &tk}
					stack = stack[:len(stack)-1]
					cnt = cnt[:len(cnt)-1]
				default:
					v := c16genValue(r, 0, 3, true)
					op = c16encOp{name: "V" + trunc(v, 16), val: v}
					cnt[len(cnt)-1]++
				}
			}
			script = append(script, op)
		}
		os := optSets[r.IntN(len(optSets))]
		wm, ea := r.IntN(c16nWriterModes), 0
		if r.IntN(2) == 0 {
			ea = r.IntN(c16nEncAges)
		}
		c16runEncScript(c, script, wm, ea, os.opts, os.name)
		c.Hit("enc/writer-" + c16writerModeNames[wm])
		c.Hit(fmt.Sprintf("enc/reset-after-history-%d", ea))
		c.Hit(fmt.Sprintf("enc/random-script-len-%d", ln/16*16))
		c.Case(fmt.Sprint("encR:", i), true)
	}
}

// ---------------------------------------------------------------------------------------------
// (c) rejected inputs
// ---------------------------------------------------------------------------------------------

func c16mutate(r *rand.Rand, doc []byte) ([]byte, string) {
	s := c16run(doc, false, true)
	toks := s.toks
	b := append([]byte(nil), doc...)
	alphabet := []byte("{}[],:\"\\/u0179-+.eEntfa \n\x00\x1f\x7f\x80\xc2\xe0\xed\xef\xf0\xf4\xff")
	pickTok := func(pred func(t c16tok) bool) (c16tok, bool) {
		var cand []c16tok
		for _, t := range toks {
			if pred(t) {
				cand = append(cand, t)
			}
		}
		if len(cand) == 0 {
			return c16tok{}, false
		}
		return cand[r.IntN(len(cand))], true
	}
	splice := func(start, end int, repl string) []byte {
		return append(append(append([]byte{}, b[:start]...), repl...), b[end:]...)
	}
	for try := 0; try < 8; try++ {
		switch k := r.IntN(14); k {
		case 0:
			if len(b) > 0 {
				i := r.IntN(len(b))
				return splice(i, i+1, ""), "delete-byte"
			}
		case 1:
			i := r.IntN(len(b) + 1)
			return splice(i, i, string(alphabet[r.IntN(len(alphabet))])), "insert-byte"
		case 2:
			if len(b) > 0 {
				i := r.IntN(len(b))
				return splice(i, i+1, string(alphabet[r.IntN(len(alphabet))])), "replace-byte"
			}
		case 3:
			if len(b) > 1 {
				return b[:1+r.IntN(len(b)-1)], "truncate"
			}
		case 4: // mismatched closing delimiter, preferably deep
			if t, ok := pickTok(func(t c16tok) bool { return (t.kind == '}' || t.kind == ']') && t.depth >= 2 }); ok {
				return splice(t.start, t.end, map[byte]string{'}': "]", ']': "}"}[t.kind]), "mismatch-delim-deep"
			}
			if t, ok := pickTok(func(t c16tok) bool { return t.kind == '}' || t.kind == ']' }); ok {
				return splice(t.start, t.end, map[byte]string{'}': "]", ']': "}"}[t.kind]), "mismatch-delim"
			}
		case 5: // missing value
			if t, ok := pickTok(func(t c16tok) bool { return !t.isName && strings.ContainsRune(`"0l`, rune(t.kind)) && t.depth >= 1 }); ok {
				return splice(t.start, t.end, ""), "missing-value"
			}
		case 6:
			if t, ok := pickTok(func(t c16tok) bool { return t.kind == ':' }); ok {
				return splice(t.start, t.end, []string{"", " ", ",", "::"}[r.IntN(4)]), "bad-colon"
			}
		case 7:
			if t, ok := pickTok(func(t c16tok) bool { return t.kind == ',' }); ok {
				return splice(t.start, t.end, []string{"", " ", ":", ",,"}[r.IntN(4)]), "bad-comma"
			}
		case 8:
			if t, ok := pickTok(func(t c16tok) bool { return t.kind == 'l' || t.kind == '0' }); ok {
				return splice(t.start, t.end, []string{"tru", "nul", "falsy", "nulL", "True", "01", "1.", "-", "1e", ".5", "+1", "1.e2", "0x1", "NaN"}[r.IntN(14)]), "bad-literal"
			}
		case 9:
			if t, ok := pickTok(func(t c16tok) bool { return t.kind == '"' }); ok {
				bad := []string{`\x`, `\u12G4`, `\uD800`, `\uD800\n`, `\uD800A`, `\uDC00`, `\u12`, `\`, "\x01", "\n", `\uD83D\uDE0`, `\ud83d\u`}[r.IntN(12)]
				i := t.start + 1 + r.IntN(t.end-t.start-1)
				return splice(i, i, bad), "bad-escape"
			}
		case 10:
			if t, ok := pickTok(func(t c16tok) bool { return t.kind == '"' }); ok {
				bad := []string{"\xff", "\xc3", "\xe2\x82", "\xed\xa0\x80", "\xf4\x90\x80\x80", "\xc0\xaf", "\x80"}[r.IntN(7)]
				i := t.start + 1 + r.IntN(t.end-t.start-1)
				return splice(i, i, bad), "invalid-utf8"
			}
		case 11, 12: // duplicate name, preferably deep: re-insert an existing member name of the same object
			if t, ok := pickTok(func(t c16tok) bool { return t.isName && t.depth >= 2 }); ok || r.IntN(2) == 0 {
				if !ok {
					if t, ok = pickTok(func(t c16tok) bool { return t.isName }); !ok {
						continue
					}
				}
				// find the closing token of the object containing t
				depth := 0
				for _, u := range toks {
					if u.start <= t.start {
						continue
					}
					if u.kind == '{' || u.kind == '[' {
						depth++
					}
					if u.kind == '}' || u.kind == ']' {
						if depth == 0 {
							name := string(b[t.start:t.end])
							if r.IntN(3) == 0 && len(name) > 2 && name[1] != '\\' && name[1] < 0x80 {
								name = fmt.Sprintf(`"\u%04x%s`, name[1], name[2:]) // respelled
							}
							return splice(u.start, u.start, ","+name+":0"), "duplicate-name"
						}
						depth--
					}
				}
			}
		case 13:
			if t, ok := pickTok(func(t c16tok) bool { return t.isName }); ok {
				return splice(t.start, t.end, []string{"1", "null", "{}", "[]", "a"}[r.IntN(5)]), "non-string-name"
			}
		}
	}
	return b[:len(b)/2], "truncate"
}

type c16errInfo struct {
	ok      bool // a *jsontext.SyntacticError was found
	offset  int64
	pointer string
	isDup   bool
	isEOF   bool
	text    string
}

func c16classify(err error) c16errInfo {
	var se *jsontext.SyntacticError
	if errors.As(err, &se) {
		return c16errInfo{ok: true, offset: se.ByteOffset, pointer: string(se.JSONPointer), isDup: se.Err == jsontext.ErrDuplicateName,
			isEOF: se.Err == io.ErrUnexpectedEOF, text: err.Error()}
	}
	return c16errInfo{text: fmt.Sprint(err)}
}

// c16checkRejected evaluates the error-location predicate for one path.
func c16checkRejected(c *Ctx, path string, in []byte, s *c16scan, err error, mut string) (c16errInfo, bool) {
	detail := map[string]any{"input": string(in), "mutation": mut, "path": path}
	if err == nil || err == io.EOF {
		detail["err"] = fmt.Sprint(err)
		c.Violate("invalid-text-accepted", path, in, detail)
		return c16errInfo{}, false
	}
	ei := c16classify(err)
	detail["err"] = ei.text
	if !ei.ok {
		if errors.Is(err, io.ErrUnexpectedEOF) {
			c.Hit("rej/" + path + "/bare-unexpected-EOF")
			if s.breakAt >= 0 {
				c.Violate("eof-error-on-broken-text", path, in, detail)
			}
			return ei, false
		}
		c.Violate("not-a-syntactic-error", path, in, detail)
		return ei, false
	}
	detail["ByteOffset"], detail["JSONPointer"] = ei.offset, ei.pointer
	// offset: viable prefix, and the offending token starts at or contains it
	lo, hi := 0, 0
	if s.breakAt >= 0 {
		lo, hi = s.breakTok, s.breakAt
	} else {
		hi = len(in)
		if s.tokStart >= 0 {
			lo = s.tokStart
		} else {
			lo = s.lastEnd // only white space / delimiters follow the last complete token
		}
	}
	detail["offset_lo"], detail["offset_hi"] = lo, hi
	if int(ei.offset) > hi {
		// sub-class: a non-string token where a member name is expected is lexed (and its own syntax errors
		// reported) before the name requirement is checked
		if s.nameExpected && s.breakAt >= 0 && in[s.breakAt] != '"' {
			base, _, _ := strings.Cut(path, "/")
			c.Violate("error-offset-inside-malformed-nonstring-name", base, in, detail)
			return ei, false
		}
		c.Violate("error-offset-past-viable-prefix", path, in, detail)
		return ei, false
	}
	if int(ei.offset) < lo {
		if s.delimLast && int(ei.offset) == s.delimPos && s.breakAt >= 0 {
			// the delimiter directly before the offending token is blamed ("[1,]" → the comma): the text before it is
			// viable and the delimiter is half of the offending pair; counted, not a violation
			c.Hit("rej/" + path + "/offset-at-preceding-delimiter")
		} else {
			c.Violate("error-offset-before-offending-token", path, in, detail)
			return ei, false
		}
	}
	// pointer
	ptrC, acc := s.errorPointers()
	detail["ptr_C"], detail["acceptable"] = ptrC, acc
	if s.dup {
		want := ptrC + "/" + c16escTok(s.dupName)
		detail["acceptable"] = []string{want}
		if ei.pointer != want {
			c.Violate("duplicate-name-pointer", path, in, detail)
			return ei, false
		}
		return ei, true
	}
	for _, a := range acc {
		if ei.pointer == a {
			if a == ptrC {
				c.Hit("rej/" + path + "/pointer=container")
			} else {
				c.Hit("rej/" + path + "/pointer=container/next")
			}
			return ei, true
		}
	}
	// classify the miss: grandparent (or higher) vs something unrelated
	kind := "error-pointer-unrelated"
	if jsontext.Pointer(ei.pointer).Contains(jsontext.Pointer(ptrC)) {
		kind = "error-pointer-ancestor"
	} else if strings.HasPrefix(ei.pointer, ptrC+"/") {
		kind = "error-pointer-wrong-child"
	}
	c.Violate(kind, path, in, detail)
	return ei, false
}

func c16Rejected(c *Ctx) {
	n := c.N(160000, 3000000)
	workers := 4
	var wg sync.WaitGroup
	for w := 0; w < workers; w++ {
		wg.Add(1)
		go func(w int) {
			defer wg.Done()
			r := c.SubRng(uint64(400 + w))
			for i := 0; i < n/workers; i++ {
				doc := []byte(c16genDoc(r, 5, r.IntN(8) > 0))
				in, mut := c16mutate(r, doc)
				for k := r.IntN(3); k > 0 && r.IntN(4) == 0; k-- {
					in, _ = c16mutate(r, in) // a few double mutants
					mut += "+"
				}
				c16checkOne(c, r, in, mut)
			}
		}(w)
	}
	wg.Wait()
	// fixed seeds: the shapes named in the design
	for _, s := range []string{`{"a":{"b":1]}}`, `[[1,2}]`, `{"a":[{"b":1,"b":2}]}`, `{"a":{"b":}}`, `{"a":{"b" 1}}`, `[{"name":"abc`,
		`{"a":[1,2 3]}`, `{"x":{"y":[tru]}}`, `{"x":{"y":"\uD800"}}`, `{"x":{"y":"` + "\xff" + `"}}`, `[[[1]]`, `{"a":{"b":[1,2],"c":{"d":1]}}`} {
		c16checkOne(c, c.Rng, []byte(s), "fixed")
	}
}

func c16checkOne(c *Ctx, r *rand.Rand, in []byte, mut string) {
	sStream := c16run(in, false, false)
	sSingle := c16run(in, true, false)
	c.Hit("rej/mutation/" + strings.TrimRight(mut, "+"))
	depthB := len(sStream.frames) - 1
	if depthB > 4 {
		depthB = 4
	}
	nontrivial := false
	streamBad := !(sStream.breakAt < 0 && sStream.tokStart < 0 && sStream.complete)
	if streamBad {
		nontrivial = true
		c.Hit(fmt.Sprintf("rej/error-depth-%d", depthB))
		switch {
		case sStream.dup:
			c.Hit("rej/class/duplicate-name")
		case sStream.breakAt < 0:
			c.Hit("rej/class/truncated")
		default:
			c.Hit("rej/class/invalid")
		}
		// token path
		var err error
		var tokInfo, valInfo c16errInfo
		var tokOK, valOK bool
		dec := jsontext.NewDecoder(bytes.NewBuffer(append([]byte(nil), in...)))
		if pn := guard(func() {
			for {
				if _, err = dec.ReadToken(); err != nil {
					return
				}
			}
		}); pn != nil {
			c.Panic("token-path", in, pn, nil)
		} else {
			tokInfo, tokOK = c16checkRejected(c, "token-path", in, sStream, err, mut)
		}
		// value path
		dec = jsontext.NewDecoder(bytes.NewBuffer(append([]byte(nil), in...)))
		if pn := guard(func() {
			for {
				if _, err = dec.ReadValue(); err != nil {
					return
				}
			}
		}); pn != nil {
			c.Panic("value-path", in, pn, nil)
		} else {
			valInfo, valOK = c16checkRejected(c, "value-path", in, sStream, err, mut)
		}
		// value path fed from an io.Reader that is not a *bytes.Buffer (buffer refills happen): the location must not change
		dec = jsontext.NewDecoder(bytes.NewReader(in))
		if pn := guard(func() {
			for {
				if _, err = dec.ReadValue(); err != nil {
					return
				}
			}
		}); pn != nil {
			c.Panic("value-path/bytes.Reader", in, pn, nil)
		} else if rd := c16classify(err); valOK && rd.ok && (rd.pointer != valInfo.pointer || rd.offset != valInfo.offset) {
			c.Violate("error-location-depends-on-reader", "value-path/bytes.Reader", in, map[string]any{"input": string(in), "mutation": mut,
				"bytes.Buffer": map[string]any{"offset": valInfo.offset, "pointer": valInfo.pointer},
				"bytes.Reader": map[string]any{"offset": rd.offset, "pointer": rd.pointer, "err": rd.text}})
		}
		if tokOK && valOK {
			if tokInfo.offset != valInfo.offset {
				c.Hit("rej/token-vs-value/offset-differs")
			}
			if tokInfo.pointer != valInfo.pointer {
				c.Hit("rej/token-vs-value/pointer-differs-within-acceptable-set")
			} else {
				c.Hit("rej/token-vs-value/pointer-equal")
			}
		}
		// mixed path: k tokens, then values, then tokens again
		dec = jsontext.NewDecoder(bytes.NewBuffer(append([]byte(nil), in...)))
		k := r.IntN(8)
		if pn := guard(func() {
			for j := 0; ; j++ {
				if j < k || (j > k+1 && j%3 == 0) {
					_, err = dec.ReadToken()
				} else if j%5 == 4 {
					err = dec.SkipValue()
				} else {
					_, err = dec.ReadValue()
				}
				if err != nil {
					// a value call at a closing delimiter is a caller error, not a property of the text: take a token instead
					if kd := dec.PeekKind(); (kd == '}' || kd == ']') && int(dec.InputOffset()) < len(in) {
						var se *jsontext.SyntacticError
						if errors.As(err, &se) && se.Err != io.ErrUnexpectedEOF && !c16isMismatch(sStream, in, dec.InputOffset()) {
							if _, err = dec.ReadToken(); err == nil {
								continue
							}
						}
					}
					return
				}
			}
		}); pn != nil {
			c.Panic("mixed-path", in, pn, nil)
		} else {
			c16checkRejected(c, "mixed-path", in, sStream, err, mut)
		}
	}
	if !(sSingle.breakAt < 0 && sSingle.tokStart < 0 && sSingle.complete) {
		nontrivial = true
		var v any
		var err error
		if pn := guard(func() { err = json.Unmarshal(in, &v) }); pn != nil {
			c.Panic("Unmarshal-any", in, pn, nil)
		} else {
			c16checkRejected(c, "Unmarshal-any", in, sSingle, err, mut)
		}
	} else {
		c.Hit("rej/mutant-still-valid")
	}
	c.Case("rej:"+string(in), nontrivial)
}

func c16parent(p string) string {
	i := strings.LastIndexByte(p, '/')
	if i < 0 {
		return ""
	}
	return p[:i]
}

// c16isMismatch: is the closing delimiter that follows offset `off` the byte that breaks the text?
func c16isMismatch(s *c16scan, in []byte, off int64) bool {
	i := int(off)
	for i < len(in) && c16isWS(in[i]) {
		i++
	}
	return s.breakAt == i
}

// ---------------------------------------------------------------------------------------------
// (d) SemanticError location
// ---------------------------------------------------------------------------------------------

type c16semCase struct {
	typ     reflect.Type
	text    []byte
	pointer string
	offset  int
	shape   string
}

// c16genSem builds a type of nesting depth `depth` whose only leaf on the chosen path is an int
// (or bool/string) and a text in which exactly that leaf has the wrong JSON kind.
func c16genSem(r *rand.Rand, depth int) c16semCase { return c16genSemLeaf(r, depth, nil, "", "") }

// c16genSemLeaf: as c16genSem; with leafType != nil the faulty leaf has that type, siblings hold `leafGood`
// and the faulty position holds `leafBad`.
func c16genSemLeaf(r *rand.Rand, depth int, leafType reflect.Type, leafGood, leafBad string) c16semCase {
	// leaf
	type leafT struct {
		t    reflect.Type
		good string
		bad  []string
	}
	leaves := []leafT{
		{reflect.TypeOf(int(0)), "7", []string{`"str"`, `true`, `{}`, `[1]`, `1.5`, `300000000000000000000`}},
		{reflect.TypeOf(int8(0)), "7", []string{`"s"`, `128`, `-129`, `false`}},
		{reflect.TypeOf(uint(0)), "7", []string{`-1`, `"s"`, `[]`}},
		{reflect.TypeOf(false), "true", []string{`1`, `"true"`, `{}`}},
		{reflect.TypeOf(""), `"ok"`, []string{`1`, `true`, `[]`, `{"a":1}`}},
		{reflect.TypeOf(float64(0)), "1.5", []string{`"1"`, `false`}},
		{reflect.TypeOf([]int(nil)), "[1]", []string{`{}`, `"x"`, `1`}},
		{reflect.TypeOf(map[string]int(nil)), `{"q":1}`, []string{`[]`, `"x"`, `1`}},
	}
	lf := leaves[r.IntN(len(leaves))]
	typ := lf.t
	good := lf.good
	bad := lf.bad[r.IntN(len(lf.bad))]
	if leafType != nil {
		lf.t, typ, good, bad = leafType, leafType, leafGood, leafBad
	}
	// text pieces: prefix + bad + suffix, built inside out
	prefix, suffix := "", ""
	var path []string
	var shape []string
	goodOf := func(pre, suf string) string { return pre + good + suf }
	_ = goodOf
	sp := func() string { return []string{"", "", " ", "\n "}[r.IntN(4)] }
	for d := 0; d < depth; d++ {
		switch r.IntN(6) {
		case 0: // pointer
			typ = reflect.PointerTo(typ)
			shape = append(shape, "ptr")
		case 1: // slice, error at index k; siblings are good values of the element type
			k := r.IntN(3)
			after := r.IntN(2)
			var pre strings.Builder
			pre.WriteString("[" + sp())
			for i := 0; i < k; i++ {
				pre.WriteString(good + sp() + "," + sp())
			}
			var suf strings.Builder
			for i := 0; i < after; i++ {
				suf.WriteString(sp() + "," + sp() + good)
			}
			suf.WriteString(sp() + "]")
			good = "[" + good + "]"
			prefix, suffix = pre.String()+prefix, suffix+suf.String()
			// note: `good` for outer levels is a one-element list
			typ = reflect.SliceOf(typ)
			path = append(path, strconv.Itoa(k))
			shape = append(shape, "slice")
		case 2: // array of fixed length
			k := r.IntN(2)
			var pre strings.Builder
			pre.WriteString("[" + sp())
			for i := 0; i < k; i++ {
				pre.WriteString(good + "," + sp())
			}
			var suf strings.Builder
			for i := k + 1; i < 2; i++ {
				suf.WriteString(sp() + "," + good)
			}
			suf.WriteString("]")
			good = "[" + good + "," + good + "]"
			prefix, suffix = pre.String()+prefix, suffix+suf.String()
			typ = reflect.ArrayOf(2, typ)
			path = append(path, strconv.Itoa(k))
			shape = append(shape, "array")
		case 3: // map[string]T
			key := []string{"k", "a/b", "m~n", "", "é", "~0~1/"}[r.IntN(6)]
			g := good
			pre := "{" + sp()
			if r.IntN(2) == 0 {
				pre += `"other":` + g + "," + sp()
			}
			pre += strconv.Quote(key) + sp() + ":" + sp()
			suf := sp()
			if r.IntN(2) == 0 {
				suf += `,"zz":` + g
			}
			suf += "}"
			good = `{"g":` + g + "}"
			prefix, suffix = pre+prefix, suffix+suf
			typ = reflect.MapOf(reflect.TypeOf(""), typ)
			path = append(path, key)
			shape = append(shape, "map")
		default: // struct with the faulty field X (JSON name possibly needing escapes) between two int fields
			jname := []string{"X", "x/y", "t~u", "fld", "é"}[r.IntN(5)]
			tag := `json:"` + jname + `"`
			fields := []reflect.StructField{
				{Name: "A", Type: reflect.TypeOf(0), Tag: `json:"A"`},
				{Name: "X", Type: typ, Tag: reflect.StructTag(tag)},
				{Name: "Z", Type: reflect.TypeOf(""), Tag: `json:"Z"`},
			}
			g := good
			pre := "{" + sp()
			if r.IntN(2) == 0 {
				pre += `"A":1,` + sp()
			}
			pre += strconv.Quote(jname) + sp() + ":" + sp()
			suf := sp()
			if r.IntN(2) == 0 {
				suf += `,"Z":"z"`
			}
			suf += sp() + "}"
			good = "{" + strconv.Quote(jname) + ":" + g + "}"
			prefix, suffix = pre+prefix, suffix+suf
			typ = reflect.StructOf(fields)
			path = append(path, jname)
			shape = append(shape, "struct")
		}
	}
	lead := sp()
	text := lead + prefix + bad + suffix + sp()
	var ptr strings.Builder
	for i := len(path) - 1; i >= 0; i-- {
		ptr.WriteString("/" + c16escTok([]byte(path[i])))
	}
	return c16semCase{typ: typ, text: []byte(text), pointer: ptr.String(), offset: len(lead) + len(prefix), shape: strings.Join(shape, ">") + ":" + lf.t.String() + "<-" + bad}
}

func c16Semantic(c *Ctx) {
	r := c.SubRng(500)
	n := c.N(60000, 1000000)
	for i := 0; i < n; i++ {
		depth := r.IntN(7)
		sc := c16genSem(r, depth)
		// sanity: the text is valid JSON (one value) and the good variant unmarshals
		if s := c16run(sc.text, true, false); s.breakAt >= 0 || !s.complete {
			fail("c16: semantic generator produced invalid JSON %q", sc.text)
		}
		target := reflect.New(sc.typ)
		var err error
		if pn := guard(func() { err = json.Unmarshal(sc.text, target.Interface()) }); pn != nil {
			c.Panic("Unmarshal-typed", sc.text, pn, map[string]any{"type": sc.typ.String()})
			continue
		}
		detail := map[string]any{"type": sc.typ.String(), "text": string(sc.text), "want_pointer": sc.pointer, "want_offset": sc.offset}
		c.Hit(fmt.Sprintf("sem/depth-%d", depth))
		c.Case("sem:"+sc.typ.String()+string(sc.text), depth >= 1)
		if i < 3 {
			c.Sample(map[string]any{"part": "semantic", "type": trunc(sc.typ.String(), 100), "text": trunc(string(sc.text), 100), "pointer": sc.pointer, "offset": sc.offset})
		}
		if err == nil {
			c.Violate("conversion-error-missing", "Unmarshal-typed", sc.text, detail)
			continue
		}
		var se *json.SemanticError
		if !errors.As(err, &se) {
			detail["err"] = err.Error()
			c.Violate("not-a-semantic-error", "Unmarshal-typed", sc.text, detail)
			continue
		}
		detail["err"], detail["JSONPointer"], detail["ByteOffset"] = err.Error(), string(se.JSONPointer), se.ByteOffset
		if string(se.JSONPointer) != sc.pointer {
			c.Violate("semantic-pointer-mismatch", "Unmarshal-typed", sc.text, detail)
			continue
		}
		if int(se.ByteOffset) != sc.offset {
			c.Violate("semantic-offset-mismatch", "Unmarshal-typed", sc.text, detail)
		}
	}
}

// ---------------------------------------------------------------------------------------------
// (f) tie of the errors.go model: real SyntacticError.JSONPointer vs `ptr errptr`
// ---------------------------------------------------------------------------------------------

// names that need '/', '~', both, neither, multi-byte and ill-formed UTF-8 (none needs JSON escaping)
var c16errNames = []string{"a", "k", "a/b", "/", "//x", "x/y/z", "~", "m~n", "~/", "/~", "a/b~c", "~0", "~1", "~01", "é/", "é", "😀/~",
	"\xff", "a\xffb/", "\xc3/~", "\xed\xa0\x80/", "", "0", "10"}

type c16hist struct {
	syms  []string   // oracle tokens
	text  []byte     // the JSON text of the history
	stack []byte     // open containers
	cnt   []int      // tokens per level (level 0 = top)
	names [][]string // names used in each open object
	bad   bool       // some name is ill-formed UTF-8
}

func (h *c16hist) sep() {
	top := h.cnt[len(h.cnt)-1]
	switch {
	case len(h.stack) == 0:
		if top > 0 {
			h.text = append(h.text, ' ')
		}
	case h.stack[len(h.stack)-1] == '{' && top%2 == 1:
		h.text = append(h.text, ':')
	case top > 0:
		h.text = append(h.text, ',')
	}
}

func c16genHist(r *rand.Rand, steps int) *c16hist {
	h := &c16hist{cnt: []int{0}}
	for j := 0; j < steps; j++ {
		inObj := len(h.stack) > 0 && h.stack[len(h.stack)-1] == '{'
		needName := inObj && h.cnt[len(h.cnt)-1]%2 == 0
		k := r.IntN(9)
		switch {
		case needName && k < 7:
			var nm string
			ok := false
			for try := 0; try < 5 && !ok; try++ {
				nm = c16errNames[r.IntN(len(c16errNames))]
				ok = true
				for _, u := range h.names[len(h.names)-1] {
					if u == nm {
						ok = false
					}
				}
			}
			if !ok {
				continue
			}
			h.sep()
			h.text = append(append(append(h.text, '"'), nm...), '"')
			h.syms = append(h.syms, "s"+hx([]byte(nm)))
			h.names[len(h.names)-1] = append(h.names[len(h.names)-1], nm)
			h.cnt[len(h.cnt)-1]++
			h.bad = h.bad || !utf8.ValidString(nm)
		case needName:
			h.text = append(h.text, '}')
			h.syms = append(h.syms, "}")
			h.stack, h.cnt, h.names = h.stack[:len(h.stack)-1], h.cnt[:len(h.cnt)-1], h.names[:len(h.names)-1]
		case k <= 1:
			h.sep()
			h.text = append(h.text, []string{"null", "1", "-2.5e3", "true"}[r.IntN(4)]...)
			h.syms = append(h.syms, "l")
			h.cnt[len(h.cnt)-1]++
		case k == 2:
			h.sep()
			h.text = append(h.text, `"v/~"`...)
			h.syms = append(h.syms, "s"+hx([]byte("v/~")))
			h.cnt[len(h.cnt)-1]++
		case k <= 5:
			h.sep()
			h.text = append(h.text, '{')
			h.syms = append(h.syms, "{")
			h.cnt[len(h.cnt)-1]++
			h.stack, h.cnt, h.names = append(h.stack, '{'), append(h.cnt, 0), append(h.names, nil)
		case k <= 7:
			h.sep()
			h.text = append(h.text, '[')
			h.syms = append(h.syms, "[")
			h.cnt[len(h.cnt)-1]++
			h.stack, h.cnt, h.names = append(h.stack, '['), append(h.cnt, 0), append(h.names, nil)
		default:
			if len(h.stack) > 0 && h.stack[len(h.stack)-1] == '[' {
				h.text = append(h.text, ']')
				h.syms = append(h.syms, "]")
				h.stack, h.cnt, h.names = h.stack[:len(h.stack)-1], h.cnt[:len(h.cnt)-1], h.names[:len(h.names)-1]
			}
		}
	}
	return h
}

func c16ErrPointerTie(c *Ctx) {
	or := c.NewOracle()
	if or == nil {
		c.Note("no oracle: errors.go tie skipped")
		return
	}
	r := c.SubRng(700)
	n := c.N(12000, 300000)
	var lines, want, what []string
	var inputs [][]byte
	add := func(line string, ptr jsontext.Pointer, kind string, in []byte) {
		lines, want, what, inputs = append(lines, line), append(want, hx([]byte(ptr))), append(what, kind), append(inputs, in)
	}
	errPtr := func(kind string, in []byte, err error) (jsontext.Pointer, bool) {
		var se *jsontext.SyntacticError
		if !errors.As(err, &se) {
			c.Violate("not-a-syntactic-error", "errptr/"+kind, in, map[string]any{"input": string(in), "err": fmt.Sprint(err)})
			return "", false
		}
		return se.JSONPointer, true
	}
	for i := 0; i < n; i++ {
		h := c16genHist(r, r.IntN(12))
		hs := strings.Join(h.syms, " ")
		opts := []jsontext.Options{jsontext.AllowInvalidUTF8(true)}
		top := h.cnt[len(h.cnt)-1]
		inObj := len(h.stack) > 0 && h.stack[len(h.stack)-1] == '{'
		inArr := len(h.stack) > 0 && h.stack[len(h.stack)-1] == '['
		readHist := func(in []byte) (*jsontext.Decoder, bool) {
			dec := jsontext.NewDecoder(bytes.NewBuffer(append([]byte(nil), in...)), opts...)
			for range h.syms {
				if _, err := dec.ReadToken(); err != nil {
					fail("c16: history text %q rejected: %v", in, err)
				}
			}
			return dec, true
		}
		switch kind := r.IntN(4); {
		case kind == 0 && (inArr || (inObj && top%2 == 0) || len(h.stack) == 0):
			// mismatched closing delimiter through ReadToken
			closer := byte(']')
			if inArr {
				closer = '}'
			}
			in := append(append([]byte(nil), h.text...), closer)
			var err error
			if pn := guard(func() { dec, _ := readHist(in); _, err = dec.ReadToken() }); pn != nil {
				c.Panic("errptr/mismatch", in, pn, nil)
				continue
			}
			if p, ok := errPtr("mismatch", in, err); ok {
				add(strings.TrimSpace("ptr errptr 1 1 "+hs)+" |", p, "mismatch", in)
			}
		case kind == 1 && inObj && top%2 == 0 && top >= 2:
			// duplicate name through ReadToken
			nm := h.names[len(h.names)-1][r.IntN(len(h.names[len(h.names)-1]))]
			in := append(append(append(append([]byte(nil), h.text...), `,"`...), nm...), '"')
			var err error
			if pn := guard(func() { dec, _ := readHist(in); _, err = dec.ReadToken() }); pn != nil {
				c.Panic("errptr/duplicate", in, pn, nil)
				continue
			}
			if p, ok := errPtr("duplicate", in, err); ok {
				add(strings.TrimSpace("ptr errptr 1 0 "+hs)+" | n"+hx([]byte(nm)), p, "duplicate", in)
			}
		case !(inObj && top%2 == 0):
			// an error nested inside a value: ReadValue and WriteValue
			depth := r.IntN(5)
			var refs []string
			var open, closeT []byte
			bad := h.bad
			for d := 0; d < depth; d++ {
				if r.IntN(2) == 0 {
					nm := c16errNames[r.IntN(len(c16errNames))]
					bad = bad || !utf8.ValidString(nm)
					refs = append(refs, "n"+hx([]byte(nm)))
					if r.IntN(2) == 0 && nm != "pre" {
						open = append(open, `{"pre":0,"`...)
					} else {
						open = append(open, `{"`...)
					}
					open = append(append(open, nm...), `":`...)
					closeT = append([]byte("}"), closeT...)
				} else {
					idx := r.IntN(4)
					refs = append(refs, "i"+strconv.Itoa(idx))
					open = append(open, '[')
					for z := 0; z < idx; z++ {
						open = append(open, "0,"...)
					}
					closeT = append([]byte("]"), closeT...)
				}
			}
			var inner []byte
			variant := "nested-dup"
			if r.IntN(2) == 0 {
				nm := c16errNames[r.IntN(len(c16errNames))]
				bad = bad || !utf8.ValidString(nm)
				inner = []byte(`{"` + nm + `":1,"q":2,"` + nm + `":3}`)
				refs = append(refs, "n"+hx([]byte(nm)))
			} else {
				variant = "nested-invalid"
				inner = []byte(`?`)
				if depth == 0 {
					continue // the value itself is bad: that is the plain token-path case
				}
			}
			val := append(append(append([]byte(nil), open...), inner...), closeT...)
			hh := *h
			hh.text = append([]byte(nil), h.text...)
			hh.sep()
			in := append(hh.text, val...)
			var err error
			if pn := guard(func() { dec, _ := readHist(in); _, err = dec.ReadValue() }); pn != nil {
				c.Panic("errptr/"+variant, in, pn, nil)
				continue
			}
			line := strings.TrimSpace("ptr errptr 1 0 "+hs) + " | " + strings.Join(refs, " ")
			if p, ok := errPtr(variant+"/ReadValue", in, err); ok {
				add(line, p, variant+"/ReadValue", in)
			}
			// the same through an Encoder: history by WriteValue of each token's text is awkward; replay tokens
			if !bad {
				var buf bytes.Buffer
				enc := jsontext.NewEncoder(&buf)
				okHist := true
				if pn := guard(func() {
					d2 := jsontext.NewDecoder(bytes.NewReader(h.text))
					for range h.syms {
						tk, e := d2.ReadToken()
						if e != nil || enc.WriteToken(tk) != nil {
							okHist = false
							return
						}
					}
					err = enc.WriteValue(jsontext.Value(val))
				}); pn != nil {
					c.Panic("errptr/"+variant+"/WriteValue", in, pn, nil)
					continue
				}
				if okHist {
					if p, ok := errPtr(variant+"/WriteValue", in, err); ok {
						add(line, p, variant+"/WriteValue", in)
					}
				}
			}
		default:
			continue
		}
		c.Case("errptr:"+hs+fmt.Sprint(i%7), true)
	}
	ans := or.Ask(lines)
	for i := range lines {
		c.Hit("errptr/" + what[i])
		if ans[i] != want[i] {
			c.Violate("corr-errptr", what[i], inputs[i], map[string]any{"line": lines[i], "input": string(inputs[i]), "impl": string(unhx(want[i])), "model": string(unhx(ans[i]))})
		}
	}
}

// ---------------------------------------------------------------------------------------------
// (g) user-defined unmarshalers: SemanticError.ByteOffset must be consistent with JSONPointer
// ---------------------------------------------------------------------------------------------

// Control of the user-defined unmarshalers below (this part runs in one goroutine).
var (
	c16uMode   int    // 0 fail before reading anything, 1 after PeekKind, 2 after one ReadToken, 3 after two, 4 after the whole value
	c16uFailAt int64  // decoder-taking forms fail for the value that starts after this InputOffset …
	c16uMarker []byte // … []byte-taking forms for the value with exactly these bytes
	c16uCalls  int    // how often the failing branch ran
)

var errC16Boom = errors.New("c16 user unmarshaler refuses the value")

func c16uFrom(dec *jsontext.Decoder) error {
	if dec.InputOffset() != c16uFailAt {
		return dec.SkipValue()
	}
	c16uCalls++
	switch c16uMode {
	case 1:
		dec.PeekKind()
	case 2:
		dec.ReadToken()
	case 3:
		dec.ReadToken()
		dec.ReadToken()
	case 4:
		dec.SkipValue()
	}
	return errC16Boom
}

func c16uBytes(b []byte) error {
	if !bytes.Equal(b, c16uMarker) {
		return nil
	}
	c16uCalls++
	return errC16Boom
}

type c16UFrom struct{ _ int }

func (*c16UFrom) UnmarshalJSONFrom(dec *jsontext.Decoder) error { return c16uFrom(dec) }

type c16UBytes struct{ _ int }

func (*c16UBytes) UnmarshalJSON(b []byte) error { return c16uBytes(b) }

type c16Plain struct{ V int }

func c16UserUnmarshalers(c *Ctx) {
	r := c.SubRng(800)
	n := c.N(30000, 600000)
	funcFrom := json.WithUnmarshalers(json.UnmarshalFromFunc(func(dec *jsontext.Decoder, _ *c16Plain) error { return c16uFrom(dec) }))
	funcBytes := json.WithUnmarshalers(json.UnmarshalFunc(func(b []byte, _ *c16Plain) error { return c16uBytes(b) }))
	forms := []struct {
		name  string
		t     reflect.Type
		opts  []json.Options
		bytes bool
	}{
		{"method-UnmarshalJSONFrom", reflect.TypeOf(c16UFrom{}), nil, false},
		{"func-UnmarshalFromFunc", reflect.TypeOf(c16Plain{}), []json.Options{funcFrom}, false},
		{"method-UnmarshalJSON", reflect.TypeOf(c16UBytes{}), nil, true},
		{"func-UnmarshalFunc", reflect.TypeOf(c16Plain{}), []json.Options{funcBytes}, true},
	}
	bads := []string{`"BAD"`, `{"bad":[1,2]}`, `[7,{"bad":1}]`, `77777`, `true`, `{}`, `[]`, `{"b":"x","c":{}}`}
	modeNames := []string{"before-reading", "after-PeekKind", "after-one-token", "after-two-tokens", "after-whole-value"}
	for i := 0; i < n; i++ {
		f := forms[r.IntN(len(forms))]
		bad := bads[r.IntN(len(bads))]
		depth := r.IntN(6)
		sc := c16genSemLeaf(r, depth, f.t, "1", bad)
		mode := r.IntN(5)
		if f.bytes {
			mode = 0
		}
		if mode == 3 && !(strings.HasPrefix(bad, `{"`) || strings.HasPrefix(bad, `[7`)) {
			mode = 2 // a second ReadToken would leave the value
		}
		// where the value starts, independently: the tracker's token table of the input
		sTok := c16run(sc.text, true, true)
		if sTok.breakAt >= 0 || !sTok.complete {
			fail("c16: user-unmarshaler generator produced invalid JSON %q", sc.text)
		}
		start, end, prevEnd := -1, -1, 0
		for _, t := range sTok.toks {
			if t.start == sc.offset && t.kind != ',' && t.kind != ':' {
				start = t.start
				break
			}
			if t.kind != ',' && t.kind != ':' {
				prevEnd = t.end
			}
		}
		if start < 0 || !bytes.HasPrefix(sc.text[start:], []byte(bad)) {
			fail("c16: value %q not found at offset %d of %q", bad, sc.offset, sc.text)
		}
		end = start + len(bad)
		c16uMode, c16uFailAt, c16uMarker, c16uCalls = mode, int64(prevEnd), []byte(bad), 0
		target := reflect.New(sc.typ)
		var err error
		if pn := guard(func() { err = json.Unmarshal(sc.text, target.Interface(), f.opts...) }); pn != nil {
			c.Panic("Unmarshal-user/"+f.name, sc.text, pn, map[string]any{"type": sc.typ.String()})
			continue
		}
		pos := "nested"
		switch {
		case depth == 0:
			pos = "top-level"
		case depth == 1:
			pos = strings.SplitN(sc.shape, ":", 2)[0]
		}
		c.Hit("user/" + f.name + "/" + modeNames[mode])
		c.Hit("user/position-" + pos)
		c.Case(fmt.Sprint("user:", f.name, mode, sc.typ.String(), string(sc.text)), true)
		op := "Unmarshal-user/" + f.name + "/" + modeNames[mode]
		detail := map[string]any{"type": sc.typ.String(), "text": string(sc.text), "value": bad, "want_pointer": sc.pointer,
			"value_start": start, "value_end": end, "InputOffset_at_call": prevEnd}
		if c16uCalls != 1 {
			detail["calls"] = c16uCalls
			fail("c16: the failing unmarshaler ran %d times for %v", c16uCalls, detail)
		}
		var se *json.SemanticError
		if !errors.As(err, &se) || !errors.Is(err, errC16Boom) {
			detail["err"] = fmt.Sprint(err)
			c.Violate("user-error-not-reported", op, sc.text, detail)
			continue
		}
		detail["ByteOffset"], detail["JSONPointer"], detail["err"] = se.ByteOffset, string(se.JSONPointer), err.Error()
		partial := mode == 2 || mode == 3
		switch {
		case !partial && string(se.JSONPointer) != sc.pointer:
			c.Violate("user-error-pointer-mismatch", op, sc.text, detail)
		case partial && !jsontext.Pointer(sc.pointer).Contains(se.JSONPointer):
			c.Violate("user-error-pointer-outside-value", op, sc.text, detail)
		case mode <= 1 && int(se.ByteOffset) != start:
			// nothing was consumed: the offset is the first byte of the value the pointer designates
			c.Violate("user-error-offset-not-at-value-start", op, sc.text, detail)
		case int(se.ByteOffset) < start || int(se.ByteOffset) > end:
			c.Violate("user-error-offset-outside-value", op, sc.text, detail)
		}
	}
}

// ---------------------------------------------------------------------------------------------
// (h) user-defined marshalers: the same consistency on the Marshal side
// ---------------------------------------------------------------------------------------------

var (
	c16mTarget int // ID of the value whose MarshalJSONTo fails (-1: none)
	c16mMode   int // 0 before writing, 1 after '[', 2 after '[' 1, 3 after the whole value
	c16mCalls  int
)

type c16MTo struct{ ID int }

func (m c16MTo) MarshalJSONTo(enc *jsontext.Encoder) error {
	id := jsontext.String("id" + strconv.Itoa(m.ID))
	if m.ID != c16mTarget {
		return enc.WriteToken(id)
	}
	c16mCalls++
	switch c16mMode {
	case 1:
		enc.WriteToken(jsontext.BeginArray)
	case 2:
		enc.WriteToken(jsontext.BeginArray)
		enc.WriteToken(jsontext.Int(1))
	case 3:
		enc.WriteToken(id)
	}
	return errC16Boom
}

type c16MS struct {
	A int
	X any `json:"x/~"`
	Z string
}

func c16genMarshalValue(r *rand.Rand, depth int, ptr string, next *int, ptrs map[int]string) any {
	if depth == 0 || r.IntN(4) == 0 {
		id := *next
		*next++
		ptrs[id] = ptr
		return c16MTo{id}
	}
	switch r.IntN(4) {
	case 0:
		n := 1 + r.IntN(3)
		out := make([]any, n)
		for i := range out {
			out[i] = c16genMarshalValue(r, depth-1, ptr+"/"+strconv.Itoa(i), next, ptrs)
		}
		return out
	case 1:
		out := map[string]any{}
		for _, k := range []string{"a", "k/~", "", "é~1"}[:1+r.IntN(4)] {
			out[k] = c16genMarshalValue(r, depth-1, ptr+"/"+c16escTok([]byte(k)), next, ptrs)
		}
		return out
	case 2:
		v := c16genMarshalValue(r, depth-1, ptr, next, ptrs)
		return &v // pointer hop: no reference token
	default:
		return c16MS{A: r.IntN(100), X: c16genMarshalValue(r, depth-1, ptr+"/x~1~0", next, ptrs), Z: "z"}
	}
}

func c16UserMarshalers(c *Ctx) {
	r := c.SubRng(900)
	n := c.N(8000, 200000)
	optSets := [][]json.Options{{json.Deterministic(true)}, {json.Deterministic(true), jsontext.Multiline(true)},
		{json.Deterministic(true), jsontext.SpaceAfterColon(true), jsontext.SpaceAfterComma(true)}}
	modeNames := []string{"before-writing", "after-begin-array", "after-two-tokens", "after-whole-value"}
	for i := 0; i < n; i++ {
		next, ptrs := 0, map[int]string{}
		v := c16genMarshalValue(r, r.IntN(5), "", &next, ptrs)
		oi := r.IntN(len(optSets))
		target, mode, opts := r.IntN(next), r.IntN(4), optSets[oi]
		c16mTarget = -1
		var okOut []byte
		var err error
		if pn := guard(func() { okOut, err = json.Marshal(v, opts...) }); pn != nil || err != nil {
			fail("c16: marshal generator: %v %v", pn, err)
		}
		marker := []byte(`"id` + strconv.Itoa(target) + `"`)
		start := bytes.Index(okOut, marker)
		c16mTarget, c16mMode, c16mCalls = target, mode, 0
		if pn := guard(func() { _, err = json.Marshal(v, opts...) }); pn != nil {
			c.Panic("Marshal-user", okOut, pn, nil)
			continue
		}
		op := "Marshal-user/" + modeNames[mode]
		c.Hit("user/" + op)
		c.Case(fmt.Sprint("muser:", mode, target, string(okOut)), true)
		detail := map[string]any{"output_without_failure": string(okOut), "failing_value": string(marker), "value_start": start,
			"want_pointer": ptrs[target]}
		var se *json.SemanticError
		if c16mCalls != 1 || start < 0 || !errors.As(err, &se) || !errors.Is(err, errC16Boom) {
			detail["err"], detail["calls"] = fmt.Sprint(err), c16mCalls
			c.Violate("user-error-not-reported", op, okOut, detail)
			continue
		}
		detail["ByteOffset"], detail["JSONPointer"] = se.ByteOffset, string(se.JSONPointer)
		written := []int{0, 1, 2 + 1, len(marker)}[mode] // bytes the failing call wrote (mode 2 under Multiline: more)
		switch {
		case mode != 1 && mode != 2 && string(se.JSONPointer) != ptrs[target],
			!jsontext.Pointer(ptrs[target]).Contains(se.JSONPointer):
			c.Violate("user-error-pointer-mismatch", op, okOut, detail)
		case mode == 0 && int(se.ByteOffset) != start:
			c.Violate("user-error-offset-not-at-value-start", op, okOut, detail)
		// after writing, the offset is where the NEXT token would start (OutputOffset + pending delimiter and white space):
		// at least past what was written; in compact output at most one separator further
		case int(se.ByteOffset) < start+written || (oi == 0 && int(se.ByteOffset) > start+written+1):
			c.Violate("user-error-offset-outside-value", op, okOut, detail)
		}
	}
}

// ---------------------------------------------------------------------------------------------
// (e) coder reuse through the pools and through Reset at the json level
// ---------------------------------------------------------------------------------------------

// c16Pooled runs consecutive json.UnmarshalRead / UnmarshalDecode / MarshalWrite calls in ONE goroutine with the
// garbage collector off, so that sync.Pool hands the same coder back: error offsets and pointers must be
// relative to the CURRENT input / output, whatever the previous call read or wrote.
func c16Pooled(c *Ctx) {
	old := debug.SetGCPercent(-1)
	defer debug.SetGCPercent(old)
	r := c.SubRng(600)
	ages := c16ageDocs()
	n := c.N(6000, 200000)
	dec := jsontext.NewDecoder(bytes.NewReader(nil)) // one Decoder reused by Reset for UnmarshalDecode
	for i := 0; i < n; i++ {
		// 1. age the pools: a valid document of some size through a reader of some kind
		hk := 1 + r.IntN(c16nAges-1)
		h := ages[hk]
		rk := []int{1, 1, 8, 65, 0}[r.IntN(5)]
		var sink any
		if hk == 5 {
			guard(func() { json.UnmarshalRead(c16reader(rk, h), &sink) }) // history ending in an error
		} else if pn := guard(func() {
			if err := json.UnmarshalRead(c16reader(rk, h), &sink); err != nil {
				fail("c16: ageing document rejected: %v", err)
			}
		}); pn != nil {
			c.Panic("UnmarshalRead", h, pn, nil)
			continue
		}
		c.Hit(fmt.Sprintf("pool/history-%d-reader-%d", hk, rk))
		// 2. a rejected text through UnmarshalRead (pooled decoder) and UnmarshalDecode (Reset decoder)
		in, mut := c16mutate(r, []byte(c16genDoc(r, 4, true)))
		rk2 := []int{1, 8, 0}[r.IntN(3)]
		if sSingle := c16run(in, true, false); !(sSingle.breakAt < 0 && sSingle.tokStart < 0 && sSingle.complete) {
			var v any
			var err error
			if pn := guard(func() { err = json.UnmarshalRead(c16reader(rk2, in), &v) }); pn != nil {
				c.Panic("UnmarshalRead", in, pn, nil)
			} else {
				c16checkRejected(c, "Unmarshal-any/UnmarshalRead-after-pooled-history", in, sSingle, err, mut)
			}
			c.Case("poolU:"+string(in), true)
		}
		if sStream := c16run(in, false, false); !(sStream.breakAt < 0 && sStream.tokStart < 0 && sStream.complete) {
			var err error
			if pn := guard(func() {
				// give the reused decoder its own history first
				dec.Reset(c16reader(rk, h))
				for k := 0; k < 3+r.IntN(40); k++ {
					if _, e := dec.ReadToken(); e != nil {
						break
					}
				}
				dec.Reset(c16reader(rk2, in))
				for {
					var v any
					if err = json.UnmarshalDecode(dec, &v); err != nil {
						return
					}
				}
			}); pn != nil {
				c.Panic("UnmarshalDecode", in, pn, nil)
			} else {
				c16checkRejected(c, "value-path/UnmarshalDecode-after-Reset", in, sStream, err, mut)
			}
			c.Case("poolD:"+string(in), true)
		}
		// 3. a conversion error through UnmarshalRead
		if i%3 == 0 {
			sc := c16genSem(r, r.IntN(5))
			target := reflect.New(sc.typ)
			var err error
			if pn := guard(func() { err = json.UnmarshalRead(c16reader(rk2, sc.text), target.Interface()) }); pn != nil {
				c.Panic("UnmarshalRead-typed", sc.text, pn, nil)
			} else {
				var se *json.SemanticError
				detail := map[string]any{"type": sc.typ.String(), "text": string(sc.text), "want_pointer": sc.pointer, "want_offset": sc.offset, "history": hk}
				if !errors.As(err, &se) {
					detail["err"] = fmt.Sprint(err)
					c.Violate("not-a-semantic-error", "UnmarshalRead-typed", sc.text, detail)
				} else if string(se.JSONPointer) != sc.pointer || int(se.ByteOffset) != sc.offset {
					detail["JSONPointer"], detail["ByteOffset"] = string(se.JSONPointer), se.ByteOffset
					c.Violate("semantic-location-mismatch", "UnmarshalRead-typed", sc.text, detail)
				}
			}
			c.Case("poolS:"+string(sc.text), true)
		}
		// 4. MarshalWrite: a value whose k-th element cannot be marshaled; the error offset is the number of bytes
		// THIS call produced before it, for every writer state
		if i%4 == 0 {
			var elems []any
			var prefix strings.Builder
			prefix.WriteString("[")
			k := r.IntN(6)
			for j := 0; j < k; j++ {
				sz := []int{1, 50, 700, 5000}[r.IntN(4)]
				str := strings.Repeat("s", sz)
				elems = append(elems, str)
				prefix.WriteString(`"` + str + `",`)
			}
			elems = append(elems, make(chan int))
			hi := prefix.Len()
			lo := hi
			if k > 0 {
				lo = hi - 1 // before the comma
			}
			offs := map[string]int64{}
			for _, wm := range []int{0, 1, 2, 3} {
				var bb bytes.Buffer
				pw := &c16plainWriter{}
				var w io.Writer = &bb
				switch wm {
				case 1:
					w = pw
				case 2:
					bb.WriteString(strings.Repeat("foreign\n", 1+r.IntN(20)))
				case 3: // earlier output of the same kind of call, then drained by the caller
					guard(func() { json.MarshalWrite(&bb, []string{strings.Repeat("e", 300)}) })
					bb.Next(bb.Len() / 2)
				}
				var err error
				if pn := guard(func() { err = json.MarshalWrite(w, elems) }); pn != nil {
					c.Panic("MarshalWrite", []byte(prefix.String()), pn, nil)
					continue
				}
				var se *json.SemanticError
				detail := map[string]any{"writer": c16writerModeNames[wm], "elements_before_error": k, "want_lo": lo, "want_hi": hi}
				if !errors.As(err, &se) {
					detail["err"] = fmt.Sprint(err)
					c.Violate("not-a-semantic-error", "MarshalWrite", []byte(trunc(prefix.String(), 200)), detail)
					continue
				}
				detail["ByteOffset"], detail["JSONPointer"] = se.ByteOffset, string(se.JSONPointer)
				offs[c16writerModeNames[wm]] = se.ByteOffset
				if int(se.ByteOffset) < lo || int(se.ByteOffset) > hi {
					c.Violate("marshal-error-offset-mismatch", "MarshalWrite", []byte(trunc(prefix.String(), 200)), detail)
				}
				if string(se.JSONPointer) != "/"+strconv.Itoa(k) {
					c.Violate("marshal-error-pointer-mismatch", "MarshalWrite", []byte(trunc(prefix.String(), 200)), detail)
				}
			}
			c.Case(fmt.Sprint("poolM:", k, hi), true)
			c.Hit(fmt.Sprintf("pool/marshal-error-after-%d-bytes", hi/1024*1024))
		}
	}
}

// ---------------------------------------------------------------------------------------------

func runC16(c *Ctx) {
	// self-test of the tracker on a few hand-checked cases (machinery, not a verdict)
	for _, tc := range []struct {
		in      string
		brk, tk int
	}{{`{"a":{"b":1]}}`, 11, 11}, {`[1,,2]`, 3, 3}, {`{"a":1,"a":2}`, 9, 7}, {`["\uD800x"]`, 8, 1}, {`[1.e5]`, 3, 1}, {`[tru]`, 4, 1},
		{`{"a" 1}`, 5, 5}, {"[\"\xe2\x82\"]", 4, 1}, {`[1,2`, -1, -1}} {
		s := c16run([]byte(tc.in), false, false)
		if s.breakAt != tc.brk || (tc.brk >= 0 && s.breakTok != tc.tk) {
			fail("c16 tracker self-test: %q: break %d tok %d, want %d %d", tc.in, s.breakAt, s.breakTok, tc.brk, tc.tk)
		}
	}
	parts := []struct {
		name string
		f    func(*Ctx)
	}{{"correspondence", c16Correspondence}, {"decoder", c16Decoder}, {"encoder", c16Encoder}, {"rejected", c16Rejected}, {"semantic", c16Semantic}, {"pooled", c16Pooled}, {"errors.go", c16ErrPointerTie}, {"user-unmarshalers", c16UserUnmarshalers}, {"user-marshalers", c16UserMarshalers}}
	for _, p := range parts {
		p.f(c)
	}
	_ = sort.Strings
}
