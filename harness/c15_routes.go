package main

// C15, route independence: the unknown-member / case-matching behaviour of Unmarshal and the member-emission
// behaviour of Marshal depend only on the RESULTING option map (last setter wins), never on the route by which
// the configuration was supplied:
//   v2: options passed directly (any order, contrary settings overridden later), via JoinOptions in random nesting,
//       on the jsontext.Decoder/Encoder vs on the UnmarshalDecode/MarshalEncode call (call options win), through
//       UnmarshalRead/MarshalWrite, with every other json/jsontext/v1 boolean option interleaved before and after,
//       with DefaultOptionsV2()/DefaultOptionsV1() appended earlier;
//   v1: v1.Unmarshal, v1.Decoder with DisallowUnknownFields/UseNumber in every order and repeated,
//       v1.Encoder with SetIndent/SetEscapeHTML interleaved and repeated.
// Reference: the canonical direct call `Unmarshal(in, v, base, the four resulting settings)`, which c15CheckLookup
// validates against the documented rule.

import (
	"bytes"
	"fmt"
	"math/rand/v2"
	"reflect"
	"strings"

	json "github.com/go-json-experiment/json"
	"github.com/go-json-experiment/json/jsontext"
	jsonv1 "github.com/go-json-experiment/json/v1"
)

type C15RouteProbe struct {
	FooBar  int `json:"fooBar"`
	Foo_bar int `json:"foo_bar,case:ignore"`
	Strict  int `json:"STRICT,case:strict"`
	Kelvin  int `json:"kelvin"`
	Any     any
	N       int
}

type C15RouteFb struct {
	Ab   int            `json:"a_b"`
	Rest map[string]any `json:",embed"`
}

type C15EncProbe struct {
	S string `json:"s,omitempty"`
	H string
	Z int   `json:",omitzero"`
	E []int `json:",omitempty"`
	P *int  `json:",omitempty"`
	T C15ZNeg
	N int
}

// the option keys the observed behaviour may depend on
var c15RelevantUnmarshal = []boolCtor{
	{"RejectUnknownMembers", json.RejectUnknownMembers}, {"MatchCaseInsensitiveNames", json.MatchCaseInsensitiveNames},
	{"MatchCaseSensitiveDelimiter", jsonv1.MatchCaseSensitiveDelimiter}, {"ReportErrorsWithLegacySemantics", jsonv1.ReportErrorsWithLegacySemantics},
}
var c15RelevantMarshal = []boolCtor{
	{"OmitZeroStructFields", json.OmitZeroStructFields}, {"OmitEmptyWithLegacySemantics", jsonv1.OmitEmptyWithLegacySemantics},
}

// The relevant keys that DefaultOptionsV1 sets to true and DefaultOptionsV2 to false (v1/options.go, options.go:
// "equivalent to the set of options in DefaultOptionsV1 all being set to false. All other options are not present").
// RejectUnknownMembers and OmitZeroStructFields are NOT touched by either.
var c15V1Defaulted = map[string]bool{"MatchCaseInsensitiveNames": true, "MatchCaseSensitiveDelimiter": true,
	"ReportErrorsWithLegacySemantics": true, "OmitEmptyWithLegacySemantics": true}

// options that may change the observed signature for other reasons than the relevant keys and are therefore not interleaved
var c15RouteExcluded = map[string]bool{"StringifyNumbers": true, "StringifyWithLegacySemantics": true, "ExperimentalSupportFormatTag": true,
	"FormatNilSliceAsNull": true, "FormatNilMapAsNull": true, "CallMethodsWithLegacySemantics": true}

type c15Step struct {
	desc string
	opt  json.Options
}

// c15GenSeq draws a sequence of option setters and folds it (last setter wins) into the resulting base and relevant settings.
func c15GenSeq(rng *rand.Rand, relevant []boolCtor) (steps []c15Step, baseV1 bool, final map[string]bool) {
	final = map[string]bool{}
	for _, r := range relevant {
		final[r.name] = false
	}
	isRel := map[string]bool{}
	for _, r := range relevant {
		isRel[r.name] = true
	}
	n := 1 + rng.IntN(9)
	for i := 0; i < n; i++ {
		switch k := rng.IntN(10); {
		case k < 5: // a relevant key, possibly to be overridden later
			r := relevant[rng.IntN(len(relevant))]
			v := rng.IntN(2) == 0
			steps = append(steps, c15Step{fmt.Sprintf("%s(%v)", r.name, v), r.f(v)})
			final[r.name] = v
		case k < 8: // an unrelated option
			var u boolCtor
			for {
				u = boolCtors[rng.IntN(len(boolCtors))]
				if !isRel[u.name] && !c15RouteExcluded[u.name] && u.name != "OmitZeroStructFields" && u.name != "OmitEmptyWithLegacySemantics" &&
					u.name != "RejectUnknownMembers" && u.name != "MatchCaseInsensitiveNames" && u.name != "MatchCaseSensitiveDelimiter" && u.name != "ReportErrorsWithLegacySemantics" {
					break
				}
			}
			v := rng.IntN(2) == 0
			steps = append(steps, c15Step{fmt.Sprintf("%s(%v)", u.name, v), u.f(v)})
		case k < 9:
			steps = append(steps, c15Step{"DefaultOptionsV2()", json.DefaultOptionsV2()})
			baseV1 = false
			for key := range final {
				if c15V1Defaulted[key] {
					final[key] = false
				}
			}
		default:
			steps = append(steps, c15Step{"DefaultOptionsV1()", jsonv1.DefaultOptionsV1()})
			baseV1 = true
			for key := range final {
				if c15V1Defaulted[key] {
					final[key] = true
				}
			}
		}
	}
	return steps, baseV1, final
}

func c15StepOpts(steps []c15Step) []json.Options {
	out := make([]json.Options, len(steps))
	for i, s := range steps {
		out[i] = s.opt
	}
	return out
}

// random nesting of JoinOptions over the same sequence
func c15JoinNested(rng *rand.Rand, opts []json.Options) json.Options {
	if len(opts) <= 1 || rng.IntN(3) == 0 {
		return json.JoinOptions(opts...)
	}
	k := 1 + rng.IntN(len(opts)-1)
	return json.JoinOptions(c15JoinNested(rng, opts[:k]), c15JoinNested(rng, opts[k:]))
}

func c15Canonical(baseV1 bool, relevant []boolCtor, final map[string]bool) []json.Options {
	var out []json.Options
	if baseV1 {
		out = append(out, jsonv1.DefaultOptionsV1())
	}
	for _, r := range relevant {
		out = append(out, r.f(final[r.name]))
	}
	return out
}

// unmarshal signature: error or not, which candidate leaves were stored into, fallback used, dynamic type of an `any` field
func c15UnmarshalSig(cs *c15Case, run func(v any) error) (sig string, panicked any) {
	nv := reflect.New(cs.t)
	var err error
	if p := guard(func() { err = run(nv.Interface()) }); p != nil {
		return "", p
	}
	set := c15SetLeaves(nv.Elem(), cs.rule)
	fb := false
	if cs.rule.Fallback != nil {
		if f, ok := c15Field(nv.Elem(), cs.rule.Fallback.Path, false); ok && !f.IsZero() {
			fb = true
		}
	}
	anyT := ""
	if f := nv.Elem().FieldByName("Any"); f.IsValid() && !f.IsNil() {
		anyT = f.Elem().Type().String()
	}
	return fmt.Sprintf("err=%v set=%v fb=%v any=%s", err != nil, set, fb, anyT), nil
}

func c15Routes(c *Ctx, rng *rand.Rand) {
	probes := []*c15Case{c15NewCase(reflect.TypeFor[C15RouteProbe](), "route-probe"), c15NewCase(reflect.TypeFor[C15RouteFb](), "route-probe"),
		c15NewCase(reflect.TypeFor[C15Case](), "route-probe")}
	names := []string{"fooBar", "foobar", "FOO_BAR", "foo-bar", "STRICT", "strict", "kelvin", "Kelvin", "KELVIN", "_", "a_b", "AB", "a-B", "Any", "any", "zzz", "N", "n"}
	nSeq := c.N(150, 3000)
	numberT := reflect.TypeFor[jsonv1.Number]().String()

	// ---- Unmarshal side, v2 routes
	for i := 0; i < nSeq; i++ {
		steps, baseV1, final := c15GenSeq(rng, c15RelevantUnmarshal)
		opts := c15StepOpts(steps)
		canon := c15Canonical(baseV1, c15RelevantUnmarshal, final)
		var descs []string
		for _, s := range steps {
			descs = append(descs, s.desc)
		}
		desc := strings.Join(descs, " ; ")
		cs := probes[rng.IntN(len(probes))]
		for k := 0; k < 6; k++ {
			name := names[rng.IntN(len(names))]
			nm, _ := jsontext.AppendQuote(nil, name)
			in := []byte(`{` + string(nm) + `:7}`)
			want, p := c15UnmarshalSig(cs, func(v any) error { return json.Unmarshal(in, v, canon...) })
			if p != nil {
				c.Panic("Unmarshal", in, p, map[string]any{"options": fmt.Sprint(final)})
				continue
			}
			split := rng.IntN(len(opts) + 1)
			routes := []struct {
				name string
				run  func(v any) error
			}{
				{"direct", func(v any) error { return json.Unmarshal(in, v, opts...) }},
				{"JoinOptions-nested", func(v any) error { return json.Unmarshal(in, v, c15JoinNested(rng, opts)) }},
				{"UnmarshalRead", func(v any) error { return json.UnmarshalRead(bytes.NewReader(in), v, opts...) }},
				{"decoder-options", func(v any) error {
					return json.UnmarshalDecode(jsontext.NewDecoder(bytes.NewReader(in), opts...), v)
				}},
				{"call-options", func(v any) error { return json.UnmarshalDecode(jsontext.NewDecoder(bytes.NewReader(in)), v, opts...) }},
				{fmt.Sprintf("decoder[:%d]+call[%d:]", split, split), func(v any) error {
					return json.UnmarshalDecode(jsontext.NewDecoder(bytes.NewReader(in), opts[:split]...), v, opts[split:]...)
				}},
				{"decoder-joined+call-joined", func(v any) error {
					return json.UnmarshalDecode(jsontext.NewDecoder(bytes.NewReader(in), c15JoinNested(rng, opts[:split])), v, c15JoinNested(rng, opts[split:]))
				}},
			}
			for _, r := range routes {
				got, p := c15UnmarshalSig(cs, r.run)
				if p != nil {
					c.Panic("Unmarshal/"+r.name, in, p, map[string]any{"sequence": desc})
					continue
				}
				c.Case(fmt.Sprintf("route %s %s %s %s", r.name, cs.t.Name(), name, desc), len(steps) > 1)
				c.Hit("route/unmarshal/" + strings.SplitN(r.name, "[", 2)[0])
				if got != want {
					c.Violate("route-dependence", "Unmarshal/"+strings.SplitN(r.name, "[", 2)[0], in, map[string]any{"type": cs.t.Name(), "sequence": desc, "route": r.name,
						"resulting": fmt.Sprint(final), "baseV1": baseV1, "got": got, "canonical": want})
				}
			}
		}
	}

	// ---- Unmarshal side, v1 routes: v1.Unmarshal and the v1 Decoder's setters in every order, repeated
	for j := 0; j < nSeq*len(names)*2; j++ {
		// every call sequence meets every probe name on both probe types
		i := j / (len(names) * 2)
		cs := probes[j%2]
		name := names[(j/2)%len(names)]
		nm, _ := jsontext.AppendQuote(nil, name)
		in := []byte(`{` + string(nm) + `:7}`)
		n := 1 + i%5
		if i < 16 { // all sequences over {D,U} up to length 3 are covered first
			n = 0
		}
		var ops []byte
		if i < 15 {
			// enumerate: lengths 1..3 over two letters = 2+4+8 = 14 (+ the empty one at i == 15)
			k := i
			for l := 1; l <= 3; l++ {
				if k < 1<<l {
					for b := 0; b < l; b++ {
						ops = append(ops, "DU"[(k>>b)&1])
					}
					break
				}
				k -= 1 << l
			}
		} else {
			seqRng := rand.New(rand.NewPCG(c.Seed, uint64(i))) // the same calls for all names of sequence i
			for k := 0; k < n; k++ {
				ops = append(ops, "DU"[seqRng.IntN(2)])
			}
		}
		hasD, hasU := bytes.ContainsRune(ops, 'D'), bytes.ContainsRune(ops, 'U')
		want, p := c15UnmarshalSig(cs, func(v any) error {
			return json.Unmarshal(in, v, jsonv1.DefaultOptionsV1(), json.RejectUnknownMembers(hasD))
		})
		if p != nil {
			continue
		}
		if hasU {
			want = strings.Replace(want, "any=float64", "any="+numberT, 1)
		}
		got, p := c15UnmarshalSig(cs, func(v any) error {
			dec := jsonv1.NewDecoder(bytes.NewReader(in))
			for _, o := range ops {
				if o == 'D' {
					dec.DisallowUnknownFields()
				} else {
					dec.UseNumber()
				}
			}
			return dec.Decode(v)
		})
		if p != nil {
			c.Panic("v1.Decoder", in, p, map[string]any{"calls": string(ops)})
			continue
		}
		c.Case(fmt.Sprintf("route v1.Decoder %s %s %s", string(ops), cs.t.Name(), name), len(ops) > 1)
		c.Hit(fmt.Sprintf("route/v1.Decoder/D=%v,U=%v", hasD, hasU))
		if got != want {
			c.Violate("route-dependence", "v1.Decoder", in, map[string]any{"type": cs.t.Name(), "calls(D=DisallowUnknownFields,U=UseNumber)": string(ops), "got": got, "canonical": want})
		}
		if len(ops) == 0 {
			got, p := c15UnmarshalSig(cs, func(v any) error { return jsonv1.Unmarshal(in, v) })
			if p == nil && got != want {
				c.Violate("route-dependence", "v1.Unmarshal", in, map[string]any{"type": cs.t.Name(), "got": got, "canonical": want})
			}
			c.Hit("route/v1.Unmarshal")
		}
	}

	// ---- Marshal side: member emission (omit options) must not depend on the route either
	seven := 7
	encVals := []any{
		&C15EncProbe{}, &C15EncProbe{S: "<x>", H: "a&b", Z: 1, E: []int{}, P: &seven, T: -1, N: 2}, &C15EncProbe{H: "<", E: []int{1}, T: 0},
		&C15ZBoth{}, &C15ZPlain{Neg: -3, PR: C15ZPtrRecv{7}, St: C15ZStruct{3, 3}}, &C15ZOmitempty{Neg: -3, Sl: []int{}, S: "x"},
	}
	memberNames := func(b []byte) string {
		ms, ok := c15Members(bytes.TrimSpace(b))
		if !ok {
			return "!not-an-object " + trunc(string(b), 80)
		}
		var ns []string
		for _, m := range ms {
			ns = append(ns, m.Name)
		}
		return strings.Join(ns, ",")
	}
	for i := 0; i < nSeq; i++ {
		steps, baseV1, final := c15GenSeq(rng, c15RelevantMarshal)
		opts := c15StepOpts(steps)
		canon := c15Canonical(baseV1, c15RelevantMarshal, final)
		var descs []string
		for _, s := range steps {
			descs = append(descs, s.desc)
		}
		desc := strings.Join(descs, " ; ")
		val := encVals[rng.IntN(len(encVals))]
		var wb []byte
		var werr error
		if p := guard(func() { wb, werr = json.Marshal(val, canon...) }); p != nil || werr != nil {
			continue
		}
		want := memberNames(wb)
		split := rng.IntN(len(opts) + 1)
		// whitespace formatting cannot be changed within a MarshalEncode call (documented): such (unrelated) options
		// stay on the Encoder only
		var callOpts []json.Options
		for _, st := range steps[split:] {
			if !strings.HasPrefix(st.desc, "SpaceAfter") && !strings.HasPrefix(st.desc, "Multiline") {
				callOpts = append(callOpts, st.opt)
			}
		}
		routes := []struct {
			name string
			run  func() ([]byte, error)
		}{
			{"direct", func() ([]byte, error) { return json.Marshal(val, opts...) }},
			{"JoinOptions-nested", func() ([]byte, error) { return json.Marshal(val, c15JoinNested(rng, opts)) }},
			{"MarshalWrite", func() ([]byte, error) {
				var bb bytes.Buffer
				err := json.MarshalWrite(&bb, val, opts...)
				return bb.Bytes(), err
			}},
			{"encoder+call", func() ([]byte, error) {
				var bb bytes.Buffer
				err := json.MarshalEncode(jsontext.NewEncoder(&bb, opts[:split]...), val, callOpts...)
				return bb.Bytes(), err
			}},
			{"encoder-joined+call-joined", func() ([]byte, error) {
				var bb bytes.Buffer
				err := json.MarshalEncode(jsontext.NewEncoder(&bb, c15JoinNested(rng, opts[:split])), val, c15JoinNested(rng, callOpts))
				return bb.Bytes(), err
			}},
		}
		for _, r := range routes {
			var b []byte
			var err error
			if p := guard(func() { b, err = r.run() }); p != nil {
				c.Panic("Marshal/"+r.name, []byte(desc), p, nil)
				continue
			}
			c.Case(fmt.Sprintf("route marshal %s %T %s", r.name, val, desc), len(steps) > 1)
			c.Hit("route/marshal/" + r.name)
			if err != nil || memberNames(b) != want {
				c.Violate("route-dependence", "Marshal/"+r.name, []byte(desc), map[string]any{"value": fmt.Sprintf("%T", val), "resulting": fmt.Sprint(final), "baseV1": baseV1,
					"split": split, "err": fmt.Sprint(err), "got": memberNames(b), "canonical": want})
			}
		}
	}

	// ---- v1 Encoder: SetIndent / SetEscapeHTML interleaved and repeated
	indents := [][2]string{{"", ""}, {"", "  "}, {">", "\t"}, {"", " "}}
	for i := 0; i < nSeq; i++ {
		val := encVals[rng.IntN(3)]
		var out bytes.Buffer
		enc := jsonv1.NewEncoder(&out)
		escape, ind := true, [2]string{"", ""}
		var calls []string
		for k, n := 0, rng.IntN(6); k < n; k++ {
			if rng.IntN(2) == 0 {
				escape = rng.IntN(2) == 0
				enc.SetEscapeHTML(escape)
				calls = append(calls, fmt.Sprintf("SetEscapeHTML(%v)", escape))
			} else {
				ind = indents[rng.IntN(len(indents))]
				enc.SetIndent(ind[0], ind[1])
				calls = append(calls, fmt.Sprintf("SetIndent(%q,%q)", ind[0], ind[1]))
			}
		}
		var err error
		if p := guard(func() { err = enc.Encode(val) }); p != nil {
			c.Panic("v1.Encoder", []byte(strings.Join(calls, ";")), p, nil)
			continue
		}
		var want []byte
		guard(func() { want, _ = json.Marshal(val, jsonv1.DefaultOptionsV1(), jsontext.EscapeForHTML(escape)) })
		if ind[0]+ind[1] != "" {
			var ib bytes.Buffer
			if jsonv1.Indent(&ib, want, ind[0], ind[1]) == nil {
				want = ib.Bytes()
			}
		}
		want = append(want, '\n')
		c.Case(fmt.Sprintf("route v1.Encoder %T %s", val, strings.Join(calls, ";")), len(calls) > 1)
		c.Hit("route/v1.Encoder")
		if err != nil || !bytes.Equal(out.Bytes(), want) {
			c.Violate("route-dependence", "v1.Encoder", []byte(strings.Join(calls, ";")), map[string]any{"err": fmt.Sprint(err), "got": trunc(out.String(), 300), "canonical": trunc(string(want), 300)})
		}
	}
}
