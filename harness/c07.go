package main

// C07 — Encoded bytes do not depend on buffering, flushing or the writer.
//
// Predicates evaluated on the implementation:
//   P1  concat(writes of MarshalWrite)            == Marshal(v)            for *bytes.Buffer (empty and pre-filled) and a plain writer
//   P2  concat(writes of NewEncoder+MarshalEncode) == Marshal(v) ++ "\n"
//   P3  MarshalWrite under a failing/short writer returns the error, and what the writer accepted is a prefix of Marshal(v);
//       a later MarshalWrite through the pooled encoder is unaffected
//   P4  a token-level Encoder (WriteToken/WriteValue mix) delivers Marshal(v) ++ "\n" (per top-level value);
//       under every single-fault schedule and random multi-fault schedules every call is still accepted (returns nil or the
//       I/O error, never a syntactic error), after every call  accepted ++ unflushed buffer  equals the fault-free run's, and
//       once the writer heals the total delivered equals the fault-free output: nothing lost, nothing duplicated
//   P5  Encoder.StackPointer after every call is the same in a flushing run (tiny buffers, flushes at many offsets), an
//       unflushed run (pooled buffered encoder, no writer), a *bytes.Buffer run and a faulty run, and equals an independent
//       reference computed from the token script (names are copied out of the buffer before a flush)
//   P6  Flush() is suppressed exactly in the states of avoidFlush; UnwriteEmptyObjectMember on the real encoderState
//       equals the Lean model (family `flush`) and a Go reference, on the bytes
// Correspondence (Tie B): jsonwire.TrimSuffixWhitespace/TrimSuffixString/TrimSuffixByte/HasSuffixByte vs the Lean model
// (oracle family `flush`) and vs an independent Go reference; trimSuffixString(p ++ quote(s)) == p on the implementation.

import (
	"bytes"
	"errors"
	"fmt"
	"io"
	"math/rand/v2"
	"strconv"
	"strings"
	"sync"
	"sync/atomic"
	"time"

	json "github.com/go-json-experiment/json"
	"github.com/go-json-experiment/json/internal"
	"github.com/go-json-experiment/json/internal/jsonflags"
	"github.com/go-json-experiment/json/internal/jsonwire"
	"github.com/go-json-experiment/json/jsontext"
	jsonv1 "github.com/go-json-experiment/json/v1"
)

func init() { register("C07", runC07) }

var c07export = jsontext.Internal.Export(&internal.AllowInternalUse)

// ---------------------------------------------------------------------------------------------
// writers

var errC07 = errors.New("c07: injected write fault")

const (
	c07OK    = iota // accept everything
	c07Err0         // accept nothing, return the injected error
	c07Short        // accept k < len bytes, return io.ErrShortWrite
	c07ErrN         // accept everything and still return the injected error
)

type c07Act struct{ mode, k int }

// c07Writer is a plain io.Writer (not a *bytes.Buffer) that records every call and follows a fault schedule.
type c07Writer struct {
	acc    []byte // concatenation of what was accepted
	sizes  []int  // len(p) of each call
	sched  []c07Act
	calls  int
	faults int
}

func (w *c07Writer) Write(p []byte) (int, error) {
	i := w.calls
	w.calls++
	w.sizes = append(w.sizes, len(p))
	a := c07Act{}
	if i < len(w.sched) {
		a = w.sched[i]
	}
	switch a.mode {
	case c07Err0:
		w.faults++
		return 0, errC07
	case c07Short:
		k := a.k
		if k >= len(p) {
			k = len(p) - 1
		}
		if k < 0 { // len(p) == 0: nothing to be short of
			return 0, nil
		}
		w.acc = append(w.acc, p[:k]...)
		w.faults++
		return k, io.ErrShortWrite
	case c07ErrN:
		w.acc = append(w.acc, p...)
		w.faults++
		return len(p), errC07
	}
	w.acc = append(w.acc, p...)
	return len(p), nil
}

func c07IsInjected(err error) bool {
	return err != nil && (errors.Is(err, errC07) || errors.Is(err, io.ErrShortWrite))
}

// ---------------------------------------------------------------------------------------------
// value shapes

type c07Inner struct {
	X []int          `json:",omitempty"`
	Y map[string]int `json:",omitempty"`
}

type c07Text struct{ S string }

func (t c07Text) MarshalText() ([]byte, error) { return []byte(t.S), nil }

type c07JSON struct{ Raw string }

func (j c07JSON) MarshalJSON() ([]byte, error) {
	if j.Raw == "" {
		return []byte("null"), nil
	}
	return []byte(j.Raw), nil
}

// statistics gathered from inside MarshalJSONTo (evidence that empty members are written while a flush is due)
var c07Stat struct {
	emptyAfterFlush, emptyFlushDue, toCalls atomic.Int64
}

type c07To struct{ Raw string }

func (t c07To) MarshalJSONTo(enc *jsontext.Encoder) error {
	raw := t.Raw
	if raw == "" {
		raw = "null"
	}
	err := enc.WriteValue(jsontext.Value(raw))
	xe := c07export.Encoder(enc)
	c07Stat.toCalls.Add(1)
	if enc.OutputOffset() != int64(len(xe.Buf)) { // something was flushed earlier: a streaming run
		c07Stat.emptyAfterFlush.Add(1)
		if len(xe.Buf) > 3*cap(xe.Buf)/4 {
			c07Stat.emptyFlushDue.Add(1) // NeedFlush was true after the value and the flush was suppressed
		}
	}
	return err
}

type c07Rec struct {
	Pad  string
	A    []int          `json:",omitempty"`
	B    map[string]int `json:",omitempty"`
	C    string         `json:",omitempty"`
	D    *int           `json:",omitempty"`
	E    c07Inner       `json:",omitempty"`
	F    any            `json:",omitempty"`
	G    []byte         `json:",omitempty"`
	H    *[]int         `json:",omitempty"`
	I    *string        `json:",omitempty"`
	J    *c07Inner      `json:",omitempty"`
	K    c07Text        `json:",omitempty"`
	L    c07JSON        `json:",omitempty"`
	M    jsontext.Value `json:",omitempty"`
	N    c07To          `json:",omitempty"`
	O    [0]int         `json:",omitempty"`
	Tail string
}

// strings whose encodings end in (or contain) the byte pairs that avoidFlush / UnwriteEmptyObjectMember look at
var c07Specials = []string{"", `"`, `\`, `a"`, `a\`, `\"`, `"\`, `\\`, `""`, `\\"`, "ll", "null", "{}", "[]", "x", "<&>", " ", "é", "a\"\"", "\t", " "}

var c07EmptyRaw = []string{"null", `""`, "{}", "[]", " [ ] ", " { } ", ` "" `, " null "}
var c07NonEmptyRaw = []string{`"\""`, `"\\"`, `"a\""`, `"\\\""`, `[null]`, `{"":""}`, `[[]]`, `{"a":{}}`, "0", "false", `"ll"`, `["]"]`, `"{}"`, `"[]"`, `"\"\""`}

func c07Pick[T any](r *rand.Rand, s []T) T { return s[r.IntN(len(s))] }

// c07Pad is a string of n bytes, mostly 'a', ending in a special so that quotes/backslashes sit next to flush points.
func c07Pad(r *rand.Rand, n int) string {
	if n <= 0 {
		return ""
	}
	s := ""
	if r.IntN(3) == 0 {
		s = c07Pick(r, c07Specials)
	}
	if len(s) > n {
		s = ""
	}
	return strings.Repeat("a", n-len(s)) + s
}

// c07MakeRec builds a record.  mode 0: every omitempty member independently {absent, empty (slow path), non-empty};
// 1: every member that has a slow-path empty form uses it; 2: all non-empty; 3: all absent.
func c07MakeRec(r *rand.Rand, pad int, mode int) c07Rec {
	pick := func() int {
		switch mode {
		case 1:
			return 1
		case 2:
			return 2
		case 3:
			return 0
		}
		return r.IntN(3)
	}
	rec := c07Rec{Pad: c07Pad(r, pad), Tail: c07Pick(r, c07Specials)}
	switch pick() {
	case 1:
		rec.A = []int{}
	case 2:
		rec.A = []int{r.IntN(100)}
	}
	switch pick() {
	case 1:
		rec.B = map[string]int{}
	case 2:
		rec.B = map[string]int{c07Pick(r, c07Specials): r.IntN(10)}
	}
	if pick() == 2 {
		rec.C = c07Pick(r, c07Specials)
	}
	if pick() == 2 {
		rec.D = new(int)
		*rec.D = r.IntN(1000) - 500
	}
	switch pick() {
	case 1:
		rec.E = c07Inner{X: []int{}, Y: map[string]int{}}
	case 2:
		rec.E = c07Inner{X: []int{1}}
	}
	switch pick() {
	case 1:
		rec.F = c07Pick(r, []any{[]int{}, map[string]int{}, "", (*int)(nil), c07Inner{}, []any{}, c07JSON{"[]"}})
	case 2:
		rec.F = c07Pick(r, []any{[]int{0}, `"`, `\`, 1.5, true, []any{[]any{}}, map[string]any{"": ""}})
	}
	switch pick() {
	case 1:
		rec.G = []byte{}
	case 2:
		rec.G = []byte(c07Pick(r, c07Specials) + "g")
	}
	switch pick() {
	case 1:
		rec.H = &[]int{}
	case 2:
		rec.H = &[]int{1, 2}
	}
	switch pick() {
	case 1:
		rec.I = new(string)
	case 2:
		s := c07Pick(r, c07Specials) + `"`
		rec.I = &s
	}
	switch pick() {
	case 1:
		rec.J = &c07Inner{}
	case 2:
		rec.J = &c07Inner{Y: map[string]int{`"`: 1}}
	}
	switch pick() {
	case 1:
		rec.K = c07Text{""}
	case 2:
		rec.K = c07Text{c07Pick(r, c07Specials) + `"`}
	}
	switch pick() {
	case 1:
		rec.L = c07JSON{c07Pick(r, c07EmptyRaw)}
	case 2:
		rec.L = c07JSON{c07Pick(r, c07NonEmptyRaw)}
	}
	switch pick() {
	case 1:
		rec.M = jsontext.Value(c07Pick(r, c07EmptyRaw))
	case 2:
		rec.M = jsontext.Value(c07Pick(r, c07NonEmptyRaw))
	}
	switch pick() {
	case 1:
		rec.N = c07To{c07Pick(r, c07EmptyRaw)}
	case 2:
		rec.N = c07To{c07Pick(r, c07NonEmptyRaw)}
	}
	return rec
}

type c07Key struct {
	S string
	I int
}

func (k c07Key) MarshalText() ([]byte, error) { return []byte(k.S + strconv.Itoa(k.I)), nil }

type c07Small struct {
	P string `json:",omitempty"`
	Q []int  `json:",omitempty"`
	R c07To  `json:",omitempty"`
}

func c07AnyTree(r *rand.Rand, depth int, budget *int) any {
	*budget -= 4
	k := r.IntN(10)
	if depth <= 0 || *budget <= 0 {
		k = r.IntN(6)
	}
	switch k {
	case 0:
		return nil
	case 1:
		return r.IntN(2) == 0
	case 2:
		return float64(r.IntN(2000000)-1000000) / 8
	case 3, 4:
		s := c07Pick(r, c07Specials) + strings.Repeat("s", r.IntN(30))
		*budget -= len(s)
		return s
	case 5:
		return c07Pick(r, []any{[]any{}, map[string]any{}, "", []int{}})
	case 6, 7:
		n := r.IntN(6)
		a := make([]any, n)
		for i := range a {
			a[i] = c07AnyTree(r, depth-1, budget)
		}
		return a
	case 8:
		rec := c07MakeRec(r, r.IntN(20), 0)
		*budget -= 80
		return rec
	default:
		if r.IntN(3) == 0 {
			return map[string]any{}
		}
		return map[string]any{c07Pick(r, c07Specials): c07AnyTree(r, depth-1, budget)}
	}
}

type c07Shape struct {
	name string
	v    any
	det  bool // contains multi-entry maps: only comparable under Deterministic(true)
}

// c07Shapes builds values whose compact encoding is about target bytes long.
func c07Shapes(r *rand.Rand, target int, which int) c07Shape {
	switch which {
	case 0: // one record with a swept pad
		return c07Shape{name: "pad", v: c07MakeRec(r, target, r.IntN(4))}
	case 1: // pointer to record (addressable path) with all-slow-empty members after the pad
		rec := c07MakeRec(r, target, 1)
		return c07Shape{name: "padptr", v: &rec}
	case 2: // array of records with random small pads
		var a []c07Rec
		left := target
		first := true
		for left > 0 || first {
			p := r.IntN(48)
			if first {
				p = target % 61
			}
			first = false
			mode := 0
			if r.IntN(4) == 0 {
				mode = 1
			}
			a = append(a, c07MakeRec(r, p, mode))
			left -= 40 + p + r.IntN(120)
		}
		return c07Shape{name: "arr", v: a}
	case 3: // Deterministic map with int keys: every name is written, unwritten (UnwriteOnlyObjectMemberName) and rewritten
		m := map[int]c07Small{}
		left := target
		for i := 0; left > 0 || i == 0; i++ {
			s := c07Small{}
			if r.IntN(2) == 0 {
				s.P = c07Pad(r, r.IntN(40))
			}
			if r.IntN(2) == 0 {
				s.Q = []int{i}
			}
			if r.IntN(2) == 0 {
				s.R = c07To{c07Pick(r, c07EmptyRaw)}
			}
			m[r.IntN(1<<30)-(1<<29)] = s
			left -= 14 + len(s.P) + 8
		}
		return c07Shape{name: "detmap-int", v: m, det: true}
	case 4: // Deterministic map with text-marshaling keys containing quotes and backslashes, and long names
		m := map[c07Key]string{}
		left := target
		for i := 0; left > 0 || i == 0; i++ {
			k := c07Key{c07Pick(r, c07Specials), i}
			if r.IntN(8) == 0 {
				k.S += strings.Repeat("k", r.IntN(300))
			}
			v := c07Pad(r, r.IntN(30))
			m[k] = v
			left -= len(k.S) + len(v) + 8
		}
		return c07Shape{name: "detmap-text", v: m, det: true}
	case 5: // record holding a multi-entry string-keyed map and a nested map with non-string keys
		type wrap struct {
			R c07Rec
			M map[uint8]*c07Inner `json:",omitempty"`
			Z map[c07Key]c07Rec   `json:",omitempty"`
		}
		w := wrap{R: c07MakeRec(r, target/2, 0), M: map[uint8]*c07Inner{}, Z: map[c07Key]c07Rec{}}
		for i := 0; i < r.IntN(5); i++ {
			w.M[uint8(r.IntN(256))] = c07Pick(r, []*c07Inner{nil, {}, {X: []int{1}}})
		}
		left := target / 2
		for i := 0; left > 0 && i < 200; i++ {
			rec := c07MakeRec(r, r.IntN(30), 0)
			w.Z[c07Key{c07Pick(r, c07Specials), i}] = rec
			left -= 150
		}
		return c07Shape{name: "nested-det", v: w, det: true}
	case 6: // untyped tree
		budget := target
		var a []any
		for budget > 0 || len(a) == 0 {
			a = append(a, c07AnyTree(r, 4, &budget))
		}
		return c07Shape{name: "anytree", v: a}
	default: // bare string / empty top-level values
		if target < 3 {
			return c07Shape{name: "scalar", v: c07Pick(r, []any{nil, "", []int{}, map[string]int{}, c07Inner{}, 0, c07JSON{"[]"}})}
		}
		return c07Shape{name: "string", v: c07Pad(r, target-2)}
	}
}

const c07NumShapes = 8

type c07Opt struct {
	name string
	opts []json.Options
	tok  bool // re-encoding Marshal's output token by token with these options reproduces Marshal's output
}

func c07Opts() []c07Opt {
	skip := json.WithMarshalers(json.MarshalToFunc(func(*jsontext.Encoder, []int) error { return errors.ErrUnsupported }))
	return []c07Opt{
		{"default", nil, true},
		{"multiline", []json.Options{jsontext.Multiline(true)}, true},
		{"indent", []json.Options{jsontext.WithIndent("  "), jsontext.WithIndentPrefix(" \t")}, true},
		{"spaces", []json.Options{jsontext.SpaceAfterColon(true), jsontext.SpaceAfterComma(true)}, true},
		{"det", []json.Options{json.Deterministic(true)}, false},
		{"v1omitempty", []json.Options{jsonv1.OmitEmptyWithLegacySemantics(true)}, false},
		{"html", []json.Options{jsontext.EscapeForHTML(true), jsontext.EscapeForJS(true)}, true},
		{"det+multiline+spaces", []json.Options{json.Deterministic(true), jsontext.Multiline(true), jsontext.SpaceAfterColon(true), jsontext.SpaceAfterComma(true)}, false},
		{"marshalers", []json.Options{skip}, false},
		{"v1", []json.Options{jsonv1.DefaultOptionsV1()}, false},
		{"omitzero+nilnull", []json.Options{json.OmitZeroStructFields(true), json.FormatNilSliceAsNull(true), json.FormatNilMapAsNull(true)}, false},
		{"dupnames", []json.Options{jsontext.AllowDuplicateNames(true)}, true},
	}
}

// ---------------------------------------------------------------------------------------------
// helpers

func c07SizeBucket(n int) string {
	switch {
	case n == 0:
		return "0"
	case n < 16:
		return "1-15"
	case n < 48:
		return "16-47"
	case n < 96:
		return "48-95"
	case n < 192:
		return "96-191"
	case n < 384:
		return "192-383"
	case n < 768:
		return "384-767"
	case n < 1536:
		return "768-1535"
	case n < 3072:
		return "1536-3071"
	case n < 4096:
		return "3072-4095"
	case n < 8192:
		return "4096-8191"
	case n < 65536:
		return "8192-65535"
	}
	return ">=65536"
}

type c07Local struct { // per-worker counters merged at the end (keeps the Ctx mutex out of the hot path)
	hits  map[string]int64
	sizes []bool // encoded sizes seen
}

func newC07Local() *c07Local { return &c07Local{hits: map[string]int64{}, sizes: make([]bool, 20064)} }
func (l *c07Local) hit(s string) { l.hits[s]++ }
func (l *c07Local) writes(kind string, sizes []int) {
	for _, n := range sizes {
		l.hits["write-size:"+kind+":"+c07SizeBucket(n)]++
	}
	switch n := len(sizes); {
	case n <= 1:
		l.hits["writes-per-call:"+kind+":<=1"]++
	case n <= 4:
		l.hits["writes-per-call:"+kind+":2-4"]++
	case n <= 16:
		l.hits["writes-per-call:"+kind+":5-16"]++
	default:
		l.hits["writes-per-call:"+kind+":>16"]++
	}
}

// c07Lazy defers the (expensive) formatting of a value to the moment a violation is actually reported.
type c07Lazy struct{ v any }

func c07Resolve(d map[string]any) map[string]any {
	for k, v := range d {
		switch v := v.(type) {
		case c07Lazy:
			d[k] = trunc(fmt.Sprintf("%+v", v.v), 600)
		case []int:
			d[k] = trunc(fmt.Sprint(v), 400)
		case []c07Act:
			d[k] = trunc(fmt.Sprint(v), 400)
		}
	}
	return d
}

func (c *Ctx) c07V(kind, op string, input []byte, d map[string]any) {
	c.Violate(kind, op, input, c07Resolve(d))
}

func (c *Ctx) c07P(op string, input []byte, p any, d map[string]any) {
	c.Panic(op, input, p, c07Resolve(d))
}

func c07Detail(kv ...any) map[string]any {
	m := map[string]any{}
	for i := 0; i+1 < len(kv); i += 2 {
		v := kv[i+1]
		if b, ok := v.([]byte); ok {
			v = trunc(string(b[:min(len(b), 400)]), 400)
		}
		if s, ok := v.(string); ok {
			v = trunc(s, 400)
		}
		m[fmt.Sprint(kv[i])] = v
	}
	return m
}

func c07FirstDiff(a, b []byte) int {
	n := min(len(a), len(b))
	for i := 0; i < n; i++ {
		if a[i] != b[i] {
			return i
		}
	}
	if len(a) != len(b) {
		return n
	}
	return -1
}

func c07Window(b []byte, at int) string {
	lo, hi := max(0, at-40), min(len(b), at+40)
	if lo > hi {
		return ""
	}
	return string(b[lo:hi])
}

// c07CheckEq reports a violation when got != want.
func (c *Ctx) c07CheckEq(kind, op string, want, got []byte, d map[string]any) bool {
	if bytes.Equal(want, got) {
		return true
	}
	at := c07FirstDiff(want, got)
	d["first_diff"] = at
	d["want_len"], d["got_len"] = len(want), len(got)
	d["want_at"], d["got_at"] = c07Window(want, at), c07Window(got, at)
	c.c07V(kind, op, nil, d)
	return false
}

// ---------------------------------------------------------------------------------------------
// P1–P3: Marshal vs MarshalWrite vs MarshalEncode, all writers, every fault position

func (c *Ctx) c07Marshal(l *c07Local, r *rand.Rand, sh c07Shape, o c07Opt, maxFaults int) {
	opts := o.opts
	oname := o.name
	if sh.det {
		opts = append(append([]json.Options{}, opts...), json.Deterministic(true))
		oname += "+det"
	}
	op := sh.name + "/" + oname
	var want []byte
	var err error
	if p := guard(func() { want, err = json.Marshal(sh.v, opts...) }); p != nil {
		c.c07P("Marshal:"+op, nil, p, nil)
		return
	}
	if err != nil {
		fail("c07 generator produced an unmarshalable value (%s): %v", op, err)
	}
	if len(want) < len(l.sizes) {
		l.sizes[len(want)] = true
	}
	l.hit("shape:" + sh.name)
	l.hit("opts:" + oname)
	l.hit("encoded-size:" + c07SizeBucket(len(want)))
	c.Case(op+strconv.Itoa(len(want)), len(want) > 48)
	det := func(kv ...any) map[string]any {
		return c07Detail(append([]any{"shape", sh.name, "opts", oname, "size", len(want), "value", c07Lazy{sh.v}}, kv...)...)
	}

	// P1 *bytes.Buffer, empty and pre-filled (the encoder appends into the buffer's spare capacity)
	for _, pre := range []string{"", "PRE-EXISTING CONTENT "} {
		bb := new(bytes.Buffer)
		if r.IntN(2) == 0 {
			bb.Grow(r.IntN(2 * (len(want) + 1)))
		}
		bb.WriteString(pre)
		if p := guard(func() { err = json.MarshalWrite(bb, sh.v, opts...) }); p != nil {
			c.c07P("MarshalWrite/bytes.Buffer:"+op, nil, p, nil)
			continue
		}
		if err != nil {
			c.c07V("error", "MarshalWrite/bytes.Buffer:"+op, nil, det("err", err.Error()))
			continue
		}
		c.c07CheckEq("differs", "MarshalWrite/bytes.Buffer:"+op, append([]byte(pre), want...), bb.Bytes(), det("prefill", pre))
	}

	// P1 plain writer
	w := &c07Writer{}
	if p := guard(func() { err = json.MarshalWrite(w, sh.v, opts...) }); p != nil {
		c.c07P("MarshalWrite/plain:"+op, nil, p, nil)
	} else if err != nil {
		c.c07V("error", "MarshalWrite/plain:"+op, nil, det("err", err.Error()))
	} else {
		c.c07CheckEq("differs", "MarshalWrite/plain:"+op, want, w.acc, det("writes", w.sizes))
		l.writes("MarshalWrite", w.sizes)
	}
	nwrites := len(w.sizes)

	// P2 MarshalEncode through a fresh Encoder (buffer starts empty: flushes at 3/4 of 8,16,…,4096)
	wantNL := append(append([]byte{}, want...), '\n')
	for variant := 0; variant < 3; variant++ {
		we := &c07Writer{}
		bb := new(bytes.Buffer)
		var enc *jsontext.Encoder
		var vname string
		if p := guard(func() {
			switch variant {
			case 0:
				vname = "plain,opts-on-encoder"
				enc = jsontext.NewEncoder(we, opts...)
				err = json.MarshalEncode(enc, sh.v)
			case 1:
				vname = "plain,opts-on-both"
				enc = jsontext.NewEncoder(we, opts...)
				err = json.MarshalEncode(enc, sh.v, opts...)
			case 2:
				vname = "bytes.Buffer"
				enc = jsontext.NewEncoder(bb, opts...)
				err = json.MarshalEncode(enc, sh.v, opts...)
			}
		}); p != nil {
			c.c07P("MarshalEncode/"+vname+":"+op, nil, p, nil)
			continue
		}
		if err != nil {
			c.c07V("error", "MarshalEncode/"+vname+":"+op, nil, det("err", err.Error()))
			continue
		}
		got := we.acc
		if variant == 2 {
			got = bb.Bytes()
		} else {
			l.writes("MarshalEncode", we.sizes)
		}
		c.c07CheckEq("differs", "MarshalEncode/"+vname+":"+op, wantNL, got, det("writes", we.sizes))
		c.c07NothingBuffered("MarshalEncode/"+vname+":"+op, enc, len(got), variant != 2, det)
	}

	// P3 every fault position x mode (positions capped at maxFaults random ones when there are more)
	positions := make([]int, 0, nwrites+1)
	for j := 0; j <= nwrites; j++ {
		positions = append(positions, j)
	}
	if len(positions) > maxFaults {
		r.Shuffle(len(positions), func(i, j int) { positions[i], positions[j] = positions[j], positions[i] })
		positions = positions[:maxFaults]
	}
	for _, j := range positions {
		for mode := c07Err0; mode <= c07ErrN; mode++ {
			k := 0
			if mode == c07Short {
				k = c07Pick(r, []int{0, 1, 2, 47, 48, 49, r.IntN(4096), 1 << 30})
			}
			fw := &c07Writer{sched: make([]c07Act, j+1)}
			fw.sched[j] = c07Act{mode, k}
			viaEncoder := r.IntN(4) == 0
			ename := "MarshalWrite"
			wantF := want
			if p := guard(func() {
				if viaEncoder {
					ename, wantF = "MarshalEncode", wantNL
					err = json.MarshalEncode(jsontext.NewEncoder(fw, opts...), sh.v)
				} else {
					err = json.MarshalWrite(fw, sh.v, opts...)
				}
			}); p != nil {
				c.c07P(ename+"/faulty:"+op, nil, p, det("fault_at", j, "mode", mode))
				continue
			}
			c.Case(op+"/fault", true)
			d := det("fault_at", j, "mode", mode, "k", k, "writes", fw.sizes, "accepted", len(fw.acc))
			if fw.faults == 0 {
				l.hit("fault:not-reached")
				if err != nil {
					c.c07V("error", ename+"/faulty-unreached:"+op, nil, d)
				} else {
					c.c07CheckEq("differs", ename+"/faulty-unreached:"+op, wantF, fw.acc, d)
				}
				continue
			}
			l.hit("fault:" + []string{"", "err-0", "short", "err-n"}[mode])
			if err == nil {
				c.c07V("fault-swallowed", ename+"/faulty:"+op, nil, d)
			} else if !c07IsInjected(err) {
				d["err"] = err.Error()
				c.c07V("fault-wrong-error", ename+"/faulty:"+op, nil, d)
			}
			if !bytes.HasPrefix(wantF, fw.acc) {
				at := c07FirstDiff(wantF, fw.acc)
				d["first_diff"], d["want_at"], d["got_at"] = at, c07Window(wantF, at), c07Window(fw.acc, at)
				c.c07V("fault-not-prefix", ename+"/faulty:"+op, nil, d)
			}
			if len(fw.acc) < len(wantF) {
				l.hit("fault:strict-prefix")
			}
		}
		// the pooled streaming encoder must come back clean after a failed call
		w2 := &c07Writer{}
		small := c07MakeRec(r, r.IntN(100), 1)
		var w2want []byte
		if p := guard(func() {
			w2want, _ = json.Marshal(small)
			err = json.MarshalWrite(w2, small)
		}); p != nil {
			c.c07P("MarshalWrite/after-fault:"+op, nil, p, nil)
		} else if err != nil {
			c.c07V("error", "MarshalWrite/after-fault:"+op, nil, det("err", err.Error()))
		} else {
			c.c07CheckEq("differs", "MarshalWrite/after-fault:"+op, w2want, w2.acc, det())
		}
	}
}

// c07NothingBuffered is the proved `faultfree_top_level_flushes_all` evaluated on the implementation: after a call
// that completed a top-level value on a fault-free writer, every byte has reached the writer (OutputOffset equals the
// number of bytes delivered, and for a non-bytes.Buffer writer the internal buffer is empty).
func (c *Ctx) c07NothingBuffered(op string, enc *jsontext.Encoder, delivered int, plain bool, det func(kv ...any) map[string]any) {
	var off int64
	var buffered, depth int
	if p := guard(func() {
		off = enc.OutputOffset()
		depth = enc.StackDepth()
		buffered = len(c07export.Encoder(enc).Buf)
	}); p != nil {
		c.c07P("OutputOffset:"+op, nil, p, nil)
		return
	}
	if depth != 0 {
		return
	}
	if off != int64(delivered) || (plain && buffered != 0) {
		c.c07V("left-buffered", op, nil, det("output_offset", off, "delivered", delivered, "still_buffered", buffered))
	}
}

// ---------------------------------------------------------------------------------------------
// P7: degenerate top-level values — every fast-path scalar and every empty value, at top level and as the only
// element one level down, through all entry points; and sequences of top-level values through one Encoder.

type c07Named struct {
	name string
	v    any
}

func c07Degenerates() []c07Named {
	base := []c07Named{
		{"[]int{}", []int{}}, {"[]int(nil)", []int(nil)}, {"[]string{}", []string{}}, {"[]any{}", []any{}}, {"[][]int{}", [][]int{}},
		{"[]c07Rec{}", []c07Rec{}}, {"map[string]int{}", map[string]int{}}, {"map[string]int(nil)", map[string]int(nil)},
		{"map[int]int{}", map[int]int{}}, {"map[string]any{}", map[string]any{}}, {"[0]int{}", [0]int{}}, {"[0]string{}", [0]string{}},
		{`""`, ""}, {"0", 0}, {"int8(0)", int8(0)}, {"uint64(0)", uint64(0)}, {"0.0", 0.0}, {"float32(0)", float32(0)},
		{"false", false}, {"true", true}, {"(*int)(nil)", (*int)(nil)}, {"(*[]int)(nil)", (*[]int)(nil)}, {"nil", nil},
		{"struct{}{}", struct{}{}}, {"c07Inner{}", c07Inner{}}, {"&c07Inner{}", &c07Inner{}}, {"time.Time{}", time.Time{}},
		{"[]byte{}", []byte{}}, {"[]byte(nil)", []byte(nil)}, {"[0]byte{}", [0]byte{}},
		{"Value([])", jsontext.Value("[]")}, {"Value({})", jsontext.Value("{}")}, {"Value(null)", jsontext.Value("null")},
		{`Value("")`, jsontext.Value(`""`)}, {"Value( [ ] )", jsontext.Value(" [ ] ")}, {"Value(nil)", jsontext.Value(nil)},
		{"&[]int{}", &[]int{}}, {"&map[string]int{}", &map[string]int{}}, {"new(string)", new(string)}, {"new(int)", new(int)},
		{"c07JSON{[]}", c07JSON{"[]"}}, {"c07JSON{{}}", c07JSON{"{}"}}, {`c07Text{""}`, c07Text{""}}, {"c07To{[]}", c07To{"[]"}},
		{"c07To{null}", c07To{"null"}}, {"c07Rec{}", c07Rec{}}, {"any([]int{})", any([]int{})},
	}
	out := append([]c07Named{}, base...)
	for _, b := range base { // the only element one level down
		out = append(out, c07Named{"[]any{" + b.name + "}", []any{b.v}})
		out = append(out, c07Named{"map{k:" + b.name + "}", map[string]any{"k": b.v}})
		out = append(out, c07Named{"struct{V:" + b.name + "}", struct{ V any }{b.v}})
		out = append(out, c07Named{"struct{V omitempty:" + b.name + "}", struct {
			V any `json:",omitempty"`
		}{b.v}})
	}
	return out
}

func (c *Ctx) c07Degenerate(l *c07Local, r *rand.Rand, opts []c07Opt) {
	vals := c07Degenerates()
	for _, nv := range vals {
		for _, o := range opts {
			c.c07Marshal(l, r, c07Shape{name: "degenerate", v: nv.v}, o, 3)
		}
	}
	l.hits["degenerate-values"] += int64(len(vals))

	// sequences of top-level values through ONE Encoder: output must be each value followed by "\n", and after
	// every call everything must have been delivered
	nseq := c.N(400, 6000)
	for si := 0; si < nseq; si++ {
		o := opts[si%len(opts)]
		n := 2 + r.IntN(5)
		seq := make([]c07Named, n)
		for i := range seq {
			if r.IntN(6) == 0 {
				seq[i] = c07Named{"rec", c07MakeRec(r, r.IntN(120), 0)}
			} else {
				seq[i] = vals[r.IntN(len(vals))]
			}
		}
		for _, useBB := range []bool{false, true} {
			w := &c07Writer{}
			bb := new(bytes.Buffer)
			var enc *jsontext.Encoder
			names := make([]string, 0, n)
			var expect []byte
			det := func(kv ...any) map[string]any {
				return c07Detail(append([]any{"opts", o.name, "sequence", strings.Join(names, " ; "), "bytes.Buffer", useBB}, kv...)...)
			}
			op := "Encoder/sequence/" + o.name
			if p := guard(func() {
				if useBB {
					enc = jsontext.NewEncoder(bb, o.opts...)
				} else {
					enc = jsontext.NewEncoder(w, o.opts...)
				}
			}); p != nil {
				c.c07P(op, nil, p, nil)
				continue
			}
			for i, nv := range seq {
				var want []byte
				var err error
				if p := guard(func() { want, err = json.Marshal(nv.v, o.opts...) }); p != nil || err != nil {
					fail("c07 degenerate: Marshal(%s) %v %v", nv.name, p, err)
				}
				how := r.IntN(3)
				if !o.tok {
					how = 0
				}
				names = append(names, nv.name+[]string{"/MarshalEncode", "/WriteValue", "/WriteToken"}[how])
				if p := guard(func() {
					switch how {
					case 0:
						err = json.MarshalEncode(enc, nv.v)
					case 1:
						err = enc.WriteValue(jsontext.Value(want))
					case 2:
						var steps []c07Step
						steps, err = c07Script(r, want, 0)
						for _, s := range steps {
							if err == nil {
								err = s.apply(enc)
							}
						}
					}
				}); p != nil {
					c.c07P(op, nil, p, det("index", i))
					break
				}
				if err != nil {
					c.c07V("error", op, nil, det("index", i, "err", err.Error()))
					break
				}
				expect = append(append(expect, want...), '\n')
				got := w.acc
				if useBB {
					got = bb.Bytes()
				}
				c.Case(op+strconv.Itoa(si)+nv.name, true)
				if !c.c07CheckEq("differs", op, expect, got, det("index", i)) {
					break
				}
				c.c07NothingBuffered(op, enc, len(got), !useBB, det)
			}
		}
	}
	l.hits["top-level-sequences"] += int64(nseq)
}

// ---------------------------------------------------------------------------------------------
// P4/P5: token-level Encoder

type c07Step struct {
	tok   jsontext.Token // used when val == nil
	val   jsontext.Value
	depth int // nesting depth after the step (0 = a top-level value is complete)
}

// c07Script turns JSON text (one or more top-level values) into a mix of WriteToken / WriteValue steps.
func c07Script(r *rand.Rand, text []byte, pValue float64) ([]c07Step, error) {
	dec := jsontext.NewDecoder(bytes.NewReader(text), jsontext.AllowDuplicateNames(true))
	var steps []c07Step
	for {
		k := dec.PeekKind()
		if k == 0 {
			break
		}
		if k != '}' && k != ']' && r.Float64() < pValue {
			v, err := dec.ReadValue()
			if err != nil {
				return nil, err
			}
			steps = append(steps, c07Step{val: v.Clone(), depth: dec.StackDepth()})
			continue
		}
		t, err := dec.ReadToken()
		if err != nil {
			return nil, err
		}
		steps = append(steps, c07Step{tok: t.Clone(), depth: dec.StackDepth()})
	}
	return steps, nil
}

func (s c07Step) apply(enc *jsontext.Encoder) error {
	if s.val != nil {
		return enc.WriteValue(s.val)
	}
	return enc.WriteToken(s.tok)
}

// c07RefPointers computes StackPointer after every step independently of the library's name stack.
func c07RefPointers(steps []c07Step) []string {
	type frame struct {
		obj  bool
		n    int // tokens written in this frame (names + values for objects)
		name string
	}
	var st []frame
	esc := strings.NewReplacer("~", "~0", "/", "~1")
	render := func() string {
		var sb strings.Builder
		for i, f := range st {
			last := i == len(st)-1
			if f.obj {
				if last && f.n == 0 {
					break
				}
				sb.WriteString("/" + esc.Replace(f.name))
			} else {
				if last && f.n == 0 {
					break
				}
				sb.WriteString("/" + strconv.Itoa(f.n-1))
			}
		}
		return sb.String()
	}
	bump := func(name string, isStr bool) {
		if len(st) == 0 {
			return
		}
		f := &st[len(st)-1]
		if f.obj && f.n%2 == 0 && isStr {
			f.name = name
		}
		f.n++
	}
	out := make([]string, len(steps))
	for i, s := range steps {
		k := s.tok.Kind()
		if s.val != nil {
			k = s.val.Kind()
		}
		switch {
		case s.val == nil && (k == '{' || k == '['):
			bump("", false)
			st = append(st, frame{obj: k == '{'})
		case s.val == nil && (k == '}' || k == ']'):
			st = st[:len(st)-1]
		case k == '"':
			var name string
			if s.val != nil {
				b, err := jsonwire.AppendUnquote(nil, []byte(s.val))
				if err != nil {
					fail("c07: unquote: %v", err)
				}
				name = string(b)
			} else {
				name = s.tok.String()
			}
			bump(name, true)
		default:
			bump("", false)
		}
		out[i] = render()
	}
	return out
}

type c07Trace struct {
	streams [][]byte // accepted ++ unflushed after each step
	ptrs    []string
	errs    int
}

func (c *Ctx) c07Tokens(l *c07Local, r *rand.Rand, text []byte, o c07Opt, expect []byte, nsched int, what string) {
	op := "Encoder/" + what + "/" + o.name
	var steps []c07Step
	var serr error
	if p := guard(func() { steps, serr = c07Script(r, text, c07Pick(r, []float64{0, 0.1, 0.5})) }); p != nil {
		c.c07P("Decoder(on Marshal output):"+op, text, p, nil)
		return
	}
	if serr != nil { // Marshal's own output does not tokenize: the retraction logic corrupted it
		c.c07V("marshal-output-not-json", "Marshal", text, c07Detail("err", serr.Error(), "text", text))
		return
	}
	if len(steps) == 0 {
		return
	}
	ref := c07RefPointers(steps)
	l.hit("token-script-steps:" + c07SizeBucket(len(steps)))
	det := func(kv ...any) map[string]any {
		return c07Detail(append([]any{"opts", o.name, "steps", len(steps), "text", text}, kv...)...)
	}

	// run executes the script; w == nil && bb == nil: pooled buffered encoder without a writer (never flushes).
	run := func(name string, w *c07Writer, bb *bytes.Buffer, final bool) (tr c07Trace, out []byte, ok bool) {
		var enc *jsontext.Encoder
		ok = true
		if p := guard(func() {
			switch {
			case w != nil:
				enc = jsontext.NewEncoder(w, o.opts...)
			case bb != nil:
				enc = jsontext.NewEncoder(bb, o.opts...)
			default:
				enc = c07export.GetBufferedEncoder(o.opts...)
			}
			xe := c07export.Encoder(enc)
			for i, s := range steps {
				err := s.apply(enc)
				if err != nil {
					tr.errs++
					if w == nil || !c07IsInjected(err) {
						c.c07V("token-rejected", op+":"+name, nil, det("step", i, "err", err.Error(), "writer_faults", func() int {
							if w != nil {
								return w.faults
							}
							return 0
						}()))
						ok = false
						return
					}
				}
				if w != nil {
					tr.streams = append(tr.streams, append(append([]byte{}, w.acc...), xe.Buf...))
				}
				tr.ptrs = append(tr.ptrs, string(enc.StackPointer()))
			}
			if final && w != nil { // the writer has healed: one more top-level value drains whatever is still buffered
				w.sched = nil
				if err := enc.WriteToken(jsontext.Null); err != nil {
					c.c07V("token-rejected", op+":"+name, nil, det("step", "final null", "err", err.Error()))
					ok = false
					return
				}
			}
			switch {
			case w != nil:
				out = w.acc
			case bb != nil:
				out = bb.Bytes()
			default:
				out = bytes.Clone(xe.Buf)
				c07export.PutBufferedEncoder(enc)
			}
		}); p != nil {
			c.c07P(op+":"+name, nil, p, det())
			ok = false
		}
		return
	}

	// fault-free plain writer: the reference trace
	w0 := &c07Writer{}
	t0, out0, ok := run("plain", w0, nil, false)
	if !ok {
		return
	}
	c.Case(op+string(text[:min(len(text), 64)])+strconv.Itoa(len(text)), len(text) > 48)
	l.writes("Encoder", w0.sizes)
	if expect != nil {
		c.c07CheckEq("differs", op+":plain", expect, out0, det("writes", w0.sizes))
	}
	checkPtrs := func(name string, got []string) {
		for i := range ref {
			if i < len(got) && got[i] != ref[i] {
				c.c07V("pointer-differs", op+":"+name, nil, det("step", i, "want", ref[i], "got", got[i], "writes", w0.sizes))
				return
			}
		}
	}
	checkPtrs("plain", t0.ptrs)
	if len(w0.sizes) > 1 {
		l.hit("pointer-checked-after-flush")
	}

	// unflushed run and *bytes.Buffer run
	if tu, outu, ok := run("unflushed", nil, nil, false); ok {
		checkPtrs("unflushed", tu.ptrs)
		if steps[len(steps)-1].depth == 0 && bytes.Count(out0, []byte("\n")) >= 1 && expect != nil && what == "single" {
			c.c07CheckEq("differs", op+":unflushed", bytes.TrimSuffix(expect, []byte("\n")), outu, det())
		}
	}
	if tb, outb, ok := run("bytes.Buffer", nil, new(bytes.Buffer), false); ok {
		checkPtrs("bytes.Buffer", tb.ptrs)
		c.c07CheckEq("differs", op+":bytes.Buffer", out0, outb, det())
	}

	// fault schedules
	nw := len(w0.sizes)
	var scheds [][]c07Act
	for j := 0; j < nw && len(scheds) < nsched; j++ { // every single-fault position (capped), each mode
		jj := j
		if nw > nsched/3 {
			jj = r.IntN(nw)
		}
		for mode := c07Err0; mode <= c07ErrN; mode++ {
			s := make([]c07Act, jj+1)
			s[jj] = c07Act{mode, c07Pick(r, []int{0, 1, 2, 5, 47, r.IntN(200)})}
			scheds = append(scheds, s)
		}
	}
	for i := 0; i < 4; i++ { // multi-fault schedules: dense, sparse, always-fail, one-byte-at-a-time
		s := make([]c07Act, 2*nw+8)
		for j := range s {
			switch i {
			case 0:
				if r.IntN(2) == 0 {
					s[j] = c07Act{1 + r.IntN(3), r.IntN(64)}
				}
			case 1:
				if r.IntN(5) == 0 {
					s[j] = c07Act{1 + r.IntN(3), r.IntN(64)}
				}
			case 2:
				s[j] = c07Act{c07Err0, 0}
			case 3:
				s[j] = c07Act{c07Short, 1}
			}
		}
		scheds = append(scheds, s)
	}
	wantFinal := append(append([]byte{}, out0...), "null\n"...)
	for si, s := range scheds {
		fw := &c07Writer{sched: s}
		tf, outf, ok := run("faulty", fw, nil, true)
		if !ok {
			continue
		}
		c.Case(op+"/sched", true)
		l.hit("token-fault-schedule")
		if fw.faults > 0 {
			l.hit("token-fault-schedule:faults-hit")
		}
		if tf.errs > 0 {
			l.hit("token-call-returned-io-error")
		}
		d := det("schedule", s[:min(len(s), 24)], "schedule_index", si, "writes", fw.sizes[:min(len(fw.sizes), 40)], "faults", fw.faults)
		c.c07CheckEq("lost-or-duplicated", op+":faulty-final", wantFinal, outf, d)
		for i := range t0.streams {
			if i < len(tf.streams) && !bytes.Equal(t0.streams[i], tf.streams[i]) {
				d["step"] = i
				c.c07CheckEq("lost-or-duplicated", op+":faulty-step", t0.streams[i], tf.streams[i], d)
				break
			}
		}
		checkPtrs("faulty", tf.ptrs)
	}
}

// ---------------------------------------------------------------------------------------------
// P6 + correspondence: trim functions, avoidFlush, UnwriteEmptyObjectMember

func c07RefTrimWS(b []byte) []byte {
	for len(b) > 0 && strings.IndexByte(" \t\r\n", b[len(b)-1]) >= 0 {
		b = b[:len(b)-1]
	}
	return b
}

// c07RefTrimString is written from the documentation ("trims a valid JSON string at the end of b") for inputs that do
// end in a string literal: find the opening quote as the last '"' before the closing one that is not preceded by '\'.
// For other inputs it follows the same scan (the Go function's behaviour there is "undefined" but deterministic).
func c07RefTrimString(b []byte) []byte {
	n := len(b)
	if n > 0 && b[n-1] == '"' {
		n--
	}
	for n >= 2 {
		if b[n-1] == '"' && b[n-2] != '\\' {
			break
		}
		n--
	}
	if n > 0 && b[n-1] == '"' {
		n--
	}
	return b[:n]
}

func c07RefUnwriteEmpty(b []byte) ([]byte, bool) {
	n := 0
	if len(b) >= 3 {
		switch string(b[len(b)-2:]) {
		case "ll":
			n = 4
		case `""`:
			if b[len(b)-3] == '\\' {
				return b, false
			}
			n = 2
		case "{}", "[]":
			n = 2
		}
	}
	if n == 0 {
		return b, false
	}
	if n > len(b) { // `ll` in a 3-byte buffer: the real function slices out of range (unreachable through the encoder)
		panic("c07ref: unwrite out of range")
	}
	b = b[:len(b)-n]
	b = c07RefTrimWS(b)
	b = bytes.TrimSuffix(b, []byte(":"))
	b = c07RefTrimString(b)
	b = c07RefTrimWS(b)
	b = bytes.TrimSuffix(b, []byte(","))
	return b, true
}

func (c *Ctx) c07Trims(or *Oracle, useOracle bool) {
	alphabet := []byte{'"', '\\', ' ', '\n', ',', ':', 'a', 'l', '{', '}'}
	var inputs [][]byte
	maxLen := c.N(4, 6)
	var rec func(cur []byte)
	rec = func(cur []byte) {
		inputs = append(inputs, append([]byte{}, cur...))
		if len(cur) == maxLen {
			return
		}
		for _, a := range alphabet {
			rec(append(cur, a))
		}
	}
	rec(nil)
	full := []byte{'"', '\\', ' ', '\t', '\r', '\n', ',', ':', 'a', 'l', '{', '}', '[', ']', 'n', 'u', 0, 0x7f, 0xc3, 0xa9}
	for i := 0; i < c.N(20000, 400000); i++ {
		n := 6 + c.Rng.IntN(40)
		b := make([]byte, n)
		for j := range b {
			b[j] = full[c.Rng.IntN(len(full))]
		}
		inputs = append(inputs, b)
	}
	c.SetExhaustive(false)
	const batch = 20000
	for lo := 0; lo < len(inputs); lo += batch {
		hi := min(lo+batch, len(inputs))
		var lines []string
		if useOracle {
			for _, b := range inputs[lo:hi] {
				h := hx(b)
				lines = append(lines, "flush trimws "+h, "flush trimstr "+h, "flush trimbyte "+h+" 2c", "flush trimbyte "+h+" 3a", "flush hassuffix "+h+" 22", "flush unwE "+h)
			}
		}
		var ans []string
		if useOracle {
			ans = or.Ask(lines)
		}
		for i, b := range inputs[lo:hi] {
			var tw, ts, tb1, tb2 []byte
			var hs bool
			if p := guard(func() {
				tw = jsonwire.TrimSuffixWhitespace(b)
				ts = jsonwire.TrimSuffixString(b)
				tb1 = jsonwire.TrimSuffixByte(b, ',')
				tb2 = jsonwire.TrimSuffixByte(b, ':')
				hs = jsonwire.HasSuffixByte(b, '"')
			}); p != nil {
				c.c07P("jsonwire.TrimSuffix*", b, p, nil)
				continue
			}
			c.Case("trim"+string(b), len(b) >= 2)
			unw := "P" // the byte-level part of UnwriteEmptyObjectMember is unexported: Go reference vs model only
			if guard(func() {
				ub, uok := c07RefUnwriteEmpty(b)
				unw = boolStr(uok) + " " + hx(ub)
			}) != nil {
				unw = "P"
			}
			got := []string{hx(tw), hx(ts), hx(tb1), hx(tb2), boolStr(hs), unw}
			refs := []string{hx(c07RefTrimWS(b)), hx(c07RefTrimString(b)), hx(bytes.TrimSuffix(b, []byte(","))), hx(bytes.TrimSuffix(b, []byte(":"))),
				boolStr(bytes.HasSuffix(b, []byte(`"`))), got[5]}
			names := []string{"trimws", "trimstr", "trimbyte,", "trimbyte:", "hassuffix", "unwE"}
			for k := range got {
				if got[k] != refs[k] {
					c.c07V("corr-go-reference", "jsonwire."+names[k], b, c07Detail("impl", got[k], "reference", refs[k]))
				}
				if useOracle && ans[6*i+k] != got[k] {
					c.c07V("corr-model", "flush "+names[k], b, c07Detail("impl", got[k], "model", ans[6*i+k]))
				}
			}
		}
	}
	c.HitN("trim-inputs", int64(len(inputs)))

	// the specification on the implementation: trimSuffixString(p ++ quote(s)) == p whenever p does not end in '\'
	for i := 0; i < c.N(30000, 600000); i++ {
		p := make([]byte, c.Rng.IntN(8))
		for j := range p {
			p[j] = full[c.Rng.IntN(len(full))]
		}
		if len(p) > 0 && p[len(p)-1] == '\\' {
			p[len(p)-1] = ','
		}
		s := make([]byte, c.Rng.IntN(10))
		for j := range s {
			s[j] = full[c.Rng.IntN(len(full)-4)] // no invalid UTF-8 here
		}
		var fl jsonflags.Flags
		if c.Rng.IntN(2) == 0 {
			fl.Set(jsonflags.EscapeForHTML | jsonflags.EscapeForJS | 1)
		}
		q, err := jsonwire.AppendQuote(nil, s, &fl)
		if err != nil {
			continue
		}
		in := append(append([]byte{}, p...), q...)
		var got []byte
		if pn := guard(func() { got = jsonwire.TrimSuffixString(in) }); pn != nil {
			c.c07P("jsonwire.TrimSuffixString", in, pn, nil)
			continue
		}
		c.Case("trimspec"+string(in), true)
		if !bytes.Equal(got, p) {
			c.c07V("trim-string-spec", "jsonwire.TrimSuffixString", in, c07Detail("prefix", p, "literal", q, "got", got))
		}
	}
}

func boolStr(b bool) string {
	if b {
		return "1"
	}
	return "0"
}

// c07Direct drives the real encoderState: Flush() must be suppressed exactly where avoidFlush says, and
// UnwriteEmptyObjectMember must act on the bytes as the model/reference does.
func (c *Ctx) c07Direct(or *Oracle, useOracle bool) {
	values := []string{"null", `""`, "{}", "[]", `"\""`, `"\\"`, `"a"`, "0", "true", "false", `[null]`, `{"a":null}`, `"ll"`, `"\"\""`, "[[]]", `[""]`, `"{}"`, `[0,{}]`, `{"a":{}}`, `"\\\""`}
	names := []string{`"n"`, `""`, `"\""`, `"\\"`, `"a,b"`, `"a:b"`, `" "`, `"ll"`, `"\\\""`, `"é"`}
	optsets := [][]jsontext.Options{nil, {jsontext.Multiline(true)}, {jsontext.SpaceAfterColon(true), jsontext.SpaceAfterComma(true)}, {jsontext.WithIndent(" "), jsontext.SpaceAfterColon(true)}}
	type probe struct {
		before, after []byte
		ok            bool
	}
	var probes []probe
	for oi, os := range optsets {
		for _, first := range []string{"", `"x"`, "[]"} { // value of an earlier member, "" = none
			for _, nm := range names {
				for _, val := range values {
					for _, preflush := range []bool{false, true} {
						w := &c07Writer{}
						var pr probe
						var flushedAfterName, flushedAfterValue, flushedAfterOpen, second, secondOK bool
						opn := fmt.Sprintf("direct/opts%d/first=%s/name=%s/value=%s/preflush=%v", oi, first, nm, val, preflush)
						if p := guard(func() {
							enc := jsontext.NewEncoder(w, os...)
							xe := c07export.Encoder(enc)
							must := func(err error) {
								if err != nil {
									fail("c07 direct: %v", err)
								}
							}
							must(enc.WriteToken(jsontext.BeginObject))
							n0 := len(w.sizes)
							must(xe.Flush())
							flushedAfterOpen = len(w.sizes) > n0
							if first != "" {
								must(enc.WriteValue(jsontext.Value(`"first"`)))
								must(enc.WriteValue(jsontext.Value(first)))
								if preflush {
									must(xe.Flush()) // may or may not be suppressed; either way the next member must still be retractable
								}
							}
							must(enc.WriteValue(jsontext.Value(nm)))
							n0 = len(w.sizes)
							must(xe.Flush())
							flushedAfterName = len(w.sizes) > n0
							must(enc.WriteValue(jsontext.Value(val)))
							n0 = len(w.sizes)
							must(xe.Flush())
							flushedAfterValue = len(w.sizes) > n0
							if !flushedAfterValue {
								pr.before = bytes.Clone(xe.Buf)
								var prev *string
								if first != "" {
									s := "first"
									prev = &s
								}
								pr.ok = xe.UnwriteEmptyObjectMember(prev)
								pr.after = bytes.Clone(xe.Buf)
								if pr.ok && first != "" && preflush {
									// undisciplined: a SECOND UnwriteEmptyObjectMember directly after the first one
									// (theorem flush_indep_undisciplined_full): it may only retract an empty `first`
									second = true
									secondOK = xe.UnwriteEmptyObjectMember(nil)
								}
								if pr.ok { // the object continues as if the member had never been written
									must(enc.WriteValue(jsontext.Value(`"z"`)))
									must(enc.WriteValue(jsontext.Value(`1`)))
								}
								must(enc.WriteToken(jsontext.EndObject))
							}
						}); p != nil {
							c.c07P(opn, nil, p, nil)
							continue
						}
						c.Case(opn, true)
						var compact []byte
						(*jsontext.Value)(&compact).UnmarshalJSON([]byte(val))
						_ = (*jsontext.Value)(&compact).Compact()
						emptyVal := val == "null" || val == `""` || val == "{}" || val == "[]"
						endsEmpty := bytes.HasSuffix(compact, []byte("ll")) || bytes.HasSuffix(compact, []byte(`""`)) || bytes.HasSuffix(compact, []byte("{}")) || bytes.HasSuffix(compact, []byte("[]"))
						if flushedAfterOpen || flushedAfterName {
							c.c07V("flush-not-suppressed", "encoderState.Flush(direct)", nil, c07Detail("case", opn, "after_open", flushedAfterOpen, "after_name", flushedAfterName))
						}
						if flushedAfterValue == endsEmpty { // avoidFlush: suppressed iff the last two bytes are ll "" {} []
							c.c07V("avoidflush-differs", "encoderState.Flush(direct)", nil, c07Detail("case", opn, "flushed_after_value", flushedAfterValue, "value_ends_like_empty", endsEmpty))
						}
						if flushedAfterValue {
							c.Hit("direct:flushed-after-nonempty-value")
							continue
						}
						c.Hit("direct:unwrite-attempted")
						if pr.ok != emptyVal {
							c.c07V("empty-detect", "encoderState.UnwriteEmptyObjectMember(direct)", pr.before, c07Detail("case", opn, "unwrote", pr.ok, "value_is_empty", emptyVal))
						}
						rb, rok := c07RefUnwriteEmpty(pr.before)
						if rok != pr.ok || !bytes.Equal(rb, pr.after) {
							c.c07V("corr-go-reference", "UnwriteEmptyObjectMember", pr.before, c07Detail("impl_ok", pr.ok, "impl_after", pr.after, "ref_ok", rok, "ref_after", rb))
						}
						// the stream: with the member retracted it must be the object without that member
						if pr.ok {
							c.Hit("direct:unwritten")
							var want bytes.Buffer
							we := jsontext.NewEncoder(&want, os...)
							we.WriteToken(jsontext.BeginObject)
							if second {
								c.Hit("direct:second-unwrite")
								if secondOK != (first == "[]") {
									c.c07V("empty-detect", "encoderState.UnwriteEmptyObjectMember(direct,second call)", pr.before, c07Detail("case", opn, "unwrote", secondOK, "first", first))
								}
							}
							if first != "" && !secondOK {
								we.WriteValue(jsontext.Value(`"first"`))
								we.WriteValue(jsontext.Value(first))
							}
							we.WriteValue(jsontext.Value(`"z"`))
							we.WriteValue(jsontext.Value(`1`))
							we.WriteToken(jsontext.EndObject)
							c.c07CheckEq("unwrite-stream", "encoderState.UnwriteEmptyObjectMember(direct)", want.Bytes(), w.acc, c07Detail("case", opn, "writes", w.sizes))
						}
						probes = append(probes, pr)
					}
				}
			}
		}
	}
	if useOracle {
		lines := make([]string, len(probes))
		for i, p := range probes {
			lines[i] = "flush unwE " + hx(p.before)
		}
		for i, a := range or.Ask(lines) {
			if got := boolStr(probes[i].ok) + " " + hx(probes[i].after); a != got {
				c.c07V("corr-model", "flush unwE (real encoderState)", probes[i].before, c07Detail("impl", got, "model", a))
			}
		}
	}
}

// ---------------------------------------------------------------------------------------------

func runC07(c *Ctx) {
	or := c.NewOracle()
	useOracle := false
	if or != nil {
		if a := or.Ask1("flush trimws 2020"); a == "-" {
			useOracle = true
		} else {
			c.Note("oracle family `flush` not available (%q): trim functions validated against the Go reference only", a)
		}
	}
	t0 := time.Now()
	c.c07Trims(or, useOracle)
	c.Note("phase trims: %.1fs", time.Since(t0).Seconds())
	t0 = time.Now()
	c.c07Direct(or, useOracle)
	c.Note("phase direct: %.1fs", time.Since(t0).Seconds())
	t0 = time.Now()

	opts := c07Opts()
	maxSize := c.N(9000, 20000)
	workers := c.N(8, 16)
	type job struct{ lo, hi int }
	jobs := make(chan job, 1024)
	var wg sync.WaitGroup
	var workerPanic atomic.Pointer[any]
	locals := make([]*c07Local, workers)
	for wi := 0; wi < workers; wi++ {
		locals[wi] = newC07Local()
		wg.Add(1)
		go func(wi int) {
			defer wg.Done()
			defer func() {
				if r := recover(); r != nil {
					workerPanic.CompareAndSwap(nil, &r)
					for range jobs { // drain so that the producer does not block
					}
				}
			}()
			l := locals[wi]
			for jb := range jobs {
				r := rand.New(rand.NewPCG(c.Seed, 0xC07<<32+uint64(jb.lo)))
				for size := jb.lo; size < jb.hi; {
					for which := 0; which < c07NumShapes; which++ {
						if !c.Thorough() && which != 0 && which != 7 && which != size%c07NumShapes && r.IntN(4) != 0 {
							continue // quick: every size gets the swept-pad record, the bare string, its "own" shape and a random quarter of the others
						}
						sh := c07Shapes(r, size, which)
						for oi, o := range opts {
							if oi != (size/3)%len(opts) && r.IntN(c.N(5, 3)) != 0 {
								continue // every (size, shape) gets one option set in rotation plus a random 1/5 (thorough 1/3) of the others
							}
							c.c07Marshal(l, r, sh, o, c.N(3, 6))
						}
						// token-level scripts from the compact encoding of the same value
						if size <= 3000 && (c.Thorough() || r.IntN(6) == 0) {
							o := opts[r.IntN(len(opts))]
							if !o.tok {
								o = opts[0]
							}
							mopts := o.opts
							if sh.det {
								mopts = append(append([]json.Options{}, mopts...), json.Deterministic(true))
							}
							text, err := json.Marshal(sh.v, json.Deterministic(true))
							if err != nil {
								fail("c07: %v", err)
							}
							expect, err := json.Marshal(sh.v, mopts...)
							if err != nil {
								fail("c07: %v", err)
							}
							c.c07Tokens(l, r, text, o, append(expect, '\n'), c.N(9, 30), "single")
							if r.IntN(3) == 0 { // several top-level values: a newline after each
								multi := append(append(append([]byte{}, text...), " 17 "...), text...)
								c.c07Tokens(l, r, multi, o, nil, c.N(6, 12), "multi")
							}
						}
					}
					if c.Thorough() {
						size++
					} else {
						size += 1 + r.IntN(7)
					}
				}
			}
		}(wi)
	}
	for lo := 0; lo <= maxSize; lo += 50 {
		jobs <- job{lo, min(lo+50, maxSize+1)}
	}
	close(jobs)
	wg.Wait()
	if p := workerPanic.Load(); p != nil {
		panic(*p) // re-raise in the main goroutine (machinery failures exit 2 there)
	}
	c.Note("phase sweep: %.1fs", time.Since(t0).Seconds())
	t0 = time.Now()

	// values larger than the 4 KiB buffer ceiling and than the 64 KiB pool limit
	l := locals[0]
	c.c07Degenerate(l, c.Rng, opts)
	c.Note("phase degenerate: %.1fs", time.Since(t0).Seconds())
	t0 = time.Now()
	for _, n := range []int{4095, 4096, 4097, 5000, 12288, 65535, 65536, 65537, 70000, 200000} {
		for which := 0; which < c07NumShapes; which++ {
			if n > 70000 && which != 0 && which != 7 {
				continue
			}
			sh := c07Shapes(c.Rng, n, which)
			for _, o := range []c07Opt{opts[0], opts[1], opts[4]} {
				c.c07Marshal(l, c.Rng, sh, o, 4)
			}
		}
	}

	c.Note("phase large: %.1fs", time.Since(t0).Seconds())
	// merge
	covered, maxGap, gap := 0, 0, 0
	seen := make([]bool, maxSize+1)
	for _, l := range locals {
		for k, v := range l.hits {
			c.HitN(k, v)
		}
		for i := range seen {
			if l.sizes[i] {
				seen[i] = true
			}
		}
	}
	for i := range seen {
		if seen[i] {
			covered++
			gap = 0
		} else {
			gap++
			maxGap = max(maxGap, gap)
		}
	}
	c.Note("encoded sizes 0..%d: %d distinct sizes produced, largest gap %d", maxSize, covered, maxGap)
	c.HitN("MarshalJSONTo:omitempty-member-written-in-streaming-run", c07Stat.emptyAfterFlush.Load())
	c.HitN("MarshalJSONTo:omitempty-member-written-while-flush-due(suppressed)", c07Stat.emptyFlushDue.Load())
	c.Note("a writer that returns n < len(p) with a nil error violates the io.Writer contract; Flush treats it as success and drops the tail (not exercised as a predicate)")
	c.Sample(map[string]any{"predicate": "concat(writes) == Marshal(v) (+\\n for an Encoder); faulty writer: error returned, accepted is a prefix; token Encoder: accepted ++ buffered equal to the fault-free run after every call"})
}
