package main

// C20 — Resource use is bounded: depth limit, cycle detection, no panics.
//
// (a) depth sweep: texts and Go values nested 9998..10002 deep in every mix of arrays and objects,
//     on every path that reads, skips, validates, formats or writes nested values; the predicate is
//     accept ⇔ depth ≤ 10000, refusal is an error of class max-depth, never a panic.
//     The limit itself is cross-checked against the proven Lean model (oracle family `depth`).
// (b) cyclic Go values through every pointer-like kind, each in a subprocess (c20_sub.go).
// (c) panic / termination sweep over random and mutated inputs on the main entry points, each
//     call under guard() and a watchdog; v1.Indent with arbitrary prefix/indent in a subprocess.

import (
	"bytes"
	"errors"
	"fmt"
	"io"
	"math"
	"math/rand/v2"
	"os"
	"reflect"
	"regexp"
	"runtime/debug"
	"sort"
	"strings"
	"sync"
	"sync/atomic"
	"testing/iotest"
	"time"

	json "github.com/go-json-experiment/json"
	"github.com/go-json-experiment/json/jsontext"
	jsonv1 "github.com/go-json-experiment/json/v1"
)

func init() { register("C20", runC20) }

const c20Max = 10000 // the documented limit; Props/C20.lean proves Gen.jsontext.c_maxNestingDepth = 10000

func runC20(c *Ctx) {
	t0 := time.Now()
	only := os.Getenv("C20_ONLY") // development aid: run one phase (oracle|depth|cycles|indent|sweep)
	phase := func(name string, f func(*Ctx)) {
		if only != "" && only != name {
			return
		}
		f(c)
		c.Note("phase %s done at %.1fs", name, time.Since(t0).Seconds())
	}
	phase("oracle", c20OracleCheck)
	phase("depth", c20DepthSweep)
	phase("leaf", c20MarshalLeafSweep)
	phase("cycles", c20Cycles)
	phase("indent", c20IndentSweep)
	phase("sweep", c20PanicSweep)
	phase("optpos", c20OptionPositionSweep)
}

func c20Workers(c *Ctx) int {
	if c.Thorough() {
		return 14
	}
	return 4
}

// =====================================================================================
// (a) depth sweep
// =====================================================================================

// nest describes one nested text / Go value: kinds[i] is 'A' or 'O' for level i+1 (outermost first).
type nest struct {
	pat   string
	kinds []byte
	leaf  string // "" (innermost container empty), or a scalar text
	fat   bool   // every container has a scalar sibling before the nested child
}

func (s nest) depth() int { return len(s.kinds) }
func (s nest) id() string {
	return fmt.Sprintf("%s d=%d leaf=%q fat=%v", s.pat, len(s.kinds), s.leaf, s.fat)
}

// text renders the nested value; opens[i] is the byte offset of the (i+1)-th opening bracket.
func (s nest) text() (b []byte, opens []int) {
	opens = make([]int, len(s.kinds))
	for i, k := range s.kinds {
		opens[i] = len(b)
		last := i == len(s.kinds)-1
		if k == 'A' {
			b = append(b, '[')
			if s.fat && !(last && s.leaf == "") {
				b = append(b, "0,"...)
			}
		} else {
			b = append(b, '{')
			if s.fat && !(last && s.leaf == "") {
				b = append(b, `"b":0,`...)
			}
			if !(last && s.leaf == "") {
				b = append(b, `"a":`...)
			}
		}
	}
	b = append(b, s.leaf...)
	for i := len(s.kinds) - 1; i >= 0; i-- {
		if s.kinds[i] == 'A' {
			b = append(b, ']')
		} else {
			b = append(b, '}')
		}
	}
	return b, opens
}

// goValue builds the same value out of []any / map[string]any.
func (s nest) goValue() any {
	var v any
	hasLeaf := s.leaf != ""
	switch s.leaf {
	case "0":
		v = 0.0
	case `"x"`:
		v = "x"
	case "null":
		v = nil
	}
	for i := len(s.kinds) - 1; i >= 0; i-- {
		last := i == len(s.kinds)-1
		if s.kinds[i] == 'A' {
			switch {
			case last && !hasLeaf:
				v = []any{}
			case s.fat:
				v = []any{0.0, v}
			default:
				v = []any{v}
			}
		} else {
			switch {
			case last && !hasLeaf:
				v = map[string]any{}
			case s.fat:
				v = map[string]any{"b": 0.0, "a": v}
			default:
				v = map[string]any{"a": v}
			}
		}
	}
	return v
}

func c20Kinds(pat string, d int, rng *rand.Rand) []byte {
	k := make([]byte, d)
	for i := range k {
		switch pat {
		case "allA":
			k[i] = 'A'
		case "allO":
			k[i] = 'O'
		case "altAO":
			k[i] = "AO"[i%2]
		case "altOA":
			k[i] = "OA"[i%2]
		case "lastO": // arrays with an object innermost (and vice versa below)
			k[i] = 'A'
			if i == d-1 {
				k[i] = 'O'
			}
		case "lastA":
			k[i] = 'O'
			if i == d-1 {
				k[i] = 'A'
			}
		default: // random mix
			k[i] = "AO"[rng.IntN(2)]
		}
	}
	return k
}

// Recursive Go types for typed targets.
type c20TS []c20TS
type c20TM map[string]c20TM
type c20TR struct {
	A *c20TR `json:"a,omitzero"`
}
type c20TAP [1]*c20TAP
type c20Skip struct {
	X int `json:"x"`
}
type c20RawM struct{ raw []byte }

func (r c20RawM) MarshalJSON() ([]byte, error) { return r.raw, nil }

var errRefused = errors.New("refused (boolean result)")

// one path: how the nested value reaches the library.  v2: refusal must carry class max-depth.
type c20Path struct {
	name  string
	v2    bool
	apply func(s nest) bool // does the path apply to this nest
	run   func(s nest, text []byte, opens []int) error
}

func always(nest) bool { return true }

func c20ReadAll(d *jsontext.Decoder) error {
	for {
		if _, err := d.ReadToken(); err != nil {
			if err == io.EOF {
				return nil
			}
			return err
		}
	}
}

// c20Descend reads tokens until k containers are open (k ≤ depth); for objects also the name of the nested member.
func c20Descend(d *jsontext.Decoder, s nest, k int) error {
	for i := 0; i < k; i++ {
		tok, err := d.ReadToken()
		if err != nil {
			return err
		}
		want := jsontext.Kind('[')
		if s.kinds[i] == 'O' {
			want = '{'
		}
		if tok.Kind() != want {
			fail("descend: level %d: kind %v want %v", i, tok.Kind(), want)
		}
		last := i == len(s.kinds)-1
		if last && s.leaf == "" {
			continue
		}
		if s.fat {
			if s.kinds[i] == 'O' {
				if _, err := d.ReadToken(); err != nil { // "b"
					return err
				}
			}
			if _, err := d.ReadToken(); err != nil { // 0
				return err
			}
		}
		if s.kinds[i] == 'O' {
			if _, err := d.ReadToken(); err != nil { // "a"
				return err
			}
		}
	}
	return nil
}

// c20EncDescend writes tokens until k containers are open.
func c20EncDescend(e *jsontext.Encoder, s nest, k int) (int, error) {
	for i := 0; i < k; i++ {
		tok := jsontext.BeginArray
		if s.kinds[i] == 'O' {
			tok = jsontext.BeginObject
		}
		if err := e.WriteToken(tok); err != nil {
			return i, err
		}
		last := i == len(s.kinds)-1
		if last && s.leaf == "" {
			continue
		}
		if s.fat {
			if s.kinds[i] == 'O' {
				if err := e.WriteToken(jsontext.String("b")); err != nil {
					return i, err
				}
			}
			if err := e.WriteToken(jsontext.Int(0)); err != nil {
				return i, err
			}
		}
		if s.kinds[i] == 'O' {
			if err := e.WriteToken(jsontext.String("a")); err != nil {
				return i, err
			}
		}
	}
	return k, nil
}

func c20EncAscend(e *jsontext.Encoder, s nest, k int) error {
	for i := k - 1; i >= 0; i-- {
		tok := jsontext.EndArray
		if s.kinds[i] == 'O' {
			tok = jsontext.EndObject
		}
		if err := e.WriteToken(tok); err != nil {
			return err
		}
	}
	return nil
}

// sub returns the nest below level k (levels k+1..d) — the value that is next after c20Descend(k).
func (s nest) sub(k int) nest { return nest{s.pat, s.kinds[k:], s.leaf, s.fat} }

func allKind(s nest, k byte) bool {
	for _, x := range s.kinds {
		if x != k {
			return false
		}
	}
	return true
}

func c20Paths(c *Ctx) []c20Path {
	thorough := c.Thorough()
	// Multiline output costs O(depth²) steps even with an empty indent (AppendIndent loops depth times per
	// token): in the quick tier only around the limit and for two patterns.
	indentApplies := func(s nest) bool {
		if thorough {
			return true
		}
		d := s.depth()
		return (d == c20Max || d == c20Max+1) && !s.fat && (s.pat == "allA" && s.leaf != "" || s.pat == "altAO")
	}
	dec := func(mk func(b []byte) io.Reader, f func(d *jsontext.Decoder, s nest) error) func(nest, []byte, []int) error {
		return func(s nest, t []byte, _ []int) error {
			d := jsontext.NewDecoder(mk(t))
			if err := f(d, s); err != nil {
				return err
			}
			return c20ReadAll(d) // the rest must be consumable and end in io.EOF
		}
	}
	rdBytes := func(b []byte) io.Reader { return bytes.NewReader(b) }
	rdBuf := func(b []byte) io.Reader { return bytes.NewBuffer(b) }
	rdOne := func(b []byte) io.Reader { return iotest.OneByteReader(bytes.NewReader(b)) }
	rdChunk := func(b []byte) io.Reader { return &c20ChunkReader{b: b, n: 7} }
	readValue := func(d *jsontext.Decoder, _ nest) error { _, err := d.ReadValue(); return err }
	skipValue := func(d *jsontext.Decoder, _ nest) error { return d.SkipValue() }
	noop := func(d *jsontext.Decoder, _ nest) error { return nil }
	format := func(f func(v *jsontext.Value) error) func(nest, []byte, []int) error {
		return func(_ nest, t []byte, _ []int) error {
			v := jsontext.Value(bytes.Clone(t))
			err := f(&v)
			if err != nil && !bytes.Equal(v, t) {
				return fmt.Errorf("value mutated on error: %w", errors.New("mutated"))
			}
			return err
		}
	}
	ps := []c20Path{
		{"Value.IsValid", false, always, func(_ nest, t []byte, _ []int) error {
			if jsontext.Value(t).IsValid() {
				return nil
			}
			return errRefused
		}},
		{"Decoder.ReadValue/bytes.Reader", true, always, dec(rdBytes, readValue)},
		{"Decoder.ReadValue/bytes.Buffer", true, always, dec(rdBuf, readValue)},
		{"Decoder.ReadValue/1-byte-reader", true, always, dec(rdOne, readValue)},
		{"Decoder.ReadValue/7-byte-reader", true, always, dec(rdChunk, readValue)},
		{"Decoder.ReadToken-loop/bytes.Reader", true, always, dec(rdBytes, noop)},
		{"Decoder.ReadToken-loop/bytes.Buffer", true, always, dec(rdBuf, noop)},
		{"Decoder.ReadToken-loop/7-byte-reader", true, always, dec(rdChunk, noop)},
		{"Decoder.SkipValue/bytes.Reader", true, always, dec(rdBytes, skipValue)},
		{"Decoder.SkipValue/bytes.Buffer", true, always, dec(rdBuf, skipValue)},
		{"Decoder.SkipValue/7-byte-reader", true, always, dec(rdChunk, skipValue)},
		{"Value.Format", true, always, format(func(v *jsontext.Value) error { return v.Format() })},
		{"Value.Compact", true, always, format(func(v *jsontext.Value) error { return v.Compact() })},
		{"Value.Indent/indent=\"\"", true, indentApplies, format(func(v *jsontext.Value) error { return v.Indent(jsontext.WithIndent("")) })},
		{"Value.Canonicalize", true, always, format(func(v *jsontext.Value) error { return v.Canonicalize() })},
		{"Value.Format/SpaceAfterComma+Colon", true, always, format(func(v *jsontext.Value) error {
			return v.Format(jsontext.SpaceAfterComma(true), jsontext.SpaceAfterColon(true), jsontext.AllowDuplicateNames(true))
		})},
		{"jsontext.AppendFormat", true, always, func(_ nest, t []byte, _ []int) error {
			_, err := jsontext.AppendFormat(nil, t)
			return err
		}},
		{"Encoder.WriteValue/bytes.Buffer", true, always, func(_ nest, t []byte, _ []int) error {
			var bb bytes.Buffer
			return jsontext.NewEncoder(&bb).WriteValue(t)
		}},
		{"Encoder.WriteValue/io.Discard", true, always, func(_ nest, t []byte, _ []int) error {
			return jsontext.NewEncoder(io.Discard).WriteValue(t)
		}},
		{"Encoder.WriteToken-pushes", true, always, func(s nest, t []byte, _ []int) error {
			var bb bytes.Buffer
			e := jsontext.NewEncoder(&bb)
			k, err := c20EncDescend(e, s, s.depth())
			if err != nil {
				if k != c20Max {
					return fmt.Errorf("push %d refused (expected the refusal at push %d): %w", k+1, c20Max+1, err)
				}
				if e.StackDepth() != c20Max {
					return fmt.Errorf("StackDepth %d after refused push", e.StackDepth())
				}
				return err
			}
			if e.StackDepth() != s.depth() {
				return fmt.Errorf("StackDepth %d after %d pushes", e.StackDepth(), s.depth())
			}
			if s.leaf != "" {
				if err := e.WriteValue(jsontext.Value(s.leaf)); err != nil {
					return err
				}
			}
			if err := c20EncAscend(e, s, s.depth()); err != nil {
				return err
			}
			if got := bytes.TrimSuffix(bb.Bytes(), []byte("\n")); !bytes.Equal(got, t) {
				return errors.New("token output differs from the text")
			}
			return nil
		}},
		{"json.Unmarshal/any", true, always, func(_ nest, t []byte, _ []int) error {
			var v any
			return json.Unmarshal(t, &v)
		}},
		{"json.Unmarshal/any/AllowDuplicateNames", true, always, func(_ nest, t []byte, _ []int) error {
			var v any
			return json.Unmarshal(t, &v, jsontext.AllowDuplicateNames(true))
		}},
		{"json.UnmarshalRead/any", true, always, func(_ nest, t []byte, _ []int) error {
			var v any
			return json.UnmarshalRead(&c20ChunkReader{b: t, n: 4096}, &v)
		}},
		{"json.Unmarshal/jsontext.Value", true, always, func(_ nest, t []byte, _ []int) error {
			var v jsontext.Value
			return json.Unmarshal(t, &v)
		}},
		{"json.Unmarshal/[]any", true, func(s nest) bool { return s.kinds[0] == 'A' }, func(_ nest, t []byte, _ []int) error {
			var v []any
			return json.Unmarshal(t, &v)
		}},
		{"json.Unmarshal/map[string]any", true, func(s nest) bool { return s.kinds[0] == 'O' }, func(_ nest, t []byte, _ []int) error {
			var v map[string]any
			return json.Unmarshal(t, &v)
		}},
		{"json.Unmarshal/recursive-slice-type", true, func(s nest) bool { return allKind(s, 'A') && s.leaf == "" && !s.fat }, func(_ nest, t []byte, _ []int) error {
			var v c20TS
			return json.Unmarshal(t, &v)
		}},
		{"json.Unmarshal/recursive-map-type", true, func(s nest) bool { return allKind(s, 'O') && s.leaf == "" && !s.fat }, func(_ nest, t []byte, _ []int) error {
			var v c20TM
			return json.Unmarshal(t, &v)
		}},
		{"json.Unmarshal/recursive-struct-pointer-type", true, func(s nest) bool { return allKind(s, 'O') && s.leaf == "" && !s.fat }, func(_ nest, t []byte, _ []int) error {
			var v c20TR
			return json.Unmarshal(t, &v)
		}},
		{"json.Unmarshal/recursive-array-of-pointer-type", true, func(s nest) bool { return allKind(s, 'A') && s.leaf == "null" && !s.fat }, func(_ nest, t []byte, _ []int) error {
			var v c20TAP
			return json.Unmarshal(t, &v)
		}},
		{"json.Unmarshal/skip-unknown-member", true, func(s nest) bool { return s.kinds[0] == 'O' && s.depth() > 1 }, func(_ nest, t []byte, _ []int) error {
			var v c20Skip
			return json.Unmarshal(t, &v)
		}},
		{"json.Marshal/any", true, always, func(s nest, t []byte, _ []int) error {
			b, err := json.Marshal(s.goValue(), json.Deterministic(true))
			if err == nil && !c20SameJSON(b, t) {
				return errors.New("marshal output differs from the text")
			}
			return err
		}},
		{"json.MarshalWrite/any", true, always, func(s nest, t []byte, _ []int) error {
			return json.MarshalWrite(io.Discard, s.goValue())
		}},
		{"json.Marshal/jsontext.Value", true, always, func(_ nest, t []byte, _ []int) error {
			_, err := json.Marshal(jsontext.Value(t))
			return err
		}},
		{"json.Marshal/MarshalJSON-method", true, always, func(_ nest, t []byte, _ []int) error {
			_, err := json.Marshal(c20RawM{t})
			return err
		}},
		{"json.Marshal/recursive-slice-type", true, func(s nest) bool { return allKind(s, 'A') && s.leaf == "" && !s.fat }, func(s nest, t []byte, _ []int) error {
			v := c20TS{}
			for i := 1; i < s.depth(); i++ {
				v = c20TS{v}
			}
			_, err := json.Marshal(v)
			return err
		}},
		{"json.Marshal/recursive-map-type", true, func(s nest) bool { return allKind(s, 'O') && s.leaf == "" && !s.fat }, func(s nest, t []byte, _ []int) error {
			v := c20TM{}
			for i := 1; i < s.depth(); i++ {
				v = c20TM{"a": v}
			}
			_, err := json.Marshal(v)
			return err
		}},
		{"json.Marshal/recursive-struct-pointer-type", true, func(s nest) bool { return allKind(s, 'O') && s.leaf == "" && !s.fat }, func(s nest, t []byte, _ []int) error {
			v := &c20TR{}
			for i := 1; i < s.depth(); i++ {
				v = &c20TR{A: v}
			}
			b, err := json.Marshal(v)
			if err == nil && !bytes.Equal(b, t) {
				return errors.New("marshal output differs from the text")
			}
			return err
		}},
		{"json.Marshal/recursive-array-of-pointer-type", true, func(s nest) bool { return allKind(s, 'A') && s.leaf == "null" && !s.fat }, func(s nest, t []byte, _ []int) error {
			v := &c20TAP{}
			for i := 1; i < s.depth(); i++ {
				v = &c20TAP{v}
			}
			b, err := json.Marshal(v)
			if err == nil && !bytes.Equal(b, t) {
				return errors.New("marshal output differs from the text")
			}
			return err
		}},
		{"v1.Valid", false, always, func(_ nest, t []byte, _ []int) error {
			if jsonv1.Valid(t) {
				return nil
			}
			return errRefused
		}},
		{"v1.Compact", false, always, func(_ nest, t []byte, _ []int) error {
			var bb bytes.Buffer
			return jsonv1.Compact(&bb, t)
		}},
		{"v1.Indent/indent=\"\"", false, indentApplies, func(_ nest, t []byte, _ []int) error {
			var bb bytes.Buffer
			return jsonv1.Indent(&bb, t, "", "")
		}},
		{"v1.Unmarshal/any", false, always, func(_ nest, t []byte, _ []int) error {
			var v any
			return jsonv1.Unmarshal(t, &v)
		}},
		{"v1.Decoder.Decode/any", false, always, func(_ nest, t []byte, _ []int) error {
			var v any
			return jsonv1.NewDecoder(bytes.NewReader(t)).Decode(&v)
		}},
		{"v1.Decoder.Token-loop", false, always, func(_ nest, t []byte, _ []int) error {
			d := jsonv1.NewDecoder(bytes.NewReader(t))
			for {
				if _, err := d.Token(); err != nil {
					if err == io.EOF {
						return nil
					}
					return err
				}
			}
		}},
		{"v1.Marshal/any", false, always, func(s nest, t []byte, _ []int) error {
			_, err := jsonv1.Marshal(s.goValue())
			return err
		}},
		{"v1.Marshal/RawMessage", false, always, func(_ nest, t []byte, _ []int) error {
			_, err := jsonv1.Marshal(jsonv1.RawMessage(t))
			return err
		}},
		{"v1.Encoder.Encode/any", false, always, func(s nest, t []byte, _ []int) error {
			return jsonv1.NewEncoder(io.Discard).Encode(s.goValue())
		}},
	}
	// split paths: tokens down to level k, then the rest as one value
	ks := []int{1, 4999, 9999, 10000}
	if thorough {
		ks = []int{1, 2, 4999, 9997, 9998, 9999, 10000}
	}
	for _, k := range ks {
		k := k
		ap := func(s nest) bool { return k < s.depth() || (k == s.depth() && s.leaf != "") }
		ps = append(ps,
			c20Path{fmt.Sprintf("Decoder.ReadToken-to-%d+ReadValue", k), true, ap, func(s nest, t []byte, _ []int) error {
				d := jsontext.NewDecoder(bytes.NewReader(t))
				if err := c20Descend(d, s, k); err != nil {
					return fmt.Errorf("descend: %w", err)
				}
				if d.StackDepth() != k {
					return fmt.Errorf("StackDepth %d after descending %d", d.StackDepth(), k)
				}
				if _, err := d.ReadValue(); err != nil {
					return err
				}
				return c20ReadAll(d)
			}},
			c20Path{fmt.Sprintf("Decoder.ReadToken-to-%d+SkipValue", k), true, ap, func(s nest, t []byte, _ []int) error {
				d := jsontext.NewDecoder(&c20ChunkReader{b: t, n: 509})
				if err := c20Descend(d, s, k); err != nil {
					return fmt.Errorf("descend: %w", err)
				}
				if err := d.SkipValue(); err != nil {
					return err
				}
				return c20ReadAll(d)
			}},
			c20Path{fmt.Sprintf("Decoder.ReadToken-to-%d+UnmarshalDecode/any", k), true, ap, func(s nest, t []byte, _ []int) error {
				d := jsontext.NewDecoder(bytes.NewReader(t))
				if err := c20Descend(d, s, k); err != nil {
					return fmt.Errorf("descend: %w", err)
				}
				var v any
				if err := json.UnmarshalDecode(d, &v); err != nil {
					return err
				}
				return c20ReadAll(d)
			}},
			c20Path{fmt.Sprintf("Encoder.WriteToken-to-%d+WriteValue", k), true, ap, func(s nest, t []byte, _ []int) error {
				var bb bytes.Buffer
				e := jsontext.NewEncoder(&bb)
				if _, err := c20EncDescend(e, s, k); err != nil {
					return fmt.Errorf("descend: %w", err)
				}
				sub, _ := s.sub(k).text()
				if err := e.WriteValue(sub); err != nil {
					if e.StackDepth() != k {
						return fmt.Errorf("StackDepth %d after refused WriteValue at %d", e.StackDepth(), k)
					}
					return err
				}
				if err := c20EncAscend(e, s, k); err != nil {
					return err
				}
				if got := bytes.TrimSuffix(bb.Bytes(), []byte("\n")); !bytes.Equal(got, t) {
					return errors.New("output differs from the text")
				}
				return nil
			}},
			c20Path{fmt.Sprintf("Encoder.WriteToken-to-%d+MarshalEncode/any", k), true, ap, func(s nest, t []byte, _ []int) error {
				var bb bytes.Buffer
				e := jsontext.NewEncoder(&bb)
				if _, err := c20EncDescend(e, s, k); err != nil {
					return fmt.Errorf("descend: %w", err)
				}
				if err := json.MarshalEncode(e, s.sub(k).goValue(), json.Deterministic(true)); err != nil {
					return err
				}
				return c20EncAscend(e, s, k)
			}},
		)
	}
	if thorough {
		// non-empty indentation: the output is ~ d² bytes per indent byte (100 MB at d = 10000) — thorough tier only
		ps = append(ps,
			c20Path{"Value.Indent/default-tab", true, func(s nest) bool { return s.pat == "allA" && s.leaf == "0" && !s.fat }, format(func(v *jsontext.Value) error { return v.Indent() })},
			c20Path{"v1.Indent/indent=\" \"", false, func(s nest) bool { return s.pat == "altAO" && s.leaf == "0" && !s.fat }, func(_ nest, t []byte, _ []int) error {
				var bb bytes.Buffer
				return jsonv1.Indent(&bb, t, "", " ")
			}},
			c20Path{"v1.MarshalIndent/any", false, func(s nest) bool { return s.pat == "allO" && s.leaf == "0" && !s.fat }, func(s nest, t []byte, _ []int) error {
				_, err := jsonv1.MarshalIndent(s.goValue(), "", " ")
				return err
			}},
		)
	}
	return ps
}

var c20ToK = regexp.MustCompile(`-to-[0-9]+\+`)

// c20OpFamily drops the split position from a path name ("…-to-9999+ReadValue" → "…-to-k+ReadValue").
func c20OpFamily(name string) string { return c20ToK.ReplaceAllString(name, "-to-k+") }

// c20GuardStack is guard() that also returns the stack of the panic.
func c20GuardStack(f func()) (p any, stack string) {
	defer func() {
		if r := recover(); r != nil {
			if mf, ok := r.(machineryFailure); ok {
				panic(mf)
			}
			p, stack = r, string(debug.Stack())
		}
	}()
	f()
	return nil, ""
}

// c20SameJSON compares two texts after compaction (map member order is made deterministic by the caller).
func c20SameJSON(a, b []byte) bool {
	va, vb := jsontext.Value(bytes.Clone(a)), jsontext.Value(bytes.Clone(b))
	if va.Canonicalize() != nil || vb.Canonicalize() != nil {
		return bytes.Equal(a, b)
	}
	return bytes.Equal(va, vb)
}

type c20ChunkReader struct {
	b []byte
	n int
}

func (r *c20ChunkReader) Read(p []byte) (int, error) {
	if len(r.b) == 0 {
		return 0, io.EOF
	}
	n := min(r.n, len(p), len(r.b))
	copy(p, r.b[:n])
	r.b = r.b[n:]
	return n, nil
}

type c20Obs struct {
	path  string
	depth int
	class string
}

func c20DepthSweep(c *Ctx) {
	depths := []int{9998, 9999, 10000, 10001, 10002}
	pats := []string{"allA", "allO", "altAO", "mix1", "lastO", "lastA"}
	if c.Thorough() {
		depths = append([]int{1, 2, 999, 1000, 1001, 5000}, depths...)
		depths = append(depths, 10003, 12000, 20001)
		pats = append(pats, "altOA")
		for i := 2; i <= 12; i++ {
			pats = append(pats, fmt.Sprintf("mix%d", i))
		}
	}
	var specs []nest
	for pi, pat := range pats {
		for _, d := range depths {
			rng := c.SubRng(uint64(1000 + pi)) // the same random mix prefix for every depth of one pattern
			kinds := c20Kinds(pat, d, rng)
			atLimit := d == c20Max || d == c20Max+1
			if !c.Thorough() && (d == 9998 || d == 10002) && pat != "allA" && pat != "allO" {
				continue // quick: the outer two depths only for the pure patterns
			}
			var leaves []string
			switch {
			case pat == "allA" || pat == "allO":
				leaves = []string{"0", "", `"x"`, "null"}
				if !atLimit && !c.Thorough() {
					leaves = []string{"0", ""}
				}
			case pat == "lastO" || pat == "lastA":
				leaves = []string{""} // the innermost container is of the other kind and empty
				if !atLimit && !c.Thorough() {
					leaves = nil
				}
			default:
				leaves = []string{"0", ""}
			}
			for _, leaf := range leaves {
				specs = append(specs, nest{pat, kinds, leaf, false})
			}
			if (pat == "altAO" || pat == "mix1") && (atLimit || c.Thorough()) {
				specs = append(specs, nest{pat, kinds, "0", true})
			}
		}
	}
	paths := c20Paths(c)
	// every call recurses ~10000 levels: fewer collections mean fewer stack shrink/regrow cycles
	defer debug.SetGCPercent(debug.SetGCPercent(800))
	var tmu sync.Mutex
	pathTime := map[string]time.Duration{}
	// observed limit per path: largest accepted depth / smallest refused depth
	var mu sync.Mutex
	maxOK := map[string]int{}
	minRef := map[string]int{}
	refClass := map[string]map[string]int{}
	heavyDone := map[string]bool{}

	type job struct {
		s nest
	}
	jobs := make(chan nest, len(specs))
	for _, s := range specs {
		jobs <- s
	}
	close(jobs)
	var wg sync.WaitGroup
	workers := c20Workers(c)
	for w := 0; w < workers; w++ {
		wg.Add(1)
		go func() {
			defer wg.Done()
			for s := range jobs {
				text, opens := s.text()
				d := s.depth()
				c.Hit(fmt.Sprintf("depth-sweep/pattern=%s", s.pat))
				c.Hit(fmt.Sprintf("depth-sweep/depth=%d", d))
				c.Hit(fmt.Sprintf("depth-sweep/leaf=%q", s.leaf))
				for _, p := range paths {
					if !p.apply(s) {
						continue
					}
					if strings.Contains(p.name, "default-tab") || strings.Contains(p.name, "indent=\" \"") || strings.Contains(p.name, "MarshalIndent") {
						// 50–100 MB outputs: only around the limit
						if d < 10000 || d > 10001 {
							continue
						}
						mu.Lock()
						key := fmt.Sprint(p.name, d)
						done := heavyDone[key]
						heavyDone[key] = true
						mu.Unlock()
						if done {
							continue
						}
					}
					var err error
					tp := time.Now()
					pv := guard(func() { err = p.run(s, text, opens) })
					tmu.Lock()
					pathTime[c20OpFamily(p.name)] += time.Since(tp)
					tmu.Unlock()
					c.Case(p.name+"|"+s.id(), true)
					if pv != nil {
						c.Panic("depth/"+p.name, []byte(s.id()), pv, map[string]any{"depth": d})
						continue
					}
					cls := c20Class(err)
					if err == errRefused {
						cls = "refused"
					}
					c.Hit("depth-sweep/result=" + cls)
					mu.Lock()
					if err == nil {
						if d > maxOK[p.name] {
							maxOK[p.name] = d
						}
					} else {
						if minRef[p.name] == 0 || d < minRef[p.name] {
							minRef[p.name] = d
						}
						if refClass[p.name] == nil {
							refClass[p.name] = map[string]int{}
						}
						refClass[p.name][cls]++
					}
					mu.Unlock()
					wantOK := d <= c20Max
					switch {
					case wantOK && err != nil:
						c.Violate("depth-refused-at-or-below-limit", "depth/"+p.name, []byte(s.id()),
							map[string]any{"depth": d, "class": cls, "error": trunc(err.Error(), 200)})
					case !wantOK && err == nil:
						kind := "depth-accepted-above-limit"
						if s.leaf == "" {
							kind += "/empty-innermost" // the feature goes into the kind so that a known finding matches this cause only
						}
						c.Violate(kind, "depth/"+c20OpFamily(p.name), []byte(s.id()),
							map[string]any{"depth": d, "limit": c20Max, "path": p.name})
					case !wantOK && p.v2 && cls != "maxdepth":
						c.Violate("depth-refusal-wrong-class", "depth/"+p.name, []byte(s.id()),
							map[string]any{"depth": d, "class": cls, "error": trunc(err.Error(), 200)})
					}
					// where the refusal is reported: at the (limit+1)-th opening bracket
					if !wantOK && err != nil && p.v2 && strings.HasPrefix(p.name, "Decoder.Read") {
						var se *jsontext.SyntacticError
						if errors.As(err, &se) && se.ByteOffset != int64(opens[c20Max]) {
							c.Hit("depth-sweep/refusal-offset-not-at-bracket-10001")
							c.Sample(map[string]any{"path": p.name, "nest": s.id(), "ByteOffset": se.ByteOffset, "bracket_10001_at": opens[c20Max]})
						} else {
							c.Hit("depth-sweep/refusal-offset-at-bracket-10001")
						}
					}
				}
			}
		}()
	}
	wg.Wait()
	var names []string
	for _, p := range paths {
		names = append(names, p.name)
	}
	sort.Strings(names)
	limits := map[string]int{}
	for _, n := range names {
		key := fmt.Sprintf("accepts≤%d refuses≥%d", maxOK[n], minRef[n])
		limits[key]++
		if maxOK[n] != c20Max || minRef[n] != c20Max+1 {
			c.Note("path %q: largest accepted depth %d, smallest refused depth %d, refusal classes %v", n, maxOK[n], minRef[n], refClass[n])
		}
	}
	type pt struct {
		n string
		d time.Duration
	}
	var pts []pt
	for n, d := range pathTime {
		pts = append(pts, pt{n, d})
	}
	sort.Slice(pts, func(i, j int) bool { return pts[i].d > pts[j].d })
	slow := ""
	for i := 0; i < len(pts) && i < 8; i++ {
		slow += fmt.Sprintf(" %s=%.1fs", pts[i].n, pts[i].d.Seconds())
	}
	c.Note("depth sweep: slowest path families (cpu, summed):%s", slow)
	c.Note("depth sweep: %d paths × %d nested values; observed limits: %v", len(paths), len(specs), limits)
	c.Sample(map[string]any{"depth_sweep_paths": names})
}

// =====================================================================================
// model cross-check (oracle family `depth`): the proven limit vs the running code
// =====================================================================================

// c20ModelIndexAudit: Props/C20.lean `scan_index_safe` rests on the byte-scanner models containing no partial
// indexing (every byte is obtained by pattern matching with an explicit `[]` arm).  That is a property of the model
// SOURCES; it is re-checked here on every run.  The one allowed `getD` is `Option.getD` on an error value.
func c20ModelIndexAudit(c *Ctx) {
	bad := regexp.MustCompile(`get!|getD|\]!|head!|getLast!|tail!|\.get \(`)
	for _, f := range []string{"WireDecode.lean", "Resume.lean", "Validate.lean", "TokenLoop.lean"} {
		b, err := os.ReadFile(c.VerifDir + "/lean/JsonV/Model/" + f)
		if err != nil {
			fail("model audit: %v", err)
		}
		for i, line := range strings.Split(string(b), "\n") {
			code, _, _ := strings.Cut(line, "--")
			code = strings.ReplaceAll(code, "(err'.getD err)", "")
			c.Case("audit|"+f, false)
			if bad.MatchString(code) {
				c.Violate("corr-model-partial-index", "scan_index_safe/"+f, []byte(fmt.Sprintf("%s:%d", f, i+1)), map[string]any{"line": strings.TrimSpace(line)})
			}
		}
		c.Hit("oracle/model-index-audit/" + f)
	}
}

func c20OracleCheck(c *Ctx) {
	c20ModelIndexAudit(c)
	or := c.NewOracle()
	if or == nil {
		c.Note("no oracle: model cross-check skipped")
		return
	}
	// the regenerated constants (Tie A) as the oracle sees them
	if a := or.Ask1("depth const"); a != fmt.Sprintf("max=%d cycles=1000", c20Max) {
		c.Violate("corr-depth-const", "depth const", nil, map[string]any{"oracle": a})
	}
	// state machine: n pushes from reset (each after a valid position), then one more — model vs the real stateMachine
	var lines []string
	type smCase struct {
		n    int
		kind string
	}
	var cases []smCase
	for _, n := range []int{0, 1, 2, 3, 9998, 9999, 10000, 10001, 10005} {
		for _, k := range []string{"A", "O", "X"} { // X = alternate
			cases = append(cases, smCase{n, k})
			lines = append(lines, fmt.Sprintf("depth sm %d %s", n, k))
		}
	}
	ans := or.Ask(lines)
	for i, cs := range cases {
		m := jsontext.NewVerifMachine()
		push := func(i int) error {
			obj := cs.kind == "O" || (cs.kind == "X" && i%2 == 1)
			if m.Last()>>63 == 1 && m.Length()%2 == 0 { // inside an object a name comes first
				if err := m.AppendString(); err != nil {
					return err
				}
			}
			if obj {
				return m.PushObject()
			}
			return m.PushArray()
		}
		okPushes := 0
		for j := 0; j < cs.n; j++ {
			if push(j) != nil {
				break
			}
			okPushes++
		}
		depth := m.Depth()
		extra := 9
		if okPushes == cs.n {
			extra = jsontext.VerifErrClass(push(cs.n))
		}
		got := fmt.Sprintf("pushed=%d depth=%d next=%d", okPushes, depth, extra)
		c.Case("sm|"+lines[i], true)
		c.Hit("oracle/sm")
		if got != ans[i] {
			c.Violate("corr-depth-sm", lines[i], nil, map[string]any{"impl": got, "model": ans[i]})
		}
	}
	// value path: skeletons through the model of consumeValue/reformatValue vs Decoder.ReadValue and Encoder.WriteValue,
	// entered at several token depths
	rng := c.SubRng(77)
	type nestCase struct {
		s     nest
		start int // Tokens.Depth() at which the value path is entered (1 = top level)
	}
	var ncases []nestCase
	lines = lines[:0]
	nestDepths, nestStarts := []int{1, 2, 9999, 10000, 10001}, []int{1, 5000, 10000, 10001}
	if c.Thorough() {
		nestDepths, nestStarts = []int{1, 2, 3, 100, 9998, 9999, 10000, 10001, 10002, 15000}, []int{1, 2, 3, 5000, 9999, 10000, 10001}
	}
	for _, d := range nestDepths {
		for _, pat := range []string{"allA", "allO", "mix"} {
			kinds := c20Kinds(pat, d, rng)
			for _, sp := range []nest{{"oracle-" + pat, kinds, "0", false}, {"oracle-" + pat, kinds, "", false}, {"oracle-" + pat, kinds, "0", true}} {
				if sp.fat && pat != "mix" && !c.Thorough() {
					continue
				}
				for _, start := range nestStarts {
					if start-1 < d {
						ncases = append(ncases, nestCase{sp, start})
						sk, _ := sp.sub(start - 1).skeleton()
						lines = append(lines, fmt.Sprintf("depth nest %d %d %s", c20Max, start, hx(sk)))
					}
				}
			}
		}
	}
	ans = or.Ask(lines)
	for i, nc := range ncases {
		t, opens := nc.s.text()
		_, symIdx := nc.s.sub(nc.start - 1).skeleton()
		render := func(err error) string {
			if err == nil {
				return "ok"
			}
			var se *jsontext.SyntacticError
			if errors.As(err, &se) && c20Class(err) == "maxdepth" {
				for lvl, off := range opens {
					if int64(off) == se.ByteOffset && lvl >= nc.start-1 {
						return fmt.Sprintf("fail %d", symIdx[lvl-(nc.start-1)])
					}
				}
				return fmt.Sprintf("fail at byte %d (not an opening bracket)", se.ByteOffset)
			}
			return "other " + c20Class(err)
		}
		d := jsontext.NewDecoder(bytes.NewReader(t))
		var err error
		if p := guard(func() {
			if err = c20Descend(d, nc.s, nc.start-1); err == nil {
				_, err = d.ReadValue()
			}
		}); p != nil {
			c.Panic("oracle/Decoder.ReadValue", []byte(nc.s.id()), p, nil)
			continue
		}
		got := render(err)
		c.Case(fmt.Sprintf("nest|%s|%d", nc.s.id(), nc.start), true)
		c.Hit("oracle/nest/" + strings.Fields(ans[i] + " -")[0])
		if got != ans[i] {
			c.Violate("corr-depth-nest", "depth nest/Decoder.ReadValue", []byte(fmt.Sprintf("%s start=%d", nc.s.id(), nc.start)), map[string]any{"impl": got, "model": ans[i]})
		}
		// the encoder's value path (reformatValue) must give the same verdict (its error offset is relative to the output: class only)
		e := jsontext.NewEncoder(io.Discard)
		if p := guard(func() {
			if _, err = c20EncDescend(e, nc.s, nc.start-1); err == nil {
				sub, _ := nc.s.sub(nc.start - 1).text()
				err = e.WriteValue(sub)
			}
		}); p != nil {
			c.Panic("oracle/Encoder.WriteValue", []byte(nc.s.id()), p, nil)
			continue
		}
		gotE, wantE := c20Class(err), "ok"
		if strings.HasPrefix(ans[i], "fail") {
			wantE = "maxdepth"
		}
		if gotE != wantE {
			c.Violate("corr-depth-nest", "depth nest/Encoder.WriteValue", []byte(fmt.Sprintf("%s start=%d", nc.s.id(), nc.start)), map[string]any{"impl": gotE, "model": ans[i]})
		}
	}
}

// skeleton renders the bracket structure for the oracle (`[ ] { } s`, names/colons/commas elided) and
// returns, for every level, the index of its opening bracket in the skeleton.
func (s nest) skeleton() (sk []byte, openIdx []int) {
	openIdx = make([]int, len(s.kinds))
	for i, k := range s.kinds {
		openIdx[i] = len(sk)
		last := i == len(s.kinds)-1
		if k == 'A' {
			sk = append(sk, '[')
		} else {
			sk = append(sk, '{')
		}
		if s.fat && !(last && s.leaf == "") {
			sk = append(sk, 's')
		}
	}
	if s.leaf != "" {
		sk = append(sk, 's')
	}
	for i := len(s.kinds) - 1; i >= 0; i-- {
		if s.kinds[i] == 'A' {
			sk = append(sk, ']')
		} else {
			sk = append(sk, '}')
		}
	}
	return sk, openIdx
}

// c20CycleModelCheck compares the traversal model (Model/Cycle.lean, proven properties in Props/C20.lean) with
// what the real Marshal did on the same three graphs: model `outOfFuel` (for every fuel, by theorem) ⇔ the real
// call overflowed the stack; model `cycle` ⇔ the real call returned the cycle error.
func c20CycleModelCheck(c *Ctx, observed map[string]string) {
	or := c.NewOracle()
	if or == nil {
		return
	}
	for _, p := range [][2]string{{"selfPtr", "Marshal/ptr-to-ptr-cycle"}, {"selfIface", "Marshal/iface-self"}, {"selfSlice", "Marshal/slice-self"}} {
		model := or.Ask1("depth cyc " + p[0] + " 30000")
		impl := observed[p[1]]
		want := map[string]string{"outOfFuel": "stack-overflow", "cycle": "cycle", "maxDepth": "maxdepth", "ok": "ok"}[model]
		c.Case("cyc-model|"+p[0], true)
		c.Hit("oracle/cyc/" + p[0] + "=" + model)
		if impl != want {
			c.Violate("corr-cycle-model", "depth cyc "+p[0], nil, map[string]any{"model": model, "impl": impl, "op": p[1]})
		}
	}
}

// =====================================================================================
// (b) cyclic Go values, each in a subprocess
// =====================================================================================

func c20Cycles(c *Ctx) {
	type job struct {
		shape, api, want string
		op               string // stable name for violations (default: api/shape)
		bucket           string // aggregated distribution bucket for generated jobs
	}
	var jobs []job
	// generated family: rings of pointer/interface/struct hops × entry point × marshal entry point (c20_sub.go)
	var genSpecs []string
	genSpecs = append(genSpecs, c20GenSpecs(1)...)
	genSpecs = append(genSpecs, c20GenSpecs(2)...)
	l3 := c20GenSpecs(3)
	if c.Thorough() {
		genSpecs = append(genSpecs, l3...)
	} else {
		grng := c.SubRng(3131)
		for _, sp := range l3 {
			homogeneous := sp[0:2] == sp[2:4] && sp[2:4] == sp[4:6]
			if homogeneous || grng.IntN(12) == 0 {
				genSpecs = append(genSpecs, sp)
			}
		}
	}
	ngen := 0
	for si, sp := range genSpecs {
		class := "deepening"
		if c20GenPointerOnly(sp) {
			class = "pointer-only"
		}
		for ei, entry := range c20GenEntries {
			if entry == "embed" && sp[1] != 's' {
				continue
			}
			for ai, api := range c20CycleAPIs {
				// quick: rings of length 1 through every entry point × every API; longer rings through every entry point
				// with the API rotating over the product, and through Marshal + v1.Marshal at the pointer
				if !c.Thorough() && len(sp) > 2 && !((si+ei)%len(c20CycleAPIs) == ai || (entry == "ptr" && (ai == 0 || api == "v1.Marshal"))) {
					continue
				}
				shape := "g:" + sp + "@" + entry
				jobs = append(jobs, job{shape: shape, api: api, want: "cyc",
					bucket: fmt.Sprintf("cycle-gen/%s/L=%d/%s/%s", api, len(sp)/2, entry, class)})
				ngen++
			}
		}
	}
	// the same rings as Unmarshal targets.  A pointer-only ring never consumes input: that is the open finding D6
	// (classified under its op names); a ring with a struct hop must end (type error on the input `1`).
	unmarshalSpecs := []string{"Ap", "Bp", "ApBp", "As", "Bs", "Is", "AsBp", "IpAs"}
	if c.Thorough() {
		unmarshalSpecs = append(unmarshalSpecs, "Aq", "Bq", "An", "Bn", "ApBq", "BnAp", "ApBpAp", "BpBpBp", "IsIs", "AsBsIs")
	}
	for _, sp := range unmarshalSpecs {
		for _, api := range []string{"Unmarshal", "v1.Unmarshal"} {
			j := job{shape: "g:" + sp + "@ptr", api: api, want: "any", bucket: "cycle-gen/" + api + "/" + sp}
			if c20GenPointerOnly(sp) {
				j.op = api + "/iface-self" // the same defect as `var x any; x = &x; Unmarshal("1", &x)`
			}
			jobs = append(jobs, j)
		}
	}
	c.Note("generated cycle family: %d rings (%d of length 3), %d marshal jobs, %d unmarshal jobs", len(genSpecs), len(genSpecs)-9-81, ngen, 2*len(unmarshalSpecs))
	allAPIs := map[string]bool{"slice-self": true, "struct-ptr-cycle": true, "ptr-to-ptr-cycle": true, "iface-self": true, "chain-list-10001": true}
	for _, s := range c20Shapes {
		for ai, api := range c20CycleAPIs {
			// quick: every shape through Marshal and v1.Marshal, a representative subset through the other entry points
			if c.Thorough() || ai == 0 || api == "v1.Marshal" || allAPIs[s.name] {
				jobs = append(jobs, job{shape: s.name, api: api, want: s.want})
			}
		}
	}
	for _, s := range c20UnmarshalShapes {
		jobs = append(jobs, job{shape: s.name, api: "-", want: "any"})
	}
	nproc := 2
	if c.Thorough() {
		nproc = 8
	}
	var omu sync.Mutex
	observed := map[string]string{}
	record := func(op, res string) {
		omu.Lock()
		observed[op] = res
		omu.Unlock()
	}
	var wg sync.WaitGroup
	for w := 0; w < nproc; w++ {
		var mine []job
		for i, j := range jobs {
			if i%nproc == w {
				mine = append(mine, j)
			}
		}
		wg.Add(1)
		go func(remaining []job) {
			defer wg.Done()
			genCrashes := 0
			for len(remaining) > 0 {
				lines := make([]string, len(remaining))
				for i, j := range remaining {
					lines[i] = j.shape + " " + j.api
				}
				batch := remaining
				opOf := func(j job) string {
					switch {
					case j.op != "":
						return j.op
					case j.api == "-":
						return j.shape
					}
					return j.api + "/" + j.shape
				}
				hit := func(j job, res string) {
					if j.bucket != "" {
						c.Hit(j.bucket + "=" + res)
					} else {
						c.Hit("cycle/" + opOf(j) + "=" + res)
					}
				}
				stuck, status, stderr := c20Batch("c20cycle", lines, 30*time.Second, func(i int, f []string) {
					j := batch[i]
					op := opOf(j)
					c.Case("cycle|"+op, true)
					res := strings.Join(f, " ")
					if strings.HasPrefix(res, "panic") {
						hit(j, "panic")
						c.Violate("panic", op, []byte(j.shape), map[string]any{"panic": res, "shape": j.shape, "api": j.api})
						return
					}
					if res == "n/a" {
						fail("generated job %s %s is not applicable", j.shape, j.api)
					}
					hit(j, res)
					record(op, res)
					ok := true
					switch j.want {
					case "cyc":
						ok = res == "cycle" || res == "maxdepth"
					case "ok":
						ok = res == "ok"
					case "deep":
						ok = res == "maxdepth"
					}
					if strings.HasPrefix(j.api, "v1.") && j.want != "ok" {
						ok = res != "ok" // v1 errors carry no class
					}
					if !ok {
						c.Violate("cycle-wrong-result", op, nil, map[string]any{"result": res, "want": j.want, "shape": j.shape, "api": j.api})
					}
				})
				if stuck < 0 {
					return
				}
				j := remaining[stuck]
				op := opOf(j)
				c.Case("cycle|"+op, true)
				kind := "crash"
				switch {
				case status == "timeout":
					kind = "hang"
				case strings.Contains(stderr, "stack overflow") || strings.Contains(stderr, "goroutine stack exceeds"):
					kind = "stack-overflow"
				}
				hit(j, kind)
				record(op, kind)
				c.Violate(kind, op, nil, map[string]any{"status": status, "stderr_head": trunc(stderr, 300), "shape": j.shape, "api": j.api})
				remaining = remaining[stuck+1:]
				// every crash costs a process start and a stack overflow: after a few crashes of generated marshal jobs
				// the point is made; the remaining generated marshal jobs of this worker are dropped (and counted)
				if strings.HasPrefix(j.shape, "g:") && j.want == "cyc" {
					genCrashes++
					if genCrashes >= 6 {
						var rest []job
						dropped := 0
						for _, r := range remaining {
							if strings.HasPrefix(r.shape, "g:") && r.want == "cyc" {
								dropped++
								continue
							}
							rest = append(rest, r)
						}
						remaining = rest
						c.HitN("cycle-gen/dropped-after-6-crashes", int64(dropped))
					}
				}
			}
		}(mine)
	}
	wg.Wait()
	c20CycleModelCheck(c, observed)
}

// =====================================================================================
// (c) v1.Indent with arbitrary (also non-blank) prefix / indent, in a subprocess
// =====================================================================================

type c20IndentCase struct {
	src            []byte
	prefix, indent string
}

func (k c20IndentCase) line() string {
	return hx(k.src) + " " + hx([]byte(k.prefix)) + " " + hx([]byte(k.indent))
}

func isBlank(s string) bool { return strings.Trim(s, " \t") == "" }

// op derives a stable name from the features of the case, so that a known finding matches one cause only.
func (k c20IndentCase) op() string {
	f := []string{"v1.Indent"}
	if !isBlank(k.prefix) {
		f = append(f, "nonblank-prefix")
	}
	switch {
	case k.indent == "":
		f = append(f, "empty-indent")
	case !isBlank(k.indent):
		f = append(f, "nonblank-indent")
	}
	tw := k.src[len(bytes.TrimRight(k.src, " \n\r\t")):]
	if i := bytes.IndexByte(tw, '\n'); i >= 0 && bytes.ContainsAny(tw[i:], " ") {
		f = append(f, "trailing-newline-space")
	} else if len(tw) > 0 {
		f = append(f, "trailing-ws")
	}
	return strings.Join(f, "/")
}

func c20IndentSweep(c *Ctx) {
	rng := c.SubRng(4242)
	affixes := []string{"", " ", "\t", "  ", ">", "--", "> ", " >", "\n", "x\ty", "é", "\x00", "\"", "  \t"}
	srcs := []string{`[1]`, `{"a":[1,{"b":null}]}`, `[]`, `{}`, `0`, `"s\n"`, `[[[]]]`, `{"a":{"b":{"c":[true,false]}}}`, `[1`, `{"a"`, ``, `x`}
	trails := []string{"", "\n", " ", "\n  ", "\n\n \t", "\r\n ", "  \n", "\t"}
	var cases []c20IndentCase
	for _, s := range srcs {
		for _, tw := range trails {
			for _, p := range affixes {
				for _, in := range affixes {
					if c.Thorough() || rng.IntN(4) == 0 || (p == ">" && in == "") {
						cases = append(cases, c20IndentCase{[]byte(s + tw), p, in})
					}
				}
			}
		}
	}
	n := c.N(300, 5000)
	for i := 0; i < n; i++ {
		src := c20RandJSON(rng, 3)
		src = append(src, trails[rng.IntN(len(trails))]...)
		if rng.IntN(4) == 0 {
			src = c20Mutate(rng, src)
		}
		cases = append(cases, c20IndentCase{src, affixes[rng.IntN(len(affixes))], affixes[rng.IntN(len(affixes))]})
	}
	remaining := cases
	hangs, skipped := 0, 0
	hungOps := map[string]bool{}
	for len(remaining) > 0 {
		lines := make([]string, len(remaining))
		for i, k := range remaining {
			lines[i] = k.line()
		}
		batch := remaining
		stuck, status, stderr := c20Batch("c20indent", lines, 45*time.Second, func(i int, f []string) {
			k := batch[i]
			c.Case("indent|"+k.line(), !isBlank(k.prefix) || !isBlank(k.indent))
			c.Hit("v1.Indent/" + f[0])
			if strings.HasPrefix(f[0], "diff-") {
				c.Violate("v1.Indent-differs-from-encoding/json", k.op(), []byte(k.line()), map[string]any{"src": string(k.src), "prefix": k.prefix, "indent": k.indent, "what": f[0]})
			}
			if f[0] == "panic" {
				c.Violate("panic", k.op(), []byte(k.line()), map[string]any{"src": string(k.src), "prefix": k.prefix, "indent": k.indent, "panic": strings.Join(f[1:], " ")})
			}
		})
		if stuck < 0 {
			break
		}
		k := remaining[stuck]
		kind := "hang"
		if status != "timeout" {
			kind = "crash"
		}
		c.Hit("v1.Indent/" + kind)
		c.Violate(kind, k.op(), []byte(k.line()), map[string]any{"src": string(k.src), "prefix": k.prefix, "indent": k.indent, "status": status, "stderr_head": trunc(stderr, 300)})
		hangs++
		// the op name is derived from the features that cause the hang: do not pay the time-out again for the same cause
		hungOps[k.op()] = true
		var rest []c20IndentCase
		for _, r := range remaining[stuck+1:] {
			if hungOps[r.op()] {
				skipped++
				continue
			}
			rest = append(rest, r)
		}
		remaining = rest
		if hangs >= 12 {
			c.Note("v1.Indent sweep: stopped after %d hanging cases (%d cases not run)", hangs, len(remaining))
			break
		}
	}
	c.HitN("v1.Indent/skipped-same-features-as-a-hang", int64(skipped))
	c.Note("v1.Indent subprocess sweep: %d cases, %d did not return, %d more with the same features skipped", len(cases), hangs, skipped)
}

// =====================================================================================
// (c) panic / termination sweep, in process, under guard() and a watchdog
// =====================================================================================

var c20Alphabet = []byte("{}[],:\"\\/ub019-+.eEntfalsr \n\t\x00\x1f\x7f\x80\xc2\xe0\xed\xef\xf0\xf4\xff")

func c20RandBytes(rng *rand.Rand) []byte {
	n := rng.IntN(24)
	if rng.IntN(8) == 0 {
		n = rng.IntN(200)
	}
	b := make([]byte, n)
	for i := range b {
		if rng.IntN(10) == 0 {
			b[i] = byte(rng.IntN(256))
		} else {
			b[i] = c20Alphabet[rng.IntN(len(c20Alphabet))]
		}
	}
	return b
}

func c20RandString(rng *rand.Rand) string {
	parts := []string{"a", "b", "name", "", "é", "😀", `\n`, `é`, `😀`, `\ud800`, `\"`, `\\`, "<", "&", " ", "x y", `\u0000`, "0", "-0", "1.0"}
	n := rng.IntN(3)
	s := ""
	for i := 0; i <= n; i++ {
		s += parts[rng.IntN(len(parts))]
	}
	return `"` + s + `"`
}

func c20RandNumber(rng *rand.Rand) string {
	nums := []string{"0", "-0", "1", "-1", "10", "1.5", "1e5", "1E+400", "-1e-400", "0.1", "123456789012345678901234567890", "9007199254740993", "18446744073709551616", "-9223372036854775809", "1e1", "0e0", "2.5E-3"}
	return nums[rng.IntN(len(nums))]
}

// c20RandJSON generates a valid JSON text of bounded depth.
func c20RandJSON(rng *rand.Rand, depth int) []byte {
	var b []byte
	var gen func(d int)
	ws := func() {
		if rng.IntN(6) == 0 {
			b = append(b, " \n\t\r"[rng.IntN(4)])
		}
	}
	gen = func(d int) {
		ws()
		k := rng.IntN(8)
		if d <= 0 && k >= 6 {
			k = rng.IntN(6)
		}
		switch k {
		case 0:
			b = append(b, "null"...)
		case 1:
			b = append(b, "true"...)
		case 2:
			b = append(b, "false"...)
		case 3, 4:
			b = append(b, c20RandNumber(rng)...)
		case 5:
			b = append(b, c20RandString(rng)...)
		case 6:
			b = append(b, '[')
			n := rng.IntN(4)
			for i := 0; i < n; i++ {
				if i > 0 {
					b = append(b, ',')
				}
				gen(d - 1)
			}
			ws()
			b = append(b, ']')
		case 7:
			b = append(b, '{')
			n := rng.IntN(4)
			for i := 0; i < n; i++ {
				if i > 0 {
					b = append(b, ',')
				}
				ws()
				b = append(b, c20RandString(rng)...)
				ws()
				b = append(b, ':')
				gen(d - 1)
			}
			ws()
			b = append(b, '}')
		}
		ws()
	}
	gen(depth)
	return b
}

func c20Mutate(rng *rand.Rand, b []byte) []byte {
	b = bytes.Clone(b)
	for n := 1 + rng.IntN(3); n > 0; n-- {
		if len(b) == 0 {
			return append(b, c20Alphabet[rng.IntN(len(c20Alphabet))])
		}
		i := rng.IntN(len(b))
		switch rng.IntN(6) {
		case 0: // delete
			b = append(b[:i], b[i+1:]...)
		case 1: // replace
			b[i] = c20Alphabet[rng.IntN(len(c20Alphabet))]
		case 2: // insert
			b = append(b[:i], append([]byte{c20Alphabet[rng.IntN(len(c20Alphabet))]}, b[i:]...)...)
		case 3: // truncate
			b = b[:i]
		case 4: // duplicate a span
			j := i + rng.IntN(len(b)-i+1)
			b = append(b[:j], append(bytes.Clone(b[i:j]), b[j:]...)...)
		case 5: // flip a bit
			b[i] ^= 1 << rng.IntN(8)
		}
	}
	return b
}

type c20Target struct {
	A int               `json:"a"`
	B string            `json:"b"`
	C []float64         `json:"c"`
	D map[string]*int8  `json:"d"`
	E *c20Target        `json:"e"`
	F [2]bool           `json:"f"`
	G any               `json:"g"`
	H []byte            `json:"h"`
	I jsontext.Value    `json:"i"`
	J uint16            `json:"j,string"`
	K time.Duration     `json:"k,format:nano"`
	L time.Time         `json:"l"`
	M map[int64]float32 `json:"m"`
	N struct{ X, Y int } `json:"n,inline"`
	U map[string]any    `json:",unknown"`
}

type c20V1Target struct {
	A int
	B string `json:"b,omitempty"`
	C []any
	D map[string]jsonv1.Number
	E *c20V1Target
	F jsonv1.RawMessage
	G any
	H float32 `json:",string"`
}

var c20FormatOpts = []func() jsontext.Options{
	func() jsontext.Options { return jsontext.AllowDuplicateNames(true) },
	func() jsontext.Options { return jsontext.AllowInvalidUTF8(true) },
	func() jsontext.Options { return jsontext.EscapeForHTML(true) },
	func() jsontext.Options { return jsontext.EscapeForJS(true) },
	func() jsontext.Options { return jsontext.PreserveRawStrings(true) },
	func() jsontext.Options { return jsontext.CanonicalizeRawInts(true) },
	func() jsontext.Options { return jsontext.CanonicalizeRawFloats(true) },
	func() jsontext.Options { return jsontext.ReorderRawObjects(true) },
	func() jsontext.Options { return jsontext.SpaceAfterColon(true) },
	func() jsontext.Options { return jsontext.SpaceAfterComma(true) },
	func() jsontext.Options { return jsontext.Multiline(true) },
	func() jsontext.Options { return jsontext.WithIndent(" \t") },
	func() jsontext.Options { return jsontext.WithIndent("") },
	func() jsontext.Options { return jsontext.WithIndentPrefix("\t ") },
	func() jsontext.Options { return jsontext.Multiline(false) },
}

func c20RandOpts(rng *rand.Rand) ([]jsontext.Options, string) {
	var o []jsontext.Options
	mask := rng.Uint32()
	if rng.IntN(3) == 0 {
		mask &= rng.Uint32()
	}
	for i, f := range c20FormatOpts {
		if mask>>i&1 == 1 {
			o = append(o, f())
		}
	}
	return o, fmt.Sprintf("opts=%04x", mask&(1<<len(c20FormatOpts)-1))
}

// c20Watch tracks what each worker is doing so that a call that does not return is reported.
type c20Watch struct {
	op    atomic.Value // string
	input atomic.Value // []byte
	since atomic.Int64 // unix nano; 0 = idle
}

func (w *c20Watch) call(c *Ctx, op string, input []byte, f func()) {
	w.op.Store(op)
	w.input.Store(input)
	w.since.Store(time.Now().UnixNano())
	if p := guard(f); p != nil {
		c.Hit("sweep/panic")
		c.Panic(op, input, p, nil)
	}
	w.since.Store(0)
	c.Case(op, false)
}

func c20PanicSweep(c *Ctx) {
	workers := c20Workers(c)
	perWorker := c.N(12000, 200000)
	watches := make([]*c20Watch, workers)
	done := make(chan struct{})
	var wg sync.WaitGroup
	for w := 0; w < workers; w++ {
		watches[w] = &c20Watch{}
		wg.Add(1)
		go func(w int) {
			defer wg.Done()
			rng := c.SubRng(uint64(9000 + w))
			wt := watches[w]
			for i := 0; i < perWorker; i++ {
				var in []byte
				switch rng.IntN(4) {
				case 0:
					in = c20RandBytes(rng)
					c.Hit("sweep/input=random-bytes")
				case 1:
					in = c20RandJSON(rng, 4)
					c.Hit("sweep/input=valid-json")
				default:
					in = c20Mutate(rng, c20RandJSON(rng, 4))
					c.Hit("sweep/input=mutated-json")
				}
				c.Case("sweep|"+string(in), true)
				c20SweepOne(c, wt, rng, in)
			}
		}(w)
	}
	go func() { wg.Wait(); close(done) }()
	tick := time.NewTicker(500 * time.Millisecond)
	defer tick.Stop()
	for {
		select {
		case <-done:
			return
		case <-tick.C:
			now := time.Now().UnixNano()
			for _, wt := range watches {
				if s := wt.since.Load(); s != 0 && now-s > int64(120*time.Second) {
					op, _ := wt.op.Load().(string)
					in, _ := wt.input.Load().([]byte)
					c.Violate("hang", op, in, map[string]any{"seconds": 20})
					c.Note("panic sweep aborted: %s did not return within 20 s", op)
					return // the stuck goroutine cannot be stopped; the process ends with the run
				}
			}
		}
	}
}

func c20SweepOne(c *Ctx, w *c20Watch, rng *rand.Rand, in []byte) {
	clone := func() []byte { return bytes.Clone(in) }
	// --- Unmarshal into a few target types
	w.call(c, "sweep/json.Unmarshal/any", in, func() {
		var v any
		if err := json.Unmarshal(clone(), &v); err == nil {
			c.Hit("sweep/unmarshal-any=ok")
			if _, err := json.Marshal(v); err != nil {
				c.Hit("sweep/remarshal-any=err")
			}
		} else {
			c.Hit("sweep/unmarshal-any=" + c20Class(err))
		}
	})
	w.call(c, "sweep/json.Unmarshal/struct", in, func() {
		var v c20Target
		if err := json.Unmarshal(clone(), &v); err == nil {
			json.Marshal(&v)
		}
	})
	w.call(c, "sweep/json.Unmarshal/struct/v1opts", in, func() {
		var v c20Target
		json.Unmarshal(clone(), &v, jsonv1.DefaultOptionsV1())
	})
	switch rng.IntN(6) {
	case 0:
		w.call(c, "sweep/json.Unmarshal/map[string]any", in, func() { var v map[string]any; json.Unmarshal(clone(), &v) })
	case 1:
		w.call(c, "sweep/json.Unmarshal/[]any", in, func() { var v []any; json.Unmarshal(clone(), &v) })
	case 2:
		w.call(c, "sweep/json.Unmarshal/*int", in, func() { var v *int; json.Unmarshal(clone(), &v) })
	case 3:
		w.call(c, "sweep/json.Unmarshal/[]byte", in, func() { var v []byte; json.Unmarshal(clone(), &v) })
	case 4:
		w.call(c, "sweep/json.Unmarshal/map[string][2]string", in, func() { var v map[string][2]string; json.Unmarshal(clone(), &v) })
	case 5:
		w.call(c, "sweep/json.Unmarshal/jsontext.Value", in, func() { var v jsontext.Value; json.Unmarshal(clone(), &v) })
	}
	// --- Decoder loops and scripts
	rd := func() io.Reader {
		switch rng.IntN(3) {
		case 0:
			return bytes.NewReader(clone())
		case 1:
			return bytes.NewBuffer(clone())
		}
		return &c20ChunkReader{b: clone(), n: 1 + rng.IntN(5)}
	}
	dopts := func() []jsontext.Options {
		var o []jsontext.Options
		if rng.IntN(2) == 0 {
			o = append(o, jsontext.AllowDuplicateNames(true))
		}
		if rng.IntN(2) == 0 {
			o = append(o, jsontext.AllowInvalidUTF8(true))
		}
		return o
	}
	w.call(c, "sweep/Decoder.ReadToken-loop", in, func() {
		d := jsontext.NewDecoder(rd(), dopts()...)
		for n := 0; n < 10*len(in)+10; n++ {
			tok, err := d.ReadToken()
			if err != nil {
				return
			}
			// accessors that match the kind (an accessor on the wrong kind is documented misuse)
			switch tok.Kind() {
			case '"':
				_ = tok.String()
			case '0':
				tok.Float()
				tok.Int()
				tok.Uint()
				_ = tok.String()
			case 't', 'f':
				_ = tok.Bool()
			}
			_ = tok.Clone()
		}
		fail("ReadToken loop does not end on %x", in)
	})
	w.call(c, "sweep/Decoder.ReadValue-loop", in, func() {
		d := jsontext.NewDecoder(rd(), dopts()...)
		for n := 0; n < len(in)+10; n++ {
			v, err := d.ReadValue()
			if err != nil {
				return
			}
			_ = v.Kind()
		}
		fail("ReadValue loop does not end on %x", in)
	})
	w.call(c, "sweep/Decoder.script", in, func() {
		d := jsontext.NewDecoder(rd(), dopts()...)
		errs := 0
		for n := 0; n < 10*len(in)+20 && errs < 3; n++ {
			var err error
			switch rng.IntN(9) {
			case 8:
				if rng.IntN(4) == 0 { // Reset outside of any marshal call is allowed
					d.Reset(rd(), dopts()...)
				}
			case 0:
				_ = d.PeekKind()
			case 1, 2:
				_, err = d.ReadToken()
			case 3:
				_, err = d.ReadValue()
			case 4:
				err = d.SkipValue()
			case 5:
				_ = d.StackPointer()
				_ = d.InputOffset()
			case 6:
				_, _ = d.StackIndex(rng.IntN(d.StackDepth() + 1))
			case 7:
				_ = d.UnreadBuffer()
			}
			if err != nil {
				errs++
			}
		}
	})
	// --- Value methods with random option subsets
	opts, _ := c20RandOpts(rng)
	w.call(c, "sweep/Value.Format", in, func() {
		v := jsontext.Value(clone())
		if err := v.Format(opts...); err == nil {
			c.Hit("sweep/format=ok")
		} else {
			c.Hit("sweep/format=" + c20Class(err))
		}
	})
	w.call(c, "sweep/Value.IsValid+Compact+Indent+Canonicalize", in, func() {
		v := jsontext.Value(clone())
		v.IsValid(opts...)
		v.Compact(opts...)
		v = clone()
		v.Indent(opts...)
		v = clone()
		v.Canonicalize(opts...)
		_ = v.Kind()
		_ = v.String()
	})
	// --- Encoder scripts
	w.call(c, "sweep/Encoder.script", in, func() {
		var bb bytes.Buffer
		var wr io.Writer = &bb
		if rng.IntN(3) == 0 {
			wr = io.Discard
		}
		e := jsontext.NewEncoder(wr, opts...)
		for n := rng.IntN(24); n > 0; n-- {
			switch rng.IntN(15) {
			case 14:
				if rng.IntN(4) == 0 {
					e.Reset(wr, opts...)
				}
			case 0:
				e.WriteToken(jsontext.Null)
			case 1:
				e.WriteToken(jsontext.Bool(rng.IntN(2) == 0))
			case 2:
				e.WriteToken(jsontext.String(string(c20RandBytes(rng))))
			case 3:
				e.WriteToken(jsontext.Int(int64(rng.Uint64())))
			case 4:
				e.WriteToken(jsontext.Uint(rng.Uint64()))
			case 5:
				fs := []float64{0, math.Copysign(0, -1), 1.5, math.NaN(), math.Inf(1), math.Inf(-1), math.MaxFloat64, math.SmallestNonzeroFloat64, 1e21, 1e-7}
				e.WriteToken(jsontext.Float(fs[rng.IntN(len(fs))]))
			case 6:
				e.WriteToken(jsontext.BeginObject)
			case 7:
				e.WriteToken(jsontext.EndObject)
			case 8:
				e.WriteToken(jsontext.BeginArray)
			case 9:
				e.WriteToken(jsontext.EndArray)
			case 10:
				e.WriteValue(clone())
			case 11:
				e.WriteValue(c20RandJSON(rng, 2))
			case 12:
				e.WriteToken(jsontext.String("k"))
			case 13:
				_ = e.StackPointer()
				_, _ = e.StackIndex(rng.IntN(e.StackDepth() + 1))
				_ = e.OutputOffset()
				_ = e.AvailableBuffer()
			}
		}
	})
	// --- v1 entry points (blank prefix/indent here; arbitrary ones run in the subprocess sweep)
	blanks := []string{"", " ", "\t", "  ", " \t"}
	pre, ind := blanks[rng.IntN(len(blanks))], blanks[rng.IntN(len(blanks))]
	w.call(c, "sweep/v1.Valid+Compact+Indent+HTMLEscape", in, func() {
		var bb bytes.Buffer
		jsonv1.Valid(in)
		jsonv1.Compact(&bb, in)
		bb.Reset()
		jsonv1.Indent(&bb, in, pre, ind)
		bb.Reset()
		jsonv1.HTMLEscape(&bb, in)
	})
	w.call(c, "sweep/v1.Unmarshal", in, func() {
		var v any
		if err := jsonv1.Unmarshal(clone(), &v); err == nil {
			jsonv1.Marshal(v)
			jsonv1.MarshalIndent(v, pre, ind)
		}
		var t c20V1Target
		if err := jsonv1.Unmarshal(clone(), &t); err == nil {
			jsonv1.Marshal(&t)
		}
	})
	w.call(c, "sweep/v1.Decoder", in, func() {
		d := jsonv1.NewDecoder(rd())
		if rng.IntN(2) == 0 {
			d.UseNumber()
		}
		errs := 0
		for n := 0; n < 10*len(in)+20 && errs < 2; n++ {
			var err error
			switch rng.IntN(5) {
			case 0, 1:
				_, err = d.Token()
			case 2:
				var v any
				err = d.Decode(&v)
			case 3:
				_ = d.More()
				_ = d.InputOffset()
			case 4:
				io.Copy(io.Discard, d.Buffered())
			}
			if err != nil {
				errs++
			}
		}
	})
}

// =====================================================================================
// (a') marshal depth sweep over the innermost value: every Go value whose encoding is a container
// or can take a fast path, under slice-, map- and pointer-to-struct nesting
// =====================================================================================

type c20Empty struct{}
type c20AllOmitted struct {
	X int            `json:"x,omitzero"`
	Y []int          `json:"y,omitempty"`
	Z map[string]int `json:"z,omitempty"`
	p int            //nolint:unused (unexported: never a member)
}
type c20OneField struct {
	X int `json:"x"`
}
type c20Ignored struct {
	X int `json:"-"`
}
type c20RawObj struct{}

func (c20RawObj) MarshalJSON() ([]byte, error) { return []byte(`{}`), nil }

type c20RawArr struct{}

func (c20RawArr) MarshalJSON() ([]byte, error) { return []byte(`[]`), nil }

type c20ToObj struct{}

func (c20ToObj) MarshalJSONTo(e *jsontext.Encoder) error {
	if err := e.WriteToken(jsontext.BeginObject); err != nil {
		return err
	}
	return e.WriteToken(jsontext.EndObject)
}

type c20ToVal struct{}

func (c20ToVal) MarshalJSONTo(e *jsontext.Encoder) error { return e.WriteValue(jsontext.Value(`[]`)) }

type c20W struct {
	A any `json:"a"`
}

// c20Leaf: an innermost Go value; levels = the JSON nesting depth of its own encoding under v2 defaults.
type c20Leaf struct {
	name   string
	levels int
	mk     func() any
	v1     bool // the v1 options encode it with the same nesting (nil slices/maps become null under v1)
}

func c20Leaves() []c20Leaf {
	base := []c20Leaf{
		{"[]any{}", 1, func() any { return []any{} }, true},
		{"[]any(nil)", 1, func() any { return []any(nil) }, false},
		{"[]int{}", 1, func() any { return []int{} }, true},
		{"[]int(nil)", 1, func() any { return []int(nil) }, false},
		{"[]int{1}", 1, func() any { return []int{1} }, true},
		{"[]any{1}", 1, func() any { return []any{1.0} }, true},
		{"[0]int{}", 1, func() any { return [0]int{} }, true},
		{"[1]int{}", 1, func() any { return [1]int{} }, true},
		{"map[string]any{}", 1, func() any { return map[string]any{} }, true},
		{"map[string]any(nil)", 1, func() any { return map[string]any(nil) }, false},
		{"map[string]int{}", 1, func() any { return map[string]int{} }, true},
		{"map[string]int{a:1}", 1, func() any { return map[string]int{"a": 1} }, true},
		{"map[int]bool{}", 1, func() any { return map[int]bool{} }, true},
		{"struct{}{}", 1, func() any { return struct{}{} }, true},
		{"named-empty-struct", 1, func() any { return c20Empty{} }, true},
		{"struct-all-omitted", 1, func() any { return c20AllOmitted{} }, true},
		{"struct-only-ignored-field", 1, func() any { return c20Ignored{} }, true},
		{"struct-one-field", 1, func() any { return c20OneField{} }, true},
		{"map[string]struct{}{k:{}}", 2, func() any { return map[string]struct{}{"k": {}} }, true},
		{"[]struct{}{{}}", 2, func() any { return []struct{}{{}} }, true},
		{"[]named-empty{{}}", 2, func() any { return []c20Empty{{}} }, true},
		{"[1]struct{}", 2, func() any { return [1]struct{}{} }, true},
		{"[][]int{{}}", 2, func() any { return [][]int{{}} }, true},
		{"[]map[string]int{{}}", 2, func() any { return []map[string]int{{}} }, true},
		{"struct{F struct{}}", 2, func() any { return struct{ F struct{} }{} }, true},
		{"struct{F *empty}", 2, func() any { return struct{ F *c20Empty }{&c20Empty{}} }, true},
		{"Value{}", 1, func() any { return jsontext.Value(`{}`) }, true},
		{"Value[]", 1, func() any { return jsontext.Value(`[]`) }, true},
		{"Value[1]", 1, func() any { return jsontext.Value(`[1]`) }, true},
		{"Value{a:[]}", 2, func() any { return jsontext.Value(`{"a":[]}`) }, true},
		{"MarshalJSON{}", 1, func() any { return c20RawObj{} }, true},
		{"MarshalJSON[]", 1, func() any { return c20RawArr{} }, true},
		{"MarshalJSONTo-tokens{}", 1, func() any { return c20ToObj{} }, true},
		{"MarshalJSONTo-value[]", 1, func() any { return c20ToVal{} }, true},
		{"scalar-0", 0, func() any { return 0.0 }, true},
		{"scalar-null", 0, func() any { return nil }, true},
	}
	out := append([]c20Leaf{}, base...)
	for _, l := range base {
		if l.name == "scalar-null" {
			continue
		}
		l := l
		out = append(out, c20Leaf{"&" + l.name, l.levels, func() any { // pointer to each
			v := reflect.ValueOf(l.mk())
			p := reflect.New(v.Type())
			p.Elem().Set(v)
			return p.Interface()
		}, l.v1})
	}
	return out
}

func c20Wrap(kind string, w int, v any) any {
	for i := 0; i < w; i++ {
		switch kind {
		case "slice":
			v = []any{v}
		case "map":
			v = map[string]any{"a": v}
		default: // pointer to struct
			v = &c20W{A: v}
		}
	}
	return v
}

// c20JSONDepth is the maximal bracket nesting of a text (strings skipped).
func c20JSONDepth(b []byte) int {
	d, max := 0, 0
	inStr := false
	for i := 0; i < len(b); i++ {
		ch := b[i]
		if inStr {
			if ch == '\\' {
				i++
			} else if ch == '"' {
				inStr = false
			}
			continue
		}
		switch ch {
		case '"':
			inStr = true
		case '[', '{':
			d++
			if d > max {
				max = d
			}
		case ']', '}':
			d--
		}
	}
	return max
}

func c20MarshalLeafSweep(c *Ctx) {
	leaves := c20Leaves()
	wrappers := []string{"slice", "map", "ptr-struct"}
	totals := []int{10000, 10001}
	if c.Thorough() {
		totals = []int{9999, 10000, 10001, 10002}
	}
	ws := jsontext.SpaceAfterColon(true) // any whitespace option disables the `[]`/`{}` fast paths
	type leafCase struct {
		leaf    c20Leaf
		wrapper string
		total   int
		api     string
		opt     string
	}
	var cases []leafCase
	apis := []string{"Marshal", "MarshalWrite", "MarshalEncode", "v1.Marshal"}
	for li, lf := range leaves {
		for wi, wr := range wrappers {
			m := li*len(wrappers) + wi
			for _, tot := range totals {
				// cheap and complete: pre-descend an encoder by tokens, marshal only the last levels (both option sets)
				cases = append(cases, leafCase{lf, wr, tot, "tokens+MarshalEncode", "default"}, leafCase{lf, wr, tot, "tokens+MarshalEncode", "whitespace"})
				// full recursion through the public entry points.  Thorough: the whole product.  Quick: per innermost value,
				// Marshal with default options under one wrapper and one other (entry point, option set) under another,
				// both rotating over the product, each at every nesting.
				for ai, api := range apis {
					for oi, opt := range []string{"default", "whitespace"} {
						rot := (li/len(wrappers) + li) % (len(apis)*2 - 1) // 0..6 over the seven non-(Marshal,default) pairs
						pair := ai*2 + oi - 1
						switch {
						case c.Thorough(),
							ai == 0 && oi == 0 && wi == li%len(wrappers),
							pair == rot && wi == (li+1)%len(wrappers) && li%2 == 0:
							cases = append(cases, leafCase{lf, wr, tot, api, opt})
						}
					}
				}
			}
			_ = m
		}
	}
	defer debug.SetGCPercent(debug.SetGCPercent(800))
	var tmu sync.Mutex
	apiTime := map[string]time.Duration{}
	jobs := make(chan leafCase, len(cases))
	for _, k := range cases {
		jobs <- k
	}
	close(jobs)
	var wg sync.WaitGroup
	for w := 0; w < c20Workers(c); w++ {
		wg.Add(1)
		go func() {
			defer wg.Done()
			for k := range jobs {
				if strings.HasPrefix(k.api, "v1.") && !k.leaf.v1 {
					continue
				}
				wcount := k.total - k.leaf.levels
				var opts []json.Options
				if k.opt == "whitespace" {
					opts = append(opts, ws)
				}
				var out []byte
				var err error
				t0 := time.Now()
				pv := guard(func() {
					switch k.api {
					case "Marshal":
						out, err = json.Marshal(c20Wrap(k.wrapper, wcount, k.leaf.mk()), opts...)
					case "MarshalWrite":
						var bb bytes.Buffer
						err = json.MarshalWrite(&bb, c20Wrap(k.wrapper, wcount, k.leaf.mk()), opts...)
						out = bb.Bytes()
					case "MarshalEncode":
						var bb bytes.Buffer
						err = json.MarshalEncode(jsontext.NewEncoder(&bb, opts...), c20Wrap(k.wrapper, wcount, k.leaf.mk()))
						out = bb.Bytes()
					case "v1.Marshal":
						if k.opt == "whitespace" {
							out, err = jsonv1.MarshalIndent(c20Wrap(k.wrapper, wcount, k.leaf.mk()), "", "")
						} else {
							out, err = jsonv1.Marshal(c20Wrap(k.wrapper, wcount, k.leaf.mk()))
						}
					case "tokens+MarshalEncode":
						const pre = 9980
						var bb bytes.Buffer
						e := jsontext.NewEncoder(&bb, opts...)
						for i := 0; i < pre; i++ {
							if err = e.WriteToken(jsontext.BeginArray); err != nil {
								return
							}
						}
						if err = json.MarshalEncode(e, c20Wrap(k.wrapper, wcount-pre, k.leaf.mk())); err != nil {
							return
						}
						for i := 0; i < pre; i++ {
							if err = e.WriteToken(jsontext.EndArray); err != nil {
								return
							}
						}
						out = bb.Bytes()
					}
				})
				tmu.Lock()
				apiTime[k.api] += time.Since(t0)
				tmu.Unlock()
				id := fmt.Sprintf("leaf=%s wrapper=%s total=%d opt=%s", k.leaf.name, k.wrapper, k.total, k.opt)
				op := "depth/marshal-leaf/" + k.api
				c.Case("leaf|"+k.api+"|"+id, true)
				c.Hit("marshal-leaf/api=" + k.api)
				c.Hit("marshal-leaf/wrapper=" + k.wrapper)
				c.Hit(fmt.Sprintf("marshal-leaf/total=%d", k.total))
				if pv != nil {
					c.Panic(op, []byte(id), pv, nil)
					continue
				}
				wantOK := k.total <= c20Max
				cls := c20Class(err)
				c.Hit("marshal-leaf/result=" + cls)
				detail := map[string]any{"leaf": k.leaf.name, "wrapper": k.wrapper, "nesting": k.total, "options": k.opt, "class": cls}
				switch {
				case err == nil && !wantOK:
					c.Violate("depth-accepted-above-limit/marshal-leaf", op, []byte(id), detail)
				case err != nil && wantOK:
					detail["error"] = trunc(err.Error(), 200)
					c.Violate("depth-refused-at-or-below-limit/marshal-leaf", op, []byte(id), detail)
				case err != nil && !strings.HasPrefix(k.api, "v1.") && cls != "maxdepth":
					detail["error"] = trunc(err.Error(), 200)
					c.Violate("depth-refusal-wrong-class/marshal-leaf", op, []byte(id), detail)
				}
				if err == nil {
					// whatever was accepted must have the nesting the bookkeeping says, and be valid for the library's own reader
					if got := c20JSONDepth(out); got != k.total {
						fail("marshal-leaf bookkeeping: %s: output nesting %d, expected %d", id, got, k.total)
					}
					if k.api != "tokens+MarshalEncode" && !jsontext.Value(out).IsValid() {
						c.Violate("marshal-output-refused-by-IsValid", op, []byte(id), detail)
					}
				}
			}
		}()
	}
	wg.Wait()
	c.Note("marshal-leaf sweep: time per entry point (summed) %v", apiTime)
	c.Note("marshal-leaf sweep: %d innermost values × %d wrappers × nestings %v: %d cases", len(leaves), len(wrappers), totals, len(cases))
}

// =====================================================================================
// (c') per-call options × coder creation options × coder position, for MarshalEncode and UnmarshalDecode of
// plain values (no user-defined methods: a method that breaks the token contract is another matter, C02/D9).
// Any panic is a violation; at a member-name position a change of AllowDuplicateNames / AllowInvalidUTF8 must be
// answered with the documented error (the error values are unexported: the message text is matched — the one
// place where C20 reads a message), a change of whitespace formatting likewise for MarshalEncode.
// =====================================================================================

type c20CoderOpts struct {
	dup, utf8 bool
	ws        string // "", "multiline", "colon", "comma"
}

func (o c20CoderOpts) opts() []jsontext.Options {
	out := []jsontext.Options{jsontext.AllowDuplicateNames(o.dup), jsontext.AllowInvalidUTF8(o.utf8)}
	switch o.ws {
	case "multiline":
		out = append(out, jsontext.Multiline(true))
	case "colon":
		out = append(out, jsontext.SpaceAfterColon(true))
	case "comma":
		out = append(out, jsontext.SpaceAfterComma(true))
	}
	return out
}

// a per-call option: how it changes the effective settings
type c20CallOpt struct {
	name  string
	opt   func() json.Options
	apply func(o *c20CoderOpts, ws *[3]bool) // ws = multiline, colon, comma
}

var c20CallOpts = []c20CallOpt{
	{"dup=false", func() json.Options { return jsontext.AllowDuplicateNames(false) }, func(o *c20CoderOpts, _ *[3]bool) { o.dup = false }},
	{"dup=true", func() json.Options { return jsontext.AllowDuplicateNames(true) }, func(o *c20CoderOpts, _ *[3]bool) { o.dup = true }},
	{"utf8=false", func() json.Options { return jsontext.AllowInvalidUTF8(false) }, func(o *c20CoderOpts, _ *[3]bool) { o.utf8 = false }},
	{"utf8=true", func() json.Options { return jsontext.AllowInvalidUTF8(true) }, func(o *c20CoderOpts, _ *[3]bool) { o.utf8 = true }},
	{"multiline=true", func() json.Options { return jsontext.Multiline(true) }, func(_ *c20CoderOpts, ws *[3]bool) { ws[0] = true }},
	{"multiline=false", func() json.Options { return jsontext.Multiline(false) }, func(_ *c20CoderOpts, ws *[3]bool) { ws[0] = false }},
	{"colon=true", func() json.Options { return jsontext.SpaceAfterColon(true) }, func(_ *c20CoderOpts, ws *[3]bool) { ws[1] = true }},
	{"comma=false", func() json.Options { return jsontext.SpaceAfterComma(false) }, func(_ *c20CoderOpts, ws *[3]bool) { ws[2] = false }},
	{"deterministic", func() json.Options { return json.Deterministic(true) }, func(*c20CoderOpts, *[3]bool) {}},
}

type c20Pos struct {
	name     string
	wantName bool
	enc      func(e *jsontext.Encoder) error // tokens that bring an encoder there
	text     string                          // input that brings a decoder there after `reads` ReadToken calls
	reads    int
}

var c20Positions = []c20Pos{
	{"top", false, func(*jsontext.Encoder) error { return nil }, `"v" 1`, 0},
	{"after-top-value", false, func(e *jsontext.Encoder) error { return e.WriteToken(jsontext.Int(1)) }, `1 "v"`, 1},
	{"object-name", true, func(e *jsontext.Encoder) error { return e.WriteToken(jsontext.BeginObject) }, `{"k":"v","k2":2}`, 1},
	{"object-value", false, func(e *jsontext.Encoder) error {
		if err := e.WriteToken(jsontext.BeginObject); err != nil {
			return err
		}
		return e.WriteToken(jsontext.String("k0"))
	}, `{"k0":"v","k":2}`, 2},
	{"object-second-name", true, func(e *jsontext.Encoder) error {
		for _, t := range []jsontext.Token{jsontext.BeginObject, jsontext.String("k0"), jsontext.Int(1)} {
			if err := e.WriteToken(t); err != nil {
				return err
			}
		}
		return nil
	}, `{"k0":1,"k":"v"}`, 3},
	{"array", false, func(e *jsontext.Encoder) error { return e.WriteToken(jsontext.BeginArray) }, `["v",1]`, 1},
	// the same three value positions with an OBJECT as the next input value (a decoder can fail half-way through it)
	{"top/object-input", false, func(*jsontext.Encoder) error { return nil }, `{"a":"x","b":{"c":1},"a":2} 1`, 0},
	{"array/object-input", false, func(e *jsontext.Encoder) error { return e.WriteToken(jsontext.BeginArray) }, `[{"a":"x","b":{"c":1},"a":2},1]`, 1},
	{"object-value/object-input", false, func(e *jsontext.Encoder) error {
		if err := e.WriteToken(jsontext.BeginObject); err != nil {
			return err
		}
		return e.WriteToken(jsontext.String("k0"))
	}, `{"k0":{"a":"x","b":{"c":1},"a":2},"k":2}`, 2},
	{"nested-object-name", true, func(e *jsontext.Encoder) error {
		for _, t := range []jsontext.Token{jsontext.BeginObject, jsontext.String("a"), jsontext.BeginArray, jsontext.BeginObject} {
			if err := e.WriteToken(t); err != nil {
				return err
			}
		}
		return nil
	}, `{"a":[{"k":"v"}]}`, 4},
}

type c20PlainStruct struct {
	A int    `json:"a"`
	B string `json:"b,omitempty"`
}

func c20OptionPositionSweep(c *Ctx) {
	values := []struct {
		name string
		v    any
	}{
		{"string", "k"}, {"string-invalid-utf8", "k\xff"}, {"int", 7}, {"struct", c20PlainStruct{A: 1}},
		{"map", map[string]int{"a": 1, "b": 2}}, {"map-invalid-utf8-keys", map[string]int{"a\xff": 1, "a\xfe": 2}},
		{"slice", []int{1}}, {"nil", nil}, {"map-with-unsupported-value", map[string]any{"a": make(chan int)}}, {"*string", new(string)}, {"map[string]any", map[string]any{"x": map[string]any{"y": 1.0}}},
	}
	targets := []struct {
		name string
		mk   func() any
	}{
		{"*string", func() any { return new(string) }}, {"*int", func() any { return new(int) }},
		{"*struct", func() any { return new(c20PlainStruct) }}, {"*map", func() any { return new(map[string]int) }},
		{"*any", func() any { return new(any) }}, {"*[]any", func() any { return new([]any) }},
		{"*jsontext.Value", func() any { return new(jsontext.Value) }},
		{"*map[string]map[string]int", func() any { return new(map[string]map[string]int) }},
	}
	var creations []c20CoderOpts
	for _, d := range []bool{false, true} {
		for _, u := range []bool{false, true} {
			for _, w := range []string{"", "multiline", "colon", "comma"} {
				creations = append(creations, c20CoderOpts{d, u, w})
			}
		}
	}
	// per-call option sets: none, every single option, every pair of options of different families
	var callSets [][]c20CallOpt
	callSets = append(callSets, nil)
	for i, a := range c20CallOpts {
		callSets = append(callSets, []c20CallOpt{a})
		for _, b := range c20CallOpts[i+1:] {
			if strings.Split(a.name, "=")[0] != strings.Split(b.name, "=")[0] {
				callSets = append(callSets, []c20CallOpt{a, b})
			}
		}
	}
	check := func(op, id string, pos c20Pos, cr c20CoderOpts, set []c20CallOpt, marshal bool, err error) {
		eff := cr
		ws0 := [3]bool{cr.ws == "multiline", cr.ws == "colon", cr.ws == "comma"}
		ws := ws0
		for _, o := range set {
			o.apply(&eff, &ws)
		}
		want := ""
		switch {
		case len(set) == 0:
		case pos.wantName && eff.dup != cr.dup:
			want = "cannot change duplicate name checks"
		case pos.wantName && eff.utf8 != cr.utf8:
			want = "cannot change UTF-8 checks"
		}
		_ = marshal // a change of whitespace formatting is swept for panics only (Multiline implies other flags at coder creation)
		if want != "" {
			c.Hit("optpos/expected=" + strings.Fields(want)[2])
			if err == nil || !strings.Contains(err.Error(), want) {
				got := "<nil>"
				if err != nil {
					got = trunc(err.Error(), 160)
				}
				c.Violate("documented-error-missing", op, []byte(id), map[string]any{"want": want, "got": got})
			}
		} else {
			c.Hit("optpos/expected=none")
		}
	}
	// A panic in the calls that FOLLOW a MarshalEncode/UnmarshalDecode is classified as the known root cause D9 (the
	// namespace/name stacks get out of step when AllowDuplicateNames differs between a `{` and its `}`) only if
	// (a) the preceding call returned an error, (b) its effective AllowDuplicateNames differed from the coder's own, and
	// (c) the panic comes out of objectNamespaceStack (Last/pop) or out of objectNameStack.copyQuotedBuffer reached
	// through AppendStackPointer while an error is being wrapped.  Every other panic is a plain `panic`.
	followUpPanic := func(op, id string, cr c20CoderOpts, set []c20CallOpt, callErr error, p any, stack string) {
		eff := cr
		var ws [3]bool
		for _, o := range set {
			o.apply(&eff, &ws)
		}
		frame := "other"
		switch {
		case strings.Contains(stack, "objectNamespaceStack"):
			frame = "objectNamespaceStack"
		case strings.Contains(stack, "objectNameStack).copyQuotedBuffer") && strings.Contains(stack, "AppendStackPointer"):
			frame = "objectNameStack.copyQuotedBuffer<-AppendStackPointer"
		}
		kind := "panic"
		if callErr != nil && eff.dup != cr.dup && frame != "other" {
			kind = "panic-namespace-after-failed-option-call"
		}
		c.Hit("optpos/follow-up-" + kind + "/" + frame)
		c.Hit("optpos/pair/" + kind + "|" + op) // every (vkind, op) pair that occurs, beyond the cap on written violations
		detail := map[string]any{"panic": fmt.Sprint(p), "frame": frame, "call_failed": callErr != nil, "coder_dup": cr.dup, "call_dup": eff.dup}
		if callErr != nil {
			detail["call_error"] = trunc(callErr.Error(), 120)
		}
		c.Violate(kind, op, []byte(id), detail)
	}
	n := 0
	for _, pos := range c20Positions {
		for _, cr := range creations {
			for _, set := range callSets {
				var callOpts []json.Options
				names := ""
				for _, o := range set {
					callOpts = append(callOpts, o.opt())
					names += o.name + ","
				}
				idBase := fmt.Sprintf("pos=%s coder={dup=%v utf8=%v ws=%s} call={%s}", pos.name, cr.dup, cr.utf8, cr.ws, names)
				for _, val := range values {
					id := idBase + " value=" + val.name
					op := "optpos/MarshalEncode/" + pos.name
					var err error
					var e *jsontext.Encoder
					pv := guard(func() {
						var bb bytes.Buffer
						e = jsontext.NewEncoder(&bb, cr.opts()...)
						if perr := pos.enc(e); perr != nil {
							fail("optpos: cannot reach %s: %v", pos.name, perr)
						}
						err = json.MarshalEncode(e, val.v, callOpts...)
					})
					n++
					c.Case("optpos|"+op+"|"+id, len(set) > 0)
					if pv != nil {
						c.Hit("optpos/panic-in-call")
						c.Panic(op, []byte(id), pv, nil)
						continue
					}
					// the coder must remain usable — after a successful call and after a failed one (the documentation of
					// jsontext promises errors, not panics): next value, closers, StackPointer
					fp, stack := c20GuardStack(func() {
						_ = json.MarshalEncode(e, "next")
						_ = e.WriteToken(jsontext.Int(2))
						_ = e.WriteToken(jsontext.EndObject)
						_ = e.WriteToken(jsontext.EndArray)
						_ = e.StackPointer()
					})
					if fp != nil {
						followUpPanic(op, id, cr, set, err, fp, stack)
					}
					check(op, id, pos, cr, set, true, err)
				}
				for _, tg := range targets {
					id := idBase + " target=" + tg.name
					op := "optpos/UnmarshalDecode/" + pos.name
					var err error
					var d *jsontext.Decoder
					pv := guard(func() {
						d = jsontext.NewDecoder(strings.NewReader(pos.text), cr.opts()...)
						for i := 0; i < pos.reads; i++ {
							if _, rerr := d.ReadToken(); rerr != nil {
								fail("optpos: cannot reach %s: %v", pos.name, rerr)
							}
						}
						err = json.UnmarshalDecode(d, tg.mk(), callOpts...)
					})
					n++
					c.Case("optpos|"+op+"|"+id, len(set) > 0)
					if pv != nil {
						c.Hit("optpos/panic-in-call")
						c.Panic(op, []byte(id), pv, nil)
						continue
					}
					fp, stack := c20GuardStack(func() {
						var x any
						_ = json.UnmarshalDecode(d, &x)
						for i := 0; i < 8; i++ {
							if _, rerr := d.ReadToken(); rerr != nil {
								break
							}
						}
						_ = d.StackPointer()
					})
					if fp != nil {
						followUpPanic(op, id, cr, set, err, fp, stack)
					}
					check(op, id, pos, cr, set, false, err)
				}
			}
		}
	}
	c.Note("option × position sweep: %d positions × %d coder option sets × %d per-call option sets × (%d values + %d targets) = %d calls",
		len(c20Positions), len(creations), len(callSets), len(values), len(targets), n)
}
