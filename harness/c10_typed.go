package main

// C10, continued: (H) TYPED tokens — jsontext.Int/Uint/Float/Float32 (and the non-number constructors for the
// documented wrong-kind panics) × every accessor, with the predicate
//     typed token  ≡  raw token of the rendered literal  ≡  math/big on the exact value,
// and correspondence with the Lean model (`num ttok`);
// (I) every integer kind (predeclared and named) marshaled bare and inside every container through which an
// integer can reach the encoder (any, []any, map[string]any, *T, struct field of type any, map key, `,string`
// field, StringifyNumbers), compared with math/big printing, and read back into the typed kind.

import (
	"bytes"
	"fmt"
	"math"
	"math/big"
	"reflect"
	"strconv"
	"strings"

	json "github.com/go-json-experiment/json"
	"github.com/go-json-experiment/json/jsontext"
)

// ---------------------------------------------------------------- H. typed tokens

type c10TokObs struct {
	kind                    jsontext.Kind
	text                    string
	i                       int64
	u                       uint64
	f                       float64
	f32                     float32
	ie, ue, fe, f32e        error
	pi, pu, pf, pf32, pk, ps any // recovered panics per accessor
}

func c10Observe(t jsontext.Token) (o c10TokObs) {
	o.pk = guard(func() { o.kind = t.Kind() })
	o.ps = guard(func() { o.text = t.String() })
	o.pi = guard(func() { o.i, o.ie = t.Int() })
	o.pu = guard(func() { o.u, o.ue = t.Uint() })
	o.pf = guard(func() { o.f, o.fe = t.Float() })
	o.pf32 = guard(func() { o.f32, o.f32e = t.Float32() })
	return o
}

func (o c10TokObs) line() string {
	p := func(x any) string {
		if x != nil {
			return "PANIC"
		}
		return ""
	}
	return fmt.Sprintf("%s%d %s %s%d %s %s%d %s %s%d %s", p(o.pi), o.i, c10ErrClass(o.ie), p(o.pu), o.u, c10ErrClass(o.ue),
		p(o.pf), math.Float64bits(o.f), c10ErrClass(o.fe), p(o.pf32), math.Float32bits(o.f32), c10ErrClass(o.f32e))
}

func c10RawToken(c *Ctx, text string) (o c10TokObs, ok bool) {
	var err error
	if p := guard(func() {
		dec := jsontext.NewDecoder(strings.NewReader(text + " "))
		var t jsontext.Token
		t, err = dec.ReadToken()
		if err == nil {
			o = c10Observe(t)
		}
	}); p != nil || err != nil {
		return o, false
	}
	return o, true
}

func c10Encode(t jsontext.Token) (string, error) {
	var buf bytes.Buffer
	var err error
	if p := guard(func() { err = jsontext.NewEncoder(&buf).WriteToken(t) }); p != nil {
		return "", fmt.Errorf("panic: %v", p)
	}
	return strings.TrimSuffix(buf.String(), "\n"), err
}

// expected accessor results from the exact value (math/big); neg0 tells a float token holding -0
func c10WantInt(x *big.Rat) string {
	if !x.IsInt() {
		q := new(big.Int).Quo(x.Num(), x.Denom()) // truncation toward zero
		return c10SatInt(q) + " syntax"
	}
	if x.Num().IsInt64() {
		return x.Num().String() + " none"
	}
	return c10SatInt(x.Num()) + " range"
}

func c10SatInt(q *big.Int) string {
	switch {
	case q.IsInt64():
		return q.String()
	case q.Sign() < 0:
		return strconv.FormatInt(math.MinInt64, 10)
	}
	return strconv.FormatInt(math.MaxInt64, 10)
}

func c10WantUint(x *big.Rat, signbit bool) string {
	sat := func(q *big.Int) string {
		switch {
		case q.Sign() < 0:
			return "0"
		case q.IsUint64():
			return q.String()
		}
		return strconv.FormatUint(math.MaxUint64, 10)
	}
	if signbit || x.Sign() < 0 {
		return "0 syntax" // the grammar of an unsigned integer has no minus sign
	}
	if !x.IsInt() {
		return sat(new(big.Int).Quo(x.Num(), x.Denom())) + " syntax"
	}
	if x.Num().IsUint64() {
		return x.Num().String() + " none"
	}
	return sat(x.Num()) + " range"
}

// c10CheckTyped checks one typed number token. ctor is "i","u","f","F"; exact is its exact value.
func c10CheckTyped(c *Ctx, b *c10Batch, ctor string, arg uint64, tok jsontext.Token, exact *big.Rat, signbit bool, wantText string) {
	op := map[string]string{"i": "jsontext.Int", "u": "jsontext.Uint", "f": "jsontext.Float", "F": "jsontext.Float32"}[ctor]
	var argText string
	switch ctor {
	case "i":
		argText = strconv.FormatInt(int64(arg), 10)
	default:
		argText = strconv.FormatUint(arg, 10)
	}
	in := []byte(ctor + " " + argText)
	o := c10Observe(tok)
	for name, p := range map[string]any{"Kind": o.pk, "String": o.ps, "Int": o.pi, "Uint": o.pu, "Float": o.pf, "Float32": o.pf32} {
		if p != nil {
			c.Panic(op+"."+name, in, p, nil)
			return
		}
	}
	c.Case("typed "+ctor+" "+argText, true)
	c.Hit("typed/" + ctor)
	viol := func(kind, acc string, d map[string]any) {
		d["constructor"] = op + "(" + wantText + ")"
		c.Violate(kind, op+"."+acc, in, d)
	}
	// ---- rendering: String, Encoder, Kind, Clone
	if o.kind != '0' {
		viol("typed-token-value", "Kind", map[string]any{"got": o.kind.String()})
	}
	if o.text != wantText {
		viol("typed-token-text", "String", map[string]any{"got": o.text, "want": wantText})
	}
	if enc, err := c10Encode(tok); err != nil || enc != wantText {
		viol("typed-token-text", "Encoder.WriteToken", map[string]any{"got": enc, "want": wantText, "err": fmt.Sprint(err)})
	}
	if co := c10Observe(tok.Clone()); co.line() != o.line() || co.text != o.text {
		viol("typed-token-value", "Clone", map[string]any{"clone": co.line(), "orig": o.line()})
	}
	// ---- accessors against math/big on the exact value
	f64, _ := exact.Float64()
	f32, _ := exact.Float32()
	if exact.Sign() == 0 && signbit {
		f64, f32 = math.Copysign(0, -1), float32(math.Copysign(0, -1))
	}
	rangeIf := func(inf bool) string {
		if inf {
			return "range"
		}
		return "none"
	}
	gotI := fmt.Sprintf("%d %s", o.i, c10ErrClass(o.ie))
	gotU := fmt.Sprintf("%d %s", o.u, c10ErrClass(o.ue))
	gotF := fmt.Sprintf("%d %s", math.Float64bits(o.f), c10ErrClass(o.fe))
	gotF32 := fmt.Sprintf("%d %s", math.Float32bits(o.f32), c10ErrClass(o.f32e))
	wantI, wantU := c10WantInt(exact), c10WantUint(exact, signbit)
	wantF := fmt.Sprintf("%d %s", math.Float64bits(f64), rangeIf(math.IsInf(f64, 0)))
	wantF32 := fmt.Sprintf("%d %s", math.Float32bits(f32), rangeIf(math.IsInf(float64(f32), 0)))
	if gotI != wantI {
		viol("typed-token-value", "Int", map[string]any{"got": gotI, "want": wantI})
	}
	if gotU != wantU {
		viol("typed-token-value", "Uint", map[string]any{"got": gotU, "want": wantU})
	}
	if gotF != wantF {
		viol("typed-token-value", "Float", map[string]any{"got": gotF, "want": wantF})
	}
	if gotF32 != wantF32 {
		kind := "typed-token-value"
		// signature of the known double rounding: float32(float64(n)) instead of one rounding of n
		if (ctor == "i" || ctor == "u") && math.Float32bits(o.f32) == math.Float32bits(float32(f64)) && o.f32e == nil {
			kind = "typed-int-float32-double-rounding"
		}
		viol(kind, "Float32", map[string]any{"got": gotF32, "want": wantF32})
	}
	// ---- the raw token of the rendered literal behaves the same
	if ro, ok := c10RawToken(c, o.text); !ok {
		viol("typed-token-text", "Decoder.ReadToken(rendered)", map[string]any{"text": o.text})
	} else {
		rI := fmt.Sprintf("%d %s", ro.i, c10ErrClass(ro.ie))
		rU := fmt.Sprintf("%d %s", ro.u, c10ErrClass(ro.ue))
		rF := fmt.Sprintf("%d %s", math.Float64bits(ro.f), c10ErrClass(ro.fe))
		rF32 := fmt.Sprintf("%d %s", math.Float32bits(ro.f32), c10ErrClass(ro.f32e))
		type cmp struct{ acc, typed, raw string }
		var cs []cmp
		switch ctor {
		case "i", "u": // the rendered literal is the exact value: every accessor must agree
			cs = []cmp{{"Int", gotI, rI}, {"Uint", gotU, rU}, {"Float", gotF, rF}, {"Float32", gotF32, rF32}}
		case "f": // the rendered literal is the shortest decimal that reads back as f (not f's exact value)
			cs = []cmp{{"Float", gotF, rF}}
		case "F":
			cs = []cmp{{"Float32", gotF32, rF32}}
		}
		for _, x := range cs {
			if x.typed != x.raw {
				kind := "typed-vs-raw"
				if x.acc == "Float32" && (ctor == "i" || ctor == "u") && math.Float32bits(o.f32) == math.Float32bits(float32(f64)) {
					kind = "typed-int-float32-double-rounding"
				}
				viol(kind, x.acc, map[string]any{"typed": x.typed, "raw": x.raw, "literal": o.text})
			}
		}
	}
	// ---- correspondence with the Lean model
	got := o.line()
	b.add("num ttok "+ctor+" "+argText, func(ans string) {
		if ans != got {
			c.Violate("corr-typed-token", op, in, map[string]any{"impl": got, "model": ans, "constructor": op + "(" + wantText + ")"})
		}
	})
}

func c10TypedInt(c *Ctx, b *c10Batch, n int64) {
	x := new(big.Rat).SetInt64(n)
	c10CheckTyped(c, b, "i", uint64(n), jsontext.Int(n), x, false, big.NewInt(n).String())
}

func c10TypedUint(c *Ctx, b *c10Batch, n uint64) {
	x := new(big.Rat).SetInt(new(big.Int).SetUint64(n))
	c10CheckTyped(c, b, "u", n, jsontext.Uint(n), x, false, new(big.Int).SetUint64(n).String())
}

func c10TypedFloat(c *Ctx, b *c10Batch, f float64) {
	if math.IsNaN(f) || math.IsInf(f, 0) {
		return
	}
	x := new(big.Rat).SetFloat64(f)
	c10CheckTyped(c, b, "f", math.Float64bits(f), jsontext.Float(f), x, math.Signbit(f), string(c10Ecma(c10Decomp(f, 64))))
	g := float32(f)
	if !math.IsInf(float64(g), 0) {
		y := new(big.Rat).SetFloat64(float64(g))
		c10CheckTyped(c, b, "F", uint64(math.Float32bits(g)), jsontext.Float32(g), y, math.Signbit(float64(g)), string(c10Ecma(c10Decomp(float64(g), 32))))
	}
}

func c10TypedTokens(c *Ctx, b *c10Batch) {
	r := c.Rng
	d := int64(c.N(40, 2000))
	// integers: every power-of-two bound ± d, as Int and as Uint where representable
	for _, k := range []uint{0, 7, 8, 15, 16, 24, 31, 32, 53, 62, 63, 64} {
		for _, sign := range []int64{1, -1} {
			a := new(big.Int).Mul(pow2(k), big.NewInt(sign))
			for dd := -d; dd <= d; dd++ {
				x := new(big.Int).Add(a, big.NewInt(dd))
				if x.IsInt64() {
					c10TypedInt(c, b, x.Int64())
				}
				if x.IsUint64() {
					c10TypedUint(c, b, x.Uint64())
				}
			}
		}
	}
	// integers at the midpoints of adjacent float32 / float64 values (Float/Float32 accessors round once)
	feed := func(lit string) {
		if x, ok := new(big.Int).SetString(lit, 10); ok {
			if x.IsInt64() {
				c10TypedInt(c, b, x.Int64())
			}
			if x.IsUint64() {
				c10TypedUint(c, b, x.Uint64())
			}
		}
	}
	for e := uint32(127 + 24); e <= 127+63; e++ {
		for _, m := range []uint32{0, 1<<23 - 2, r.Uint32() & (1<<23 - 1), r.Uint32() & (1<<23 - 1)} {
			g := math.Float32frombits(e<<23 | m)
			c10IntegerMidpoints(float64(g), float64(math.Nextafter32(g, float32(math.Inf(1)))), false, func(lit string) {
				if !strings.ContainsAny(lit, ".eE") {
					feed(lit)
				}
			})
		}
	}
	for e := uint64(1023 + 53); e <= 1023+63; e++ {
		for _, m := range []uint64{0, 1<<52 - 1, r.Uint64() & (1<<52 - 1)} {
			f := math.Float64frombits(e<<52 | m)
			c10IntegerMidpoints(f, math.Nextafter(f, math.Inf(1)), false, func(lit string) {
				if !strings.ContainsAny(lit, ".eE") {
					feed(lit)
				}
			})
		}
	}
	for i := 0; i < c.N(1000, 100000); i++ {
		u := r.Uint64() >> uint(r.IntN(64))
		c10TypedUint(c, b, u)
		c10TypedInt(c, b, int64(u))
		c10TypedInt(c, b, -int64(u>>1))
	}
	// floats: the integer bounds and their neighbours in both widths, zeros, fractions, extremes, random
	for _, x := range []float64{0x1p63, 0x1p64, 0x1p62, 0x1p53, 0x1p31, 0x1p32, 0x1p24, 1, 0x1p-1, 0x1p127, 0x1p128, 3.4028235677973366e38} {
		up, dn := x, x
		c10TypedFloat(c, b, x)
		c10TypedFloat(c, b, -x)
		for i := 0; i < 50; i++ {
			up, dn = math.Nextafter(up, math.Inf(1)), math.Nextafter(dn, 0)
			for _, y := range []float64{up, dn, -up, -dn} {
				c10TypedFloat(c, b, y)
			}
		}
		u32, d32 := float32(x), float32(x)
		for i := 0; i < 50 && !math.IsInf(float64(u32), 0); i++ {
			u32, d32 = math.Nextafter32(u32, float32(math.Inf(1))), math.Nextafter32(d32, 0)
			for _, y := range []float32{u32, d32, -u32, -d32} {
				c10TypedFloat(c, b, float64(y))
			}
		}
	}
	for _, x := range []float64{0, math.Copysign(0, -1), 0.5, -0.5, 1.5, -1.5, 0.9999999999999999, 2.5, 1e300, -1e300, math.MaxFloat64, -math.MaxFloat64, math.SmallestNonzeroFloat64,
		math.MaxFloat32, math.SmallestNonzeroFloat32, 1e19, 1e20, 9007199254740993, 123456789, -42, 1e-7, 1e21} {
		c10TypedFloat(c, b, x)
	}
	for i := 0; i < c.N(1500, 200000); i++ {
		c10TypedFloat(c, b, math.Float64frombits(r.Uint64()))
		c10TypedFloat(c, b, float64(int64(r.Uint64()>>uint(r.IntN(64))))*[]float64{1, -1, 0.5, 0.25}[r.IntN(4)])
	}
	// NaN and ±Inf: Float/Float32 construct the JSON strings "NaN", "Infinity", "-Infinity"
	for _, x := range []struct {
		f    float64
		text string
	}{{math.NaN(), "NaN"}, {math.Inf(1), "Infinity"}, {math.Inf(-1), "-Infinity"}} {
		for _, tok := range []jsontext.Token{jsontext.Float(x.f), jsontext.Float32(float32(x.f)), jsontext.String(x.text)} {
			o := c10Observe(tok)
			enc, err := c10Encode(tok)
			same := math.Float64bits(o.f) == math.Float64bits(x.f) || (math.IsNaN(o.f) && math.IsNaN(x.f))
			same32 := math.Float32bits(o.f32) == math.Float32bits(float32(x.f)) || (math.IsNaN(float64(o.f32)) && math.IsNaN(x.f))
			if o.pk != nil || o.ps != nil || o.pf != nil || o.pf32 != nil || o.kind != '"' || o.text != x.text || !same || !same32 || o.fe != nil || o.f32e != nil ||
				err != nil || enc != `"`+x.text+`"` {
				c.Violate("typed-token-value", "jsontext.Float(nonfinite)", []byte(x.text), map[string]any{"kind": o.kind.String(), "text": o.text, "float": fmt.Sprint(o.f), "enc": enc, "err": fmt.Sprint(err, o.fe, o.pf)})
			}
			if o.pi == nil || o.pu == nil { // a JSON string: Int and Uint are documented to panic
				c.Violate("typed-wrong-kind-accepted", "jsontext.Float(nonfinite).Int/Uint", []byte(x.text), map[string]any{"int": o.i, "uint": o.u})
			}
			c.Case("typed nonfinite "+x.text, true)
			c.Hit("typed/nonfinite")
		}
	}
	// wrong kinds (kept apart): the number accessors are documented to panic; Kind/String/Clone must not
	for _, w := range []struct {
		name string
		tok  jsontext.Token
		kind jsontext.Kind
		text string
	}{{"String(123)", jsontext.String("123"), '"', "123"}, {"String()", jsontext.String(""), '"', ""}, {"String(-0)", jsontext.String("-0"), '"', "-0"},
		{"Bool(true)", jsontext.Bool(true), 't', "true"}, {"Bool(false)", jsontext.Bool(false), 'f', "false"}, {"Null", jsontext.Null, 'n', "null"},
		{"BeginObject", jsontext.BeginObject, '{', "{"}, {"EndObject", jsontext.EndObject, '}', "}"}, {"BeginArray", jsontext.BeginArray, '[', "["}, {"EndArray", jsontext.EndArray, ']', "]"}} {
		for _, tok := range []jsontext.Token{w.tok, w.tok.Clone()} {
			o := c10Observe(tok)
			if o.pk != nil || o.ps != nil || o.kind != w.kind || o.text != w.text {
				c.Violate("typed-token-value", "jsontext."+w.name, []byte(w.name), map[string]any{"kind": o.kind.String(), "text": o.text, "panic": fmt.Sprint(o.pk, o.ps)})
			}
			if o.pi == nil || o.pu == nil || o.pf == nil || o.pf32 == nil {
				c.Violate("typed-wrong-kind-accepted", "jsontext."+w.name+".Int/Uint/Float", []byte(w.name), map[string]any{"line": o.line()})
			}
			c.Case("typed wrong-kind "+w.name, false)
			c.Hit("typed/wrong-kind-panics")
		}
	}
}

// ---------------------------------------------------------------- I. every integer kind through every container

type (
	c10NInt     int
	c10NInt8    int8
	c10NInt16   int16
	c10NInt32   int32
	c10NInt64   int64
	c10NUint    uint
	c10NUint8   uint8
	c10NUint16  uint16
	c10NUint32  uint32
	c10NUint64  uint64
	c10NUintptr uintptr
)

var c10IntKinds = []reflect.Type{
	reflect.TypeFor[int](), reflect.TypeFor[int8](), reflect.TypeFor[int16](), reflect.TypeFor[int32](), reflect.TypeFor[int64](),
	reflect.TypeFor[uint](), reflect.TypeFor[uint8](), reflect.TypeFor[uint16](), reflect.TypeFor[uint32](), reflect.TypeFor[uint64](), reflect.TypeFor[uintptr](),
	reflect.TypeFor[c10NInt](), reflect.TypeFor[c10NInt8](), reflect.TypeFor[c10NInt16](), reflect.TypeFor[c10NInt32](), reflect.TypeFor[c10NInt64](),
	reflect.TypeFor[c10NUint](), reflect.TypeFor[c10NUint8](), reflect.TypeFor[c10NUint16](), reflect.TypeFor[c10NUint32](), reflect.TypeFor[c10NUint64](), reflect.TypeFor[c10NUintptr](),
}

type c10AnyField struct{ V any }

// c10Container is one way an integer value reaches the encoder.
type c10Container struct {
	name string
	// build returns the value to marshal, the options, and the expected JSON given the decimal text
	build func(v reflect.Value) (val any, opts []json.Options)
	want  func(dec string) string
	// back returns a pointer to unmarshal into and a reader of the integer read back
	back func(t reflect.Type) (ptr any, read func() (reflect.Value, bool))
}

func c10TypedBack(wrap func(t reflect.Type) reflect.Type, get func(v reflect.Value) (reflect.Value, bool)) func(t reflect.Type) (any, func() (reflect.Value, bool)) {
	return func(t reflect.Type) (any, func() (reflect.Value, bool)) {
		p := reflect.New(wrap(t))
		return p.Interface(), func() (reflect.Value, bool) { return get(p.Elem()) }
	}
}

var c10Containers = []c10Container{
	{"bare", func(v reflect.Value) (any, []json.Options) { return v.Interface(), nil }, func(d string) string { return d },
		c10TypedBack(func(t reflect.Type) reflect.Type { return t }, func(v reflect.Value) (reflect.Value, bool) { return v, true })},
	{"*T", func(v reflect.Value) (any, []json.Options) {
		p := reflect.New(v.Type())
		p.Elem().Set(v)
		return p.Interface(), nil
	}, func(d string) string { return d },
		c10TypedBack(func(t reflect.Type) reflect.Type { return reflect.PointerTo(t) }, func(v reflect.Value) (reflect.Value, bool) {
			if v.IsNil() {
				return v, false
			}
			return v.Elem(), true
		})},
	{"*any", func(v reflect.Value) (any, []json.Options) { a := v.Interface(); return &a, nil }, func(d string) string { return d },
		c10TypedBack(func(t reflect.Type) reflect.Type { return t }, func(v reflect.Value) (reflect.Value, bool) { return v, true })},
	{"[]any", func(v reflect.Value) (any, []json.Options) { return []any{v.Interface()}, nil }, func(d string) string { return "[" + d + "]" },
		c10TypedBack(func(t reflect.Type) reflect.Type { return reflect.SliceOf(t) }, func(v reflect.Value) (reflect.Value, bool) {
			if v.Len() != 1 {
				return v, false
			}
			return v.Index(0), true
		})},
	{"[2]any", func(v reflect.Value) (any, []json.Options) { return [2]any{v.Interface(), v.Interface()}, nil }, func(d string) string { return "[" + d + "," + d + "]" },
		c10TypedBack(func(t reflect.Type) reflect.Type { return reflect.ArrayOf(2, t) }, func(v reflect.Value) (reflect.Value, bool) { return v.Index(1), true })},
	{"map[string]any", func(v reflect.Value) (any, []json.Options) { return map[string]any{"k": v.Interface()}, nil }, func(d string) string { return `{"k":` + d + `}` },
		c10TypedBack(func(t reflect.Type) reflect.Type { return reflect.MapOf(reflect.TypeFor[string](), t) }, func(v reflect.Value) (reflect.Value, bool) {
			e := v.MapIndex(reflect.ValueOf("k"))
			return e, e.IsValid()
		})},
	{"struct{V any}", func(v reflect.Value) (any, []json.Options) { return c10AnyField{v.Interface()}, nil }, func(d string) string { return `{"V":` + d + `}` },
		c10TypedBack(func(t reflect.Type) reflect.Type {
			return reflect.StructOf([]reflect.StructField{{Name: "V", Type: t}})
		}, func(v reflect.Value) (reflect.Value, bool) { return v.Field(0), true })},
	{"[]any{[]any}", func(v reflect.Value) (any, []json.Options) { return []any{[]any{v.Interface()}}, nil }, func(d string) string { return "[[" + d + "]]" },
		c10TypedBack(func(t reflect.Type) reflect.Type { return reflect.SliceOf(reflect.SliceOf(t)) }, func(v reflect.Value) (reflect.Value, bool) {
			if v.Len() != 1 || v.Index(0).Len() != 1 {
				return v, false
			}
			return v.Index(0).Index(0), true
		})},
	{"map[T]int key", func(v reflect.Value) (any, []json.Options) {
		m := reflect.MakeMap(reflect.MapOf(v.Type(), reflect.TypeFor[int]()))
		m.SetMapIndex(v, reflect.ValueOf(0))
		return m.Interface(), nil
	}, func(d string) string { return `{"` + d + `":0}` },
		c10TypedBack(func(t reflect.Type) reflect.Type { return reflect.MapOf(t, reflect.TypeFor[int]()) }, func(v reflect.Value) (reflect.Value, bool) {
			ks := v.MapKeys()
			if len(ks) != 1 {
				return v, false
			}
			return ks[0], true
		})},
	{"map[any]int key", func(v reflect.Value) (any, []json.Options) { return map[any]int{v.Interface(): 0}, nil }, func(d string) string { return `{"` + d + `":0}` },
		c10TypedBack(func(t reflect.Type) reflect.Type { return reflect.MapOf(t, reflect.TypeFor[int]()) }, func(v reflect.Value) (reflect.Value, bool) {
			ks := v.MapKeys()
			if len(ks) != 1 {
				return v, false
			}
			return ks[0], true
		})},
	{",string field", func(v reflect.Value) (any, []json.Options) {
		s := reflect.New(reflect.StructOf([]reflect.StructField{{Name: "V", Type: v.Type(), Tag: `json:",string"`}})).Elem()
		s.Field(0).Set(v)
		return s.Interface(), nil
	}, func(d string) string { return `{"V":"` + d + `"}` },
		c10TypedBack(func(t reflect.Type) reflect.Type {
			return reflect.StructOf([]reflect.StructField{{Name: "V", Type: t, Tag: `json:",string"`}})
		}, func(v reflect.Value) (reflect.Value, bool) { return v.Field(0), true })},
	{"StringifyNumbers", func(v reflect.Value) (any, []json.Options) { return v.Interface(), []json.Options{json.StringifyNumbers(true)} }, func(d string) string { return `"` + d + `"` }, nil},
	{"[]any/StringifyNumbers", func(v reflect.Value) (any, []json.Options) {
		return []any{v.Interface()}, []json.Options{json.StringifyNumbers(true)}
	}, func(d string) string { return `["` + d + `"]` }, nil},
	{"[]any/Deterministic", func(v reflect.Value) (any, []json.Options) {
		return []any{v.Interface()}, []json.Options{json.Deterministic(true)}
	}, func(d string) string { return "[" + d + "]" }, nil},
}

func c10IntKindBounds(t reflect.Type) (min, max *big.Int, signed bool) {
	bits := uint(t.Bits())
	switch t.Kind() {
	case reflect.Int, reflect.Int8, reflect.Int16, reflect.Int32, reflect.Int64:
		return new(big.Int).Neg(pow2(bits - 1)), new(big.Int).Sub(pow2(bits-1), bigOne), true
	}
	return new(big.Int), new(big.Int).Sub(pow2(bits), bigOne), false
}

func c10MarshalKinds(c *Ctx, b *c10Batch) {
	d := int64(c.N(8, 300))
	r := c.Rng
	for _, t := range c10IntKinds {
		min, max, signed := c10IntKindBounds(t)
		seen := map[string]bool{}
		var vals []*big.Int
		put := func(x *big.Int) {
			if x.Cmp(min) >= 0 && x.Cmp(max) <= 0 && !seen[x.String()] {
				seen[x.String()] = true
				vals = append(vals, new(big.Int).Set(x))
			}
		}
		for _, k := range []uint{0, 7, 8, 15, 16, 31, 32, 53, 63, 64} {
			for _, sign := range []int64{1, -1} {
				a := new(big.Int).Mul(pow2(k), big.NewInt(sign))
				for dd := -d; dd <= d; dd++ {
					put(new(big.Int).Add(a, big.NewInt(dd)))
				}
			}
		}
		put(min)
		put(max)
		for i := 0; i < c.N(20, 2000); i++ {
			x := new(big.Int).SetUint64(r.Uint64() >> uint(r.IntN(64)))
			put(x)
			put(new(big.Int).Neg(x))
		}
		for _, x := range vals {
			v := reflect.New(t).Elem()
			if signed {
				v.SetInt(x.Int64())
			} else {
				v.SetUint(x.Uint64())
			}
			dec := x.String()
			for _, ct := range c10Containers {
				op := "json.Marshal/" + t.String() + "/" + ct.name
				val, opts := ct.build(v)
				want := ct.want(dec)
				var out []byte
				var err error
				if p := guard(func() { out, err = json.Marshal(val, opts...) }); p != nil {
					c.Panic(op, []byte(dec), p, nil)
					continue
				}
				c.Case(op+" "+dec, len(dec) > 1)
				c.Hit("marshal-kinds/" + ct.name)
				if err != nil || string(out) != want {
					c.Violate("int-misprinted", op, []byte(dec), map[string]any{"got": string(out), "want": want, "err": fmt.Sprint(err)})
					continue
				}
				if ct.back == nil {
					continue
				}
				// round trip through the same container shape with the typed kind in the slot
				if t.Kind() == reflect.Uint8 && strings.HasPrefix(ct.name, "[") {
					continue // a slice or array of bytes is a base64 string on the typed side, not a JSON array
				}
				ptr, read := ct.back(t)
				var uerr error
				if p := guard(func() { uerr = json.Unmarshal(out, ptr) }); p != nil {
					c.Panic("json.Unmarshal/"+t.String()+"/"+ct.name, out, p, nil)
					continue
				}
				got, ok := reflect.Value{}, false
				if uerr == nil {
					got, ok = read()
				}
				same := ok && ((signed && got.Int() == v.Int()) || (!signed && got.Uint() == v.Uint()))
				if uerr != nil || !same {
					gs := "?"
					if ok {
						gs = fmt.Sprint(got.Interface())
					}
					c.Violate("int-roundtrip", "json.Unmarshal/"+t.String()+"/"+ct.name, out, map[string]any{"got": gs, "want": dec, "err": fmt.Sprint(uerr)})
				}
			}
		}
	}
}
