package main

// C11 — String escaping is lossless, minimal, and honours the escape options.
//
// (a) Correspondence (Tie B, oracle family `quote`): jsonwire.NeedEscape / AppendQuote / AppendUnquote /
//     ReformatString / ConsumeString(+IsCanonical) and the Verif* hooks (escapeASCII, parseHexUint16,
//     hasEscapedUTF16Prefix, appendEscaped{ASCII,Unicode,UTF16}) against the Lean model, over every single
//     byte, every pair (thorough: triple) of a critical alphabet, random Unicode over all planes, ill-formed
//     sequences, literals with every escape kind (incl. \uD800-\uDFFF combinations), truncated literals,
//     x the 8 (quote) / 16 (reformat) flag sets.
// (b) The property's own predicates evaluated ON THE IMPLEMENTATION:
//     unquote(quote(s)) == s; quote without escape flags == RFC 8785 form (independent Go reference AND the
//     proven Spec.canonQuote via the oracle); with EscapeForHTML/JS no raw < > & / U+2028 U+2029 through
//     EVERY path a string takes to the output, each path's output unquoting to the same text; every valid
//     literal unquotes to its RFC 8259 meaning (independent Go reference and encoding/json); ill-formed
//     input: one U+FFFD per ill-formed byte, error iff !AllowInvalidUTF8, PreserveRawStrings keeps raw bytes.

import (
	"bytes"
	stdjson "encoding/json"
	"errors"
	"fmt"
	"io"
	"math/rand/v2"
	"reflect"
	"strconv"
	"sync"
	"unicode/utf16"
	"unicode/utf8"

	json "github.com/go-json-experiment/json"
	"github.com/go-json-experiment/json/internal/jsonflags"
	"github.com/go-json-experiment/json/internal/jsonwire"
	"github.com/go-json-experiment/json/jsontext"
	jsonv1 "github.com/go-json-experiment/json/v1"
)

func init() { register("C11", runC11) }

// ---------------------------------------------------------------------------------------------
// flags

type c11Flag struct{ html, js, allow, preserve bool }

func b01(b bool) string {
	if b {
		return "1"
	}
	return "0"
}

func bu(b bool) jsonflags.Bools {
	if b {
		return 1
	}
	return 0
}

func (f c11Flag) wire() *jsonflags.Flags {
	var fl jsonflags.Flags
	fl.Set(jsonflags.EscapeForHTML | bu(f.html))
	fl.Set(jsonflags.EscapeForJS | bu(f.js))
	fl.Set(jsonflags.AllowInvalidUTF8 | bu(f.allow))
	fl.Set(jsonflags.PreserveRawStrings | bu(f.preserve))
	return &fl
}

func (f c11Flag) opts() []jsontext.Options {
	return []jsontext.Options{jsontext.EscapeForHTML(f.html), jsontext.EscapeForJS(f.js),
		jsontext.AllowInvalidUTF8(f.allow), jsontext.PreserveRawStrings(f.preserve)}
}

func (f c11Flag) String() string {
	return "html=" + b01(f.html) + ",js=" + b01(f.js) + ",allow=" + b01(f.allow) + ",preserve=" + b01(f.preserve)
}

func c11Flags(withPreserve bool) []c11Flag {
	var out []c11Flag
	for i := 0; i < 16; i++ {
		f := c11Flag{i&1 != 0, i&2 != 0, i&4 != 0, i&8 != 0}
		if f.preserve && !withPreserve {
			continue
		}
		out = append(out, f)
	}
	return out
}

func c11ErrClass(err error) string {
	switch {
	case err == nil:
		return "ok"
	case err == jsonwire.ErrInvalidUTF8:
		return "utf8"
	case err == io.ErrUnexpectedEOF:
		return "eof"
	}
	var ite *jsonwire.InvalidTextError
	if errors.As(err, &ite) {
		switch ite.Label {
		case "character":
			return "char"
		case "escape sequence", "surrogate pair":
			return "esc"
		}
		return "text:" + ite.Label
	}
	return "other"
}

// ---------------------------------------------------------------------------------------------
// independent Go references (written from the RFCs, not from the library)

// refIsIllFormedAt reports whether b[0] does not start a well-formed UTF-8 sequence, and the step width.
func refStep(b []byte) (ill bool, n int) {
	r, n := utf8.DecodeRune(b)
	return r == utf8.RuneError && n == 1, n
}

func refLossy(s []byte) (out []byte, ill int) {
	for len(s) > 0 {
		bad, n := refStep(s)
		if bad {
			out = append(out, 0xEF, 0xBF, 0xBD)
			ill++
		} else {
			out = append(out, s[:n]...)
		}
		s = s[n:]
	}
	return out, ill
}

// refCanon is RFC 8785 §3.2.2.2 for well-formed s.
func refCanon(s []byte) []byte {
	out := []byte{'"'}
	for _, r := range string(s) {
		switch {
		case r == '"':
			out = append(out, '\\', '"')
		case r == '\\':
			out = append(out, '\\', '\\')
		case r == '\b':
			out = append(out, '\\', 'b')
		case r == '\t':
			out = append(out, '\\', 't')
		case r == '\n':
			out = append(out, '\\', 'n')
		case r == '\f':
			out = append(out, '\\', 'f')
		case r == '\r':
			out = append(out, '\\', 'r')
		case r < 0x20:
			out = append(out, fmt.Sprintf("\\u%04x", r)...)
		default:
			out = utf8.AppendRune(out, r)
		}
	}
	return append(out, '"')
}

func refHex4(b []byte) (rune, bool) {
	if len(b) < 4 {
		return 0, false
	}
	v, err := strconv.ParseUint(string(b[:4]), 16, 16)
	if err != nil || b[0] == '+' || b[0] == '-' {
		return 0, false
	}
	return rune(v), true
}

// refUnescape is the RFC 8259 §7 meaning of a strictly valid string literal (ok=false otherwise:
// bad grammar, ill-formed UTF-8, lone surrogate escape).
func refUnescape(lit []byte) (out []byte, ok bool) {
	if len(lit) < 2 || lit[0] != '"' || lit[len(lit)-1] != '"' {
		return nil, false
	}
	b := lit[1 : len(lit)-1]
	for len(b) > 0 {
		c := b[0]
		switch {
		case c == '"' || c < 0x20:
			return nil, false
		case c == '\\':
			if len(b) < 2 {
				return nil, false
			}
			switch b[1] {
			case '"', '\\', '/':
				out = append(out, b[1])
				b = b[2:]
			case 'b':
				out = append(out, '\b')
				b = b[2:]
			case 'f':
				out = append(out, '\f')
				b = b[2:]
			case 'n':
				out = append(out, '\n')
				b = b[2:]
			case 'r':
				out = append(out, '\r')
				b = b[2:]
			case 't':
				out = append(out, '\t')
				b = b[2:]
			case 'u':
				v, ok := refHex4(b[2:])
				if !ok {
					return nil, false
				}
				b = b[6:]
				if 0xD800 <= v && v < 0xE000 {
					if v >= 0xDC00 || len(b) < 6 || b[0] != '\\' || b[1] != 'u' {
						return nil, false
					}
					v2, ok := refHex4(b[2:])
					if !ok || v2 < 0xDC00 || v2 > 0xDFFF {
						return nil, false
					}
					b = b[6:]
					v = 0x10000 + (v-0xD800)<<10 + (v2 - 0xDC00)
				}
				out = utf8.AppendRune(out, v)
			default:
				return nil, false
			}
		case c < 0x80:
			out = append(out, c)
			b = b[1:]
		default:
			bad, n := refStep(b)
			if bad {
				return nil, false
			}
			out = append(out, b[:n]...)
			b = b[n:]
		}
	}
	return out, true
}

// refPreserve: what PreserveRawStrings must leave of a literal when escape options are on.
func refPreserve(lit []byte, html, js bool) []byte {
	out := lit
	if html {
		out = bytes.ReplaceAll(out, []byte("<"), []byte(`\u003c`))
		out = bytes.ReplaceAll(out, []byte(">"), []byte(`\u003e`))
		out = bytes.ReplaceAll(out, []byte("&"), []byte(`\u0026`))
	}
	if js {
		out = bytes.ReplaceAll(out, []byte("\u2028"), []byte(`\u2028`))
		out = bytes.ReplaceAll(out, []byte("\u2029"), []byte(`\u2029`))
	}
	return out
}

// c11Forbidden names the first raw byte sequence the escape options forbid, or "".
func c11Forbidden(out []byte, html, js bool) string {
	if html {
		if i := bytes.IndexAny(out, "<>&"); i >= 0 {
			return "raw " + string(out[i:i+1])
		}
	}
	if js {
		if bytes.Contains(out, []byte{0xE2, 0x80, 0xA8}) {
			return "raw U+2028"
		}
		if bytes.Contains(out, []byte{0xE2, 0x80, 0xA9}) {
			return "raw U+2029"
		}
	}
	return ""
}

// ---------------------------------------------------------------------------------------------
// generators

var c11Alphabet = []byte{'"', '\\', '/', '<', '>', '&', 0x00, 0x08, 0x09, 0x0a, 0x0c, 0x0d, 0x1f, 0x20, 0x7f,
	'a', 'u', 'd', 'D', 'c', 'F', '8', '0', 'b', 'n',
	0x80, 0xA8, 0xA9, 0xBF, 0xA0, 0x90, 0x8F, 0xBD,
	0xC0, 0xC1, 0xC2, 0xDF, 0xE0, 0xE2, 0xED, 0xEF, 0xF0, 0xF4, 0xF5, 0xFF}

var c11Runes = []rune{0, 1, 8, 9, 10, 12, 13, 0x1f, 0x20, '"', '&', '/', '<', '>', '\\', 'a', 'u', 0x7e, 0x7f,
	0x80, 0xA0, 0xFF, 0x7FF, 0x800, 0xFFF, 0x1000, 0x2027, 0x2028, 0x2029, 0x202A, 0xD7FF, 0xE000, 0xFEFF, 0xFFFD, 0xFFFE, 0xFFFF,
	0x10000, 0x1F600, 0x1FFFF, 0x20000, 0x2FFFF, 0x30000, 0xE0000, 0xEFFFF, 0xF0000, 0xFFFFF, 0x100000, 0x10FFFF}

var c11IllFormed = [][]byte{{0x80}, {0xBF}, {0xC0, 0x80}, {0xC1, 0xBF}, {0xC2}, {0xE0, 0x80, 0x80}, {0xE0, 0x9F, 0xBF}, {0xE2, 0x80},
	{0xE2}, {0xED, 0xA0, 0x80}, {0xED, 0xBF, 0xBF}, {0xED, 0xA0, 0xBD, 0xED, 0xB8, 0x80}, {0xEF, 0xBF}, {0xF0, 0x80, 0x80, 0x80},
	{0xF0, 0x8F, 0xBF, 0xBF}, {0xF0, 0x9F, 0x98}, {0xF0, 0x9F}, {0xF0}, {0xF4, 0x90, 0x80, 0x80}, {0xF5, 0x80, 0x80, 0x80}, {0xFF}, {0xFE},
	{0xF8, 0x88, 0x80, 0x80, 0x80}, {0xE2, 0x80, 0x22}, {0xE2, 0x28, 0xA8}}

func c11RandRune(r *rand.Rand) rune {
	switch r.IntN(10) {
	case 0, 1, 2:
		return c11Runes[r.IntN(len(c11Runes))]
	case 3:
		return rune(r.IntN(0x80))
	case 4:
		return rune(0x80 + r.IntN(0x800-0x80))
	case 5:
		for {
			x := rune(0x800 + r.IntN(0x10000-0x800))
			if x < 0xD800 || x > 0xDFFF {
				return x
			}
		}
	case 6:
		return rune(0x10000 + r.IntN(0x100000)) // planes 1..16
	case 7:
		return rune(0x10000*r.IntN(17)) + rune(r.IntN(4)) // start of each plane
	case 8:
		p := rune(0x10000*r.IntN(17)) + 0xFFFF - rune(r.IntN(4)) // end of each plane
		if p >= 0xD800 && p <= 0xDFFF {
			return 0xE000
		}
		return p
	default:
		return rune(0x20 + r.IntN(0x5f))
	}
}

// c11RawStrings: texts given to the quoting paths.
func c11RawStrings(c *Ctx) [][]byte {
	var out [][]byte
	out = append(out, []byte{})
	for i := 0; i < 256; i++ {
		out = append(out, []byte{byte(i)})
	}
	for _, a := range c11Alphabet {
		for _, b := range c11Alphabet {
			out = append(out, []byte{a, b})
		}
	}
	if c.Thorough() {
		for _, a := range c11Alphabet {
			for _, b := range c11Alphabet {
				for _, d := range c11Alphabet {
					out = append(out, []byte{a, b, d})
				}
			}
		}
	}
	for _, r := range c11Runes {
		out = append(out, utf8.AppendRune(nil, r), utf8.AppendRune([]byte("x"), r), append(utf8.AppendRune(nil, r), 'y'))
	}
	// every scalar at the boundaries of the encoding lengths and around the surrogate gap
	for _, lo := range []rune{0, 0x70, 0x7f0, 0xFFF0, 0xD7F0, 0xE000, 0x2020, 0x10FFF0} {
		for r := lo; r < lo+0x20 && r <= 0x10FFFF; r++ {
			if r >= 0xD800 && r <= 0xDFFF {
				continue
			}
			out = append(out, utf8.AppendRune(nil, r))
		}
	}
	for _, b := range c11IllFormed {
		out = append(out, b, append([]byte("a"), b...), append(append([]byte{}, b...), 'z'), append(append([]byte("<"), b...), 0xE2, 0x80, 0xA8))
	}
	rng := c.Rng
	nWell := c.N(5000, 150000)
	for i := 0; i < nWell; i++ {
		n := 1 + rng.IntN(12)
		if rng.IntN(20) == 0 {
			n = 40 + rng.IntN(300)
		}
		var s []byte
		for j := 0; j < n; j++ {
			s = utf8.AppendRune(s, c11RandRune(rng))
		}
		out = append(out, s)
	}
	nIll := c.N(3000, 100000)
	for i := 0; i < nIll; i++ {
		n := 1 + rng.IntN(8)
		var s []byte
		for j := 0; j < n; j++ {
			switch rng.IntN(6) {
			case 0:
				s = append(s, c11IllFormed[rng.IntN(len(c11IllFormed))]...)
			case 1:
				s = append(s, byte(0x80+rng.IntN(0x80)))
			case 2: // truncated encoding of a random rune
				e := utf8.AppendRune(nil, c11RandRune(rng))
				s = append(s, e[:1+rng.IntN(len(e))]...)
			case 3:
				s = append(s, c11Alphabet[rng.IntN(len(c11Alphabet))])
			default:
				s = utf8.AppendRune(s, c11RandRune(rng))
			}
		}
		out = append(out, s)
	}
	return out
}

var c11Frags = []string{`a`, `u`, `/`, ` `, `<`, `>`, `&`, "\u2028", "\u2029", "é", "€", "😀", "\x7f", "\ufffd",
	`\"`, `\\`, `\/`, `\b`, `\f`, `\n`, `\r`, `\t`,
	`\u0000`, `\u0008`, `\u000a`, `\u000A`, `\u001f`, `\u001F`, `\u0020`, `\u0022`, `\u002f`, `\u003c`, `\u003C`, `\u003e`, `\u0026`, `\u005c`, `\u007f`,
	`\u00e9`, `\u2028`, `\u2029`, `\uFFFD`, `\ufffd`, `\uffff`, `\uD7FF`, `\ue000`,
	`\ud83d\ude00`, `\uD83D\uDE00`, `\ud800\udc00`, `\udbff\udfff`,
	`\ud800`, `\uD800`, `\udbff`, `\udc00`, `\uDFFF`, `\ud800\ud800`, `\udc00\ud800`, `\udc00\udc00`, `\ud800x`, `\ud800\n`, `\ud800\u0041`, `\ud800\u`, `\ud800\ud`, `\ud800\udc0`, `\ud800\uDG00`,
	`\x`, `\a`, `\0`, `\'`, `\U0041`, `\u`, `\u1`, `\u12`, `\u123`, `\u12G4`, `\u+123`, `\u 123`, `\`,
	"\x00", "\x1f", "\n", "\t", "\xff", "\x80", "\xc2", "\xe2\x80", "\xed\xa0\x80", "\xf0\x9f\x98", "\xf4\x90\x80\x80", "\xc0\x80", `"`, `"x`}

// c11Literals: inputs for AppendUnquote / ReformatString / ConsumeString.
func c11Literals(c *Ctx, raws [][]byte) [][]byte {
	var out [][]byte
	out = append(out, nil, []byte(`"`), []byte(`""`), []byte(`x`), []byte(`"a`), []byte(`a"`), []byte(`""x`), []byte(`"" `), []byte(` ""`))
	wrap := func(s []byte) []byte { return append(append([]byte{'"'}, s...), '"') }
	rng := c.Rng
	// quoted forms of the raw strings under a rotating flag set, and the raw strings wrapped verbatim
	fl := c11Flags(false)
	for i, s := range raws {
		if len(s) > 64 && i%4 != 0 {
			continue
		}
		var q []byte
		if p := guard(func() { q, _ = jsonwire.AppendQuote(nil, s, fl[i%len(fl)].wire()) }); p != nil {
			c.Panic("AppendQuote", s, p, nil)
			continue
		}
		out = append(out, q)
		if len(s) <= 3 || i%3 == 0 {
			out = append(out, wrap(s))
		}
	}
	// single fragments, pairs of fragments, random sequences
	for _, a := range c11Frags {
		out = append(out, wrap([]byte(a)))
		for _, b := range c11Frags {
			out = append(out, wrap([]byte(a+b)))
		}
	}
	n := c.N(6000, 200000)
	for i := 0; i < n; i++ {
		k := 1 + rng.IntN(6)
		var s []byte
		for j := 0; j < k; j++ {
			switch rng.IntN(8) {
			case 0:
				s = utf8.AppendRune(s, c11RandRune(rng))
			case 1: // random \uXXXX, biased to surrogates and controls
				var v int
				switch rng.IntN(4) {
				case 0:
					v = 0xD800 + rng.IntN(0x800)
				case 1:
					v = rng.IntN(0x80)
				default:
					v = rng.IntN(0x10000)
				}
				f := `\u%04x`
				if rng.IntN(2) == 0 {
					f = `\u%04X`
				}
				s = append(s, fmt.Sprintf(f, v)...)
			case 2: // valid pair
				r1, r2 := utf16.EncodeRune(rune(0x10000 + rng.IntN(0x100000)))
				s = append(s, fmt.Sprintf(`\u%04x\u%04X`, r1, r2)...)
			default:
				s = append(s, c11Frags[rng.IntN(len(c11Frags))]...)
			}
		}
		lit := wrap(s)
		switch rng.IntN(12) {
		case 0: // truncate
			lit = lit[:rng.IntN(len(lit)+1)]
		case 1: // trailing bytes
			lit = append(lit, c11Alphabet[rng.IntN(len(c11Alphabet))])
		case 2: // mutate one byte
			lit[rng.IntN(len(lit))] = c11Alphabet[rng.IntN(len(c11Alphabet))]
		}
		out = append(out, lit)
	}
	// every prefix of a few literals that contain every escape kind
	for _, s := range []string{`"a\"\\\/\b\f\n\r\t\u0041\ud83d\ude00é😀"`, `"\ud800\udc00"`, `"\uD800\uDC00x"`, `"\udbff\udfff\u0000"`, "\"\xe2\x80\xa8\xf0\x9f\x98\x80\"", `"\ud800\u0041"`} {
		for i := 0; i <= len(s); i++ {
			out = append(out, []byte(s[:i]))
		}
	}
	return out
}

// ---------------------------------------------------------------------------------------------
// parallel driver

func c11Parallel(c *Ctx, n, chunk int, f func(or *Oracle, lo, hi int)) {
	workers := 8
	if c.Thorough() {
		workers = 14
	}
	type job struct{ lo, hi int }
	jobs := make(chan job, 64)
	var wg sync.WaitGroup
	var mfMu sync.Mutex
	var mf any
	for w := 0; w < workers; w++ {
		wg.Add(1)
		go func() {
			defer wg.Done()
			defer func() {
				if r := recover(); r != nil {
					mfMu.Lock()
					if mf == nil {
						mf = r
					}
					mfMu.Unlock()
					for range jobs {
					}
				}
			}()
			or := c.NewOracle()
			for j := range jobs {
				f(or, j.lo, j.hi)
			}
		}()
	}
	for lo := 0; lo < n; lo += chunk {
		jobs <- job{lo, min(lo+chunk, n)}
	}
	close(jobs)
	wg.Wait()
	if mf != nil {
		panic(mf)
	}
}

type c11Stats struct {
	mu sync.Mutex
	m  map[string]int64
}

func (s *c11Stats) add(local map[string]int64) {
	s.mu.Lock()
	for k, v := range local {
		s.m[k] += v
	}
	s.mu.Unlock()
}

func lenBucket(n int) string {
	switch {
	case n == 0:
		return "0"
	case n == 1:
		return "1"
	case n <= 3:
		return "2-3"
	case n <= 16:
		return "4-16"
	case n <= 64:
		return "17-64"
	}
	return "65+"
}

// ---------------------------------------------------------------------------------------------
// (a) correspondence

// c11PubErrClass classifies the error of the PUBLIC jsontext.AppendQuote / AppendUnquote, which wrap the jsonwire
// error in a *jsontext.SyntacticError.
func c11PubErrClass(err error) string {
	if err == nil {
		return "ok"
	}
	var se *jsontext.SyntacticError
	if errors.As(err, &se) && se.Err != nil {
		return c11ErrClass(se.Err)
	}
	return "unwrapped:" + c11ErrClass(err)
}

var c11DstPrefix = []byte("\x00dst")

// c11PublicUnquote: the exported jsontext.AppendUnquote, []byte and string instantiation, nil and non-empty dst,
// against the model answer (`quote unq`).
func c11PublicUnquote(c *Ctx, lit []byte, want string, local map[string]int64) {
	type call struct {
		name string
		run  func(dst []byte) ([]byte, error)
	}
	calls := []call{
		{"jsontext.AppendUnquote[[]byte]", func(dst []byte) ([]byte, error) { return jsontext.AppendUnquote(dst, bytes.Clone(lit)) }},
		{"jsontext.AppendUnquote[string]", func(dst []byte) ([]byte, error) { return jsontext.AppendUnquote(dst, string(lit)) }},
	}
	for _, cl := range calls {
		for _, dst := range [][]byte{nil, c11DstPrefix} {
			var out []byte
			var err error
			if p := guard(func() { out, err = cl.run(bytes.Clone(dst)) }); p != nil {
				c.Panic(cl.name, lit, p, nil)
				continue
			}
			local["public."+cl.name]++
			if !bytes.HasPrefix(out, dst) {
				c.Violate("dst-clobbered", cl.name, lit, map[string]any{"out": hx(out), "dst": hx(dst)})
				continue
			}
			if got := hx(out[len(dst):]) + " " + c11PubErrClass(err); got != want {
				c.Violate("corr-unquote", cl.name, lit, map[string]any{"impl": got, "model": want, "dst": hx(dst)})
			}
			c.Case("pubunq|"+cl.name+"|"+string(lit), true)
		}
	}
}

// c11PublicQuote: the exported jsontext.AppendQuote (no escape flags), both instantiations, against `quote q 0 0 0`.
func c11PublicQuote(c *Ctx, text []byte, want string, local map[string]int64) {
	type call struct {
		name string
		run  func(dst []byte) ([]byte, error)
	}
	calls := []call{
		{"jsontext.AppendQuote[[]byte]", func(dst []byte) ([]byte, error) { return jsontext.AppendQuote(dst, bytes.Clone(text)) }},
		{"jsontext.AppendQuote[string]", func(dst []byte) ([]byte, error) { return jsontext.AppendQuote(dst, string(text)) }},
	}
	for _, cl := range calls {
		for _, dst := range [][]byte{nil, c11DstPrefix} {
			var out []byte
			var err error
			if p := guard(func() { out, err = cl.run(bytes.Clone(dst)) }); p != nil {
				c.Panic(cl.name, text, p, nil)
				continue
			}
			local["public."+cl.name]++
			if !bytes.HasPrefix(out, dst) {
				c.Violate("dst-clobbered", cl.name, text, map[string]any{"out": hx(out), "dst": hx(dst)})
				continue
			}
			if got := hx(out[len(dst):]) + " " + c11PubErrClass(err); got != want {
				c.Violate("corr-quote", cl.name, text, map[string]any{"impl": got, "model": want, "dst": hx(dst)})
			}
			c.Case("pubq|"+cl.name+"|"+string(text), true)
		}
	}
}

func c11CorrRaw(c *Ctx, st *c11Stats, raws [][]byte) {
	flags := c11Flags(false)
	c11Parallel(c, len(raws), 400, func(or *Oracle, lo, hi int) {
		if or == nil {
			return
		}
		local := map[string]int64{}
		var lines []string
		for _, s := range raws[lo:hi] {
			h := hx(s)
			lines = append(lines, "quote need "+h)
			for _, f := range flags {
				lines = append(lines, "quote q "+b01(f.html)+" "+b01(f.js)+" "+b01(f.allow)+" "+h)
			}
		}
		ans := or.Ask(lines)
		k := 0
		for _, s := range raws[lo:hi] {
			var need bool
			if p := guard(func() { need = jsonwire.NeedEscape(s) }); p != nil {
				c.Panic("NeedEscape", s, p, nil)
			} else if b01(need) != ans[k] {
				c.Violate("corr-need", "jsonwire.NeedEscape", s, map[string]any{"impl": need, "model": ans[k]})
			}
			k++
			local["raw.len."+lenBucket(len(s))]++
			local["raw.need."+b01(need)]++
			for _, f := range flags {
				var q []byte
				var err error
				if p := guard(func() { q, err = jsonwire.AppendQuote(nil, s, f.wire()) }); p != nil {
					c.Panic("AppendQuote", s, p, map[string]any{"flags": f.String()})
				} else if got := hx(q) + " " + c11ErrClass(err); got != ans[k] {
					c.Violate("corr-quote", "jsonwire.AppendQuote", s, map[string]any{"flags": f.String(), "impl": got, "model": ans[k]})
				}
				local["quote.err."+c11ErrClass(err)]++
				if !f.html && !f.js && !f.allow {
					c11PublicQuote(c, s, ans[k], local)
				}
				k++
				c.Case("q|"+f.String()+"|"+string(s), need)
			}
		}
		st.add(local)
	})
}

func c11CorrLit(c *Ctx, st *c11Stats, lits [][]byte) {
	flags := c11Flags(true)
	c11Parallel(c, len(lits), 300, func(or *Oracle, lo, hi int) {
		if or == nil {
			return
		}
		local := map[string]int64{}
		var lines []string
		for _, s := range lits[lo:hi] {
			h := hx(s)
			lines = append(lines, "quote unq "+h, "quote cs 0 "+h, "quote cs 1 "+h)
			for _, f := range flags {
				lines = append(lines, "quote reformat "+b01(f.html)+" "+b01(f.js)+" "+b01(f.allow)+" "+b01(f.preserve)+" "+h)
			}
		}
		ans := or.Ask(lines)
		k := 0
		for _, s := range lits[lo:hi] {
			var u []byte
			var err error
			if p := guard(func() { u, err = jsonwire.AppendUnquote(nil, s) }); p != nil {
				c.Panic("AppendUnquote", s, p, nil)
			} else if got := hx(u) + " " + c11ErrClass(err); got != ans[k] {
				c.Violate("corr-unquote", "jsonwire.AppendUnquote", s, map[string]any{"impl": got, "model": ans[k]})
			}
			local["unquote.err."+c11ErrClass(err)]++
			local["lit.len."+lenBucket(len(s))]++
			c11PublicUnquote(c, s, ans[k], local)
			k++
			for _, validate := range []bool{false, true} {
				var vf jsonwire.ValueFlags
				var n int
				if p := guard(func() { n, err = jsonwire.ConsumeString(&vf, s, validate) }); p != nil {
					c.Panic("ConsumeString", s, p, nil)
				} else {
					got := fmt.Sprintf("%x %s", n, c11ErrClass(err))
					want := ans[k]
					if err == nil {
						got += " " + b01(vf.IsCanonical())
					} else if i := bytes.LastIndexByte([]byte(want), ' '); i >= 0 {
						want = want[:i]
					}
					if got != want {
						c.Violate("corr-consume", "jsonwire.ConsumeString", s, map[string]any{"validate": validate, "impl": got, "model": ans[k]})
					}
					if validate {
						local["consume.err."+c11ErrClass(err)]++
					}
				}
				k++
			}
			for _, f := range flags {
				var out []byte
				var n int
				if p := guard(func() { out, n, err = jsonwire.ReformatString(nil, s, f.wire()) }); p != nil {
					c.Panic("ReformatString", s, p, map[string]any{"flags": f.String()})
				} else if got := fmt.Sprintf("%s %x %s", hx(out), n, c11ErrClass(err)); got != ans[k] {
					c.Violate("corr-reformat", "jsonwire.ReformatString", s, map[string]any{"flags": f.String(), "impl": got, "model": ans[k]})
				}
				k++
				c.Case("r|"+f.String()+"|"+string(s), bytes.IndexByte(s, '\\') >= 0 || jsonwire.NeedEscape(s))
			}
		}
		st.add(local)
	})
}

func c11CorrHooks(c *Ctx, or *Oracle) {
	if or == nil {
		return
	}
	rng := c.Rng
	var lines []string
	var check []func(ans string)
	add := func(line string, f func(ans string)) { lines = append(lines, line); check = append(check, f) }
	tbl := jsonwire.VerifEscapeASCII()
	for i := 0; i < 128; i++ {
		add(fmt.Sprintf("quote esc %x", i), func(ans string) {
			if ans != strconv.Itoa(int(tbl[i])) {
				c.Violate("corr-table", "escapeASCII", []byte{byte(i)}, map[string]any{"impl": tbl[i], "model": ans})
			}
		})
	}
	for i := 0; i < 256; i++ {
		add(fmt.Sprintf("quote eascii %x", i), func(ans string) {
			var got []byte
			if p := guard(func() { got = jsonwire.VerifAppendEscapedASCII(nil, byte(i)) }); p != nil {
				c.Panic("appendEscapedASCII", []byte{byte(i)}, p, nil)
			} else if hx(got) != ans {
				c.Violate("corr-hook", "appendEscapedASCII", []byte{byte(i)}, map[string]any{"impl": hx(got), "model": ans})
			}
		})
	}
	nU16 := c.N(4096, 65536)
	for i := 0; i < nU16; i++ {
		x := i
		if nU16 < 65536 {
			x = (i * 16) + rng.IntN(16)
		}
		add(fmt.Sprintf("quote eu16 %x", x), func(ans string) {
			got := jsonwire.VerifAppendEscapedUTF16(nil, uint16(x))
			if hx(got) != ans {
				c.Violate("corr-hook", "appendEscapedUTF16", nil, map[string]any{"x": x, "impl": hx(got), "model": ans})
			}
		})
	}
	runes := append([]rune{}, c11Runes...)
	runes = append(runes, 0xD800, 0xDBFF, 0xDC00, 0xDFFF, 0x110000, 0x12345678&0x1FFFFF)
	for i := 0; i < c.N(3000, 100000); i++ {
		runes = append(runes, rune(rng.IntN(0x118000)))
	}
	for _, r := range runes {
		add(fmt.Sprintf("quote euni %x", r), func(ans string) {
			got := jsonwire.VerifAppendEscapedUnicode(nil, r)
			if hx(got) != ans {
				c.Violate("corr-hook", "appendEscapedUnicode", nil, map[string]any{"r": r, "impl": hx(got), "model": ans})
			}
		})
	}
	hexAlpha := []byte("0123456789abcdefABCDEFgG/:@`x+- \\u\"\x00\xff")
	var hexIn [][]byte
	for _, a := range hexAlpha {
		for _, b := range hexAlpha {
			hexIn = append(hexIn, []byte{a, b, '0', 'f'}, []byte{'A', a, b, '9'}, []byte{'d', '8', a, b}, []byte{a, b}, []byte{a, b, 'c'}, []byte{a, b, 'c', 'd', 'e'})
		}
	}
	hexIn = append(hexIn, nil)
	for i := 0; i < c.N(3000, 60000); i++ {
		b := make([]byte, 4)
		for j := range b {
			b[j] = hexAlpha[rng.IntN(len(hexAlpha))]
		}
		hexIn = append(hexIn, b)
	}
	for _, b := range hexIn {
		add("quote hex4 "+hx(b), func(ans string) {
			v, ok := jsonwire.VerifParseHexUint16(b)
			if got := fmt.Sprintf("%x %s", v, b01(ok)); got != ans {
				c.Violate("corr-hook", "parseHexUint16", b, map[string]any{"impl": got, "model": ans})
			}
		})
	}
	var pfxIn [][]byte
	for _, s := range []string{`\ud83d`, `\uDC00`, `\udfff`, `\uDFFF`, `\ucfff`, `\ug000`, `xu0000`, `\x0000`, `\uD80G`, `\u12345`, `\udc000`} {
		for i := 0; i <= len(s); i++ {
			pfxIn = append(pfxIn, []byte(s[:i]))
		}
	}
	for i := 0; i < c.N(3000, 60000); i++ {
		b := []byte(`\ud`)
		b = b[:rng.IntN(4)]
		for len(b) < rng.IntN(8) {
			b = append(b, hexAlpha[rng.IntN(len(hexAlpha))])
		}
		pfxIn = append(pfxIn, b)
	}
	for _, b := range pfxIn {
		for _, lower := range []bool{false, true} {
			add("quote pfx "+b01(lower)+" "+hx(b), func(ans string) {
				if got := b01(jsonwire.VerifHasEscapedUTF16Prefix(b, lower)); got != ans {
					c.Violate("corr-hook", "hasEscapedUTF16Prefix", b, map[string]any{"lower": lower, "impl": got, "model": ans})
				}
			})
		}
	}
	ans := or.Ask(lines)
	for i, a := range ans {
		check[i](a)
		c.Case("hook|"+lines[i], true)
	}
	c.HitN("hooks.lines", int64(len(lines)))
}

// ---------------------------------------------------------------------------------------------
// (b) paths by which a text reaches the output

type c11Text struct{ b []byte }

func (t c11Text) MarshalText() ([]byte, error) { return t.b, nil }

type c11TextKey string

func (t c11TextKey) MarshalText() ([]byte, error) { return []byte(t), nil }

type c11TokTo struct{ s string }

func (t c11TokTo) MarshalJSONTo(e *jsontext.Encoder) error { return e.WriteToken(jsontext.String(t.s)) }

type c11RawM struct{ b []byte }

func (r c11RawM) MarshalJSON() ([]byte, error) { return r.b, nil }

type c11RawTo struct{ b []byte }

func (r c11RawTo) MarshalJSONTo(e *jsontext.Encoder) error { return e.WriteValue(r.b) }

type c11FuncT struct{ s string }
type c11FuncR struct{ b []byte }

type c11Inline struct {
	X map[string]int `json:",embed"`
}
type c11EmbedRaw struct {
	X jsontext.Value `json:",embed"`
}
type c11Stringified struct {
	F string `json:",string"`
}

func optsOf(f c11Flag, extra ...json.Options) []json.Options {
	var o []json.Options
	o = append(o, extra...)
	for _, x := range f.opts() {
		o = append(o, x)
	}
	return o
}

var errC11Shape = errors.New("unexpected output shape")
var errC11NA = errors.New("path not applicable to this text")

func stripObj(out []byte, err error) ([]byte, error) {
	if err != nil {
		return nil, err
	}
	if len(out) < 5 || out[0] != '{' || !bytes.HasSuffix(out, []byte(":0}")) {
		return out, errC11Shape
	}
	return out[1 : len(out)-3], nil
}

// c11TagFor builds a struct tag whose JSON name is s (well-formed UTF-8).  This version of the library accepts
// "almost any unescaped name" except those containing , \ ' " or a backtick (ok=false for those, "" and "-").
func c11TagFor(s []byte) (reflect.StructTag, bool) {
	if len(s) == 0 || bytes.ContainsAny(s, ",\\'\"`") || string(s) == "-" {
		return "", false
	}
	return reflect.StructTag("json:" + strconv.Quote(string(s))), true
}

type c11QuotePath struct {
	name     string
	wellOnly bool // only defined for well-formed text
	run      func(s []byte, f c11Flag) ([]byte, error)
}

var c11MarshalToFunc = json.MarshalToFunc(func(e *jsontext.Encoder, v c11FuncT) error { return e.WriteToken(jsontext.String(v.s)) })
var c11MarshalFunc = json.MarshalFunc(func(v c11FuncR) ([]byte, error) { return v.b, nil })

func c11QuotePaths() []c11QuotePath {
	return []c11QuotePath{
		{"jsonwire.AppendQuote", false, func(s []byte, f c11Flag) ([]byte, error) { return jsonwire.AppendQuote(nil, s, f.wire()) }},
		{"Encoder.WriteToken(String)", false, func(s []byte, f c11Flag) ([]byte, error) {
			var buf bytes.Buffer
			e := jsontext.NewEncoder(&buf, f.opts()...)
			if err := e.WriteToken(jsontext.String(string(s))); err != nil {
				return nil, err
			}
			return bytes.TrimSuffix(buf.Bytes(), []byte("\n")), nil
		}},
		{"Marshal(string)", false, func(s []byte, f c11Flag) ([]byte, error) { return json.Marshal(string(s), optsOf(f)...) }},
		{"Marshal(string)+Multiline", false, func(s []byte, f c11Flag) ([]byte, error) {
			out, err := json.Marshal([]string{string(s)}, optsOf(f, jsontext.Multiline(true))...)
			if err != nil {
				return nil, err
			}
			if !bytes.HasPrefix(out, []byte("[\n\t")) || !bytes.HasSuffix(out, []byte("\n]")) {
				return out, errC11Shape
			}
			return out[3 : len(out)-2], nil
		}},
		{"Marshal(string) v1 defaults", false, func(s []byte, f c11Flag) ([]byte, error) {
			return json.Marshal(string(s), optsOf(f, jsonv1.DefaultOptionsV1())...)
		}},
		{"Marshal(map key)", false, func(s []byte, f c11Flag) ([]byte, error) {
			return stripObj(json.Marshal(map[string]int{string(s): 0}, optsOf(f)...))
		}},
		{"Marshal(embedded map key)", false, func(s []byte, f c11Flag) ([]byte, error) {
			return stripObj(json.Marshal(c11Inline{map[string]int{string(s): 0}}, optsOf(f)...))
		}},
		{"Marshal(struct member name)", true, func(s []byte, f c11Flag) ([]byte, error) {
			tag, ok := c11TagFor(s)
			if !ok {
				return nil, errC11NA
			}
			t := reflect.StructOf([]reflect.StructField{{Name: "F", Type: reflect.TypeFor[int](), Tag: tag}})
			return stripObj(json.Marshal(reflect.New(t).Elem().Interface(), optsOf(f)...))
		}},
		{"Marshal(TextMarshaler)", false, func(s []byte, f c11Flag) ([]byte, error) { return json.Marshal(c11Text{s}, optsOf(f)...) }},
		{"Marshal(TextMarshaler map key)", false, func(s []byte, f c11Flag) ([]byte, error) {
			return stripObj(json.Marshal(map[c11TextKey]int{c11TextKey(s): 0}, optsOf(f)...))
		}},
		{"MarshalJSONTo->WriteToken", false, func(s []byte, f c11Flag) ([]byte, error) { return json.Marshal(c11TokTo{string(s)}, optsOf(f)...) }},
		{"MarshalToFunc->WriteToken", false, func(s []byte, f c11Flag) ([]byte, error) {
			return json.Marshal(c11FuncT{string(s)}, optsOf(f, json.WithMarshalers(c11MarshalToFunc))...)
		}},
		{"MarshalWrite(string)", false, func(s []byte, f c11Flag) ([]byte, error) {
			var buf bytes.Buffer
			err := json.MarshalWrite(&buf, string(s), optsOf(f)...)
			return buf.Bytes(), err
		}},
	}
}

type c11RawPath struct {
	name string
	run  func(lit []byte, f c11Flag) ([]byte, error)
}

func c11RawPaths() []c11RawPath {
	return []c11RawPath{
		{"jsonwire.ReformatString", func(lit []byte, f c11Flag) ([]byte, error) {
			out, n, err := jsonwire.ReformatString(nil, lit, f.wire())
			if err == nil && n != len(lit) {
				return out, errC11Shape
			}
			return out, err
		}},
		{"Encoder.WriteValue", func(lit []byte, f c11Flag) ([]byte, error) {
			var buf bytes.Buffer
			e := jsontext.NewEncoder(&buf, f.opts()...)
			if err := e.WriteValue(lit); err != nil {
				return nil, err
			}
			return bytes.TrimSuffix(buf.Bytes(), []byte("\n")), nil
		}},
		{"Encoder.WriteValue(object name)", func(lit []byte, f c11Flag) ([]byte, error) {
			var buf bytes.Buffer
			e := jsontext.NewEncoder(&buf, f.opts()...)
			if err := e.WriteValue(append(append([]byte("{"), lit...), ":0}"...)); err != nil {
				return nil, err
			}
			return stripObj(bytes.TrimSuffix(buf.Bytes(), []byte("\n")), nil)
		}},
		{"Decoder.ReadToken->Encoder.WriteToken", func(lit []byte, f c11Flag) ([]byte, error) {
			d := jsontext.NewDecoder(bytes.NewReader(lit), f.opts()...)
			tok, err := d.ReadToken()
			if err != nil {
				return nil, err
			}
			var buf bytes.Buffer
			e := jsontext.NewEncoder(&buf, f.opts()...)
			if err := e.WriteToken(tok); err != nil {
				return nil, err
			}
			return bytes.TrimSuffix(buf.Bytes(), []byte("\n")), nil
		}},
		{"Marshal(embedded jsontext.Value object name)", func(lit []byte, f c11Flag) ([]byte, error) {
			return stripObj(json.Marshal(c11EmbedRaw{append(append([]byte("{"), lit...), ":0}"...)}, optsOf(f)...))
		}},
		{"Marshal(jsontext.Value)", func(lit []byte, f c11Flag) ([]byte, error) { return json.Marshal(jsontext.Value(lit), optsOf(f)...) }},
		{"MarshalJSON method", func(lit []byte, f c11Flag) ([]byte, error) { return json.Marshal(c11RawM{lit}, optsOf(f)...) }},
		{"MarshalJSONTo->WriteValue", func(lit []byte, f c11Flag) ([]byte, error) { return json.Marshal(c11RawTo{lit}, optsOf(f)...) }},
		{"MarshalFunc", func(lit []byte, f c11Flag) ([]byte, error) {
			return json.Marshal(c11FuncR{lit}, optsOf(f, json.WithMarshalers(c11MarshalFunc))...)
		}},
		{"Value.Format", func(lit []byte, f c11Flag) ([]byte, error) {
			v := jsontext.Value(bytes.Clone(lit))
			err := v.Format(f.opts()...)
			return v, err
		}},
		{"jsontext.AppendFormat", func(lit []byte, f c11Flag) ([]byte, error) { return jsontext.AppendFormat(nil, lit, f.opts()...) }},
	}
}

// c11PredQuote: predicates on every quoting path for one text.
func c11PredQuote(c *Ctx, paths []c11QuotePath, s []byte, local map[string]int64) {
	lossy, ill := refLossy(s)
	well := ill == 0
	for _, f := range c11Flags(false) {
		var ref []byte // AppendQuote's answer: every other path must produce the same literal
		for pi, p := range paths {
			if p.wellOnly && !well {
				continue
			}
			if pi > 0 && f.allow && well && len(s) > 3 {
				continue // AllowInvalidUTF8 is irrelevant for well-formed text; keep the single/pair sweep only
			}
			var lit []byte
			var err error
			if pn := guard(func() { lit, err = p.run(s, f) }); pn != nil {
				c.Panic(p.name, s, pn, map[string]any{"flags": f.String()})
				continue
			}
			if err == errC11NA {
				local["path.n/a."+p.name]++
				continue
			}
			local["path."+p.name]++
			c.Case("p|"+p.name+"|"+f.String()+"|"+string(s), jsonwire.NeedEscape(s))
			det := func(extra map[string]any) map[string]any {
				m := map[string]any{"flags": f.String(), "text": hx(s), "out": hx(lit), "err": fmt.Sprint(err)}
				for k, v := range extra {
					m[k] = v
				}
				return m
			}
			if err == errC11Shape {
				c.Violate("output-shape", p.name, s, det(nil))
				continue
			}
			// error iff ill-formed and !AllowInvalidUTF8
			wantErr := !well && !f.allow
			if pi == 0 {
				ref = lit
				if wantErr != (err != nil) || (err != nil && err != jsonwire.ErrInvalidUTF8) {
					c.Violate("invalid-utf8-error", p.name, s, det(map[string]any{"ill_formed_bytes": ill}))
				}
			} else {
				if wantErr != (err != nil) {
					c.Violate("invalid-utf8-error", p.name, s, det(map[string]any{"ill_formed_bytes": ill}))
				}
				if err != nil {
					local["path.error"]++
					continue
				}
				if !bytes.Equal(lit, ref) {
					c.Violate("path-differs", p.name, s, det(map[string]any{"AppendQuote": hx(ref)}))
				}
			}
			// no raw forbidden characters
			if bad := c11Forbidden(lit, f.html, f.js); bad != "" {
				c.Violate("escape-option-ignored", p.name, s, det(map[string]any{"found": bad}))
			}
			// lossless: unquotes to the text (each ill-formed byte exactly one U+FFFD)
			var u []byte
			var uerr error
			if pn := guard(func() { u, uerr = jsonwire.AppendUnquote(nil, lit) }); pn != nil {
				c.Panic("AppendUnquote", lit, pn, nil)
				continue
			}
			if uerr != nil || !bytes.Equal(u, lossy) {
				c.Violate("not-lossless", p.name, s, det(map[string]any{"unquoted": hx(u), "unquote_err": fmt.Sprint(uerr), "want": hx(lossy)}))
			}
			if m, ok := refUnescape(lit); !ok || !bytes.Equal(m, lossy) {
				c.Violate("not-valid-literal", p.name, s, det(map[string]any{"rfc8259_meaning": hx(m), "valid": ok}))
			}
			if n := bytes.Count(u, []byte("\ufffd")) - bytes.Count(s, []byte("\ufffd")); n != ill {
				c.Violate("fffd-count", p.name, s, det(map[string]any{"inserted": n, "ill_formed_bytes": ill}))
			}
			// minimal: no escape options => RFC 8785 form
			if !f.html && !f.js {
				if want := refCanon(lossy); !bytes.Equal(lit, want) {
					c.Violate("not-minimal", p.name, s, det(map[string]any{"rfc8785": hx(want)}))
				}
			}
		}
	}
	// the `string` tag under v1 semantics quotes twice; both layers must obey the options
	if well {
		for _, f := range c11Flags(false)[:4] {
			var out []byte
			var err error
			if pn := guard(func() {
				out, err = json.Marshal(c11Stringified{string(s)}, optsOf(f, jsonv1.StringifyWithLegacySemantics(true))...)
			}); pn != nil {
				c.Panic("Marshal(string,string)", s, pn, map[string]any{"flags": f.String()})
				continue
			}
			local["path.stringified"]++
			if err != nil || !bytes.HasPrefix(out, []byte(`{"F":`)) || !bytes.HasSuffix(out, []byte("}")) {
				c.Violate("output-shape", "Marshal(string,string)", s, map[string]any{"flags": f.String(), "out": hx(out), "err": fmt.Sprint(err)})
				continue
			}
			outer := out[5 : len(out)-1]
			inner, e1 := jsonwire.AppendUnquote(nil, outer)
			text, e2 := jsonwire.AppendUnquote(nil, inner)
			if e1 != nil || e2 != nil || !bytes.Equal(text, s) {
				c.Violate("not-lossless", "Marshal(string,string)", s, map[string]any{"flags": f.String(), "out": hx(out)})
			}
			if bad := c11Forbidden(outer, f.html, f.js); bad != "" {
				c.Violate("escape-option-ignored", "Marshal(string,string)", s, map[string]any{"flags": f.String(), "out": hx(out), "found": bad})
			}
		}
	}
}

// c11PredRaw: predicates on every pass-through path for one literal that is valid under f
// (strictly valid, or valid only with AllowInvalidUTF8).
func c11PredRaw(c *Ctx, paths []c11RawPath, lit []byte, local map[string]int64) {
	meaning, strict := refUnescape(lit)
	var vf jsonwire.ValueFlags
	nLoose, errLoose := jsonwire.ConsumeString(&vf, lit, false)
	loose := errLoose == nil && nLoose == len(lit)
	var vf2 jsonwire.ValueFlags
	nStrict, errStrict := jsonwire.ConsumeString(&vf2, lit, true)
	if implStrict := errStrict == nil && nStrict == len(lit); implStrict != strict || (strict && !loose) {
		c.Violate("literal-validity", "jsonwire.ConsumeString", lit, map[string]any{"impl_accepts": implStrict, "rfc8259_valid": strict, "loose": loose})
	}
	if !loose {
		local["literal.invalid"]++
		return
	}
	lossyMeaning, _ := jsonwire.AppendUnquote(nil, lit) // tied to the model by correspondence
	if strict {
		// every valid literal unquotes to its RFC 8259 meaning
		u, err := jsonwire.AppendUnquote(nil, lit)
		if err != nil || !bytes.Equal(u, meaning) {
			c.Violate("wrong-meaning", "jsonwire.AppendUnquote", lit, map[string]any{"impl": hx(u), "err": fmt.Sprint(err), "rfc8259": hx(meaning)})
		}
		var std string
		if e := stdjson.Unmarshal(lit, &std); e == nil && std != string(meaning) {
			c.Violate("wrong-meaning", "jsonwire.AppendUnquote vs encoding/json", lit, map[string]any{"impl": hx(u), "encoding/json": hx([]byte(std))})
		}
		local["literal.strict"]++
	} else {
		local["literal.only-with-AllowInvalidUTF8"]++
	}
	// the exported jsontext.AppendUnquote (both instantiations): the text with one U+FFFD per ill-formed byte / lone
	// surrogate, and an error exactly when the literal is not strictly valid
	for _, asString := range []bool{false, true} {
		var out []byte
		var err error
		name := "jsontext.AppendUnquote[[]byte]"
		if asString {
			name = "jsontext.AppendUnquote[string]"
		}
		if pn := guard(func() {
			if asString {
				out, err = jsontext.AppendUnquote(nil, string(lit))
			} else {
				out, err = jsontext.AppendUnquote(nil, bytes.Clone(lit))
			}
		}); pn != nil {
			c.Panic(name, lit, pn, nil)
			continue
		}
		if !bytes.Equal(out, lossyMeaning) {
			c.Violate("wrong-meaning", name, lit, map[string]any{"impl": hx(out), "want": hx(lossyMeaning), "err": fmt.Sprint(err)})
		}
		if (err != nil) != !strict {
			c.Violate("invalid-utf8-error", name, lit, map[string]any{"impl": hx(out), "err": fmt.Sprint(err), "strict": strict})
		}
		if strict && !bytes.Equal(out, meaning) {
			c.Violate("wrong-meaning", name+" vs RFC 8259 reference", lit, map[string]any{"impl": hx(out), "rfc8259": hx(meaning)})
		}
	}
	for _, f := range c11Flags(true) {
		if strict && f.allow && len(lit) > 8 {
			continue
		}
		var ref []byte
		for pi, p := range paths {
			var out []byte
			var err error
			if pn := guard(func() { out, err = p.run(lit, f) }); pn != nil {
				c.Panic(p.name, lit, pn, map[string]any{"flags": f.String()})
				continue
			}
			local["rawpath."+p.name]++
			c.Case("rp|"+p.name+"|"+f.String()+"|"+string(lit), true)
			det := func(extra map[string]any) map[string]any {
				m := map[string]any{"flags": f.String(), "literal": hx(lit), "out": hx(out), "err": fmt.Sprint(err)}
				for k, v := range extra {
					m[k] = v
				}
				return m
			}
			if err == errC11Shape {
				c.Violate("output-shape", p.name, lit, det(nil))
				continue
			}
			wantErr := !strict && !f.allow
			if wantErr != (err != nil) {
				c.Violate("invalid-utf8-error", p.name, lit, det(nil))
			}
			if err != nil {
				local["rawpath.error"]++
				continue
			}
			if pi == 0 {
				ref = out
			} else if !bytes.Equal(out, ref) {
				c.Violate("path-differs", p.name, lit, det(map[string]any{"ReformatString": hx(ref)}))
			}
			if bad := c11Forbidden(out, f.html, f.js); bad != "" {
				c.Violate("escape-option-ignored", p.name, lit, det(map[string]any{"found": bad}))
			}
			if f.preserve {
				// raw strings keep their bytes (incl. ill-formed ones and existing escapes); only the
				// characters the escape options forbid are rewritten
				if want := refPreserve(lit, f.html, f.js); !bytes.Equal(out, want) {
					c.Violate("raw-not-preserved", p.name, lit, det(map[string]any{"want": hx(want)}))
				}
			}
			// same meaning; without PreserveRawStrings each ill-formed byte / lone surrogate is one U+FFFD
			u, uerr := jsonwire.AppendUnquote(nil, out)
			if !bytes.Equal(u, lossyMeaning) || (uerr != nil && !(f.preserve && !strict)) {
				c.Violate("meaning-changed", p.name, lit, det(map[string]any{"unquoted": hx(u), "want": hx(lossyMeaning), "unquote_err": fmt.Sprint(uerr)}))
			}
			if !f.preserve {
				if _, ok := refUnescape(out); !ok {
					c.Violate("not-valid-literal", p.name, lit, det(nil))
				}
				if !f.html && !f.js {
					if want := refCanon(lossyMeaning); !bytes.Equal(out, want) {
						c.Violate("not-minimal", p.name, lit, det(map[string]any{"rfc8785": hx(want)}))
					}
				}
			}
		}
	}
	// decoding direction: Decoder / Unmarshal replace each ill-formed byte by one U+FFFD, error unless allowed
	for _, allow := range []bool{false, true} {
		var tokStr string
		var err error
		if pn := guard(func() {
			d := jsontext.NewDecoder(bytes.NewReader(lit), jsontext.AllowInvalidUTF8(allow))
			var tok jsontext.Token
			tok, err = d.ReadToken()
			if err == nil {
				tokStr = tok.String()
			}
		}); pn != nil {
			c.Panic("Decoder.ReadToken", lit, pn, nil)
			continue
		}
		local["decode.ReadToken"]++
		if (err != nil) != (!strict && !allow) {
			c.Violate("invalid-utf8-error", "Decoder.ReadToken", lit, map[string]any{"allow": allow, "err": fmt.Sprint(err), "strict": strict})
		} else if err == nil && tokStr != string(lossyMeaning) {
			c.Violate("wrong-meaning", "Decoder.ReadToken", lit, map[string]any{"allow": allow, "impl": hx([]byte(tokStr)), "want": hx(lossyMeaning)})
		}
		var sv string
		var av any
		if pn := guard(func() { err = json.Unmarshal(lit, &sv, jsontext.AllowInvalidUTF8(allow)) }); pn != nil {
			c.Panic("Unmarshal(string)", lit, pn, nil)
			continue
		}
		if (err != nil) != (!strict && !allow) {
			c.Violate("invalid-utf8-error", "Unmarshal(string)", lit, map[string]any{"allow": allow, "err": fmt.Sprint(err), "strict": strict})
		} else if err == nil && sv != string(lossyMeaning) {
			c.Violate("wrong-meaning", "Unmarshal(string)", lit, map[string]any{"allow": allow, "impl": hx([]byte(sv)), "want": hx(lossyMeaning)})
		}
		if pn := guard(func() { err = json.Unmarshal(lit, &av, jsontext.AllowInvalidUTF8(allow)) }); pn != nil {
			c.Panic("Unmarshal(any)", lit, pn, nil)
			continue
		}
		if err == nil {
			if s, ok := av.(string); !ok || s != string(lossyMeaning) {
				c.Violate("wrong-meaning", "Unmarshal(any)", lit, map[string]any{"allow": allow, "impl": fmt.Sprint(av), "want": hx(lossyMeaning)})
			}
		}
	}
}

// c11PredSpec: the implementation against the proven specification functions of the oracle.
func c11PredSpec(c *Ctx, raws [][]byte) {
	none := c11Flag{allow: true}
	c11Parallel(c, len(raws), 500, func(or *Oracle, lo, hi int) {
		if or == nil {
			return
		}
		var lines []string
		for _, s := range raws[lo:hi] {
			lines = append(lines, "quote canon "+hx(s), "quote lossy "+hx(s))
		}
		ans := or.Ask(lines)
		for i, s := range raws[lo:hi] {
			var q []byte
			if p := guard(func() { q, _ = jsonwire.AppendQuote(nil, s, none.wire()) }); p != nil {
				c.Panic("AppendQuote", s, p, nil)
				continue
			}
			lossy, ill := refLossy(s)
			if hx(q) != ans[2*i] {
				c.Violate("not-minimal", "jsonwire.AppendQuote vs Spec.canonQuote", s, map[string]any{"impl": hx(q), "spec": ans[2*i]})
			}
			if want := fmt.Sprintf("%s %x", hx(lossy), ill); want != ans[2*i+1] {
				c.Violate("corr-spec", "Spec.lossy vs Go reference", s, map[string]any{"go": want, "spec": ans[2*i+1]})
			}
			c.Case("spec|"+string(s), true)
		}
	})
}

func runC11(c *Ctx) {
	st := &c11Stats{m: map[string]int64{}}
	raws := c11RawStrings(c)
	lits := c11Literals(c, raws)
	c.Note("raw texts: %d, literals: %d, alphabet: %d bytes", len(raws), len(lits), len(c11Alphabet))

	// (a) correspondence
	c11CorrHooks(c, c.NewOracle())
	c11CorrRaw(c, st, raws)
	c11CorrLit(c, st, lits)
	c11PredSpec(c, raws)

	// (b) predicates on the implementation
	qpaths := c11QuotePaths()
	rpaths := c11RawPaths()
	// struct types are cached forever by the library: bound the number of distinct member names
	maxNames := c.N(2500, 40000)
	var namesMu sync.Mutex
	names := 0
	c11Parallel(c, len(raws), 200, func(_ *Oracle, lo, hi int) {
		local := map[string]int64{}
		for _, s := range raws[lo:hi] {
			paths := qpaths
			if utf8.Valid(s) {
				namesMu.Lock()
				names++
				skip := names > maxNames
				namesMu.Unlock()
				if skip {
					paths = nil
					for _, p := range qpaths {
						if !p.wellOnly {
							paths = append(paths, p)
						}
					}
				}
			}
			c11PredQuote(c, paths, s, local)
		}
		st.add(local)
	})
	c11Parallel(c, len(lits), 200, func(_ *Oracle, lo, hi int) {
		local := map[string]int64{}
		for _, lit := range lits[lo:hi] {
			c11PredRaw(c, rpaths, lit, local)
		}
		st.add(local)
	})
	for k, v := range st.m {
		c.HitN(k, v)
	}
	for i := 0; i < 6 && i < len(lits); i++ {
		lit := lits[len(lits)/7*(i+1)%len(lits)]
		u, err := jsonwire.AppendUnquote(nil, lit)
		c.Sample(map[string]any{"literal": trunc(string(lit), 60), "unquoted_hex": trunc(hx(u), 80), "err": c11ErrClass(err)})
	}
}
