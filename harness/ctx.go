package main

import (
	"encoding/hex"
	"encoding/json"
	"fmt"
	"hash/fnv"
	"math/rand/v2"
	"os"
	"path/filepath"
	"sort"
	"strings"
	"sync"
)

type machineryFailure string

func fail(format string, a ...any) { panic(machineryFailure(fmt.Sprintf(format, a...))) }

// Violation is one counterexample (or one broken correspondence).
type Violation struct {
	Property string         `json:"property"`
	Kind     string         `json:"kind"` // short class, e.g. "accept-mismatch"
	Op       string         `json:"op"`   // entry point / call site
	Input    string         `json:"input_hex,omitempty"`
	Detail   map[string]any `json:"detail,omitempty"`
	Replay   string         `json:"replay,omitempty"`
}

type Finding struct {
	Property string `json:"property"`
	Kind     string `json:"kind"` // "known" | "fixed"
	Match    struct {
		VKind string `json:"vkind,omitempty"`
		Op    string `json:"op,omitempty"`
		Input string `json:"input_hex,omitempty"`
	} `json:"match"`
	Commit string `json:"commit,omitempty"`
	What   string `json:"what"`
}

type Ctx struct {
	Prop, Tier string
	Seed       uint64
	Rng        *rand.Rand
	OraclePath string
	VerifDir   string
	ReplayPath string
	Wall       float64

	mu         sync.Mutex
	evals      int64
	distinct   map[uint64]struct{}
	samples    []any
	dist       map[string]int64
	violations []Violation
	knownHit   map[string]bool
	findings   []Finding
	oracles    []*Oracle
	notes      []string
	exhaustive bool
}

func newCtx(prop, tier string, seed uint64, oracle, verifDir string) *Ctx {
	c := &Ctx{Prop: prop, Tier: tier, Seed: seed, OraclePath: oracle, VerifDir: verifDir,
		Rng:      rand.New(rand.NewPCG(seed, 0x9e3779b97f4a7c15)),
		distinct: map[uint64]struct{}{}, dist: map[string]int64{}, knownHit: map[string]bool{}}
	b, err := os.ReadFile(filepath.Join(verifDir, "known_findings.json"))
	if err == nil {
		var fs []Finding
		if err := json.Unmarshal(b, &fs); err != nil {
			fail("known_findings.json: %v", err)
		}
		c.findings = fs
	}
	return c
}

// SubRng derives an independent deterministic stream (for workers).
func (c *Ctx) SubRng(i uint64) *rand.Rand {
	return rand.New(rand.NewPCG(c.Seed, 0x1234567+i))
}

func (c *Ctx) Thorough() bool { return c.Tier == "thorough" }

// N picks a case count by tier.
func (c *Ctx) N(quick, thorough int) int {
	if c.Thorough() {
		return thorough
	}
	return quick
}

// Case records one evaluated case.  key identifies the case for the distinct count;
// nontrivial says whether it counts as non-trivial under the property's rule.
func (c *Ctx) Case(key string, nontrivial bool) {
	c.mu.Lock()
	c.evals++
	if nontrivial && len(c.distinct) < 5_000_000 {
		h := fnv.New64a()
		h.Write([]byte(key))
		c.distinct[h.Sum64()] = struct{}{}
	}
	c.mu.Unlock()
}

// Hit increments a named bucket of the input distribution.
func (c *Ctx) Hit(bucket string) {
	c.mu.Lock()
	c.dist[bucket]++
	c.mu.Unlock()
}

func (c *Ctx) HitN(bucket string, n int64) {
	c.mu.Lock()
	c.dist[bucket] += n
	c.mu.Unlock()
}

// Sample keeps a few of the actual cases for the evidence file.
func (c *Ctx) Sample(s any) {
	c.mu.Lock()
	if len(c.samples) < 12 {
		c.samples = append(c.samples, s)
	}
	c.mu.Unlock()
}

func (c *Ctx) Note(format string, a ...any) {
	c.mu.Lock()
	c.notes = append(c.notes, fmt.Sprintf(format, a...))
	c.mu.Unlock()
}

func (c *Ctx) SetExhaustive(b bool) { c.exhaustive = b }

func hx(b []byte) string {
	if len(b) == 0 {
		return "-"
	}
	return hex.EncodeToString(b)
}

func unhx(s string) []byte {
	if s == "-" || s == "" {
		return nil
	}
	b, err := hex.DecodeString(s)
	if err != nil {
		fail("bad hex %q", s)
	}
	return b
}

// Violate reports a violation unless it matches a listed known finding.
// At most a handful per (kind, op) are written out.
func (c *Ctx) Violate(kind, op string, input []byte, detail map[string]any) {
	c.mu.Lock()
	defer c.mu.Unlock()
	in := ""
	if input != nil {
		in = hex.EncodeToString(input)
	}
	for _, f := range c.findings {
		if f.Property != c.Prop || f.Kind != "known" {
			continue
		}
		if (f.Match.VKind == "" || f.Match.VKind == kind) && (f.Match.Op == "" || f.Match.Op == op) &&
			(f.Match.Input == "" || f.Match.Input == in) {
			key := f.What
			if !c.knownHit[key] {
				c.knownHit[key] = true
				fmt.Printf("KNOWN-FINDING: property=%s %s\n", c.Prop, f.What)
			}
			return
		}
	}
	n := 0
	for _, v := range c.violations {
		if v.Kind == kind && v.Op == op {
			n++
		}
	}
	if n >= 3 || len(c.violations) >= 20 {
		return
	}
	v := Violation{Property: c.Prop, Kind: kind, Op: op, Input: in, Detail: detail}
	dir := os.Getenv("VERIF_REPLAY_DIR") // lets concurrent runs (seed matrix) keep their replay files apart
	if dir == "" {
		dir = filepath.Join(c.VerifDir, "replays")
	}
	os.MkdirAll(dir, 0o755)
	path := filepath.Join(dir, fmt.Sprintf("%s-%d-%d.json", c.Prop, c.Seed, len(c.violations)))
	v.Replay = path
	b, _ := json.MarshalIndent(map[string]any{"property": c.Prop, "seed": c.Seed, "tier": c.Tier, "violation": v}, "", " ")
	os.WriteFile(path, b, 0o644)
	c.violations = append(c.violations, v)
	fmt.Printf("VIOLATION property=%s replay=%s\n", c.Prop, path)
	os.Stdout.Sync()
}

func (c *Ctx) numViolations() int {
	c.mu.Lock()
	defer c.mu.Unlock()
	return len(c.violations)
}

type result struct {
	Property   string           `json:"property"`
	Tier       string           `json:"tier"`
	Seed       uint64           `json:"seed"`
	Evals      int64            `json:"evaluations"`
	Distinct   int              `json:"distinct_nontrivial"`
	Samples    []any            `json:"samples"`
	Dist       map[string]int64 `json:"distribution"`
	Violations []Violation      `json:"violations"`
	Known      []string         `json:"known_findings_hit"`
	Notes      []string         `json:"notes"`
	Wall       float64          `json:"wall_s"`
	Oracle     bool             `json:"oracle_used"`
	Exhaustive bool             `json:"exhaustive"`
}

func (c *Ctx) writeResult(path string) error {
	var known []string
	for k := range c.knownHit {
		known = append(known, k)
	}
	sort.Strings(known)
	r := result{c.Prop, c.Tier, c.Seed, c.evals, len(c.distinct), c.samples, c.dist, c.violations, known, c.notes, c.Wall, c.OraclePath != "", c.exhaustive}
	if r.Samples == nil {
		r.Samples = []any{}
	}
	if r.Violations == nil {
		r.Violations = []Violation{}
	}
	b, err := json.MarshalIndent(r, "", " ")
	if err != nil {
		return err
	}
	return os.WriteFile(path, b, 0o644)
}

// trunc shortens a string for samples.
func trunc(s string, n int) string {
	if len(s) <= n {
		return s
	}
	return s[:n] + "…"
}

func joinWords(w ...string) string { return strings.Join(w, " ") }

// guard runs f and returns the recovered panic value (nil if none).
func guard(f func()) (p any) {
	defer func() {
		if r := recover(); r != nil {
			if mf, ok := r.(machineryFailure); ok {
				panic(mf)
			}
			p = r
		}
	}()
	f()
	return nil
}

// Panic reports an undocumented library panic observed while exercising the current property.
func (c *Ctx) Panic(op string, input []byte, p any, detail map[string]any) {
	if detail == nil {
		detail = map[string]any{}
	}
	detail["panic"] = fmt.Sprint(p)
	c.Violate("panic", op, input, detail)
}
