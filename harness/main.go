// Command verifh is the Tie B harness: it runs the real go-json-experiment/json code
// in-process, runs the Lean oracle (compiled from the proven models) on the same
// operations, and evaluates each property's own predicate on the implementation.
//
//	verifh -prop C19 -tier quick -seed 1 -oracle /verif/lean/.lake/build/bin/oracle -out result.json
//
// Exit status: 0 nothing found, 1 at least one violation (VIOLATION lines on stdout),
// 2 machinery failure.
package main

import (
	"flag"
	"fmt"
	"os"
	"sort"
	"time"
)

type propFunc func(c *Ctx)

var registry = map[string]propFunc{}

func register(id string, f propFunc) { registry[id] = f }

func main() {
	prop := flag.String("prop", "", "property id (C01..C20)")
	tier := flag.String("tier", "quick", "quick|thorough")
	seed := flag.Uint64("seed", 1, "PRNG seed")
	oracle := flag.String("oracle", "", "path of the Lean oracle executable (empty: Go-only predicates)")
	out := flag.String("out", "", "result JSON path")
	replay := flag.String("replay", "", "replay file to re-run instead of generating")
	verifDir := flag.String("verif", "/verif", "verif root (known_findings.json, replays/, corpus/)")
	sub := flag.String("sub", "", "internal: run a subprocess op")
	flag.Parse()

	if *sub != "" {
		runSub(*sub, flag.Args())
		return
	}
	f, ok := registry[*prop]
	if !ok {
		var ids []string
		for k := range registry {
			ids = append(ids, k)
		}
		sort.Strings(ids)
		fmt.Fprintf(os.Stderr, "unknown property %q; have %v\n", *prop, ids)
		os.Exit(2)
	}
	c := newCtx(*prop, *tier, *seed, *oracle, *verifDir)
	c.ReplayPath = *replay
	start := time.Now()
	func() {
		defer func() {
			if r := recover(); r != nil {
				if mf, ok := r.(machineryFailure); ok {
					fmt.Fprintf(os.Stderr, "machinery failure: %s\n", string(mf))
					os.Exit(2)
				}
				panic(r)
			}
		}()
		f(c)
	}()
	c.closeOracles()
	c.Wall = time.Since(start).Seconds()
	if *out != "" {
		if err := c.writeResult(*out); err != nil {
			fmt.Fprintln(os.Stderr, err)
			os.Exit(2)
		}
	}
	if c.numViolations() > 0 {
		os.Exit(1)
	}
}
