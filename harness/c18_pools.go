package main

// Pool discipline (C18): after a call returns, no object may sit in a library sync.Pool twice
// ("each object that was taken is put back at most once").  A doubly-put object is later handed
// to two users at the same time (e.g. an outer and a nested Deterministic map marshal), which
// makes results depend on what an EARLIER call did.
//
// The pools are unexported package variables, exposed read-only by the add-only verif hooks
// json.VerifPools() (/repo/verif_hooks_pools.go) and jsontext.VerifPools()
// (/repo/jsontext/verif_hooks_pools.go).

import (
	"fmt"
	"sort"
	"sync"

	json "github.com/go-json-experiment/json"
	"github.com/go-json-experiment/json/jsontext"
)

type c18NamedPool struct {
	name string
	p    *sync.Pool
}

// c18Pools lists every sync.Pool of the library (pools.go, arshal.go:549, value.go:288):
// json "strings"; jsontext "bufferedEncoder", "streamingEncoder", "bytesBufferEncoder",
// "bufferedDecoder" (also the bytes.Buffer decoder pool), "streamingDecoder", "objectMembers".
func c18Pools() []c18NamedPool {
	var ps []c18NamedPool
	for k, p := range json.VerifPools() {
		ps = append(ps, c18NamedPool{"json." + k, p})
	}
	for k, p := range jsontext.VerifPools() {
		ps = append(ps, c18NamedPool{"jsontext." + k, p})
	}
	sort.Slice(ps, func(i, j int) bool { return ps[i].name < ps[j].name })
	if len(ps) < 7 {
		fail("verif hooks expose %d pools, expected at least 7", len(ps))
	}
	return ps
}

// c18PoolAudit empties every pool as far as this goroutine can reach (own P: private slot and
// shared list; other Ps: shared lists; victim cache), reports objects that were present more
// than once, and puts every distinct object back exactly once, in the order found.
// Only called while no library call is running (single goroutine).
func c18PoolAudit() (dups []string, seen int) {
	for _, np := range c18Pools() {
		if np.p == nil {
			fail("pool %s not linked", np.name)
		}
		mk := np.p.New
		np.p.New = nil // Get now returns nil when nothing is pooled
		var objs []any
		count := map[any]int{}
		for i := 0; i < 4096; i++ {
			o := np.p.Get()
			if o == nil {
				break
			}
			if count[o] == 0 {
				objs = append(objs, o)
			}
			count[o]++ // pointers: identity
		}
		np.p.New = mk
		for i := len(objs) - 1; i >= 0; i-- {
			if n := count[objs[i]]; n > 1 {
				dups = append(dups, fmt.Sprintf("%s: one %T present %d times", np.name, objs[i], n))
			}
			np.p.Put(objs[i])
		}
		seen += len(objs)
	}
	return
}
