package main

// Pool discipline (C18): after a call returns, no object may sit in a library sync.Pool twice
// ("each object that was taken is put back at most once").  A doubly-put object is later handed
// to two users at the same time (e.g. an outer and a nested Deterministic map marshal), which
// makes results depend on what an EARLIER call did.
//
// The pools are unexported package variables; until /repo's verif hooks expose them
// (proposed: `func VerifPools() map[string]*sync.Pool` in package json and in package jsontext)
// they are reached by pull-style linkname, which touches no line of /repo.

import (
	"fmt"
	"sync"
	_ "unsafe" // go:linkname
)

//go:linkname c18StringsPools github.com/go-json-experiment/json.stringsPools
var c18StringsPools *sync.Pool

//go:linkname c18ObjectMemberPool github.com/go-json-experiment/json/jsontext.objectMemberPool
var c18ObjectMemberPool sync.Pool

//go:linkname c18BufferedEncoderPool github.com/go-json-experiment/json/jsontext.bufferedEncoderPool
var c18BufferedEncoderPool *sync.Pool

//go:linkname c18StreamingEncoderPool github.com/go-json-experiment/json/jsontext.streamingEncoderPool
var c18StreamingEncoderPool *sync.Pool

//go:linkname c18BytesBufferEncoderPool github.com/go-json-experiment/json/jsontext.bytesBufferEncoderPool
var c18BytesBufferEncoderPool *sync.Pool

//go:linkname c18BufferedDecoderPool github.com/go-json-experiment/json/jsontext.bufferedDecoderPool
var c18BufferedDecoderPool *sync.Pool

//go:linkname c18StreamingDecoderPool github.com/go-json-experiment/json/jsontext.streamingDecoderPool
var c18StreamingDecoderPool *sync.Pool

type c18NamedPool struct {
	name string
	p    *sync.Pool
}

// c18Pools lists every sync.Pool of the library (pools.go, arshal.go:549, value.go:288).
func c18Pools() []c18NamedPool {
	return []c18NamedPool{
		{"json.stringsPools", c18StringsPools},
		{"jsontext.objectMemberPool", &c18ObjectMemberPool},
		{"jsontext.bufferedEncoderPool", c18BufferedEncoderPool},
		{"jsontext.streamingEncoderPool", c18StreamingEncoderPool},
		{"jsontext.bytesBufferEncoderPool", c18BytesBufferEncoderPool},
		{"jsontext.bufferedDecoderPool", c18BufferedDecoderPool}, // also bytesBufferDecoderPool (same pool)
		{"jsontext.streamingDecoderPool", c18StreamingDecoderPool},
	}
}

// c18PoolAudit empties every pool as far as this goroutine can reach (own P: private slot and
// shared list; other Ps: shared lists; victim cache), reports objects that were present more
// than once, and puts every distinct object back exactly once, in the order found.
// Only called while no library call is running (single goroutine).
func c18PoolAudit() (dups []string, seen int) {
	for _, np := range c18Pools() {
		if np.p == nil {
			fail("pool %s not linked", np.name)
		}
		mk := np.p.New
		np.p.New = nil // Get now returns nil when nothing is pooled
		var objs []any
		count := map[any]int{}
		for i := 0; i < 4096; i++ {
			o := np.p.Get()
			if o == nil {
				break
			}
			if count[o] == 0 {
				objs = append(objs, o)
			}
			count[o]++ // pointers: identity
		}
		np.p.New = mk
		for i := len(objs) - 1; i >= 0; i-- {
			if n := count[objs[i]]; n > 1 {
				dups = append(dups, fmt.Sprintf("%s: one %T present %d times", np.name, objs[i], n))
			}
			np.p.Put(objs[i])
		}
		seen += len(objs)
	}
	return
}
