package main

import (
	"fmt"
	"os"
)

// subOps are operations that may kill the process (stack overflow, non-termination)
// and are therefore run in a child: verifh -sub <name> args...
var subOps = map[string]func(args []string){}

func runSub(name string, args []string) {
	f, ok := subOps[name]
	if !ok {
		fmt.Fprintf(os.Stderr, "unknown sub op %q\n", name)
		os.Exit(2)
	}
	f(args)
}
