package main

// Shared JSON text generators (DESIGN.md §4).  Every random choice comes from the *rand.Rand
// passed in (derive it from Ctx.Rng / Ctx.SubRng), so runs replay exactly.
//
// API (all names start with gj):
//
//	gjAlphabet                      the JSON-critical byte alphabet (39 symbols)
//	gjEnum(alpha, n, f)             f(s) for every string over alpha of length exactly n (buffer reused)
//	gjEnumPrefix(alpha, pre, n, f)  same, but only the strings that start with pre
//	gjTokens                        whole-token symbols for token-level enumeration
//	gjValue(r, cfg)                 a random VALID JSON value (RFC 8259 + RFC 7493: valid UTF-8, paired
//	                                surrogates, unique names) with adversarial strings/numbers/whitespace
//	gjString(r, adv) gjNumber(r)    a valid JSON string literal / number literal
//	gjWS(r)                         0..3 whitespace bytes
//	gjRespell(r, raw)               a JSON string literal that UNESCAPES to the UTF-8 text raw, spelled with random escapes
//	gjInvalidStrings                JSON string literals that are ill-formed (lone/ill-ordered surrogates, bad UTF-8, …)
//	gjMutate(r, b)                  one random byte-level mutation (delete/replace/insert/truncate/duplicate/swap/bit flip),
//	                                or re-targeting of one \uXXXX escape to another code-unit class
//	gjEscapeUnits                   string-body units: \uXXXX escapes of every UTF-16 code-unit class (high/low surrogate, BMP
//	                                around the surrogate block, NUL) in lower/upper/mixed hex, and the raw (ill-formed) UTF-8
//	                                encodings of surrogates ED A0 80 … ED BF BF
//	gjEscapeBodies(n, f)            f(body) for every ordered n-tuple of gjEscapeUnits (buffer reused)
//	gjStringContexts(body, f)       f(text) for the literal "body" alone / with a prefix / with a suffix, as a top-level value,
//	                                array element, object name, member value, first and second value of a stream
//	gjDeep(kind, depth, leaf)       depth-nested arrays ("a"), objects ("o") or alternating ("m") around leaf
//	gjWideObject(r, n, nameLen, dupAt, respell)  an object with n distinct names of about nameLen bytes;
//	                                dupAt ≥ 0 re-inserts name[dupAt] at the end (respelled if respell)

import (
	"fmt"
	"math/rand/v2"
	"strconv"
	"unicode/utf8"
)

// gjAlphabet is the JSON-critical alphabet of DESIGN.md §4.
var gjAlphabet = []byte{'{', '}', '[', ']', ',', ':', '"', '\\', '/', 'u', 'b', '0', '1', '9', '-', '+', '.', 'e', 'E',
	'n', 't', 'f', 'a', 'D', '8', 'C', ' ', '\n', 0x00, 0x1F, 0x7F, 0x80, 0xC2, 0xE0, 0xED, 0xEF, 0xF0, 0xF4, 0xFF}

// gjEnum calls f with every string over alpha of length exactly n.  The slice passed to f is reused.
func gjEnum(alpha []byte, n int, f func([]byte)) { gjEnumPrefix(alpha, nil, n, f) }

// gjEnumPrefix enumerates the strings of length n over alpha that start with pre (len(pre) ≤ n).
func gjEnumPrefix(alpha []byte, pre []byte, n int, f func([]byte)) {
	if len(pre) > n {
		return
	}
	buf := make([]byte, n)
	copy(buf, pre)
	idx := make([]int, n)
	for i := len(pre); i < n; i++ {
		buf[i] = alpha[0]
	}
	for {
		f(buf)
		i := n - 1
		for ; i >= len(pre); i-- {
			idx[i]++
			if idx[i] < len(alpha) {
				buf[i] = alpha[idx[i]]
				break
			}
			idx[i] = 0
			buf[i] = alpha[0]
		}
		if i < len(pre) {
			return
		}
	}
}

// gjTokens are whole-token symbols (valid and invalid) for token-level enumeration.
var gjTokens = []string{
	"null", "true", "false", "nul", "0", "-0", "01", "1e5", "-", "1.", "2.5E-3",
	`"a"`, `"\u0061"`, `"b"`, `""`, `"😀"`, `"\ud83d"`, `"\ude00"`, "\"\xff\"", `"\ud83d\ude00"`,
	"{", "}", "[", "]", ",", ":", " ", "\n",
}

// gjInvalidStrings are ill-formed or borderline JSON string literals.
var gjInvalidStrings = []string{
	`"\ud800"`, `"\udc00"`, `"\udc00\ud800"`, `"\ud800\ud800"`, `"\ud800x"`, `"\ud800\n"`, `"\ud800A"`,
	`"\ud83d\ude0"`, `"\ud83d\ude"`, `"\ud83d\u"`, `"\ud83d\"`, `"😀"`, `"􏿿"`, `"\ud800\udbff"`,
	`"\u12"`, `"\u12G4"`, `"\x"`, `"\a"`, `"\'"`, `"\U0041"`, `"\`, `"`, `"abc`, `"\u`, `"😀`,
	"\"\x00\"", "\"\x1f\"", "\"\n\"", "\"\t\"", "\"\x7f\"",
	"\"\x80\"", "\"\xbf\"", "\"\xc0\x80\"", "\"\xc1\xbf\"", "\"\xc2\"", "\"\xc2\x7f\"", "\"\xe0\x9f\xbf\"", "\"\xe0\xa0\"",
	"\"\xed\xa0\x80\"", "\"\xed\xbf\xbf\"", "\"\xef\xbf\xbd\"", "\"\xf0\x8f\xbf\xbf\"", "\"\xf0\x90\x80\"",
	"\"\xf4\x90\x80\x80\"", "\"\xf5\x80\x80\x80\"", "\"\xff\"", "\"\xfe\"", "\"\xf0\x9f\x98\"", "\"\xf0\x9f\x98", "\"\xe2\x82",
	`"\u0000"`, `"\u001f"`, `"\u001F"`, `"\u000a"`, `"\u000A"`, `"\/"`, `"\b\f\n\r\t\"\\"`, `"�"`, "\"\xef\xbf\xbd\"",
}

// gjCfg configures gjValue.
type gjCfg struct {
	MaxDepth int  // maximum nesting below the root (0 ⇒ scalars only)
	MaxWidth int  // maximum number of members/elements per container
	Adv      bool // adversarial strings (escapes, multi-byte, surrogate pairs) and numbers
	WS       bool // random insignificant whitespace
}

func gjWS(r *rand.Rand) []byte {
	ws := []byte{' ', '\t', '\r', '\n'}
	n := 0
	if r.IntN(3) == 0 {
		n = 1 + r.IntN(3)
	}
	out := make([]byte, n)
	for i := range out {
		out[i] = ws[r.IntN(4)]
	}
	return out
}

func gjDigits(r *rand.Rand, n int) []byte {
	out := make([]byte, n)
	for i := range out {
		out[i] = byte('0' + r.IntN(10))
	}
	return out
}

// gjNumber returns a valid JSON number literal.
func gjNumber(r *rand.Rand) []byte {
	var b []byte
	if r.IntN(3) == 0 {
		b = append(b, '-')
	}
	if r.IntN(4) == 0 {
		b = append(b, '0')
	} else {
		b = append(b, byte('1'+r.IntN(9)))
		b = append(b, gjDigits(r, r.IntN(4))...)
		if r.IntN(20) == 0 {
			b = append(b, gjDigits(r, 15+r.IntN(10))...)
		}
	}
	if r.IntN(3) == 0 {
		b = append(b, '.')
		b = append(b, gjDigits(r, 1+r.IntN(4))...)
	}
	if r.IntN(4) == 0 {
		b = append(b, "eE"[r.IntN(2)])
		switch r.IntN(3) {
		case 0:
			b = append(b, '-')
		case 1:
			b = append(b, '+')
		}
		b = append(b, gjDigits(r, 1+r.IntN(2))...)
	}
	return b
}

var gjRunes = []rune{'a', 'b', 'z', 'A', '0', ' ', '/', '<', '>', '&', '\'', 0x7f, 0x80, 0xe9, 0x7ff, 0x800, 0x20ac, 0xd7ff, 0xe000,
	0xfffd, 0xffff, 0x10000, 0x1f600, 0x10ffff, '"', '\\', '\b', '\f', '\n', '\r', '\t', 0x00, 0x1f, 0x2028, 0x2029}

// gjText returns a random valid UTF-8 text (the unescaped content of a string).
func gjText(r *rand.Rand, adv bool) string {
	n := r.IntN(6)
	if r.IntN(8) == 0 {
		n = r.IntN(40)
	}
	var b []byte
	for i := 0; i < n; i++ {
		if adv && r.IntN(2) == 0 {
			b = utf8.AppendRune(b, gjRunes[r.IntN(len(gjRunes))])
		} else {
			b = append(b, byte('a'+r.IntN(26)))
		}
	}
	return string(b)
}

func gjHex4(r *rand.Rand, v rune) []byte {
	s := fmt.Sprintf("%04x", v)
	out := []byte(s)
	for i, c := range out {
		if c >= 'a' && c <= 'f' && r.IntN(2) == 0 {
			out[i] = c - 'a' + 'A'
		}
	}
	return out
}

var gjShortEscapes = map[rune]byte{'"': '"', '\\': '\\', '/': '/', '\b': 'b', '\f': 'f', '\n': 'n', '\r': 'r', '\t': 't'}

// gjRespell returns a JSON string literal whose unescaped value is raw (valid UTF-8),
// choosing among the available spellings of every character at random.
func gjRespell(r *rand.Rand, raw string) []byte {
	b := []byte{'"'}
	for _, c := range raw {
		short := gjShortEscapes
		mustEscape := c < 0x20 || c == '"' || c == '\\'
		k := r.IntN(4)
		switch {
		case k == 0 && !mustEscape:
			b = utf8.AppendRune(b, c)
		case k == 1 || (k == 0 && mustEscape):
			if s, ok := short[c]; ok {
				b = append(b, '\\', s)
				continue
			}
			fallthrough
		default:
			if c >= 0x10000 {
				c -= 0x10000
				b = append(b, '\\', 'u')
				b = append(b, gjHex4(r, 0xd800+(c>>10))...)
				b = append(b, '\\', 'u')
				b = append(b, gjHex4(r, 0xdc00+(c&0x3ff))...)
			} else {
				b = append(b, '\\', 'u')
				b = append(b, gjHex4(r, c)...)
			}
		}
	}
	return append(b, '"')
}

// gjString returns a valid (RFC 7493) JSON string literal.
func gjString(r *rand.Rand, adv bool) []byte {
	t := gjText(r, adv)
	if adv {
		return gjRespell(r, t)
	}
	return strconv.AppendQuote(nil, t) // ASCII letters only: identical to the JSON spelling
}

// gjValue returns a random valid JSON value.
func gjValue(r *rand.Rand, cfg gjCfg) []byte { return gjAppendValue(nil, r, cfg, cfg.MaxDepth) }

func gjAppendValue(b []byte, r *rand.Rand, cfg gjCfg, depth int) []byte {
	ws := func() {
		if cfg.WS {
			b = append(b, gjWS(r)...)
		}
	}
	k := r.IntN(8)
	if depth <= 0 && k >= 6 {
		k = r.IntN(6)
	}
	switch k {
	case 0:
		return append(b, "null"...)
	case 1:
		return append(b, "true"...)
	case 2:
		return append(b, "false"...)
	case 3, 4:
		return append(b, gjNumber(r)...)
	case 5:
		return append(b, gjString(r, cfg.Adv)...)
	case 6:
		b = append(b, '[')
		ws()
		n := r.IntN(cfg.MaxWidth + 1)
		for i := 0; i < n; i++ {
			if i > 0 {
				b = append(b, ',')
				ws()
			}
			b = gjAppendValue(b, r, cfg, depth-1)
			ws()
		}
		return append(b, ']')
	default:
		b = append(b, '{')
		ws()
		n := r.IntN(cfg.MaxWidth + 1)
		seen := map[string]bool{}
		for i := 0; i < n; i++ {
			name := gjText(r, cfg.Adv)
			for seen[name] {
				name += string(rune('a' + r.IntN(26)))
			}
			seen[name] = true
			if i > 0 {
				b = append(b, ',')
				ws()
			}
			if cfg.Adv {
				b = append(b, gjRespell(r, name)...)
			} else {
				b = strconv.AppendQuote(b, name)
			}
			ws()
			b = append(b, ':')
			ws()
			b = gjAppendValue(b, r, cfg, depth-1)
			ws()
		}
		return append(b, '}')
	}
}

// gjEscapeUnits are the units the "escape-pair" family is built from: one spelling per UTF-16 code-unit
// class × hex case, plus the raw three-byte UTF-8 encodings of surrogate code points (always ill-formed).
var gjEscapeUnits = func() [][]byte {
	var out [][]byte
	seen := map[string]bool{}
	add := func(b []byte) {
		if !seen[string(b)] {
			seen[string(b)] = true
			out = append(out, b)
		}
	}
	// high surrogates, low surrogates, BMP neighbours of the surrogate block and a letter, NUL
	for _, v := range []string{"d800", "dbff", "dc00", "dfff", "0041", "d7ff", "e000", "ffff", "0000"} {
		lower := []byte(v)
		upper := []byte(v)
		mixed := []byte(v)
		k := 0
		for i, c := range lower {
			if c >= 'a' && c <= 'f' {
				upper[i] = c - 'a' + 'A'
				if k%2 == 0 {
					mixed[i] = c - 'a' + 'A'
				}
				k++
			}
		}
		for _, h := range [][]byte{lower, upper, mixed} {
			add(append([]byte(`\u`), h...))
		}
	}
	// raw UTF-8 encodings of U+D800, U+DBFF (high), U+DC00, U+DFFF (low)
	for _, raw := range []string{"\xed\xa0\x80", "\xed\xaf\xbf", "\xed\xb0\x80", "\xed\xbf\xbf"} {
		add([]byte(raw))
	}
	return out
}()

// gjEscapeBodies calls f with the concatenation of every ordered n-tuple of gjEscapeUnits.
func gjEscapeBodies(n int, f func(body []byte)) {
	idx := make([]int, n)
	var buf []byte
	for {
		buf = buf[:0]
		for _, i := range idx {
			buf = append(buf, gjEscapeUnits[i]...)
		}
		f(buf)
		i := n - 1
		for ; i >= 0; i-- {
			idx[i]++
			if idx[i] < len(gjEscapeUnits) {
				break
			}
			idx[i] = 0
		}
		if i < 0 {
			return
		}
	}
}

// gjStringContexts calls f with texts that place the string body in every syntactic position:
// alone / with a prefix / with a suffix, as top-level value, array element, object name, member value,
// and as first and second value of a stream.
func gjStringContexts(body []byte, f func(text []byte)) {
	var lit, t []byte
	for _, affix := range [][2]string{{"", ""}, {"x", ""}, {"", "y"}} {
		lit = append(append(append(append(lit[:0], '"'), affix[0]...), body...), affix[1]...)
		lit = append(lit, '"')
		for _, ctx := range [][2]string{{"", ""}, {"[", "]"}, {"{", ":0}"}, {`{"a":`, "}"}, {"", " 1"}, {"null ", ""}} {
			t = append(append(append(t[:0], ctx[0]...), lit...), ctx[1]...)
			f(t)
		}
	}
}

// gjMutate applies one random byte-level mutation.
func gjMutate(r *rand.Rand, in []byte) []byte {
	b := append([]byte(nil), in...)
	if len(b) == 0 {
		return []byte{gjAlphabet[r.IntN(len(gjAlphabet))]}
	}
	i := r.IntN(len(b))
	switch r.IntN(8) {
	case 7: // re-target one \uXXXX escape to another code-unit class (falls back to a bit flip)
		var at []int
		for j := 0; j+6 <= len(b); j++ {
			if b[j] == '\\' && b[j+1] == 'u' {
				at = append(at, j)
			}
		}
		if len(at) > 0 {
			j := at[r.IntN(len(at))]
			u := gjEscapeUnits[r.IntN(len(gjEscapeUnits)-4)] // an escape, not a raw unit
			copy(b[j:j+6], u)
			return b
		}
		b[i] ^= 1 << r.IntN(8)
		return b
	case 0: // delete
		return append(b[:i], b[i+1:]...)
	case 1: // replace by a critical byte
		b[i] = gjAlphabet[r.IntN(len(gjAlphabet))]
		return b
	case 2: // insert a critical byte
		b = append(b, 0)
		copy(b[i+1:], b[i:])
		b[i] = gjAlphabet[r.IntN(len(gjAlphabet))]
		return b
	case 3: // truncate
		return b[:i]
	case 4: // duplicate a span
		j := i + r.IntN(len(b)-i+1)
		out := append([]byte(nil), b[:j]...)
		out = append(out, b[i:j]...)
		return append(out, b[j:]...)
	case 5: // swap two bytes
		j := r.IntN(len(b))
		b[i], b[j] = b[j], b[i]
		return b
	default: // flip one bit
		b[i] ^= 1 << r.IntN(8)
		return b
	}
}

// gjDeep nests leaf inside depth containers: kind "a" arrays, "o" objects {"k":…}, "m" alternating.
func gjDeep(kind string, depth int, leaf string) []byte {
	var b []byte
	closers := make([]byte, 0, depth)
	for i := 0; i < depth; i++ {
		obj := kind == "o" || (kind == "m" && i%2 == 1)
		if obj {
			b = append(b, `{"k":`...)
			closers = append(closers, '}')
		} else {
			b = append(b, '[')
			closers = append(closers, ']')
		}
	}
	b = append(b, leaf...)
	for i := len(closers) - 1; i >= 0; i-- {
		b = append(b, closers[i])
	}
	return b
}

// gjWideObject builds an object with n distinct names of roughly nameLen bytes each.
// If dupAt ≥ 0 the name with that index is appended once more at the end (spelled differently if respell).
func gjWideObject(r *rand.Rand, n, nameLen, dupAt int, respell bool) []byte {
	names := make([]string, n)
	for i := range names {
		s := strconv.Itoa(i) + "_"
		if r.IntN(4) == 0 {
			s += "é😀"
		}
		for len(s) < nameLen {
			s += string(rune('a' + r.IntN(26)))
		}
		names[i] = s
	}
	b := []byte{'{'}
	for i, s := range names {
		if i > 0 {
			b = append(b, ',')
		}
		if r.IntN(3) == 0 {
			b = append(b, gjRespell(r, s)...)
		} else {
			b = append(b, '"')
			b = append(b, s...)
			b = append(b, '"')
		}
		b = append(b, ':')
		b = strconv.AppendInt(b, int64(i), 10)
	}
	if dupAt >= 0 && dupAt < n {
		if n > 0 {
			b = append(b, ',')
		}
		if respell {
			b = append(b, gjRespell(r, names[dupAt])...)
		} else {
			b = append(b, '"')
			b = append(b, names[dupAt]...)
			b = append(b, '"')
		}
		b = append(b, ":0"...)
	}
	return append(b, '}')
}
