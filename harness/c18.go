package main

// C18 — Calls are isolated from one another: no history or concurrency dependence.
//
// Property predicates on the implementation (the shared pool of ~200 heterogeneous calls lives in
// harness/c18_race/pool so that the -race soak program runs exactly the same calls):
//
//	(0) baseline      every call alone: first in this process, and alone in a FRESH child process
//	(a) history       the pool in many shuffled sequential orders; every result = baseline
//	(b) retained      bytes/values handed back by earlier calls are re-dumped after later calls
//	                  (incl. large ones that recycle pooled buffers) and after the caller overwrote
//	                  the input buffer it had passed
//	(c) deterministic Deterministic(true): same bytes across repetitions, insertion orders, processes
//	(d) concurrency   c18race (built here with -race): 16 goroutines, random orders; DATA RACE
//	                  reports and result mismatches are violations
//	(e) reset         a used / abandoned / failed Encoder or Decoder after Reset behaves like a new
//	                  one (implementation side of theorem reset_fresh); SeenPointers is empty after
//	                  every MarshalEncode incl. error and recovered panic (theorem seen_balanced)
//
// Correspondence (Tie B): json.VerifStringCache.MakeString and json.VerifHash64 vs the Lean model
// (`iso intern`, `iso hash`, `iso slot`) on colliding inputs.

import (
	"bufio"
	"bytes"
	"errors"
	stdjson "encoding/json"
	"fmt"
	"math/rand/v2"
	"os"
	"os/exec"
	"path/filepath"
	"strconv"
	"strings"
	"sync"
	"time"

	json "github.com/go-json-experiment/json"
	"github.com/go-json-experiment/json/internal"
	"github.com/go-json-experiment/json/jsontext"
	"github.com/go-json-experiment/json/verifh/c18_race/pool"
)

func init() {
	register("C18", runC18)
	subOps["c18one"] = subC18One
	subOps["c18order"] = subC18Order
	subOps["c18seq"] = subC18Seq
}

var c18Export = jsontext.Internal.Export(&internal.AllowInternalUse)

// c18Finding is one observed dependence (also the wire format between the c18seq child and the parent).
type c18Finding struct {
	Kind  string `json:"kind"`
	Name  string `json:"name"`
	Got   string `json:"got"`
	Want  string `json:"want"`
	Order []int  `json:"order,omitempty"` // indices of the calls executed before (and including) the failing one
}

type c18Stats struct {
	Runs, KeptChecks, Scribbles, Audits int64
	Pairs                        map[[2]int]struct{}
}

// c18RunCall executes one pool call through guard.
func c18RunCall(cl pool.Call) (o pool.Out, panicked any) {
	panicked = guard(func() { o = cl.Run() })
	return
}

// c18Shuffles runs n shuffled sequential passes over the pool and returns every difference from
// the baseline, plus every alteration of data handed back by an earlier call.
func c18Shuffles(calls []pool.Call, base []string, prior []int, rng *rand.Rand, n, heavyOneIn int, st *c18Stats, audit bool) []c18Finding {
	var out []c18Finding
	// everything this process executed so far (the state a result could depend on), capped
	order := append([]int(nil), prior...)
	type kept struct {
		idx  int
		snap string
		keep func() string
	}
	for s := 0; s < n && len(out) < 10; s++ {
		perm := rng.Perm(len(calls))
		if len(order) > 6000 {
			order = append([]int(nil), order[len(order)-6000:]...)
		}
		var ring []kept
		prev := -1
		for _, i := range perm {
			cl := calls[i]
			if (cl.Heavy && rng.IntN(heavyOneIn) != 0) || (cl.Deep && rng.IntN(3) != 0) {
				continue
			}
			order = append(order, i)
			o, p := c18RunCall(cl)
			st.Runs++
			if st.Pairs != nil {
				st.Pairs[[2]int{prev, i}] = struct{}{}
			}
			prev = i
			if p != nil {
				out = append(out, c18Finding{"harness-panic", cl.Name, fmt.Sprint(p), "", append([]int(nil), order...)})
				continue
			}
			if o.Res != base[i] {
				out = append(out, c18Finding{"history-dependence", cl.Name, o.Res, base[i], append([]int(nil), order...)})
			}
			if audit && s%2 == 1 { // every other pass: the library's pools hold no object twice after the call
				dups, _ := c18PoolAudit()
				st.Audits++
				for _, d := range dups {
					out = append(out, c18Finding{"pool-double-put", cl.Name, d, "every pooled object present once", nil})
				}
			}
			if o.Keep != nil && (!cl.Heavy || rng.IntN(3) == 0) {
				snap := o.Keep()
				if o.Scribble != nil {
					o.Scribble()
					st.Scribbles++
					if s2 := o.Keep(); s2 != snap {
						out = append(out, c18Finding{"retained-aliases-input", cl.Name, trunc(s2, 400), trunc(snap, 400), append([]int(nil), order...)})
					}
				}
				if len(ring) < 12 {
					ring = append(ring, kept{i, snap, o.Keep})
				} else {
					ring[rng.IntN(len(ring))] = kept{i, snap, o.Keep}
				}
			}
			if len(ring) > 0 && rng.IntN(3) == 0 {
				k := ring[rng.IntN(len(ring))]
				st.KeptChecks++
				if s2 := k.keep(); s2 != k.snap {
					out = append(out, c18Finding{"retained-altered", calls[k.idx].Name + " altered after " + cl.Name, trunc(s2, 400), trunc(k.snap, 400), append([]int(nil), order...)})
				}
			}
		}
		for _, k := range ring {
			st.KeptChecks++
			if s2 := k.keep(); s2 != k.snap {
				out = append(out, c18Finding{"retained-altered", calls[k.idx].Name + " altered by the end of the pass", trunc(s2, 400), trunc(k.snap, 400), append([]int(nil), order...)})
			}
		}
	}
	return out
}

func errorsIs(err, target error) bool { return errors.Is(err, target) }

func c18Self() string {
	p, err := os.Executable()
	if err != nil {
		fail("os.Executable: %v", err)
	}
	return p
}

// ---- child-process operations ---------------------------------------------------------------------

// c18one <i>: run this call as the first library call of a new process (the parent starts one
// process per index).  Prints "<i>\t<result>".
func subC18One(args []string) {
	calls := pool.Build()
	w := bufio.NewWriter(os.Stdout)
	defer w.Flush()
	for _, a := range args {
		i, err := strconv.Atoi(a)
		if err != nil || i < 0 || i >= len(calls) {
			fmt.Fprintln(os.Stderr, "c18one: bad index", a)
			os.Exit(2)
		}
		o, p := c18RunCall(calls[i])
		if p != nil {
			o.Res = pool.LibPanicPrefix + "harness:" + fmt.Sprint(p)
		}
		fmt.Fprintf(w, "%d\t%s\n", i, strings.ReplaceAll(o.Res, "\n", "\\n"))
	}
}

// c18order i1,i2,…,ik: run the calls in this order in a fresh process; print the result of the last.
func subC18Order(args []string) {
	calls := pool.Build()
	if len(args) != 1 {
		os.Exit(2)
	}
	var last string
	for _, a := range strings.Split(args[0], ",") {
		i, err := strconv.Atoi(a)
		if err != nil || i < 0 || i >= len(calls) {
			os.Exit(2)
		}
		o, p := c18RunCall(calls[i])
		last = o.Res
		if p != nil {
			last = pool.LibPanicPrefix + "harness:" + fmt.Sprint(p)
		}
	}
	fmt.Println(strings.ReplaceAll(last, "\n", "\\n"))
}

// c18seq <seed> <n> <heavyOneIn> <baselineFile>: sequential shuffles in a process of its own.
// Prints one JSON finding per line and a final "DONE runs kept scribbles".
func subC18Seq(args []string) {
	if len(args) != 4 {
		os.Exit(2)
	}
	seed, _ := strconv.ParseUint(args[0], 10, 64)
	n, _ := strconv.Atoi(args[1])
	h, _ := strconv.Atoi(args[2])
	b, err := os.ReadFile(args[3])
	if err != nil {
		fmt.Fprintln(os.Stderr, err)
		os.Exit(2)
	}
	var base []string
	calls := pool.Build()
	if err := stdjson.Unmarshal(b, &base); err != nil || len(base) != len(calls) {
		fmt.Fprintln(os.Stderr, "c18seq: bad baseline")
		os.Exit(2)
	}
	st := &c18Stats{}
	fs := c18Shuffles(calls, base, nil, rand.New(rand.NewPCG(seed, 0xC18)), n, h, st, false)
	for _, f := range fs {
		line, _ := stdjson.Marshal(f)
		fmt.Println(string(line))
	}
	fmt.Printf("DONE %d %d %d\n", st.Runs, st.KeptChecks, st.Scribbles)
}

func c18Child(timeout time.Duration, args ...string) (string, error) {
	cmd := exec.Command(c18Self(), args...)
	var so, se bytes.Buffer
	cmd.Stdout, cmd.Stderr = &so, &se
	if err := cmd.Start(); err != nil {
		return "", err
	}
	done := make(chan error, 1)
	go func() { done <- cmd.Wait() }()
	select {
	case err := <-done:
		if err != nil {
			return so.String(), fmt.Errorf("%v: %s", err, trunc(se.String(), 2000))
		}
		return so.String(), nil
	case <-time.After(timeout):
		cmd.Process.Kill()
		return so.String(), fmt.Errorf("timeout after %v", timeout)
	}
}

// c18OrderRepro: does running `order` (the failing call last) in a fresh process give `got ≠ want`?
func c18OrderRepro(order []int, want string) (bool, string) {
	c18ShrinkMu.Lock()
	late := !c18ShrinkDeadline.IsZero() && time.Now().After(c18ShrinkDeadline)
	c18ShrinkMu.Unlock()
	if late {
		return false, "shrink budget exhausted"
	}
	strs := make([]string, len(order))
	for i, x := range order {
		strs[i] = strconv.Itoa(x)
	}
	out, err := c18Child(2*time.Minute, "-sub", "c18order", strings.Join(strs, ","))
	if err != nil {
		return true, "child failed: " + err.Error()
	}
	got := strings.TrimRight(out, "\n")
	return got != strings.ReplaceAll(want, "\n", "\\n"), got
}

// c18ShrinkOrder reduces the history before the failing call: the shortest reproducing suffix among
// a few candidate lengths, then ddmin, every candidate run in a fresh process (bounded effort).
func c18ShrinkOrder(order []int, want string) (min []int, reproduced bool) {
	if len(order) == 0 {
		return order, false
	}
	last := order[len(order)-1]
	all := order[:len(order)-1]
	var hist []int
	for _, n := range []int{0, 1, 8, 60, 400, len(all)} {
		if n > len(all) {
			n = len(all)
		}
		cand := all[len(all)-n:]
		if ok, _ := c18OrderRepro(append(append([]int(nil), cand...), last), want); ok {
			hist, reproduced = append([]int(nil), cand...), true
			break
		}
		if n == len(all) {
			break
		}
	}
	if !reproduced {
		return order, false
	}
	budget := 60 // child runs
	for chunk := (len(hist) + 1) / 2; chunk >= 1 && budget > 0; chunk /= 2 {
		for i := 0; i < len(hist) && budget > 0; {
			j := i + chunk
			if j > len(hist) {
				j = len(hist)
			}
			cand := append(append([]int(nil), hist[:i]...), hist[j:]...)
			budget--
			if ok, _ := c18OrderRepro(append(append([]int(nil), cand...), last), want); ok {
				hist = cand
			} else {
				i = j
			}
		}
		if chunk == 1 {
			break
		}
	}
	return append(hist, last), true
}

var (
	c18ShrinkMu       sync.Mutex
	c18ShrinkDeadline time.Time
	c18Shrunk         int
)

// c18MayShrink bounds the total effort spent on reducing call orders: the first two findings, 3 minutes (15 thorough).
func (c *Ctx) c18MayShrink() bool {
	c18ShrinkMu.Lock()
	defer c18ShrinkMu.Unlock()
	if c18ShrinkDeadline.IsZero() {
		c18ShrinkDeadline = time.Now().Add(time.Duration(c.N(180, 900)) * time.Second)
	}
	c18Shrunk++
	return c18Shrunk <= 2 && time.Now().Before(c18ShrinkDeadline)
}

func (c *Ctx) c18Report(calls []pool.Call, f c18Finding) {
	names := func(idx []int) []string {
		var s []string
		for _, i := range idx {
			s = append(s, calls[i].Name)
		}
		return s
	}
	detail := map[string]any{"got": trunc(f.Got, 1500), "baseline": trunc(f.Want, 1500), "history_len": len(f.Order)}
	if f.Kind == "history-dependence" && len(f.Order) > 0 && c.c18MayShrink() {
		min, ok := c18ShrinkOrder(f.Order, f.Want)
		detail["reproduced_in_fresh_process"] = ok
		if len(min) > 80 {
			min = min[len(min)-80:]
			detail["minimal_order_truncated_to_last"] = 80
		}
		detail["minimal_order"] = names(min)
		detail["minimal_order_indices"] = min
	} else if len(f.Order) > 0 {
		o := f.Order
		if len(o) > 60 {
			o = o[len(o)-60:]
		}
		detail["last_calls_before_it"] = names(o)
	}
	c.Violate(f.Kind, f.Name, nil, detail)
}

// ---- the property run -------------------------------------------------------------------------------

func runC18(c *Ctx) {
	calls := pool.Build()
	c.Note("pool: %d calls", len(calls))

	// (0) in-process baseline (first run of each call in this process)
	base := make([]string, len(calls))
	for i, cl := range calls {
		o, p := c18RunCall(cl)
		if p != nil {
			c.Panic(cl.Name, nil, p, map[string]any{"stage": "baseline"})
			base[i] = "harness-panic"
			continue
		}
		base[i] = o.Res
		// pool discipline after the call (also keeps the baseline of later calls free of its effects)
		if dups, n := c18PoolAudit(); len(dups) > 0 {
			for _, d := range dups {
				c.Violate("pool-double-put", cl.Name, nil, map[string]any{"pool": d, "stage": "baseline pass (calls in pool order)", "pooled_objects_seen": n})
			}
		}
		c.Case("pool-audit|"+cl.Name, true)
		if strings.HasPrefix(o.Res, pool.LibPanicPrefix) {
			c.Panic(cl.Name, nil, o.Res, map[string]any{"stage": "baseline", "note": "a panic that is not the user code's own escaped the library"})
		}
		c.Hit("kind:" + cl.Kind)
		c.Hit("result:" + c18Class(o.Res))
		if cl.Heavy {
			c.Hit("heavy")
		}
		if cl.Unordered {
			c.Hit("unordered")
		}
		c.Case("baseline|"+cl.Name, false)
	}
	for i := 0; i < len(calls) && i < 400; i += 37 {
		c.Sample(map[string]any{"call": calls[i].Name, "baseline": trunc(base[i], 200)})
	}
	baseFile := filepath.Join(c.VerifDir, ".build", fmt.Sprintf("c18_baseline_%d.json", os.Getpid()))
	os.MkdirAll(filepath.Dir(baseFile), 0o755)
	bb, _ := stdjson.Marshal(base)
	if err := os.WriteFile(baseFile, bb, 0o644); err != nil {
		fail("cannot write %s: %v", baseFile, err)
	}
	defer os.Remove(baseFile)

	if os.Getenv("C18_ONLY") == "walk" { // development aid: one phase only
		c.c18Walk()
		c.c18Intern()
		return
	}
	// (d) start the race build early; it runs while the sequential checks proceed
	raceDone := make(chan struct{})
	go func() { defer close(raceDone); c.c18Race(baseFile) }()

	// (0') each call alone in a fresh process == first-run result in this process
	tp := time.Now()
	phase := func(name string) { c.Note("phase %s: %.1fs", name, time.Since(tp).Seconds()); tp = time.Now() }
	c.c18FreshProcesses(calls, base)
	phase("fresh-processes")

	// (a)+(b) sequential shuffles: some in this process, the rest in child processes (each sequential)
	st := &c18Stats{Pairs: map[[2]int]struct{}{}}
	total := c.N(200, 10000)
	inproc := c.N(24, 200)
	heavyOneIn := 10
	workers := c.N(4, 16)
	if c18Dev() {
		total, workers = 40, 2
	}
	t0 := time.Now()
	prior := make([]int, len(calls)) // the baseline pass above ran every call once, in index order
	for i := range prior {
		prior[i] = i
	}
	fs := c18Shuffles(calls, base, prior, c.Rng, inproc, heavyOneIn, st, true)
	c.HitN("pool-audits", st.Audits)
	c.Note("in-process shuffles: %d passes, %d calls, %.1fs", inproc, st.Runs, time.Since(t0).Seconds())
	for p := range st.Pairs {
		if p[0] >= 0 {
			c.Case(fmt.Sprintf("pair|%d|%d", p[0], p[1]), true)
		}
	}
	for _, f := range fs {
		c.c18Report(calls, f)
	}
	per := (total - inproc + workers - 1) / workers
	var wg sync.WaitGroup
	var mu sync.Mutex
	var childFs []c18Finding
	var cr, ck, cs int64
	for w := 0; w < workers; w++ {
		wg.Add(1)
		go func(w int) {
			defer wg.Done()
			out, err := c18Child(3*time.Hour, "-sub", "c18seq", strconv.FormatUint(c.Seed*1000+uint64(w), 10), strconv.Itoa(per), strconv.Itoa(heavyOneIn), baseFile)
			mu.Lock()
			defer mu.Unlock()
			okDone := false
			for _, line := range strings.Split(out, "\n") {
				switch {
				case strings.HasPrefix(line, "DONE "):
					var a, b, d int64
					fmt.Sscanf(line, "DONE %d %d %d", &a, &b, &d)
					cr, ck, cs = cr+a, ck+b, cs+d
					okDone = true
				case strings.HasPrefix(line, "{"):
					var f c18Finding
					if stdjson.Unmarshal([]byte(line), &f) == nil {
						childFs = append(childFs, f)
					}
				}
			}
			if !okDone {
				// a crash of the child is itself an observation about the library (e.g. fatal error)
				childFs = append(childFs, c18Finding{Kind: "sequential-child-crashed", Name: fmt.Sprintf("c18seq worker %d", w), Got: trunc(fmt.Sprint(err)+" | "+out, 3000)})
			}
		}(w)
	}
	wg.Wait()
	for i, f := range childFs {
		if i < 6 {
			c.c18Report(calls, f)
		}
	}
	c.HitN("sequential-calls", st.Runs+cr)
	c.HitN("retained-rechecks", st.KeptChecks+ck)
	c.HitN("input-scribbles", st.Scribbles+cs)
	for i := int64(0); i < cr; i += 1 { // children's calls count as evaluated cases (distinct keys come from the in-process pairs)
		c.Case("", false)
	}
	c.Note("sequential shuffles: %d passes in-process + %d passes in %d child processes; %d calls; %d retained re-checks; %d input scribbles",
		inproc, per*workers, workers, st.Runs+cr, st.KeptChecks+ck, st.Scribbles+cs)

	phase("shuffles")
	// (c) Deterministic(true): repetitions with fresh insertion histories
	reps := c.N(60, 2000)
	for i, cl := range calls {
		if cl.Kind != "det" {
			continue
		}
		for r := 0; r < reps; r++ {
			o, p := c18RunCall(cl)
			c.Case(fmt.Sprintf("det|%s|%d", cl.Name, r), true)
			if p != nil {
				c.Panic(cl.Name, nil, p, nil)
				break
			}
			if o.Res != base[i] {
				c.Violate("deterministic-differs", cl.Name, nil, map[string]any{"got": trunc(o.Res, 800), "baseline": trunc(base[i], 800), "repetition": r})
				break
			}
		}
		c.Hit("deterministic-call")
	}

	phase("deterministic")
	// (e) reset makes a used coder fresh; SeenPointers balanced
	c.c18Reset()
	phase("reset")
	c.c18SeenBalanced()
	phase("seen")

	// Tie B: intern cache and hash against the Lean model
	c.c18Intern()
	phase("intern")
	// Tie B: the marshal walk with the cycle tracker against the Lean model
	c.c18Walk()
	phase("walk")

	<-raceDone
	phase("wait-for-race")
}

// c18Dev (env C18_DEV=1) shrinks the run while developing on a shared machine: 2 child processes
// at a time, 40 passes, race soak 4 goroutines x 5 s.  Never set by ./check.
func c18Dev() bool { return os.Getenv("C18_DEV") == "1" }

func c18Class(res string) string {
	switch {
	case strings.Contains(res, "upanic("):
		return "user-panic"
	case strings.HasPrefix(res, pool.LibPanicPrefix):
		return "lib-panic"
	case strings.Contains(res, "E-sem"):
		if strings.Contains(res, "[user]") {
			return "user-error"
		}
		return "semantic-error"
	case strings.Contains(res, "[dup]"):
		return "duplicate-name"
	case strings.Contains(res, "[io]"):
		return "io-error"
	case strings.Contains(res, "E-syn"):
		return "syntactic-error"
	case strings.Contains(res, "E-"):
		return "other-error"
	}
	return "ok"
}

// c18FreshProcesses runs every call alone in a process of its own.
func (c *Ctx) c18FreshProcesses(calls []pool.Call, base []string) {
	jobs := make(chan int)
	var wg sync.WaitGroup
	var mu sync.Mutex
	fresh := make([]string, len(calls))
	nw := c.N(4, 16)
	if c18Dev() {
		nw = 2
	}
	for w := 0; w < nw; w++ {
		wg.Add(1)
		go func() {
			defer wg.Done()
			for i := range jobs {
				out, err := c18Child(5*time.Minute, "-sub", "c18one", strconv.Itoa(i))
				res := ""
				if err != nil {
					res = "child failed: " + err.Error()
				} else if _, r, ok := strings.Cut(strings.TrimRight(out, "\n"), "\t"); ok {
					res = r
				}
				mu.Lock()
				fresh[i] = res
				mu.Unlock()
			}
		}()
	}
	// quick: every Deterministic call and a seed-rotated third of the others; thorough: all
	chosen := func(i int) bool {
		return c.Thorough() || calls[i].Kind == "det" || (uint64(i)+c.Seed)%3 == 0
	}
	nrun := 0
	for i := range calls {
		if chosen(i) {
			jobs <- i
			nrun++
		}
	}
	close(jobs)
	wg.Wait()
	for i, cl := range calls {
		if !chosen(i) {
			continue
		}
		c.Case("fresh-process|"+cl.Name, true)
		if fresh[i] != strings.ReplaceAll(base[i], "\n", "\\n") {
			kind := "process-dependence"
			if cl.Kind == "det" {
				kind = "deterministic-differs-across-processes"
			}
			var hist []string
			for _, p := range calls[:i] {
				hist = append(hist, p.Name)
			}
			c.Violate(kind, cl.Name, nil, map[string]any{"alone_in_fresh_process": trunc(fresh[i], 1500), "in_harness_process_after_earlier_calls": trunc(base[i], 1500), "calls_before_it_in_harness": len(hist)})
		}
	}
	c.HitN("fresh-process-runs", int64(nrun))
}

// c18Reset: script i on a coder, Reset, script j  ==  script j on a new coder.
func (c *Ctx) c18Reset() {
	for i, si := range pool.EncScripts {
		for j, sj := range pool.EncScripts {
			want := sj.Fresh()
			var got string
			var pre string
			p := guard(func() {
				s1 := si.Sink()
				e := jsontext.NewEncoder(s1.W, si.Opts...)
				pre = si.RunEnc(e, s1)
				s2 := sj.Sink()
				e.Reset(s2.W, sj.Opts...)
				got = sj.RunEnc(e, s2)
			})
			c.Case(fmt.Sprintf("enc-reset|%d|%d", i, j), true)
			if p != nil {
				c.Panic("Encoder.Reset after "+si.Name, nil, p, map[string]any{"then": sj.Name})
				continue
			}
			if got != want {
				c.Violate("reset-not-fresh", "Encoder.Reset", nil, map[string]any{"first_script": si.Name, "first_result": trunc(pre, 400), "second_script": sj.Name, "after_reset": trunc(got, 800), "on_new_encoder": trunc(want, 800)})
			}
		}
	}
	c.HitN("encoder-reset-pairs", int64(len(pool.EncScripts)*len(pool.EncScripts)))
	for i, si := range pool.DecScripts {
		for j, sj := range pool.DecScripts {
			want := sj.Fresh()
			var got, pre string
			p := guard(func() {
				d := jsontext.NewDecoder(si.Reader(), si.Opts...)
				pre = si.RunDec(d)
				d.Reset(sj.Reader(), sj.Opts...)
				got = sj.RunDec(d)
			})
			c.Case(fmt.Sprintf("dec-reset|%d|%d", i, j), true)
			if p != nil {
				c.Panic("Decoder.Reset after "+si.Name, nil, p, map[string]any{"then": sj.Name})
				continue
			}
			if got != want {
				c.Violate("reset-not-fresh", "Decoder.Reset", nil, map[string]any{"first_script": si.Name, "first_result": trunc(pre, 400), "second_script": sj.Name, "after_reset": trunc(got, 800), "on_new_decoder": trunc(want, 800)})
			}
		}
	}
	c.HitN("decoder-reset-pairs", int64(len(pool.DecScripts)*len(pool.DecScripts)))

	// Observation (not a verdict): a user panic inside MarshalEncode on a caller-owned encoder.
	// The encoder is an explicit argument of the later call, so whatever it does afterwards is a
	// dependence on that argument, not on hidden history; recorded for the report.
	var note string
	p := guard(func() {
		bb := new(bytes.Buffer)
		e := jsontext.NewEncoder(bb)
		func() {
			defer func() { recover() }()
			json.MarshalEncode(e, pool.ToFrom{M: pool.MPanic})
		}()
		func() {
			defer func() {
				if r := recover(); r != nil {
					note = fmt.Sprint("Encoder.Reset after a recovered user panic inside MarshalEncode panics: ", r)
				}
			}()
			e.Reset(new(bytes.Buffer))
			note = "Encoder.Reset after a recovered user panic inside MarshalEncode succeeds"
		}()
	})
	if p != nil {
		note = fmt.Sprint("probe panicked: ", p)
	}
	c.Note("observation: %s", note)
}

// c18SeenBalanced: the cycle tracker of an encoder is empty after every MarshalEncode, whatever the exit path.
func (c *Ctx) c18SeenBalanced() {
	calls := pool.SeenProbes()
	for _, pr := range calls {
		var n int
		var res string
		p := guard(func() {
			bb := new(bytes.Buffer)
			e := jsontext.NewEncoder(bb)
			func() {
				defer func() {
					if r := recover(); r != nil {
						if _, ok := r.(pool.UserPanic); !ok {
							panic(r)
						}
						res = "user panic"
					}
				}()
				err := json.MarshalEncode(e, pr.Value, pr.Opts...)
				if err != nil {
					res = "error"
				} else {
					res = "ok"
				}
			}()
			n = len(c18Export.Encoder(e).SeenPointers)
		})
		c.Case("seen|"+pr.Name, true)
		c.Hit("seen-probe:" + res)
		if p != nil {
			c.Panic("MarshalEncode "+pr.Name, nil, p, nil)
			continue
		}
		if n != 0 {
			c.Violate("seen-pointers-leaked", "MarshalEncode "+pr.Name, nil, map[string]any{"left_in_SeenPointers": n, "exit": res})
		}
	}
	// pooled encoders after everything that ran above
	var taken []*jsontext.Encoder
	leaked := 0
	for i := 0; i < 64; i++ {
		e := c18Export.GetBufferedEncoder()
		taken = append(taken, e)
		leaked += len(c18Export.Encoder(e).SeenPointers)
	}
	for _, e := range taken {
		c18Export.PutBufferedEncoder(e)
	}
	c.Case("seen|pooled-encoders", true)
	if leaked != 0 {
		c.Violate("seen-pointers-leaked", "pooled buffered encoders", nil, map[string]any{"left_in_SeenPointers": leaked})
	}
}

// c18Intern: makeString returns a string equal to its argument whatever the cache holds
// (Go-only predicate), and model == code on colliding sequences (Tie B).
func (c *Ctx) c18Intern() {
	or := c.NewOracle()
	fam := pool.InternFamily()
	rng := c.Rng
	randStr := func() []byte {
		switch rng.IntN(5) {
		case 0, 1:
			return []byte(fam[rng.IntN(len(fam))])
		case 2: // same 8-byte windows, random middle
			mid := make([]byte, rng.IntN(20))
			for i := range mid {
				mid[i] = byte('a' + rng.IntN(3))
			}
			return append(append([]byte("PREFIX__"), mid...), "__SUFFIX"...)
		case 3: // short, every length class incl. the uncached ones (0, 1, >256)
			n := []int{0, 1, 2, 3, 4, 5, 7, 8, 9, 15, 16, 17, 255, 256, 257, 300}[rng.IntN(16)]
			b := make([]byte, n)
			for i := range b {
				b[i] = byte(rng.IntN(2)) + 'x'
			}
			return b
		}
		b := make([]byte, 2+rng.IntN(30))
		for i := range b {
			b[i] = byte(rng.IntN(256))
		}
		return b
	}
	nseq := c.N(400, 20000)
	var lines []string
	var goRes [][]string
	for s := 0; s < nseq; s++ {
		n := 1 + rng.IntN(24)
		var sc json.VerifStringCache
		args := make([]string, n)
		res := make([]string, n)
		for k := 0; k < n; k++ {
			b := randStr()
			var got string
			if p := guard(func() { got = sc.MakeString(b) }); p != nil {
				c.Panic("makeString", b, p, nil)
			}
			if got != string(b) {
				c.Violate("intern-not-transparent", "makeString", b, map[string]any{"returned": hx([]byte(got)), "position_in_sequence": k})
			}
			args[k] = hx(b)
			res[k] = hx([]byte(got))
			c.Hit(fmt.Sprintf("intern-len:%s", lenClass(len(b))))
		}
		c.Case("intern|"+strings.Join(args, ","), n >= 2)
		lines = append(lines, fmt.Sprintf("iso intern %d %s", n, strings.Join(args, " ")))
		goRes = append(goRes, res)
	}
	// hash64
	type pair struct{ lo, hi uint32 }
	var pairs []pair
	bnd := []uint32{0, 1, 2, 0x7fffffff, 0x80000000, 0xffffffff, 0x9e3779b1, 0xc2b2ae3d, 0x27d4eb2f}
	for _, a := range bnd {
		for _, b := range bnd {
			pairs = append(pairs, pair{a, b})
		}
	}
	for i := 0; i < c.N(3000, 300000); i++ {
		pairs = append(pairs, pair{rng.Uint32(), rng.Uint32()})
	}
	hashLines := make([]string, len(pairs))
	for i, p := range pairs {
		hashLines[i] = fmt.Sprintf("iso hash %x %x", p.lo, p.hi)
	}
	if or == nil {
		c.Note("oracle not available: intern/hash correspondence skipped (Go-only transparency predicate ran)")
		return
	}
	ans := or.Ask(lines)
	for i, a := range ans {
		want := strings.Join(goRes[i], " ")
		if a != want {
			c.Violate("corr-intern", "makeString", nil, map[string]any{"op": trunc(lines[i], 600), "model": trunc(a, 600), "code": trunc(want, 600)})
		}
	}
	ans = or.Ask(hashLines)
	for i, a := range ans {
		got := fmt.Sprintf("%x", json.VerifHash64(pairs[i].lo, pairs[i].hi))
		c.Case("hash|"+hashLines[i], true)
		if a != got {
			c.Violate("corr-hash64", "hash64", nil, map[string]any{"op": hashLines[i], "model": a, "code": got})
		}
	}
	c.HitN("hash64-pairs", int64(len(pairs)))
}

// ---- Tie B for Model/Reset.lean `marshal`: random value graphs below 1001 wrappers ---------------------

// c18Graph is a generated value: the Go value and its script in the oracle's prefix notation.
type c18Graph struct {
	rng    *rand.Rand
	nextID int
	script []string
}

// gen builds one value.  anc: the open containers (id -> slice) on the path from the root;
// done: completed containers that may be shared by a later sibling.
func (g *c18Graph) gen(depth int, anc []int, ancVal map[int][]any, done *[]struct {
	v      []any
	script []string
}) any {
	r := g.rng.IntN(20)
	switch {
	case depth >= 4 || r < 6:
		switch g.rng.IntN(8) {
		case 0:
			g.script = append(g.script, "L1")
			return make(chan int) // unsupported type: error exit
		case 1:
			g.script = append(g.script, "L2")
			return pool.ByMethod{M: pool.MPanic} // user panic exit
		}
		g.script = append(g.script, "L0")
		return 1
	case r < 9 && len(anc) > 0: // back edge: a real cycle in the Go value
		p := anc[g.rng.IntN(len(anc))]
		g.script = append(g.script, "N", strconv.Itoa(p), "0")
		return ancVal[p]
	case r < 11 && len(*done) > 0: // share a completed container (a DAG, not a cycle)
		d := (*done)[g.rng.IntN(len(*done))]
		g.script = append(g.script, d.script...)
		return d.v
	}
	g.nextID++
	id := g.nextID
	k := 1 + g.rng.IntN(3)
	s := make([]any, k)
	start := len(g.script)
	g.script = append(g.script, "N", strconv.Itoa(id), strconv.Itoa(k))
	ancVal[id] = s
	for i := 0; i < k; i++ {
		s[i] = g.gen(depth+1, append(anc, id), ancVal, done)
	}
	delete(ancVal, id)
	// a container holding a back edge to an ancestor above it must not be shared elsewhere
	// (its script would be wrong under another path); share only closed subgraphs
	closed := true
	for i := start; i+1 < len(g.script); i++ {
		if g.script[i] == "N" && g.script[i+2] == "0" {
			closed = false
		}
	}
	if closed {
		*done = append(*done, struct {
			v      []any
			script []string
		}{s, append([]string(nil), g.script[start:]...)})
	}
	return s
}

func (c *Ctx) c18Walk() {
	or := c.NewOracle()
	if or == nil {
		c.Note("oracle not available: marshal-walk correspondence skipped")
		return
	}
	n := c.N(150, 5000)
	var lines, got, scripts []string
	for t := 0; t < n; t++ {
		g := &c18Graph{rng: c.Rng, nextID: 2000}
		var done []struct {
			v      []any
			script []string
		}
		var wrap []string
		const wrappers = 1001
		for i := 0; i < wrappers; i++ {
			wrap = append(wrap, "N", strconv.Itoa(i+1), "1")
		}
		inner := g.gen(0, nil, map[int][]any{}, &done)
		v := inner
		for i := 0; i < wrappers; i++ {
			v = []any{v}
		}
		exit, left := "", 0
		p := guard(func() {
			e := jsontext.NewEncoder(new(bytes.Buffer))
			func() {
				defer func() {
					if r := recover(); r != nil {
						if _, ok := r.(pool.UserPanic); !ok {
							panic(r)
						}
						exit = "panic"
					}
				}()
				err := json.MarshalEncode(e, v)
				switch {
				case err == nil:
					exit = "ok"
				case errorsIs(err, internal.ErrCycle):
					exit = "cycle"
				default:
					exit = "error"
				}
			}()
			left = len(c18Export.Encoder(e).SeenPointers)
		})
		if p != nil {
			c.Panic("MarshalEncode(random graph)", nil, p, map[string]any{"script": trunc(strings.Join(g.script, " "), 600)})
			continue
		}
		if left != 0 {
			c.Violate("seen-pointers-leaked", "MarshalEncode(random graph)", nil, map[string]any{"left_in_SeenPointers": left, "exit": exit, "script": trunc(strings.Join(g.script, " "), 600)})
		}
		c.Case("walk|"+strings.Join(g.script, " "), true)
		c.Hit("walk-exit:" + exit)
		lines = append(lines, fmt.Sprintf("iso seen 1000 1 %s %s", strings.Join(wrap, " "), strings.Join(g.script, " ")))
		got = append(got, fmt.Sprintf("%s %d", exit, left))
		scripts = append(scripts, strings.Join(g.script, " "))
	}
	ans := or.Ask(lines)
	for i, a := range ans {
		if a != got[i] {
			c.Violate("corr-marshal-walk", "marshal (cycle tracker)", nil, map[string]any{"model": a, "code": got[i], "script_below_1001_wrappers": trunc(scripts[i], 800)})
		}
	}
}

func lenClass(n int) string {
	switch {
	case n < 2:
		return "0-1(uncached)"
	case n < 4:
		return "2-3"
	case n < 8:
		return "4-7"
	case n <= 256:
		return "8-256"
	}
	return ">256(uncached)"
}

// ---- (d) the race-detector soak -------------------------------------------------------------------------

func (c *Ctx) c18Race(baseFile string) {
	build := filepath.Join(c.VerifDir, ".build")
	modfile := filepath.Join(build, "go.harness.mod")
	if _, err := os.Stat(modfile); err != nil {
		fail("race build: %s missing (run through ./check): %v", modfile, err)
	}
	bin := filepath.Join(build, "c18race")
	env := append(os.Environ(), "GOFLAGS=-mod=mod", "GOPROXY=off", "GOSUMDB=off", "GOTOOLCHAIN=local", "CGO_ENABLED=1")
	t0 := time.Now()
	cmd := exec.Command("go1.26", "build", "-race", "-tags", "verif", "-modfile", modfile, "-o", bin, "./c18_race")
	cmd.Dir = filepath.Join(c.VerifDir, "harness")
	cmd.Env = env
	if out, err := cmd.CombinedOutput(); err != nil {
		fail("race build failed: %v\n%s", err, trunc(string(out), 3000))
	}
	c.Note("race build: %.1fs", time.Since(t0).Seconds())
	seconds, gor := c.N(10, 600), 16
	if c18Dev() {
		seconds, gor = 5, 4
	}
	run := exec.Command(bin, "-seconds", strconv.Itoa(seconds), "-seed", strconv.FormatUint(c.Seed, 10), "-goroutines", strconv.Itoa(gor), "-baseline", baseFile)
	run.Env = append(os.Environ(), "GORACE=halt_on_error=0 exitcode=66")
	var so, se bytes.Buffer
	run.Stdout, run.Stderr = &so, &se
	t0 = time.Now()
	err := run.Run()
	c.Note("race run (baseline + soak): %.1fs", time.Since(t0).Seconds())
	stderr := se.String()
	done := false
	for _, line := range strings.Split(so.String(), "\n") {
		f := strings.Split(line, "\t")
		switch {
		case strings.HasPrefix(line, "DONE "):
			done = true
			c.Note("race soak (%d s, %d goroutines, -race): %s", seconds, gor, line)
			var runs int64
			fmt.Sscanf(line, "DONE runs=%d", &runs)
			c.HitN("concurrent-calls", runs)
			for i := int64(0); i < runs; i++ {
				c.Case("", false)
			}
		case len(f) >= 4 && (strings.HasPrefix(f[0], "MISMATCH") || strings.HasPrefix(f[0], "RETAINED")):
			kind := map[bool]string{true: "concurrency-dependence", false: "retained-altered-concurrently"}[strings.HasPrefix(f[0], "MISMATCH")]
			if f[0] == "MISMATCH-PROCESS" {
				kind = "process-dependence"
			}
			c.Violate(kind, f[1], nil, map[string]any{"got": trunc(f[2], 1500), "baseline": trunc(f[3], 1500), "where": "c18race (16 goroutines, race detector on)"})
		case len(f) >= 3 && f[0] == "LIBPANIC":
			c.Panic(f[1], nil, f[2], map[string]any{"where": "c18race"})
		}
	}
	if n := strings.Count(stderr, "WARNING: DATA RACE"); n > 0 {
		reports := strings.Split(stderr, "==================")
		shown := 0
		for _, r := range reports {
			if strings.Contains(r, "WARNING: DATA RACE") && shown < 3 {
				shown++
				c.Violate("data-race", c18RaceSite(r), nil, map[string]any{"report": trunc(r, 6000), "reports_total": n})
			}
		}
	}
	if strings.Contains(stderr, "fatal error:") || (!done && err != nil) {
		c.Violate("crash-under-concurrency", "c18race", nil, map[string]any{"stderr": trunc(stderr, 6000), "exit": fmt.Sprint(err)})
	} else if !done {
		fail("c18race printed no DONE line: %v\n%s", err, trunc(stderr, 2000))
	}
}

// c18RaceSite names the first library frame of a race report (for grouping).
func c18RaceSite(report string) string {
	for _, line := range strings.Split(report, "\n") {
		line = strings.TrimSpace(line)
		if strings.HasPrefix(line, "github.com/go-json-experiment/json") && !strings.Contains(line, "/verifh/") {
			return line
		}
	}
	return "data race"
}
