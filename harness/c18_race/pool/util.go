// Package pool is the pool of heterogeneous library calls of property C18 (call isolation).
// It is shared by the main harness (harness/c18.go: sequential shuffles, retained results,
// fresh-process baselines) and by the race-detector soak (harness/c18_race).
//
// Every call is a closure returning a canonical result string (bytes digest / value dump /
// error class + position + text), a Keep function that re-dumps everything the library handed
// back to the caller (so that later calls can be shown not to alter it), and a Scribble
// function that overwrites the input buffers the caller passed.
package pool

import (
	"crypto/sha256"
	"encoding/hex"
	"errors"
	"fmt"
	"io"
	"math"
	"reflect"
	"sort"
	"strings"

	stdjson "encoding/json"

	json "github.com/go-json-experiment/json"
	"github.com/go-json-experiment/json/jsontext"
)

// Out is what one execution of a call produced.
type Out struct {
	Res      string        // canonical result (never contains addresses, capacities, times)
	Keep     func() string // dump of the data handed back by the library, re-evaluated later; nil if none
	Scribble func()        // overwrite the input buffers that were passed to the library; nil if none
}

// Call is one member of the pool.
type Call struct {
	Name      string
	Kind      string // marshal | unmarshal | format | coder | user | big | deep | cycle | intern | det
	Heavy     bool   // 1 MiB documents / depth 10^4: sampled less often
	Deep      bool   // depth > 1000 (a few ms each): sampled somewhat less often
	Unordered bool   // result is canonicalised up to object member order (Go map without Deterministic)
	Run       func() Out
}

// UserPanic is the value user code in the pool panics with; anything else escaping a call is a
// panic of the library itself.
type UserPanic struct{ Tag string }

// LibPanicPrefix marks a result in which a panic that is not a UserPanic escaped the library.
const LibPanicPrefix = "LIBPANIC:"

// catch runs f and converts a panic into a result string.
func catch(f func() string) (res string) {
	defer func() {
		if r := recover(); r != nil {
			if up, ok := r.(UserPanic); ok {
				res = "upanic(" + up.Tag + ")"
				return
			}
			res = LibPanicPrefix + fmt.Sprint(r)
		}
	}()
	return f()
}

// dig is a short digest of a byte string: length, hash, head.
func dig(b []byte) string {
	if len(b) <= 96 {
		return fmt.Sprintf("%d:%q", len(b), b)
	}
	h := sha256.Sum256(b)
	return fmt.Sprintf("%d:#%s:%q…", len(b), hex.EncodeToString(h[:10]), b[:32])
}

func full(b []byte) string {
	h := sha256.Sum256(b)
	return fmt.Sprintf("%d#%s", len(b), hex.EncodeToString(h[:]))
}

// errStr renders an error: class, position and text.  The comparison is between two runs of the
// same implementation on the same arguments, so the text is part of what must not change.
func errStr(err error) string {
	if err == nil {
		return "ok"
	}
	var sem *json.SemanticError
	var syn *jsontext.SyntacticError
	var b strings.Builder
	switch {
	case errors.As(err, &sem):
		fmt.Fprintf(&b, "E-sem off=%d ptr=%q kind=%q val=%q type=%v", sem.ByteOffset, sem.JSONPointer, sem.JSONKind.String(), []byte(sem.JSONValue), sem.GoType)
		if sem.Err != nil {
			fmt.Fprintf(&b, " inner=%T", sem.Err)
		}
	case errors.As(err, &syn):
		fmt.Fprintf(&b, "E-syn off=%d ptr=%q", syn.ByteOffset, syn.JSONPointer)
	case err == io.EOF:
		b.WriteString("E-eof")
	case err == io.ErrUnexpectedEOF:
		b.WriteString("E-ueof")
	default:
		fmt.Fprintf(&b, "E-other %T", err)
	}
	switch {
	case errors.Is(err, jsontext.ErrDuplicateName):
		b.WriteString(" [dup]")
	case errors.Is(err, jsontext.ErrNonStringName):
		b.WriteString(" [nonstr]")
	case errors.Is(err, io.ErrUnexpectedEOF):
		b.WriteString(" [ueof]")
	case errors.Is(err, errUser):
		b.WriteString(" [user]")
	case errors.Is(err, errIO):
		b.WriteString(" [io]")
	}
	b.WriteString(" msg=")
	// errors.go: errorModalVerb deliberately picks "cannot" or "unable to" once per process
	// (Hyrum-proofing); that documented per-process coin is normalised away, nothing else is.
	b.WriteString(strings.Replace(err.Error(), "json: unable to ", "json: cannot ", 1))
	return b.String()
}

// rec collects the errors one execution of a call receives from the library.  A returned error is
// a value handed back to the caller like any other: its structured fields (which may hold byte
// slices, e.g. SemanticError.JSONValue) and its text must not change afterwards.
type rec struct{ errs []error }

// E records err and renders it for the at-return result.
func (r *rec) E(err error) string {
	if r != nil && err != nil {
		r.errs = append(r.errs, err)
	}
	return errStr(err)
}

// keep extends a dump of retained data with a deep snapshot of every recorded error, both
// re-evaluated on the live values each time it is called.
func (r *rec) keep(data func() string) func() string {
	return func() string {
		var b strings.Builder
		b.WriteString(data())
		for i, err := range r.errs {
			fmt.Fprintf(&b, " err%d=", i)
			snapErr(&b, err, 0)
		}
		return b.String()
	}
}

// snapErr writes the structured fields of err and of everything it wraps, plus its text.
func snapErr(b *strings.Builder, err error, depth int) {
	if err == nil {
		b.WriteString("nil")
		return
	}
	if depth > 12 {
		b.WriteString("<chain too long>")
		return
	}
	switch e := err.(type) {
	case *json.SemanticError:
		fmt.Fprintf(b, "Sem{off=%d ptr=%q kind=%q val=%x type=%v text=%q err=", e.ByteOffset, e.JSONPointer, e.JSONKind.String(), []byte(e.JSONValue), e.GoType, normVerb(e.Error()))
		snapErr(b, e.Err, depth+1)
		b.WriteString("}")
		return
	case *jsontext.SyntacticError:
		fmt.Fprintf(b, "Syn{off=%d ptr=%q text=%q err=", e.ByteOffset, e.JSONPointer, e.Error())
		snapErr(b, e.Err, depth+1)
		b.WriteString("}")
		return
	}
	fmt.Fprintf(b, "%T{text=%q", err, normVerb(err.Error()))
	switch u := err.(type) {
	case interface{ Unwrap() error }:
		b.WriteString(" wraps=")
		snapErr(b, u.Unwrap(), depth+1)
	case interface{ Unwrap() []error }:
		for _, w := range u.Unwrap() {
			b.WriteString(" wraps=")
			snapErr(b, w, depth+1)
		}
	}
	// v1 error types carry their own fields (Offset, Value, Field, …): dump exported fields generically
	if rv := reflect.ValueOf(err); rv.Kind() == reflect.Pointer && !rv.IsNil() && rv.Elem().Kind() == reflect.Struct && rv.Elem().Type().PkgPath() != "errors" {
		st := rv.Elem()
		for i := 0; i < st.NumField(); i++ {
			f := st.Type().Field(i)
			if !f.IsExported() {
				continue
			}
			switch st.Field(i).Kind() {
			case reflect.String, reflect.Int, reflect.Int64, reflect.Bool:
				fmt.Fprintf(b, " %s=%v", f.Name, st.Field(i).Interface())
			case reflect.Slice:
				if st.Field(i).Type().Elem().Kind() == reflect.Uint8 {
					fmt.Fprintf(b, " %s=%x", f.Name, st.Field(i).Bytes())
				}
			}
		}
	}
	b.WriteString("}")
}

// normVerb removes the documented per-process "cannot"/"unable to" coin (errors.go errorModalVerb).
func normVerb(s string) string { return strings.Replace(s, "json: unable to ", "json: cannot ", 1) }

var (
	errUser = errors.New("user error")
	errIO   = errors.New("injected I/O fault")
)

// dump renders a Go value deterministically: pointers are followed (never printed), map keys
// are sorted, floats are bit patterns, byte slices are hex.
func dump(v any) string {
	var b strings.Builder
	dumpValue(&b, reflect.ValueOf(v), 0)
	return b.String()
}

func dumpValue(b *strings.Builder, v reflect.Value, depth int) {
	if !v.IsValid() {
		b.WriteString("nil")
		return
	}
	if depth > 20000 {
		b.WriteString("<too deep>")
		return
	}
	switch v.Kind() {
	case reflect.Pointer:
		if v.IsNil() {
			b.WriteString("nilptr")
			return
		}
		b.WriteString("&")
		dumpValue(b, v.Elem(), depth+1)
	case reflect.Interface:
		if v.IsNil() {
			b.WriteString("nil")
			return
		}
		dumpValue(b, v.Elem(), depth+1)
	case reflect.Bool:
		fmt.Fprintf(b, "%v", v.Bool())
	case reflect.Int, reflect.Int8, reflect.Int16, reflect.Int32, reflect.Int64:
		fmt.Fprintf(b, "i%d", v.Int())
	case reflect.Uint, reflect.Uint8, reflect.Uint16, reflect.Uint32, reflect.Uint64, reflect.Uintptr:
		fmt.Fprintf(b, "u%d", v.Uint())
	case reflect.Float32, reflect.Float64:
		fmt.Fprintf(b, "f%016x", math.Float64bits(v.Float()))
	case reflect.String:
		s := v.String()
		if len(s) > 64 {
			fmt.Fprintf(b, "s%s", full([]byte(s)))
		} else {
			fmt.Fprintf(b, "%q", s)
		}
	case reflect.Slice:
		if v.IsNil() {
			b.WriteString("nilslice")
			return
		}
		if v.Type().Elem().Kind() == reflect.Uint8 {
			bs := v.Bytes()
			if len(bs) > 64 {
				fmt.Fprintf(b, "x%s", full(bs))
			} else {
				fmt.Fprintf(b, "x%x", bs)
			}
			return
		}
		fallthrough
	case reflect.Array:
		if v.Len() > 4096 { // wide: digest of the element dumps
			h := sha256.New()
			var eb strings.Builder
			for i := 0; i < v.Len(); i++ {
				eb.Reset()
				dumpValue(&eb, v.Index(i), depth+1)
				h.Write([]byte(eb.String()))
				h.Write([]byte{0})
			}
			fmt.Fprintf(b, "[%d#%x]", v.Len(), h.Sum(nil)[:16])
			return
		}
		b.WriteString("[")
		for i := 0; i < v.Len(); i++ {
			if i > 0 {
				b.WriteString(",")
			}
			dumpValue(b, v.Index(i), depth+1)
		}
		b.WriteString("]")
	case reflect.Map:
		if v.IsNil() {
			b.WriteString("nilmap")
			return
		}
		type kv struct{ k, v string }
		var kvs []kv
		it := v.MapRange()
		if v.Len() == 1 { // no sorting needed: write through (keeps deep chains linear)
			it.Next()
			b.WriteString("map{")
			dumpValue(b, it.Key(), depth+1)
			b.WriteString(":")
			dumpValue(b, it.Value(), depth+1)
			b.WriteString("}")
			return
		}
		for it.Next() {
			var kb, vb strings.Builder
			dumpValue(&kb, it.Key(), depth+1)
			dumpValue(&vb, it.Value(), depth+1)
			kvs = append(kvs, kv{kb.String(), vb.String()})
		}
		sort.Slice(kvs, func(i, j int) bool { return kvs[i].k < kvs[j].k })
		b.WriteString("map{")
		for i, e := range kvs {
			if i > 0 {
				b.WriteString(",")
			}
			b.WriteString(e.k)
			b.WriteString(":")
			b.WriteString(e.v)
		}
		b.WriteString("}")
	case reflect.Struct:
		b.WriteString(v.Type().Name())
		b.WriteString("{")
		for i := 0; i < v.NumField(); i++ {
			if i > 0 {
				b.WriteString(",")
			}
			b.WriteString(v.Type().Field(i).Name)
			b.WriteString("=")
			dumpValue(b, v.Field(i), depth+1)
		}
		b.WriteString("}")
	default:
		fmt.Fprintf(b, "<%s>", v.Kind())
	}
}

// short digests a long dump.
func short(s string) string {
	if len(s) > 400 {
		return "dump" + full([]byte(s)) + ":" + s[:80] + "…"
	}
	return s
}

// canonUnordered re-renders a JSON text with object members sorted, using the toolchain's
// encoding/json (independent of the code under test).  Used only for results that come from
// ranging over a Go map without Deterministic(true).
func canonUnordered(b []byte) string {
	dec := stdjson.NewDecoder(strings.NewReader(string(b)))
	dec.UseNumber()
	var v any
	if err := dec.Decode(&v); err != nil {
		return "uncanon:" + dig(b)
	}
	out, err := stdjson.Marshal(v)
	if err != nil {
		return "uncanon:" + dig(b)
	}
	return "sorted:" + dig(out)
}

// scribble overwrites a buffer with garbage.
func scribble(b []byte) {
	for i := range b {
		b[i] = 0xA5 ^ byte(i*7)
	}
}
