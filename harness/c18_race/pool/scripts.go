package pool

import (
	"bytes"
	"errors"
	"fmt"
	"io"
	"strconv"
	"strings"

	"github.com/go-json-experiment/json/jsontext"
)

var ioEOF = io.EOF

// EncScript is a token-level encoder script.  Steps: `{ } [ ] null true false s:<text> i:<int>
// f:<float> v:<json value>`; a script may stop anywhere (abandoned coder) and may contain
// steps the encoder must reject.
type EncScript struct {
	Name   string
	Plain  bool // write to a plain io.Writer instead of a *bytes.Buffer
	Opts   []jsontext.Options
	Steps  []string
	FailAt int // >0: the writer fails after that many bytes
}

// DecScript is a token-level decoder script.  Steps: T ReadToken, V ReadValue, P PeekKind, S SkipValue.
type DecScript struct {
	Name   string
	Chunk  int // 0: *bytes.Buffer; >0: a reader yielding that many bytes per Read
	FailAt int // >=0 with Chunk>0: reader fails there; -1 never
	Opts   []jsontext.Options
	Input  string
	Steps  string
}

// EncSink is the destination of an encoder script.
type EncSink struct {
	W   io.Writer
	Out func() []byte
}

func (s EncScript) Sink() EncSink {
	switch {
	case s.FailAt > 0:
		w := &failWriter{n: s.FailAt}
		return EncSink{w, w.b.Bytes}
	case s.Plain:
		w := &plainWriter{}
		return EncSink{w, w.b.Bytes}
	}
	bb := new(bytes.Buffer)
	return EncSink{bb, bb.Bytes}
}

// RunEnc drives e (already constructed or Reset onto sink.W with s.Opts) through the script.
func (s EncScript) RunEnc(e *jsontext.Encoder, sink EncSink) string { return s.RunEncR(e, sink, nil) }

// RunEncR is RunEnc recording every error it receives in r (nil: not recorded).
func (s EncScript) RunEncR(e *jsontext.Encoder, sink EncSink, r *rec) string {
	var b strings.Builder
	ioSeen := false
	for _, st := range s.Steps {
		var err error
		switch {
		case st == "{":
			err = e.WriteToken(jsontext.BeginObject)
		case st == "}":
			err = e.WriteToken(jsontext.EndObject)
		case st == "[":
			err = e.WriteToken(jsontext.BeginArray)
		case st == "]":
			err = e.WriteToken(jsontext.EndArray)
		case st == "null":
			err = e.WriteToken(jsontext.Null)
		case st == "true":
			err = e.WriteToken(jsontext.True)
		case st == "false":
			err = e.WriteToken(jsontext.False)
		case st == "zero":
			err = e.WriteToken(jsontext.Token{})
		case strings.HasPrefix(st, "s:"):
			err = e.WriteToken(jsontext.String(st[2:]))
		case strings.HasPrefix(st, "i:"):
			n, _ := strconv.ParseInt(st[2:], 10, 64)
			err = e.WriteToken(jsontext.Int(n))
		case strings.HasPrefix(st, "f:"):
			f, _ := strconv.ParseFloat(st[2:], 64)
			err = e.WriteToken(jsontext.Float(f))
		case strings.HasPrefix(st, "v:"):
			err = e.WriteValue(jsontext.Value(st[2:]))
		default:
			panic("bad enc step " + st)
		}
		switch {
		case err == nil:
			b.WriteString("+")
		case s.FailAt > 0 && errors.Is(err, errIO):
			// WHICH write call reports the fault depends on the flush points, i.e. on the capacity of
			// the (deliberately kept) buffer: only "an I/O error was reported" is part of the result.
			ioSeen = true
		default:
			fmt.Fprintf(&b, "!(%s)", r.E(err))
		}
	}
	if s.FailAt > 0 {
		b.Reset()
		fmt.Fprintf(&b, "io-error-reported=%v", ioSeen)
	}
	fmt.Fprintf(&b, " off=%d depth=%d ptr=%q", e.OutputOffset(), e.StackDepth(), e.StackPointer())
	for i := 0; i < e.StackDepth() && i < 6; i++ {
		k, n := e.StackIndex(i)
		fmt.Fprintf(&b, " %s%d", k, n)
	}
	fmt.Fprintf(&b, " out=%s", dig(sink.Out()))
	return b.String()
}

func (s EncScript) Fresh() string {
	sink := s.Sink()
	return catch(func() string { return s.RunEnc(jsontext.NewEncoder(sink.W, s.Opts...), sink) })
}

func (s DecScript) Reader() io.Reader {
	if s.Chunk > 0 {
		return &chunkReader{b: []byte(s.Input), n: s.Chunk, failAt: s.FailAt}
	}
	return bytes.NewBufferString(s.Input)
}

// RunDec drives d (already constructed or Reset onto s.Reader() with s.Opts) through the script.
func (s DecScript) RunDec(d *jsontext.Decoder) string { return s.RunDecR(d, nil) }

// RunDecR is RunDec recording every error it receives in r (nil: not recorded).
func (s DecScript) RunDecR(d *jsontext.Decoder, r *rec) string {
	var b strings.Builder
	for _, st := range s.Steps {
		switch st {
		case 'T':
			tok, err := d.ReadToken()
			if err != nil {
				fmt.Fprintf(&b, "T!(%s) ", r.E(err))
			} else {
				fmt.Fprintf(&b, "T%s:%q ", tok.Kind(), trunc(tok.String(), 40))
			}
		case 'V':
			v, err := d.ReadValue()
			if err != nil {
				fmt.Fprintf(&b, "V!(%s) ", r.E(err))
			} else {
				fmt.Fprintf(&b, "V%s ", dig(v))
			}
		case 'P':
			fmt.Fprintf(&b, "P%s ", d.PeekKind())
		case 'S':
			if err := d.SkipValue(); err != nil {
				fmt.Fprintf(&b, "S!(%s) ", r.E(err))
			} else {
				b.WriteString("S+ ")
			}
		default:
			panic("bad dec step")
		}
	}
	fmt.Fprintf(&b, "off=%d depth=%d ptr=%q", d.InputOffset(), d.StackDepth(), d.StackPointer())
	for i := 0; i < d.StackDepth() && i < 6; i++ {
		k, n := d.StackIndex(i)
		fmt.Fprintf(&b, " %s%d", k, n)
	}
	return b.String()
}

func (s DecScript) Fresh() string {
	return catch(func() string { return s.RunDec(jsontext.NewDecoder(s.Reader(), s.Opts...)) })
}

func trunc(s string, n int) string {
	if len(s) <= n {
		return s
	}
	return s[:n] + "…"
}

func manyNames(n int) []string {
	steps := []string{"{"}
	for i := 0; i < n; i++ {
		steps = append(steps, fmt.Sprintf("s:name%04d", i), "i:"+strconv.Itoa(i))
	}
	return steps
}

// EncScripts: complete, abandoned and failing encoder scripts.
var EncScripts = []EncScript{
	{Name: "complete", Steps: []string{"{", "s:a", "i:1", "s:b", "[", "true", "null", "f:1.5", "]", "s:c", "v:{\"x\":[1,2]}", "}"}},
	{Name: "complete-plain-indent", Plain: true, Opts: []jsontext.Options{jsontext.WithIndent("  ")},
		Steps: []string{"[", "{", "s:a", "i:1", "}", "[", "]", "s:x", "]", "i:2", "s:top"}},
	{Name: "abandoned-object", Steps: []string{"{", "s:a", "{", "s:b", "[", "i:1"}},
	{Name: "abandoned-after-name", Plain: true, Steps: []string{"[", "{", "s:pending"}},
	{Name: "dup-name", Steps: []string{"{", "s:a", "i:1", "s:a", "s:b", "i:2", "}"}},
	{Name: "dup-allowed", Opts: []jsontext.Options{jsontext.AllowDuplicateNames(true)}, Steps: []string{"{", "s:a", "i:1", "s:a", "i:2", "}"}},
	{Name: "non-string-name", Steps: []string{"{", "i:1", "null", "s:ok", "i:1", "}"}},
	{Name: "mismatch", Steps: []string{"[", "}", "{", "]", "s:n", "}", "i:1", "}", "]", "]"}},
	{Name: "invalid-token-and-value", Steps: []string{"zero", "v:[1,,2]", "v:{\"a\":1,\"a\":2}", "v:\"\xff\"", "v:tru", "i:7"}},
	{Name: "bad-utf8", Steps: []string{"[", "s:ok", "s:bad\xff", "s:after", "]"}},
	{Name: "bad-utf8-allowed", Opts: []jsontext.Options{jsontext.AllowInvalidUTF8(true)}, Steps: []string{"[", "s:bad\xff", "]"}},
	{Name: "many-names-abandoned", Steps: manyNames(100)}, // namespace switches to a map (>64 names)
	{Name: "many-names-then-dup", Steps: append(manyNames(70), "s:name0003")},
	{Name: "deep-abandoned", Steps: strings.Split(strings.TrimSpace(strings.Repeat("[ ", 1100)), " ")},
	{Name: "io-fault", Plain: true, FailAt: 10, Steps: []string{"[", "s:0123456789abcdef", "]", "i:1", "i:2"}},
	{Name: "html-js", Opts: []jsontext.Options{jsontext.EscapeForHTML(true), jsontext.EscapeForJS(true)}, Steps: []string{"[", "s:<a&b>\u2028", "v:\"<\"", "]"}},
	{Name: "canonical-values", Opts: []jsontext.Options{jsontext.CanonicalizeRawInts(true), jsontext.CanonicalizeRawFloats(true), jsontext.ReorderRawObjects(true)},
		Steps: []string{"v:{\"b\":1.0,\"a\":[1e2,0.10]}", "v:9007199254740993"}},
}

// DecScripts: complete, abandoned and failing decoder scripts.
var DecScripts = []DecScript{
	{Name: "complete", Input: `{"a":1,"b":[true,null,1.5],"c":{"x":[1,2]}} "next"`, Steps: "TTTTTTTTTTPVTTPT"},
	{Name: "abandoned", Input: `{"a":{"b":[1,2,3]}}`, Steps: "TTTTT"},
	{Name: "abandoned-chunked", Chunk: 3, FailAt: -1, Input: `[{"name-that-is-longer-than-a-chunk":{"inner":[1,2,3]}}]`, Steps: "TTTTTP"},
	{Name: "values", Input: `[{"k":"v"},[1,2],"s",3] 4 5`, Steps: "TVVPVSTVVT"},
	{Name: "dup", Input: `{"a":1,"a":2}`, Steps: "TTTTTT"},
	{Name: "dup-allowed", Opts: []jsontext.Options{jsontext.AllowDuplicateNames(true)}, Input: `{"a":1,"a":2}`, Steps: "TTTTTT"},
	{Name: "syntax-start", Input: `x[1]`, Steps: "TPVT"},
	{Name: "syntax-middle", Input: `{"a":1,,"b":2}`, Steps: "TTTTTT"},
	{Name: "syntax-end", Input: `[1,2`, Steps: "TTTTPV"},
	{Name: "bad-utf8", Input: "[\"ok\",\"bad\xff\",\"after\"]", Steps: "TTTTT"},
	{Name: "bad-utf8-allowed", Opts: []jsontext.Options{jsontext.AllowInvalidUTF8(true)}, Input: "[\"bad\xff\"]", Steps: "TTT"},
	{Name: "truncated-string", Chunk: 2, FailAt: -1, Input: `["abc`, Steps: "TTT"},
	{Name: "io-fault", Chunk: 4, FailAt: 9, Input: `[1,2,3,4,5,6,7,8,9]`, Steps: "TTTTTTTT"},
	{Name: "deep-abandoned", Input: strings.Repeat("[", 1100), Steps: strings.Repeat("T", 1100)},
	{Name: "many-names", Input: manyNamesText(100), Steps: strings.Repeat("T", 150) + "V"},
	{Name: "value-with-dup-inside", Input: `[{"a":{"b":1,"b":2}}]`, Steps: "TVT"},
	{Name: "skip", Input: `{"a":[1,[2,[3]]],"b":{"c":null}}`, Steps: "TTSTST"},
}

func manyNamesText(n int) string {
	var b strings.Builder
	b.WriteString("{")
	for i := 0; i < n; i++ {
		if i > 0 {
			b.WriteString(",")
		}
		fmt.Fprintf(&b, `"name%04d":%d`, i, i)
	}
	b.WriteString("}")
	return b.String()
}
