package pool

import (
	"bytes"
	"errors"
	"fmt"
	"strings"
	"sync"
	"time"

	json "github.com/go-json-experiment/json"
	"github.com/go-json-experiment/json/jsontext"
)

// ---- plain data types ----------------------------------------------------------------------

type Inner struct {
	ID    int               `json:"id"`
	Tags  []string          `json:"tags,omitempty"`
	Attrs map[string]string `json:"attrs,omitempty"`
}

type Basic struct {
	Name    string         `json:"name"`
	Age     int            `json:"age"`
	Score   float64        `json:"score"`
	Ok      bool           `json:"ok"`
	Blob    []byte         `json:"blob"`
	Raw     jsontext.Value `json:"raw"`
	Inner   *Inner         `json:"inner"`
	List    []Inner        `json:"list"`
	Any     any            `json:"any"`
	Opt     *string        `json:"opt,omitempty"`
	Numbers []float64      `json:"numbers"`
	When    time.Time      `json:"when"`
}

type Nums struct {
	I8  int8    `json:"i8"`
	U64 uint64  `json:"u64"`
	F32 float32 `json:"f32"`
	F64 float64 `json:"f64"`
	M   map[int]int
}

type Strict struct {
	A int    `json:"a"`
	B string `json:"b"`
	C struct {
		D []struct {
			E int `json:"e"`
		} `json:"d"`
	} `json:"c"`
}

// Structs with an embedded fallback: the extra members live in a map / raw value (`json:",embed"`).
type RestAny struct {
	A    int            `json:"a"`
	Rest map[string]any `json:",embed"`
}

type RestInts struct {
	Z    string         `json:"z"`
	Rest map[string]int `json:",embed"`
}

type RestRaw struct {
	A    int            `json:"a"`
	Rest jsontext.Value `json:",embed"`
}

type RestNested struct {
	ID   int                       `json:"id"`
	Rest map[string]map[string]int `json:",embed"`
}

// Node is a linked list: depth grows through a struct pointer inside a JSON object.
type Node struct {
	V    int   `json:"v"`
	Next *Node `json:"next,omitempty"`
}

func basicValue() *Basic {
	s := "optional"
	return &Basic{
		Name: "Grace \"Hopper\" <&>  ", Age: 85, Score: 3.25, Ok: true,
		Blob: []byte{0, 1, 2, 250, 251, 252}, Raw: jsontext.Value(`{"z":[1, 2.50, "x"], "a" : null}`),
		Inner: &Inner{ID: 7, Tags: []string{"a", "b"}, Attrs: map[string]string{"only": "one"}},
		List:  []Inner{{ID: 1}, {ID: 2, Tags: []string{"t"}}},
		Any:   []any{1.5, "two", nil, true, map[string]any{"k": "v"}},
		Opt:   &s, Numbers: []float64{0, -0.0, 1e21, 1e-7, 123456789.125},
		When: time.Date(2024, 2, 29, 12, 30, 15, 123456789, time.UTC),
	}
}

// ---- user code: methods that succeed, fail, misbehave or panic ----------------------------

// Mode selects what a user method does.
type Mode int

const (
	MOk         Mode = iota // well-behaved
	MPanic                  // panic immediately
	MHalfPanic              // write/read half a value, then panic
	MHalfErr                // write/read half a value, then return an error
	MHalfNil                // write/read half a value, then return nil (the library must reject)
	MTwo                    // write/read two values
	MNone                   // write/read nothing, return nil
	MErr                    // return an error immediately
	MDup                    // write an object with a duplicate name
	MBadUTF8                // write a string with invalid UTF-8
	MInvalid                // MarshalJSON returns malformed JSON
	MAvailSmall             // use Encoder.AvailableBuffer for a small value
	MAvailBig               // use Encoder.AvailableBuffer for a 100 KiB value (beyond the 64 KiB keep limit)
	MUnsupported            // return errors.ErrUnsupported
	MRetain                 // UnmarshalJSON keeps (a copy of) what it saw; used for the retained-value checks
)

// ByMethod implements Marshaler/Unmarshaler (the []byte flavour).
type ByMethod struct {
	M   Mode
	Got string
}

func (x ByMethod) MarshalJSON() ([]byte, error) {
	switch x.M {
	case MPanic, MHalfPanic:
		panic(UserPanic{"MarshalJSON"})
	case MErr, MHalfErr:
		return nil, errUser
	case MInvalid:
		return []byte(`{"a":1,]`), nil
	case MDup:
		return []byte(`{"a":1,"a":2}`), nil
	case MBadUTF8:
		return []byte("\"\xff\""), nil
	case MNone:
		return nil, nil
	case MTwo:
		return []byte(`1 2`), nil
	case MUnsupported:
		return nil, errors.ErrUnsupported
	}
	return []byte(`{"by":"method","m":` + fmt.Sprint(int(x.M)) + `}`), nil
}

func (x *ByMethod) UnmarshalJSON(b []byte) error {
	switch x.M {
	case MPanic, MHalfPanic:
		panic(UserPanic{"UnmarshalJSON"})
	case MErr, MHalfErr:
		return errUser
	case MUnsupported:
		return errors.ErrUnsupported
	}
	x.Got = string(b)
	return nil
}

// ToFrom implements MarshalerTo/UnmarshalerFrom (the streaming flavour).
type ToFrom struct {
	M   Mode
	Got []string
}

var bigAvail = sync.OnceValue(func() string { return strings.Repeat("0123456789abcdef", 100<<10/16) })

func (x ToFrom) MarshalJSONTo(enc *jsontext.Encoder) error {
	switch x.M {
	case MPanic:
		panic(UserPanic{"MarshalJSONTo"})
	case MErr:
		return errUser
	case MUnsupported:
		return errors.ErrUnsupported
	case MNone:
		return nil
	case MHalfPanic, MHalfErr, MHalfNil:
		if err := enc.WriteToken(jsontext.BeginObject); err != nil {
			return err
		}
		if err := enc.WriteToken(jsontext.String("half")); err != nil {
			return err
		}
		if err := enc.WriteToken(jsontext.BeginArray); err != nil {
			return err
		}
		if err := enc.WriteToken(jsontext.Int(1)); err != nil {
			return err
		}
		switch x.M {
		case MHalfPanic:
			panic(UserPanic{"MarshalJSONTo-half"})
		case MHalfErr:
			return errUser
		}
		return nil
	case MTwo:
		if err := enc.WriteToken(jsontext.Int(1)); err != nil {
			return err
		}
		return enc.WriteToken(jsontext.Int(2))
	case MDup:
		return enc.WriteValue(jsontext.Value(`{"a":1,"b":{"c":1,"c":2}}`))
	case MBadUTF8:
		return enc.WriteToken(jsontext.String("bad\xffutf8"))
	case MInvalid:
		return enc.WriteValue(jsontext.Value(`[1,,2]`))
	case MAvailSmall, MAvailBig:
		b := enc.AvailableBuffer()
		b = append(b, '"')
		if x.M == MAvailBig {
			b = append(b, bigAvail()...)
		} else {
			b = append(b, "avail"...)
		}
		b = append(b, '"')
		return enc.WriteValue(b)
	}
	if err := enc.WriteToken(jsontext.BeginObject); err != nil {
		return err
	}
	if err := enc.WriteToken(jsontext.String("to")); err != nil {
		return err
	}
	// nested marshal with the encoder's own options
	if err := json.MarshalEncode(enc, []any{1, "x", map[string]int{"k": 1}}); err != nil {
		return err
	}
	return enc.WriteToken(jsontext.EndObject)
}

func (x *ToFrom) UnmarshalJSONFrom(dec *jsontext.Decoder) error {
	switch x.M {
	case MPanic:
		panic(UserPanic{"UnmarshalJSONFrom"})
	case MErr:
		return errUser
	case MUnsupported:
		return errors.ErrUnsupported
	case MNone:
		return nil
	case MHalfPanic, MHalfErr, MHalfNil:
		for i := 0; i < 3; i++ {
			tok, err := dec.ReadToken()
			if err != nil {
				return err
			}
			x.Got = append(x.Got, tok.Kind().String())
		}
		switch x.M {
		case MHalfPanic:
			panic(UserPanic{"UnmarshalJSONFrom-half"})
		case MHalfErr:
			return errUser
		}
		return nil
	case MTwo:
		if _, err := dec.ReadValue(); err != nil {
			return err
		}
		_, err := dec.ReadValue()
		return err
	}
	v, err := dec.ReadValue()
	if err != nil {
		return err
	}
	x.Got = append(x.Got, string(v)) // copies
	return nil
}

// Leaf behaves according to the options of the call it is used in, so that the SAME Go value
// (same pointers, relevant for the cycle tracker) can be marshaled successfully, with a user
// error, or with a user panic.
type Leaf struct{ S string }

func (l *Leaf) MarshalJSONTo(enc *jsontext.Encoder) error {
	if v, _ := json.GetOption(enc.Options(), jsontext.EscapeForHTML); v {
		panic(UserPanic{"Leaf"})
	}
	if v, _ := json.GetOption(enc.Options(), jsontext.EscapeForJS); v {
		return errUser
	}
	return enc.WriteToken(jsontext.String(l.S))
}

// TextKey is a map key type with a text method.
type TextKey struct{ A, B int }

func (k TextKey) MarshalText() ([]byte, error) { return []byte(fmt.Sprintf("%d/%d", k.A, k.B)), nil }
func (k *TextKey) UnmarshalText(b []byte) error {
	_, err := fmt.Sscanf(string(b), "%d/%d", &k.A, &k.B)
	return err
}

// ---- Marshalers / Unmarshalers option values (shared, immutable) ---------------------------

type (
	FnOK    int16
	FnPanic int16
	FnErr   int16
	FnHalf  int16
	FnSkip  int16
)

var userMarshalers = json.JoinMarshalers(
	json.MarshalFunc(func(v FnOK) ([]byte, error) { return []byte(fmt.Sprintf(`"ok%d"`, int(v))), nil }),
	json.MarshalFunc(func(v FnPanic) ([]byte, error) { panic(UserPanic{"MarshalFunc"}) }),
	json.MarshalFunc(func(v FnErr) ([]byte, error) { return nil, errUser }),
	json.MarshalToFunc(func(enc *jsontext.Encoder, v FnHalf) error {
		if err := enc.WriteToken(jsontext.BeginArray); err != nil {
			return err
		}
		if v < 0 {
			panic(UserPanic{"MarshalToFunc-half"})
		}
		return nil // leaves the array open
	}),
	json.MarshalToFunc(func(enc *jsontext.Encoder, v FnSkip) error { return errors.ErrUnsupported }),
	json.MarshalToFunc(func(enc *jsontext.Encoder, v bool) error {
		if v {
			return enc.WriteToken(jsontext.String("yes"))
		}
		return enc.WriteToken(jsontext.String("no"))
	}),
)

var userUnmarshalers = json.JoinUnmarshalers(
	json.UnmarshalFunc(func(b []byte, v *FnOK) error { *v = FnOK(len(b)); return nil }),
	json.UnmarshalFunc(func(b []byte, v *FnPanic) error { panic(UserPanic{"UnmarshalFunc"}) }),
	json.UnmarshalFunc(func(b []byte, v *FnErr) error { return errUser }),
	json.UnmarshalFromFunc(func(dec *jsontext.Decoder, v *FnHalf) error {
		tok, err := dec.ReadToken()
		if err != nil {
			return err
		}
		if tok.Kind() == '[' {
			if _, err := dec.ReadToken(); err != nil {
				return err
			}
			panic(UserPanic{"UnmarshalFromFunc-half"})
		}
		return nil
	}),
	json.UnmarshalFromFunc(func(dec *jsontext.Decoder, v *FnSkip) error { return errors.ErrUnsupported }),
)

// ---- writers / readers -----------------------------------------------------------------------

// plainWriter hides the concrete type so that the streaming (not the bytes.Buffer) pool is used.
type plainWriter struct{ b bytes.Buffer }

func (w *plainWriter) Write(p []byte) (int, error) { return w.b.Write(p) }

// failWriter fails after n bytes.
type failWriter struct {
	n int
	b bytes.Buffer
}

func (w *failWriter) Write(p []byte) (int, error) {
	if w.b.Len()+len(p) > w.n {
		k := w.n - w.b.Len()
		if k < 0 {
			k = 0
		}
		w.b.Write(p[:k])
		return k, errIO
	}
	return w.b.Write(p)
}

// chunkReader yields at most n bytes per Read and can fail after `failAt` bytes.
type chunkReader struct {
	b      []byte
	n      int
	pos    int
	failAt int // -1: never
}

func (r *chunkReader) Read(p []byte) (int, error) {
	if r.failAt >= 0 && r.pos >= r.failAt {
		return 0, errIO
	}
	if r.pos >= len(r.b) {
		return 0, ioEOF
	}
	k := len(p)
	if k > r.n {
		k = r.n
	}
	if k > len(r.b)-r.pos {
		k = len(r.b) - r.pos
	}
	if r.failAt >= 0 && r.pos+k > r.failAt {
		k = r.failAt - r.pos
	}
	copy(p, r.b[r.pos:r.pos+k])
	r.pos += k
	return k, nil
}
