package pool

import (
	"bytes"
	"fmt"
	"math/rand/v2"
	"strings"
	"sync"
	"sync/atomic"

	json "github.com/go-json-experiment/json"
	"github.com/go-json-experiment/json/jsontext"
	jsonv1 "github.com/go-json-experiment/json/v1"
)

type O = json.Options

func opts(o ...O) []O { return o }

// ---- shared, immutable inputs (built once; concurrent calls only read them) -----------------

func once[T any](f func() T) func() T { return sync.OnceValue(f) }

// lz adapts a lazily built shared input to the `func() any` the call constructors take.
func lz[T any](f func() T) func() any { return func() any { return f() } }

var (
	bigString = once(func() string {
		return strings.Repeat("The quick brown fox <jumps> over the lazy dog & \"friends\" \u2028 ", 1<<20/60+1) // ≈1 MiB
	})
	wideInts = once(func() []int {
		s := make([]int, 150_000)
		for i := range s {
			s[i] = i*7919 - 500_000
		}
		return s
	})
	wideStrings = once(func() []string {
		s := make([]string, 40_000)
		for i := range s {
			s[i] = fmt.Sprintf("element-%06d-%s", i, strings.Repeat("x", i%40))
		}
		return s
	})
	bigStringText  = once(func() []byte { return mustMarshal(bigString()) })
	wideIntsText   = once(func() []byte { return mustMarshal(wideInts()) })
	wideStringText = once(func() []byte { return mustMarshal(wideStrings()) })
	bigObjectText  = once(func() []byte {
		var b bytes.Buffer
		b.WriteString("{")
		for i := 0; i < 10_000; i++ {
			if i > 0 {
				b.WriteString(", ")
			}
			fmt.Fprintf(&b, `"member-%05d": {"id": %d, "tags": ["a", "b"], "ratio": %d.5}`, i, i, i)
		}
		b.WriteString("}")
		return b.Bytes()
	})
	bigObjectTruncated = once(func() []byte { t := bigObjectText(); return t[:len(t)-7] })

	deepSliceOK    = once(func() any { return deepSlice(1500, "leaf") })
	deepSliceLeaf  = once(func() any { return deepSlice(1300, &Leaf{"shared-leaf"}) })
	deepMapLeaf    = once(func() any { return deepMap(1200, &Leaf{"shared-map-leaf"}) })
	deepListOK     = once(func() any { return deepList(1200) })
	deepSliceMax   = once(func() any { return deepSlice(10_001, 1) })
	deepSliceLimit = once(func() any { return deepSlice(9_999, 1) }) // value at depth 10000
	cycSlice       = once(func() any { s := make([]any, 1); s[0] = s; return s })
	cycMap         = once(func() any { m := map[string]any{}; m["self"] = m; return m })
	cycList        = once(func() any { n := &Node{V: 1}; n.Next = &Node{V: 2, Next: n}; return n })
	cycMixed       = once(func() any {
		m := map[string]any{}
		s := []any{m}
		m["s"] = s
		return &struct{ Root any }{s}
	})
	deepArrayText    = once(func() []byte { return []byte(strings.Repeat("[", 1100) + strings.Repeat("]", 1100)) })
	deepObjectText   = once(func() []byte { return []byte(strings.Repeat(`{"k":`, 1200) + "null" + strings.Repeat("}", 1200)) })
	depth10000Text   = once(func() []byte { return []byte(strings.Repeat("[", 10_000) + strings.Repeat("]", 10_000)) })
	depth10001Text   = once(func() []byte { return []byte(strings.Repeat("[", 10_001) + strings.Repeat("]", 10_001)) })
	internCollideDoc = once(internDoc)
	internManyDoc    = once(internMany)
	manyMembersText  = once(func() []byte { return manyMembers(1500) })
)

func mustMarshal(v any) []byte {
	b, err := json.Marshal(v)
	if err != nil {
		panic(err)
	}
	return b
}

func deepSlice(n int, leaf any) any {
	v := leaf
	for i := 0; i < n; i++ {
		v = []any{v}
	}
	return v
}

func deepMap(n int, leaf any) any {
	v := leaf
	for i := 0; i < n; i++ {
		v = map[string]any{"k": v}
	}
	return v
}

func deepList(n int) *Node {
	var head *Node
	for i := n; i > 0; i-- {
		head = &Node{V: i, Next: head}
	}
	return head
}

// InternFamily returns strings that all fall into the same slot of makeString's 256-entry
// cache: the hash only looks at the first and last 8 (4, 2) bytes.
func InternFamily() []string {
	var fam []string
	for _, mid := range []string{"", "a", "b", "ab", "ba", "-----", strings.Repeat("m", 200), strings.Repeat("n", 200)} {
		fam = append(fam, "PREFIX__"+mid+"__SUFFIX")
	}
	for n := 2; n <= 40; n++ { // runs of one letter: equal prefix/suffix windows in each length class
		fam = append(fam, strings.Repeat("a", n))
	}
	return fam
}

func internDoc() []byte {
	fam := InternFamily()
	var b bytes.Buffer
	b.WriteString("[")
	for round := 0; round < 6; round++ {
		for i, s := range fam {
			if round+i > 0 {
				b.WriteString(",")
			}
			t := fam[(i*7+round)%len(fam)]
			fmt.Fprintf(&b, `{%q:%q,%q:[%q,%q]}`, s, t, t+"!", s, t)
		}
	}
	b.WriteString("]")
	return b.Bytes()
}

func internMany() []byte {
	var b bytes.Buffer
	b.WriteString("[")
	for round := 0; round < 3; round++ {
		if round > 0 {
			b.WriteString(",")
		}
		b.WriteString("{")
		for i := 0; i < 3000; i++ {
			if i > 0 {
				b.WriteString(",")
			}
			fmt.Fprintf(&b, `"k%d":"v%d"`, i, (i*31+round)%3000)
		}
		b.WriteString("}")
	}
	b.WriteString("]")
	return b.Bytes()
}

// ---- call constructors ---------------------------------------------------------------------------

func marshalCall(name, kind string, unordered bool, v func() any, o ...O) Call {
	return Call{Name: name, Kind: kind, Unordered: unordered, Run: func() Out {
		r := new(rec) // every error this execution receives is a retained result
		var out []byte
		res := catch(func() string {
			b, err := json.Marshal(v(), o...)
			out = b
			if unordered {
				return canonUnordered(b) + " " + r.E(err)
			}
			return dig(b) + " " + r.E(err)
		})
		return Out{Res: res, Keep: r.keep(func() string { return full(out) })}
	}}
}

func fixed(v any) func() any { return func() any { return v } }

const (
	wBuffer = iota
	wPlain
	wFail
)

func marshalWriteCall(name, kind string, wkind, failAt int, v func() any, o ...O) Call {
	return Call{Name: name, Kind: kind, Run: func() Out {
		r := new(rec) // every error this execution receives is a retained result
		var get func() []byte
		res := catch(func() string {
			var err error
			switch wkind {
			case wBuffer:
				bb := new(bytes.Buffer)
				bb.WriteString("prefix:")
				get = bb.Bytes
				err = json.MarshalWrite(bb, v(), o...)
			case wPlain:
				w := &plainWriter{}
				get = w.b.Bytes
				err = json.MarshalWrite(w, v(), o...)
			default:
				w := &failWriter{n: failAt}
				get = w.b.Bytes
				err = json.MarshalWrite(w, v(), o...)
			}
			if err != nil && wkind == wPlain {
				// How much reached the writer before a failure depends on the capacity of the pooled
				// buffer (flush points), which no caller can rely on: only the error is compared.
				return fmt.Sprintf("partial(%v) ", len(get()) > 0) + r.E(err)
			}
			return dig(get()) + " " + r.E(err)
		})
		return Out{Res: res, Keep: r.keep(func() string {
			if get == nil {
				return ""
			}
			return full(get())
		})}
	}}
}

func unmarshalCall(name, kind string, text any, mk func() any, o ...O) Call {
	return Call{Name: name, Kind: kind, Run: func() Out {
		r := new(rec) // every error this execution receives is a retained result
		in := bytes.Clone(textOf(text))
		target := mk()
		res := catch(func() string {
			err := json.Unmarshal(in, target, o...)
			return short(dump(target)) + " " + r.E(err)
		})
		return Out{Res: res, Keep: r.keep(func() string { return short(dump(target)) }), Scribble: func() { scribble(in) }}
	}}
}

func unmarshalReadCall(name, kind string, text any, chunk, failAt int, mk func() any, o ...O) Call {
	return Call{Name: name, Kind: kind, Run: func() Out {
		r := new(rec) // every error this execution receives is a retained result
		in := bytes.Clone(textOf(text))
		target := mk()
		res := catch(func() string {
			var err error
			if chunk == 0 {
				err = json.UnmarshalRead(bytes.NewBuffer(in), target, o...)
			} else {
				err = json.UnmarshalRead(&chunkReader{b: in, n: chunk, failAt: failAt}, target, o...)
			}
			return short(dump(target)) + " " + r.E(err)
		})
		return Out{Res: res, Keep: r.keep(func() string { return short(dump(target)) }), Scribble: func() { scribble(in) }}
	}}
}

// textOf resolves an input text given literally or as a lazily built shared input.
func textOf(t any) []byte {
	switch x := t.(type) {
	case []byte:
		return x
	case func() []byte:
		return x()
	}
	panic("bad text")
}

func newT[T any]() func() any { return func() any { return new(T) } }

type fmtOp int

const (
	fCompact fmtOp = iota
	fIndent
	fCanon
	fFormat
	fAppend
)

func formatCall(name string, op fmtOp, textSrc any, o ...O) Call {
	return Call{Name: name, Kind: "format", Run: func() Out {
		r := new(rec) // every error this execution receives is a retained result
		text := textOf(textSrc)
		src := bytes.Clone(text)
		v := jsontext.Value(bytes.Clone(text))
		var out []byte
		res := catch(func() string {
			var err error
			switch op {
			case fCompact:
				err = v.Compact(o...)
				out = v
			case fIndent:
				err = v.Indent(o...)
				out = v
			case fCanon:
				err = v.Canonicalize(o...)
				out = v
			case fFormat:
				err = v.Format(o...)
				out = v
			case fAppend:
				out, err = jsontext.AppendFormat([]byte("dst:"), src, o...)
			}
			return dig(out) + " " + r.E(err) + fmt.Sprintf(" valid=%v kind=%s", jsontext.Value(text).IsValid(o...), jsontext.Value(text).Kind())
		})
		return Out{Res: res, Keep: r.keep(func() string { return full(out) }), Scribble: func() { scribble(src) }}
	}}
}

func encScriptCall(s EncScript) Call {
	return Call{Name: "enc-script/" + s.Name, Kind: "coder", Run: func() Out {
		r := new(rec) // every error this execution receives is a retained result
		sink := s.Sink()
		res := catch(func() string { return s.RunEncR(jsontext.NewEncoder(sink.W, s.Opts...), sink, r) })
		return Out{Res: res, Keep: r.keep(func() string { return full(sink.Out()) })}
	}}
}

func decScriptCall(s DecScript) Call {
	return Call{Name: "dec-script/" + s.Name, Kind: "coder", Run: func() Out {
		r := new(rec) // every error this execution receives is a retained result
		res := catch(func() string { return s.RunDecR(jsontext.NewDecoder(s.Reader(), s.Opts...), r) })
		return Out{Res: res, Keep: r.keep(func() string { return "" })}
	}}
}

var orderSeed atomic.Uint64

// shuffledMap builds the same map contents with a different insertion history on every call
// (order, plus extra members that are inserted and deleted again).
func shuffledMap(n int) map[string]any {
	r := rand.New(rand.NewPCG(orderSeed.Add(1), 99))
	idx := r.Perm(n)
	m := map[string]any{}
	for _, i := range idx {
		if r.IntN(3) == 0 {
			m[fmt.Sprintf("tmp%d", i)] = i
		}
		switch i % 3 {
		case 0:
			m[fmt.Sprintf("key-%03d", i)] = float64(i)
		case 1:
			m[fmt.Sprintf("\u00e9-%03d", i)] = fmt.Sprintf("v%d", i)
		default:
			m[fmt.Sprintf("\U0001F600%03d", i)] = map[string]any{"b": i, "a": []any{i, "x"}, "\uffff": nil, "\U00010000": 1}
		}
	}
	for k := range m {
		if strings.HasPrefix(k, "tmp") {
			delete(m, k)
		}
	}
	return m
}

func shuffledIntMap(n int) map[int]TextKey {
	r := rand.New(rand.NewPCG(orderSeed.Add(1), 7))
	m := map[int]TextKey{}
	for _, i := range r.Perm(n) {
		m[i*37-500] = TextKey{i, -i}
	}
	return m
}

func shuffledTextKeyMap(n int) map[TextKey]int {
	r := rand.New(rand.NewPCG(orderSeed.Add(1), 8))
	m := map[TextKey]int{}
	for _, i := range r.Perm(n) {
		m[TextKey{i % 7, i}] = i
	}
	return m
}

// Build returns the pool.  The order and contents are fixed (no randomness): index i means the
// same call in every process.
func Build() []Call {
	var cs []Call
	add := func(c ...Call) { cs = append(cs, c...) }
	v1 := jsonv1.DefaultOptionsV1()

	// ---- Marshal: assorted values x options
	add(
		marshalCall("marshal/basic", "marshal", false, func() any { return basicValue() }),
		marshalCall("marshal/basic-det", "det", false, func() any { return basicValue() }, json.Deterministic(true)),
		marshalCall("marshal/basic-indent", "marshal", false, func() any { return basicValue() }, jsontext.WithIndent("\t"), jsontext.WithIndentPrefix(" \t")),
		marshalCall("marshal/basic-multiline-spaces", "marshal", false, func() any { return basicValue() }, jsontext.Multiline(true), jsontext.SpaceAfterColon(false)),
		marshalCall("marshal/basic-html-js", "marshal", false, func() any { return basicValue() }, jsontext.EscapeForHTML(true), jsontext.EscapeForJS(true)),
		marshalCall("marshal/basic-v1", "marshal", false, func() any { return basicValue() }, v1),
		marshalCall("marshal/basic-canonical-raw", "marshal", false, func() any { return basicValue() }, jsontext.CanonicalizeRawFloats(true), jsontext.ReorderRawObjects(true), json.OmitZeroStructFields(true)),
		marshalCall("marshal/nums-stringify", "marshal", false, fixed(Nums{I8: -128, U64: 1<<64 - 1, F32: 0.1, F64: 1e300}), json.StringifyNumbers(true), json.FormatNilMapAsNull(true)),
		marshalCall("marshal/nums-plain", "marshal", false, fixed(Nums{I8: 127, U64: 1 << 63, F32: 16777216, F64: -1e-300, M: map[int]int{5: 6}})),
		marshalCall("marshal/invalid-utf8-rejected", "marshal", false, fixed([]string{"fine", "bad\xff\xfe", "never"})),
		marshalCall("marshal/invalid-utf8-allowed", "marshal", false, fixed([]string{"fine", "bad\xff\xfe", "after"}), jsontext.AllowInvalidUTF8(true)),
		marshalCall("marshal/invalid-utf8-v1", "marshal", false, fixed(map[string]string{"k\xff": "v\xfe"}), v1),
		marshalCall("marshal/nil-slices-v2", "marshal", false, fixed(struct {
			S []int
			M map[string]int
			P *int
		}{})),
		marshalCall("marshal/nil-slices-null", "marshal", false, fixed(struct {
			S []int
			M map[string]int
			P *int
		}{}), json.FormatNilSliceAsNull(true), json.FormatNilMapAsNull(true)),
		marshalCall("marshal/nan-error", "marshal", false, fixed([]any{1.0, "x", []float64{2, nan()}})),
		marshalCall("marshal/chan-error-deep-inside", "marshal", false, fixed([]any{1, []any{2, struct{ C chan int }{make(chan int)}}, 3})),
		marshalCall("marshal/func-error-top", "marshal", false, fixed(func() {})),
		marshalCall("marshal/nil", "marshal", false, fixed(nil)),
		marshalCall("marshal/map-unordered", "marshal", true, func() any { return shuffledMap(40) }),
		marshalCall("marshal/map-unordered-indent", "marshal", true, func() any { return shuffledMap(9) }, jsontext.WithIndent(" ")),
		marshalCall("marshal/map-deterministic", "det", false, func() any { return shuffledMap(40) }, json.Deterministic(true)),
		marshalCall("marshal/map-deterministic-large", "det", false, func() any { return shuffledMap(700) }, json.Deterministic(true), jsontext.WithIndent("  ")),
		marshalCall("marshal/map-deterministic-intkeys", "det", false, func() any { return shuffledIntMap(100) }, json.Deterministic(true)),
		marshalCall("marshal/map-deterministic-textkeys", "det", false, func() any { return shuffledTextKeyMap(60) }, json.Deterministic(true)),
		marshalCall("marshal/map-v1-sorted", "det", false, func() any { return shuffledMap(25) }, v1),
		marshalCall("marshal/map-dup-keys-error", "marshal", false, fixed(map[TextKeyDup]int{{1}: 1, {2}: 1}), json.Deterministic(true)),
	)
	// ---- embedded fallback maps (their sorted-names scratch slice comes from the same process-wide
	// pool as that of every Deterministic map marshal) and nested string-keyed maps under Deterministic
	restAny := func() any {
		return RestAny{A: 1, Rest: map[string]any{"x": 1, "b": "two", "m": map[string]any{"k2": 2, "k1": 1}, "c": nil, "zz": []any{1}}}
	}
	nestedAny := func() any {
		return map[string]any{
			"alpha": map[string]any{"a2": 2, "a1": 1, "a3": map[string]any{"deep2": "y", "deep1": "x"}},
			"beta":  1, "gamma": map[string]any{"g1": true, "g2": false}, "delta": "d", "epsilon": map[string]any{"e": nil, "f": 1.5},
			"zeta": []any{map[string]any{"q": 1, "p": 2}}, "eta": 7, "theta": 8,
		}
	}
	nestedTyped := func() any {
		return map[string]map[string]int{
			"one": {"b": 2, "a": 1, "c": 3}, "two": {"y": 25, "x": 24}, "three": {"only": 1}, "four": {"m": 1, "n": 2, "o": 3, "p": 4}, "five": {},
		}
	}
	add(
		marshalCall("embed/rest-any-det", "det", false, restAny, json.Deterministic(true)),
		marshalCall("embed/rest-any-unordered", "marshal", true, restAny),
		marshalCall("embed/rest-any-v1", "det", false, restAny, v1),
		marshalCall("embed/rest-ints-det", "det", false, func() any {
			return &RestInts{Z: "z", Rest: map[string]int{"b": 2, "a": 1, "c": 3}}
		}, json.Deterministic(true)),
		marshalCall("embed/rest-ints-two-det-indent", "det", false, func() any {
			return []RestInts{{Z: "1", Rest: map[string]int{"q": 1, "p": 2}}, {Z: "2", Rest: map[string]int{"only": 1}}, {Z: "3", Rest: map[string]int{"t": 1, "s": 2, "r": 3, "u": 4}}}
		}, json.Deterministic(true), jsontext.WithIndent(" ")),
		marshalCall("embed/rest-raw-det", "det", false, fixed(RestRaw{A: 1, Rest: jsontext.Value(`{"y":1,"x":{"b":2,"a":1}}`)}), json.Deterministic(true)),
		marshalCall("embed/rest-nested-det", "det", false, func() any {
			return RestNested{ID: 9, Rest: map[string]map[string]int{"n2": {"b": 1, "a": 2}, "n1": {"z": 26, "y": 25, "x": 24}, "n3": {}}}
		}, json.Deterministic(true)),
		marshalCall("embed/rest-dup-with-field-error-det", "det", false, fixed(RestInts{Z: "z", Rest: map[string]int{"a": 1, "z": 2}}), json.Deterministic(true)),
		marshalCall("embed/rest-error-inside-det", "det", false, fixed(RestAny{A: 1, Rest: map[string]any{"k1": 1, "k2": make(chan int), "k3": 3}}), json.Deterministic(true)),
		marshalCall("embed/rest-panic-inside-det", "det", false, fixed(RestAny{A: 1, Rest: map[string]any{"k1": 1, "k2": ByMethod{M: MPanic}, "k3": 3}}), json.Deterministic(true)),
		marshalCall("nested/any-det", "det", false, nestedAny, json.Deterministic(true)),
		marshalCall("nested/any-det-indent", "det", false, nestedAny, json.Deterministic(true), jsontext.WithIndent("\t")),
		marshalCall("nested/any-v1", "det", false, nestedAny, v1),
		marshalCall("nested/typed-det", "det", false, nestedTyped, json.Deterministic(true)),
		marshalCall("nested/typed-unordered", "marshal", true, nestedTyped),
		marshalCall("nested/struct-of-maps-det", "det", false, func() any {
			return struct {
				M1 map[string]any
				M2 map[string]map[string]int
				R  RestAny
			}{nestedAny().(map[string]any), nestedTyped().(map[string]map[string]int), restAny().(RestAny)}
		}, json.Deterministic(true)),
		marshalWriteCall("nested/any-det-marshalwrite", "det", wPlain, 0, nestedAny, json.Deterministic(true)),
		marshalCall("nested/any-det-error-inside", "det", false, func() any {
			m := nestedAny().(map[string]any)
			m["alpha"].(map[string]any)["a3"].(map[string]any)["deep1"] = make(chan int)
			return m
		}, json.Deterministic(true)),
		unmarshalCall("embed/unmarshal-rest-any", "unmarshal", []byte(`{"a":1,"x":{"k":[1,2]},"y":"s","a2":null}`), newT[RestAny]()),
		unmarshalCall("embed/unmarshal-rest-raw", "unmarshal", []byte(`{"x":{"k":[1,2]},"a":1,"y":"s"}`), newT[RestRaw]()),
	)
	add(Call{Name: "marshal/v1.Marshal", Kind: "marshal", Run: func() Out {
		r := new(rec) // every error this execution receives is a retained result
		var out []byte
		res := catch(func() string {
			b, err := jsonv1.Marshal(basicValue())
			out = b
			return dig(b) + " " + r.E(err)
		})
		return Out{Res: res, Keep: r.keep(func() string { return full(out) })}
	}})
	add(Call{Name: "marshal/v1.MarshalIndent", Kind: "marshal", Run: func() Out {
		r := new(rec) // every error this execution receives is a retained result
		var out []byte
		res := catch(func() string {
			b, err := jsonv1.MarshalIndent(map[string]any{"b": []int{1, 2}, "a": map[string]any{}}, "#", "--")
			out = b
			return dig(b) + " " + r.E(err)
		})
		return Out{Res: res, Keep: r.keep(func() string { return full(out) })}
	}})

	// ---- MarshalWrite / MarshalEncode
	add(
		marshalWriteCall("marshalwrite/buffer", "marshal", wBuffer, 0, func() any { return basicValue() }),
		marshalWriteCall("marshalwrite/plain-indent", "marshal", wPlain, 0, func() any { return basicValue() }, jsontext.WithIndent("    ")),
		marshalWriteCall("marshalwrite/io-fault-early", "marshal", wFail, 5, func() any { return wideStrings()[:400] }),
		marshalWriteCall("marshalwrite/io-fault-late", "marshal", wFail, 9000, func() any { return wideStrings()[:400] }),
		marshalWriteCall("marshalwrite/error-after-flush", "marshal", wPlain, 0, func() any { return []any{wideStrings()[:500], make(chan int)} }),
	)
	add(Call{Name: "marshalencode/stream-in-open-array", Kind: "coder", Run: func() Out {
		r := new(rec) // every error this execution receives is a retained result
		bb := new(bytes.Buffer)
		res := catch(func() string {
			enc := jsontext.NewEncoder(bb, jsontext.WithIndent(" "))
			var errs []string
			errs = append(errs, r.E(enc.WriteToken(jsontext.BeginArray)))
			errs = append(errs, r.E(json.MarshalEncode(enc, basicValue().Inner)))
			errs = append(errs, r.E(json.MarshalEncode(enc, map[string]any{"c": make(chan int)})))                 // fails inside
			errs = append(errs, r.E(json.MarshalEncode(enc, []int{1, 2}, jsontext.WithIndent("\t"))))              // changing whitespace: rejected
			errs = append(errs, r.E(json.MarshalEncode(enc, Nums{I8: 1}, json.StringifyNumbers(true))))            // scoped option
			errs = append(errs, r.E(json.MarshalEncode(enc, Nums{I8: 2})))                                         // option gone again
			errs = append(errs, r.E(enc.WriteToken(jsontext.EndArray)))
			return strings.Join(errs, "|") + fmt.Sprintf(" off=%d out=%s", enc.OutputOffset(), dig(bb.Bytes()))
		})
		return Out{Res: res, Keep: r.keep(func() string { return full(bb.Bytes()) })}
	}})

	// ---- user marshal code: errors, misbehaviour, panics at various points
	for _, m := range []Mode{MOk, MPanic, MErr, MInvalid, MDup, MBadUTF8, MNone, MTwo, MUnsupported} {
		m := m
		add(marshalCall(fmt.Sprintf("user/MarshalJSON-mode%d", m), "user", false, func() any { return []any{1, ByMethod{M: m}, "after"} }))
	}
	for _, m := range []Mode{MOk, MPanic, MErr, MHalfPanic, MHalfErr, MHalfNil, MTwo, MNone, MDup, MBadUTF8, MInvalid, MAvailSmall, MAvailBig, MUnsupported} {
		m := m
		add(marshalCall(fmt.Sprintf("user/MarshalJSONTo-mode%d", m), "user", false, func() any {
			return map[string]any{"first": []any{ToFrom{M: MOk}, ToFrom{M: m}}}
		}, json.Deterministic(true)))
	}
	add(
		marshalCall("user/MarshalJSONTo-dup-allowed", "user", false, fixed(ToFrom{M: MDup}), jsontext.AllowDuplicateNames(true)),
		marshalCall("user/MarshalJSONTo-half-panic-top", "user", false, fixed(ToFrom{M: MHalfPanic})),
		marshalCall("user/MarshalJSONTo-half-panic-v1", "user", false, fixed([]ToFrom{{M: MOk}, {M: MHalfPanic}}), v1),
		marshalCall("user/MarshalJSONTo-half-err-indent", "user", false, fixed([]ToFrom{{M: MOk}, {M: MHalfErr}}), jsontext.WithIndent("  ")),
		marshalCall("user/funcs-ok", "user", false, fixed([]any{FnOK(3), true, false, FnSkip(9)}), json.WithMarshalers(userMarshalers)),
		marshalCall("user/funcs-panic", "user", false, fixed([]any{FnOK(3), FnPanic(1)}), json.WithMarshalers(userMarshalers)),
		marshalCall("user/funcs-err", "user", false, fixed(map[string]any{"a": FnErr(1)}), json.WithMarshalers(userMarshalers)),
		marshalCall("user/funcs-half-open", "user", false, fixed([]any{FnHalf(1), 2}), json.WithMarshalers(userMarshalers)),
		marshalCall("user/funcs-half-panic", "user", false, fixed([]any{[]any{FnHalf(-1)}, 2}), json.WithMarshalers(userMarshalers)),
		marshalCall("user/funcs-not-applied-without-option", "user", false, fixed([]any{FnOK(3), true, FnPanic(1)})),
	)
	add(Call{Name: "user/marshalwrite-half-panic-plain", Kind: "user", Run: func() Out {
		r := new(rec) // every error this execution receives is a retained result
		w := &plainWriter{}
		res := catch(func() string {
			err := json.MarshalWrite(w, []any{wideStrings()[:300], ToFrom{M: MHalfPanic}})
			return r.E(err)
		})
		// the amount flushed before the panic depends on pooled buffer capacity: not part of the result
		return Out{Res: res, Keep: r.keep(func() string { return full(w.b.Bytes()) })}
	}})

	// ---- large documents (grow every pooled buffer beyond its keep limit)
	add(
		withHeavy(marshalCall("big/marshal-1MiB-string", "big", false, lz(bigString))),
		withHeavy(marshalCall("big/marshal-1MiB-string-html", "big", false, lz(bigString), jsontext.EscapeForHTML(true), jsontext.EscapeForJS(true))),
		withHeavy(marshalCall("big/marshal-wide-ints", "big", false, lz(wideInts))),
		withHeavy(marshalCall("big/marshal-wide-strings-indent", "big", false, lz(wideStrings), jsontext.WithIndent("  "))),
		withHeavy(marshalWriteCall("big/marshalwrite-plain-wide-strings", "big", wPlain, 0, lz(wideStrings))),
		withHeavy(marshalWriteCall("big/marshalwrite-buffer-1MiB-string", "big", wBuffer, 0, lz(bigString))),
		withHeavy(marshalCall("big/marshal-then-error-at-end", "big", false, func() any { return []any{wideStrings(), make(chan int)} })),
		withHeavy(marshalCall("big/marshal-then-panic-at-end", "big", false, func() any { return []any{wideStrings(), ByMethod{M: MPanic}} })),
		withHeavy(unmarshalCall("big/unmarshal-1MiB-string-any", "big", bigStringText, newT[any]())),
		withHeavy(unmarshalCall("big/unmarshal-wide-ints", "big", wideIntsText, newT[[]int]())),
		withHeavy(unmarshalCall("big/unmarshal-wide-strings-any", "big", wideStringText, newT[any]())),
		withHeavy(unmarshalCall("big/unmarshal-big-object-map", "big", bigObjectText, newT[map[string]Inner2]())),
		withHeavy(unmarshalCall("big/unmarshal-big-object-truncated", "big", bigObjectTruncated, newT[any]())),
		withHeavy(unmarshalReadCall("big/unmarshalread-chunked-wide-strings", "big", wideStringText, 4096, -1, newT[[]string]())),
		withHeavy(unmarshalReadCall("big/unmarshalread-buffer-big-object", "big", bigObjectText, 0, -1, newT[jsontext.Value]())),
		withHeavy(unmarshalReadCall("big/unmarshalread-io-fault-late", "big", wideStringText, 8192, 900_000, newT[any]())),
		withHeavy(formatCall("big/canonicalize-big-object", fCanon, bigObjectText)),
		withHeavy(formatCall("big/indent-wide-ints", fIndent, wideIntsText)),
		withHeavy(formatCall("big/appendformat-1MiB-string", fAppend, bigStringText, jsontext.EscapeForHTML(true))),
	)

	// ---- deep values: cycle tracking active (depth > 1000), depth limit, cycles
	add(
		marshalCall("deep/slice-1500", "deep", false, lz(deepSliceOK)),
		marshalCall("deep/slice-1300-shared-leaf-ok", "deep", false, lz(deepSliceLeaf)),
		marshalCall("deep/slice-1300-shared-leaf-panic", "deep", false, lz(deepSliceLeaf), jsontext.EscapeForHTML(true)),
		marshalCall("deep/slice-1300-shared-leaf-error", "deep", false, lz(deepSliceLeaf), jsontext.EscapeForJS(true)),
		marshalCall("deep/map-1200-shared-leaf-ok", "deep", false, lz(deepMapLeaf)),
		marshalCall("deep/map-1200-shared-leaf-panic", "deep", false, lz(deepMapLeaf), jsontext.EscapeForHTML(true)),
		marshalCall("deep/map-1200-shared-leaf-error", "deep", false, lz(deepMapLeaf), jsontext.EscapeForJS(true), json.Deterministic(true)),
		marshalCall("deep/list-1200", "deep", false, lz(deepListOK)),
		marshalWriteCall("deep/list-1200-write-fault", "deep", wFail, 12_000, lz(deepListOK)),
		withHeavy(marshalCall("deep/slice-10001-max-depth", "deep", false, lz(deepSliceMax))),
		withHeavy(marshalCall("deep/slice-10000-ok", "deep", false, lz(deepSliceLimit))),
		marshalCall("cycle/slice", "cycle", false, lz(cycSlice)),
		marshalCall("cycle/map", "cycle", false, lz(cycMap)),
		marshalCall("cycle/list", "cycle", false, lz(cycList)),
		marshalCall("cycle/mixed-v1", "cycle", false, lz(cycMixed), v1),
		unmarshalCall("deep/unmarshal-array-1100", "deep", deepArrayText, newT[any]()),
		unmarshalCall("deep/unmarshal-object-1200", "deep", deepObjectText, newT[map[string]any]()),
		withHeavy(unmarshalCall("deep/unmarshal-depth-10000", "deep", depth10000Text, newT[any]())),
		withHeavy(unmarshalCall("deep/unmarshal-depth-10001", "deep", depth10001Text, newT[any]())),
		withHeavy(formatCall("deep/compact-depth-10001", fCompact, depth10001Text)),
		formatCall("deep/indent-array-1100", fIndent, deepArrayText),
	)

	// ---- Unmarshal: valid texts, and failures at every stage
	valid := []byte(` {"name":"Ada \u004c\ud83d\ude00","age":36,"score":-1.5e2,"ok":true,"blob":"AAEC+vv8","raw": {"z" : [1, 2.50] } ,
		"inner":{"id":7,"tags":["a","b"],"attrs":{"k1":"v1","k2":"v2"}},"list":[{"id":1},{"id":2,"tags":[]}],
		"any":[1.5,"two",null,true,{"k":"v"}],"opt":"o","numbers":[0,-0,1e21,1E-7,123456789.125],"when":"2024-02-29T12:30:15.123456789Z","dur":"1h30m30s"} `)
	add(
		unmarshalCall("unmarshal/basic-struct", "unmarshal", valid, newT[Basic]()),
		unmarshalCall("unmarshal/basic-any", "unmarshal", valid, newT[any]()),
		unmarshalCall("unmarshal/basic-map", "unmarshal", valid, newT[map[string]any]()),
		unmarshalCall("unmarshal/basic-rawvalue", "unmarshal", valid, newT[jsontext.Value]()),
		unmarshalCall("unmarshal/basic-v1", "unmarshal", valid, newT[Basic](), v1),
		unmarshalCall("unmarshal/case-insensitive", "unmarshal", []byte(`{"NAME":"x","Age":1,"unknown":[1,{"a":2}]}`), newT[Basic](), json.MatchCaseInsensitiveNames(true)),
		unmarshalCall("unmarshal/reject-unknown", "unmarshal", []byte(`{"name":"x","unknown":[1,{"a":2}],"age":3}`), newT[Basic](), json.RejectUnknownMembers(true)),
		unmarshalCall("unmarshal/stringified", "unmarshal", []byte(`{"i8":"-5","u64":"18446744073709551615","f32":"0.25","f64":"1e300","M":{"1":"2"}}`), newT[Nums](), json.StringifyNumbers(true)),
		unmarshalCall("unmarshal/overflow", "unmarshal", []byte(`{"i8":128}`), newT[Nums]()),
		unmarshalCall("unmarshal/textkeys", "unmarshal", []byte(`{"1/2":3,"4/5":6}`), newT[map[TextKey]int]()),
		unmarshalCall("unmarshal/syntax-start", "unmarshal", []byte(`x{"a":1}`), newT[any]()),
		unmarshalCall("unmarshal/syntax-middle", "unmarshal", []byte(`{"a":1,"b":[1,2,,3],"c":4}`), newT[any]()),
		unmarshalCall("unmarshal/syntax-end", "unmarshal", []byte(`{"a":1,"b":[1,2,3]`), newT[any]()),
		unmarshalCall("unmarshal/trailing-garbage", "unmarshal", []byte(`{"a":1} x`), newT[map[string]int]()),
		unmarshalCall("unmarshal/truncated-string", "unmarshal", []byte(`{"a":"unterminated`), newT[any]()),
		unmarshalCall("unmarshal/truncated-number", "unmarshal", []byte(`[1,2,3.`), newT[[]float64]()),
		unmarshalCall("unmarshal/truncated-literal", "unmarshal", []byte(`[true,nul`), newT[any]()),
		unmarshalCall("unmarshal/empty", "unmarshal", []byte(`   `), newT[any]()),
		unmarshalCall("unmarshal/semantic-deep", "unmarshal", []byte(`{"a":1,"b":"x","c":{"d":[{"e":1},{"e":"not a number"},{"e":3}]}}`), newT[Strict]()),
		unmarshalCall("unmarshal/semantic-then-syntax", "unmarshal", []byte(`{"a":"wrong","b":]`), newT[Strict]()),
		unmarshalCall("unmarshal/dup-rejected", "unmarshal", []byte(`{"a":1,"b":{"x":1,"y":2,"x":3},"a":2}`), newT[any]()),
		unmarshalCall("unmarshal/dup-allowed", "unmarshal", []byte(`{"a":1,"b":{"x":1,"y":2,"x":3},"a":2}`), newT[any](), jsontext.AllowDuplicateNames(true)),
		unmarshalCall("unmarshal/dup-escaped-spelling", "unmarshal", []byte(`{"a":1,"\u0061":2}`), newT[map[string]int]()),
		unmarshalCall("unmarshal/bad-utf8-rejected", "unmarshal", []byte("[\"ok\",\"bad\xffutf8\"]"), newT[[]string]()),
		unmarshalCall("unmarshal/bad-utf8-allowed", "unmarshal", []byte("[\"ok\",\"bad\xffutf8\"]"), newT[[]string](), jsontext.AllowInvalidUTF8(true)),
		unmarshalCall("unmarshal/bad-surrogate", "unmarshal", []byte(`["\ud800x"]`), newT[any]()),
		unmarshalCall("unmarshal/non-pointer", "unmarshal", []byte(`1`), func() any { return 5 }),
		unmarshalCall("unmarshal/nil-pointer", "unmarshal", []byte(`1`), func() any { return (*int)(nil) }),
		unmarshalCall("unmarshal/merge-into-prefilled", "unmarshal", []byte(`{"inner":{"tags":["new"]},"list":[{"id":9}],"any":{"k2":2}}`), func() any {
			b := basicValue()
			b.Any = map[string]any{"k1": 1}
			return b
		}),
		unmarshalReadCall("unmarshalread/buffer", "unmarshal", valid, 0, -1, newT[Basic]()),
		unmarshalReadCall("unmarshalread/one-byte-reader", "unmarshal", valid, 1, -1, newT[any]()),
		unmarshalReadCall("unmarshalread/chunk7-syntax-middle", "unmarshal", []byte(`{"a":1,"b":[1,2,,3],"c":4}`), 7, -1, newT[any]()),
		unmarshalReadCall("unmarshalread/io-fault", "unmarshal", valid, 16, 200, newT[Basic]()),
		unmarshalReadCall("unmarshalread/trailing", "unmarshal", []byte(`[1] [2]`), 3, -1, newT[[]int]()),
	)
	add(Call{Name: "unmarshal/v1.Unmarshal", Kind: "unmarshal", Run: func() Out {
		r := new(rec) // every error this execution receives is a retained result
		in := bytes.Clone(valid)
		target := new(Basic)
		res := catch(func() string { err := jsonv1.Unmarshal(in, target); return short(dump(target)) + " " + r.E(err) })
		return Out{Res: res, Keep: r.keep(func() string { return short(dump(target)) }), Scribble: func() { scribble(in) }}
	}})
	add(Call{Name: "unmarshaldecode/stream", Kind: "coder", Run: func() Out {
		r := new(rec) // every error this execution receives is a retained result
		in := []byte(`{"id":1} {"id":2,"tags":["x"]} {"id":"bad"} [1,2] {"id":4`)
		var got []any
		res := catch(func() string {
			dec := jsontext.NewDecoder(bytes.NewBuffer(in))
			var b strings.Builder
			for i := 0; i < 7; i++ {
				v := new(Inner)
				var err error
				if i == 1 {
					err = json.UnmarshalDecode(dec, v, json.RejectUnknownMembers(true))
				} else {
					err = json.UnmarshalDecode(dec, v)
				}
				got = append(got, v)
				fmt.Fprintf(&b, "%s %s off=%d|", dump(v), r.E(err), dec.InputOffset())
			}
			return b.String()
		})
		return Out{Res: res, Keep: r.keep(func() string { return dump(got) })}
	}})

	// ---- semantic errors that carry the offending JSON value (SemanticError.JSONValue): the error is
	// retained and re-examined after later calls / after the input is scribbled over; each text
	// arrives as a []byte, through a *bytes.Buffer and through a chunked reader (pooled streaming decoder)
	for _, tc := range []struct {
		name string
		text string
		mk   func() any
		o    []O
	}{
		{"int8-range", `{"u64":1, "i8":300, "f64":2}`, newT[Nums](), nil},
		{"int8-fraction", `{"pad":"` + strings.Repeat("p", 90) + `","i8":1.5}`, newT[Nums](), nil},
		{"uint-negative", `  {"u64":-17}`, newT[Nums](), nil},
		{"float64-range", `{"f32":1, "f64":1e999}`, newT[Nums](), nil},
		{"float32-range", `{"f32":3.5e38}`, newT[Nums](), nil},
		{"any-float-range", `[1, "two", {"deep":[-2e400]}]`, newT[any](), nil},
		{"map-key-range", `{"M":{"99999999999999999999":1}}`, newT[Nums](), nil},
		{"stringified-int-invalid", `{"i8":"12x"}`, newT[Nums](), opts(json.StringifyNumbers(true))},
		{"stringified-uint-invalid", `{"pad":[1,2,3,4,5,6,7,8,9,10,11,12,13,14,15,16], "u64":"-"}`, newT[Nums](), opts(json.StringifyNumbers(true))},
		{"stringified-float-invalid", `{"f64":"1e"}`, newT[Nums](), opts(json.StringifyNumbers(true))},
		{"slice-int-range-late", `[` + strings.Repeat("1,", 300) + `777777777777777777777777]`, newT[[]int32](), nil},
		{"v1-int-range", `{"i8":-129}`, newT[Nums](), opts(v1)},
	} {
		add(
			unmarshalCall("semval/"+tc.name+"/bytes", "semval", []byte(tc.text), tc.mk, tc.o...),
			unmarshalReadCall("semval/"+tc.name+"/buffer", "semval", []byte(tc.text), 0, -1, tc.mk, tc.o...),
			unmarshalReadCall("semval/"+tc.name+"/chunk5", "semval", []byte(tc.text), 5, -1, tc.mk, tc.o...),
			unmarshalReadCall("semval/"+tc.name+"/chunk64", "semval", []byte(tc.text), 64, -1, tc.mk, tc.o...),
		)
	}
	add(Call{Name: "semval/unmarshaldecode-stream-chunked", Kind: "semval", Run: func() Out {
		r := new(rec)
		in := []byte(`300 1 -5.5 ` + strings.Repeat(" ", 200) + ` 1e999 -129 3`)
		var got []any
		res := catch(func() string {
			dec := jsontext.NewDecoder(&chunkReader{b: in, n: 16, failAt: -1})
			var b strings.Builder
			for i := 0; i < 7; i++ {
				v := new(int8)
				err := json.UnmarshalDecode(dec, v)
				got = append(got, v)
				fmt.Fprintf(&b, "%d %s|", *v, r.E(err))
			}
			return b.String()
		})
		return Out{Res: res, Keep: r.keep(func() string { return dump(got) }), Scribble: func() { scribble(in) }}
	}})
	add(Call{Name: "semval/unmarshaldecode-stream-buffer", Kind: "semval", Run: func() Out {
		r := new(rec)
		in := []byte(`70000 1 1.5 "x" -1e3`)
		res := catch(func() string {
			dec := jsontext.NewDecoder(bytes.NewBuffer(in))
			var b strings.Builder
			for i := 0; i < 6; i++ {
				v := new(uint16)
				err := json.UnmarshalDecode(dec, v)
				fmt.Fprintf(&b, "%v %s|", *v, r.E(err))
			}
			return b.String()
		})
		return Out{Res: res, Keep: r.keep(func() string { return "" }), Scribble: func() { scribble(in) }}
	}})

	// ---- user unmarshal code
	for _, m := range []Mode{MOk, MPanic, MErr, MUnsupported} {
		m := m
		add(unmarshalCall(fmt.Sprintf("user/UnmarshalJSON-mode%d", m), "user", []byte(`[{"a":[1,2]},{"b":"x"}]`), func() any { return &[]ByMethod{{M: MOk}, {M: m}} }))
	}
	for _, m := range []Mode{MOk, MPanic, MErr, MHalfPanic, MHalfErr, MHalfNil, MTwo, MNone, MUnsupported} {
		m := m
		add(unmarshalCall(fmt.Sprintf("user/UnmarshalJSONFrom-mode%d", m), "user", []byte(`{"k":[{"a":[1,2]},{"b":["x","y",{"deep":null}]},{"c":3}]}`),
			func() any { return &map[string][]ToFrom{"k": {{M: MOk}, {M: m}, {M: MOk}}} }))
	}
	add(
		unmarshalCall("user/unmarshal-funcs-ok", "user", []byte(`[123456,7]`), func() any { return &[]FnOK{0, 0} }, json.WithUnmarshalers(userUnmarshalers)),
		unmarshalCall("user/unmarshal-funcs-panic", "user", []byte(`{"a":[1,2]}`), func() any { return &map[string][]FnPanic{} }, json.WithUnmarshalers(userUnmarshalers)),
		unmarshalCall("user/unmarshal-funcs-err", "user", []byte(`[1]`), func() any { return &[]FnErr{} }, json.WithUnmarshalers(userUnmarshalers)),
		unmarshalCall("user/unmarshal-funcs-half-panic", "user", []byte(`[0,[1,2,3],4]`), func() any { return &[]FnHalf{} }, json.WithUnmarshalers(userUnmarshalers)),
		unmarshalCall("user/unmarshal-funcs-skip", "user", []byte(`[5]`), func() any { return &[]FnSkip{} }, json.WithUnmarshalers(userUnmarshalers)),
		unmarshalReadCall("user/unmarshalread-half-panic-chunked", "user", []byte(`[{"a":[1,2]},{"b":["x","y",{"deep":null}]}]`), 5, -1,
			func() any { return &[]ToFrom{{M: MOk}, {M: MHalfPanic}} }),
	)

	// ---- strings colliding in the decoder's 256-slot intern cache
	add(
		unmarshalCall("intern/collide-any", "intern", internCollideDoc, newT[any]()),
		unmarshalCall("intern/collide-maps", "intern", internCollideDoc, newT[[]map[string]any]()),
		unmarshalCall("intern/collide-rawkeys-typed", "intern", []byte(`{"PREFIX__a__SUFFIX":"PREFIX__b__SUFFIX","PREFIX__b__SUFFIX":"PREFIX__a__SUFFIX","aaaa":"aaaaa","aaaaa":"aaaa","aa":"aaa","aaa":"aa"}`), newT[map[string]string]()),
		unmarshalCall("intern/many-slots", "intern", internManyDoc, newT[any]()),
		unmarshalReadCall("intern/collide-chunked", "intern", internCollideDoc, 64, -1, newT[any]()),
	)

	// ---- Value methods and AppendFormat
	messy := []byte(" { \"b\" : [ 1.0 , 2e1 , \"\\u003c\\ud83d\\ude00\" ] , \"a\" : { \"y\" : null , \"x\" : -0.0 } , \"\\u0061a\" : 1E+2 } ")
	add(
		formatCall("format/compact", fCompact, messy),
		formatCall("format/indent", fIndent, messy),
		formatCall("format/indent-opts", fIndent, messy, jsontext.WithIndent("\t"), jsontext.WithIndentPrefix("  ")),
		formatCall("format/canonicalize", fCanon, messy),
		formatCall("format/format-default", fFormat, messy),
		formatCall("format/format-opts", fFormat, messy, jsontext.CanonicalizeRawFloats(true), jsontext.SpaceAfterComma(true), jsontext.EscapeForHTML(true), jsontext.PreserveRawStrings(false)),
		formatCall("format/appendformat", fAppend, messy, jsontext.Multiline(true)),
		formatCall("format/appendformat-reorder", fAppend, messy, jsontext.ReorderRawObjects(true), jsontext.AllowDuplicateNames(false)),
		formatCall("format/error-start", fCompact, []byte(`?`)),
		formatCall("format/error-middle", fIndent, []byte(`{"a":[1,2,}`)),
		formatCall("format/error-end", fCanon, []byte(`{"a":[1,2]`)),
		formatCall("format/error-dup", fCanon, []byte(`{"a":1,"b":{"c":1,"c":1}}`)),
		formatCall("format/dup-allowed", fCompact, []byte(`{"a":1, "a":2}`), jsontext.AllowDuplicateNames(true)),
		formatCall("format/error-utf8", fFormat, []byte("[\"\xff\"]")),
		formatCall("format/error-trailing", fAppend, []byte(`[] []`)),
		formatCall("format/canonicalize-many-members", fCanon, manyMembersText),
	)

	// ---- token-level coder scripts
	for _, s := range EncScripts {
		add(encScriptCall(s))
	}
	for _, s := range DecScripts {
		add(decScriptCall(s))
	}
	for i := range cs {
		if cs[i].Name == "enc-script/deep-abandoned" || cs[i].Name == "dec-script/deep-abandoned" {
			cs[i].Kind = "deep"
		}
		if (cs[i].Kind == "deep" || cs[i].Kind == "cycle" || cs[i].Kind == "intern") && !cs[i].Heavy {
			cs[i].Deep = true
		}
	}
	return cs
}

type Inner2 struct {
	ID    int      `json:"id"`
	Tags  []string `json:"tags"`
	Ratio float64  `json:"ratio"`
}

// TextKeyDup marshals every key to the same text: a duplicate name the encoder must reject.
type TextKeyDup struct{ A int }

func (TextKeyDup) MarshalText() ([]byte, error) { return []byte("same"), nil }

func withHeavy(c Call) Call { c.Heavy = true; return c }

func nan() float64 { z := 0.0; return z / z }

func manyMembers(n int) []byte {
	var b bytes.Buffer
	b.WriteString("{")
	for i := 0; i < n; i++ {
		if i > 0 {
			b.WriteString(",")
		}
		fmt.Fprintf(&b, `"m%d":{"z":%d,"a":[%d]}`, (i*7919)%n, i, i)
	}
	b.WriteString("}")
	return b.Bytes()
}

// SeenProbe is a value whose marshaling activates the cycle tracker and leaves through a given exit path.
type SeenProbe struct {
	Name  string
	Value any
	Opts  []O
}

// SeenProbes: after MarshalEncode of each of these the encoder's SeenPointers must be empty.
func SeenProbes() []SeenProbe {
	v1 := jsonv1.DefaultOptionsV1()
	return []SeenProbe{
		{"deep slice ok", deepSliceOK(), nil},
		{"deep slice, leaf ok", deepSliceLeaf(), nil},
		{"deep slice, leaf panics", deepSliceLeaf(), opts(jsontext.EscapeForHTML(true))},
		{"deep slice, leaf returns error", deepSliceLeaf(), opts(jsontext.EscapeForJS(true))},
		{"deep map, leaf ok", deepMapLeaf(), nil},
		{"deep map, leaf panics", deepMapLeaf(), opts(jsontext.EscapeForHTML(true))},
		{"deep map, leaf returns error", deepMapLeaf(), opts(jsontext.EscapeForJS(true), json.Deterministic(true))},
		{"deep list ok", deepListOK(), nil},
		{"deep slice beyond the depth limit", deepSliceMax(), nil},
		{"cyclic slice", cycSlice(), nil},
		{"cyclic map", cycMap(), nil},
		{"cyclic list", cycList(), nil},
		{"cyclic mixed, v1", cycMixed(), opts(v1)},
		{"deep slice, unsupported leaf", deepSlice(1100, make(chan int)), nil},
		{"deep map, NaN leaf", deepMap(1100, nan()), nil},
		{"deep slice, MarshalJSONTo half then panic", deepSlice(1100, ToFrom{M: MHalfPanic}), nil},
		{"deep slice, MarshalJSON invalid", deepSlice(1100, ByMethod{M: MInvalid}), nil},
		{"deep slice v1", deepSliceOK(), opts(v1)},
	}
}
