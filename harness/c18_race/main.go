// Command c18race is the concurrency part of property C18: it is built with -race by
// harness/c18.go and runs the shared call pool on many goroutines in random orders, comparing
// every result with the sequential baseline (its own, and the one of the parent process when
// given) and re-checking data handed back by earlier calls.
//
//	c18race -seconds 10 -seed 1 -goroutines 16 [-baseline file.json]
//
// Output (stdout): MISMATCH / RETAINED / LIBPANIC lines, then one `DONE runs=… mismatches=…` line.
// The race detector writes `WARNING: DATA RACE` reports to stderr.
package main

import (
	"encoding/json"
	"flag"
	"fmt"
	"math/rand/v2"
	"os"
	"strings"
	"sync"
	"sync/atomic"
	"time"

	"github.com/go-json-experiment/json/verifh/c18_race/pool"
)

type kept struct {
	name string
	snap string
	keep func() string
}

func main() {
	seconds := flag.Float64("seconds", 10, "soak duration")
	seed := flag.Uint64("seed", 1, "PRNG seed")
	gor := flag.Int("goroutines", 16, "number of goroutines")
	baseFile := flag.String("baseline", "", "JSON array of baseline results from the parent process")
	flag.Parse()

	calls := pool.Build()
	var out sync.Mutex
	say := func(format string, a ...any) {
		out.Lock()
		fmt.Printf(format+"\n", a...)
		out.Unlock()
	}
	var mismatches atomic.Int64
	report := func(kind, name, got, want string) {
		if mismatches.Add(1) <= 20 {
			say("%s\t%s\t%s\t%s", kind, name, strings.ReplaceAll(got, "\n", "\\n"), strings.ReplaceAll(want, "\n", "\\n"))
		}
	}

	// baseline: the parent's (every call alone, first in its process) when given — the soak then also
	// covers "same result in another process" — otherwise a sequential pass of this process
	base := make([]string, len(calls))
	if *baseFile == "" {
		for i, c := range calls {
			base[i] = c.Run().Res
			if strings.HasPrefix(base[i], pool.LibPanicPrefix) {
				report("LIBPANIC", c.Name, base[i], "")
			}
		}
	}
	if *baseFile != "" {
		b, err := os.ReadFile(*baseFile)
		if err != nil {
			fmt.Fprintln(os.Stderr, "c18race:", err)
			os.Exit(2)
		}
		var parent []string
		if err := json.Unmarshal(b, &parent); err != nil || len(parent) != len(calls) {
			fmt.Fprintln(os.Stderr, "c18race: bad baseline file")
			os.Exit(2)
		}
		base = parent
	}

	// calls that go through process-wide shared structures beyond the coder pools (the sorted-keys
	// scratch pool of Deterministic, the member pool of Canonicalize) are drawn more often
	var draw []int
	for i, c := range calls {
		w := 1
		if c.Kind == "det" || strings.Contains(c.Name, "canonicalize") || strings.Contains(c.Name, "reorder") {
			w = 4
		}
		if c.Kind == "semval" { // errors that carry bytes of the input: retained and re-read by other goroutines
			w = 2
		}
		for k := 0; k < w; k++ {
			draw = append(draw, i)
		}
	}
	deadline := time.Now().Add(time.Duration(*seconds * float64(time.Second)))
	var runs, heavyRuns, keptChecks atomic.Int64
	// results (data AND errors) retained by one goroutine are re-examined by the others
	var sharedMu sync.Mutex
	var shared [32]kept
	sharedN := 0
	var wg sync.WaitGroup
	for g := 0; g < *gor; g++ {
		wg.Add(1)
		go func(g int) {
			defer wg.Done()
			rng := rand.New(rand.NewPCG(*seed, uint64(g)+1000))
			var ring [6]kept
			n := 0
			for time.Now().Before(deadline) {
				i := draw[rng.IntN(len(draw))]
				c := calls[i]
				if c.Heavy {
					if rng.IntN(8) != 0 {
						continue
					}
					heavyRuns.Add(1)
				} else if c.Deep && rng.IntN(3) != 0 {
					continue
				}
				o := c.Run()
				runs.Add(1)
				if o.Res != base[i] {
					report("MISMATCH", c.Name, o.Res, base[i])
				}
				if o.Keep != nil && (c.Kind == "semval" || rng.IntN(3) == 0) && (!c.Heavy || rng.IntN(4) == 0) {
					snap := o.Keep()
					if o.Scribble != nil {
						o.Scribble()
						if s2 := o.Keep(); s2 != snap {
							report("RETAINED-AFTER-SCRIBBLE", c.Name, trunc(s2), trunc(snap))
						}
					}
					ring[n%len(ring)] = kept{c.Name, snap, o.Keep}
					n++
					if rng.IntN(2) == 0 {
						sharedMu.Lock()
						shared[sharedN%len(shared)] = kept{c.Name, snap, o.Keep}
						sharedN++
						sharedMu.Unlock()
					}
				}
				if rng.IntN(3) == 0 { // something another goroutine was handed earlier
					sharedMu.Lock()
					var k kept
					if sharedN > 0 {
						k = shared[rng.IntN(min(sharedN, len(shared)))]
					}
					sharedMu.Unlock()
					if k.keep != nil {
						keptChecks.Add(1)
						if s2 := k.keep(); s2 != k.snap {
							report("RETAINED", k.name+" (retained by another goroutine; seen after "+c.Name+")", trunc(s2), trunc(k.snap))
						}
					}
				}
				if n > 0 && rng.IntN(2) == 0 {
					k := ring[rng.IntN(min(n, len(ring)))]
					keptChecks.Add(1)
					if s2 := k.keep(); s2 != k.snap {
						report("RETAINED", k.name+" (after "+c.Name+")", trunc(s2), trunc(k.snap))
					}
				}
			}
		}(g)
	}
	wg.Wait()
	say("DONE runs=%d heavy=%d kept_checks=%d mismatches=%d calls=%d goroutines=%d", runs.Load(), heavyRuns.Load(), keptChecks.Load(), mismatches.Load(), len(calls), *gor)
}

func trunc(s string) string {
	if len(s) > 300 {
		return s[:300] + "…"
	}
	return s
}
