package main

// C03, call SEQUENCES.  "The same tree is obtained whichever internal route is taken" must also hold when the
// routes are interleaved in one goroutine over long-lived inputs: the library recycles decoders through
// sync.Pools (bufferedDecoderPool, streamingDecoderPool, the pool of decoders that alias a caller's
// *bytes.Buffer), so a call can inherit state from the previous call on the same P.
//
// A sequence is a script over a few persistent caller-owned objects: three *bytes.Buffer that are Reset and
// rewritten between calls (a text written now may be consumed several calls later: it is PENDING caller data),
// a bytes.Reader, a strings.Reader, chunked / one-byte readers, and a caller-owned jsontext.Decoder that is
// Reset between calls.  After EVERY call
//   (1) the decoded tree must equal the reference meaning of the text that call was given (spec tree, exact
//       floats; ErrRange when a literal overflows), and
//   (2) every pending buffer must still hold exactly what the caller wrote, and the []byte handed to
//       Unmarshal / bytes.Reader must be unchanged: the library must not write into memory it does not own.
// The garbage collector is switched off during a sequence (debug.SetGCPercent(-1), restored afterwards) so the
// pools are not emptied and reuse is the normal case.

import (
	"bytes"
	"encoding/hex"
	stdjson "encoding/json"
	"fmt"
	"io"
	"math/rand/v2"
	"runtime/debug"
	"strings"
	"testing/iotest"

	json "github.com/go-json-experiment/json"
	jtext "github.com/go-json-experiment/json/jsontext"
)

type c03SeqOp struct {
	Kind string `json:"kind"` // fill readbuf decbuf read-bytes read-strings read-chunk read-1byte dec-own dec-new unmarshal
	Buf  int    `json:"buf"`
	Text int    `json:"text"` // index into the sequence's texts
	Opt  int    `json:"opt"`  // index into c03OptSets
}

const c03SeqBufs = 3

var c03SeqOther = []string{"read-bytes", "read-strings", "read-chunk", "read-1byte", "dec-own", "dec-new", "unmarshal"}

// chunkReader returns at most n bytes per Read.
type c03ChunkReader struct {
	r io.Reader
	n int
}

func (c *c03ChunkReader) Read(p []byte) (int, error) {
	if len(p) > c.n {
		p = p[:c.n]
	}
	return c.r.Read(p)
}

// c03SeqScript draws a script over nTexts texts.
func c03SeqScript(rng *rand.Rand, nTexts, nOps int) []c03SeqOp {
	var ops []c03SeqOp
	pending := [c03SeqBufs]bool{}
	next := 0
	take := func() int { t := next % nTexts; next++; return t }
	opt := func() int {
		if rng.IntN(3) == 0 {
			return rng.IntN(len(c03OptSets))
		}
		return 0
	}
	for len(ops) < nOps {
		var full, empty []int
		for i, p := range pending {
			if p {
				full = append(full, i)
			} else {
				empty = append(empty, i)
			}
		}
		switch k := rng.IntN(10); {
		case k < 4 && len(full) > 0:
			i := full[rng.IntN(len(full))]
			kind := "readbuf"
			if rng.IntN(5) == 0 {
				kind = "decbuf"
			}
			ops = append(ops, c03SeqOp{Kind: kind, Buf: i, Opt: opt()})
			pending[i] = false
			if rng.IntN(10) < 7 { // the caller reuses the buffer for its next message right away
				ops = append(ops, c03SeqOp{Kind: "fill", Buf: i, Text: take()})
				pending[i] = true
			}
		case k < 6 && len(empty) > 0:
			i := empty[rng.IntN(len(empty))]
			ops = append(ops, c03SeqOp{Kind: "fill", Buf: i, Text: take()})
			pending[i] = true
		default:
			ops = append(ops, c03SeqOp{Kind: c03SeqOther[rng.IntN(len(c03SeqOther))], Text: take(), Opt: opt()})
		}
	}
	return ops
}

// c03RunSeq interprets a script.  It returns false after the first violation (the rest of the sequence would
// only repeat it).
func c03RunSeq(c *Ctx, texts []c03Text, ops []c03SeqOp) bool {
	old := debug.SetGCPercent(-1)
	defer debug.SetGCPercent(old)

	var bufs [c03SeqBufs]*bytes.Buffer
	for i := range bufs {
		bufs[i] = bytes.NewBuffer(make([]byte, 0, 16<<uint(2*i)))
	}
	var pendText [c03SeqBufs]int
	var pending [c03SeqBufs]bool
	var snap [c03SeqBufs][]byte
	br := bytes.NewReader(nil)
	sr := strings.NewReader("")
	own := jtext.NewDecoder(bytes.NewReader(nil))

	describe := func(upto int) []map[string]any {
		var l []map[string]any
		for j := max(0, upto-24); j <= upto; j++ {
			o := ops[j]
			m := map[string]any{"kind": o.Kind, "buf": o.Buf, "opt": o.Opt}
			if o.Kind != "readbuf" && o.Kind != "decbuf" {
				m["text_hex"] = hex.EncodeToString(texts[o.Text].b)
			}
			l = append(l, m)
		}
		return l
	}

	for k, o := range ops {
		if o.Kind == "fill" {
			t := texts[o.Text]
			bufs[o.Buf].Reset()
			bufs[o.Buf].Write(t.b)
			pendText[o.Buf], pending[o.Buf] = o.Text, true
			snap[o.Buf] = bytes.Clone(t.b)
			continue
		}
		ti := o.Text
		if o.Kind == "readbuf" || o.Kind == "decbuf" {
			if !pending[o.Buf] {
				fail("c03 sequence script consumes an empty buffer")
			}
			ti = pendText[o.Buf]
		}
		t := texts[ti]
		opts := c03OptSets[o.Opt].opts
		in := bytes.Clone(t.b) // caller-owned input for the slice/reader routes
		var x any
		var err error
		p := guard(func() {
			switch o.Kind {
			case "readbuf":
				err = json.UnmarshalRead(bufs[o.Buf], &x, opts...)
			case "decbuf":
				own.Reset(bufs[o.Buf])
				err = json.UnmarshalDecode(own, &x, opts...)
				if err == nil {
					err = c03ExpectEOF(own)
				}
			case "read-bytes":
				br.Reset(in)
				err = json.UnmarshalRead(br, &x, opts...)
			case "read-strings":
				sr.Reset(string(in))
				err = json.UnmarshalRead(sr, &x, opts...)
			case "read-chunk":
				br.Reset(in)
				err = json.UnmarshalRead(&c03ChunkReader{br, 1 + len(in)/3}, &x, opts...)
			case "read-1byte":
				br.Reset(in)
				err = json.UnmarshalRead(iotest.OneByteReader(br), &x, opts...)
			case "dec-own":
				br.Reset(in)
				own.Reset(br)
				err = json.UnmarshalDecode(own, &x, opts...)
				if err == nil {
					err = c03ExpectEOF(own)
				}
			case "dec-new":
				d := jtext.NewDecoder(bytes.NewReader(in))
				err = json.UnmarshalDecode(d, &x, opts...)
				if err == nil {
					err = c03ExpectEOF(d)
				}
			case "unmarshal":
				err = json.Unmarshal(in, &x, opts...)
			default:
				fail("c03 sequence: unknown op %q", o.Kind)
			}
		})
		op := "seq/" + o.Kind + "/" + c03OptSets[o.Opt].name
		if p != nil {
			c.Panic(op, t.b, p, map[string]any{"sequence": describe(k)})
			return false
		}
		if o.Kind == "readbuf" || o.Kind == "decbuf" {
			pending[o.Buf] = false
		}
		c.Case(fmt.Sprintf("%s|%d|%s", op, k, t.b), true)
		c.Hit("seq:" + o.Kind)
		// (1) the tree of THIS call
		class := c03Classify(err)
		switch {
		case c03HasOvf(t.ref):
			if class != "range" {
				c.Violate("seq-overflow-not-reported", op, t.b, map[string]any{"class": class, "step": k, "sequence": describe(k)})
				return false
			}
		case class != "":
			c.Violate("seq-valid-text-rejected", op, t.b, map[string]any{"class": class, "err": fmt.Sprint(err), "step": k, "sequence": describe(k)})
			return false
		case !c03Equal(x, t.ref):
			c.Violate("seq-meaning", op, t.b, map[string]any{"got": c03Str(x), "want": c03Str(t.ref), "step": k, "sequence": describe(k)})
			return false
		}
		// (2) memory the caller owns
		if !bytes.Equal(in, t.b) {
			c.Violate("seq-input-modified", op, t.b, map[string]any{"now": hex.EncodeToString(in), "step": k, "sequence": describe(k)})
			return false
		}
		for i := range bufs {
			if pending[i] && !bytes.Equal(bufs[i].Bytes(), snap[i]) {
				c.Violate("seq-caller-buffer-overwritten", op, snap[i], map[string]any{"buffer": i, "now": hex.EncodeToString(bufs[i].Bytes()),
					"step": k, "sequence": describe(k)})
				return false
			}
		}
	}
	return true
}

func c03ExpectEOF(d *jtext.Decoder) error {
	if _, err := d.ReadToken(); err != io.EOF {
		if err == nil {
			return &jtext.SyntacticError{Err: fmt.Errorf("trailing data")}
		}
		return err
	}
	return nil
}

// c03SeqTexts draws n moderate texts and validates the generator's meaning against the spec tree.
func c03SeqTexts(c *Ctx, or *Oracle, g *c03Gen, n int) []c03Text {
	var texts []c03Text
	for len(texts) < n {
		t := g.text()
		if len(t.b) > 3000 || t.depth > 200 {
			continue
		}
		texts = append(texts, t)
	}
	if or != nil {
		lines := make([]string, n)
		for i, t := range texts {
			lines[i] = "tree parse " + hx(t.b)
		}
		for i, a := range or.Ask(lines) {
			spec, class, dup := c03FromOracle(a, func(lit, spec, ref string) {
				c.Violate("corr-f64Round", "tree f64", []byte(lit), map[string]any{"spec": spec, "math/big": ref})
			})
			if class != "" || dup || !c03RefEqual(spec, texts[i].ref) {
				fail("sequence text: spec and generator disagree on %q", trunc(string(texts[i].b), 200))
			}
			texts[i].ref = spec
		}
	}
	return texts
}

// c03Sequences runs nSeq random sequences in the calling goroutine.
func c03Sequences(c *Ctx, or *Oracle, nSeq int) {
	rng := c.SubRng(4242)
	g := &c03Gen{rng: rng, c: c, fams: c03Families(rand.New(rand.NewPCG(c.Seed, 99))), feats: map[string]bool{}}
	for s := 0; s < nSeq; s++ {
		nTexts := 8 + rng.IntN(24)
		texts := c03SeqTexts(c, or, g, nTexts)
		ops := c03SeqScript(rng, nTexts, 40+rng.IntN(80))
		c.Hit("seq:sequences")
		if !c03RunSeq(c, texts, ops) && c.numViolations() >= 6 {
			return
		}
	}
}

// c03ReplaySeq re-runs the sequence recorded in a replay file, if it has one.
func c03ReplaySeq(c *Ctx, or *Oracle, raw []byte) bool {
	var f struct {
		Violation struct {
			Detail struct {
				Sequence []struct {
					Kind string `json:"kind"`
					Buf  int    `json:"buf"`
					Opt  int    `json:"opt"`
					Text string `json:"text_hex"`
				} `json:"sequence"`
			} `json:"detail"`
		} `json:"violation"`
	}
	if err := stdjson.Unmarshal(raw, &f); err != nil || len(f.Violation.Detail.Sequence) == 0 {
		return false
	}
	if or == nil {
		fail("replay needs the oracle")
	}
	var texts []c03Text
	var ops []c03SeqOp
	pending := [c03SeqBufs]bool{}
	for _, s := range f.Violation.Detail.Sequence {
		o := c03SeqOp{Kind: s.Kind, Buf: s.Buf, Opt: s.Opt}
		if s.Kind == "readbuf" || s.Kind == "decbuf" {
			if !pending[s.Buf] {
				continue // its fill lies before the recorded window
			}
			pending[s.Buf] = false
		} else {
			b, err := hex.DecodeString(s.Text)
			if err != nil {
				fail("replay: %v", err)
			}
			ref, class, dup := c03FromOracle(or.Ask1("tree parse "+hx(b)), func(string, string, string) {})
			if class != "" || dup {
				fail("replay: sequence text is not a valid duplicate-free text")
			}
			o.Text = len(texts)
			texts = append(texts, c03Text{b: b, ref: ref})
			if s.Kind == "fill" {
				pending[s.Buf] = true
			}
		}
		ops = append(ops, o)
	}
	c03RunSeq(c, texts, ops)
	return true
}
