package main

import (
	"os"
	"runtime/pprof"
)

func init() {
	if p := os.Getenv("C08_CPUPROFILE"); p != "" {
		f, _ := os.Create(p)
		pprof.StartCPUProfile(f)
		c8stopProf = pprof.StopCPUProfile
	}
}
